package main

import (
	"context"
	"errors"
	"fmt"
	"net"
	"os"
	"strconv"
	"strings"
	"sync"
	"time"

	NoKV "github.com/feichai0017/NoKV"
	"github.com/feichai0017/NoKV/pb"
	"github.com/feichai0017/NoKV/raftstore/client"
	rkv "github.com/feichai0017/NoKV/raftstore/kv"
	"google.golang.org/grpc"
	"google.golang.org/grpc/codes"
	"google.golang.org/grpc/credentials/insecure"
	"google.golang.org/grpc/status"
	"google.golang.org/protobuf/proto"

	"verif/harness/hlib"
)

// ---------------------------------------------------------------- the store side (real kv.Apply)

type kvService struct {
	pb.UnimplementedTinyKvServer
	db *NoKV.DB
	mu sync.Mutex // one command at a time, as a region's apply loop does

	// C30 scheduled raft witness: when armed, every Prewrite waits until `needReads` BatchGets have
	// been served, and two-phase commits run one after the other (no lock conflicts).
	schedMu   sync.Mutex
	armed     bool
	needReads int
	reads     int
	readsCh   chan struct{}
	twoPC     chan struct{}
	openKeys  map[uint64]int // start version -> prewritten keys not committed yet
}

func (s *kvService) arm(needReads int) {
	s.schedMu.Lock()
	defer s.schedMu.Unlock()
	s.armed, s.needReads, s.reads = true, needReads, 0
	s.readsCh = make(chan struct{})
	s.twoPC = make(chan struct{}, 1)
	s.openKeys = map[uint64]int{}
}

func (s *kvService) disarm() {
	s.schedMu.Lock()
	defer s.schedMu.Unlock()
	s.armed = false
}

func (s *kvService) noteRead() {
	s.schedMu.Lock()
	defer s.schedMu.Unlock()
	if !s.armed {
		return
	}
	s.reads++
	if s.reads == s.needReads {
		close(s.readsCh)
	}
}

// beforePrewrite returns a release function to call when the transaction is over
func (s *kvService) beforePrewrite() func() {
	s.schedMu.Lock()
	armed, rc, tp := s.armed, s.readsCh, s.twoPC
	s.schedMu.Unlock()
	if !armed {
		return func() {}
	}
	select {
	case <-rc:
	case <-time.After(15 * time.Second):
	}
	select {
	case tp <- struct{}{}:
	case <-time.After(15 * time.Second):
	}
	return func() {
		select {
		case <-tp:
		default:
		}
	}
}

func (s *kvService) notePrewritten(start uint64, n int) {
	s.schedMu.Lock()
	defer s.schedMu.Unlock()
	if s.armed {
		s.openKeys[start] += n
	}
}

// afterCommit releases the two-phase-commit slot once every key the transaction prewrote has been
// committed (the client may commit the primary alone first and the rest in further RPCs)
func (s *kvService) afterCommit(start uint64, n int) {
	s.schedMu.Lock()
	armed, tp := s.armed, s.twoPC
	done := false
	if armed {
		s.openKeys[start] -= n
		done = s.openKeys[start] <= 0
	}
	s.schedMu.Unlock()
	if armed && done {
		select {
		case <-tp:
		default:
		}
	}
}

func (s *kvService) apply(ctx *pb.Context, req *pb.Request) (*pb.Response, error) {
	if ctx == nil || ctx.GetRegionId() == 0 {
		return nil, status.Error(codes.InvalidArgument, "context required")
	}
	s.mu.Lock()
	defer s.mu.Unlock()
	resp, err := rkv.Apply(s.db, &pb.RaftCmdRequest{
		Header:   &pb.CmdHeader{RegionId: ctx.GetRegionId(), RegionEpoch: ctx.GetRegionEpoch(), PeerId: ctx.GetPeer().GetPeerId()},
		Requests: []*pb.Request{req},
	})
	if err != nil {
		return nil, status.Errorf(codes.Internal, "%v", err)
	}
	if len(resp.GetResponses()) != 1 {
		return nil, status.Error(codes.Internal, "no response")
	}
	return resp.GetResponses()[0], nil
}

func (s *kvService) KvGet(_ context.Context, req *pb.KvGetRequest) (*pb.KvGetResponse, error) {
	r, err := s.apply(req.GetContext(), &pb.Request{CmdType: pb.CmdType_CMD_GET, Cmd: &pb.Request_Get{Get: req.GetRequest()}})
	if err != nil {
		return nil, err
	}
	return &pb.KvGetResponse{Response: r.GetGet()}, nil
}

func (s *kvService) KvPrewrite(_ context.Context, req *pb.KvPrewriteRequest) (*pb.KvPrewriteResponse, error) {
	release := s.beforePrewrite()
	r, err := s.apply(req.GetContext(), &pb.Request{CmdType: pb.CmdType_CMD_PREWRITE, Cmd: &pb.Request_Prewrite{Prewrite: req.GetRequest()}})
	if err != nil {
		release()
		return nil, err
	}
	if len(r.GetPrewrite().GetErrors()) > 0 {
		release() // the client will not commit
	} else {
		s.notePrewritten(req.GetRequest().GetStartVersion(), len(req.GetRequest().GetMutations()))
	}
	return &pb.KvPrewriteResponse{Response: r.GetPrewrite()}, nil
}

func (s *kvService) KvCommit(_ context.Context, req *pb.KvCommitRequest) (*pb.KvCommitResponse, error) {
	r, err := s.apply(req.GetContext(), &pb.Request{CmdType: pb.CmdType_CMD_COMMIT, Cmd: &pb.Request_Commit{Commit: req.GetRequest()}})
	s.afterCommit(req.GetRequest().GetStartVersion(), len(req.GetRequest().GetKeys()))
	if err != nil {
		return nil, err
	}
	return &pb.KvCommitResponse{Response: r.GetCommit()}, nil
}

func (s *kvService) KvBatchRollback(_ context.Context, req *pb.KvBatchRollbackRequest) (*pb.KvBatchRollbackResponse, error) {
	r, err := s.apply(req.GetContext(), &pb.Request{CmdType: pb.CmdType_CMD_BATCH_ROLLBACK, Cmd: &pb.Request_BatchRollback{BatchRollback: req.GetRequest()}})
	if err != nil {
		return nil, err
	}
	return &pb.KvBatchRollbackResponse{Response: r.GetBatchRollback()}, nil
}

func (s *kvService) KvResolveLock(_ context.Context, req *pb.KvResolveLockRequest) (*pb.KvResolveLockResponse, error) {
	r, err := s.apply(req.GetContext(), &pb.Request{CmdType: pb.CmdType_CMD_RESOLVE_LOCK, Cmd: &pb.Request_ResolveLock{ResolveLock: req.GetRequest()}})
	if err != nil {
		return nil, err
	}
	return &pb.KvResolveLockResponse{Response: r.GetResolveLock()}, nil
}

func (s *kvService) KvCheckTxnStatus(_ context.Context, req *pb.KvCheckTxnStatusRequest) (*pb.KvCheckTxnStatusResponse, error) {
	r, err := s.apply(req.GetContext(), &pb.Request{CmdType: pb.CmdType_CMD_CHECK_TXN_STATUS, Cmd: &pb.Request_CheckTxnStatus{CheckTxnStatus: req.GetRequest()}})
	if err != nil {
		return nil, err
	}
	return &pb.KvCheckTxnStatusResponse{Response: r.GetCheckTxnStatus()}, nil
}

// ---------------------------------------------------------------- routing: three regions, two stores

var regionBounds = [][2]string{{"", "b"}, {"b", "c"}, {"c", ""}} // region ids 1,2,3

func regionMetas() []*pb.RegionMeta {
	var out []*pb.RegionMeta
	for i, b := range regionBounds {
		id := uint64(i + 1)
		out = append(out, &pb.RegionMeta{Id: id, StartKey: []byte(b[0]), EndKey: []byte(b[1]), EpochVersion: 1, EpochConfVersion: 1,
			Peers: []*pb.RegionPeer{{StoreId: 1, PeerId: id*10 + 1}, {StoreId: 2, PeerId: id*10 + 2}}})
	}
	return out
}

type staticResolver struct{ metas []*pb.RegionMeta }

func (r *staticResolver) GetRegionByKey(_ context.Context, req *pb.GetRegionByKeyRequest) (*pb.GetRegionByKeyResponse, error) {
	k := string(req.GetKey())
	for _, m := range r.metas {
		if (len(m.StartKey) == 0 || k >= string(m.StartKey)) && (len(m.EndKey) == 0 || k < string(m.EndKey)) {
			return &pb.GetRegionByKeyResponse{Region: proto.Clone(m).(*pb.RegionMeta)}, nil
		}
	}
	return &pb.GetRegionByKeyResponse{NotFound: true}, nil
}
func (r *staticResolver) Close() error { return nil }

// ---------------------------------------------------------------- the gate

type decision struct {
	kind  string           // deliver | drop | lose | notleader | epoch | abort
	metas []*pb.RegionMeta // epoch: the regions the EpochNotMatch reply carries
}

type pendingRPC struct {
	method string
	req    proto.Message
	result string // store-side result class, filled by the interceptor after the call
	decide chan decision
	done   chan struct{} // closed when the interceptor has acted on the decision
}

type gate struct {
	mu      sync.Mutex
	enabled bool
	pending chan *pendingRPC
}

var errInjected = status.Error(codes.Unavailable, "verif: injected network failure")

func (g *gate) intercept(ctx context.Context, method string, req, reply any, cc *grpc.ClientConn, invoker grpc.UnaryInvoker, opts ...grpc.CallOption) error {
	g.mu.Lock()
	on := g.enabled
	ch := g.pending
	g.mu.Unlock()
	if !on {
		return invoker(ctx, method, req, reply, cc, opts...)
	}
	p := &pendingRPC{method: method, req: proto.Clone(req.(proto.Message)), decide: make(chan decision, 1), done: make(chan struct{})}
	ch <- p
	d := <-p.decide
	defer close(p.done)
	switch d.kind {
	case "deliver":
		err := invoker(ctx, method, req, reply, cc, opts...)
		p.result = classifyReply(reply, err)
		return err
	case "lose":
		err := invoker(ctx, method, req, reply, cc, opts...)
		p.result = classifyReply(reply, err)
		return errInjected
	case "notleader":
		rid, cur := regionOf(req)
		other := uint64(1)
		if cur == 1 {
			other = 2
		}
		re := &pb.RegionError{NotLeader: &pb.NotLeader{RegionId: rid, Leader: &pb.RegionPeer{StoreId: other, PeerId: rid*10 + other}}}
		switch r := reply.(type) {
		case *pb.KvPrewriteResponse:
			r.RegionError = re
		case *pb.KvCommitResponse:
			r.RegionError = re
		default:
			return errInjected
		}
		return nil
	case "epoch":
		re := &pb.RegionError{EpochNotMatch: &pb.EpochNotMatch{Regions: d.metas}}
		switch r := reply.(type) {
		case *pb.KvPrewriteResponse:
			r.RegionError = re
		case *pb.KvCommitResponse:
			r.RegionError = re
		default:
			return errInjected
		}
		return nil
	default: // drop, abort
		return errInjected
	}
}

func regionOf(req any) (uint64, uint64) {
	type ctxer interface{ GetContext() *pb.Context }
	if c, ok := req.(ctxer); ok {
		return c.GetContext().GetRegionId(), c.GetContext().GetPeer().GetStoreId()
	}
	return 0, 0
}

func keyErrClass(e *pb.KeyError) string {
	switch {
	case e == nil:
		return "ok"
	case e.GetLocked() != nil:
		return "locked"
	case e.GetWriteConflict() != nil:
		return "conflict"
	case e.GetCommitTsExpired() != nil:
		return "expired"
	case strings.Contains(e.GetAbort(), "lock not found"):
		return "nolock"
	case strings.Contains(e.GetAbort(), "rolled back"):
		return "rolledback"
	case e.GetAbort() != "":
		return "abort"
	case e.GetRetryable() != "":
		return "retryable"
	}
	return "other"
}

func classifyReply(reply any, err error) string {
	if err != nil {
		return "rpcerr"
	}
	switch r := reply.(type) {
	case *pb.KvPrewriteResponse:
		if r.GetRegionError() != nil {
			return "regionerr"
		}
		errs := r.GetResponse().GetErrors()
		if len(errs) == 0 {
			return "ok"
		}
		cl := make([]string, len(errs))
		for i, e := range errs {
			cl[i] = keyErrClass(e)
		}
		return "err:" + strings.Join(cl, ",")
	case *pb.KvCommitResponse:
		if r.GetRegionError() != nil {
			return "regionerr"
		}
		if e := r.GetResponse().GetError(); e != nil {
			return "err:" + keyErrClass(e)
		}
		return "ok"
	}
	return "other"
}

// ---------------------------------------------------------------- engine

type twoPCEngine struct {
	dir       string
	db        *NoKV.DB
	srv       *grpc.Server
	svc       *kvService
	addr      string
	gate      *gate
	txnCli    *client.Client
	resCli    *client.Client
	raw       pb.TinyKvClient
	rawConn   *grpc.ClientConn
	nsSeq     int
	reruns    int
	stuck     int
	maxRerun  int
	topoDirty bool
}

func (e *twoPCEngine) newTxnClient() {
	if e.txnCli != nil {
		_ = e.txnCli.Close()
	}
	stores := []client.StoreEndpoint{{StoreID: 1, Addr: e.addr}, {StoreID: 2, Addr: e.addr}}
	creds := grpc.WithTransportCredentials(insecure.NewCredentials())
	cli, err := client.New(client.Config{Stores: stores, RegionResolver: &staticResolver{regionMetas()}, MaxRetries: 3,
		DialOptions: []grpc.DialOption{creds, grpc.WithUnaryInterceptor(e.gate.intercept)}})
	if err != nil {
		panic(err)
	}
	e.txnCli = cli
}

func newTwoPCEngine() *twoPCEngine {
	dir, err := os.MkdirTemp("", "verif-c28-")
	if err != nil {
		panic(err)
	}
	opt := NoKV.NewDefaultOptions()
	opt.WorkDir = dir
	opt.WriteBatchWait = 0 // latency only: no coalescing delay in the commit queue
	db := NoKV.Open(opt)
	e := &twoPCEngine{dir: dir, db: db, gate: &gate{}}
	e.svc = &kvService{db: db}
	lis, err := net.Listen("tcp", "127.0.0.1:0")
	if err != nil {
		panic(err)
	}
	e.addr = lis.Addr().String()
	e.srv = grpc.NewServer()
	pb.RegisterTinyKvServer(e.srv, e.svc)
	go func() { _ = e.srv.Serve(lis) }()
	stores := []client.StoreEndpoint{{StoreID: 1, Addr: e.addr}, {StoreID: 2, Addr: e.addr}}
	creds := grpc.WithTransportCredentials(insecure.NewCredentials())
	e.txnCli, err = client.New(client.Config{Stores: stores, RegionResolver: &staticResolver{regionMetas()}, MaxRetries: 3,
		DialOptions: []grpc.DialOption{creds, grpc.WithUnaryInterceptor(e.gate.intercept)}})
	if err != nil {
		panic(err)
	}
	e.resCli, err = client.New(client.Config{Stores: stores, RegionResolver: &staticResolver{regionMetas()}, MaxRetries: 3,
		DialOptions: []grpc.DialOption{creds}})
	if err != nil {
		panic(err)
	}
	e.rawConn, err = grpc.NewClient(e.addr, creds)
	if err != nil {
		panic(err)
	}
	e.raw = pb.NewTinyKvClient(e.rawConn)
	return e
}

func (e *twoPCEngine) close() {
	_ = e.txnCli.Close()
	_ = e.resCli.Close()
	_ = e.rawConn.Close()
	e.srv.Stop()
	_ = e.db.Close()
	_ = os.RemoveAll(e.dir)
}

func (e *twoPCEngine) Rule() string {
	return "C28: one transaction of 1-4 put/delete mutations over 1-3 regions (every primary choice and mutation order), optional older committed values / a foreign lock / a newer write on its keys; the real client's RPCs are delivered, dropped, answered after the reply is lost, answered NotLeader or EpochNotMatch (epoch bump, split moving the RPC's keys to a new sibling region, merge into the neighbour) or re-delivered one by one, with CheckTxnStatus (current ts below/at/above lock expiry and commit version) and ResolveLocks of a second client, and the requests of other clients' transactions on the same keys (prewrite, commit, rollback, resolve, check-status; unique timestamps), interleaved at any point, client restarts with the same versions, then full resolution and a read of every key at the commit version; non-trivial = a fault or a resolver step happened before the client finished and the final observation is settled (no lock left) on a transaction with at least one put"
}

func (e *twoPCEngine) Extra() map[string]any {
	return map[string]any{"reruns_for_map_order": e.reruns, "stuck": e.stuck}
}

// one case (fresh key namespace); ok=false: Go's map iteration produced a non-canonical region
// order, the caller reruns the case
type caseRun struct {
	e       *twoPCEngine
	ns      string
	regions map[int]int // key id -> region id
	primary int
	start   uint64
	cv      uint64
	ttl     uint64
	muts    []*pb.Mutation
	keyIDs  []int

	cancel           context.CancelFunc
	resCh            chan error
	pend             *pendingRPC
	status           string // running | done | failed | none
	idx              int
	hist             []proto.Message // every RPC the client has sent, in order (re-sends of the same RPC once)
	world            map[int]int     // key id -> region id as the cluster has it now
	runReg           map[int]int     // key id -> region id as the current run of TwoPhaseCommit grouped it
	stale            map[int]bool    // keys that left their region since the current run grouped them
	topoDone         map[int]bool    // regions already split / merged away in this case
	ver              map[int]uint64  // region id -> epoch version
	learned          string          // "", "rolledback", "committed"
	learnedV         uint64
	live             bool
	splitKey         map[int]string // region -> key it was split at
	mergedInto       map[int]int    // region -> neighbour it was merged into
	preSeen, comSeen []uint64
	nonCanonical     bool
}

func (c *caseRun) key(id int) []byte {
	r := c.regions[id]
	if r < 1 || r > 3 {
		r = 1
	}
	return []byte(fmt.Sprintf("%c%s/k%d", 'a'+r-1, c.ns, id))
}

func (c *caseRun) keyID(k []byte) int {
	s := string(k)
	i := strings.LastIndex(s, "/k")
	if i < 0 {
		return -1
	}
	n, _ := strconv.Atoi(s[i+2:])
	return n
}

func (c *caseRun) ctxFor(id int) *pb.Context {
	r := uint64(c.regions[id])
	if r < 1 || r > 3 {
		r = 1
	}
	return &pb.Context{RegionId: r, RegionEpoch: &pb.RegionEpoch{Version: 1, ConfVer: 1}, Peer: &pb.RegionPeer{StoreId: 1, PeerId: r*10 + 1}}
}

func (c *caseRun) rpcDesc(m proto.Message) string {
	switch r := m.(type) {
	case *pb.KvPrewriteRequest:
		ids := []string{}
		for _, mu := range r.GetRequest().GetMutations() {
			ids = append(ids, strconv.Itoa(c.keyID(mu.GetKey())))
		}
		return "pre:" + strings.Join(ids, ",")
	case *pb.KvCommitRequest:
		ids := []string{}
		for _, k := range r.GetRequest().GetKeys() {
			ids = append(ids, strconv.Itoa(c.keyID(k)))
		}
		return "com:" + strings.Join(ids, ",")
	}
	return "other"
}

// waitClient blocks until the client has its next RPC at the gate or has returned.
func (c *caseRun) waitClient() {
	c.pend = nil
	select {
	case p := <-c.e.gate.pending:
		c.pend = p
		c.status = "running"
		c.noteOrder(p.req)
	case err := <-c.resCh:
		c.live = false
		if err == nil {
			c.status = "done"
		} else {
			c.status = "failed"
		}
	case <-time.After(20 * time.Second):
		c.status = "stuck"
		c.e.stuck++
	}
}

// the model lists the non-primary regions in a fixed order in both phases; the j-th RPC of a
// phase for a non-primary region must be for the j-th such region (a NotLeader retry repeats one)
func (c *caseRun) noteOrder(m proto.Message) {
	rid, _ := regionOf(m)
	pr := uint64(c.runReg[c.primary])
	if rid == pr {
		return
	}
	var seen *[]uint64
	switch m.(type) {
	case *pb.KvPrewriteRequest:
		seen = &c.preSeen
	case *pb.KvCommitRequest:
		seen = &c.comSeen
	default:
		return
	}
	if n := len(*seen); n > 0 && (*seen)[n-1] == rid {
		return
	}
	*seen = append(*seen, rid)
	others := c.otherRegions()
	if n := len(*seen); n > len(others) || others[n-1] != rid {
		c.nonCanonical = true
	}
}

// Go ranges over the `grouped` map in unspecified order; the model uses the order of first
// appearance in the mutation list (the likeliest one for a small Go map, which keeps reruns rare).
func (c *caseRun) otherRegions() []uint64 {
	pr := c.runReg[c.primary]
	seen := map[int]bool{}
	var out []uint64
	for _, k := range c.keyIDs {
		if r := c.runReg[k]; r != pr && !seen[r] {
			seen[r] = true
			out = append(out, uint64(r))
		}
	}
	return out
}

func (c *caseRun) startClient() {
	ctx, cancel := context.WithCancel(context.Background())
	c.cancel = cancel
	c.resCh = make(chan error, 1)
	c.live = true
	c.idx = 0
	c.preSeen, c.comSeen = nil, nil
	// the run groups the keys by the client's routing cache, which is up to date here: every
	// topology change of a case reaches the client through an EpochNotMatch reply
	if c.world == nil {
		c.world, c.stale, c.topoDone, c.ver = map[int]int{}, map[int]bool{}, map[int]bool{}, map[int]uint64{}
		for _, k := range c.keyIDs {
			c.world[k] = c.regions[k]
		}
	}
	c.runReg = map[int]int{}
	for k, r := range c.world {
		c.runReg[k] = r
	}
	c.stale = map[int]bool{}
	muts := make([]*pb.Mutation, len(c.muts))
	for i, m := range c.muts {
		muts[i] = proto.Clone(m).(*pb.Mutation)
	}
	go func() {
		c.resCh <- c.e.txnCli.TwoPhaseCommit(ctx, c.key(c.primary), muts, c.start, c.cv, c.ttl)
	}()
	c.waitClient()
	c.logPending(true)
}

// logPending appends the pending RPC to the history when it is a new one (not a re-send)
func (c *caseRun) logPending(newRPC bool) {
	if c.pend != nil && newRPC {
		c.hist = append(c.hist, c.pend.req)
	}
}

func (c *caseRun) pendingKeys() []int {
	var ids []int
	switch r := c.pend.req.(type) {
	case *pb.KvPrewriteRequest:
		for _, mu := range r.GetRequest().GetMutations() {
			ids = append(ids, c.keyID(mu.GetKey()))
		}
	case *pb.KvCommitRequest:
		for _, k := range r.GetRequest().GetKeys() {
			ids = append(ids, c.keyID(k))
		}
	}
	return ids
}

func (c *caseRun) pendingStale() bool {
	for _, k := range c.pendingKeys() {
		if c.stale[k] {
			return true
		}
	}
	return false
}

// regionMeta describes region `id` as the cluster has it now.  Original regions 1..3 own one
// letter each; region 10+r is the sibling split off r at `splitKey[r]`; a merged-away region's
// range belongs to its neighbour.
func (c *caseRun) regionMeta(id int) *pb.RegionMeta {
	bound := func(r int) (string, string) { return regionBounds[r-1][0], regionBounds[r-1][1] }
	var start, end string
	switch {
	case id > 10:
		_, e := bound(id - 10)
		start, end = c.splitKey[id-10], e
	default:
		start, end = bound(id)
		if k, ok := c.splitKey[id]; ok {
			end = k
		}
		for from, to := range c.mergedInto {
			if to == id {
				fs, fe := bound(from)
				if from < id {
					start = fs
				} else {
					end = fe
				}
			}
		}
	}
	uid := uint64(id)
	return &pb.RegionMeta{Id: uid, StartKey: []byte(start), EndKey: []byte(end), EpochVersion: c.ver[id] + 1, EpochConfVersion: 1,
		Peers: []*pb.RegionPeer{{StoreId: 1, PeerId: uid*10 + 1}, {StoreId: 2, PeerId: uid*10 + 2}}}
}

func (c *caseRun) act(kind string) string {
	p := c.pend
	p.decide <- decision{kind: kind}
	<-p.done
	return p.result
}

func (c *caseRun) direct(m proto.Message) string {
	ctx, cancel := context.WithTimeout(context.Background(), 10*time.Second)
	defer cancel()
	switch r := m.(type) {
	case *pb.KvPrewriteRequest:
		resp, err := c.e.raw.KvPrewrite(ctx, r)
		return classifyReply(resp, err)
	case *pb.KvCommitRequest:
		resp, err := c.e.raw.KvCommit(ctx, r)
		return classifyReply(resp, err)
	}
	return "other"
}

// finish lets a still-running client run to its end: every RPC it still sends fails.
func (c *caseRun) finish() {
	for c.live {
		if c.pend != nil {
			c.pend.decide <- decision{kind: "abort"}
			<-c.pend.done
			c.pend = nil
		}
		select {
		case p := <-c.e.gate.pending:
			c.pend = p
		case <-c.resCh:
			c.live = false
		case <-time.After(10 * time.Second):
			c.live = false
			c.e.stuck++
		}
	}
	if c.cancel != nil {
		c.cancel()
	}
}

func kvArg(toks []string, k string) string {
	for _, t := range toks {
		if strings.HasPrefix(t, k+"=") {
			return t[len(k)+1:]
		}
	}
	return ""
}

func (e *twoPCEngine) Exec(ops []string) []string {
	for try := 0; ; try++ {
		out, ok := e.execOnce(ops)
		if ok || try >= 200 {
			if tf := os.Getenv("C28_TRACE"); tf != "" {
				f, _ := os.OpenFile(tf, os.O_APPEND|os.O_CREATE|os.O_WRONLY, 0o644)
				fmt.Fprintf(f, "CASE try=%d\n", try)
				for i := range ops {
					fmt.Fprintf(f, "%s => %s\n", ops[i], out[i])
				}
				f.Close()
			}
			return out
		}
		e.reruns++
	}
}

func (e *twoPCEngine) execOnce(ops []string) ([]string, bool) {
	e.nsSeq++
	if e.topoDirty {
		// a case with splits / merges left its regions in the client's routing cache
		e.newTxnClient()
		e.topoDirty = false
	}
	c := &caseRun{e: e, ns: fmt.Sprintf("%06d", e.nsSeq), regions: map[int]int{}, status: "none",
		splitKey: map[int]string{}, mergedInto: map[int]int{}}
	e.gate.mu.Lock()
	e.gate.enabled = true
	e.gate.pending = make(chan *pendingRPC, 4)
	e.gate.mu.Unlock()
	defer func() {
		c.finish()
		e.gate.mu.Lock()
		e.gate.enabled = false
		e.gate.mu.Unlock()
	}()
	out := make([]string, len(ops))
	bg := context.Background()
	// key -> region is fixed for the whole case (a minimised replay may have lost its `regions`
	// line while seeds precede the `txn` line that carries the same map)
	for _, op := range ops {
		toks := strings.Fields(op)
		if len(toks) == 0 || (toks[0] != "regions" && toks[0] != "txn") {
			continue
		}
		arg := kvArg(toks, "map")
		if toks[0] == "txn" {
			arg = kvArg(toks, "regions")
		}
		for _, p := range strings.Split(arg, ",") {
			ab := strings.Split(p, ":")
			if len(ab) == 2 {
				k, _ := strconv.Atoi(ab[0])
				r, _ := strconv.Atoi(ab[1])
				if _, ok := c.regions[k]; !ok {
					c.regions[k] = r
				}
			}
		}
	}
	for i, op := range ops {
		toks := strings.Fields(op)
		if len(toks) == 0 {
			out[i] = "bad-op"
			continue
		}
		num := func(j int) uint64 {
			if j >= len(toks) {
				return 0
			}
			n, _ := strconv.ParseUint(toks[j], 10, 64)
			return n
		}
		switch toks[0] {
		case "seedput":
			k := int(num(1))
			if _, ok := c.regions[k]; !ok {
				c.regions[k] = 1
			}
			pr, err := e.raw.KvPrewrite(bg, &pb.KvPrewriteRequest{Context: c.ctxFor(k), Request: &pb.PrewriteRequest{
				Mutations:   []*pb.Mutation{{Op: pb.Mutation_Put, Key: c.key(k), Value: []byte(strconv.FormatUint(num(4), 10))}},
				PrimaryLock: c.key(k), StartVersion: num(2)}})
			cr, err2 := e.raw.KvCommit(bg, &pb.KvCommitRequest{Context: c.ctxFor(k), Request: &pb.CommitRequest{
				Keys: [][]byte{c.key(k)}, StartVersion: num(2), CommitVersion: num(3)}})
			out[i] = classifyReply(pr, err) + "/" + classifyReply(cr, err2)
		case "seedlock":
			k := int(num(1))
			if _, ok := c.regions[k]; !ok {
				c.regions[k] = 1
			}
			pr, err := e.raw.KvPrewrite(bg, &pb.KvPrewriteRequest{Context: c.ctxFor(k), Request: &pb.PrewriteRequest{
				Mutations:   []*pb.Mutation{{Op: pb.Mutation_Put, Key: c.key(k), Value: []byte("0")}},
				PrimaryLock: c.key(k), StartVersion: num(2), LockTtl: num(3)}})
			out[i] = classifyReply(pr, err)
		case "regions":
			// regions k:r,…  must precede seeds so that seeded keys live in the right region
			for _, p := range strings.Split(kvArg(toks, "map"), ",") {
				ab := strings.Split(p, ":")
				if len(ab) == 2 {
					k, _ := strconv.Atoi(ab[0])
					r, _ := strconv.Atoi(ab[1])
					c.regions[k] = r
				}
			}
			out[i] = "ok"
		case "txn":
			for _, p := range strings.Split(kvArg(toks, "regions"), ",") {
				ab := strings.Split(p, ":")
				if len(ab) == 2 {
					k, _ := strconv.Atoi(ab[0])
					r, _ := strconv.Atoi(ab[1])
					c.regions[k] = r
				}
			}
			c.primary, _ = strconv.Atoi(kvArg(toks, "p"))
			c.start, _ = strconv.ParseUint(kvArg(toks, "start"), 10, 64)
			c.cv, _ = strconv.ParseUint(kvArg(toks, "cv"), 10, 64)
			c.ttl, _ = strconv.ParseUint(kvArg(toks, "ttl"), 10, 64)
			c.muts, c.keyIDs = nil, nil
			for _, m := range strings.Split(kvArg(toks, "muts"), ",") {
				f := strings.Split(m, ":")
				if len(f) != 3 {
					continue
				}
				k, _ := strconv.Atoi(f[0])
				c.keyIDs = append(c.keyIDs, k)
				if f[1] == "p" {
					c.muts = append(c.muts, &pb.Mutation{Op: pb.Mutation_Put, Key: c.key(k), Value: []byte(f[2])})
				} else {
					c.muts = append(c.muts, &pb.Mutation{Op: pb.Mutation_Delete, Key: c.key(k)})
				}
			}
			c.startClient()
			out[i] = "ok st=" + c.status
		case "deliver", "lose", "drop", "notleader", "epoch", "split", "merge":
			if c.status == "none" {
				out[i] = "no-txn"
				break
			}
			if c.status != "running" || c.pend == nil {
				out[i] = "idle st=" + c.status
				break
			}
			desc := c.rpcDesc(c.pend.req)
			was := c.idx
			rid64, _ := regionOf(c.pend.req)
			rg := int(rid64)
			var res string
			epochReply := func(ids ...int) {
				var metas []*pb.RegionMeta
				for _, id := range ids {
					metas = append(metas, c.regionMeta(id))
				}
				p := c.pend
				p.decide <- decision{kind: "epoch", metas: metas}
				<-p.done
			}
			current := func() []int { // the regions that now cover what `rg` covered
				ids := []int{rg}
				if _, ok := c.splitKey[rg]; ok {
					ids = append(ids, 10+rg)
				}
				return ids
			}
			switch op := toks[0]; {
			case (op == "deliver" || op == "lose") && c.pendingStale():
				// the store refuses a request naming a key outside the region's range
				epochReply(current()...)
				res = "regionerr"
			case op == "epoch":
				c.ver[rg]++
				epochReply(current()...)
				res = "epoch"
			case op == "split":
				keys := c.pendingKeys()
				if len(keys) == 0 || rg < 1 || rg > 3 || c.topoDone[rg] || c.pendingStale() {
					c.ver[rg]++
					epochReply(current()...)
					res = "epoch"
					break
				}
				kmin := keys[0]
				for _, k := range keys {
					if k < kmin {
						kmin = k
					}
				}
				c.splitKey[rg] = string(c.key(kmin))
				for k, r := range c.world {
					if r == rg && k >= kmin {
						c.world[k] = 10 + rg
						c.stale[k] = true
					}
				}
				c.topoDone[rg] = true
				c.ver[rg]++
				e.topoDirty = true
				epochReply(rg, 10+rg)
				res = "split"
			case op == "merge":
				keys := c.pendingKeys()
				tgt := rg - 1
				if rg == 1 {
					tgt = 2
				}
				if len(keys) == 0 || rg < 1 || rg > 3 || c.topoDone[rg] || c.topoDone[tgt] || c.pendingStale() {
					c.ver[rg]++
					epochReply(current()...)
					res = "epoch"
					break
				}
				c.mergedInto[rg] = tgt
				for k, r := range c.world {
					if r == rg {
						c.world[k] = tgt
					}
				}
				c.topoDone[rg] = true
				c.ver[tgt]++
				e.topoDirty = true
				epochReply(tgt)
				res = "merge"
			default:
				res = c.act(toks[0])
				switch toks[0] {
				case "drop":
					res = "dropped"
				case "notleader":
					res = "notleader"
				}
			}
			c.waitClient()
			advanced := false
			if toks[0] == "deliver" && res != "regionerr" && (c.status == "running" || c.status == "done") {
				// the client went on: next program index
				c.idx = was + 1
				advanced = true
			}
			c.logPending(advanced)
			out[i] = desc + " " + res + " st=" + c.status
		case "redeliver":
			if c.status == "none" {
				out[i] = "no-txn"
				break
			}
			j := int(num(1))
			if j >= len(c.hist) {
				out[i] = "none st=" + c.status
				break
			}
			m := c.hist[j]
			out[i] = c.rpcDesc(m) + " " + c.direct(m) + " st=" + c.status
		case "restart":
			if c.status == "none" {
				out[i] = "no-txn"
				break
			}
			if c.status == "running" {
				out[i] = "busy st=" + c.status
				break
			}
			c.startClient()
			out[i] = "restarted st=" + c.status
		case "check":
			if c.status == "none" {
				out[i] = "no-txn"
				break
			}
			resp, err := e.resCli.CheckTxnStatus(bg, c.key(c.primary), c.start, num(1))
			switch {
			case err != nil:
				out[i] = "rpcerr"
			case resp.GetError() != nil:
				out[i] = keyErrClass(resp.GetError())
			case resp.GetCommitVersion() > 0:
				c.learned, c.learnedV = "committed", resp.GetCommitVersion()
				out[i] = fmt.Sprintf("committed:%d", resp.GetCommitVersion())
			case resp.GetAction() == pb.CheckTxnStatusAction_CheckTxnStatusTTLExpireRollback,
				resp.GetAction() == pb.CheckTxnStatusAction_CheckTxnStatusLockNotExistRollback:
				c.learned = "rolledback"
				out[i] = "rolledback"
			default:
				out[i] = "alive"
			}
		case "resolve":
			if c.status == "none" {
				out[i] = "no-txn"
				break
			}
			if c.learned == "" {
				out[i] = "skip"
				break
			}
			var keys [][]byte
			own := map[int]bool{}
			for _, k := range c.keyIDs {
				own[k] = true
			}
			if len(toks) > 1 && toks[1] != "-" {
				for _, s := range strings.Split(toks[1], ",") {
					k, _ := strconv.Atoi(s)
					if own[k] {
						keys = append(keys, c.key(k))
					}
				}
			}
			cv := uint64(0)
			if c.learned == "committed" {
				cv = c.learnedV
			}
			n, err := e.resCli.ResolveLocks(bg, c.start, cv, keys)
			if err != nil {
				out[i] = "err:" + resolveErrClass(err)
			} else {
				out[i] = fmt.Sprintf("ok:%d", n)
			}
		case "foreign", "foreignabort", "foreigncommit", "foreignresolve", "foreigncheck":
			// a request of another transaction (start ts toks[2]) on one key, straight to the store
			if c.status == "none" {
				out[i] = "no-txn"
				break
			}
			k, fts := int(num(1)), num(2)
			if _, ok := c.regions[k]; !ok {
				c.regions[k] = 1
			}
			switch toks[0] {
			case "foreign":
				pr, err := e.raw.KvPrewrite(bg, &pb.KvPrewriteRequest{Context: c.ctxFor(k), Request: &pb.PrewriteRequest{
					Mutations:   []*pb.Mutation{{Op: pb.Mutation_Put, Key: c.key(k), Value: []byte(strconv.FormatUint(num(4), 10))}},
					PrimaryLock: c.key(k), StartVersion: fts, LockTtl: num(3)}})
				out[i] = classifyReply(pr, err)
			case "foreignabort":
				rr, err := e.raw.KvBatchRollback(bg, &pb.KvBatchRollbackRequest{Context: c.ctxFor(k), Request: &pb.BatchRollbackRequest{
					Keys: [][]byte{c.key(k)}, StartVersion: fts}})
				switch {
				case err != nil:
					out[i] = "rpcerr"
				case rr.GetResponse().GetError() != nil:
					out[i] = "err:" + keyErrClass(rr.GetResponse().GetError())
				default:
					out[i] = "ok"
				}
			case "foreigncommit":
				cr, err := e.raw.KvCommit(bg, &pb.KvCommitRequest{Context: c.ctxFor(k), Request: &pb.CommitRequest{
					Keys: [][]byte{c.key(k)}, StartVersion: fts, CommitVersion: num(3)}})
				out[i] = classifyReply(cr, err)
			case "foreignresolve":
				rr, err := e.raw.KvResolveLock(bg, &pb.KvResolveLockRequest{Context: c.ctxFor(k), Request: &pb.ResolveLockRequest{
					Keys: [][]byte{c.key(k)}, StartVersion: fts, CommitVersion: num(3)}})
				switch {
				case err != nil:
					out[i] = "rpcerr"
				case rr.GetResponse().GetError() != nil:
					out[i] = "err:" + keyErrClass(rr.GetResponse().GetError())
				default:
					out[i] = fmt.Sprintf("ok:%d", rr.GetResponse().GetResolvedLocks())
				}
			case "foreigncheck":
				cur := num(3)
				rr, err := e.raw.KvCheckTxnStatus(bg, &pb.KvCheckTxnStatusRequest{Context: c.ctxFor(k), Request: &pb.CheckTxnStatusRequest{
					PrimaryKey: c.key(k), LockTs: fts, CurrentTs: cur, CallerStartTs: cur, RollbackIfNotExist: true}})
				resp := rr.GetResponse()
				switch {
				case err != nil:
					out[i] = "rpcerr"
				case resp.GetError() != nil:
					out[i] = keyErrClass(resp.GetError())
				case resp.GetCommitVersion() > 0:
					out[i] = fmt.Sprintf("committed:%d", resp.GetCommitVersion())
				case resp.GetAction() == pb.CheckTxnStatusAction_CheckTxnStatusTTLExpireRollback,
					resp.GetAction() == pb.CheckTxnStatusAction_CheckTxnStatusLockNotExistRollback:
					out[i] = "rolledback"
				default:
					out[i] = "alive"
				}
			}
		case "get":
			if c.status == "none" {
				out[i] = "no-txn"
				break
			}
			out[i] = c.get(int(num(1)), num(2))
		case "observe":
			if c.status == "none" {
				out[i] = "no-txn"
				break
			}
			parts := []string{}
			for _, k := range c.keyIDs {
				parts = append(parts, fmt.Sprintf("%d=%s", k, c.get(k, c.cv)))
			}
			out[i] = strings.Join(parts, " ")
		default:
			out[i] = "bad-op"
		}
		if c.nonCanonical {
			return out, false
		}
	}
	return out, true
}

func resolveErrClass(err error) string {
	s := err.Error()
	switch {
	case strings.Contains(s, "commit_ts_expired"):
		return "expired"
	case strings.Contains(s, "rolled back"):
		return "rolledback"
	}
	return "other"
}

func (c *caseRun) get(k int, v uint64) string {
	resp, err := c.e.resCli.Get(context.Background(), c.key(k), v)
	switch {
	case err != nil:
		return "rpcerr"
	case resp.GetError() != nil:
		return keyErrClass(resp.GetError())
	case resp.GetNotFound():
		return "notfound"
	}
	return "val:" + string(resp.GetValue())
}

func (e *twoPCEngine) Nontrivial(ops, impl, model, spec []string) bool {
	fault, running, settledPut := false, false, false
	hasPut := false
	for i, op := range ops {
		k := strings.Fields(op)[0]
		switch k {
		case "txn":
			running = strings.HasSuffix(impl[i], "st=running")
			hasPut = strings.Contains(op, ":p:")
		case "drop", "lose", "notleader", "epoch", "split", "merge", "redeliver", "check", "resolve", "restart", "foreign", "foreignabort", "foreigncommit", "foreignresolve", "foreigncheck":
			if running {
				fault = true
			}
		case "observe":
			if !strings.Contains(impl[i], "locked") && hasPut {
				settledPut = true
			}
		}
		if strings.Contains(impl[i], "st=done") {
			running = false
		}
	}
	return fault && settledPut
}

var _ = errors.New

// ---------------------------------------------------------------- generator

func (e *twoPCEngine) Gen(r *hlib.Rand, tier string) []string {
	r = hlib.NewRand(r.U64() ^ seedMix)
	nReg := 1 + r.Intn(3)
	nKeys := nReg + r.Intn(5-nReg) // nReg..4
	if nKeys > 4 {
		nKeys = 4
	}
	regs := make([]int, nKeys)
	for i := range regs {
		if i < nReg {
			regs[i] = i + 1
		} else {
			regs[i] = 1 + r.Intn(nReg)
		}
	}
	// shuffle key order (mutation order) and pick the primary
	order := make([]int, nKeys)
	for i := range order {
		order[i] = i
	}
	for i := nKeys - 1; i > 0; i-- {
		j := r.Intn(i + 1)
		order[i], order[j] = order[j], order[i]
	}
	primary := r.Intn(nKeys)
	start := uint64(10)
	cv := hlib.Pick(r, []uint64{11, 12, 15})
	ttl := hlib.Pick(r, []uint64{0, 3, 5, 20})
	var rm, mm []string
	for k := 0; k < nKeys; k++ {
		rm = append(rm, fmt.Sprintf("%d:%d", k, regs[k]))
	}
	for _, k := range order {
		op := "p"
		if r.Chance(20) {
			op = "d"
		}
		mm = append(mm, fmt.Sprintf("%d:%s:%d", k, op, 100+k))
	}
	ops := []string{"regions map=" + strings.Join(rm, ",")}
	// earlier state
	for k := 0; k < nKeys; k++ {
		if r.Chance(35) {
			ops = append(ops, fmt.Sprintf("seedput %d %d %d %d", k, 1+2*k, 2+2*k, 50+k))
		}
	}
	// every timestamp of a case is used once (a TSO never hands one out twice): older seeds use
	// 1..8, the transaction 10 and 11|12|15, a newer write 13/14 or 20/21, a foreign lock 9 or 30
	if r.Chance(12) {
		if r.Bool() {
			ops = append(ops, fmt.Sprintf("seedput %d 20 21 70", r.Intn(nKeys))) // newer write: conflict
		} else {
			ops = append(ops, fmt.Sprintf("seedput %d 13 14 70", r.Intn(nKeys))) // started after, committed around the commit version: conflict
		}
	}
	if r.Chance(12) {
		ops = append(ops, fmt.Sprintf("seedlock %d %d %d", r.Intn(nKeys), hlib.Pick(r, []uint64{9, 30}), 0))
	}
	ops = append(ops, fmt.Sprintf("txn p=%d start=%d cv=%d ttl=%d muts=%s regions=%s", primary, start, cv, ttl, strings.Join(mm, ","), strings.Join(rm, ",")))
	curPool := []uint64{start, start + ttl - 1, start + ttl, cv - 1, cv, cv + 3, 1000}
	if ttl == 0 {
		curPool[1] = start + 1
	}
	allKeys := []string{}
	for k := 0; k < nKeys; k++ {
		allKeys = append(allKeys, strconv.Itoa(k))
	}
	someKeys := func() string {
		var ks []string
		// keys of one region (ResolveLocks sends one RPC per region; Go's map order between regions is unspecified)
		reg := 1 + r.Intn(nReg)
		for k := 0; k < nKeys; k++ {
			if regs[k] == reg && r.Chance(80) {
				ks = append(ks, strconv.Itoa(k))
			}
		}
		if len(ks) == 0 {
			return "-"
		}
		return strings.Join(ks, ",")
	}
	// the protocol has at most 2+2+... RPCs; fault position uniform over them
	maxRPC := 2*nReg + 2
	faultAt := r.Intn(maxRPC + 1)
	faultKind := hlib.Pick(r, []string{"drop", "lose", "notleader", "none", "check", "check", "topo", "topo"})
	steps := 0
	// other clients' transactions: unused, unique (start, commit) timestamp pairs; each of them
	// prewrites one of our keys and later commits, gives up, checks its status or gets resolved
	foreignTs := [][2]uint64{{16, 17}, {18, 19}, {22, 23}, {24, 25}, {26, 27}, {28, 29}}
	type fw struct {
		k       int
		ts, cts uint64
	}
	var foreigns []fw
	foreign := func() {
		if len(foreignTs) == 0 {
			return
		}
		p := foreignTs[0]
		foreignTs = foreignTs[1:]
		k := r.Intn(nKeys)
		foreigns = append(foreigns, fw{k, p[0], p[1]})
		ops = append(ops, fmt.Sprintf("foreign %d %d %d %d", k, p[0], hlib.Pick(r, []uint64{0, 4}), 900+k))
	}
	foreignAbort := func() {
		if len(foreigns) == 0 {
			return
		}
		f := hlib.Pick(r, foreigns)
		switch x := r.Intn(100); {
		case x < 45:
			ops = append(ops, fmt.Sprintf("foreigncommit %d %d %d", f.k, f.ts, f.cts))
		case x < 65:
			ops = append(ops, fmt.Sprintf("foreignabort %d %d", f.k, f.ts))
		case x < 80:
			ops = append(ops, fmt.Sprintf("foreigncheck %d %d %d", f.k, f.ts, hlib.Pick(r, []uint64{f.ts, f.ts + 4, 1000})))
		default:
			ops = append(ops, fmt.Sprintf("foreignresolve %d %d %d", f.k, f.ts, hlib.Pick(r, []uint64{0, f.cts})))
		}
	}
	env := func() {
		switch x := r.Intn(115); {
		case x >= 108:
			foreignAbort()
		case x >= 100:
			foreign()
		case x < 45:
			ops = append(ops, fmt.Sprintf("check %d", hlib.Pick(r, curPool)))
		case x < 75:
			ops = append(ops, "resolve "+someKeys())
		case x < 90:
			ops = append(ops, fmt.Sprintf("redeliver %d", r.Intn(maxRPC+1)))
		default:
			ops = append(ops, fmt.Sprintf("get %d %d", r.Intn(nKeys), hlib.Pick(r, []uint64{9, 10, cv, 1000})))
		}
	}
	for steps < maxRPC+2 {
		if steps == faultAt {
			switch faultKind {
			case "drop", "lose":
				ops = append(ops, faultKind)
			case "notleader":
				for j := 0; j <= r.Intn(3); j++ {
					ops = append(ops, "notleader")
				}
			case "check":
				ops = append(ops, fmt.Sprintf("check %d", hlib.Pick(r, curPool)))
				if r.Chance(50) {
					ops = append(ops, "resolve "+someKeys())
				}
			case "topo":
				// the region of the pending RPC changes between two RPCs (any phase boundary)
				ops = append(ops, hlib.Pick(r, []string{"split", "split", "epoch", "merge"}))
			}
		}
		if r.Chance(15) {
			env()
		}
		if r.Chance(4) {
			ops = append(ops, hlib.Pick(r, []string{"split", "epoch", "merge"}))
		}
		ops = append(ops, "deliver")
		steps++
	}
	// aftermath: duplicates, resolver, client retry
	for j := r.Intn(4); j > 0; j-- {
		env()
	}
	if r.Chance(35) {
		ops = append(ops, "restart")
		for j := r.Intn(maxRPC + 2); j > 0; j-- {
			if r.Chance(20) {
				env()
			}
			ops = append(ops, "deliver")
		}
		if r.Chance(30) {
			ops = append(ops, hlib.Pick(r, []string{"drop", "lose"}))
		}
	}
	if r.Chance(40) {
		ops = append(ops, fmt.Sprintf("redeliver %d", r.Intn(maxRPC+1)))
	}
	if r.Chance(25) {
		// a later writer runs into whatever the transaction left behind, then gives up
		foreign()
		if r.Chance(70) {
			foreignAbort()
		}
	}
	// settle: the primary's fate is decided with an expired-lock current ts, every region resolved
	settle := func() {
		ops = append(ops, "check 1000")
		for reg := 1; reg <= nReg; reg++ {
			var ks []string
			for k := 0; k < nKeys; k++ {
				if regs[k] == reg {
					ks = append(ks, strconv.Itoa(k))
				}
			}
			ops = append(ops, "resolve "+strings.Join(ks, ","))
		}
		ops = append(ops, "observe")
	}
	if !(ttl == 0 && r.Chance(50)) {
		settle()
	} else {
		ops = append(ops, "observe")
	}
	if r.Chance(40) {
		// finality: more duplicates / a retry after the outcome was observed
		for j := 1 + r.Intn(3); j > 0; j-- {
			switch r.Intn(3) {
			case 0:
				ops = append(ops, fmt.Sprintf("redeliver %d", r.Intn(maxRPC+1)))
			case 1:
				ops = append(ops, "restart", "deliver", "deliver")
			default:
				env()
			}
		}
		settle()
	}
	return ops
}

package main

// C30: the REAL nokv-redis binary, built from the current tree, is hammered over TCP.
//
//   embedded   nokv-redis -workdir <tmp> -addr 127.0.0.1:<p>           (options exactly as main.go sets them)
//   raft       nokv-redis -raft-config <cfg> -pd-addr <fake PD> …      the gateway's real raftBackend and
//              raftstore client talk to an in-process TinyKv service (real raftstore/kv.Apply on a
//              real NoKV DB, one region) and a minimal PD (TSO counter + GetRegionByKey)
//
// `seq.*` lines: one connection, deterministic, compared with the model line by line.
// `stress.*` lines: N connections at once; the oracle is the property itself (final value vs the
// deltas of the commands that replied OK; number of OK replies per SET NX key) — sound for every
// correct implementation.  This is validation by stress, not a schedule-exact correspondence.

import (
	"bufio"
	"context"
	"encoding/json"
	"fmt"
	"net"
	"os"
	"os/exec"
	"path/filepath"
	"strconv"
	"strings"
	"sync"
	"sync/atomic"
	"time"

	NoKV "github.com/feichai0017/NoKV"
	"github.com/feichai0017/NoKV/pb"
	"google.golang.org/grpc"

	"verif/harness/hlib"
)

// ---------------------------------------------------------------- RESP client

type respConn struct {
	c net.Conn
	r *bufio.Reader
}

func dialResp(addr string) (*respConn, error) {
	c, err := net.DialTimeout("tcp", addr, 5*time.Second)
	if err != nil {
		return nil, err
	}
	return &respConn{c: c, r: bufio.NewReader(c)}, nil
}

// do sends one command; reply classes: "OK", "int:<n>", "bulk:<s>", "nil", "err:<msg>", "io:<err>"
func (rc *respConn) do(args ...string) string {
	var b strings.Builder
	fmt.Fprintf(&b, "*%d\r\n", len(args))
	for _, a := range args {
		fmt.Fprintf(&b, "$%d\r\n%s\r\n", len(a), a)
	}
	_ = rc.c.SetDeadline(time.Now().Add(60 * time.Second))
	if _, err := rc.c.Write([]byte(b.String())); err != nil {
		return "io:" + err.Error()
	}
	line, err := rc.r.ReadString('\n')
	if err != nil {
		return "io:" + err.Error()
	}
	line = strings.TrimRight(line, "\r\n")
	if line == "" {
		return "io:empty"
	}
	switch line[0] {
	case '+':
		return line[1:]
	case '-':
		return "err:" + line[1:]
	case ':':
		return "int:" + line[1:]
	case '$':
		n, _ := strconv.Atoi(line[1:])
		if n < 0 {
			return "nil"
		}
		buf := make([]byte, n+2)
		if _, err := readFull(rc.r, buf); err != nil {
			return "io:" + err.Error()
		}
		return "bulk:" + string(buf[:n])
	}
	return "other:" + line
}

func readFull(r *bufio.Reader, buf []byte) (int, error) {
	n := 0
	for n < len(buf) {
		k, err := r.Read(buf[n:])
		n += k
		if err != nil {
			return n, err
		}
	}
	return n, nil
}

// ---------------------------------------------------------------- minimal PD

type fakePD struct {
	pb.UnimplementedPDServer
	ts atomic.Uint64
}

func (p *fakePD) Tso(_ context.Context, req *pb.TsoRequest) (*pb.TsoResponse, error) {
	n := req.GetCount()
	if n == 0 {
		n = 1
	}
	end := p.ts.Add(n)
	return &pb.TsoResponse{Timestamp: end - n + 1, Count: n}, nil
}

func (p *fakePD) GetRegionByKey(context.Context, *pb.GetRegionByKeyRequest) (*pb.GetRegionByKeyResponse, error) {
	return &pb.GetRegionByKeyResponse{Region: &pb.RegionMeta{Id: 1, EpochVersion: 1, EpochConfVersion: 1,
		Peers: []*pb.RegionPeer{{StoreId: 1, PeerId: 11}}}}, nil
}

// KvBatchGet for the raft deployment (mirrors raftstore/kv.Service.KvBatchGet: one GET per key in one command)
func (s *kvService) KvBatchGet(_ context.Context, req *pb.KvBatchGetRequest) (*pb.KvBatchGetResponse, error) {
	out := &pb.BatchGetResponse{}
	for _, g := range req.GetRequest().GetRequests() {
		r, err := s.apply(req.GetContext(), &pb.Request{CmdType: pb.CmdType_CMD_GET, Cmd: &pb.Request_Get{Get: g}})
		if err != nil {
			return nil, err
		}
		out.Responses = append(out.Responses, r.GetGet())
	}
	s.noteRead()
	return &pb.KvBatchGetResponse{Response: out}, nil
}

// ---------------------------------------------------------------- engine

type gateway struct {
	cmd  *exec.Cmd
	addr string
}

type redisEngine struct {
	dir         string
	bin         string
	buildErr    string
	embGW       *gateway
	raft        *gateway
	raftDB      *NoKV.DB
	raftSvc     *kvService
	raftSrv     *grpc.Server
	pdSrv       *grpc.Server
	seq         *respConn
	seqAddr     string
	infraReruns int
	emb         *embSched
	keySeq      int
	stats       map[string]any
}

func repoDir() string {
	if d := os.Getenv("VERIF_REPO"); d != "" {
		return d
	}
	return "/repo"
}

func freeAddr() string {
	l, err := net.Listen("tcp", "127.0.0.1:0")
	if err != nil {
		panic(err)
	}
	defer l.Close()
	return l.Addr().String()
}

func newRedisEngine() *redisEngine {
	dir, err := os.MkdirTemp("", "verif-c30-")
	if err != nil {
		panic(err)
	}
	e := &redisEngine{dir: dir, bin: filepath.Join(dir, "nokv-redis"), stats: map[string]any{}}
	build := exec.Command("go", "build", "-o", e.bin, "./cmd/nokv-redis")
	build.Dir = repoDir()
	build.Env = append(os.Environ(), "GOFLAGS=-mod=mod", "GOPROXY=off")
	if out, err := build.CombinedOutput(); err != nil {
		e.buildErr = fmt.Sprintf("build failed: %v: %s", err, out)
	}
	return e
}

// startGateway launches the binary on a free port; the port is picked by bind-and-release, so
// another process can grab it in between: the gateway then exits and another port is tried.
func (e *redisEngine) startGateway(args ...string) (*gateway, error) {
	var lastErr error
	for try := 0; try < 5; try++ {
		addr := freeAddr()
		cmd := exec.Command(e.bin, append(append([]string{}, args...), "-addr", addr)...)
		cmd.Dir = e.dir
		logf, _ := os.Create(filepath.Join(e.dir, fmt.Sprintf("gw-%s.log", strings.ReplaceAll(addr, ":", "_"))))
		cmd.Stdout, cmd.Stderr = logf, logf
		if err := cmd.Start(); err != nil {
			return nil, err
		}
		exited := make(chan struct{})
		go func() { _ = cmd.Wait(); close(exited) }()
		up := false
	wait:
		for i := 0; i < 1200; i++ { // up to 60 s on a loaded machine
			select {
			case <-exited:
				break wait
			default:
			}
			if c, err := net.DialTimeout("tcp", addr, 200*time.Millisecond); err == nil {
				c.Close()
				up = true
				break
			}
			time.Sleep(50 * time.Millisecond)
		}
		if up {
			select {
			case <-exited: // something else answered on that port
			default:
				return &gateway{cmd: cmd, addr: addr}, nil
			}
		}
		_ = cmd.Process.Kill()
		lastErr = fmt.Errorf("gateway did not come up on %s", addr)
	}
	return nil, lastErr
}

func (e *redisEngine) embedded() (*gateway, error) {
	if e.buildErr != "" {
		return nil, fmt.Errorf("%s", e.buildErr)
	}
	if e.embGW == nil {
		g, err := e.startGateway("-workdir", filepath.Join(e.dir, "emb"))
		if err != nil {
			return nil, err
		}
		e.embGW = g
	}
	return e.embGW, nil
}

func (e *redisEngine) raftGW() (*gateway, error) {
	if e.buildErr != "" {
		return nil, fmt.Errorf("%s", e.buildErr)
	}
	if e.raft != nil {
		return e.raft, nil
	}
	opt := NoKV.NewDefaultOptions()
	opt.WorkDir = filepath.Join(e.dir, "raftstore")
	opt.WriteBatchWait = 0
	e.raftDB = NoKV.Open(opt)
	sl, err := net.Listen("tcp", "127.0.0.1:0")
	if err != nil {
		return nil, err
	}
	e.raftSrv = grpc.NewServer()
	e.raftSvc = &kvService{db: e.raftDB}
	pb.RegisterTinyKvServer(e.raftSrv, e.raftSvc)
	go func() { _ = e.raftSrv.Serve(sl) }()
	pl, err := net.Listen("tcp", "127.0.0.1:0")
	if err != nil {
		return nil, err
	}
	e.pdSrv = grpc.NewServer()
	pb.RegisterPDServer(e.pdSrv, &fakePD{})
	go func() { _ = e.pdSrv.Serve(pl) }()
	cfg := map[string]any{
		"max_retries": 5,
		"pd":          map[string]any{"addr": pl.Addr().String()},
		"stores":      []any{map[string]any{"store_id": 1, "addr": sl.Addr().String(), "listen_addr": sl.Addr().String()}},
		"regions": []any{map[string]any{"id": 1, "start_key": "", "end_key": "", "epoch": map[string]any{"version": 1, "conf_version": 1},
			"peers": []any{map[string]any{"store_id": 1, "peer_id": 11}}, "leader_store_id": 1}},
	}
	buf, _ := json.Marshal(cfg)
	cfgPath := filepath.Join(e.dir, "raft.json")
	if err := os.WriteFile(cfgPath, buf, 0o644); err != nil {
		return nil, err
	}
	g, err := e.startGateway("-raft-config", cfgPath, "-pd-addr", pl.Addr().String())
	if err != nil {
		return nil, err
	}
	e.raft = g
	return g, nil
}

func (e *redisEngine) close() {
	if e.emb != nil {
		e.emb.close()
	}
	for _, g := range []*gateway{e.embGW, e.raft} {
		if g != nil && g.cmd.Process != nil {
			_ = g.cmd.Process.Kill()
		}
	}
	if e.raftSrv != nil {
		e.raftSrv.Stop()
	}
	if e.pdSrv != nil {
		e.pdSrv.Stop()
	}
	if e.raftDB != nil {
		_ = e.raftDB.Close()
	}
	_ = os.RemoveAll(e.dir)
}

func (e *redisEngine) Rule() string {
	return "C30: (a) one connection: INCRBY/DECRBY/SET NX/GET sequences compared with the model line by line; (b) stress: 8 connections hammer one counter with INCR/INCRBY/DECR (initial value 100), race INCRBY on counters that were deleted or have expired, and race SET NX on keys that are absent because never written / deleted / expired, against the real nokv-redis binary in embedded mode (every case) and against its raft backend over real Percolator stores (corpus witness + thorough tier); (c) embedded backend scheduled in-process on the real DB (oracle, watermarks, commit pipeline): read-modify-write commands spanning other clients' commits, long-lived read-only snapshots pinning and releasing the conflict history, prune-triggering commits on other keys, a parked commit pipeline; non-trivial = a stress line ran to completion with at least 2 connections, or a scheduled command met a conflict / waited behind a stalled commit"
}

func (e *redisEngine) Extra() map[string]any { return e.stats }

// genSched: clients of the embedded backend scheduled step by step: read-modify-write commands
// that span other clients' commits, read-only transactions that keep the oracle from pruning its
// conflict history and then let go, commits on other keys (each one runs the prune), and - rarely,
// it costs a bounded wait - a parked commit pipeline.
func genSched(r *hlib.Rand, tier string) []string {
	ops := []string{"e.reset"}
	inTxn := [4]bool{}
	if r.Chance(30) {
		// two slow clients share one snapshot (no commit between their begins), a third client
		// writes both keys; the slow ones commit later, with prunes in between
		ops = append(ops, fmt.Sprintf("e.begin 0 incr %d", 1+r.Intn(9)), fmt.Sprintf("e.begin 1 %s", hlib.Pick(r, []string{"setnx 9", "incr 4"})),
			"e.begin 2 incr 1", "e.commit 2", "e.begin 3 setnx 4", "e.commit 3")
		inTxn[0], inTxn[1] = true, true
	}
	if tier == "thorough" && r.Chance(4) {
		// a command stalled between read and commit while other clients commit > 1024 times
		ops = append(ops, "e.begin 3 incr 7", "e.begin 2 incr 1", "e.commit 2", "e.others 1100", "e.commit 3")
	}
	readers := map[int]bool{}
	n := 10 + r.Intn(25)
	for step := 0; step < n; step++ {
		switch x := r.Intn(100); {
		case x < 30:
			i := r.Intn(4)
			if inTxn[i] {
				ops = append(ops, fmt.Sprintf("e.commit %d", i))
				inTxn[i] = false
			} else {
				if r.Chance(75) {
					ops = append(ops, fmt.Sprintf("e.begin %d incr %d", i, r.Intn(21)-10))
				} else {
					ops = append(ops, fmt.Sprintf("e.begin %d setnx %d", i, 1+r.Intn(50)))
				}
				inTxn[i] = true
			}
		case x < 50:
			// a complete command (begin + commit back to back)
			i := r.Intn(4)
			if !inTxn[i] {
				ops = append(ops, fmt.Sprintf("e.begin %d incr %d", i, 1+r.Intn(9)), fmt.Sprintf("e.commit %d", i))
			}
		case x < 62:
			j := r.Intn(2)
			if readers[j] {
				ops = append(ops, fmt.Sprintf("e.rclose %d", j))
				readers[j] = false
			} else {
				ops = append(ops, fmt.Sprintf("e.ropen %d", j))
				readers[j] = true
			}
		case x < 80:
			ops = append(ops, "e.other")
		case x < 90:
			ops = append(ops, "e.get")
		default:
			ops = append(ops, "e.getnx")
		}
	}
	for j := range readers {
		if readers[j] {
			ops = append(ops, fmt.Sprintf("e.rclose %d", j))
		}
	}
	ops = append(ops, "e.other")
	for i := range inTxn {
		if inTxn[i] {
			ops = append(ops, fmt.Sprintf("e.commit %d", i))
		}
	}
	ops = append(ops, "e.get", "e.getnx")
	return ops
}

// genStall: one client's commit owns its timestamp while the pipeline is parked; a second client
// starts the same kind of command on the same key.
func genStall(r *hlib.Rand) []string {
	ops := []string{"e.reset"}
	if r.Bool() {
		ops = append(ops, "e.begin 0 incr 3", "e.commit 0")
	}
	cmd := func(i int) string {
		if r.Bool() {
			return fmt.Sprintf("e.begin %d incr %d", i, 1+r.Intn(5))
		}
		return fmt.Sprintf("e.begin %d setnx %d", i, 1+i)
	}
	c0 := cmd(0)
	kind := strings.Fields(c0)[2]
	c1 := fmt.Sprintf("e.begin 1 %s %d", kind, 7)
	ops = append(ops, c0, "e.stall", "e.commit 0", c1, "e.unstall", "e.commit 1", "e.get", "e.getnx")
	return ops
}

func (e *redisEngine) Gen(r *hlib.Rand, tier string) []string {
	r = hlib.NewRand(r.U64() ^ seedMix)
	switch x := r.Intn(100); {
	case x < 45:
		return genSched(r, tier)
	case x < 48:
		return genStall(r)
	}
	ops := []string{"seq.reset"}
	if r.Chance(25) {
		ops[0] = "seq.reset backend=raft"
	}
	n := 4 + r.Intn(10)
	for i := 0; i < n; i++ {
		switch x := r.Intn(100); {
		case x < 50:
			d := int64(r.Intn(2000)) - 1000
			if r.Chance(10) {
				d = hlib.Pick(r, []int64{0, 1, -1, 1 << 40, -(1 << 40)})
			}
			ops = append(ops, fmt.Sprintf("seq.incr %d", d))
		case x < 75:
			ops = append(ops, fmt.Sprintf("seq.setnx %d", r.Intn(1000)))
		case x < 90:
			ops = append(ops, "seq.get")
		default:
			ops = append(ops, "seq.getnx")
		}
	}
	if tier == "thorough" && r.Chance(10) {
		ops = append(ops, "sched.incr backend=raft")
	}
	if r.Chance(35) {
		backend := "embedded"
		// the key is absent because it was never written, was deleted, or has expired
		mode := hlib.Pick(r, []string{"fresh", "deleted", "expired"})
		switch {
		case r.Bool():
			ops = append(ops, fmt.Sprintf("stress.setnx backend=%s clients=%d keys=%d mode=%s", backend, 2+r.Intn(7), 60+r.Intn(120), mode))
		case mode == "fresh":
			ops = append(ops, fmt.Sprintf("stress.incr backend=%s clients=%d per=%d", backend, 2+r.Intn(7), 60+r.Intn(120)))
		default:
			ops = append(ops, fmt.Sprintf("stress.incr backend=%s clients=%d keys=%d mode=%s", backend, 2+r.Intn(7), 40+r.Intn(80), mode))
		}
	}
	return ops
}

func (e *redisEngine) Nontrivial(ops, impl, model, spec []string) bool {
	for i, op := range ops {
		if (strings.HasPrefix(op, "stress.") || strings.HasPrefix(op, "sched.")) && !strings.HasPrefix(impl[i], "harness") {
			return true
		}
		if strings.HasPrefix(op, "e.commit") && (impl[i] == "conflict" || impl[i] == "pending") {
			return true // a scheduled command lost against (or waited behind) another client
		}
	}
	return false
}

func (e *redisEngine) gw(backend string) (*gateway, error) {
	if backend == "raft" {
		return e.raftGW()
	}
	return e.embedded()
}

// Exec reruns a case once when an infrastructure failure (`harness:…`: a gateway that did not
// start, a dropped TCP connection) shows up, so that only outcomes of the code under test are compared.
func (e *redisEngine) Exec(ops []string) []string {
	out := e.execOnce(ops)
	for _, o := range out {
		if strings.HasPrefix(o, "harness:") {
			e.stats["infrastructure_reruns"] = e.infraReruns + 1
			e.infraReruns++
			if e.seq != nil {
				e.seq.c.Close()
				e.seq = nil
			}
			return e.execOnce(ops)
		}
	}
	return out
}

func (e *redisEngine) execOnce(ops []string) []string {
	out := make([]string, len(ops))
	if tf := os.Getenv("C30_TRACE"); tf != "" {
		defer func() {
			f, _ := os.OpenFile(tf, os.O_APPEND|os.O_CREATE|os.O_WRONLY, 0o644)
			fmt.Fprintf(f, "CASE\n")
			for i := range ops {
				fmt.Fprintf(f, "%s => %s\n", ops[i], out[i])
			}
			f.Close()
		}()
	}
	// every case starts on fresh keys (a minimised replay may have lost its seq.reset line)
	e.keySeq++
	ctrKey, nxKey := fmt.Sprintf("seqctr%d", e.keySeq), fmt.Sprintf("seqnx%d", e.keySeq)
	seqBackend := "embedded"
	embStarted := false
	defer func() {
		if e.emb != nil && embStarted {
			e.emb.unstall() // never leave the pipeline parked
		}
	}()
	for i, op := range ops {
		toks := strings.Fields(op)
		if len(toks) == 0 {
			out[i] = "bad-op"
			continue
		}
		if strings.HasPrefix(toks[0], "e.") {
			if e.emb == nil {
				e.emb = newEmbSched()
			}
			if !embStarted {
				e.emb.reset()
				embStarted = true
			}
			out[i] = e.emb.exec(toks)
			continue
		}
		if strings.HasPrefix(toks[0], "seq.") {
			if toks[0] == "seq.reset" {
				seqBackend = kvArg(toks, "backend")
			}
			g, err := e.gw(seqBackend)
			if err != nil {
				out[i] = "harness:" + err.Error()
				continue
			}
			if e.seq == nil || e.seqAddr != g.addr {
				if e.seq != nil {
					e.seq.c.Close()
				}
				if e.seq, err = dialResp(g.addr); err != nil {
					out[i] = "harness:" + err.Error()
					e.seq = nil
					continue
				}
				e.seqAddr = g.addr
			}
			switch toks[0] {
			case "seq.reset":
				e.keySeq++
				ctrKey, nxKey = fmt.Sprintf("seqctr%d", e.keySeq), fmt.Sprintf("seqnx%d", e.keySeq)
				out[i] = "ok"
			case "seq.incr":
				d, _ := strconv.ParseInt(toks[1], 10, 64)
				if d >= 0 {
					out[i] = e.seq.do("INCRBY", ctrKey, strconv.FormatInt(d, 10))
				} else {
					out[i] = e.seq.do("DECRBY", ctrKey, strconv.FormatInt(-d, 10))
				}
			case "seq.setnx":
				r := e.seq.do("SET", nxKey, toks[1], "NX")
				out[i] = r
			case "seq.get":
				r := e.seq.do("GET", ctrKey)
				if r == "nil" {
					r = "bulk:0"
				}
				out[i] = r
			case "seq.getnx":
				out[i] = e.seq.do("GET", nxKey)
			default:
				out[i] = "bad-op"
			}
			continue
		}
		backend := kvArg(toks, "backend")
		clients, _ := strconv.Atoi(kvArg(toks, "clients"))
		if clients < 2 {
			clients = 2
		}
		g, err := e.gw(backend)
		if err != nil {
			out[i] = "harness:" + err.Error()
			continue
		}
		switch toks[0] {
		case "stress.incr":
			per, _ := strconv.Atoi(kvArg(toks, "per"))
			if mode := kvArg(toks, "mode"); mode == "deleted" || mode == "expired" {
				keys, _ := strconv.Atoi(kvArg(toks, "keys"))
				out[i] = e.stressIncrAbsent(g, backend, clients, keys, mode)
			} else {
				out[i] = e.stressIncr(g, backend, clients, per)
			}
		case "stress.setnx":
			keys, _ := strconv.Atoi(kvArg(toks, "keys"))
			out[i] = e.stressSetNX(g, backend, clients, keys, kvArg(toks, "mode"))
		case "sched.incr":
			out[i] = e.schedIncrRaft(g)
		default:
			out[i] = "bad-op"
		}
	}
	return out
}

// stressIncr: up to `rounds` rounds on fresh counters; a round is inconsistent when the final
// value differs from 100 + Σ deltas of the commands that got an integer reply.
func (e *redisEngine) stressIncr(g *gateway, backend string, clients, per int) string {
	if per <= 0 {
		per = 100
	}
	rounds := 6
	var totalOK, totalCmds int64
	for round := 0; round < rounds; round++ {
		e.keySeq++
		key := fmt.Sprintf("ctr%d", e.keySeq)
		adm, err := dialResp(g.addr)
		if err != nil {
			return "harness:" + err.Error()
		}
		if r := adm.do("SET", key, "100"); r != "OK" {
			adm.c.Close()
			return "harness:set:" + r
		}
		var sum, okN, ioErr atomic.Int64
		var wg sync.WaitGroup
		start := make(chan struct{})
		for c := 0; c < clients; c++ {
			wg.Add(1)
			go func(c int) {
				defer wg.Done()
				rc, err := dialResp(g.addr)
				if err != nil {
					ioErr.Add(1)
					return
				}
				defer rc.c.Close()
				<-start
				for j := 0; j < per; j++ {
					var r string
					var d int64
					switch (c + j) % 3 {
					case 0:
						r, d = rc.do("INCR", key), 1
					case 1:
						r, d = rc.do("INCRBY", key, "3"), 3
					default:
						r, d = rc.do("DECR", key), -1
					}
					switch {
					case strings.HasPrefix(r, "int:"):
						sum.Add(d)
						okN.Add(1)
					case strings.HasPrefix(r, "io:"):
						ioErr.Add(1)
						return
					}
				}
			}(c)
		}
		close(start)
		wg.Wait()
		final := adm.do("GET", key)
		adm.c.Close()
		totalOK += okN.Load()
		totalCmds += int64(clients * per)
		e.stats["incr_"+backend+"_ok_replies"] = totalOK
		e.stats["incr_"+backend+"_commands"] = totalCmds
		if ioErr.Load() > 0 {
			return "harness:io-errors"
		}
		if !strings.HasPrefix(final, "bulk:") {
			return "harness:get:" + final
		}
		fv, err := strconv.ParseInt(final[5:], 10, 64)
		if err != nil {
			return "harness:final:" + final
		}
		if fv != 100+sum.Load() {
			e.stats["incr_"+backend+"_example"] = fmt.Sprintf("%d clients: %d OK replies, deltas sum %d, initial 100, final %d", clients, okN.Load(), sum.Load(), fv)
			return "lost-update"
		}
	}
	return "consistent"
}

// schedIncrRaft: two connections send one INCR each to a fresh counter (initial 100) through the
// raft backend; the store side orders the RPCs: both value reads first, then the two two-phase
// commits one after the other.  No lock is ever met, so no rollback record is written.
func (e *redisEngine) schedIncrRaft(g *gateway) string {
	e.keySeq++
	key := fmt.Sprintf("sched%d", e.keySeq)
	adm, err := dialResp(g.addr)
	if err != nil {
		return "harness:" + err.Error()
	}
	defer adm.c.Close()
	if r := adm.do("SET", key, "100"); r != "OK" {
		return "harness:set:" + r
	}
	e.raftSvc.arm(2)
	defer e.raftSvc.disarm()
	var okN atomic.Int64
	var wg sync.WaitGroup
	replies := make([]string, 2)
	for c := 0; c < 2; c++ {
		wg.Add(1)
		go func(c int) {
			defer wg.Done()
			rc, err := dialResp(g.addr)
			if err != nil {
				replies[c] = "io:" + err.Error()
				return
			}
			defer rc.c.Close()
			replies[c] = rc.do("INCR", key)
			if strings.HasPrefix(replies[c], "int:") {
				okN.Add(1)
			}
		}(c)
	}
	wg.Wait()
	e.raftSvc.disarm()
	final := adm.do("GET", key)
	e.stats["sched_raft_example"] = fmt.Sprintf("two INCRs on 100, reads before writes: replies %v, final %s", replies, final)
	if !strings.HasPrefix(final, "bulk:") {
		return "harness:get:" + final
	}
	fv, _ := strconv.ParseInt(final[5:], 10, 64)
	if fv != 100+okN.Load() {
		return "lost-update"
	}
	return "consistent"
}

// makeAbsent leaves `key` absent in the given way: "deleted" = SET then DEL, "expired" = SET with an
// expiry in the past, anything else = never written.
func makeAbsent(adm *respConn, key, mode string) string {
	switch mode {
	case "deleted":
		if r := adm.do("SET", key, "100"); r != "OK" {
			return "harness:set:" + r
		}
		if r := adm.do("DEL", key); r != "int:1" {
			return "harness:del:" + r
		}
	case "expired":
		if r := adm.do("SET", key, "100", "EXAT", "1"); r != "OK" {
			return "harness:set:" + r
		}
	}
	return ""
}

// stressIncrAbsent: on each of `keys` counters that are absent because they were deleted or have
// expired, every connection sends one INCRBY at the same moment; the final value must be the sum
// of the deltas that got an integer reply (the counter starts from 0).
func (e *redisEngine) stressIncrAbsent(g *gateway, backend string, clients, keys int, mode string) string {
	if keys <= 0 {
		keys = 60
	}
	e.keySeq++
	base := fmt.Sprintf("ctr%s%d_", mode, e.keySeq)
	adm, err := dialResp(g.addr)
	if err != nil {
		return "harness:" + err.Error()
	}
	defer adm.c.Close()
	conns := make([]*respConn, clients)
	for c := range conns {
		rc, err := dialResp(g.addr)
		if err != nil {
			return "harness:" + err.Error()
		}
		defer rc.c.Close()
		conns[c] = rc
	}
	for k := 0; k < keys; k++ {
		key := base + strconv.Itoa(k)
		if r := makeAbsent(adm, key, mode); r != "" {
			return r
		}
		var sum, ioErr atomic.Int64
		var wg sync.WaitGroup
		start := make(chan struct{})
		for c := range conns {
			wg.Add(1)
			go func(c int) {
				defer wg.Done()
				<-start
				d := int64(c + 1)
				r := conns[c].do("INCRBY", key, strconv.FormatInt(d, 10))
				if strings.HasPrefix(r, "int:") {
					sum.Add(d)
				} else if strings.HasPrefix(r, "io:") {
					ioErr.Add(1)
				}
			}(c)
		}
		close(start)
		wg.Wait()
		if ioErr.Load() > 0 {
			return "harness:io-errors"
		}
		final := adm.do("GET", key)
		fv := int64(0)
		if strings.HasPrefix(final, "bulk:") {
			fv, _ = strconv.ParseInt(final[5:], 10, 64)
		} else if final != "nil" {
			return "harness:get:" + final
		}
		if fv != sum.Load() {
			e.stats["incr_"+mode+"_example"] = fmt.Sprintf("%d clients INCRBY on a %s counter: deltas of OK replies sum to %d, final %d", clients, mode, sum.Load(), fv)
			return "lost-update"
		}
	}
	return "consistent"
}

func (e *redisEngine) stressSetNX(g *gateway, backend string, clients, keys int, mode string) string {
	if keys <= 0 {
		keys = 100
	}
	e.keySeq++
	base := fmt.Sprintf("nx%d_", e.keySeq)
	conns := make([]*respConn, clients)
	for c := range conns {
		rc, err := dialResp(g.addr)
		if err != nil {
			return "harness:" + err.Error()
		}
		defer rc.c.Close()
		conns[c] = rc
	}
	multi := 0
	adm, err := dialResp(g.addr)
	if err != nil {
		return "harness:" + err.Error()
	}
	defer adm.c.Close()
	for k := 0; k < keys; k++ {
		key := base + strconv.Itoa(k)
		if r := makeAbsent(adm, key, mode); r != "" {
			return r
		}
		var okN, ioErr atomic.Int64
		var wg sync.WaitGroup
		start := make(chan struct{})
		for c := range conns {
			wg.Add(1)
			go func(c int) {
				defer wg.Done()
				<-start
				r := conns[c].do("SET", key, strconv.Itoa(c), "NX")
				if r == "OK" {
					okN.Add(1)
				} else if strings.HasPrefix(r, "io:") {
					ioErr.Add(1)
				}
			}(c)
		}
		close(start)
		wg.Wait()
		if ioErr.Load() > 0 {
			return "harness:io-errors"
		}
		if okN.Load() > 1 {
			multi++
			e.stats["setnx_"+backend+"_example"] = fmt.Sprintf("%d clients raced SET NX on one absent key: %d replied OK", clients, okN.Load())
		}
	}
	e.stats["setnx_"+backend+"_keys_with_multiple_ok"] = multi
	if multi > 0 {
		return "multiple-ok"
	}
	return "atmost-one"
}

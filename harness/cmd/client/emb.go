package main

// C30, scheduled half: the clients of the embedded gateway driven step by step on a real NoKV DB
// opened the way cmd/nokv-redis/main.go opens it (default options + the extracted value of
// DetectConflicts).  cmd/nokv-redis is package main and cannot be imported: a command is the body
// of embeddedBackend.IncrBy / Set NX written out (NewTransaction, Get, SetEntry, Commit) so that
// other clients can be scheduled between its snapshot read and its commit — the transaction
// oracle, the watermarks and the commit pipeline underneath are the real ones.
//
//   e.begin i incr d | setnx v   client i opens its transaction and reads the key
//   e.commit i                   client i writes and commits: int:<n> | OK | nil | conflict
//   e.ropen j / e.rclose j       a read-only transaction (MGET) kept open: it pins the oracle's
//                                conflict history; closing it lets the next commit prune
//   e.other / e.others n         one / n complete commands on unrelated keys (any commit runs the prune)
//   e.stall / e.unstall          the commit pipeline is parked (the harness holds db.Lock(), which
//                                applyRequests needs): commits get their timestamp but are not
//                                applied; a new transaction must wait for them.  Gate, no sleeps:
//                                on a correct tree the outcome of every line is determined.

import (
	"errors"
	"fmt"
	"os"
	"strconv"
	"strings"
	"time"

	NoKV "github.com/feichai0017/NoKV"
	"github.com/feichai0017/NoKV/kv"
	"github.com/feichai0017/NoKV/utils"
)

type embClient struct {
	txn  *NoKV.Txn
	cmd  string // incr | setnx
	arg  int64
	cur  int64
	seen bool
	// while the pipeline is stalled
	beginDone  chan struct{}
	commitDone chan string
}

type embSched struct {
	dir      string
	db       *NoKV.DB
	seq      int
	ctr, nx  []byte
	cl       [4]*embClient
	readers  map[int]*NoKV.Txn
	stalled  bool
	pendC    []func() string // joins of commits issued during the stall, in order
	pendB    []int           // clients whose begin is blocked
	blockedW time.Duration
}

func cfgFlag(name, def string) string {
	for i, a := range os.Args {
		if a == "-cfg" && i+1 < len(os.Args) {
			for _, t := range strings.Fields(os.Args[i+1]) {
				if strings.HasPrefix(t, name+"=") {
					return t[len(name)+1:]
				}
			}
		}
	}
	return def
}

func newEmbSched() *embSched {
	dir, err := os.MkdirTemp("", "verif-c30e-")
	if err != nil {
		panic(err)
	}
	opt := NoKV.NewDefaultOptions()
	opt.WorkDir = dir
	// as cmd/nokv-redis/main.go
	if opt.MaxBatchCount <= 0 {
		opt.MaxBatchCount = int64(opt.WriteBatchMaxCount)
		if opt.MaxBatchCount <= 0 {
			opt.MaxBatchCount = 1024
		}
	}
	if opt.MaxBatchSize <= 0 {
		opt.MaxBatchSize = opt.WriteBatchMaxSize
		if opt.MaxBatchSize <= 0 {
			opt.MaxBatchSize = 16 << 20
		}
	}
	opt.DetectConflicts = cfgFlag("redis.detectConflicts", "true") == "true"
	return &embSched{dir: dir, db: NoKV.Open(opt), readers: map[int]*NoKV.Txn{}, blockedW: 1600 * time.Millisecond}
}

func (s *embSched) close() {
	if s.stalled {
		s.db.Unlock()
	}
	_ = s.db.Close()
	_ = os.RemoveAll(s.dir)
}

func (s *embSched) reset() {
	s.unstall()
	for i := range s.cl {
		if s.cl[i] != nil && s.cl[i].txn != nil {
			s.cl[i].txn.Discard()
		}
		s.cl[i] = nil
	}
	for j, r := range s.readers {
		r.Discard()
		delete(s.readers, j)
	}
	s.seq++
	s.ctr, s.nx = []byte(fmt.Sprintf("ectr%d", s.seq)), []byte(fmt.Sprintf("enx%d", s.seq))
}

// begin = NewTransaction(true) + the snapshot read of the command's key
func (c *embClient) begin(s *embSched) {
	c.txn = s.db.NewTransaction(true)
	key := s.ctr
	if c.cmd == "setnx" {
		key = s.nx
	}
	item, err := c.txn.Get(key)
	switch {
	case err == nil:
		e := item.Entry()
		if !kv.IsDeletedOrExpired(e.Meta, e.ExpiresAt) {
			c.seen = true
			if c.cmd == "incr" && len(e.Value) > 0 {
				c.cur, _ = strconv.ParseInt(string(e.Value), 10, 64)
			}
		}
	case errors.Is(err, utils.ErrKeyNotFound):
	default:
		panic(err)
	}
}

func (c *embClient) commit(s *embSched) string {
	defer func() { c.txn.Discard(); c.txn = nil }()
	var err error
	switch c.cmd {
	case "incr":
		res := c.cur + c.arg
		if err = c.txn.SetEntry(kv.NewEntry(s.ctr, []byte(strconv.FormatInt(res, 10)))); err == nil {
			err = c.txn.Commit()
		}
		if err == nil {
			return fmt.Sprintf("int:%d", res)
		}
	default:
		if c.seen {
			return "nil"
		}
		if err = c.txn.SetEntry(kv.NewEntry(s.nx, []byte(strconv.FormatInt(c.arg, 10)))); err == nil {
			err = c.txn.Commit()
		}
		if err == nil {
			return "OK"
		}
	}
	if errors.Is(err, utils.ErrConflict) {
		return "conflict"
	}
	return "err:" + err.Error()
}

func (s *embSched) unstall() string {
	if !s.stalled {
		return "-"
	}
	s.db.Unlock()
	s.stalled = false
	var parts []string
	for _, join := range s.pendC {
		parts = append(parts, join())
	}
	for _, i := range s.pendB {
		select {
		case <-s.cl[i].beginDone:
			parts = append(parts, fmt.Sprintf("b%d=ok", i))
		case <-time.After(30 * time.Second):
			parts = append(parts, fmt.Sprintf("b%d=stuck", i))
		}
	}
	s.pendC, s.pendB = nil, nil
	if len(parts) == 0 {
		return "-"
	}
	return strings.Join(parts, " ")
}

func (s *embSched) exec(toks []string) string {
	switch toks[0] {
	case "e.reset":
		s.reset()
		return "ok"
	case "e.begin":
		if len(toks) != 4 {
			return "bad-op"
		}
		i, _ := strconv.Atoi(toks[1])
		if i < 0 || i >= len(s.cl) || s.ctr == nil || (s.cl[i] != nil && s.cl[i].txn != nil) {
			return "bad-op"
		}
		for _, b := range s.pendB {
			if b == i {
				return "bad-op"
			}
		}
		arg, err := strconv.ParseInt(toks[3], 10, 64)
		if err != nil || (toks[2] != "incr" && toks[2] != "setnx") {
			return "bad-op"
		}
		c := &embClient{cmd: toks[2], arg: arg}
		s.cl[i] = c
		if !s.stalled {
			c.begin(s)
			return "ok"
		}
		// a stalled pipeline: NewTransaction waits for every commit that owns a timestamp
		c.beginDone = make(chan struct{})
		go func() { c.begin(s); close(c.beginDone) }()
		wait := 300 * time.Millisecond
		if len(s.pendC) > 0 {
			wait = s.blockedW // it must not return: give a mutant that gives up waiting time to show
		}
		select {
		case <-c.beginDone:
			return "ok"
		case <-time.After(wait):
			s.pendB = append(s.pendB, i)
			return "blocked"
		}
	case "e.commit":
		i, _ := strconv.Atoi(toks[1])
		if len(toks) != 2 || i < 0 || i >= len(s.cl) || s.cl[i] == nil || s.cl[i].txn == nil {
			return "bad-op"
		}
		for _, b := range s.pendB {
			if b == i {
				return "bad-op"
			}
		}
		c := s.cl[i]
		if !s.stalled {
			return c.commit(s)
		}
		c.commitDone = make(chan string, 1)
		go func() { c.commitDone <- c.commit(s) }()
		select {
		case r := <-c.commitDone: // conflict / nil need no write: they return at once
			return r
		case <-time.After(400 * time.Millisecond):
			s.pendC = append(s.pendC, func() string {
				select {
				case r := <-c.commitDone:
					return fmt.Sprintf("c%d=%s", i, r)
				case <-time.After(30 * time.Second):
					return fmt.Sprintf("c%d=stuck", i)
				}
			})
			return "pending"
		}
	case "e.ropen":
		j, _ := strconv.Atoi(toks[1])
		if s.ctr == nil || s.readers[j] != nil || s.stalled {
			return "bad-op"
		}
		r := s.db.NewTransaction(false)
		_, _ = r.Get(s.ctr)
		s.readers[j] = r
		return "ok"
	case "e.rclose":
		j, _ := strconv.Atoi(toks[1])
		if r := s.readers[j]; r != nil {
			r.Discard()
			delete(s.readers, j)
		}
		return "ok"
	case "e.other":
		if s.stalled || s.ctr == nil {
			return "bad-op"
		}
		s.seq++
		key := []byte(fmt.Sprintf("eother%d", s.seq))
		if err := s.db.Update(func(txn *NoKV.Txn) error { return txn.SetEntry(kv.NewEntry(key, []byte("1"))) }); err != nil {
			return "err:" + err.Error()
		}
		return "ok"
	case "e.others":
		// n complete commands on unrelated keys (a long stretch of other clients' traffic)
		n, _ := strconv.Atoi(toks[1])
		if s.stalled || s.ctr == nil || len(toks) != 2 {
			return "bad-op"
		}
		for j := 0; j < n; j++ {
			s.seq++
			key := []byte(fmt.Sprintf("eother%d", s.seq))
			if err := s.db.Update(func(txn *NoKV.Txn) error { return txn.SetEntry(kv.NewEntry(key, []byte("1"))) }); err != nil {
				return "err:" + err.Error()
			}
		}
		return "ok"
	case "e.stall":
		if !s.stalled {
			s.db.Lock()
			s.stalled = true
		}
		return "ok"
	case "e.unstall":
		return s.unstall()
	case "e.get", "e.getnx":
		if s.stalled || s.ctr == nil {
			return "bad-op"
		}
		key := s.ctr
		if toks[0] == "e.getnx" {
			key = s.nx
		}
		e, err := s.db.Get(key)
		if err != nil || kv.IsDeletedOrExpired(e.Meta, e.ExpiresAt) {
			if toks[0] == "e.get" {
				return "int:0"
			}
			return "nil"
		}
		if toks[0] == "e.get" {
			return "int:" + string(e.Value)
		}
		return "bulk:" + string(e.Value)
	}
	return "bad-op"
}

// Correspondence harness for the manifest engine (C15): random edit sequences with arbitrary
// field values through the REAL manifest.Manager on a temp dir, opened on vfs.FaultFS whose
// hook (a) records the file-system call trace of every API call and (b) copies the directory
// before every call = the image a process crash at that point leaves.  Images are recovered
// with the plain FS (Verify+Open as db.go does, or bare Open as pd/storage does) and compared
// with the states a second real manager (never reloaded, no rewrites) went through.
package main

import (
	"encoding/binary"
	"errors"
	"fmt"
	"os"
	"path/filepath"
	"sort"
	"strconv"
	"strings"

	"github.com/feichai0017/NoKV/manifest"
	pdstorage "github.com/feichai0017/NoKV/pd/storage"
	"github.com/feichai0017/NoKV/vfs"

	"verif/harness/hlib"
)

// ---------------------------------------------------------------- canonical dump

func b01(b bool) string {
	if b {
		return "1"
	}
	return "0"
}

func fileStr(m manifest.FileMeta) string {
	return fmt.Sprintf("%d:%d:%d:%s:%s:%d:%d:%s", m.Level, m.FileID, m.Size, hlib.Hex(m.Smallest), hlib.Hex(m.Largest), m.CreatedAt, m.ValueSize, b01(m.Ingest))
}

func vlogStr(m manifest.ValueLogMeta) string {
	return fmt.Sprintf("%d:%d:%d:%s", m.Bucket, m.FileID, m.Offset, b01(m.Valid))
}

func raftStr(p manifest.RaftLogPointer) string {
	return fmt.Sprintf("%d:%d:%d:%d:%d:%d:%d:%d:%d:%d:%d:%d", p.GroupID, p.Segment, p.Offset, p.AppliedIndex, p.AppliedTerm,
		p.Committed, p.SnapshotIndex, p.SnapshotTerm, p.TruncatedIndex, p.TruncatedTerm, p.SegmentIndex, p.TruncatedOffset)
}

func regionStr(m manifest.RegionMeta) string {
	ps := "-"
	if len(m.Peers) > 0 {
		var xs []string
		for _, p := range m.Peers {
			xs = append(xs, fmt.Sprintf("%d.%d", p.StoreID, p.PeerID))
		}
		ps = strings.Join(xs, ",")
	}
	return fmt.Sprintf("%d:%s:%s:%d:%d:%d:%s", m.ID, hlib.Hex(m.StartKey), hlib.Hex(m.EndKey), m.Epoch.Version, m.Epoch.ConfVersion, m.State, ps)
}

// dump: the stated normalisations only — per-level file order (stable by file id), absent = empty level.
func dump(v manifest.Version) string {
	var levels []int
	for l := range v.Levels {
		levels = append(levels, l)
	}
	sort.Ints(levels)
	var fs []string
	for _, l := range levels {
		files := append([]manifest.FileMeta(nil), v.Levels[l]...)
		sort.SliceStable(files, func(i, j int) bool { return files[i].FileID < files[j].FileID })
		for _, f := range files {
			if f.Level != l {
				fs = append(fs, fmt.Sprintf("LEVEL-MISMATCH(%d)", l))
			}
			fs = append(fs, fileStr(f))
		}
	}
	var ids []manifest.ValueLogID
	for id := range v.ValueLogs {
		ids = append(ids, id)
	}
	sort.Slice(ids, func(i, j int) bool {
		if ids[i].Bucket != ids[j].Bucket {
			return ids[i].Bucket < ids[j].Bucket
		}
		return ids[i].FileID < ids[j].FileID
	})
	var vs []string
	for _, id := range ids {
		m := v.ValueLogs[id]
		if m.Bucket != id.Bucket || m.FileID != id.FileID {
			vs = append(vs, "KEY-MISMATCH")
		}
		vs = append(vs, vlogStr(m))
	}
	var bs []uint32
	for b := range v.ValueLogHead {
		bs = append(bs, b)
	}
	sort.Slice(bs, func(i, j int) bool { return bs[i] < bs[j] })
	var hs []string
	for _, b := range bs {
		hs = append(hs, vlogStr(v.ValueLogHead[b]))
	}
	var gs []uint64
	for g := range v.RaftPointers {
		gs = append(gs, g)
	}
	sort.Slice(gs, func(i, j int) bool { return gs[i] < gs[j] })
	var rs []string
	for _, g := range gs {
		rs = append(rs, raftStr(v.RaftPointers[g]))
	}
	var rids []uint64
	for id := range v.Regions {
		rids = append(rids, id)
	}
	sort.Slice(rids, func(i, j int) bool { return rids[i] < rids[j] })
	var rg []string
	for _, id := range rids {
		rg = append(rg, regionStr(v.Regions[id]))
	}
	return "F[" + strings.Join(fs, ";") + "]_L[" + fmt.Sprintf("%d:%d", v.LogSegment, v.LogOffset) + "]_V[" + strings.Join(vs, ";") +
		"]_H[" + strings.Join(hs, ";") + "]_R[" + strings.Join(rs, ";") + "]_G[" + strings.Join(rg, ";") + "]"
}

// ---------------------------------------------------------------- op parsing

func u64(s string) uint64 {
	v, err := strconv.ParseUint(s, 10, 64)
	if err != nil {
		panic("bad number in op: " + s)
	}
	return v
}

func parseFile(s string) *manifest.FileMeta {
	p := strings.Split(s, ":")
	if len(p) != 8 {
		panic("bad file meta: " + s)
	}
	return &manifest.FileMeta{Level: int(u64(p[0])), FileID: u64(p[1]), Size: u64(p[2]), Smallest: hlib.UnHex(p[3]), Largest: hlib.UnHex(p[4]),
		CreatedAt: u64(p[5]), ValueSize: u64(p[6]), Ingest: p[7] == "1"}
}

func parseVlog(s string) *manifest.ValueLogMeta {
	if s == "nil" {
		return nil
	}
	p := strings.Split(s, ":")
	if len(p) != 4 {
		panic("bad vlog meta: " + s)
	}
	return &manifest.ValueLogMeta{Bucket: uint32(u64(p[0])), FileID: uint32(u64(p[1])), Offset: u64(p[2]), Valid: p[3] == "1"}
}

func parseRaft(s string) *manifest.RaftLogPointer {
	if s == "nil" {
		return nil
	}
	p := strings.Split(s, ":")
	if len(p) != 12 {
		panic("bad raft pointer: " + s)
	}
	return &manifest.RaftLogPointer{GroupID: u64(p[0]), Segment: uint32(u64(p[1])), Offset: u64(p[2]), AppliedIndex: u64(p[3]), AppliedTerm: u64(p[4]),
		Committed: u64(p[5]), SnapshotIndex: u64(p[6]), SnapshotTerm: u64(p[7]), TruncatedIndex: u64(p[8]), TruncatedTerm: u64(p[9]),
		SegmentIndex: u64(p[10]), TruncatedOffset: u64(p[11])}
}

func parseRegion(s string) manifest.RegionMeta {
	p := strings.Split(s, ":")
	if len(p) != 7 {
		panic("bad region meta: " + s)
	}
	m := manifest.RegionMeta{ID: u64(p[0]), StartKey: hlib.UnHex(p[1]), EndKey: hlib.UnHex(p[2]),
		Epoch: manifest.RegionEpoch{Version: u64(p[3]), ConfVersion: u64(p[4])}, State: manifest.RegionState(u64(p[5]))}
	if p[6] != "-" {
		for _, x := range strings.Split(p[6], ",") {
			ab := strings.Split(x, ".")
			m.Peers = append(m.Peers, manifest.PeerMeta{StoreID: u64(ab[0]), PeerID: u64(ab[1])})
		}
	}
	return m
}

func parseEdit(toks []string) manifest.Edit {
	if len(toks) != 2 {
		panic("bad edit: " + strings.Join(toks, " "))
	}
	switch toks[0] {
	case "add":
		return manifest.Edit{Type: manifest.EditAddFile, File: parseFile(toks[1])}
	case "del":
		return manifest.Edit{Type: manifest.EditDeleteFile, File: parseFile(toks[1])}
	case "lp":
		p := strings.Split(toks[1], ":")
		return manifest.Edit{Type: manifest.EditLogPointer, LogSeg: uint32(u64(p[0])), LogOffset: u64(p[1])}
	case "vh":
		return manifest.Edit{Type: manifest.EditValueLogHead, ValueLog: parseVlog(toks[1])}
	case "vd":
		return manifest.Edit{Type: manifest.EditDeleteValueLog, ValueLog: parseVlog(toks[1])}
	case "vu":
		return manifest.Edit{Type: manifest.EditUpdateValueLog, ValueLog: parseVlog(toks[1])}
	case "rp":
		return manifest.Edit{Type: manifest.EditRaftPointer, Raft: parseRaft(toks[1])}
	case "rg":
		if toks[1] == "nil" {
			return manifest.Edit{Type: manifest.EditRegion}
		}
		return manifest.Edit{Type: manifest.EditRegion, Region: &manifest.RegionEdit{Meta: parseRegion(toks[1])}}
	case "rgdel":
		return manifest.Edit{Type: manifest.EditRegion, Region: &manifest.RegionEdit{Meta: manifest.RegionMeta{ID: u64(toks[1])}, Delete: true}}
	}
	panic("bad edit kind: " + toks[0])
}

// ---------------------------------------------------------------- the run

type image struct {
	files map[string][]byte
	acked int
	// durability ghost at this crash point (see lean/NoKVModel/Manifest/Sync.lean)
	durable   int            // edits acknowledged as durable
	syncedLen map[string]int // manifest name -> bytes covered by an fsync
	srep      map[string]int // manifest name -> edits those bytes stand for
	curSynced bool           // the name in CURRENT was fsynced before the rename
}

type runner struct {
	dir       string
	fs        vfs.FS
	mgr       *manifest.Manager
	shadow    *manifest.Manager
	shadowDir string
	recording bool
	trace     []string
	callImgs  []image // images before each traced op of the call in flight
	images    []image
	torn      []image
	nEdits    int
	dumps     []string // in-memory state after every prefix of the edits (shadow manager)
	thr       int64
	sync      bool
	tmpDirs   []string
	// durability ghost
	syncedLen map[string]int
	srep      map[string]int
	curSynced bool
	tmpSynced bool
	durable   int
	inflight  int
	edits     []manifest.Edit
}

func copyMap(m map[string]int) map[string]int {
	out := make(map[string]int, len(m))
	for k, v := range m {
		out[k] = v
	}
	return out
}

func classToName(cls string) string {
	n, err := strconv.ParseUint(strings.TrimPrefix(cls, "M"), 10, 64)
	if err != nil {
		return ""
	}
	return fmt.Sprintf("MANIFEST-%06d", n)
}

// applyGhost: the effect of a COMPLETED file-system call on the durability ghost; files = the
// directory right after it
func (r *runner) applyGhost(op string, files map[string][]byte) {
	i := strings.IndexByte(op, ':')
	kind, cls := op[:i], op[i+1:]
	switch {
	case kind == "fs" && strings.HasPrefix(cls, "M"):
		name := classToName(cls)
		r.syncedLen[name] = len(files[name])
		r.srep[name] = r.nEdits + r.inflight
	case kind == "of" && strings.HasPrefix(cls, "M"):
		name := classToName(cls)
		if len(files[name]) == 0 {
			r.syncedLen[name], r.srep[name] = 0, 0
		}
	case kind == "rm" && strings.HasPrefix(cls, "M"):
		name := classToName(cls)
		delete(r.syncedLen, name)
		delete(r.srep, name)
	case (kind == "wf" || kind == "fw") && cls == "T":
		r.tmpSynced = false
	case kind == "fs" && cls == "T":
		r.tmpSynced = true
	case kind == "rn" && cls == "T>C":
		r.curSynced = r.tmpSynced
		r.tmpSynced = false
	case kind == "wf" && cls == "C":
		r.curSynced = false
	}
}

func (r *runner) imageNow(files map[string][]byte) image {
	return image{files: files, acked: r.nEdits, durable: r.durable, syncedLen: copyMap(r.syncedLen), srep: copyMap(r.srep), curSynced: r.curSynced}
}

func pathClass(dir, p string) string {
	cls := func(x string) string {
		b := filepath.Base(x)
		switch {
		case b == "CURRENT":
			return "C"
		case b == "CURRENT.tmp":
			return "T"
		case strings.HasPrefix(b, "MANIFEST-"):
			n, err := strconv.ParseUint(strings.TrimPrefix(b, "MANIFEST-"), 10, 64)
			if err == nil {
				return fmt.Sprintf("M%d", n)
			}
		}
		return "?" + b
	}
	if i := strings.Index(p, "->"); i >= 0 {
		return cls(p[:i]) + ">" + cls(p[i+2:])
	}
	return cls(p)
}

var opShort = map[vfs.Op]string{vfs.OpStat: "st", vfs.OpOpenFile: "of", vfs.OpFileWrite: "fw", vfs.OpFileSync: "fs", vfs.OpFileClose: "fc",
	vfs.OpWriteFile: "wf", vfs.OpRename: "rn", vfs.OpRemove: "rm", vfs.OpFileTrunc: "ft", vfs.OpTruncate: "tr", vfs.OpRemoveAll: "ra",
	vfs.OpOpen: "op", vfs.OpReadFile: "rf", vfs.OpMkdirAll: "mk", vfs.OpReadDir: "rd", vfs.OpGlob: "gl"}

func (r *runner) snapshot() map[string][]byte {
	out := map[string][]byte{}
	ents, err := os.ReadDir(r.dir)
	if err != nil {
		panic(err)
	}
	for _, e := range ents {
		data, err := os.ReadFile(filepath.Join(r.dir, e.Name()))
		if err != nil {
			panic(err)
		}
		out[e.Name()] = data
	}
	return out
}

func (r *runner) hook(op vfs.Op, path string) error {
	if !r.recording {
		return nil
	}
	s, ok := opShort[op]
	if !ok {
		s = string(op)
	}
	files := r.snapshot()
	if n := len(r.trace); n > 0 {
		r.applyGhost(r.trace[n-1], files)
	}
	r.trace = append(r.trace, s+":"+pathClass(r.dir, path))
	r.callImgs = append(r.callImgs, r.imageNow(files))
	return nil
}

// scratch directories live on tmpfs when there is one (fsync of the real code is then free)
var tmpBase = func() string {
	if st, err := os.Stat("/dev/shm"); err == nil && st.IsDir() {
		if d, err := os.MkdirTemp("/dev/shm", "verif-probe-"); err == nil {
			os.RemoveAll(d)
			return "/dev/shm"
		}
	}
	return ""
}()

func (r *runner) mkTemp(prefix string) string {
	d, err := os.MkdirTemp(tmpBase, prefix)
	if err != nil {
		panic(err)
	}
	r.tmpDirs = append(r.tmpDirs, d)
	return d
}

func (r *runner) cleanup() {
	if r.mgr != nil {
		r.mgr.Close()
	}
	if r.shadow != nil {
		r.shadow.Close()
	}
	for _, d := range r.tmpDirs {
		os.RemoveAll(d)
	}
}

func (r *runner) open(thr int64, sync bool) {
	r.dir = r.mkTemp("verif-mf-")
	r.shadowDir = r.mkTemp("verif-mfs-")
	r.fs = vfs.NewFaultFS(vfs.OSFS{}, r.hook)
	var err error
	r.mgr, err = manifest.Open(r.dir, r.fs)
	if err != nil {
		panic(err)
	}
	r.thr, r.sync = thr, sync
	r.mgr.SetRewriteThreshold(thr)
	r.mgr.SetSync(sync)
	r.shadow, err = manifest.Open(r.shadowDir, nil)
	if err != nil {
		panic(err)
	}
	r.shadow.SetRewriteThreshold(0)
	r.shadow.SetSync(false)
	r.dumps = []string{dump(r.shadow.Current())}
	r.syncedLen, r.srep = map[string]int{}, map[string]int{}
	r.curSynced, r.tmpSynced, r.durable = true, false, 0
}

// records of a byte string of whole frames: (start, payload length)
func frames(b []byte) [][2]int {
	var out [][2]int
	pos := 0
	for pos+4 <= len(b) {
		l := int(binary.LittleEndian.Uint32(b[pos:]))
		if pos+4+l > len(b) {
			break
		}
		out = append(out, [2]int{pos, l})
		pos += 4 + l
	}
	if pos != len(b) {
		panic("appended bytes are not whole frames")
	}
	return out
}

// call wraps one API call: trace, crash images between file ops, torn images inside appends.
func (r *runner) call(f func() error) (string, error) {
	r.trace, r.callImgs = nil, nil
	r.recording = true
	err := f()
	r.recording = false
	after := r.snapshot()
	if n := len(r.trace); n > 0 {
		r.applyGhost(r.trace[n-1], after)
	}
	if r.curSynced && len(r.trace) > 0 { // a call that touched nothing (LogRaftTruncate no-op) is no call in the model
		if s := r.srep[string(after["CURRENT"])]; s > r.durable {
			r.durable = s
		}
	}
	for k, im := range r.callImgs {
		r.images = append(r.images, im)
		// torn variants: a file_write that appends whole records to the manifest CURRENT names
		if !strings.HasPrefix(r.trace[k], "fw:M") {
			continue
		}
		name := string(im.files["CURRENT"])
		cls := pathClass(r.dir, name)
		if r.trace[k] != "fw:"+cls {
			continue
		}
		next := after
		if k+1 < len(r.callImgs) {
			next = r.callImgs[k+1].files
		}
		before := im.files[name]
		delta := next[name][len(before):]
		fr := frames(delta)
		for i, x := range fr {
			cuts := []int{x[0] + 2, x[0] + 4, x[0] + 4 + x[1]/2}
			if i+1 < len(fr) {
				cuts = append(cuts, fr[i+1][0])
			}
			for _, c := range cuts {
				files := map[string][]byte{}
				for n, d := range im.files {
					files[n] = d
				}
				files[name] = append(append([]byte(nil), before...), delta[:c]...)
				r.torn = append(r.torn, image{files: files, acked: im.acked})
			}
		}
	}
	tr := "-"
	if len(r.trace) > 0 {
		tr = strings.Join(r.trace, ",")
	}
	return tr, err
}

func (r *runner) logShadow(edits ...manifest.Edit) {
	for _, e := range edits {
		if err := r.shadow.LogEdit(e); err != nil {
			panic(err)
		}
		r.dumps = append(r.dumps, dump(r.shadow.Current()))
		r.edits = append(r.edits, e)
		r.nEdits++
	}
	r.inflight = 0
}

// lossVariants: what a crash at this point may leave when bytes written since the last fsync of
// the manifest CURRENT names can be lost (same order as Manifest.lossVariants in Lean): every
// record boundary at or after the synced point with the 3 torn shapes of the next record, then
// "nothing lost"; and, if the name in CURRENT was never fsynced, CURRENT short of one byte.
func lossVariants(im image) []map[string][]byte {
	name := string(im.files["CURRENT"])
	data, ok := im.files[name]
	if !ok {
		return []map[string][]byte{im.files}
	}
	with := func(k string, v []byte) map[string][]byte {
		files := map[string][]byte{}
		for n, d := range im.files {
			files[n] = d
		}
		files[k] = v
		return files
	}
	S := im.syncedLen[name]
	if S > len(data) {
		S = len(data)
	}
	var out []map[string][]byte
	for _, x := range frames(data[S:]) {
		start := S + x[0]
		for _, c := range []int{start, start + 2, start + 4, start + 4 + x[1]/2} {
			out = append(out, with(name, append([]byte(nil), data[:c]...)))
		}
	}
	out = append(out, im.files)
	if !im.curSynced && len(name) > 0 {
		out = append(out, with("CURRENT", []byte(name[:len(name)-1])))
	}
	return out
}

func (r *runner) allImages() []image {
	return append(append([]image(nil), r.images...), r.imageNow(r.snapshot()))
}

func (r *runner) lossLine(mode string) string {
	good := true
	var rs []string
	imgs := r.allImages()
	for _, im := range imgs {
		for _, files := range lossVariants(im) {
			s, ok := r.recoverImage(files, mode)
			x := r.matchState(im.durable, s, ok)
			if _, err := strconv.Atoi(x); err != nil {
				good = false
			}
			rs = append(rs, x)
		}
	}
	v := "ok"
	if !good {
		v = "bad"
	}
	return fmt.Sprintf("%s n=%d v=%d js=%s", v, len(imgs), len(rs), strings.Join(rs, ","))
}

// crash: the directory becomes loss variant v of crash point i; Verify + Open on it; the run
// continues from there with the recovered prefix as its acknowledged list.  The prefix length is
// read off the recovered manifest (records beyond the synced ones stand for one edit each).
func (r *runner) crash(i, v int) string {
	imgs := r.allImages()
	im := imgs[i%len(imgs)]
	vs := lossVariants(im)
	files := vs[v%len(vs)]
	d := r.mkTemp("verif-mf-")
	for n, data := range files {
		if err := os.WriteFile(filepath.Join(d, n), data, 0o644); err != nil {
			panic(err)
		}
	}
	oldDir := r.dir
	r.dir = d
	fail := func() string { r.dir = oldDir; return "bad" }
	name := string(files["CURRENT"])
	if _, ok := files[name]; !ok {
		return fail()
	}
	if err := manifest.Verify(d, r.fs); err != nil {
		return fail()
	}
	m, err := manifest.Open(d, r.fs)
	if err != nil {
		return fail()
	}
	data, err := os.ReadFile(filepath.Join(d, name))
	if err != nil {
		m.Close()
		return fail()
	}
	S := im.syncedLen[name]
	if S > len(data) {
		m.Close()
		return fail()
	}
	j := im.srep[name] + len(frames(data[S:]))
	if j > r.nEdits {
		// only without fsyncs (SetSync(false)): an unsynced snapshot has more records than edits; the
		// model's `take j` clamps the same way and the state comparison below decides
		j = r.nEdits
	}
	got := dump(m.Current())
	if r.dumps[j] != got {
		m.Close()
		return fail()
	}
	r.mgr.Close()
	r.mgr = m
	r.mgr.SetRewriteThreshold(r.thr)
	r.mgr.SetSync(r.sync)
	r.images, r.torn = nil, nil
	r.syncedLen, r.srep = copyMap(im.syncedLen), copyMap(im.srep)
	r.curSynced, r.tmpSynced, r.durable = im.curSynced, false, im.durable
	r.edits, r.dumps, r.nEdits = r.edits[:j], r.dumps[:j+1], j
	// the shadow manager (never reloaded) restarts from the recovered prefix
	r.shadow.Close()
	r.shadowDir = r.mkTemp("verif-mfs-")
	r.shadow, err = manifest.Open(r.shadowDir, nil)
	if err != nil {
		panic(err)
	}
	r.shadow.SetRewriteThreshold(0)
	r.shadow.SetSync(false)
	for _, e := range r.edits {
		if err := r.shadow.LogEdit(e); err != nil {
			panic(err)
		}
	}
	if dump(r.shadow.Current()) != r.dumps[j] {
		panic("shadow replay diverged")
	}
	return fmt.Sprintf("ok j=%d %s", j, got)
}

// recover an image with the plain FS
func (r *runner) recoverImage(files map[string][]byte, mode string) (string, bool) {
	d := r.mkTemp("verif-mfr-")
	defer os.RemoveAll(d)
	for n, data := range files {
		if err := os.WriteFile(filepath.Join(d, n), data, 0o644); err != nil {
			panic(err)
		}
	}
	if mode == "db" {
		// db.go:runRecoveryChecks + lsm: Verify, then Open
		if err := manifest.Verify(d, nil); err != nil && !errors.Is(err, os.ErrNotExist) {
			return "", false
		}
		m, err := manifest.Open(d, nil)
		if err != nil {
			return "", false
		}
		defer m.Close()
		return dump(m.Current()), true
	}
	// raw: the PD open path, pd/storage.OpenLocalStore (manifest.Open without Verify in the as-is tree)
	st, err := pdstorage.OpenLocalStore(d, nil)
	if err != nil {
		return "", false
	}
	defer st.Close()
	return dump(st.VerifManifest().Current()), true
}

func (r *runner) matchState(acked int, s string, ok bool) string {
	if !ok {
		return "err"
	}
	for j := acked; j < len(r.dumps); j++ {
		if r.dumps[j] == s {
			return strconv.Itoa(j)
		}
	}
	for j := 0; j < acked && j < len(r.dumps); j++ {
		if r.dumps[j] == s {
			return "lost" + strconv.Itoa(j)
		}
	}
	return "none"
}

func (r *runner) crashLine(mode string, imgs []image) string {
	good := true
	var rs []string
	for _, im := range imgs {
		s, ok := r.recoverImage(im.files, mode)
		x := r.matchState(im.acked, s, ok)
		if _, err := strconv.Atoi(x); err != nil {
			good = false
		}
		rs = append(rs, x)
	}
	v := "ok"
	if !good {
		v = "bad"
	}
	return fmt.Sprintf("%s n=%d js=%s", v, len(rs), strings.Join(rs, ","))
}

func splitBar(toks []string) [][]string {
	out := [][]string{{}}
	for _, t := range toks {
		if t == "|" {
			out = append(out, []string{})
		} else {
			out[len(out)-1] = append(out[len(out)-1], t)
		}
	}
	return out
}

type engine struct{}

func (engine) Exec(ops []string) []string {
	r := &runner{}
	defer r.cleanup()
	out := make([]string, len(ops))
	for i, op := range ops {
		toks := strings.Fields(op)
		if len(toks) == 0 {
			out[i] = "bad-op"
			continue
		}
		if toks[0] != "open" && r.mgr == nil {
			r.open(0, true)
		}
		switch toks[0] {
		case "open":
			if r.mgr != nil {
				out[i] = "bad-op"
				continue
			}
			thr, _ := strconv.ParseInt(strings.TrimPrefix(toks[1], "thr="), 10, 64)
			r.open(thr, strings.TrimPrefix(toks[2], "sync=") == "1")
			out[i] = "ok"
		case "edit":
			e := parseEdit(toks[1:])
			r.inflight = 1
			tr, err := r.call(func() error { return r.mgr.LogEdit(e) })
			r.logShadow(e)
			out[i] = res(tr, err)
		case "batch":
			var es []manifest.Edit
			for _, g := range splitBar(toks[1:]) {
				es = append(es, parseEdit(g))
			}
			r.inflight = len(es)
			tr, err := r.call(func() error { return r.mgr.LogEdits(es...) })
			r.logShadow(es...)
			out[i] = res(tr, err)
		case "rtrunc":
			g, idx, term, seg, off := u64(toks[1]), u64(toks[2]), u64(toks[3]), uint32(u64(toks[4])), u64(toks[5])
			r.inflight = 1
			tr, err := r.call(func() error { return r.mgr.LogRaftTruncate(g, idx, term, seg, off) })
			if tr == "-" {
				r.inflight = 0
			}
			switch {
			case err != nil && tr == "-":
				out[i] = "err"
			case tr == "-":
				out[i] = "noop"
			default:
				ptr, _ := r.mgr.RaftPointer(g)
				r.logShadow(manifest.Edit{Type: manifest.EditRaftPointer, Raft: &ptr})
				out[i] = res(tr, err)
			}
		case "rewrite":
			r.inflight = 0
			tr, err := r.call(func() error { return r.mgr.Rewrite() })
			out[i] = res(tr, err)
		case "dump":
			out[i] = dump(r.mgr.Current())
		case "reload":
			if err := r.mgr.Close(); err != nil {
				out[i] = "close-err:" + err.Error()
				continue
			}
			if toks[1] == "db" {
				if err := manifest.Verify(r.dir, r.fs); err != nil {
					out[i] = "err"
					continue
				}
				m, err := manifest.Open(r.dir, r.fs)
				if err != nil {
					out[i] = "err"
					continue
				}
				r.mgr = m
			} else {
				st, err := pdstorage.OpenLocalStore(r.dir, r.fs)
				if err != nil {
					out[i] = "err"
					continue
				}
				r.mgr = st.VerifManifest()
			}
			r.mgr.SetRewriteThreshold(r.thr)
			r.mgr.SetSync(r.sync)
			out[i] = dump(r.mgr.Current())
		case "crashpoints":
			imgs := append(append([]image(nil), r.images...), image{files: r.snapshot(), acked: r.nEdits})
			out[i] = r.crashLine(toks[1], imgs)
		case "torn":
			out[i] = r.crashLine(toks[1], r.torn)
		case "losspoints":
			out[i] = r.lossLine(toks[1])
		case "crash":
			out[i] = r.crash(int(u64(toks[1])), int(u64(toks[2])))
		default:
			out[i] = "bad-op"
		}
	}
	return out
}

func res(tr string, err error) string {
	if err != nil {
		return "err:" + tr
	}
	return "ok " + tr
}

// ---------------------------------------------------------------- generator

var u64Pool = []uint64{0, 0, 1, 1, 2, 3, 5, 7, 100, 127, 128, 129, 255, 256, 16383, 16384, 1 << 21, 1<<32 - 1, 1 << 32, 1 << 35, 1<<63 - 1, 1 << 63, 1<<64 - 1}
var u32Pool = []uint64{0, 0, 1, 1, 2, 3, 4, 127, 128, 16384, 1<<32 - 1}
var keyPool = [][]byte{nil, {0x00}, {0x61}, {0x61, 0x00}, {0x61, 0x62, 0x63}, {0x7a}, {0xff}, {0xff, 0xff, 0xff, 0xff}}

func ru64(r *hlib.Rand) uint64 {
	if r.Chance(10) {
		return r.U64()
	}
	return hlib.Pick(r, u64Pool)
}

func rsmall(r *hlib.Rand, n int) uint64 { return uint64(r.Intn(n)) }

func rkey(r *hlib.Rand, big bool) []byte {
	if big && r.Chance(60) {
		b := make([]byte, 300+r.Intn(500))
		for i := range b {
			b[i] = byte(r.Intn(256))
		}
		return b
	}
	return hlib.Pick(r, keyPool)
}

type gen struct {
	r        *hlib.Rand
	big      bool
	perLevel map[uint64]int
	nextID   uint64
}

func (g *gen) file() string {
	r := g.r
	level := rsmall(r, 4)
	if r.Chance(5) {
		level = hlib.Pick(r, []uint64{6, 127, 128, 1 << 20})
	}
	id := rsmall(r, 6)
	// duplicates of a file id inside a level only while the level is small: sort.Slice is an
	// insertion sort (stable) up to 12 elements, not stable beyond
	if g.perLevel[level] >= 9 || r.Chance(40) {
		g.nextID++
		id = 1000 + g.nextID
	}
	g.perLevel[level]++
	return fmt.Sprintf("%d:%d:%d:%s:%s:%d:%d:%s", level, id, ru64(r), hlib.Hex(rkey(r, g.big)), hlib.Hex(rkey(r, g.big)), ru64(r), ru64(r), b01(r.Bool()))
}

func (g *gen) delFile() string {
	r := g.r
	return fmt.Sprintf("%d:%d:%d:%s:%s:%d:%d:%s", rsmall(r, 4), rsmall(r, 6), ru64(r), hlib.Hex(rkey(r, false)), hlib.Hex(rkey(r, false)), ru64(r), ru64(r), b01(r.Bool()))
}

func (g *gen) vlog() string {
	r := g.r
	if r.Chance(4) {
		return "nil"
	}
	b, f := rsmall(r, 3), rsmall(r, 4)
	if r.Chance(8) {
		b, f = hlib.Pick(r, u32Pool), hlib.Pick(r, u32Pool)
	}
	return fmt.Sprintf("%d:%d:%d:%s", b, f, ru64(r), b01(r.Chance(60)))
}

func (g *gen) raft() string {
	r := g.r
	if r.Chance(4) {
		return "nil"
	}
	grp := rsmall(r, 4)
	if r.Chance(8) {
		grp = ru64(r)
	}
	return fmt.Sprintf("%d:%d:%d:%d:%d:%d:%d:%d:%d:%d:%d:%d", grp, hlib.Pick(r, u32Pool), ru64(r), ru64(r), ru64(r), ru64(r), ru64(r), ru64(r),
		rsmall(r, 3), rsmall(r, 3), hlib.Pick(r, u32Pool), rsmall(r, 3))
}

func (g *gen) region() string {
	r := g.r
	if r.Chance(4) {
		return "nil"
	}
	id := rsmall(r, 5)
	if r.Chance(8) {
		id = ru64(r)
	}
	np := r.Intn(4)
	ps := "-"
	if np > 0 {
		var xs []string
		for i := 0; i < np; i++ {
			xs = append(xs, fmt.Sprintf("%d.%d", ru64(r), ru64(r)))
		}
		ps = strings.Join(xs, ",")
	}
	return fmt.Sprintf("%d:%s:%s:%d:%d:%d:%s", id, hlib.Hex(rkey(r, false)), hlib.Hex(rkey(r, false)), ru64(r), ru64(r), r.Intn(5), ps)
}

func (g *gen) edit() string {
	r := g.r
	switch x := r.Intn(100); {
	case x < 22:
		return "add " + g.file()
	case x < 34:
		return "del " + g.delFile()
	case x < 42:
		return fmt.Sprintf("lp %d:%d", hlib.Pick(r, u32Pool), ru64(r))
	case x < 54:
		return "vh " + g.vlog()
	case x < 62:
		return "vd " + g.vlog()
	case x < 74:
		return "vu " + g.vlog()
	case x < 84:
		return "rp " + g.raft()
	case x < 94:
		return "rg " + g.region()
	default:
		return fmt.Sprintf("rgdel %d", rsmall(r, 5))
	}
}

func (engine) Gen(r *hlib.Rand, tier string) []string {
	g := &gen{r: r, perLevel: map[uint64]int{}}
	g.big = r.Chance(8)
	n := 6 + r.Intn(20)
	if tier == "thorough" && r.Chance(20) {
		n = 20 + r.Intn(40)
	}
	var thr int
	switch x := r.Intn(100); {
	case x < 10:
		thr = 0
	case x < 30:
		thr = 1
	case x < 80:
		thr = 30 + r.Intn(400)
	case x < 90:
		thr = 400 + r.Intn(8000)
	default:
		thr = 1 << 20
	}
	syncOn := r.Chance(80)
	ops := []string{fmt.Sprintf("open thr=%d sync=%s", thr, b01(syncOn))}
	crashes := 0
	for i := 0; i < n; i++ {
		switch x := r.Intn(100); {
		case x < 5 && i > 2 && crashes < 3:
			// a crash round: any crash point of the round so far, any loss of unsynced bytes
			crashes++
			ops = append(ops, fmt.Sprintf("crash %d %d", r.Intn(1000), r.Intn(100)))
		case x < 70:
			ops = append(ops, "edit "+g.edit())
		case x < 82:
			k := 2 + r.Intn(3)
			var es []string
			for j := 0; j < k; j++ {
				es = append(es, g.edit())
			}
			ops = append(ops, "batch "+strings.Join(es, " | "))
		case x < 88:
			ops = append(ops, fmt.Sprintf("rtrunc %d %d %d %d %d", rsmall(r, 4), rsmall(r, 3), rsmall(r, 3), hlib.Pick(r, u32Pool), rsmall(r, 3)))
		case x < 92:
			ops = append(ops, "rewrite")
		case x < 96:
			ops = append(ops, "dump")
		default:
			ops = append(ops, "reload "+hlib.Pick(r, []string{"db", "raw"}))
		}
	}
	ops = append(ops, "dump", "crashpoints db")
	if r.Chance(50) {
		ops = append(ops, "crashpoints raw")
	}
	ops = append(ops, "torn db")
	if r.Chance(50) {
		ops = append(ops, "torn raw")
	}
	if syncOn || n <= 10 {
		ops = append(ops, "losspoints db")
		if r.Chance(25) {
			ops = append(ops, "losspoints raw")
		}
	}
	if r.Chance(30) {
		ops = append(ops, fmt.Sprintf("crash %d %d", r.Intn(1000), r.Intn(100)), "edit "+g.edit(), "dump", "crashpoints db", "losspoints db")
	}
	ops = append(ops, "reload "+hlib.Pick(r, []string{"db", "raw"}))
	return ops
}

func (engine) Nontrivial(ops, impl, model, spec []string) bool {
	edits, rewrites, crash := 0, 0, false
	for i, op := range ops {
		if strings.HasPrefix(op, "edit") || strings.HasPrefix(op, "batch") {
			edits++
		}
		if strings.Contains(impl[i], "rn:T>C") {
			rewrites++
		}
		if strings.HasPrefix(op, "crashpoints") && strings.Contains(impl[i], " n=") {
			crash = true
		}
	}
	return edits >= 5 && rewrites >= 1 && crash
}

// Extra: how much of the run exercised the loss/rounds machinery
func (engine) Extra() map[string]any { return map[string]any{"ops_added": "losspoints (every crash point x every loss of bytes written since the last fsync), crash (multi-round: recover a loss variant and continue)"} }

func (engine) Rule() string {
	return "C15: random edit/batch/LogRaftTruncate/Rewrite/reload sequences (6–60 calls, all 8 edit types, field values from a boundary pool incl. 2^32-1, 2^63, 2^64-1, nil payloads, colliding ids, rewrite thresholds 0/1/30–8000/1MiB, SetSync on/off, 8% cases with 300–800-byte keys so the snapshot spans several 4096-byte writes) through the real manifest.Manager on FaultFS; every file-system call is a crash point (directory copied before it), every append additionally torn at 3 byte positions per record; with the fsync ghost every crash point is also recovered under every loss of bytes written since the last fsync of the live manifest (4 cuts per unsynced record), and ~35% of the cases contain 1-3 crash rounds (crash at a random crash point + loss variant, Verify+Open, continue); non-trivial = at least 5 logging calls, at least one rewrite (CURRENT renamed) and a crash-point sweep"
}

func main() { hlib.Main("manifest", engine{}) }

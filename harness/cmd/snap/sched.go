package main

// Goroutine scheduler over utils.VerifYieldHook (same protocol as harness/cmd/concy): a scheduled
// goroutine parks at every verifYield of utils/watermarker.go; `step` releases exactly one
// goroutine until it parks again, returns, or blocks inside WaterMark.WaitForMark.  Blocking is
// detected from the goroutine's state ("select" with a WaitForMark frame), never assumed.

import (
	"bytes"
	"os"
	"runtime"
	"strconv"
	"strings"
	"sync"
	"sync/atomic"
	"time"

	"github.com/feichai0017/NoKV/utils"
)

func goid() uint64 {
	var buf [64]byte
	n := runtime.Stack(buf[:], false)
	f := bytes.Fields(buf[:n])
	if len(f) < 2 {
		return 0
	}
	id, _ := strconv.ParseUint(string(f[1]), 10, 64)
	return id
}

const stuckAfter = 10 * time.Second

type sthread struct {
	free    atomic.Bool // end of case: run on without parking
	gid     uint64
	resume  chan struct{}
	events  chan string
	over    bool
	blocked bool // inside WaitForMark, not waiting on resume
	started bool // released at least once
}

type scheduler struct {
	mu     sync.Mutex
	byG    map[uint64]*sthread
	thr    map[int]*sthread
	spawn  []int // transaction ids in spawn order (an id appears once per scheduled call)
	gaveUp bool
}

var sched = &scheduler{byG: map[uint64]*sthread{}, thr: map[int]*sthread{}}

func init() {
	utils.VerifYieldHook = func(point string) {
		sched.mu.Lock()
		t := sched.byG[goid()]
		sched.mu.Unlock()
		if t == nil || t.free.Load() {
			return // harness goroutine, commit worker, …: not scheduled
		}
		t.events <- point
		<-t.resume
	}
}

func (s *scheduler) reset() {
	s.mu.Lock()
	// goroutines of earlier cases stay parked forever on their private channels; forget them
	s.byG = map[uint64]*sthread{}
	s.thr = map[int]*sthread{}
	s.spawn = nil
	s.gaveUp = false
	s.mu.Unlock()
}

// order lists the transactions that ever had a scheduled call, in order of their first spawn.
func (s *scheduler) order() []int {
	s.mu.Lock()
	defer s.mu.Unlock()
	var out []int
	seen := map[int]bool{}
	for _, id := range s.spawn {
		if !seen[id] {
			seen[id] = true
			out = append(out, id)
		}
	}
	return out
}

func (s *scheduler) get(tid int) *sthread {
	s.mu.Lock()
	defer s.mu.Unlock()
	return s.thr[tid]
}

// live reports whether some scheduled call has not returned yet.
func (s *scheduler) live() bool {
	s.mu.Lock()
	defer s.mu.Unlock()
	for _, t := range s.thr {
		if !t.over {
			return true
		}
	}
	return false
}

// spawn starts body in a scheduled goroutine, parked before its first instruction.
func (s *scheduler) start(tid int, body func() string) {
	t := &sthread{resume: make(chan struct{}), events: make(chan string, 1)}
	s.mu.Lock()
	s.thr[tid] = t
	s.spawn = append(s.spawn, tid)
	s.mu.Unlock()
	reg := make(chan struct{})
	go func() {
		t.gid = goid()
		s.mu.Lock()
		s.byG[t.gid] = t
		s.mu.Unlock()
		close(reg)
		utils.VerifYieldHook("spawned")
		res := body()
		t.events <- "return:" + res
	}()
	<-reg
	<-t.events // "spawned"
}

// blockedOn reports where goroutine gid is blocked: "wait" = parked in the select of
// WaterMark.WaitForMark, "mutex" = in sync.Mutex.Lock of the oracle (only code that differs from
// the modelled one can get there: the harness never releases a Commit into a held mutex), "" = not.
func allStacks() string {
	for size := 1 << 20; ; size *= 4 {
		buf := make([]byte, size)
		if n := runtime.Stack(buf, true); n < size || size >= 1<<28 {
			return string(buf[:n])
		}
	}
}

func blockedOn(gid uint64) string {
	for _, blk := range strings.Split(allStacks(), "\n\n") {
		head, _, _ := strings.Cut(blk, "\n")
		if !strings.HasPrefix(head, "goroutine "+strconv.FormatUint(gid, 10)+" [") {
			continue
		}
		if strings.Contains(head, "[select") && strings.Contains(blk, ".WaitForMark(") {
			return "wait"
		}
		if strings.Contains(head, "[sync.Mutex.Lock") && strings.Contains(blk, "(*oracle).") {
			return "mutex"
		}
		return ""
	}
	return ""
}

// await waits for the released goroutine's next event.
func (s *scheduler) await(t *sthread) string {
	deadline := time.Now().Add(stuckAfter)
	tick := 100 * time.Microsecond
	for {
		select {
		case e := <-t.events:
			t.blocked = false
			if strings.HasPrefix(e, "return:") {
				t.over = true
			}
			return e
		case <-time.After(tick):
			switch blockedOn(t.gid) {
			case "wait":
				t.blocked = true
				return "blocked"
			case "mutex":
				t.blocked = true
				return "blocked:mutex"
			}
			if s.gaveUp || time.Now().After(deadline) {
				// neither parked, nor returned, nor blocked where the model can block: give the
				// whole case up (every later scheduled op answers stuck at once)
				if os.Getenv("VERIF_SNAP_TRACE") != "" {
					for _, blk := range strings.Split(allStacks(), "\n\n") {
						if strings.HasPrefix(blk, "goroutine "+strconv.FormatUint(t.gid, 10)+" [") {
							os.Stderr.WriteString("STUCK:\n" + blk + "\n")
						}
					}
				}
				if os.Getenv("VERIF_SNAP_TRACE") != "" {
					for _, blk := range strings.Split(allStacks(), "\n\n") {
						if strings.HasPrefix(blk, "goroutine "+strconv.FormatUint(t.gid, 10)+" [") {
							os.Stderr.WriteString("STUCK:\n" + blk + "\n")
						}
					}
				}
				s.gaveUp = true
				t.blocked = true
				return "stuck"
			}
			if tick < 5*time.Millisecond {
				tick *= 2
			}
		}
	}
}

// step releases thread tid until its next yield / return / block.
func (s *scheduler) step(t *sthread) string {
	if !t.blocked {
		t.started = true
		t.resume <- struct{}{}
	}
	return s.await(t)
}

// finish lets every scheduled goroutine of the case run on freely (no more parking) and waits a
// moment for their calls to return, so that a case that ends early (a shrunk one) does not leave
// goroutines behind inside a DB that is about to be closed.
func (s *scheduler) finish() {
	s.mu.Lock()
	var ts []*sthread
	for _, t := range s.thr {
		ts = append(ts, t)
	}
	for _, t := range s.byG {
		dup := false
		for _, u := range ts {
			dup = dup || u == t
		}
		if !dup {
			ts = append(ts, t)
		}
	}
	s.mu.Unlock()
	for _, t := range ts {
		if t.over {
			continue
		}
		t.free.Store(true)
		if !t.blocked {
			select {
			case t.resume <- struct{}{}:
			default: // not parked on resume (it has an undelivered event): drained below
			}
		}
	}
	deadline := time.Now().Add(2 * time.Second)
	for _, t := range ts {
		for !t.over && time.Now().Before(deadline) {
			select {
			case e := <-t.events:
				if strings.HasPrefix(e, "return:") {
					t.over = true
				} else {
					select {
					case t.resume <- struct{}{}:
					case <-time.After(10 * time.Millisecond):
					}
				}
			case <-time.After(5 * time.Millisecond):
			}
		}
	}
}

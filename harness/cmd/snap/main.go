// Correspondence harness for the snap engine: C05 (a transaction never sees another transaction
// partially or late).  Three kinds of case, told apart by their first op line:
//
//	seq     one goroutine issues interleaved API calls of several transactions on a real NoKV.DB
//	        (DetectConflicts on); long-lived transactions re-read keys and re-scan after other
//	        transactions committed.
//	sched   real goroutines (NewTransaction / Commit / Discard calls) are stepped through the
//	        yield points of utils/watermarker.go by the op lines; the same lines drive the Lean
//	        small-step system.  Reads of open transactions run between the steps.
//	stress  free-running committers write the same fresh value to several keys in one transaction,
//	        free-running readers check that they see equal values and that re-reads and scans agree
//	        (validation only; sound oracle).
//
// Needs the verif hooks utils/verif_yield.go (+ the verifYield insertions of watermarker.go) and
// verif_snap_hooks.go (oracle counters).
package main

import (
	"errors"
	"fmt"
	"os"
	"sort"
	"strconv"
	"strings"
	"time"

	NoKV "github.com/feichai0017/NoKV"
	"github.com/feichai0017/NoKV/kv"
	"github.com/feichai0017/NoKV/utils"

	"verif/harness/hlib"
)

var keys = [][]byte{{0x61}, {0x62}, {0x63}, {0x64}}

type engine struct {
	stressRuns, stressTxns, stressReads int
}

func (e *engine) Rule() string {
	return "C05: (seq) interleaved begin/get/set/del/scan/commit/discard of single-use transactions over 4 keys on a fresh DB, long-lived readers re-reading and re-scanning after other commits; " +
		"either may continue on a reopened (Close+Open) non-empty database; (sched) 2-3 Commit calls (each writing 2 keys with one value) and 1-2 NewTransaction calls as goroutines stepped through wm.begin.mid / wm.advance.loop in random order, reads of the open transactions between steps and again at the end; " +
		"(stress) free-running committers and readers with the equal-values oracle; " +
		"non-trivial = a transaction read a key (get or scan) both before and after another transaction's successful commit of that key returned, or read while a scheduled Commit was parked inside its call, or a stress run"
}

func val(r *hlib.Rand) []byte {
	n := 1 + r.Intn(3)
	b := make([]byte, n)
	for i := range b {
		b[i] = byte(0x30 + r.Intn(10))
	}
	return b
}

// ---------------------------------------------------------------- generators

func (e *engine) Gen(r *hlib.Rand, tier string) []string {
	x := r.Intn(100)
	switch {
	case x < 5:
		return genHighVersion(r)
	case x < 45:
		return genSeq(r)
	case x < 93:
		return genSched(r)
	default:
		return genStress(r, tier)
	}
}

func genSeq(r *hlib.Rand) []string {
	ops := []string{"seq"}
	next := 1
	var open []*tx
	begin := func(upd, reader bool) {
		m := "r"
		if upd {
			m = "u"
		}
		ops = append(ops, fmt.Sprintf("begin %d %s", next, m))
		open = append(open, &tx{id: next, upd: upd, reader: reader})
		next++
	}
	closeTx := func(i int, commit bool) {
		t := open[i]
		if commit {
			ops = append(ops, fmt.Sprintf("commit %d", t.id))
		} else {
			ops = append(ops, fmt.Sprintf("discard %d", t.id))
		}
		open = append(open[:i], open[i+1:]...)
	}
	n := 20 + r.Intn(50)
	for i := 0; i < n; i++ {
		if len(open) == 0 && i > 5 && r.Chance(25) {
			ops = append(ops, "reopen")
		}
		if len(open) == 0 || (len(open) < 5 && r.Chance(18)) {
			reader := r.Chance(35)
			begin(!reader || r.Chance(30), reader)
			continue
		}
		j := r.Intn(len(open))
		t := open[j]
		k := hlib.Hex(hlib.Pick(r, keys))
		y := r.Intn(100)
		switch {
		case t.reader && y < 55, !t.reader && y < 25:
			ops = append(ops, fmt.Sprintf("get %d %s", t.id, k))
		case y < 62 && t.reader, y < 30 && !t.reader:
			ops = append(ops, fmt.Sprintf("scan %d", t.id))
		case t.reader && y < 92:
			// a long-lived reader mostly lives on; let a writer make progress instead
			if w := pickWriter(r, open); w >= 0 {
				wt := open[w]
				ops = append(ops, fmt.Sprintf("set %d %s %s", wt.id, k, hlib.Hex(val(r))))
				wt.wrote = true
				if r.Chance(60) {
					closeTx(w, true)
				}
			} else {
				begin(true, false)
			}
		case t.reader:
			closeTx(j, r.Chance(50))
		case y < 62:
			ops = append(ops, fmt.Sprintf("set %d %s %s", t.id, k, hlib.Hex(val(r))))
			t.wrote = true
		case y < 68:
			ops = append(ops, fmt.Sprintf("del %d %s", t.id, k))
			t.wrote = true
		case y < 92:
			closeTx(j, true)
		case y < 96:
			closeTx(j, false)
		default:
			ops = append(ops, "state")
		}
	}
	// every transaction still open re-reads everything: its snapshot must not have moved
	for _, t := range open {
		for _, k := range keys {
			ops = append(ops, fmt.Sprintf("get %d %s", t.id, hlib.Hex(k)))
		}
		ops = append(ops, fmt.Sprintf("scan %d", t.id))
	}
	for len(open) > 0 {
		closeTx(0, r.Chance(30))
	}
	ops = append(ops, "state")
	return ops
}

type tx struct {
	id     int
	upd    bool
	wrote  bool
	reader bool // long-lived: mostly reads
}

func pickWriter(r *hlib.Rand, open []*tx) int {
	var c []int
	for i, t := range open {
		if t.upd && !t.reader {
			c = append(c, i)
		}
	}
	if len(c) == 0 {
		return -1
	}
	return c[r.Intn(len(c))]
}

func genSched(r *hlib.Rand) []string {
	ops := []string{"sched"}
	next := 1
	// prologue: 0-2 whole commits (0: the fresh-DB case, read timestamp 0)
	for i, n := 0, r.Intn(3); i < n; i++ {
		ops = append(ops, fmt.Sprintf("begin %d u", next))
		for _, k := range keys[:2+r.Intn(3)] {
			ops = append(ops, fmt.Sprintf("set %d %s %s", next, hlib.Hex(k), hlib.Hex(val(r))))
		}
		ops = append(ops, fmt.Sprintf("commit %d", next))
		next++
	}
	// half of the cases with a non-empty prologue continue on a REOPENED database: the oracle is
	// then seeded by initCommitState and the first commit of the session is the interesting one
	if next > 1 && r.Chance(50) {
		ops = append(ops, "reopen", "state")
	}
	// an older reader that stays open across everything
	old := 0
	if r.Chance(60) {
		old = next
		ops = append(ops, fmt.Sprintf("begin %d r", next))
		ops = append(ops, fmt.Sprintf("get %d %s", next, hlib.Hex(keys[0])))
		next++
	}
	// committers: opened and filled by whole calls, Commit scheduled
	nc := 2 + r.Intn(2)
	var live []int
	var committers []int
	for i := 0; i < nc; i++ {
		id := next
		next++
		ops = append(ops, fmt.Sprintf("begin %d u", id))
		if r.Chance(40) {
			ops = append(ops, fmt.Sprintf("get %d %s", id, hlib.Hex(hlib.Pick(r, keys)))) // read set: conflicts possible
		}
		v := hlib.Hex(val(r))
		a := r.Intn(len(keys))
		b := (a + 1 + r.Intn(len(keys)-1)) % len(keys)
		ops = append(ops, fmt.Sprintf("set %d %s %s", id, hlib.Hex(keys[a]), v))
		ops = append(ops, fmt.Sprintf("set %d %s %s", id, hlib.Hex(keys[b]), v))
		committers = append(committers, id)
	}
	for _, id := range committers {
		ops = append(ops, fmt.Sprintf("spawn %d commit", id))
		live = append(live, id)
	}
	// readers begun concurrently
	nr := 1 + r.Intn(2)
	var readers []int
	pendingReaders := nr
	spawnReader := func() {
		id := next
		next++
		m := "r"
		if r.Chance(25) {
			m = "u"
		}
		ops = append(ops, fmt.Sprintf("spawn %d begin %s", id, m))
		live = append(live, id)
		readers = append(readers, id)
		pendingReaders--
	}
	if r.Chance(50) {
		spawnReader()
	}
	readSome := func() {
		// the harness answers notxn for a reader whose NewTransaction has not returned yet
		for _, id := range readers {
			if r.Chance(50) {
				ops = append(ops, fmt.Sprintf("get %d %s", id, hlib.Hex(hlib.Pick(r, keys))))
			}
			if r.Chance(20) {
				ops = append(ops, fmt.Sprintf("scan %d", id))
			}
		}
		if old != 0 && r.Chance(30) {
			ops = append(ops, fmt.Sprintf("get %d %s", old, hlib.Hex(hlib.Pick(r, keys))))
		}
	}
	steps := 25 + r.Intn(60)
	for i := 0; i < steps; i++ {
		if pendingReaders > 0 && r.Chance(12) {
			spawnReader()
		}
		t := live[r.Intn(len(live))]
		burst := 1
		if r.Chance(30) {
			burst = 1 + r.Intn(6)
		}
		for j := 0; j < burst; j++ {
			ops = append(ops, fmt.Sprintf("step %d", t))
		}
		if r.Chance(35) {
			readSome()
		}
		if r.Chance(10) {
			ops = append(ops, "state")
		}
	}
	for pendingReaders > 0 {
		spawnReader()
	}
	// run everything to completion
	ops = append(ops, "drain")
	// epilogue: every open transaction re-reads everything, then a fresh reader
	all := append([]int{}, readers...)
	if old != 0 {
		all = append(all, old)
	}
	for _, id := range all {
		for _, k := range keys {
			ops = append(ops, fmt.Sprintf("get %d %s", id, hlib.Hex(k)))
		}
		ops = append(ops, fmt.Sprintf("scan %d", id))
	}
	ops = append(ops, fmt.Sprintf("begin %d r", next))
	ops = append(ops, fmt.Sprintf("scan %d", next))
	all = append(all, next)
	for _, id := range all {
		ops = append(ops, fmt.Sprintf("discard %d", id))
	}
	ops = append(ops, "state")
	return ops
}

// genHighVersion: a store whose recovered version lies beyond the watermark's first window
// (65536 slots): one entry at version 70000 through SetVersionedEntry, reopen, then the FIRST commit
// of the session (the one whose Begin makes the window slide) stepped concurrently with a reader.
func genHighVersion(r *hlib.Rand) []string {
	ops := []string{"sched", "setv 70000 7a 30", "reopen", "state"}
	v := hlib.Hex(val(r))
	ops = append(ops, "begin 1 u", "set 1 61 "+v, "set 1 62 "+v, "spawn 1 commit")
	// 5 steps park the commit at the loop head of the tryAdvance that follows the publish — after
	// the point where a dropped count lets the mark pass it, before anything is applied
	park := 5
	if r.Chance(50) {
		park = 1 + r.Intn(6)
	}
	for i := 0; i < park; i++ {
		ops = append(ops, "step 1")
	}
	ops = append(ops, "state", "spawn 2 begin r")
	for i, n := 0, 6+r.Intn(10); i < n; i++ {
		if r.Chance(70) {
			ops = append(ops, "step 2")
		} else {
			ops = append(ops, "step 1")
		}
		if r.Chance(40) {
			ops = append(ops, "get 2 61", "get 2 62")
		}
	}
	ops = append(ops, "get 2 61", "get 2 62", "scan 2", "drain", "get 2 61", "get 2 62", "scan 2",
		"begin 3 r", "scan 3", "discard 2", "discard 3", "state")
	return ops
}

func genStress(r *hlib.Rand, tier string) []string {
	iters := 150 + r.Intn(150)
	if tier == "thorough" {
		iters *= 4
	}
	return []string{fmt.Sprintf("stress %d %d %d %d", 2+r.Intn(3), 2+r.Intn(3), iters, r.Intn(1<<30))}
}

// ---------------------------------------------------------------- non-trivial

func (e *engine) Nontrivial(ops, impl, model, spec []string) bool {
	if len(ops) > 0 && strings.HasPrefix(ops[0], "stress") {
		return impl[0] == "ok"
	}
	writes := map[string]map[string]bool{}  // txn → keys written
	readAt := map[string]map[string][]int{} // txn → key → op indices of reads
	var commits []struct {
		idx  int
		keys map[string]bool
	}
	parked := map[string]bool{} // scheduled commit inside its call
	isCommit := map[string]bool{}
	duringParked := false
	for i, op := range ops {
		f := strings.Fields(op)
		switch f[0] {
		case "set", "del":
			if impl[i] == "ok" {
				if writes[f[1]] == nil {
					writes[f[1]] = map[string]bool{}
				}
				writes[f[1]][f[2]] = true
			}
		case "get":
			if strings.HasPrefix(impl[i], "val:") || impl[i] == "notfound" {
				if readAt[f[1]] == nil {
					readAt[f[1]] = map[string][]int{}
				}
				readAt[f[1]][f[2]] = append(readAt[f[1]][f[2]], i)
				if len(parked) > 0 {
					duringParked = true
				}
			}
		case "scan":
			if impl[i] != "notxn" && impl[i] != "bad-op" {
				if readAt[f[1]] == nil {
					readAt[f[1]] = map[string][]int{}
				}
				for _, k := range keys {
					h := hlib.Hex(k)
					readAt[f[1]][h] = append(readAt[f[1]][h], i)
				}
				if len(parked) > 0 {
					duringParked = true
				}
			}
		case "commit":
			if impl[i] == "ok" && len(writes[f[1]]) > 0 {
				commits = append(commits, struct {
					idx  int
					keys map[string]bool
				}{i, writes[f[1]]})
			}
		case "spawn":
			if f[2] == "commit" && impl[i] == "ok" {
				isCommit[f[1]] = true
			}
		case "step":
			if !isCommit[f[1]] {
				continue
			}
			switch {
			case strings.HasPrefix(impl[i], "begin.mid"), strings.HasPrefix(impl[i], "advance.loop"):
				parked[f[1]] = true
			case strings.HasPrefix(impl[i], "return:ok"):
				delete(parked, f[1])
				if len(writes[f[1]]) > 0 {
					commits = append(commits, struct {
						idx  int
						keys map[string]bool
					}{i, writes[f[1]]})
				}
			case strings.HasPrefix(impl[i], "return:"):
				delete(parked, f[1])
			}
		}
	}
	if duringParked {
		return true
	}
	for _, c := range commits {
		for _, byKey := range readAt {
			for k, idxs := range byKey {
				if !c.keys[k] {
					continue
				}
				before, after := false, false
				for _, j := range idxs {
					if j < c.idx {
						before = true
					}
					if j > c.idx {
						after = true
					}
				}
				if before && after {
					return true
				}
			}
		}
	}
	return false
}

// ---------------------------------------------------------------- execution

func errClass(err error) string {
	switch {
	case err == nil:
		return "ok"
	case errors.Is(err, utils.ErrKeyNotFound):
		return "notfound"
	case errors.Is(err, utils.ErrConflict):
		return "conflict"
	case errors.Is(err, utils.ErrReadOnlyTxn):
		return "readonly"
	case errors.Is(err, utils.ErrDiscardedTxn):
		return "discarded"
	}
	return "other:" + strings.ReplaceAll(err.Error(), " ", "_")
}

func tmpDir() string {
	base := ""
	if st, err := os.Stat("/dev/shm"); err == nil && st.IsDir() {
		base = "/dev/shm"
	}
	dir, err := os.MkdirTemp(base, "verif_snap")
	if err != nil {
		panic(err)
	}
	return dir
}

func openDB(dir string) *NoKV.DB {
	opt := NoKV.NewDefaultOptions()
	opt.WorkDir = dir
	opt.DetectConflicts = true
	opt.EnableWALWatchdog = false
	opt.ValueLogGCInterval = 0
	opt.WriteHotKeyLimit = 0
	opt.HotWriteBurstThreshold = 0
	opt.HotRingEnabled = false
	opt.ValueLogBucketCount = 1
	opt.WriteBatchWait = 0
	opt.MemTableSize = 1 << 20
	opt.ValueLogFileSize = 1 << 20
	opt.NumCompactors = 1
	opt.BlockCacheSize = 0
	opt.BloomCacheSize = 0
	return NoKV.Open(opt)
}

func stateStr(db *NoKV.DB) string {
	st := db.VerifSnapOracleState()
	return fmt.Sprintf("nx=%d td=%d tl=%d rd=%d rl=%d ct=%d", st.NextTs, st.TxnDone, st.TxnLast, st.ReadDone, st.ReadLast, st.Committed)
}

func scanTxn(t *NoKV.Txn) string {
	it := t.NewIterator(NoKV.IteratorOptions{})
	var parts []string
	for it.Rewind(); it.Valid(); it.Next() {
		en := it.Item().Entry()
		parts = append(parts, hlib.Hex(en.Key)+"="+hlib.Hex(en.Value))
	}
	it.Close()
	if len(parts) == 0 {
		return "-"
	}
	return strings.Join(parts, ",")
}

// seen / own implement a model-independent oracle inside the harness: a transaction's answers for
// a key it has not written itself must never change (that IS C05); a changed answer is marked
// `!unstable:<key>` so that it matches no alternative of the spec column even when the model's
// transaction is in a different state (e.g. still blocked) and the spec column says `*`.
type handle struct {
	seen   map[string]string // key (hex) → first answer served by the store ("-" = not found)
	own    map[string]bool   // keys written by the transaction itself
	tmp    *NoKV.Txn         // set by a scheduled NewTransaction; becomes txn when its return is stepped
	txn    *NoKV.Txn         // nil until NewTransaction returned
	upd    bool
	writes int
	closed bool // Commit / Discard called
}

// stable records the answer for key and returns "" or the `!unstable` mark.
func (h *handle) stable(key, answer string) string {
	if h.own[key] {
		return ""
	}
	if h.seen == nil {
		h.seen = map[string]string{}
	}
	if was, ok := h.seen[key]; ok {
		if was != answer {
			return "!unstable:" + key
		}
		return ""
	}
	h.seen[key] = answer
	return ""
}

// firstMark keeps one (the smallest) mark so that the output is deterministic.
func firstMark(marks string) string {
	if marks == "" {
		return ""
	}
	parts := strings.Split(strings.TrimPrefix(marks, "!"), "!")
	sort.Strings(parts)
	return "!" + parts[0]
}

func (e *engine) Exec(ops []string) (out []string) {
	if os.Getenv("VERIF_SNAP_TRACE") != "" {
		t0 := time.Now()
		defer func() {
			fmt.Fprintf(os.Stderr, "case %s ops=%d %.2fs\n", ops[0], len(ops), time.Since(t0).Seconds())
			if time.Since(t0) > 5*time.Second {
				for i, op := range ops {
					fmt.Fprintf(os.Stderr, "   %s => %s\n", op, out[i])
				}
			}
		}()
	}
	out = make([]string, len(ops))
	if len(ops) > 0 && strings.HasPrefix(ops[0], "stress") {
		for i := range ops {
			out[i] = "bad-op"
		}
		out[0] = e.stress(strings.Fields(ops[0]))
		return out
	}
	sched.reset()
	dir := tmpDir()
	db := openDB(dir)
	defer func() {
		// goroutines still inside a scheduled call run on freely; Close does not need the oracle
		sched.finish()
		db.Close()
		os.RemoveAll(dir)
	}()
	hs := map[int]*handle{}
	one := func(op string) (res string) {
		defer func() {
			if r := recover(); r != nil {
				res = strings.ReplaceAll(fmt.Sprintf("panic:%v", r), " ", "_")
			}
		}()
		f := strings.Fields(op)
		id := 0
		if len(f) >= 2 {
			n, err := strconv.Atoi(f[1])
			if err != nil {
				return "bad-op"
			}
			id = n
		}
		// an open transaction whose NewTransaction returned and which is not being closed
		active := func() *handle {
			h := hs[id]
			if h == nil || h.txn == nil || h.closed {
				return nil
			}
			return h
		}
		switch {
		case (f[0] == "seq" || f[0] == "sched") && len(f) == 1:
			return "ok"
		case f[0] == "state" && len(f) == 1:
			return stateStr(db)
		case f[0] == "setv" && len(f) == 4:
			// one entry at an explicit version through the public plain-write API (no oracle involved);
			// refused while a transaction is open, like reopen
			for _, h := range hs {
				if !h.closed {
					return "unsafe"
				}
			}
			if sched.live() {
				return "unsafe"
			}
			ver := uint64(id)
			if ver == 0 {
				return "bad-op"
			}
			if err := db.SetVersionedEntry(kv.CFDefault, hlib.UnHex(f[2]), ver, hlib.UnHex(f[3]), 0); err != nil {
				return "other:" + strings.ReplaceAll(err.Error(), " ", "_")
			}
			return "ok"
		case f[0] == "reopen" && len(f) == 1:
			// Close + Open of the same directory; refused while a transaction is still open
			for _, h := range hs {
				if !h.closed {
					return "unsafe"
				}
			}
			if sched.live() {
				return "unsafe"
			}
			if err := db.Close(); err != nil {
				return "other:" + strings.ReplaceAll(err.Error(), " ", "_")
			}
			db = openDB(dir)
			hs = map[int]*handle{}
			sched.reset()
			return "ok"
		case f[0] == "drain" && len(f) == 1:
			// four rounds over the scheduled calls in spawn order, each run until it returns or blocks
			res := []string{"drained"}
			for round := 0; round < 4; round++ {
				for _, tid := range sched.order() {
					t, h := sched.get(tid), hs[tid]
					for t != nil && h != nil && !t.over {
						if !t.started && h.closed && h.writes > 0 && db.VerifSnapOracleState().Locked {
							break
						}
						p := sched.step(t)
						if strings.HasPrefix(p, "return:") && h.txn == nil {
							h.txn = h.tmp
						}
						if strings.HasPrefix(p, "return:") {
							res = append(res, fmt.Sprintf("%d:%s", tid, strings.ReplaceAll(strings.TrimPrefix(p, "return:"), " ", "_")))
						}
						if strings.HasPrefix(p, "blocked") || p == "stuck" {
							break
						}
					}
				}
			}
			return strings.Join(res, " ") + " " + stateStr(db)
		case f[0] == "begin" && len(f) == 3:
			if hs[id] != nil {
				return "bad-op"
			}
			if sched.live() {
				return "unsafe" // could block on a parked committer: see the driver
			}
			h := &handle{upd: f[2] == "u"}
			hs[id] = h
			h.txn = db.NewTransaction(h.upd)
			return fmt.Sprintf("ok %d", h.txn.ReadTs())
		case f[0] == "get" && len(f) == 3:
			h := active()
			if h == nil {
				return "notxn"
			}
			item, err := h.txn.Get(hlib.UnHex(f[2]))
			if err != nil {
				if errors.Is(err, utils.ErrKeyNotFound) {
					return errClass(err) + h.stable(f[2], "-")
				}
				return errClass(err)
			}
			v := hlib.Hex(item.Entry().Value)
			return "val:" + v + h.stable(f[2], "v"+v)
		case f[0] == "scan" && len(f) == 2:
			h := active()
			if h == nil {
				return "notxn"
			}
			res := scanTxn(h.txn)
			got := map[string]string{}
			if res != "-" {
				for _, kvp := range strings.Split(res, ",") {
					if k, v, ok := strings.Cut(kvp, "="); ok {
						got[k] = "v" + v
					}
				}
			}
			mark := ""
			for k := range h.seen {
				a, ok := got[k]
				if !ok {
					a = "-"
				}
				mark += h.stable(k, a)
			}
			for k, a := range got {
				mark += h.stable(k, a)
			}
			return res + firstMark(mark)
		case (f[0] == "set" && len(f) == 4) || (f[0] == "del" && len(f) == 3):
			h := active()
			if h == nil {
				return "notxn"
			}
			var err error
			if f[0] == "set" {
				v := hlib.UnHex(f[3])
				if v == nil {
					v = []byte{}
				}
				err = h.txn.Set(hlib.UnHex(f[2]), v)
			} else {
				err = h.txn.Delete(hlib.UnHex(f[2]))
			}
			if err == nil {
				h.writes++
				if h.own == nil {
					h.own = map[string]bool{}
				}
				h.own[f[2]] = true
			}
			return errClass(err)
		case (f[0] == "commit" || f[0] == "discard") && len(f) == 2:
			h := active()
			if h == nil {
				return "notxn"
			}
			if sched.live() {
				return "unsafe"
			}
			h.closed = true
			if f[0] == "commit" {
				return errClass(h.txn.Commit())
			}
			h.txn.Discard()
			return "ok"
		case f[0] == "spawn" && len(f) == 4 && f[2] == "begin":
			if hs[id] != nil {
				return "bad-op"
			}
			h := &handle{upd: f[3] == "u"}
			hs[id] = h
			sched.start(id, func() string {
				t := db.NewTransaction(h.upd)
				h.tmp = t // published as h.txn by the step that consumes the return event
				return fmt.Sprintf("ok %d", t.ReadTs())
			})
			return "ok"
		case f[0] == "spawn" && len(f) == 3 && (f[2] == "commit" || f[2] == "discard"):
			h := active()
			if h == nil {
				return "notxn"
			}
			h.closed = true
			commit := f[2] == "commit"
			sched.start(id, func() string {
				if commit {
					return errClass(h.txn.Commit())
				}
				h.txn.Discard()
				return "ok"
			})
			return "ok"
		case f[0] == "step" && len(f) == 2:
			t := sched.get(id)
			h := hs[id]
			if h == nil {
				return "notxn " + stateStr(db)
			}
			if t == nil {
				return "bad-op " + stateStr(db) // no scheduled call of this transaction
			}
			if t.over {
				return "bad-op " + stateStr(db)
			}
			// a Commit with writes starts with o.Lock(): never release a goroutine into a held mutex
			if !t.started && h.closed && h.writes > 0 && db.VerifSnapOracleState().Locked {
				return "blocked " + stateStr(db)
			}
			p := sched.step(t)
			if strings.HasPrefix(p, "return:") && h.txn == nil {
				h.txn = h.tmp
			}
			p = strings.TrimPrefix(p, "wm.")
			return p + " " + stateStr(db)
		}
		return "bad-op"
	}
	for i, op := range ops {
		t1 := time.Now()
		out[i] = one(op)
		if d := time.Since(t1); d > time.Second && os.Getenv("VERIF_SNAP_TRACE") != "" {
			fmt.Fprintf(os.Stderr, "   SLOW op %q %.2fs\n", op, d.Seconds())
		}
	}
	return out
}

func (e *engine) Extra() map[string]any {
	return map[string]any{"stress_runs": e.stressRuns, "stress_committed_txns": e.stressTxns, "stress_reader_txns": e.stressReads}
}

func main() {
	// every case opens a real DB and a recorded mismatch is delta-debugged with up to 400
	// re-executions: keep at most 3 of each kind so that a run on a broken tree ends in minutes
	for i, a := range os.Args {
		if (a == "-max-mismatches" || a == "--max-mismatches") && i+1 < len(os.Args) {
			if n, err := strconv.Atoi(os.Args[i+1]); err == nil && n > 3 {
				os.Args[i+1] = "3"
			}
		}
	}
	_ = sort.Strings
	hlib.Main("snap", &engine{})
}

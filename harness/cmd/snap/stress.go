package main

// Validation stress (no model behind it; the oracle is sound for any schedule): committers write
// one fresh value to every key of a group in one transaction, readers check inside one
// transaction that (a) all keys of the group carry the same value — no transaction is seen
// partially, (b) a second point read and a scan return what the first read returned — nothing
// shows up late.

import (
	"bytes"
	"errors"
	"fmt"
	"os"
	"runtime"
	"strconv"
	"sync"
	"sync/atomic"
	"time"

	NoKV "github.com/feichai0017/NoKV"
	"github.com/feichai0017/NoKV/utils"
)

func (e *engine) stress(f []string) string {
	if len(f) != 5 {
		return "bad-op"
	}
	nc, _ := strconv.Atoi(f[1])
	nr, _ := strconv.Atoi(f[2])
	iters, _ := strconv.Atoi(f[3])
	if nc <= 0 || nr <= 0 || iters <= 0 || nc > 16 || nr > 16 {
		return "bad-op"
	}
	dir := tmpDir()
	db := openDB(dir)
	hung := false
	defer func() {
		if !hung { // goroutines stuck inside the DB would make Close hang too
			db.Close()
		}
		os.RemoveAll(dir)
	}()
	group := keys[:3]
	var counter atomic.Uint64
	var committed, readTxns atomic.Int64
	var stop atomic.Bool
	var mu sync.Mutex
	violation := ""
	fail := func(s string) {
		mu.Lock()
		if violation == "" {
			violation = s
		}
		mu.Unlock()
		stop.Store(true)
	}
	deadline := time.Now().Add(120 * time.Second)
	var wg, rwg sync.WaitGroup
	for c := 0; c < nc; c++ {
		wg.Add(1)
		go func() {
			defer wg.Done()
			for i := 0; i < iters && !stop.Load() && time.Now().Before(deadline); i++ {
				v := []byte(fmt.Sprintf("%08d", counter.Add(1)))
				err := db.Update(func(t *NoKV.Txn) error {
					if i%3 == 0 { // read-modify-write: conflicts happen and are retried by giving up
						if _, err := t.Get(group[0]); err != nil && !errors.Is(err, utils.ErrKeyNotFound) {
							return err
						}
					}
					for j, k := range group {
						if err := t.Set(k, v); err != nil {
							return err
						}
						if j == 0 {
							runtime.Gosched()
						}
					}
					return nil
				})
				if err == nil {
					committed.Add(1)
				} else if !errors.Is(err, utils.ErrConflict) {
					fail("commit-error:" + err.Error())
				}
			}
		}()
	}
	for r := 0; r < nr; r++ {
		rwg.Add(1)
		go func() {
			defer rwg.Done()
			read := func(t *NoKV.Txn, k []byte) ([]byte, bool) {
				it, err := t.Get(k)
				if errors.Is(err, utils.ErrKeyNotFound) {
					return nil, true
				}
				if err != nil {
					fail("get-error:" + err.Error())
					return nil, false
				}
				return append([]byte{}, it.Entry().Value...), true
			}
			for !stop.Load() {
				t := db.NewTransaction(false)
				first := make([][]byte, len(group))
				ok := true
				for j, k := range group {
					if first[j], ok = read(t, k); !ok {
						break
					}
					if j == 0 {
						runtime.Gosched()
					}
				}
				if ok {
					for j := 1; j < len(group); j++ {
						if !bytes.Equal(first[0], first[j]) {
							fail(fmt.Sprintf("partial:readTs=%d %s=%q %s=%q", t.ReadTs(), group[0], first[0], group[j], first[j]))
						}
					}
					runtime.Gosched()
					for j, k := range group {
						again, ok2 := read(t, k)
						if ok2 && !bytes.Equal(again, first[j]) {
							fail(fmt.Sprintf("late:readTs=%d %s first=%q again=%q", t.ReadTs(), k, first[j], again))
						}
					}
					it := t.NewIterator(NoKV.IteratorOptions{})
					seen := 0
					for it.Rewind(); it.Valid(); it.Next() {
						en := it.Item().Entry()
						for j, k := range group {
							if bytes.Equal(en.Key, k) {
								seen++
								if !bytes.Equal(en.Value, first[j]) {
									fail(fmt.Sprintf("late-scan:readTs=%d %s first=%q scan=%q", t.ReadTs(), k, first[j], en.Value))
								}
							}
						}
					}
					it.Close()
					if first[0] != nil && seen != len(group) {
						fail(fmt.Sprintf("scan-missing:readTs=%d saw %d of %d keys", t.ReadTs(), seen, len(group)))
					}
				}
				t.Discard()
				readTxns.Add(1)
			}
		}()
	}
	// a reader that never gets its read timestamp (watermark stuck) must not hang the harness
	finished := make(chan struct{})
	go func() {
		wg.Wait()
		stop.Store(true)
		rwg.Wait()
		close(finished)
	}()
	select {
	case <-finished:
	case <-time.After(150 * time.Second):
		hung = true
		stop.Store(true)
		return fmt.Sprintf("violation:hang after %d commits, %d reader transactions", committed.Load(), readTxns.Load())
	}
	if os.Getenv("VERIF_SNAP_TRACE") != "" {
		fmt.Fprintf(os.Stderr, "stress: %d commits, %d reader txns, nextTs=%d\n", committed.Load(), readTxns.Load(), db.VerifSnapOracleState().NextTs)
	}
	e.stressRuns++
	e.stressTxns += int(committed.Load())
	e.stressReads += int(readTxns.Load())
	if violation != "" {
		return "violation:" + violation
	}
	if committed.Load() == 0 {
		return "violation:no-commit-succeeded"
	}
	return "ok"
}

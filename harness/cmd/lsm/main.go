// Correspondence harness for the LSM engine: C01 (plain KV API is last-writer-wins under
// maintenance) and C02 (versioned reads).  Every case runs on a real NoKV.DB in a fresh temp
// dir; background compaction workers are stopped right after Open and every maintenance step
// (memtable rotation, flush, L0->ingest move, ingest merge, ingest drain, close/reopen) is an
// explicit op executed synchronously through the `verif` hooks, so a case is deterministic.
package main

import (
	"bytes"
	"errors"
	"flag"
	"fmt"
	"io"
	"log"
	"os"
	"strconv"
	"strings"

	NoKV "github.com/feichai0017/NoKV"
	"github.com/feichai0017/NoKV/kv"
	"github.com/feichai0017/NoKV/utils"

	"verif/harness/hlib"
)

var prop = flag.String("prop", "C01", "property: C01|C02")

const maxVersion = ^uint64(0)

// small alphabet with prefix pairs, 00 and ff
var keyPool = [][]byte{{0x61}, {0x62}, {0x61, 0x62}, {0x62, 0x00}, {0x6d}, {0xff}}
var prefixFreePool = [][]byte{{0x61}, {0x62}, {0x6d}, {0x63, 0x00}, {0xff}}
var widePool = [][]byte{{0x61}, {0x63}, {0x64}, {0x65}, {0x66}, {0x6d}, {0x7a}}
var bytePool = []uint64{1, 255, 256, 257, 300, 511, 512, 513, 514, 65535, 65536, 65537, 70000, 16777215, 16777216}
var verPool = []uint64{0, 1, 2, 3, 5, 8, 13}

type lsmEngine struct {
	prop      string
	retries   int
	opens     int
	dupReads  int
	engines   map[string]int
	bigValues int
}

func (e *lsmEngine) Rule() string {
	return e.prop + ": random set/del/setv/delv/get/getv sequences over 2-7 keys (prefix pairs, 00, ff; 30% of the cases a wider 7-key alphabet for nested table ranges) x 3 column families x a 7-value version pool (0 included) " +
		"(values unique per write, ~12% above the value-log threshold; ~35% of the ART cases use versions around the byte boundaries 2^8/2^9/2^16/2^24 on 1-2 keys with reads at v-1, v, v+1; ~15% of the cases use 1 KiB inline values and versions 10..400 on 1-2 keys so that tables span several SST blocks, with reads at every stored version and gap) interleaved with rotate/flush/compact l0move|keep|drain/reopen " +
		"on a real DB (skiplist or ART memtable per case); non-trivial = a read of a (cf,key,version<=requested) that was written in " +
		"two or more different memtable epochs (a rotate or reopen between the writes) before the read"
}

func (e *lsmEngine) Extra() map[string]any {
	return map[string]any{"cases_retried_after_background_interference": e.retries, "db_opens": e.opens,
		"reads_of_internal_keys_present_in_2plus_epochs": e.dupReads, "memtable_engines": e.engines,
		"writes_above_value_threshold": e.bigValues, "ingest_batch_size": 2}
}

func bytesArg(b []byte) string { return hlib.Hex(b) }

func parseBytes(s string) []byte {
	if strings.HasPrefix(s, "rep:") {
		p := strings.Split(s, ":")
		b := hlib.UnHex(p[1])
		n, _ := strconv.Atoi(p[2])
		return bytes.Repeat(b, n)
	}
	return hlib.UnHex(s)
}

func (e *lsmEngine) Gen(r *hlib.Rand, tier string) []string {
	n := 30 + r.Intn(35)
	if tier == "thorough" {
		n = 30 + r.Intn(60)
	}
	eng := hlib.Pick(r, []string{"skiplist", "art"})
	ops := []string{"engine " + eng}
	ctr := 0
	pool := keyPool
	if eng == "art" {
		// The ART memtable iterates keys that are byte-prefixes of each other in radix order, not in
		// CompareKeys order (property C07); a flush then writes an unsorted SST.  Cases with the ART
		// engine therefore use a prefix-free alphabet; see the report of the lsm engine.
		pool = prefixFreePool
	}
	// mode 1 (ART only, ~35% of the ART cases): versions around byte boundaries of the 8-byte
	// version suffix, so that the radix tree branches inside the version bytes.
	// mode 2 (~15%): 1 KiB inline values and versions 10..400 on one or two keys, so that a key's
	// versions straddle several 8 KiB SST blocks; reads hit every stored version and every gap.
	mode := 0
	if eng == "art" && r.Chance(35) {
		mode = 1
	} else if r.Chance(15) {
		mode = 2
		ops = append(ops, "opts vthresh 1048576")
	}
	vers := verPool
	switch mode {
	case 1:
		vers = bytePool
	case 2:
		vers = nil
		for v := uint64(10); v <= 400; v += 10 {
			vers = append(vers, v)
		}
	}
	readVers := vers
	if mode != 0 {
		readVers = nil
		for _, v := range vers {
			readVers = append(readVers, v-1, v, v+1)
		}
		if mode == 2 {
			for v := uint64(5); v <= 405; v += 10 {
				readVers = append(readVers, v)
			}
		}
	}
	nkeys := 2 + r.Intn(len(pool)-1)
	if mode != 0 {
		nkeys = 1 + r.Intn(2)
	}
	keys := pool[:nkeys]
	if mode == 0 && r.Chance(30) {
		// wider, prefix-free alphabet: tables with nested / staggered key ranges in one ingest shard
		keys = widePool
	}
	plainBias := 70
	if e.prop == "C02" {
		plainBias = 15
	}
	if mode != 0 {
		plainBias = 5
		if mode == 2 {
			n += 40
		}
	}
	val := func() string {
		ctr++
		if mode == 2 && r.Chance(85) {
			return fmt.Sprintf("rep:%02x:%d", ctr%250+1, 900+r.Intn(200))
		}
		v := []byte{byte(ctr >> 8), byte(ctr)}
		if r.Chance(12) {
			v = append(v, bytes.Repeat([]byte{0xee}, 38)...)
		}
		if r.Chance(3) {
			return "-" // empty value
		}
		return hlib.Hex(v)
	}
	cf := func() int {
		if r.Chance(80) {
			return 0
		}
		return r.Intn(3)
	}
	for i := 0; i < n; i++ {
		k := bytesArg(hlib.Pick(r, keys))
		plain := r.Chance(plainBias)
		switch x := r.Intn(100); {
		case x < 38:
			if plain {
				if r.Chance(18) {
					ops = append(ops, fmt.Sprintf("del %d %s", cf(), k))
				} else {
					ops = append(ops, fmt.Sprintf("set %d %s %s", cf(), k, val()))
				}
			} else {
				v := hlib.Pick(r, vers)
				if r.Chance(18) {
					ops = append(ops, fmt.Sprintf("delv %d %s %d", cf(), k, v))
				} else {
					ops = append(ops, fmt.Sprintf("setv %d %s %d %s", cf(), k, v, val()))
				}
			}
		case x < 66:
			if plain {
				ops = append(ops, fmt.Sprintf("get %d %s", cf(), k))
			} else {
				v := hlib.Pick(r, readVers)
				if r.Chance(10) {
					v = maxVersion
				}
				ops = append(ops, fmt.Sprintf("getv %d %s %d", cf(), k, v))
			}
		case x < 72:
			ops = append(ops, "rotate")
		case x < 83:
			ops = append(ops, "flush")
		case x < 90:
			ops = append(ops, "compact l0move")
		case x < 94:
			ops = append(ops, "compact keep")
		case x < 97:
			ops = append(ops, "compact drain")
		case x < 99:
			ops = append(ops, "reopen")
		default:
			ops = append(ops, fmt.Sprintf("set 0 - %s", val())) // empty key
		}
	}
	return ops
}

// Nontrivial: see Rule.
func (e *lsmEngine) Nontrivial(ops, impl, model, spec []string) bool {
	type ik struct {
		cf, key string
		ver     uint64
	}
	epoch := 0
	seen := map[ik]map[int]bool{}
	hit := false
	for _, op := range ops {
		f := strings.Fields(op)
		switch f[0] {
		case "rotate", "reopen":
			epoch++
		case "set", "del", "setv", "delv":
			v := maxVersion
			if f[0] == "setv" || f[0] == "delv" {
				v, _ = strconv.ParseUint(f[3], 10, 64)
			}
			k := ik{f[1], f[2], v}
			if seen[k] == nil {
				seen[k] = map[int]bool{}
			}
			seen[k][epoch] = true
		case "get", "getv":
			v := maxVersion
			if f[0] == "getv" {
				v, _ = strconv.ParseUint(f[3], 10, 64)
			}
			for k, eps := range seen {
				if k.cf == f[1] && k.key == f[2] && k.ver <= v && len(eps) >= 2 {
					hit = true
					e.dupReads++
					break
				}
			}
		}
	}
	return hit
}

type interference struct{}

func (e *lsmEngine) Exec(ops []string) []string {
	for attempt := 0; ; attempt++ {
		out, err := e.execOnce(ops)
		if err == nil || attempt >= 4 {
			return out
		}
		e.retries++
	}
}

func errClass(err error) string {
	switch {
	case err == nil:
		return "ok"
	case errors.Is(err, utils.ErrEmptyKey):
		return "emptykey"
	case errors.Is(err, utils.ErrKeyNotFound):
		return "notfound"
	case errors.Is(err, utils.ErrTxnTooBig):
		return "toobig"
	case strings.Contains(err.Error(), "exceeded"):
		return "toobig"
	}
	s := err.Error()
	if len(s) > 40 {
		s = s[:40]
	}
	return "err:" + strings.ReplaceAll(s, " ", "_")
}

func (e *lsmEngine) execOnce(ops []string) (out []string, retErr error) {
	dir, err := os.MkdirTemp("", "verif-lsm-")
	if err != nil {
		panic(err)
	}
	defer os.RemoveAll(dir)
	engine := "skiplist"
	tableSz := int64(1 << 20)
	vthresh := int64(32)
	open := func() *NoKV.DB {
		opt := &NoKV.Options{WorkDir: dir, MemTableSize: 1 << 20, SSTableMaxSz: tableSz, ValueThreshold: vthresh,
			ValueLogFileSize: 1 << 20, MaxBatchCount: 1000, MaxBatchSize: 1 << 20, NumCompactors: 1,
			NumLevelZeroTables: 1000, IngestCompactBatchSize: 2, MemTableEngine: NoKV.MemTableEngine(engine)}
		db := NoKV.Open(opt)
		db.VerifLSM().VerifStopCompactors()
		e.opens++
		return db
	}
	var db *NoKV.DB
	defer func() {
		if db != nil {
			func() {
				defer func() { _ = recover() }()
				_ = db.Close()
			}()
		}
	}()
	out = make([]string, len(ops))
	dead := false
	shape := func() string {
		l := db.VerifLSM()
		base := l.VerifBaseLevel()
		l0, ing, main, others := l.VerifCounts(base)
		s := fmt.Sprintf("imm=%d l0=%d ing=%d main=%d", l.VerifImmutables(), l0, ing, main)
		if len(others) > 0 {
			s += fmt.Sprintf(" unexpected-levels=%v", others)
		}
		return s
	}
	for i, op := range ops {
		if dead {
			out[i] = "skipped-after-panic"
			continue
		}
		func() {
			defer func() {
				if r := recover(); r != nil {
					fmt.Fprintln(os.Stderr, "panic in op", op, ":", r)
					out[i] = "panic"
					dead = true
				}
			}()
			f := strings.Fields(op)
			if f[0] == "engine" {
				engine = f[1]
				e.engines[engine]++
				out[i] = "ok"
				return
			}
			if f[0] == "opts" {
				// opts tablesz <bytes>: SSTableMaxSz, which Open also uses as the compaction's
				// target file size (BaseTableSize); must precede the first DB op
				if f[1] == "tablesz" && db == nil {
					n, _ := strconv.ParseInt(f[2], 10, 64)
					tableSz = n
					out[i] = "ok"
				} else if f[1] == "vthresh" && db == nil {
					// opts vthresh <bytes>: Options.ValueThreshold (values below it stay inline in the LSM)
					n, _ := strconv.ParseInt(f[2], 10, 64)
					vthresh = n
					out[i] = "ok"
				} else {
					out[i] = "badop"
				}
				return
			}
			if db == nil {
				db = open()
			}
			l := db.VerifLSM()
			switch f[0] {
			case "set":
				cf, _ := strconv.Atoi(f[1])
				v := parseBytes(f[3])
				if v == nil {
					v = []byte{}
				}
				if len(v) >= 32 {
					e.bigValues++
				}
				out[i] = errClass(db.SetCF(kv.ColumnFamily(cf), parseBytes(f[2]), v))
			case "del":
				cf, _ := strconv.Atoi(f[1])
				out[i] = errClass(db.DelCF(kv.ColumnFamily(cf), parseBytes(f[2])))
			case "setv":
				cf, _ := strconv.Atoi(f[1])
				ver, _ := strconv.ParseUint(f[3], 10, 64)
				v := parseBytes(f[4])
				if len(v) >= 32 {
					e.bigValues++
				}
				out[i] = errClass(db.SetVersionedEntry(kv.ColumnFamily(cf), parseBytes(f[2]), ver, v, 0))
			case "delv":
				cf, _ := strconv.Atoi(f[1])
				ver, _ := strconv.ParseUint(f[3], 10, 64)
				out[i] = errClass(db.DeleteVersionedEntry(kv.ColumnFamily(cf), parseBytes(f[2]), ver))
			case "get":
				cf, _ := strconv.Atoi(f[1])
				ent, err := db.GetCF(kv.ColumnFamily(cf), parseBytes(f[2]))
				if err != nil {
					out[i] = errClass(err)
				} else {
					out[i] = "val:" + hlib.Hex(ent.Value)
				}
			case "getv":
				cf, _ := strconv.Atoi(f[1])
				ver, _ := strconv.ParseUint(f[3], 10, 64)
				ent, err := db.GetVersionedEntry(kv.ColumnFamily(cf), parseBytes(f[2]), ver)
				switch {
				case err != nil:
					out[i] = errClass(err)
				case ent.Meta&kv.BitDelete != 0:
					out[i] = "del"
				default:
					out[i] = "put:" + hlib.Hex(ent.Value)
				}
			case "rotate":
				l.VerifRotate()
				out[i] = "ok " + shape()
			case "flush":
				did, err := l.VerifFlushOldest()
				switch {
				case err != nil:
					out[i] = errClass(err)
				case did:
					out[i] = "ok " + shape()
				default:
					out[i] = "none " + shape()
				}
			case "compact":
				res, err := l.VerifCompact(f[1])
				if err != nil {
					out[i] = errClass(err) + " " + shape()
				} else {
					out[i] = res + " " + shape()
				}
			case "reopen":
				before := l.VerifPlacement()
				if err := db.Close(); err != nil {
					out[i] = errClass(err)
					db = nil
					dead = true
					return
				}
				db = nil
				db = open()
				l = db.VerifLSM()
				if err := l.VerifWaitFlushIdle(); err != nil {
					out[i] = errClass(err)
					return
				}
				after := l.VerifPlacement()
				for fid, where := range before {
					if _, still := after[fid]; !still && !strings.HasSuffix(where, "i") {
						// a main table that an ingest-keep merge consumed: deleted in the manifest,
						// listed in memory until the reopen (modelled as St.mainDead)
						continue
					}
					if after[fid] != where {
						retErr = fmt.Errorf("background compaction interfered during reopen (file %d: %s -> %q)", fid, where, after[fid])
					}
				}
				for fid, where := range after {
					if _, ok := before[fid]; !ok && where != "L0" {
						retErr = fmt.Errorf("background compaction interfered during reopen (new file %d at %s)", fid, where)
					}
				}
				out[i] = "ok " + shape()
			default:
				out[i] = "badop"
			}
		}()
		if retErr != nil {
			return out, retErr
		}
	}
	return out, nil
}

func main() {
	log.SetOutput(io.Discard)
	for i, a := range os.Args {
		if a == "-prop" && i+1 < len(os.Args) {
			*prop = os.Args[i+1]
		}
		if strings.HasPrefix(a, "-prop=") {
			*prop = strings.TrimPrefix(a, "-prop=")
		}
	}
	if *prop != "C01" && *prop != "C02" {
		fmt.Fprintln(os.Stderr, "unknown -prop")
		os.Exit(2)
	}
	hlib.Main("lsm/"+*prop, &lsmEngine{prop: *prop, engines: map[string]int{}})
}

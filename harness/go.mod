module verif/harness

go 1.26.0

require github.com/feichai0017/NoKV v0.0.0

replace github.com/feichai0017/NoKV => /repo

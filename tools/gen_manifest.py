#!/usr/bin/env python3
"""Regenerate MANIFEST.json from props/*.json (claimed properties) and tools/not_applicable.json."""
import glob, json, os, subprocess
ROOT = os.path.dirname(os.path.dirname(os.path.abspath(__file__)))
allp = [json.loads(l)["id"] for l in open(os.path.join(ROOT, "properties.jsonl"))]
props = {}
for f in sorted(glob.glob(os.path.join(ROOT, "props", "C*.json"))):
    p = json.load(open(f))
    props[p["id"]] = p
na = json.load(open(os.path.join(ROOT, "tools", "not_applicable.json")))
claimed = set(open(os.path.join(ROOT, "tools", "claimed.txt")).read().split())
props = {k: v for k, v in props.items() if k in claimed}   # only integrated + verified properties
DEFAULT_TEXT = ("Lean 4 theorems about an executable model of the anchored code, for all inputs/histories/schedules the "
                "property quantifies over (induction over operation lists / reachable states, no bound); the model is tied to the "
                "current source by re-extracted facts (the theorems are instantiated at the extracted configuration and re-checked "
                "by the kernel on every run) and by a differential correspondence run of the real code against the compiled model")
checks, engines = [], {}
for pid in allp:
    if pid not in props:
        continue
    p = props[pid]
    engines.setdefault(p["engine"], []).append(pid)
    partial = [t["name"] for t in p["theorems"] if t.get("kind") == "partial"]
    text = p.get("level_text", DEFAULT_TEXT)
    checks.append({
        "property_id": pid,
        "quick_cmd": "./check %s --tier quick" % pid,
        "thorough_cmd": "./check %s --tier thorough" % pid,
        "evidence_file": "/verif/evidence/%s.json" % pid,
        "replay_cmd_template": "./check %s --replay {path}" % pid,
        "engine": p["engine"],
        "level_claimed": {"category": p.get("level_category", "proof"), "text": text, "design_ref": "DESIGN.md section 5 (%s)" % pid},
        "level_note": "; ".join(p["assumptions"]) + (" | headline theorems: " + ", ".join(t["name"] for t in p["theorems"] if t.get("kind") == "headline")),
        "technique": p.get("technique", "machine-checked proof in Lean 4 (executable model, invariants by induction) + regenerated facts + differential correspondence"),
    })
hooks = subprocess.run(["git", "-C", "/repo", "log", "--format=%h %s"], capture_output=True, text=True).stdout.strip().split("\n")
hook_commits = [l.split()[0] for l in hooks if "verif hook" in l.lower() or l.split(" ", 1)[1].startswith("verif")]
m = {
    "version": 1,
    "setup_cmd": "./setup.sh",
    "hooks": {"guard": "verif", "enable": "go build -tags verif (harness module: replace github.com/feichai0017/NoKV => /repo)",
              "baseline_off_cmd": "cd /repo && go test -mod=mod -vet=off -count=1 -timeout 25m ./...",
              "source_commits": hook_commits, "add_only": True},
    "engines": [{"name": e, "path": "lean/NoKVModel/%s, lean/Driver/%s.lean, harness/cmd/%s, extract/cmd/%s" % (e.capitalize(), e.capitalize(), e, e),
                 "serves_properties": ps, "kind_free_text": "Lean model + proofs; Go fact extractor; Go correspondence harness driving the real code and the compiled model"}
                for e, ps in sorted(engines.items())],
    "checks": checks,
    "notes": "see DESIGN.md; known findings in known_findings.json; contributor guide FRAMEWORK.md",
    "not_applicable": [{"property_id": pid, "reason": na.get(pid, "not built yet (proof + tie under construction; see DESIGN.md section 5)")}
                       for pid in allp if pid not in props],
}
json.dump(m, open(os.path.join(ROOT, "MANIFEST.json"), "w"), indent=1)
print("claimed:", [c["property_id"] for c in checks])
print("not applicable:", [x["property_id"] for x in m["not_applicable"]])

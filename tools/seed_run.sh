#!/bin/bash
# seed_run.sh <Cxx> : evaluate /tmp/mut_<Cxx>_out/m1,m2 (meta.json driven) with tools/try_seed.sh
P=$1
PFX=${SEED_PREFIX:-mut}       # mut = first round, mut2 = second round (seed ids get the suffix r2)
SFX=""; case "$PFX" in mut) SFX="";; mut2) SFX="r2";; mut3) SFX="r3";; *) SFX="$PFX";; esac
export SEED_WT=/tmp/${PFX}_$P
for i in 1 2; do
  M=/tmp/${PFX}_${P}_out/m$i
  [ -f $M/meta.json ] || { echo "$P m$i: no meta.json"; continue; }
  PKG=$(python3 -c "import json;print(json.load(open('$M/meta.json'))['pkg_dir'])")
  RX=$(python3 -c "import json;print(json.load(open('$M/meta.json'))['test_regex'])")
  EX=$(python3 -c "import json;print(' '.join(json.load(open('$M/meta.json')).get('extra_test_pkgs',[])))")
  echo "== $P m$i pkg=$PKG rx=$RX"
  /verif/tools/try_seed.sh $P $M $P-m$i$SFX "$PKG" "$RX" $EX
  python3 - <<PY
import json
m=json.load(open('/verif/seeded/$P-m$i$SFX/meta.json')); a=json.load(open('$M/meta.json'))
m['what_it_breaks']=a.get('what',''); m['needs_to_manifest']=a.get('needs','')
json.dump(m,open('/verif/seeded/$P-m$i$SFX/meta.json','w'),indent=1)
PY
done

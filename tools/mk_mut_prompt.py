#!/usr/bin/env python3
"""mk_mut_prompt.py <prefix> <Cxx>...: create the scratch worktree /tmp/<prefix>_<Cxx> of /repo and the brief
/tmp/<prefix>_<Cxx>_out/prompt.txt for a fresh sub-agent that seeds two breaking changes for property Cxx.
The brief contains only the property text (title, statement, quantifier, anchored files) and one-line summaries of
the changes tried before (so that a new round does not repeat them) - nothing from /verif."""
import glob, json, os, subprocess, sys
ROOT = os.path.dirname(os.path.dirname(os.path.abspath(__file__)))
pfx = sys.argv[1]
props = {json.loads(l)["id"]: json.loads(l) for l in open(ROOT + "/properties.jsonl")}
for pid in sys.argv[2:]:
    p = props[pid]
    wt, out = "/tmp/%s_%s" % (pfx, pid), "/tmp/%s_%s_out" % (pfx, pid)
    if not os.path.isdir(wt):
        subprocess.check_call(["git", "-C", "/repo", "worktree", "add", "--detach", "-q", wt, "HEAD"])
    os.makedirs(out, exist_ok=True)
    earlier = []
    for f in sorted(glob.glob(ROOT + "/seeded/%s-*/meta.json" % pid)):
        w = json.load(open(f)).get("what_it_breaks", "")
        if w:
            earlier.append("- " + w)
    txt = f"""You are helping test a verification effort by playing the role of a developer who introduces a subtle regression. You have your own scratch git worktree of the Go repository feichai0017/NoKV at {wt} (Go 1.26 installed; offline: always `export GOFLAGS=-mod=mod GOPROXY=off`; do not set GOTOOLCHAIN). Work ONLY inside {wt} and write your results to {out}. Do not read or touch /verif or /repo. Ignore files named verif_*.go (build-tag-guarded test accessors) and calls like verifYield(...) — do not modify them.

The property that must be broken:

Title: {p['title']}
Statement: {p['statement']}
Quantifier: {p['quantifier']['text']}
Code it is anchored in (relative to the repo root): {', '.join(p['anchors']['files'])}

Earlier regressions already tried for this property (do NOT repeat these or close variants; pick other functions, other mechanisms, other trigger conditions):
{chr(10).join(earlier) if earlier else '- (none)'}

Task: produce TWO different, independent changes to the repository (each a separate patch against the current HEAD of the worktree), each of which
 - breaks the property above,
 - still compiles (`go build ./...` and `go vet` of the touched packages) and still passes the repository's existing tests for the touched packages and their dependants (run `go test -mod=mod -vet=off -count=1 ./<pkg>/...` for the relevant packages and confirm; the root package is `.`),
 - is REALISTIC (looks like a plausible refactor, optimisation, off-by-one, missed case, reordered statements, or two cooperating edits that each look fine alone) and needs something SPECIFIC to manifest — a particular boundary input, an unusual but legal input, a multi-step sequence of operations, a crash or fault at a particular point, a specific interleaving — rather than something any ordinary use would expose at once. Prefer changes in different functions/mechanisms for the two patches.
For each change also write a demonstration: a Go test file (or small program) that FAILS with the change applied and PASSES on the unchanged tree, using only the repository's public or package-internal API (a `_test.go` placed in the right package is fine). Keep the demonstration deterministic (for interleavings, force the order with channels/hooks available in the code or a tight controlled loop with a generous bound).

Deliver, for i in 1,2, the directory `{out}/m<i>/` containing: `patch.diff` (output of `git diff` for the change only, without the demo), `demo_test.go`, `README.md` (what the change breaks and what it needs in order to manifest), and `meta.json` with exactly these keys: {{"pkg_dir": "<package directory of the demo relative to the repo root, '.' for the root package>", "test_regex": "<regex for go test -run selecting only the demo>", "extra_test_pkgs": ["./other/pkg/..."], "what": "<one sentence: what the change does>", "needs": "<one sentence: what it needs to manifest>"}}. Verify both directions yourself (demo passes without the patch, fails with it; existing tests of the touched packages pass with it). NEVER use `git stash` (it is shared by all worktrees of this repository; use `git diff > file`, `git apply`, `git apply -R`). Leave the worktree clean (`git checkout -- . && git clean -fd`) when done. Final message: a short summary of the two mutations."""
    open(out + "/prompt.txt", "w").write(txt)
    print(pid, wt, out, len(earlier), "earlier")

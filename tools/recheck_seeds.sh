#!/bin/bash
# recheck_seeds.sh [seed-id-glob]: re-run every stored seeded change (seeded/<id>/patch.diff) against the
# checks as they are now: apply to /repo, run the owning property's check (or meta.checked_with), revert.
# Updates meta.json (check_detects, checked_with) and keeps the evidence files describing the unchanged tree.
G=${1:-*}
cd /verif || exit 2
[ -z "$(git -C /repo status --porcelain)" ] || { echo "/repo working tree is not clean"; exit 2; }
for d in seeded/$G/; do
  id=$(basename $d); [ -f $d/patch.diff ] || continue
  P=$(python3 -c "import json;print(json.load(open('$d/meta.json'))['property'])")
  if ! git -C /repo apply --check /verif/$d/patch.diff 2>/dev/null; then echo "$id: patch no longer applies (code changed by a fix)"; continue; fi
  git -C /repo apply /verif/$d/patch.diff
  cp evidence/$P.json /tmp/evidence_$P.bak 2>/dev/null
  ./check $P > $d/check_with.log 2>&1; E=$?
  git -C /repo checkout -q -- .
  cp /tmp/evidence_$P.bak evidence/$P.json 2>/dev/null
  cp replays/$P.json $d/replay.json 2>/dev/null
  python3 - <<PY
import json
f="$d/meta.json"; m=json.load(open(f))
own = ($E == 1)
m["own_check_detects"] = own
if own:
    m["check_detects"] = True; m["checked_with"] = "$P"
json.dump(m, open(f, "w"), indent=1)
PY
  echo "$id own_check_exit=$E $(grep -E '^(VIOLATION|OK)' $d/check_with.log | head -1 | cut -c1-120)"
done

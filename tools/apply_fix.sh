#!/bin/bash
# apply_fix.sh <diff> "<finding ids>" "<test pkgs>"  (commit message on stdin, must start with "fix:")
set -u
D=$1; IDS=$2; PK=$3; MSG=$(cat)
export GOFLAGS=-mod=mod GOPROXY=off
cd /repo || exit 2
git apply $D 2>/dev/null || git apply -C1 $D || { echo "APPLY FAILED $D"; exit 3; }
go build ./... && go vet $PK >/dev/null 2>&1
if ! go build ./... ; then echo "BUILD FAILED"; git checkout -- .; exit 4; fi
if ! go test -vet=off -count=1 $PK > /tmp/fix_test.log 2>&1; then echo "TESTS FAILED"; tail -20 /tmp/fix_test.log; git checkout -- .; exit 5; fi
git commit -qam "$MSG" || exit 6
C=$(git log --format=%h -1)
for id in $IDS; do python3 /verif/tools/mark_fixed.py $id $C; done
echo "committed $C: $(echo "$MSG" | head -1)"

#!/bin/bash
# run_all.sh [tier]: every claimed check on the current tree; prints one line per property
T=${1:-quick}
R=$(cd "$(dirname "$0")/.." && pwd)
for p in $(cat $R/tools/claimed.txt); do
  s=$(date +%s); out=$(cd $R && ./check $p --tier $T 2>&1); rc=$?; e=$(( $(date +%s) - s ))
  echo "$p rc=$rc ${e}s $(echo "$out" | grep -c '^KNOWN-FINDING') known | $(echo "$out" | grep -E '^(OK|VIOLATION|BROKEN)' | head -2 | cut -c1-160 | tr '\n' ' ')"
done

#!/usr/bin/env python3
"""mark_fixed.py <finding-id> <commit> : move an open finding to fixed."""
import json, sys
fid, commit = sys.argv[1], sys.argv[2]
kf = json.load(open('/verif/known_findings.json'))
for f in [x for x in kf['open'] if x['id'] == fid]:   # the same defect may be listed under several properties
    kf['open'].remove(f)
    f['status'] = 'fixed'; f['commit'] = commit
    kf['fixed'].append({"line": "fixed: property=%s %s %s (witness %s)" % (f['property'], commit, f['what'], f.get('witness', '-')), "detail": f})
json.dump(kf, open('/verif/known_findings.json', 'w'), indent=1)
print("fixed", fid)

#!/bin/bash
# integrate.sh <engine>: bring a contributor's hook files from /tmp/ws_<engine>/repo into /repo
# (new verif-tagged files only), list anything else that differs, merge proposed findings.
set -u
E=$1; W=/tmp/ws_$E
echo "== untracked/modified in $W/repo:"; git -C $W/repo status --short
for f in $(git -C $W/repo status --short | awk '$1=="??"{print $2}'); do
  if [ -d "$W/repo/$f" ]; then echo "  (dir $f skipped)"; continue; fi
  if head -3 "$W/repo/$f" | grep -q "go:build.*verif"; then mkdir -p /repo/$(dirname $f); cp "$W/repo/$f" /repo/$f; echo "  copied hook $f"; else echo "  NOT a verif-tagged file: $f"; fi
done
if [ -f /verif/findings_proposed/$E.json ]; then python3 - <<PY
import json
kf=json.load(open('/verif/known_findings.json')); new=json.load(open('/verif/findings_proposed/$E.json'))
ids={(x['property'],x['id']) for x in kf['open']}|{(x['detail']['property'],x['detail']['id']) for x in kf['fixed']}
for f in (new if isinstance(new,list) else new.get('open', [])):
    if (f['property'],f['id']) not in ids: kf['open'].append(f); ids.add((f['property'],f['id'])); print("  + finding", f['property'], f['id'])
json.dump(kf,open('/verif/known_findings.json','w'),indent=1)
PY
fi

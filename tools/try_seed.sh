#!/bin/bash
# try_seed.sh <Cxx> <mutation dir (patch.diff, demo_test.go, README.md)> <seed-id> <pkgdir> <test-regex> [extra test pkgs...]
# Confirms the seeded change in the scratch worktree /tmp/mut_<Cxx> (demo passes without, fails with;
# existing tests of the package pass with it), then applies it to /repo, runs ./check, reverts.
set -u
P=$1; M=$2; ID=$3; PKG=$4; RX=$5; shift 5
WT=${SEED_WT:-/tmp/mut_$P}
export GOFLAGS=-mod=mod GOPROXY=off
OUT=/verif/seeded/$ID; mkdir -p $OUT
cp $M/patch.diff $OUT/patch.diff; cp $M/demo_test.go $OUT/demo_test.go; cp $M/README.md $OUT/agent_README.md 2>/dev/null
git -C $WT checkout -q -- . ; git -C $WT clean -fdq
cp $M/demo_test.go $WT/$PKG/zz_demo_test.go
(cd $WT && go test -vet=off -count=1 -run "$RX" ./$PKG/ >$OUT/demo_without.log 2>&1); A=$?
git -C $WT apply $M/patch.diff || { echo "patch does not apply"; exit 3; }
(cd $WT && go build ./... >$OUT/build_with.log 2>&1); B=$?
(cd $WT && go test -vet=off -count=1 -run "$RX" ./$PKG/ >$OUT/demo_with.log 2>&1); C=$?
rm $WT/$PKG/zz_demo_test.go
(cd $WT && go test -vet=off -count=1 ./$PKG/ "$@" >$OUT/existing_tests_with.log 2>&1); D=$?
git -C $WT checkout -q -- . ; git -C $WT clean -fdq
echo "demo_without=$A (want 0) build_with=$B (want 0) demo_with=$C (want !=0) existing_tests_with=$D (want 0)"
git -C /repo apply $M/patch.diff || { echo "patch does not apply to /repo"; exit 3; }
CP=${CHECK_AS:-$P}   # the check that is expected to notice (normally the seed's own property)
cp /verif/evidence/$CP.json /tmp/evidence_$CP.bak 2>/dev/null
(cd /verif && ./check $CP > $OUT/check_with.log 2>&1); E=$?
git -C /repo checkout -q -- .
cp /tmp/evidence_$CP.bak /verif/evidence/$CP.json 2>/dev/null   # evidence must describe the unchanged tree
tail -3 $OUT/check_with.log | cut -c1-300
echo "check_exit=$E (want 1)"
cp /verif/replays/$CP.json $OUT/replay.json 2>/dev/null
python3 - <<PY
import json
json.dump({"property":"$P","seed_id":"$ID","confirmed":{"demo_passes_without":$A==0,"builds_with":$B==0,"demo_fails_with":$C!=0,"existing_tests_pass_with":$D==0},
 "check_detects":$E==1,"checked_with":"$CP","ran":"tools/try_seed.sh $P $M $ID $PKG '$RX'"},open("$OUT/meta.json","w"),indent=1)
PY

/-
Helper lemmas about the RESP parser model (`Redis/Resp.lean`) for the C31 theorems.
-/
import NoKVModel.Redis.Resp

namespace NoKV.Redis

/-! ### lines -/

theorem splitLF_len {b l r : Bytes} (h : splitLF b = some (l, r)) : b.length = l.length + 1 + r.length := by
  induction b generalizing l with
  | nil => simp [splitLF] at h
  | cons x xs ih =>
    unfold splitLF at h
    by_cases hx : x = 10
    · simp [hx] at h; obtain ⟨h1, h2⟩ := h; subst h1 h2; simp; omega
    · simp only [hx, if_false] at h
      cases hs : splitLF xs with
      | none => simp [hs] at h
      | some p =>
        obtain ⟨l', r'⟩ := p
        simp [hs] at h
        obtain ⟨h1, h2⟩ := h
        subst h1 h2
        have := ih hs
        simp; omega

theorem readLine_len {b line r : Bytes} (h : readLine b = .ok (line, r)) : b.length = line.length + 2 + r.length := by
  unfold readLine at h
  cases hs : splitLF b with
  | none => simp [hs] at h
  | some p =>
    obtain ⟨l, r'⟩ := p
    simp only [hs] at h
    by_cases hl : l.getLast? = some 13
    · simp only [hl, if_true] at h
      injection h with h
      injection h with h1 h2
      subst h1 h2
      have h3 := splitLF_len hs
      have h4 : l ≠ [] := by intro e; simp [e] at hl
      have : l.dropLast.length = l.length - 1 := by simp
      have : 0 < l.length := by
        cases l with
        | nil => exact absurd rfl h4
        | cons _ _ => simp
      omega
    · simp [hl] at h

theorem expectCRLF_len {b r : Bytes} (h : expectCRLF b = .ok r) : b.length = r.length + 2 := by
  match b, h with
  | [], h => simp [expectCRLF] at h
  | [x], h => by_cases hx : x = 13 <;> simp [expectCRLF, hx] at h
  | x :: y :: rest, h =>
    by_cases hx : x = 13 <;> by_cases hy : y = 10 <;> simp [expectCRLF, hx, hy] at h
    subst h; simp

theorem readFull_ok {l : Nat} {b v r : Bytes} (h : readFull l b = .ok v r) :
    l ≤ b.length ∧ r.length + l = b.length ∧ v = b.take l ∧ r = b.drop l := by
  unfold readFull at h
  by_cases hl : l ≤ b.length
  · simp only [hl, if_true] at h
    injection h with h1 h2
    subst h1 h2
    simp; omega
  · simp only [hl, if_false] at h
    split at h <;> simp at h

theorem readFull_nil (l : Nat) (h : 0 < l) : readFull l [] = .err .eof := by
  unfold readFull; simp; omega

theorem readFull_not_panic (l : Nat) (b : Bytes) : readFull l b ≠ .panic ∧ readFull l b ≠ .oom := by
  unfold readFull
  constructor <;> (repeat' split) <;> simp

/-! ### allocation of the growing bulk buffer -/

theorem growAlloc_self (f l avail : Nat) : growAlloc f l avail l = l := by
  cases f <;> simp [growAlloc]

theorem growAlloc_le (f l avail : Nat) : ∀ s, s ≤ l →
    (s ≤ avail → growAlloc f l avail s + s ≤ 4 * min avail l) ∧ (¬ s ≤ avail → growAlloc f l avail s = s) := by
  induction f with
  | zero => intro s hs; simp only [growAlloc]; constructor <;> intro h <;> first | trivial | omega
  | succ f ih =>
    intro s hs
    simp only [growAlloc]
    by_cases hc : s < l ∧ s ≤ avail
    · simp only [hc, and_self, if_true]
      obtain ⟨h1, h2⟩ := hc
      constructor
      · intro _
        by_cases h2s : 2 * s ≤ l
        · have hm : min l (2 * s) = 2 * s := by omega
          rw [hm]
          have := ih (2 * s) h2s
          by_cases h3 : 2 * s ≤ avail
          · have := this.1 h3; omega
          · have := this.2 h3; omega
        · have hm : min l (2 * s) = l := by omega
          rw [hm, growAlloc_self]
          by_cases h3 : l ≤ avail
          · omega
          · omega
      · intro h; exact absurd trivial h
    · simp only [hc, if_false]
      constructor <;> intro h <;> first | trivial | omega

/-! ### `strings.Fields` -/

theorem fieldsGo_length (b : Bytes) : ∀ k cur, (fieldsGo k cur b).length ≤ b.length + (if cur = [] then 0 else 1) := by
  induction b with
  | nil => intro k cur; cases k <;> (simp only [fieldsGo]; split <;> simp_all)
  | cons x xs ih =>
    intro k cur
    cases k with
    | succ k => simp only [fieldsGo]; have := ih k cur; simp only [List.length_cons]; omega
    | zero =>
      simp only [fieldsGo]
      split
      · have := ih 0 (x :: cur); simp at this; simp only [List.length_cons]; split <;> omega
      · split
        · have := ih (spaceLen (x :: xs) - 1) []; simp at this; simp only [List.length_cons]; omega
        · have := ih (spaceLen (x :: xs) - 1) []; simp at this; simp only [List.length_cons]; omega

theorem fields_length (b : Bytes) : (fields b).length ≤ b.length := by
  have := fieldsGo_length b 0 []
  simpa [fields] using this

/-! ### no panic, allocation bound (good configuration) -/

theorem readBulk_good_alloc (c : PCfg) (h : c.bulkChunked = true) (l : Nat) (b : Bytes) :
    (readBulk c l b).out = readFull l b ∧
    (readBulk c l b).alloc ≤ 4 * b.length + c.bulkChunk ∧
    (l ≤ b.length → (readBulk c l b).alloc ≤ 4 * l) := by
  simp only [readBulk, h, if_true, true_and]
  have hs : min l c.bulkChunk ≤ l := by omega
  have := growAlloc_le (b.length + 1) l b.length (min l c.bulkChunk) hs
  by_cases h1 : min l c.bulkChunk ≤ b.length
  · have := this.1 h1
    constructor
    · omega
    · intro _; omega
  · have := this.2 h1
    constructor
    · omega
    · intro _; omega

theorem elems_bound (c : PCfg) (hc : c.Good) : ∀ f n b,
    ((elems c f n b).out ≠ .panic ∧ (elems c f n b).out ≠ .oom) ∧
    (elems c f n b).alloc ≤ 64 * b.length + c.bulkChunk ∧
    (∀ args rest, (elems c f n b).out = .ok args rest →
      rest.length + 2 * n ≤ b.length ∧ (elems c f n b).alloc + 64 * rest.length ≤ 64 * b.length) := by
  intro f
  induction f with
  | zero => intro n b; simp [elems]
  | succ f ih =>
    intro n b
    unfold elems
    split
    · simp; omega
    · split
      · simp
      · next x b1 =>
        split
        · simp
        · split
          · simp
          · next line b2 hrl =>
            have hlen := readLine_len hrl
            dsimp only
            split
            · simp; omega
            · next l hl =>
              split
              · have := ih (n - 1) b2
                generalize elems c f (n - 1) b2 = r at *
                obtain ⟨⟨hp, ho⟩, ha, hok⟩ := this
                simp only [List.length_cons, appendCost, sliceHdr]
                cases hr : r.out with
                | ok args rest =>
                  have := hok args rest hr
                  simp only [Out.ok.injEq, reduceCtorEq, not_false_eq_true, and_self, true_and, and_imp, ne_eq]
                  refine ⟨by omega, ?_⟩
                  intro a1 r1 _ h2; subst h2; omega
                | err e => simp; omega
                | panic => exact absurd hr hp
                | oom => exact absurd hr ho
              · next hneg =>
                obtain ⟨hout, hal, hsucc⟩ := readBulk_good_alloc c hc.2 l.toNat b2
                generalize hrb : readBulk c l.toNat b2 = rb at *
                simp only [List.length_cons, appendCost, sliceHdr]
                cases hro : rb.out with
                | err e => simp; omega
                | panic => exact absurd (hout ▸ hro) (readFull_not_panic _ _).1
                | oom => exact absurd (hout ▸ hro) (readFull_not_panic _ _).2
                | ok v b3 =>
                  have hrf := readFull_ok (hout ▸ hro)
                  have hal2 := hsucc hrf.1
                  dsimp only
                  split
                  · simp; omega
                  · next b4 hcr =>
                    have h4 := expectCRLF_len hcr
                    have := ih (n - 1) b4
                    generalize elems c f (n - 1) b4 = r at *
                    obtain ⟨⟨hp, ho⟩, ha, hok⟩ := this
                    cases hr : r.out with
                    | ok args rest =>
                      have := hok args rest hr
                      simp only [Out.ok.injEq, reduceCtorEq, not_false_eq_true, and_self, true_and, and_imp, ne_eq]
                      refine ⟨by omega, ?_⟩
                      intro a1 r1 _ h2; subst h2; omega
                    | err e => simp; omega
                    | panic => exact absurd hr hp
                    | oom => exact absurd hr ho

theorem parse_bound (c : PCfg) (hc : c.Good) (b : Bytes) :
    ((parse c b).out ≠ .panic ∧ (parse c b).out ≠ .oom) ∧
    (parse c b).alloc ≤ 100 * b.length + sliceHdr * c.arrCap + c.bulkChunk ∧
    (∀ args rest, (parse c b).out = .ok args rest →
      rest.length < b.length ∧ (parse c b).alloc + 100 * rest.length ≤ 100 * b.length) := by
  unfold parse
  split
  · simp
  · next x b1 =>
    split
    · split
      · simp
      · next line b2 hrl =>
        have hlen := readLine_len hrl
        dsimp only
        split
        · simp [sliceHdr]; omega
        · next n hn =>
          split
          · simp only [List.length_cons, sliceHdr]
            simp only [Out.ok.injEq, reduceCtorEq, not_false_eq_true, and_self, true_and, and_imp, ne_eq]
            refine ⟨by omega, ?_⟩
            intro a1 r1 _ h2; subst h2; omega
          · simp only [hc.1, if_true]
            have := elems_bound c hc (b2.length + 1) n.toNat b2
            generalize elems c (b2.length + 1) n.toNat b2 = r at *
            obtain ⟨⟨hp, ho⟩, ha, hok⟩ := this
            simp only [List.length_cons, sliceHdr]
            refine ⟨⟨hp, ho⟩, ?_, ?_⟩
            · have : min n.toNat c.arrCap ≤ c.arrCap := by omega
              omega
            · intro args rest hr
              have := hok args rest hr
              have : min n.toNat c.arrCap ≤ n.toNat := by omega
              omega
    · split
      · simp
      · next line b2 hrl =>
        have hlen := readLine_len hrl
        have hf := fields_length line
        simp only [List.length_cons] at hlen
        simp only [List.length_cons, sliceHdr, Out.ok.injEq, reduceCtorEq, not_false_eq_true, and_self, true_and, and_imp, ne_eq]
        refine ⟨by omega, ?_⟩
        intro a1 r1 _ h2; subst h2; omega

theorem parseAll_bound (c : PCfg) (hc : c.Good) : ∀ f b,
    ((parseAll c f b).fin ≠ .panic ∧ (parseAll c f b).fin ≠ .oom) ∧
    (parseAll c f b).alloc ≤ 100 * b.length + sliceHdr * c.arrCap + c.bulkChunk := by
  intro f
  induction f with
  | zero => intro b; simp [parseAll]
  | succ f ih =>
    intro b
    unfold parseAll
    have := parse_bound c hc b
    generalize parse c b = r at *
    obtain ⟨⟨hp, ho⟩, ha, hok⟩ := this
    dsimp only
    cases hr : r.out with
    | err e => simp; omega
    | panic => exact absurd hr hp
    | oom => exact absurd hr ho
    | ok args rest =>
      have h1 := hok args rest hr
      have h2 := ih rest
      simp only
      refine ⟨h2.1, ?_⟩
      omega
/-! ### decimal lengths and the round trip of well-formed arrays -/

theorem digitsVal_snoc (xs : Bytes) (d : Nat) (hd : 48 ≤ d ∧ d ≤ 57) : ∀ acc v, digitsVal xs acc = some v →
    digitsVal (xs ++ [d]) acc = some (v * 10 + (d - 48)) := by
  induction xs with
  | nil => intro acc v h; simp [digitsVal] at h ⊢; subst h; simp [hd]
  | cons x xs ih =>
    intro acc v h
    simp only [digitsVal, List.cons_append] at h ⊢
    split at h
    · next hx => simp only [hx, and_self, if_true]; exact ih _ _ h
    · simp at h

theorem leDigits_val : ∀ f n, n < f → digitsVal (leDigits f n).reverse 0 = some n ∧
    (∀ d ∈ leDigits f n, 48 ≤ d ∧ d ≤ 57) ∧ leDigits f n ≠ [] := by
  intro f
  induction f with
  | zero => intro n h; omega
  | succ f ih =>
    intro n h
    unfold leDigits
    by_cases h10 : n < 10
    · simp only [h10, if_true]
      refine ⟨?_, ?_, by simp⟩
      · simp [digitsVal]; omega
      · intro d hd; simp at hd; omega
    · simp only [h10, if_false]
      have hlt : n / 10 < f := by omega
      obtain ⟨h1, h2, h3⟩ := ih (n / 10) hlt
      refine ⟨?_, ?_, by simp⟩
      · rw [List.reverse_cons]
        have := digitsVal_snoc (leDigits f (n / 10)).reverse (48 + n % 10) (by omega) 0 (n / 10) h1
        rw [this]; congr 1; omega
      · intro d hd
        simp at hd
        rcases hd with hd | hd
        · omega
        · exact h2 d hd

theorem natDigits_spec (n : Nat) : digitsVal (natDigits n) 0 = some n ∧
    (∀ d ∈ natDigits n, 48 ≤ d ∧ d ≤ 57) ∧ natDigits n ≠ [] := by
  obtain ⟨h1, h2, h3⟩ := leDigits_val (n + 1) n (by omega)
  refine ⟨h1, ?_, ?_⟩
  · intro d hd; exact h2 d (by simpa [natDigits] using hd)
  · simpa [natDigits] using h3

theorem atoi_natDigits (n : Nat) (hn : n ≤ int64Max) : atoi (natDigits n) = some (n : Int) := by
  obtain ⟨h1, h2, h3⟩ := natDigits_spec n
  generalize natDigits n = ds at *
  match ds, h3 with
  | d :: rest, _ =>
    have hd := h2 d (by simp)
    unfold atoi
    split
    · simp at *
    · next heq => simp at heq; omega
    · next heq => simp at heq; omega
    · next d' ds' _ _ heq =>
      simp at heq
      obtain ⟨e1, e2⟩ := heq
      subst e1 e2
      simp [h1, hn]


theorem splitLF_noLF (ds : Bytes) (h : ∀ d ∈ ds, d ≠ 10) (X : Bytes) :
    splitLF (ds ++ 10 :: X) = some (ds, X) := by
  induction ds with
  | nil => simp [splitLF]
  | cons d ds ih =>
    have hd : d ≠ 10 := h d (by simp)
    have := ih (fun x hx => h x (by simp [hx]))
    simp [splitLF, hd, this]

theorem readLine_crlf (ds : Bytes) (h : ∀ d ∈ ds, d ≠ 10) (X : Bytes) :
    readLine (ds ++ crlf ++ X) = .ok (ds, X) := by
  have h1 : ds ++ crlf ++ X = (ds ++ [13]) ++ 10 :: X := by simp [crlf]
  have h2 : ∀ d ∈ ds ++ [13], d ≠ 10 := by
    intro d hd
    simp at hd
    rcases hd with hd | hd
    · exact h d hd
    · omega
  rw [readLine, h1, splitLF_noLF _ h2]
  simp

theorem readLine_digits (n : Nat) (X : Bytes) : readLine (natDigits n ++ crlf ++ X) = .ok (natDigits n, X) := by
  apply readLine_crlf
  intro d hd
  have := (natDigits_spec n).2.1 d hd
  omega

theorem encodeBulks_length (args : List Bytes) : args.length ≤ (encodeBulks args).length := by
  induction args with
  | nil => simp [encodeBulks]
  | cons a as ih => simp [encodeBulks, encodeBulk]; omega

theorem elems_encodeBulks (c : PCfg) (hc : c.bulkChunked = true) : ∀ (args : List Bytes) (f : Nat) (rest : Bytes),
    args.length < f → (∀ a ∈ args, a.length ≤ int64Max) →
    (elems c f args.length (encodeBulks args ++ rest)).out = .ok (args.map some) rest := by
  intro args
  induction args with
  | nil =>
    intro f rest hf _
    cases f with
    | zero => omega
    | succ f => simp [elems, encodeBulks]
  | cons a as ih =>
    intro f rest hf hlen
    cases f with
    | zero => omega
    | succ f =>
      have hal : a.length ≤ int64Max := hlen a (by simp)
      have e1 : encodeBulks (a :: as) ++ rest = 36 :: (natDigits a.length ++ crlf ++ (a ++ crlf ++ (encodeBulks as ++ rest))) := by
        simp [encodeBulks, encodeBulk]
      have hrf : readFull a.length (a ++ crlf ++ (encodeBulks as ++ rest)) = .ok a (crlf ++ (encodeBulks as ++ rest)) := by
        simp [readFull]
      have hcr : expectCRLF (crlf ++ (encodeBulks as ++ rest)) = .ok (encodeBulks as ++ rest) := by
        simp [expectCRLF, crlf]
      have hrec := ih f rest (by simp at hf; omega) (fun x hx => hlen x (by simp [hx]))
      rw [e1]
      unfold elems
      simp only [List.length_cons, Nat.add_one_ne_zero, if_false, ne_eq, not_true_eq_false, readLine_digits,
        atoi_natDigits _ hal]
      have hneg : ¬ ((a.length : Int) < 0) := by omega
      simp only [hneg, if_false, Int.toNat_natCast, readBulk, hc, if_true, hrf, hcr, Nat.add_sub_cancel, hrec, List.map_cons]

theorem parse_encodeArray (c : PCfg) (hc : c.Good) (args : List Bytes) (rest : Bytes)
    (hn : args.length ≤ int64Max) (hlen : ∀ a ∈ args, a.length ≤ int64Max) :
    (parse c (encodeArray args ++ rest)).out = .ok (args.map some) rest := by
  have e1 : encodeArray args ++ rest = 42 :: (natDigits args.length ++ crlf ++ (encodeBulks args ++ rest)) := by
    simp [encodeArray]
  rw [e1]
  unfold parse
  have hneg : ¬ ((args.length : Int) < 0) := by omega
  simp only [if_true, readLine_digits, atoi_natDigits _ hn, hneg, if_false, hc.1, Int.toNat_natCast]
  apply elems_encodeBulks c hc.2
  · have := encodeBulks_length args
    simp; omega
  · exact hlen
/-! ### inline commands -/

/-- a byte that is neither white space nor part of a multi-byte rune -/
def plainByte (x : Nat) : Prop := isAsciiSpace x = false ∧ x < 128

def plainWord (w : Bytes) : Prop := w ≠ [] ∧ ∀ x ∈ w, plainByte x

def joinSp : List Bytes → Bytes
  | [] => []
  | [w] => w
  | w :: ws => w ++ 32 :: joinSp ws

theorem spaceLen_plain (x : Nat) (t : Bytes) (h : plainByte x) : spaceLen (x :: t) = 0 := by
  obtain ⟨h1, h2⟩ := h
  unfold spaceLen
  simp only [h1]
  split
  · next h => simp at h
  · split
    · omega
    · omega
    · omega
    · omega
    · rfl

theorem fieldsGo_word (w : Bytes) (hw : ∀ x ∈ w, plainByte x) : ∀ cur t,
    fieldsGo 0 cur (w ++ t) = fieldsGo 0 (w.reverse ++ cur) t := by
  induction w with
  | nil => intro cur t; simp
  | cons x xs ih =>
    intro cur t
    have hx := spaceLen_plain x (xs ++ t) (hw x (by simp))
    simp only [List.cons_append, fieldsGo, hx, if_true]
    rw [ih (fun y hy => hw y (by simp [hy]))]
    simp

theorem fields_joinSp : ∀ (ws : List Bytes), (∀ w ∈ ws, plainWord w) → fields (joinSp ws) = ws := by
  intro ws
  induction ws with
  | nil => intro _; simp [joinSp, fields, fieldsGo]
  | cons w ws ih =>
    intro h
    have hw := h w (by simp)
    have hne : w.reverse ≠ [] := by simpa using hw.1
    cases ws with
    | nil =>
      have := fieldsGo_word w hw.2 [] []
      simp only [List.append_nil] at this
      simp [joinSp, fields, this, fieldsGo, hne]
    | cons w2 ws2 =>
      have ih' := ih (fun x hx => h x (by simp [hx]))
      have := fieldsGo_word w hw.2 [] (32 :: joinSp (w2 :: ws2))
      simp only [List.append_nil] at this
      have hsp : spaceLen (32 :: joinSp (w2 :: ws2)) = 1 := by simp [spaceLen, isAsciiSpace]
      simp only [joinSp, fields, this]
      simp only [fieldsGo, hsp, hne, if_false, Nat.sub_self, List.reverse_reverse]
      simp only [fields] at ih'
      simp [ih']


theorem joinSp_noLF : ∀ (ws : List Bytes), (∀ w ∈ ws, plainWord w) → ∀ d ∈ joinSp ws, d ≠ 10 := by
  intro ws
  induction ws with
  | nil => intro _ d hd; simp [joinSp] at hd
  | cons w ws ih =>
    intro h d hd
    have hw := h w (by simp)
    have hplain : ∀ x ∈ w, x ≠ 10 := by
      intro x hx e
      have := (hw.2 x hx).1
      simp [isAsciiSpace, e] at this
    cases ws with
    | nil => simp [joinSp] at hd; exact hplain d hd
    | cons w2 ws2 =>
      simp only [joinSp, List.mem_append, List.mem_cons] at hd
      rcases hd with hd | hd | hd
      · exact hplain d hd
      · omega
      · exact ih (fun x hx => h x (by simp [hx])) d hd

theorem parse_inline (c : PCfg) (ws : List Bytes) (rest : Bytes) (hws : ∀ w ∈ ws, plainWord w)
    (hne : ws ≠ []) (hstar : (joinSp ws).head? ≠ some 42) :
    (parse c (joinSp ws ++ crlf ++ rest)).out = .ok (ws.map some) rest := by
  have hrl := readLine_crlf (joinSp ws) (joinSp_noLF ws hws) rest
  have hf := fields_joinSp ws hws
  have hj : joinSp ws ≠ [] := by
    cases ws with
    | nil => exact absurd rfl hne
    | cons w ws2 =>
      have := (hws w (by simp)).1
      cases ws2 <;> simp [joinSp, this]
  match hjs : joinSp ws, hj with
  | x :: b1, _ =>
    rw [hjs] at hrl hstar hf
    have hx : x ≠ 42 := by simpa using hstar
    simp only [List.cons_append] at hrl ⊢
    unfold parse
    simp only [hx, if_false, hrl, hf]

/-! ### pipelines -/

/-- a pipeline: the RESP arrays of several commands back to back -/
def encodeStream : List (List Bytes) → Bytes
  | [] => []
  | a :: rest => encodeArray a ++ encodeStream rest

theorem encodeStream_length (cmds : List (List Bytes)) : cmds.length ≤ (encodeStream cmds).length := by
  induction cmds with
  | nil => simp [encodeStream]
  | cons a rest ih => simp [encodeStream, encodeArray]; omega

theorem parseAll_encodeStream (c : PCfg) (hc : c.Good) : ∀ (cmds : List (List Bytes)) (f : Nat),
    cmds.length < f → (∀ a ∈ cmds, a.length ≤ int64Max ∧ ∀ x ∈ a, x.length ≤ int64Max) →
    (parseAll c f (encodeStream cmds)).frames = cmds.map (fun a => a.map some) ∧
    (parseAll c f (encodeStream cmds)).fin = .err .eof := by
  intro cmds
  induction cmds with
  | nil =>
    intro f hf _
    cases f with
    | zero => omega
    | succ f => simp [parseAll, encodeStream, parse]
  | cons a rest ih =>
    intro f hf h
    cases f with
    | zero => omega
    | succ f =>
      have ha := h a (by simp)
      have hout := parse_encodeArray c hc a (encodeStream rest) ha.1 ha.2
      have hrec := ih f (by simp at hf; omega) (fun x hx => h x (by simp [hx]))
      simp only [encodeStream, parseAll, hout, List.map_cons]
      exact ⟨by rw [hrec.1], hrec.2⟩

end NoKV.Redis

/-
Model of the RESP framing code of the Redis gateway: `cmd/nokv-redis/server.go`
`parseRESP`, `readLine`, `expectCRLF` (and `readBulk` of the repaired shape), plus the loop
`handleConn` runs around `parseRESP`.  Core Lean only; executable.

The reader is a finite byte list (everything the client sends before it half-closes).
Every modelled `make` adds the number of bytes it requests to an explicit `alloc` count;
a request above `maxAlloc` is Go's `makeslice: … out of range` panic, a request above
`memLimit` is the runtime's fatal out-of-memory (the harness runs the real code under that
address-space limit).  `handleConn` has no `recover`, so on the real server both end the
process.
-/
import NoKVModel.Base.Bytes

namespace NoKV.Redis

/-- Facts about `parseRESP` the proofs depend on (filled in by the extractor). -/
structure PCfg where
  /-- `make([][]byte, 0, min(n, arrCap))` (true) vs `make([][]byte, 0, n)` (false) -/
  arrPreallocCapped : Bool
  /-- bulk payload read through `readBulk` (grows after data arrived) vs `make([]byte, l)` -/
  bulkChunked : Bool
  /-- `maxArrayPrealloc` (elements) -/
  arrCap : Nat
  /-- `bulkReadChunk` (bytes) -/
  bulkChunk : Nat
  deriving DecidableEq, Repr

def PCfg.good : PCfg := { arrPreallocCapped := true, bulkChunked := true, arrCap := 1024, bulkChunk := 65536 }

/-- No allocation is sized by a declared length alone. -/
def PCfg.Good (c : PCfg) : Prop := c.arrPreallocCapped = true ∧ c.bulkChunked = true

instance PCfg.decGood (c : PCfg) : Decidable c.Good := by unfold PCfg.Good; exact inferInstance

/-- Go's `maxAlloc` on linux/amd64 (48 address bits). -/
def maxAlloc : Nat := 281474976710656
/-- address-space limit the harness gives the child process (8 GiB) -/
def memLimit : Nat := 8589934592
/-- size of a slice header (`[]byte` element of `[][]byte`) -/
def sliceHdr : Nat := 24

inductive PErr where
  | eof | ueof | badTerm | badArrayLen | notBulk | badBulkLen | noCR | noLF
  deriving DecidableEq, Repr

def PErr.str : PErr → String
  | .eof => "eof" | .ueof => "ueof" | .badTerm => "badterm" | .badArrayLen => "badarraylen"
  | .notBulk => "notbulk" | .badBulkLen => "badbulklen" | .noCR => "nocr" | .noLF => "nolf"

/-- one RESP argument; `none` = nil bulk (`$-1`) -/
abbrev Arg := Option Bytes

inductive Out (α : Type) where
  | ok (v : α) (rest : Bytes)
  | err (e : PErr)
  | panic
  | oom
  deriving Repr

structure Res (α : Type) where
  out : Out α
  alloc : Nat
  deriving Repr

/-! ### `strconv.Atoi` (64-bit int) -/

def digitsVal : Bytes → Nat → Option Nat
  | [], acc => some acc
  | d :: ds, acc => if 48 ≤ d ∧ d ≤ 57 then digitsVal ds (acc * 10 + (d - 48)) else none

def int64Max : Nat := 9223372036854775807

def atoi (b : Bytes) : Option Int :=
  match b with
  | [] => none
  | 45 :: ds =>
    if ds = [] then none else
    match digitsVal ds 0 with
    | none => none
    | some v => if v ≤ int64Max + 1 then some (-(v : Int)) else none
  | 43 :: ds =>
    if ds = [] then none else
    match digitsVal ds 0 with
    | none => none
    | some v => if v ≤ int64Max then some (v : Int) else none
  | d :: ds =>
    match digitsVal (d :: ds) 0 with
    | none => none
    | some v => if v ≤ int64Max then some (v : Int) else none

/-! ### `readLine`, `expectCRLF` -/

/-- `ReadString('\n')`: bytes before the first LF, bytes after it. -/
def splitLF : Bytes → Option (Bytes × Bytes)
  | [] => none
  | x :: xs =>
    if x = 10 then some ([], xs) else
    match splitLF xs with
    | none => none
    | some (l, r) => some (x :: l, r)

/-- `readLine`: no LF before the end of the stream is `io.EOF`; a line that does not end in CR LF
is "invalid line terminator". -/
def readLine (b : Bytes) : Except PErr (Bytes × Bytes) :=
  match splitLF b with
  | none => .error .eof
  | some (l, r) => if l.getLast? = some 13 then .ok (l.dropLast, r) else .error .badTerm

def expectCRLF : Bytes → Except PErr Bytes
  | [] => .error .eof
  | x :: r1 =>
    if x ≠ 13 then .error .noCR else
    match r1 with
    | [] => .error .eof
    | y :: r2 => if y ≠ 10 then .error .noLF else .ok r2

/-! ### bulk payload -/

/-- Allocation of the repaired `readBulk`: first buffer `s`, then a buffer of `min l (2*s)` each
time the current one was filled completely and is still shorter than `l`. -/
def growAlloc : Nat → Nat → Nat → Nat → Nat
  | 0, _, _, s => s
  | f + 1, l, avail, s => s + (if s < l ∧ s ≤ avail then growAlloc f l avail (min l (2 * s)) else 0)

/-- `io.ReadFull` of `l` bytes from what is left. -/
def readFull (l : Nat) (b : Bytes) : Out Bytes :=
  if l ≤ b.length then .ok (b.take l) (b.drop l)
  else if b = [] then .err .eof
  else .err .ueof

def readBulk (c : PCfg) (l : Nat) (b : Bytes) : Res Bytes :=
  if c.bulkChunked then
    ⟨readFull l b, growAlloc (b.length + 1) l b.length (min l c.bulkChunk)⟩
  else if maxAlloc < l then ⟨.panic, 0⟩
  else if memLimit < l then ⟨.oom, 0⟩
  else ⟨readFull l b, l⟩

/-! ### `parseRESP` -/

/-- amortised cost accounted for one `append` to the argument slice -/
def appendCost : Nat := 2 * sliceHdr

/-- The `for range n` loop.  `fuel` bounds the iterations by the input length (each iteration
consumes at least one byte or ends the loop). -/
def elems (c : PCfg) : Nat → Nat → Bytes → Res (List Arg)
  | 0, _, _ => ⟨.err .eof, 0⟩
  | f + 1, n, b =>
    if n = 0 then ⟨.ok [] b, 0⟩ else
    match b with
    | [] => ⟨.err .eof, 0⟩
    | x :: b1 =>
      if x ≠ 36 then ⟨.err .notBulk, 0⟩ else
      match readLine b1 with
      | .error e => ⟨.err e, 0⟩
      | .ok (line, b2) =>
        let a := line.length + 2
        match atoi line with
        | none => ⟨.err .badBulkLen, a⟩
        | some l =>
          if l < 0 then
            let r := elems c f (n - 1) b2
            match r.out with
            | .ok args rest => ⟨.ok (none :: args) rest, a + appendCost + r.alloc⟩
            | .err e => ⟨.err e, a + appendCost + r.alloc⟩
            | .panic => ⟨.panic, a + appendCost + r.alloc⟩
            | .oom => ⟨.oom, a + appendCost + r.alloc⟩
          else
            let rb := readBulk c l.toNat b2
            match rb.out with
            | .err e => ⟨.err e, a + rb.alloc⟩
            | .panic => ⟨.panic, a + rb.alloc⟩
            | .oom => ⟨.oom, a + rb.alloc⟩
            | .ok v b3 =>
              match expectCRLF b3 with
              | .error e => ⟨.err e, a + rb.alloc⟩
              | .ok b4 =>
                let r := elems c f (n - 1) b4
                match r.out with
                | .ok args rest => ⟨.ok (some v :: args) rest, a + rb.alloc + appendCost + r.alloc⟩
                | .err e => ⟨.err e, a + rb.alloc + appendCost + r.alloc⟩
                | .panic => ⟨.panic, a + rb.alloc + appendCost + r.alloc⟩
                | .oom => ⟨.oom, a + rb.alloc + appendCost + r.alloc⟩

/-! `strings.Fields`: split around runs of white space as `unicode.IsSpace` defines it.  The
non-ASCII white-space runes are matched by their UTF-8 encodings (a lead byte never occurs inside
another valid rune, and Go steps over invalid bytes one at a time, so matching at every position is
what Go's decoder does). -/

def isAsciiSpace (x : Nat) : Bool := x = 9 || x = 10 || x = 11 || x = 12 || x = 13 || x = 32

/-- length of the white-space rune `b` starts with (0 = none) -/
def spaceLen : Bytes → Nat
  | [] => 0
  | x :: rest =>
    if isAsciiSpace x then 1 else
    match x, rest with
    | 194, y :: _ => if y = 133 ∨ y = 160 then 2 else 0
    | 225, y :: z :: _ => if y = 154 ∧ z = 128 then 3 else 0
    | 226, y :: z :: _ =>
      if y = 128 ∧ ((128 ≤ z ∧ z ≤ 138) ∨ z = 168 ∨ z = 169 ∨ z = 175) then 3
      else if y = 129 ∧ z = 159 then 3 else 0
    | 227, y :: z :: _ => if y = 128 ∧ z = 128 then 3 else 0
    | _, _ => 0

/-- `fieldsGo skip cur b`: `skip` = bytes of the current white-space rune still to drop,
`cur` = the field being collected (reversed). -/
def fieldsGo : Nat → Bytes → Bytes → List Bytes
  | _, cur, [] => if cur = [] then [] else [cur.reverse]
  | skip + 1, cur, _ :: xs => fieldsGo skip cur xs
  | 0, cur, x :: xs =>
    let k := spaceLen (x :: xs)
    if k = 0 then fieldsGo 0 (x :: cur) xs
    else if cur = [] then fieldsGo (k - 1) [] xs
    else cur.reverse :: fieldsGo (k - 1) [] xs

def fields (b : Bytes) : List Bytes := fieldsGo 0 [] b

def sumLen : List Bytes → Nat
  | [] => 0
  | x :: xs => x.length + sumLen xs

/-- `parseRESP` on the remaining stream. -/
def parse (c : PCfg) (b : Bytes) : Res (List Arg) :=
  match b with
  | [] => ⟨.err .eof, 0⟩
  | x :: b1 =>
    if x = 42 then
      match readLine b1 with
      | .error e => ⟨.err e, 0⟩
      | .ok (line, b2) =>
        let a := line.length + 2
        match atoi line with
        | none => ⟨.err .badArrayLen, a⟩
        | some n =>
          if n < 0 then ⟨.ok [] b2, a⟩
          else if c.arrPreallocCapped then
            let r := elems c (b2.length + 1) n.toNat b2
            ⟨r.out, a + sliceHdr * min n.toNat c.arrCap + r.alloc⟩
          else if maxAlloc < sliceHdr * n.toNat then ⟨.panic, a⟩
          else if memLimit < sliceHdr * n.toNat then ⟨.oom, a⟩
          else
            let r := elems c (b2.length + 1) n.toNat b2
            ⟨r.out, a + sliceHdr * n.toNat + r.alloc⟩
    else
      match readLine (x :: b1) with
      | .error e => ⟨.err e, 0⟩
      | .ok (line, b2) =>
        let fs := fields line
        ⟨.ok (fs.map some) b2, 2 * line.length + 2 + sliceHdr * fs.length⟩

/-! ### the connection loop -/

inductive ConnEnd where
  | err (e : PErr) | panic | oom
  deriving DecidableEq, Repr

def ConnEnd.str : ConnEnd → String
  | .err e => "err:" ++ e.str | .panic => "panic" | .oom => "oom"

structure ConnRes where
  frames : List (List Arg)
  fin : ConnEnd
  alloc : Nat
  deriving Repr

/-- `handleConn`'s loop seen from the parser: frames until the first error (`eof` = clean end). -/
def parseAll (c : PCfg) : Nat → Bytes → ConnRes
  | 0, _ => ⟨[], .err .eof, 0⟩
  | f + 1, b =>
    let r := parse c b
    match r.out with
    | .err e => ⟨[], .err e, r.alloc⟩
    | .panic => ⟨[], .panic, r.alloc⟩
    | .oom => ⟨[], .oom, r.alloc⟩
    | .ok args rest =>
      let t := parseAll c f rest
      ⟨args :: t.frames, t.fin, r.alloc + t.alloc⟩

def parseConn (c : PCfg) (b : Bytes) : ConnRes := parseAll c (b.length + 1) b

/-- "out of proportion": more than 64 bytes per input byte plus 1 MiB -/
def memBig (alloc inputLen : Nat) : Bool := decide (64 * inputLen + 1048576 < alloc)

/-! ### encoders (used by the well-formedness theorems and the driver) -/

/-- decimal digits of `n`, least significant first (`fuel > n` is always enough) -/
def leDigits : Nat → Nat → Bytes
  | 0, _ => []
  | f + 1, n => if n < 10 then [48 + n] else (48 + n % 10) :: leDigits f (n / 10)

/-- decimal digits of `n` (what `strconv.Itoa` prints for `n ≥ 0`) -/
def natDigits (n : Nat) : Bytes := (leDigits (n + 1) n).reverse

def crlf : Bytes := [13, 10]

def encodeBulk (a : Bytes) : Bytes := 36 :: natDigits a.length ++ crlf ++ a ++ crlf

def encodeBulks : List Bytes → Bytes
  | [] => []
  | a :: as => encodeBulk a ++ encodeBulks as

/-- the RESP array a client sends for the arguments `args` -/
def encodeArray (args : List Bytes) : Bytes := 42 :: natDigits args.length ++ crlf ++ encodeBulks args

end NoKV.Redis

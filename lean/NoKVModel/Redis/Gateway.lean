/-
Model of the Redis gateway's command layer: `cmd/nokv-redis/server.go` (`execute`, `execSet`,
`execIncrBy`, …) over `backend_embedded.go`, and next to it the reference semantics
(`redisSpec`: documented Redis behaviour of the same commands).  Core Lean only; executable.

Time is frozen during a command sequence (`nowMs`, milliseconds since the epoch); the gateway
keeps expiries in whole seconds (`ExpiresAt`), Redis in milliseconds.
Command names and option names are folded with the ASCII rule.
-/
import NoKVModel.Redis.Resp

namespace NoKV.Redis

/-! ### shared vocabulary -/

def int64Min : Int := -9223372036854775808
def int64MaxI : Int := 9223372036854775807

/-- what `strconv.FormatInt(v, 10)` / Redis' `ll2string` print -/
def intDigits (v : Int) : Bytes := if v < 0 then 45 :: natDigits v.natAbs else natDigits v.natAbs

/-- Redis `string2ll`: exactly the canonical decimal rendering of an int64 -/
def strictInt (b : Bytes) : Option Int :=
  match atoi b with
  | none => none
  | some v => if intDigits v = b then some v else none

def upperByte (x : Nat) : Nat := if 97 ≤ x ∧ x ≤ 122 then x - 32 else x
def upper (b : Bytes) : Bytes := b.map upperByte

def str (s : String) : Bytes := s.toList.map Char.toNat

inductive EKind where
  | wrongArgs | unknown | setOpt | notInt | overflow | emptyKey
  deriving DecidableEq, Repr

def EKind.str : EKind → String
  | .wrongArgs => "wrongargs" | .unknown => "unknown" | .setOpt => "setopt"
  | .notInt => "notint" | .overflow => "overflow" | .emptyKey => "emptykey"

inductive Reply where
  | ok | pong | nil
  | bulk (b : Bytes)
  | int (i : Int)
  | arr (l : List (Option Bytes))
  | err (k : EKind)
  | quit            -- `+OK`, then the connection is closed
  | closed          -- nothing: the connection is gone
  deriving DecidableEq, Repr

structure Entry where
  val : Bytes
  exp : Nat          -- 0 = no expiry; unit = the owner's clock unit
  deriving DecidableEq, Repr

abbrev Store := List (Bytes × Entry)

def Entry.live (now : Nat) (e : Entry) : Bool := e.exp = 0 || now < e.exp

def find : Store → Bytes → Option Entry
  | [], _ => none
  | (k', e) :: s, k => if k' = k then some e else find s k

/-- the entry a reader sees: newest write, unless expired -/
def lookup (now : Nat) (s : Store) (k : Bytes) : Option Entry :=
  match find s k with
  | none => none
  | some e => if e.live now then some e else none

def put (s : Store) (k : Bytes) (e : Entry) : Store := (k, e) :: s
def del (s : Store) (k : Bytes) : Store := s.filter (fun p => p.1 ≠ k)

structure St where
  store : Store := []
  closed : Bool := false
  deriving Repr

inductive ExpKind where
  | ex | px | exat | pxat
  deriving DecidableEq, Repr

def expKind? (opt : Bytes) : Option ExpKind :=
  if opt = str "EX" then some .ex else if opt = str "PX" then some .px
  else if opt = str "EXAT" then some .exat else if opt = str "PXAT" then some .pxat else none

/-! ### the gateway as it is written -/

/-- Facts about the command layer (filled in by the extractor). -/
structure GCfg where
  /-- `strconvParseIntSafe` / `len(entry.Value) > 0`: an empty or blank value counts as 0 -/
  incrEmptyAsZero : Bool
  /-- integers go through `strconv.ParseInt` (accepts `+5`, `007`, `-0`) -/
  intParseLax : Bool
  /-- `DECRBY` checks for `MinInt64` before negating -/
  decrbyMinChecked : Bool
  /-- `PXAT` below 1000 ms is accepted (key expired at once) instead of rejected -/
  pxatSubSecondOk : Bool
  /-- expiry arguments are range-checked (`EX`/`EXAT` > MaxInt64/1000, `PX` + now overflow) -/
  expireRangeChecked : Bool
  /-- the empty key is an ordinary key -/
  emptyKeyOk : Bool
  /-- reading a key that holds the empty string answers an empty bulk, not nil -/
  emptyValueKept : Bool
  /-- `PING` takes at most one argument and echoes it even when empty -/
  pingStrict : Bool
  deriving DecidableEq, Repr

def GCfg.good : GCfg :=
  { incrEmptyAsZero := false, intParseLax := false, decrbyMinChecked := true, pxatSubSecondOk := true,
    expireRangeChecked := true, emptyKeyOk := true, emptyValueKept := true, pingStrict := true }

def GCfg.Good (c : GCfg) : Prop :=
  c.incrEmptyAsZero = false ∧ c.intParseLax = false ∧ c.decrbyMinChecked = true ∧ c.pxatSubSecondOk = true ∧
  c.expireRangeChecked = true ∧ c.emptyKeyOk = true ∧ c.emptyValueKept = true ∧ c.pingStrict = true

instance GCfg.decGood (c : GCfg) : Decidable c.Good := by unfold GCfg.Good; exact inferInstance

def gwParseInt (c : GCfg) (b : Bytes) : Option Int := if c.intParseLax then atoi b else strictInt b

/-- integer held by a stored value, as `IncrBy` reads it -/
def gwValInt (c : GCfg) (v : Bytes) : Option Int :=
  if c.incrEmptyAsZero ∧ v.all isAsciiSpace then some 0 else gwParseInt c v

def gwBulk (c : GCfg) (v : Bytes) : Option Bytes := if v = [] ∧ c.emptyValueKept = false then none else some v

def gwRead (c : GCfg) (nowS : Nat) (s : Store) (k : Bytes) : Option Bytes :=
  match lookup nowS s k with
  | none => none
  | some e => gwBulk c e.val

structure SetOpts where
  nx : Bool := false
  xx : Bool := false
  hasExp : Bool := false
  exp : Nat := 0
  deriving DecidableEq, Repr

def maxDiv1000 : Int := 9223372036854775

/-- `ExpiresAt` (seconds) the gateway computes for one expiry option; `none` = error reply -/
def gwExpire (c : GCfg) (nowMs : Nat) (kind : ExpKind) (num : Int) : Option Nat :=
  let nowS := nowMs / 1000
  match kind with
  | .ex =>
    if c.expireRangeChecked ∧ num > maxDiv1000 then none
    else if num * 1000000000 > int64MaxI then some (nowS + 1)      -- Duration wrapped: some future instant
    else some (nowS + num.toNat)
  | .px =>
    if c.expireRangeChecked ∧ num + nowMs > int64MaxI then none
    else if num * 1000000 > int64MaxI then some (nowS + 1)
    else
      let e := (nowMs + num.toNat) / 1000
      some (if e ≤ nowS then nowS + 1 else e)
  | .exat =>
    if c.expireRangeChecked ∧ num > maxDiv1000 then none else some num.toNat
  | .pxat =>
    let sec := num.toNat / 1000
    if sec = 0 then (if c.pxatSubSecondOk then some 1 else none) else some sec

/-- the option loop of `execSet` (`opts` = `args[2:]`), one token at a time; `pending` = an expiry
option whose argument is the next token; `none` = an error reply was written -/
def gwSetOptsGo (c : GCfg) (nowMs : Nat) : List Bytes → SetOpts → Option ExpKind → Option SetOpts
  | [], o, none => some o
  | [], _, some _ => none
  | a :: rest, o, some kind =>
    match gwParseInt c a with
    | none => none
    | some num =>
      if num ≤ 0 then none else
      match gwExpire c nowMs kind num with
      | none => none
      | some e => gwSetOptsGo c nowMs rest { o with hasExp := true, exp := e } none
  | opt :: rest, o, none =>
    let u := upper opt
    if u = str "NX" then (if o.xx then none else gwSetOptsGo c nowMs rest { o with nx := true } none)
    else if u = str "XX" then (if o.nx then none else gwSetOptsGo c nowMs rest { o with xx := true } none)
    else match expKind? u with
      | none => none
      | some kind => if o.hasExp then none else gwSetOptsGo c nowMs rest o (some kind)

def gwSetOpts (c : GCfg) (nowMs : Nat) (opts : List Bytes) (o : SetOpts) : Option SetOpts :=
  gwSetOptsGo c nowMs opts o none

def gwSet (c : GCfg) (nowMs : Nat) (s : Store) (k v : Bytes) (opts : List Bytes) : Store × Reply :=
  match gwSetOpts c nowMs opts {} with
  | none => (s, .err .setOpt)
  | some o =>
    if k = [] ∧ c.emptyKeyOk = false then (s, .err .emptyKey) else
    let exists_ := (lookup (nowMs / 1000) s k).isSome
    if o.nx ∧ exists_ then (s, .nil)
    else if o.xx ∧ ¬ exists_ then (s, .nil)
    else (put s k ⟨v, o.exp⟩, .ok)

/-- `Del` inside one transaction (reads see the deletes made so far) -/
def delKeys (now : Nat) : Store → List Bytes → Store × Nat
  | s, [] => (s, 0)
  | s, k :: ks =>
    let hit := (lookup now s k).isSome
    let r := delKeys now (del s k) ks
    (r.1, (if hit then 1 else 0) + r.2)

def countKeys (now : Nat) (s : Store) : List Bytes → Nat
  | [] => 0
  | k :: ks => (if (lookup now s k).isSome then 1 else 0) + countKeys now s ks

def msetPairs : Store → List Bytes → Store
  | s, k :: v :: rest => msetPairs (put s k ⟨v, 0⟩) rest
  | s, _ => s

def oddKeys : List Bytes → List Bytes
  | k :: _ :: rest => k :: oddKeys rest
  | _ => []

/-- the integer `IncrBy` starts from: 0 for an absent key -/
def gwCurVal (c : GCfg) (cur : Option Entry) : Option Int :=
  match cur with
  | none => some 0
  | some e => gwValInt c e.val

/-- `IncrBy` keeps the expiry of a visible key -/
def curExp (cur : Option Entry) : Nat :=
  match cur with
  | none => 0
  | some e => e.exp

def gwIncrBy (c : GCfg) (nowS : Nat) (s : Store) (k : Bytes) (delta : Int) : Store × Reply :=
  if k = [] ∧ c.emptyKeyOk = false then (s, .err .emptyKey) else
  let cur := lookup nowS s k
  match gwCurVal c cur with
  | none => (s, .err .notInt)
  | some current =>
    if delta > 0 ∧ current > int64MaxI - delta then (s, .err .overflow)
    else if delta < 0 ∧ current < int64Min - delta then (s, .err .overflow)
    else
      let result := current + delta
      (put s k ⟨intDigits result, curExp cur⟩, .int result)

def anyEmpty (ks : List Bytes) : Bool := ks.any (fun k => k = [])

/-- `execute` on one parsed command (non-empty argument list). -/
def gwExec (c : GCfg) (nowMs : Nat) (s : Store) (args : List Bytes) : Store × Reply :=
  let nowS := nowMs / 1000
  match args with
  | [] => (s, .closed)
  | name :: a =>
    let cmd := upper name
    if cmd = str "PING" then
      (if c.pingStrict then
        (match a with
         | [] => (s, .pong)
         | [x] => (s, .bulk x)
         | _ => (s, .err .wrongArgs))
       else
        (match a with
         | [] => (s, .pong)
         | x :: _ => if x = [] then (s, .pong) else (s, .bulk x)))
    else if cmd = str "ECHO" then
      (match a with
       | [x] => (s, .bulk x)
       | _ => (s, .err .wrongArgs))
    else if cmd = str "GET" then
      (match a with
       | [k] =>
         if k = [] ∧ c.emptyKeyOk = false then (s, .err .emptyKey) else
         (match gwRead c nowS s k with
          | none => (s, .nil)
          | some v => (s, .bulk v))
       | _ => (s, .err .wrongArgs))
    else if cmd = str "SET" then
      (match a with
       | k :: v :: opts => gwSet c nowMs s k v opts
       | _ => (s, .err .wrongArgs))
    else if cmd = str "DEL" then
      (if a = [] then (s, .err .wrongArgs)
       else if anyEmpty a ∧ c.emptyKeyOk = false then (s, .err .emptyKey)
       else let r := delKeys nowS s a; (r.1, .int r.2))
    else if cmd = str "MGET" then
      (if a = [] then (s, .err .wrongArgs)
       else if anyEmpty a ∧ c.emptyKeyOk = false then (s, .err .emptyKey)
       else (s, .arr (a.map (gwRead c nowS s))))
    else if cmd = str "MSET" then
      (if a.length < 2 ∨ a.length % 2 ≠ 0 then (s, .err .wrongArgs)
       else if anyEmpty (oddKeys a) ∧ c.emptyKeyOk = false then (s, .err .emptyKey)
       else (msetPairs s a, .ok))
    else if cmd = str "INCR" then
      (match a with
       | [k] => gwIncrBy c nowS s k 1
       | _ => (s, .err .wrongArgs))
    else if cmd = str "DECR" then
      (match a with
       | [k] => gwIncrBy c nowS s k (-1)
       | _ => (s, .err .wrongArgs))
    else if cmd = str "INCRBY" then
      (match a with
       | [k, d] =>
         (match gwParseInt c d with
          | none => (s, .err .notInt)
          | some delta => gwIncrBy c nowS s k delta)
       | _ => (s, .err .wrongArgs))
    else if cmd = str "DECRBY" then
      (match a with
       | [k, d] =>
         (match gwParseInt c d with
          | none => (s, .err .notInt)
          | some delta =>
            if delta = int64Min then
              (if c.decrbyMinChecked then (s, .err .overflow) else gwIncrBy c nowS s k int64Min)
            else gwIncrBy c nowS s k (-delta))
       | _ => (s, .err .wrongArgs))
    else if cmd = str "EXISTS" then
      (if a = [] then (s, .err .wrongArgs)
       else if anyEmpty a ∧ c.emptyKeyOk = false then (s, .err .emptyKey)
       else (s, .int (countKeys nowS s a)))
    else if cmd = str "QUIT" then (s, .quit)
    else (s, .err .unknown)

def gwStep (c : GCfg) (nowMs : Nat) (st : St) (args : List Bytes) : St × Reply :=
  if st.closed then (st, .closed) else
  let r := gwExec c nowMs st.store args
  ({ store := r.1, closed := decide (r.2 = .quit) }, r.2)

/-- replies of the gateway to a command sequence, from the empty store -/
def runFrom (step : St → List Bytes → St × Reply) : St → List (List Bytes) → List Reply
  | _, [] => []
  | st, cmd :: rest => let r := step st cmd; r.2 :: runFrom step r.1 rest

def gateway (c : GCfg) (nowMs : Nat) (cmds : List (List Bytes)) : List Reply := runFrom (gwStep c nowMs) {} cmds

/-! ### reference semantics (documented Redis behaviour); expiries in milliseconds -/

def spRead (nowMs : Nat) (s : Store) (k : Bytes) : Option Bytes := (lookup nowMs s k).map (·.val)

/-- phase 1 of `SET`: the documented grammar `[NX | XX] [EX n | PX n | EXAT n | PXAT n]`, options in
any order, each group at most once; the expiry argument is taken verbatim. -/
structure SpOpts where
  nx : Bool := false
  xx : Bool := false
  expiry : Option (ExpKind × Bytes) := none
  deriving DecidableEq, Repr

def spGrammarGo : List Bytes → SpOpts → Option ExpKind → Option SpOpts
  | [], o, none => some o
  | [], _, some _ => none
  | a :: rest, o, some kind => spGrammarGo rest { o with expiry := some (kind, a) } none
  | opt :: rest, o, none =>
    let u := upper opt
    if u = str "NX" then (if o.xx then none else spGrammarGo rest { o with nx := true } none)
    else if u = str "XX" then (if o.nx then none else spGrammarGo rest { o with xx := true } none)
    else match expKind? u with
      | none => none
      | some kind => if o.expiry.isSome then none else spGrammarGo rest o (some kind)

def spGrammar (opts : List Bytes) (o : SpOpts) : Option SpOpts := spGrammarGo opts o none

/-- phase 2: the absolute expiry in milliseconds (`none` = error reply) -/
def spExpireMs (nowMs : Nat) (kind : ExpKind) (a : Bytes) : Option Nat :=
  match strictInt a with
  | none => none
  | some num =>
    if num ≤ 0 then none else
    match kind with
    | .ex => if num > maxDiv1000 ∨ num * 1000 + nowMs > int64MaxI then none else some (nowMs + num.toNat * 1000)
    | .px => if num + nowMs > int64MaxI then none else some (nowMs + num.toNat)
    | .exat => if num > maxDiv1000 then none else some (num.toNat * 1000)
    | .pxat => some num.toNat

def spSet (nowMs : Nat) (s : Store) (k v : Bytes) (opts : List Bytes) : Store × Reply :=
  match spGrammar opts {} with
  | none => (s, .err .setOpt)
  | some o =>
    let expr : Option (Option Nat) := match o.expiry with
      | none => some none
      | some (kind, a) => (spExpireMs nowMs kind a).map some
    match expr with
    | none => (s, .err .setOpt)
    | some e =>
      let exists_ := (lookup nowMs s k).isSome
      if o.nx ∧ exists_ then (s, .nil)
      else if o.xx ∧ ¬ exists_ then (s, .nil)
      else (put s k ⟨v, e.getD 0⟩, .ok)

def spIncrBy (nowMs : Nat) (s : Store) (k : Bytes) (delta : Int) : Store × Reply :=
  let cur := lookup nowMs s k
  let curVal : Option Int := match cur with
    | none => some 0
    | some e => strictInt e.val
  match curVal with
  | none => (s, .err .notInt)
  | some current =>
    let result := current + delta
    if result < int64Min ∨ result > int64MaxI then (s, .err .overflow)
    else (put s k ⟨intDigits result, curExp cur⟩, .int result)

def spExec (nowMs : Nat) (s : Store) (args : List Bytes) : Store × Reply :=
  match args with
  | [] => (s, .closed)
  | name :: a =>
    let cmd := upper name
    if cmd = str "PING" then
      (match a with
       | [] => (s, .pong)
       | [x] => (s, .bulk x)
       | _ => (s, .err .wrongArgs))
    else if cmd = str "ECHO" then
      (match a with
       | [x] => (s, .bulk x)
       | _ => (s, .err .wrongArgs))
    else if cmd = str "GET" then
      (match a with
       | [k] =>
         (match spRead nowMs s k with
          | none => (s, .nil)
          | some v => (s, .bulk v))
       | _ => (s, .err .wrongArgs))
    else if cmd = str "SET" then
      (match a with
       | k :: v :: opts => spSet nowMs s k v opts
       | _ => (s, .err .wrongArgs))
    else if cmd = str "DEL" then
      (if a = [] then (s, .err .wrongArgs)
       else let r := delKeys nowMs s a; (r.1, .int r.2))
    else if cmd = str "MGET" then
      (if a = [] then (s, .err .wrongArgs) else (s, .arr (a.map (spRead nowMs s))))
    else if cmd = str "MSET" then
      (if a.length < 2 ∨ a.length % 2 ≠ 0 then (s, .err .wrongArgs) else (msetPairs s a, .ok))
    else if cmd = str "INCR" then
      (match a with
       | [k] => spIncrBy nowMs s k 1
       | _ => (s, .err .wrongArgs))
    else if cmd = str "DECR" then
      (match a with
       | [k] => spIncrBy nowMs s k (-1)
       | _ => (s, .err .wrongArgs))
    else if cmd = str "INCRBY" then
      (match a with
       | [k, d] =>
         (match strictInt d with
          | none => (s, .err .notInt)
          | some delta => spIncrBy nowMs s k delta)
       | _ => (s, .err .wrongArgs))
    else if cmd = str "DECRBY" then
      (match a with
       | [k, d] =>
         (match strictInt d with
          | none => (s, .err .notInt)
          | some delta => if delta = int64Min then (s, .err .overflow) else spIncrBy nowMs s k (-delta))
       | _ => (s, .err .wrongArgs))
    else if cmd = str "EXISTS" then
      (if a = [] then (s, .err .wrongArgs) else (s, .int (countKeys nowMs s a)))
    else if cmd = str "QUIT" then (s, .quit)
    else (s, .err .unknown)

def spStep (nowMs : Nat) (st : St) (args : List Bytes) : St × Reply :=
  if st.closed then (st, .closed) else
  let r := spExec nowMs st.store args
  ({ store := r.1, closed := decide (r.2 = .quit) }, r.2)

/-- replies of the reference model to a command sequence, from the empty store -/
def redisSpec (nowMs : Nat) (cmds : List (List Bytes)) : List Reply := runFrom (spStep nowMs) {} cmds

end NoKV.Redis

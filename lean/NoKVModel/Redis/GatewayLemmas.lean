/-
Helper lemmas about the gateway / reference models (`Redis/Gateway.lean`) for the C29 theorems.
-/
import NoKVModel.Redis.Gateway

namespace NoKV.Redis

theorem find_put (s : Store) (k k' : Bytes) (e : Entry) :
    find (put s k e) k' = if k = k' then some e else find s k' := by
  simp [put, find]

theorem find_del (s : Store) (k k' : Bytes) :
    find (del s k) k' = if k = k' then none else find s k' := by
  induction s with
  | nil => simp [del, find]
  | cons p s ih =>
    obtain ⟨k0, e0⟩ := p
    simp only [del] at ih ⊢
    by_cases h0 : k0 = k
    · subst h0
      simp only [List.filter, ne_eq, not_true_eq_false, decide_false]
      rw [ih]
      by_cases h1 : k0 = k' <;> simp [find, h1]
    · simp only [List.filter, ne_eq, h0, not_false_eq_true, decide_true, find]
      rw [ih]
      by_cases h1 : k0 = k'
      · subst h1; simp [h0]; intro h; exact absurd h.symm h0
      · simp [h1]

theorem lookup_put (now : Nat) (s : Store) (k k' : Bytes) (e : Entry) :
    lookup now (put s k e) k' = if k = k' then (if e.live now then some e else none) else lookup now s k' := by
  unfold lookup
  rw [find_put]
  by_cases h : k = k' <;> simp [h]

theorem lookup_del (now : Nat) (s : Store) (k k' : Bytes) :
    lookup now (del s k) k' = if k = k' then none else lookup now s k' := by
  unfold lookup
  rw [find_del]
  by_cases h : k = k' <;> simp [h]

/-- an entry whose expiry lies at or before the clock is not seen -/
theorem lookup_expired (now : Nat) (s : Store) (k : Bytes) (e : Entry)
    (h : find s k = some e) (h0 : e.exp ≠ 0) (h1 : e.exp ≤ now) : lookup now s k = none := by
  have : e.live now = false := by
    simp only [Entry.live, Bool.or_eq_false_iff, decide_eq_false_iff_not]
    constructor
    · exact h0
    · omega
  simp [lookup, h, this]

/-- the option loop never yields `NX` together with `XX` -/
theorem gwSetOptsGo_exclusive (c : GCfg) (nowMs : Nat) : ∀ (opts : List Bytes) (o o' : SetOpts) (p : Option ExpKind),
    ¬ (o.nx = true ∧ o.xx = true) → gwSetOptsGo c nowMs opts o p = some o' →
    ¬ (o'.nx = true ∧ o'.xx = true) := by
  intro opts
  induction opts with
  | nil =>
    intro o o' p ho h
    cases p with
    | none => simp [gwSetOptsGo] at h; subst h; exact ho
    | some k => simp [gwSetOptsGo] at h
  | cons a rest ih =>
    intro o o' p ho h
    cases p with
    | some kind =>
      simp only [gwSetOptsGo] at h
      split at h
      · simp at h
      · split at h
        · simp at h
        · split at h
          · simp at h
          · exact ih _ o' none (by simpa using ho) h
    | none =>
      simp only [gwSetOptsGo] at h
      split at h
      · split at h
        · simp at h
        · next hxx => exact ih _ o' none (by simp [hxx]) h
      · split at h
        · split at h
          · simp at h
          · next hnx => exact ih _ o' none (by simp [hnx]) h
        · split at h
          · simp at h
          · split at h
            · simp at h
            · exact ih _ o' _ ho h

theorem gwSetOpts_exclusive (c : GCfg) (nowMs : Nat) (opts : List Bytes) (o o' : SetOpts)
    (ho : ¬ (o.nx = true ∧ o.xx = true)) (h : gwSetOpts c nowMs opts o = some o') :
    ¬ (o'.nx = true ∧ o'.xx = true) :=
  gwSetOptsGo_exclusive c nowMs opts o o' none ho h

end NoKV.Redis

/-
Byte strings and Go's `bytes.Compare`.

`Bytes` is `List Nat` (each element is meant to be `< 256`; the order theory never needs
that bound, the codecs state it as an explicit hypothesis where they do).
Core Lean only.
-/
namespace NoKV

abbrev Bytes := List Nat

namespace Bytes

/-- `bytes.Compare a b < 0` -/
def lt : Bytes → Bytes → Bool
  | [], [] => false
  | [], _ :: _ => true
  | _ :: _, [] => false
  | a :: as, b :: bs => if a < b then true else if b < a then false else lt as bs

/-- `bytes.Compare a b <= 0` -/
def le (a b : Bytes) : Bool := !lt b a

/-- Go's `bytes.Compare`. -/
def cmp (a b : Bytes) : Ordering :=
  if lt a b then .lt else if lt b a then .gt else .eq

theorem lt_irrefl (a : Bytes) : lt a a = false := by
  induction a with
  | nil => rfl
  | cons x xs ih => simp [lt, ih]

theorem lt_asymm {a b : Bytes} (h : lt a b = true) : lt b a = false := by
  induction a generalizing b with
  | nil => cases b <;> simp [lt] at *
  | cons x xs ih =>
    cases b with
    | nil => simp [lt] at h
    | cons y ys =>
      simp only [lt] at h ⊢
      by_cases h1 : x < y
      · have : ¬ y < x := by omega
        simp [this, h1]
      · by_cases h2 : y < x
        · simp [h1, h2] at h
        · simp [h1, h2] at h ⊢
          exact ih h

theorem lt_trans {a b c : Bytes} (h1 : lt a b = true) (h2 : lt b c = true) : lt a c = true := by
  induction a generalizing b c with
  | nil =>
    cases b with
    | nil => simp [lt] at h1
    | cons y ys => cases c with
      | nil => simp [lt] at h2
      | cons z zs => simp [lt]
  | cons x xs ih =>
    cases b with
    | nil => simp [lt] at h1
    | cons y ys =>
      cases c with
      | nil => simp [lt] at h2
      | cons z zs =>
        simp only [lt] at h1 h2 ⊢
        by_cases hxy : x < y
        · by_cases hyz : y < z
          · have : x < z := by omega
            simp [this]
          · by_cases hzy : z < y
            · simp [hyz, hzy] at h2
            · have : x < z := by omega
              simp [this]
        · by_cases hyx : y < x
          · simp [hxy, hyx] at h1
          · have hxy' : x = y := by omega
            subst hxy'
            by_cases hxz : x < z
            · simp [hxz]
            · by_cases hzx : z < x
              · simp [hxz, hzx] at h2
              · simp [hxy, hxz, hzx] at h1 h2 ⊢
                exact ih h1 h2

/-- Trichotomy: neither smaller ⇒ equal. -/
theorem eq_of_not_lt {a b : Bytes} (h1 : lt a b = false) (h2 : lt b a = false) : a = b := by
  induction a generalizing b with
  | nil => cases b with
    | nil => rfl
    | cons y ys => simp [lt] at h1
  | cons x xs ih =>
    cases b with
    | nil => simp [lt] at h2
    | cons y ys =>
      simp only [lt] at h1 h2
      by_cases hxy : x < y
      · simp [hxy] at h1
      · by_cases hyx : y < x
        · simp [hyx] at h2
        · simp [hxy, hyx] at h1 h2
          have : x = y := by omega
          rw [this, ih h1 h2]

theorem lt_or_eq_or_gt (a b : Bytes) : lt a b = true ∨ a = b ∨ lt b a = true := by
  cases h1 : lt a b with
  | true => exact Or.inl rfl
  | false =>
    cases h2 : lt b a with
    | true => exact Or.inr (Or.inr rfl)
    | false => exact Or.inr (Or.inl (eq_of_not_lt h1 h2))

theorem le_refl (a : Bytes) : le a a = true := by simp [le, lt_irrefl]

theorem le_of_lt {a b : Bytes} (h : lt a b = true) : le a b = true := by
  simp [le, lt_asymm h]

theorem le_iff_lt_or_eq {a b : Bytes} : le a b = true ↔ (lt a b = true ∨ a = b) := by
  constructor
  · intro h
    simp [le] at h
    rcases lt_or_eq_or_gt a b with h1 | h1 | h1
    · exact Or.inl h1
    · exact Or.inr h1
    · simp [h1] at h
  · rintro (h | h)
    · exact le_of_lt h
    · subst h; exact le_refl a

theorem lt_of_lt_of_le {a b c : Bytes} (h1 : lt a b = true) (h2 : le b c = true) : lt a c = true := by
  rcases le_iff_lt_or_eq.mp h2 with h | h
  · exact lt_trans h1 h
  · subst h; exact h1

theorem lt_of_le_of_lt {a b c : Bytes} (h1 : le a b = true) (h2 : lt b c = true) : lt a c = true := by
  rcases le_iff_lt_or_eq.mp h1 with h | h
  · exact lt_trans h h2
  · subst h; exact h2

theorem le_trans {a b c : Bytes} (h1 : le a b = true) (h2 : le b c = true) : le a c = true := by
  rcases le_iff_lt_or_eq.mp h1 with h | h
  · exact le_of_lt (lt_of_lt_of_le h h2)
  · subst h; exact h2

theorem le_total (a b : Bytes) : le a b = true ∨ le b a = true := by
  rcases lt_or_eq_or_gt a b with h | h | h
  · exact Or.inl (le_of_lt h)
  · subst h; exact Or.inl (le_refl a)
  · exact Or.inr (le_of_lt h)

theorem not_lt_iff_le {a b : Bytes} : lt a b = false ↔ le b a = true := by
  simp [le]

theorem nil_le (a : Bytes) : le [] a = true := by
  cases a <;> simp [le, lt]

theorem not_lt_nil (a : Bytes) : lt a [] = false := by
  cases a <;> simp [lt]

theorem nil_lt_iff {a : Bytes} : lt [] a = true ↔ a ≠ [] := by
  cases a <;> simp [lt]

end Bytes

/-! ### hex helpers for the line protocol (`-` encodes the empty string) -/

def hexDigit (n : Nat) : Char :=
  if n < 10 then Char.ofNat (48 + n) else Char.ofNat (87 + n)

def Bytes.toHex (b : Bytes) : String :=
  if b.isEmpty then "-" else
  String.ofList (b.foldr (fun x acc => hexDigit (x / 16 % 16) :: hexDigit (x % 16) :: acc) [])

def hexVal (c : Char) : Option Nat :=
  if '0' ≤ c ∧ c ≤ '9' then some (c.toNat - 48)
  else if 'a' ≤ c ∧ c ≤ 'f' then some (c.toNat - 87)
  else if 'A' ≤ c ∧ c ≤ 'F' then some (c.toNat - 55)
  else none

def hexGo : List Char → Option Bytes
  | [] => some []
  | [_] => none
  | a :: b :: rest => do
    let x ← hexVal a
    let y ← hexVal b
    let r ← hexGo rest
    pure ((x * 16 + y) :: r)

def Bytes.ofHex? (s : String) : Option Bytes :=
  if s == "-" then some [] else hexGo s.toList

end NoKV

/-
Small vocabulary shared by the `Cfg` records that the fact extractor fills in.
-/
namespace NoKV

/-- A comparison operator read off the Go source (`bytes.Compare(a,b) <op> 0`, `a <op> b`). -/
inductive CmpOp where
  | lt | le | gt | ge | eq | ne
  deriving DecidableEq, Repr, Inhabited

def CmpOp.eval (op : CmpOp) (lt eq : Bool) : Bool :=
  -- `lt` = "a < b", `eq` = "a = b"
  match op with
  | .lt => lt
  | .le => lt || eq
  | .gt => !(lt || eq)
  | .ge => !lt
  | .eq => eq
  | .ne => !eq

def CmpOp.ofString? : String → Option CmpOp
  | "lt" => some .lt | "le" => some .le | "gt" => some .gt | "ge" => some .ge
  | "eq" => some .eq | "ne" => some .ne | _ => none

def CmpOp.nat (op : CmpOp) (a b : Nat) : Bool := op.eval (a < b) (a == b)

def boolOfString? : String → Option Bool
  | "true" => some true | "false" => some false | _ => none

end NoKV

/-
DBIterator under the good configuration: every cursor-operation sequence yields what the
specification's cursor over the snapshot yields.
-/
import NoKVModel.Iter.StreamLemmas

namespace NoKV.Iter

/-- well-formed LSM state: every source is `compareKeys`-sorted (hence holds every internal key
at most once), SST blocks are non-empty, versions fit in 64 bits -/
structure DB.WF (db : DB) : Prop where
  mem : Sorted (dirLt false) db.mem
  imms : ∀ m ∈ db.imms, Sorted (dirLt false) m
  l0 : ∀ t ∈ db.l0, Sorted (dirLt false) t.flatten ∧ ∀ b ∈ t, b ≠ []
  ver : ∀ s ∈ db.byRecency, ∀ e ∈ s, e.ver ≤ maxU64

theorem DB.WF.allSorted {db : DB} (h : db.WF) : AllSorted (dirLt false) db.byRecency := by
  intro s hs
  simp only [DB.byRecency, List.mem_append, List.mem_cons, List.not_mem_nil, or_false, List.mem_reverse,
    List.mem_map] at hs
  rcases hs with (hs | hs) | ⟨t, ht, rfl⟩
  · rw [hs]; exact h.mem
  · exact h.imms s hs
  · exact (h.l0 t ht).1

theorem lsmSources_items (c : IterCfg) (hi : c.immOrder = .newestFirst) (db : DB) :
    (lsmSources c db).map List.flatten = db.byRecency := by
  simp [lsmSources, hi, DB.byRecency, List.map_map, Function.comp_def]

theorem lsmSources_blocks (c : IterCfg) (hi : c.immOrder = .newestFirst) (db : DB) (h : db.WF) :
    ∀ bs ∈ lsmSources c db, Sorted (dirLt false) bs.flatten ∧ ∀ b ∈ bs, b ≠ [] ∨ bs = [b] := by
  intro bs hbs
  simp only [lsmSources, hi, List.mem_append, List.mem_cons, List.not_mem_nil, or_false, List.mem_map,
    List.mem_reverse] at hbs
  rcases hbs with (hbs | ⟨m, hm, rfl⟩) | hbs
  · subst hbs
    exact ⟨by simpa using h.mem, fun b hb => Or.inr (by simp at hb; rw [hb])⟩
  · exact ⟨by simpa using h.imms m hm, fun b hb => Or.inr (by simp at hb; rw [hb])⟩
  · exact ⟨(h.l0 bs hbs).1, fun b hb => Or.inl ((h.l0 bs hbs).2 b hb)⟩

/-- forward seek of one LSM source under the repaired table seek -/
theorem blockSeek_source (t : Ent) (bs : List (List Ent)) (hs : Sorted (dirLt false) bs.flatten)
    (hb : ∀ b ∈ bs, b ≠ [] ∨ bs = [b]) : blockSeek true t bs = bs.flatten.dropWhile (fun e => ikLt e t) := by
  by_cases h1 : ∃ b, bs = [b]
  · obtain ⟨b, rfl⟩ := h1
    simp [blockSeek]
  · apply blockSeek_eq t bs hs
    intro b hbm
    rcases hb b hbm with h | h
    · exact h
    · exact absurd ⟨b, h⟩ h1

/-! ### the merged stream of a DB iterator -/

theorem db_mergedRewind (c : IterCfg) (hc : c.DbGood) (db : DB) (h : db.WF) (rev : Bool) :
    mergedRewind c rev 0 (dbSources c db) = if rev then (dbSnapshot db).reverse else dbSnapshot db := by
  obtain ⟨_, hadv, himm, _, _, _⟩ := hc
  unfold mergedRewind dbSources dbSnapshot
  rw [hadv, List.map_map]
  have hitems := lsmSources_items c himm db
  cases rev
  · have : (lsmSources c db).map ((fun s : Source => s.wrap c 0 (srcRewind false s.items)) ∘ fun s => ⟨.compareKeys, s, false⟩)
        = db.byRecency := by
      rw [← hitems]; apply List.map_congr_left; intro s _; simp [Source.wrap, srcRewind, Source.items]
    rw [this]; simpa using mergeTree_eq_snapshot _ h.allSorted
  · have : (lsmSources c db).map ((fun s : Source => s.wrap c 0 (srcRewind true s.items)) ∘ fun s => ⟨.compareKeys, s, false⟩)
        = db.byRecency.map List.reverse := by
      rw [← hitems, List.map_map]; apply List.map_congr_left; intro s _; simp [Source.wrap, srcRewind, Source.items]
    rw [this]; simpa using mergeTree_rev_eq_snapshot _ h.allSorted

theorem db_mergedSeek_fwd (c : IterCfg) (hc : c.DbGood) (db : DB) (h : db.WF) (t : Ent) :
    mergedSeek c false 0 t (dbSources c db) = (dbSnapshot db).dropWhile (fun e => ikLt e t) := by
  obtain ⟨_, hadv, himm, _, _, hft⟩ := hc
  unfold mergedSeek dbSources dbSnapshot
  rw [hadv, List.map_map]
  have hitems := lsmSources_items c himm db
  have : (lsmSources c db).map ((fun s : Source => s.wrap c 0 (s.seek c false t)) ∘ fun s => ⟨.compareKeys, s, false⟩)
      = db.byRecency.map (List.dropWhile (fun e => ikLt e t)) := by
    rw [← hitems, List.map_map]; apply List.map_congr_left; intro s hs
    have := lsmSources_blocks c himm db h s hs
    simp [Source.wrap, Source.seek, hft, blockSeek_source t s this.1 this.2]
  rw [this, mergeTree_dropWhile false (anti_ikLt_target t) _ h.allSorted, mergeTree_eq_snapshot _ h.allSorted]

theorem db_mergedSeek_rev (c : IterCfg) (hc : c.DbGood) (db : DB) (h : db.WF) (t : Ent) :
    mergedSeek c true 0 t (dbSources c db) = (dbSnapshot db).reverse.dropWhile (fun e => ikLt t e) := by
  obtain ⟨_, hadv, himm, _, _, _⟩ := hc
  unfold mergedSeek dbSources dbSnapshot
  rw [hadv, List.map_map]
  have hitems := lsmSources_items c himm db
  have : (lsmSources c db).map ((fun s : Source => s.wrap c 0 (s.seek c true t)) ∘ fun s => ⟨.compareKeys, s, false⟩)
      = (db.byRecency.map List.reverse).map (List.dropWhile (fun e => ikLt t e)) := by
    rw [← hitems, List.map_map, List.map_map]; apply List.map_congr_left; intro s _
    simp [Source.wrap, Source.seek, srcSeek, srcLt, Source.items]
  have hs' : AllSorted (dirLt true) (db.byRecency.map List.reverse) := by
    intro s hs1
    obtain ⟨u, hu, rfl⟩ := List.mem_map.mp hs1
    exact sorted_reverse false (h.allSorted u hu)
  rw [this, mergeTree_dropWhile true (anti_ikLt_target_rev t) _ hs', mergeTree_rev_eq_snapshot _ h.allSorted]

end NoKV.Iter

/-
DBIterator under the good configuration: every cursor-operation sequence yields what the
specification's cursor over the snapshot yields.
-/
import NoKVModel.Iter.ConcatLemmas

namespace NoKV.Iter

/-- well-formed LSM state: every source is `compareKeys`-sorted (hence holds every internal key
at most once), SST blocks are non-empty, the tables of the level are ascending and disjoint,
versions fit in 64 bits -/
structure DB.WF (db : DB) : Prop where
  mem : Sorted (dirLt false) db.mem
  imms : ∀ m ∈ db.imms, Sorted (dirLt false) m
  l0 : ∀ t ∈ db.l0, Sorted (dirLt false) t.flatten ∧ ∀ b ∈ t, b ≠ []
  lvl : LevelOK db.lvl
  ver : ∀ s ∈ db.byRecency, ∀ e ∈ s, e.ver ≤ maxU64

theorem DB.WF.allSorted {db : DB} (h : db.WF) : AllSorted (dirLt false) db.byRecency := by
  intro s hs
  simp only [DB.byRecency, List.mem_append, List.mem_cons, List.not_mem_nil, or_false, List.mem_reverse,
    List.mem_map] at hs
  rcases hs with ((hs | hs) | ⟨t, ht, rfl⟩) | hs
  · rw [hs]; exact h.mem
  · exact h.imms s hs
  · exact (h.l0 t ht).1
  · split at hs
    · cases hs
    · simp at hs; rw [hs]; exact h.lvl.sorted

/-- all LSM sources of an iterator: memtables and level-0 tables, then the level's concat iterator -/
def lsmAll (c : IterCfg) (db : DB) (w : Bool) : List Source :=
  (lsmSources c db).map (fun s => ⟨.compareKeys, s, w, none⟩) ++ levelSource db w

theorem lsmAll_items (c : IterCfg) (hi : c.immOrder = .newestFirst) (db : DB) (w : Bool) :
    (lsmAll c db w).map Source.items = db.byRecency := by
  unfold lsmAll levelSource
  by_cases hl : db.lvl.isEmpty = true
  · simp [lsmSources, hi, DB.byRecency, List.map_map, Function.comp_def, Source.items, hl]
  · simp [lsmSources, hi, DB.byRecency, List.map_map, Function.comp_def, Source.items, hl]

theorem lsmSources_blocks (c : IterCfg) (hi : c.immOrder = .newestFirst) (db : DB) (h : db.WF) :
    ∀ bs ∈ lsmSources c db, Sorted (dirLt false) bs.flatten ∧ ∀ b ∈ bs, b ≠ [] ∨ bs = [b] := by
  intro bs hbs
  simp only [lsmSources, hi, List.mem_append, List.mem_cons, List.not_mem_nil, or_false, List.mem_map,
    List.mem_reverse] at hbs
  rcases hbs with (hbs | ⟨m, hm, rfl⟩) | hbs
  · subst hbs
    exact ⟨by simpa using h.mem, fun b hb => Or.inr (by simp at hb; rw [hb])⟩
  · exact ⟨by simpa using h.imms m hm, fun b hb => Or.inr (by simp at hb; rw [hb])⟩
  · exact ⟨(h.l0 bs hbs).1, fun b hb => Or.inl ((h.l0 bs hbs).2 b hb)⟩

/-- forward seek of one LSM source under the repaired table seek -/
theorem blockSeek_source (t : Ent) (bs : List (List Ent)) (hs : Sorted (dirLt false) bs.flatten)
    (hb : ∀ b ∈ bs, b ≠ [] ∨ bs = [b]) : blockSeek true t bs = bs.flatten.dropWhile (fun e => ikLt e t) := by
  by_cases h1 : ∃ b, bs = [b]
  · obtain ⟨b, rfl⟩ := h1
    simp [blockSeek]
  · apply blockSeek_eq t bs hs
    intro b hbm
    rcases hb b hbm with h | h
    · exact h
    · exact absurd ⟨b, h⟩ h1

/-- every LSM source: flag, forward and reverse `Seek` as `dropWhile` of its entries -/
theorem lsmAll_seek (c : IterCfg) (hi : c.immOrder = .newestFirst) (hft : c.sstSeekFallsThrough = true)
    (hcc : c.ConcatGood) (db : DB) (h : db.WF) (w : Bool) (t : Ent) :
    ∀ s ∈ lsmAll c db w, s.wrapped = w ∧
      s.seek c false t = s.items.dropWhile (fun e => ikLt e t) ∧
      s.seek c true t = s.items.reverse.dropWhile (fun e => ikLt t e) := by
  intro s hs
  unfold lsmAll levelSource at hs
  rcases List.mem_append.mp hs with hs | hs
  · obtain ⟨bs, hbs, rfl⟩ := List.mem_map.mp hs
    have := lsmSources_blocks c hi db h bs hbs
    refine ⟨rfl, ?_, ?_⟩
    · simp [Source.seek, hft, blockSeek_source t bs this.1 this.2, Source.items]
    · simp [Source.seek, srcSeek, srcLt, Source.items]
  · split at hs
    · cases hs
    · simp at hs
      subst hs
      refine ⟨rfl, ?_, ?_⟩
      · simp [Source.seek, Source.items, concatSeek_fwd c hcc hft t db.lvl h.lvl]
      · simp [Source.seek, Source.items, concatSeek_rev c hcc t db.lvl h.lvl]

theorem dbSources_eq (c : IterCfg) (db : DB) : dbSources c db = lsmAll c db false := rfl

/-! ### merged streams over the LSM sources -/

def wrapF (c : IterCfg) (readTs : Nat) (w : Bool) (l : List Ent) : List Ent :=
  if w then l.filter (fun e => !c.wrapReadTsOp.nat e.ver readTs) else l

theorem lsm_mergedRewind (c : IterCfg) (hi : c.immOrder = .newestFirst) (hft : c.sstSeekFallsThrough = true)
    (hcc : c.ConcatGood) (db : DB) (h : db.WF) (w : Bool) (rts : Nat) (rev : Bool) :
    mergedRewind c rev rts (lsmAll c db w) =
      mergeTree c.eqKeyAdvances rev (db.byRecency.map fun l => wrapF c rts w (if rev then l.reverse else l)) := by
  unfold mergedRewind
  rw [← lsmAll_items c hi db w, List.map_map]
  congr 1
  apply List.map_congr_left
  intro s hs
  have := (lsmAll_seek c hi hft hcc db h w ⟨[], 0, [], false, false⟩ s hs).1
  simp [Source.wrap, wrapF, srcRewind, this]

theorem lsm_mergedSeek (c : IterCfg) (hi : c.immOrder = .newestFirst) (hft : c.sstSeekFallsThrough = true)
    (hcc : c.ConcatGood) (db : DB) (h : db.WF) (w : Bool) (rts : Nat) (rev : Bool) (t : Ent) :
    mergedSeek c rev rts t (lsmAll c db w) =
      mergeTree c.eqKeyAdvances rev (db.byRecency.map fun l => wrapF c rts w
        (if rev then l.reverse.dropWhile (fun e => ikLt t e) else l.dropWhile (fun e => ikLt e t))) := by
  unfold mergedSeek
  rw [← lsmAll_items c hi db w, List.map_map]
  congr 1
  apply List.map_congr_left
  intro s hs
  have := lsmAll_seek c hi hft hcc db h w t s hs
  cases rev <;> simp [Source.wrap, wrapF, this.1, this.2.1, this.2.2]

/-! ### the merged stream of a DB iterator -/

theorem db_mergedRewind (c : IterCfg) (hc : c.DbGood) (db : DB) (h : db.WF) (rev : Bool) :
    mergedRewind c rev 0 (dbSources c db) = if rev then (dbSnapshot db).reverse else dbSnapshot db := by
  obtain ⟨_, hadv, himm, _, _, hft, hcc⟩ := hc
  rw [dbSources_eq, lsm_mergedRewind c himm hft hcc db h, hadv]
  unfold dbSnapshot
  cases rev
  · simpa [wrapF] using mergeTree_eq_snapshot _ h.allSorted
  · simpa [wrapF] using mergeTree_rev_eq_snapshot _ h.allSorted

theorem db_mergedSeek_fwd (c : IterCfg) (hc : c.DbGood) (db : DB) (h : db.WF) (t : Ent) :
    mergedSeek c false 0 t (dbSources c db) = (dbSnapshot db).dropWhile (fun e => ikLt e t) := by
  obtain ⟨_, hadv, himm, _, _, hft, hcc⟩ := hc
  rw [dbSources_eq, lsm_mergedSeek c himm hft hcc db h, hadv]
  unfold dbSnapshot
  have := mergeTree_dropWhile false (anti_ikLt_target t) _ h.allSorted
  rw [mergeTree_eq_snapshot _ h.allSorted] at this
  simpa [wrapF] using this

theorem db_mergedSeek_rev (c : IterCfg) (hc : c.DbGood) (db : DB) (h : db.WF) (t : Ent) :
    mergedSeek c true 0 t (dbSources c db) = (dbSnapshot db).reverse.dropWhile (fun e => ikLt t e) := by
  obtain ⟨_, hadv, himm, _, _, hft, hcc⟩ := hc
  rw [dbSources_eq, lsm_mergedSeek c himm hft hcc db h, hadv]
  unfold dbSnapshot
  have hs' : AllSorted (dirLt true) (db.byRecency.map List.reverse) := by
    intro s hs1
    obtain ⟨u, hu, rfl⟩ := List.mem_map.mp hs1
    exact sorted_reverse false (h.allSorted u hu)
  have := mergeTree_dropWhile true (anti_ikLt_target_rev t) _ hs'
  rw [mergeTree_rev_eq_snapshot _ h.allSorted, List.map_map] at this
  simpa [wrapF, Function.comp_def] using this

end NoKV.Iter

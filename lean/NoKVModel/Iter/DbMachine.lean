/-
The DBIterator cursor machine against the specification's cursor.
-/
import NoKVModel.Iter.DbLemmas

namespace NoKV.Iter

def belowD (lower : Bytes) (e : Ent) : Bool := decide (lower ≠ []) && Bytes.lt e.key lower
def aboveD (upper : Bytes) (e : Ent) : Bool := decide (upper ≠ []) && !Bytes.lt e.key upper

def stopD (asc : Bool) (lower upper : Bytes) (e : Ent) : Bool :=
  if asc then !belowD lower e && aboveD upper e else belowD lower e
def skipD (asc : Bool) (lower upper : Bytes) (e : Ent) : Bool :=
  if asc then belowD lower e || e.dead else (!belowD lower e && aboveD upper e) || e.dead

/-- what the specification keeps: inside the bounds and live -/
def keepD (lower upper : Bytes) (e : Ent) : Bool := inBounds lower upper e.key && !e.dead

theorem keepP_D (asc : Bool) (lower upper : Bytes) : keepP (stopD asc lower upper) (skipD asc lower upper) = keepD lower upper := by
  funext e
  simp only [keepP, stopD, skipD, keepD, inBounds, belowD, aboveD, Bytes.le]
  cases asc <;> by_cases hl : lower = [] <;> by_cases hu : upper = [] <;>
    by_cases h1 : Bytes.lt e.key lower = true <;> by_cases h2 : Bytes.lt e.key upper = true <;>
    by_cases h3 : e.dead = true <;> simp_all

theorem populate_eq_scan (c : IterCfg) (hc : c.DbGood) (asc : Bool) (lower upper : Bytes) :
    ∀ l, populate c asc lower upper l = scan (stopD asc lower upper) (skipD asc lower upper) l := by
  obtain ⟨hops, _, _, _, hdel, _⟩ := hc
  obtain ⟨_, _, _, _, _, _, _, hlo, hup, _, _⟩ := hops
  intro l
  induction l with
  | nil => rfl
  | cons e rest ih =>
    simp only [populate, scan, hlo, hup, hdel, bcmp, CmpOp.eval, stopD, skipD, belowD, aboveD, Ent.dead, ih]
    cases asc <;> by_cases hl : lower = [] <;> by_cases hu : upper = [] <;>
      by_cases h1 : Bytes.lt e.key lower = true <;> by_cases h2 : Bytes.lt e.key upper = true <;>
      by_cases h3 : e.del = true <;> by_cases h4 : e.exp = true <;> simp_all

theorem specDbList_eq (snap : List Ent) (asc : Bool) (lower upper : Bytes) :
    specDbList snap asc lower upper =
      if asc then snap.filter (keepD lower upper) else (snap.filter (keepD lower upper)).reverse := by
  simp only [specDbList, List.filter_filter]
  have : (fun a : Ent => (!a.dead && inBounds lower upper a.key)) = keepD lower upper := by
    funext a; exact Bool.and_comm _ _
  rw [this]

theorem stop_hyp (asc : Bool) (lower upper : Bytes) : ∀ a b, dirLt (!asc) a b = true → stopD asc lower upper a = true →
    keepP (stopD asc lower upper) (skipD asc lower upper) b = false := by
  intro a b hab hst
  rw [keepP_D]
  cases asc
  · -- descending: `a` below the lower bound, `b` comes later (smaller key)
    simp only [Bool.not_false, dirLt, if_true] at hab
    simp only [stopD, Bool.false_eq_true, if_false, belowD, Bool.and_eq_true, decide_eq_true_eq] at hst
    have hk := key_le_of_ikLt hab
    have : Bytes.lt b.key lower = true := Bytes.lt_of_le_of_lt (by simpa [Bytes.le] using hk) hst.2
    simp [keepD, inBounds, hst.1, Bytes.le, this]
  · simp only [Bool.not_true, dirLt, Bool.false_eq_true, if_false] at hab
    simp only [stopD, if_true, belowD, aboveD, Bool.and_eq_true, Bool.not_eq_true', decide_eq_true_eq] at hst
    have hk := key_le_of_ikLt hab
    have : Bytes.lt b.key upper = false := by
      cases h : Bytes.lt b.key upper with
      | false => rfl
      | true =>
        have := Bytes.lt_of_le_of_lt (show Bytes.le a.key b.key = true by simpa [Bytes.le] using hk) h
        rw [hst.2.2] at this; cases this
    simp [keepD, inBounds, hst.2.1, this]

/-- relation between the model iterator and the specification's cursor position -/
def DbInv (it : DbIt) (cur : List Ent) : Prop :=
  it.cur = cur.head? ∧
  (if it.seekOOR then cur = [] else
    (Sorted (dirLt (!it.asc)) it.stream ∧ it.stream.tail.filter (keepD it.lower it.upper) = cur.tail))

theorem dbInv_pop (c : IterCfg) (hc : c.DbGood) (it : DbIt) (l : List Ent) (hs : Sorted (dirLt (!it.asc)) l) :
    DbInv ({ it with seekOOR := false }.pop c l) (l.filter (keepD it.lower it.upper)) := by
  unfold DbInv DbIt.pop
  simp only [populate_eq_scan c hc, Bool.false_eq_true, if_false]
  have := scan_spec (stopD it.asc it.lower it.upper) (skipD it.asc it.lower it.upper) (stop_hyp it.asc it.lower it.upper) l hs
  rw [keepP_D] at this
  exact ⟨this.1, this.2.1, this.2.2.2⟩

end NoKV.Iter

/-
Generic facts about scanning a sorted stream: `dropWhile` of a monotone predicate, the
"skip / stop / yield" loop shared by `DBIterator.populate` and `TxnIterator.advance`
(all-versions mode), positioned merges.
-/
import NoKVModel.Iter.SnapshotLemmas

namespace NoKV.Iter

/-- `p` holds on an initial segment of every `lt`-sorted list -/
structure Antitone (lt : Ent → Ent → Bool) (p : Ent → Bool) : Prop where
  anti : ∀ a b, lt a b = true → p b = true → p a = true
  congr : ∀ a b, ikEq a b = true → p a = p b

theorem mem_dropWhile_sorted {lt} {p : Ent → Bool} (hp : Antitone lt p) :
    ∀ (l : List Ent), Sorted lt l → ∀ e, e ∈ l.dropWhile p ↔ (e ∈ l ∧ p e = false)
  | [], _, e => by simp
  | x :: r, hs, e => by
    by_cases hx : p x = true
    · rw [List.dropWhile_cons_of_pos hx, mem_dropWhile_sorted hp r hs.tail]
      constructor
      · rintro ⟨h1, h2⟩; exact ⟨List.mem_cons_of_mem _ h1, h2⟩
      · rintro ⟨h1, h2⟩
        rcases List.mem_cons.mp h1 with h1 | h1
        · rw [h1, hx] at h2; cases h2
        · exact ⟨h1, h2⟩
    · rw [List.dropWhile_cons_of_neg hx]
      constructor
      · intro h
        refine ⟨h, ?_⟩
        rcases List.mem_cons.mp h with h | h
        · rw [h]; simpa using hx
        · cases hpe : p e with
          | false => rfl
          | true => exact absurd (hp.anti x e (hs.head_lt e h) hpe) hx
      · exact fun h => h.1

theorem sorted_dropWhile {lt} (p : Ent → Bool) (l : List Ent) (hs : Sorted lt l) : Sorted lt (l.dropWhile p) :=
  List.Pairwise.sublist (List.dropWhile_sublist p) hs

theorem sorted_filter {lt} (p : Ent → Bool) (l : List Ent) (hs : Sorted lt l) : Sorted lt (l.filter p) :=
  List.Pairwise.sublist List.filter_sublist hs

/-- on a sorted list, filtering commutes with dropping an initial segment -/
theorem filter_dropWhile_comm {lt} (ok : OrdOK lt) {p : Ent → Bool} (hp : Antitone lt p) (q : Ent → Bool)
    (l : List Ent) (hs : Sorted lt l) : (l.dropWhile p).filter q = (l.filter q).dropWhile p := by
  apply sorted_ext ok (sorted_filter q _ (sorted_dropWhile p l hs)) (sorted_dropWhile p _ (sorted_filter q l hs))
  intro e
  rw [List.mem_filter, mem_dropWhile_sorted hp l hs, mem_dropWhile_sorted hp _ (sorted_filter q l hs), List.mem_filter]
  constructor
  · rintro ⟨⟨h1, h2⟩, h3⟩; exact ⟨⟨h1, h3⟩, h2⟩
  · rintro ⟨⟨h1, h3⟩, h2⟩; exact ⟨⟨h1, h2⟩, h3⟩

/-! ### positioned merges -/

theorem noKey_dropWhile {lt} {p : Ent → Bool} (hp : Antitone lt p) (s : List Ent) (hs : Sorted lt s) (e : Ent)
    (he : p e = false) : NoKey (s.dropWhile p) e ↔ NoKey s e := by
  constructor
  · intro h x hx
    cases hxe : ikEq x e with
    | false => rfl
    | true =>
      have hpx : p x = false := by rw [hp.congr x e hxe]; exact he
      have := h x ((mem_dropWhile_sorted hp s hs x).mpr ⟨hx, hpx⟩)
      rw [hxe] at this; cases this
  · intro h x hx
    exact h x ((mem_dropWhile_sorted hp s hs x).mp hx).1

theorem firstWins_dropWhile {lt} {p : Ent → Bool} (hp : Antitone lt p) (l : List (List Ent)) (hs : AllSorted lt l)
    (e : Ent) : FirstWins (l.map (List.dropWhile p)) e ↔ (FirstWins l e ∧ p e = false) := by
  induction l with
  | nil => simp [FirstWins]
  | cons s r ih =>
    have hr : AllSorted lt r := fun t ht => hs t (List.mem_cons_of_mem _ ht)
    have hss := hs s (by simp)
    simp only [List.map_cons, FirstWins, ih hr, mem_dropWhile_sorted hp s hss]
    constructor
    · rintro (⟨h1, h2⟩ | ⟨h1, h2, h3⟩)
      · exact ⟨Or.inl h1, h2⟩
      · exact ⟨Or.inr ⟨(noKey_dropWhile hp s hss e h3).mp h1, h2⟩, h3⟩
    · rintro ⟨h1 | ⟨h1, h2⟩, h3⟩
      · exact Or.inl ⟨h1, h3⟩
      · exact Or.inr ⟨(noKey_dropWhile hp s hss e h3).mpr h1, h2, h3⟩

theorem allSorted_map_dropWhile {lt} (p : Ent → Bool) (l : List (List Ent)) (hs : AllSorted lt l) :
    AllSorted lt (l.map (List.dropWhile p)) := by
  intro s hs1
  obtain ⟨t, ht, rfl⟩ := List.mem_map.mp hs1
  exact sorted_dropWhile p t (hs t ht)

/-- seeking every child and merging = merging and seeking -/
theorem mergeTree_dropWhile (rev : Bool) {p : Ent → Bool} (hp : Antitone (dirLt rev) p) (l : List (List Ent))
    (hs : AllSorted (dirLt rev) l) :
    mergeTree .right rev (l.map (List.dropWhile p)) = (mergeTree .right rev l).dropWhile p := by
  have hs' := allSorted_map_dropWhile p l hs
  apply sorted_ext (ordOK_dir rev) (mergeTree_sorted rev _ hs') (sorted_dropWhile p _ (mergeTree_sorted rev l hs))
  intro e
  rw [mem_mergeTree rev _ hs', firstWins_dropWhile hp l hs, mem_dropWhile_sorted hp _ (mergeTree_sorted rev l hs),
    mem_mergeTree rev l hs]

/-- filtering every child by a predicate of the internal key and merging = merging and filtering -/
theorem firstWins_filter (q : Ent → Bool) (hq : ∀ a b, ikEq a b = true → q a = q b) (l : List (List Ent)) (e : Ent) :
    FirstWins (l.map (List.filter q)) e ↔ (FirstWins l e ∧ q e = true) := by
  induction l with
  | nil => simp [FirstWins]
  | cons s r ih =>
    simp only [List.map_cons, FirstWins, ih, List.mem_filter]
    have hnk : q e = true → (NoKey (s.filter q) e ↔ NoKey s e) := by
      intro he
      constructor
      · intro h x hx
        cases hxe : ikEq x e with
        | false => rfl
        | true =>
          have := h x (List.mem_filter.mpr ⟨hx, by rw [hq x e hxe]; exact he⟩)
          rw [hxe] at this; cases this
      · intro h x hx; exact h x (List.mem_filter.mp hx).1
    constructor
    · rintro (⟨h1, h2⟩ | ⟨h1, h2, h3⟩)
      · exact ⟨Or.inl h1, h2⟩
      · exact ⟨Or.inr ⟨(hnk h3).mp h1, h2⟩, h3⟩
    · rintro ⟨h1 | ⟨h1, h2⟩, h3⟩
      · exact Or.inl ⟨h1, h3⟩
      · exact Or.inr ⟨(hnk h3).mpr h1, h2, h3⟩

theorem mergeTree_filter (rev : Bool) (q : Ent → Bool) (hq : ∀ a b, ikEq a b = true → q a = q b) (l : List (List Ent))
    (hs : AllSorted (dirLt rev) l) :
    mergeTree .right rev (l.map (List.filter q)) = (mergeTree .right rev l).filter q := by
  have hs' : AllSorted (dirLt rev) (l.map (List.filter q)) := by
    intro s hs1
    obtain ⟨t, ht, rfl⟩ := List.mem_map.mp hs1
    exact sorted_filter q t (hs t ht)
  apply sorted_ext (ordOK_dir rev) (mergeTree_sorted rev _ hs') (sorted_filter q _ (mergeTree_sorted rev l hs))
  intro e
  rw [mem_mergeTree rev _ hs', firstWins_filter q hq, List.mem_filter, mem_mergeTree rev l hs]

/-! ### the skip / stop / yield loop -/

/-- `stopP e`: the loop returns invalid without moving; `skipP e`: the entry is passed over -/
def scan (stopP skipP : Ent → Bool) : List Ent → Option Ent × List Ent
  | [] => (none, [])
  | e :: rest => if stopP e then (none, e :: rest) else if skipP e then scan stopP skipP rest else (some e, e :: rest)

def keepP (stopP skipP : Ent → Bool) (e : Ent) : Bool := !stopP e && !skipP e

theorem scan_spec {lt} (stopP skipP : Ent → Bool)
    (hstop : ∀ a b, lt a b = true → stopP a = true → keepP stopP skipP b = false) :
    ∀ (l : List Ent), Sorted lt l →
      (scan stopP skipP l).1 = (l.filter (keepP stopP skipP)).head? ∧
      Sorted lt (scan stopP skipP l).2 ∧
      (scan stopP skipP l).2.filter (keepP stopP skipP) = l.filter (keepP stopP skipP) ∧
      (scan stopP skipP l).2.tail.filter (keepP stopP skipP) = (l.filter (keepP stopP skipP)).tail
  | [], _ => by simp [scan, Sorted]
  | e :: rest, hs => by
    by_cases h1 : stopP e = true
    · have hnone : (e :: rest).filter (keepP stopP skipP) = [] := by
        rw [List.filter_eq_nil_iff]
        intro x hx
        rcases List.mem_cons.mp hx with hx | hx
        · rw [hx]; simp [keepP, h1]
        · have := hstop e x (hs.head_lt x hx) h1
          simp [this]
      have hrest : rest.filter (keepP stopP skipP) = [] := by
        rw [List.filter_eq_nil_iff] at *
        intro x hx; exact hnone x (List.mem_cons_of_mem _ hx)
      simp only [scan, h1, if_true, hnone, List.head?_nil, List.tail_cons, hrest, List.tail_nil, and_true, true_and]
      exact hs
    · have h1' : stopP e = false := by cases h : stopP e <;> simp_all
      by_cases h2 : skipP e = true
      · have ih := scan_spec stopP skipP hstop rest hs.tail
        have hk : keepP stopP skipP e = false := by simp [keepP, h2]
        simp only [scan, h1', Bool.false_eq_true, if_false, h2, if_true, List.filter_cons, hk]
        exact ih
      · have h2' : skipP e = false := by cases h : skipP e <;> simp_all
        have hk : keepP stopP skipP e = true := by simp [keepP, h1', h2']
        simp only [scan, h1', h2', Bool.false_eq_true, if_false, List.filter_cons, hk, if_true, List.head?_cons,
          List.tail_cons, and_true, true_and]
        exact hs

end NoKV.Iter

/-
`ConcatIterator` over the disjoint, ascending tables of a level: `Seek` picks a table and seeks
inside it; with the table-selection rules as written (`MaxKey >= key` forward, `MinKey <= key`
reverse) this is the `dropWhile` of the concatenation.
-/
import NoKVModel.Iter.StreamLemmas

namespace NoKV.Iter

theorem dropWhile_append_nonempty {p : Ent → Bool} (X : List Ent) : ∀ (b : List Ent), b.dropWhile p ≠ [] →
    (b ++ X).dropWhile p = b.dropWhile p ++ X
  | [], h => absurd rfl h
  | x :: r, h => by
    cases hp : p x with
    | true =>
      rw [List.dropWhile_cons_of_pos hp] at h
      rw [List.cons_append, List.dropWhile_cons_of_pos hp, List.dropWhile_cons_of_pos hp]
      exact dropWhile_append_nonempty X r h
    | false =>
      rw [List.cons_append, List.dropWhile_cons_of_neg (by simp [hp]), List.dropWhile_cons_of_neg (by simp [hp])]
      rfl

theorem dropWhile_ne_nil_of_mem {p : Ent → Bool} : ∀ (l : List Ent) (e : Ent), e ∈ l → p e = false → l.dropWhile p ≠ []
  | x :: r, e, he, hpe => by
    cases hp : p x with
    | true =>
      rw [List.dropWhile_cons_of_pos hp]
      rcases List.mem_cons.mp he with h | h
      · rw [h, hp] at hpe; cases hpe
      · exact dropWhile_ne_nil_of_mem r e h hpe
    | false => rw [List.dropWhile_cons_of_neg (by simp [hp])]; simp

/-- all members of a sorted list whose last element satisfies an antitone `p` satisfy it -/
theorem all_of_last {lt} {p : Ent → Bool} (hp : Antitone lt p) (l : List Ent) (hs : Sorted lt l) (m : Ent)
    (hm : l.getLast? = some m) (hpm : p m = true) : ∀ e ∈ l, p e = true := by
  intro e he
  obtain ⟨ys, hl⟩ := List.getLast?_eq_some_iff.mp hm
  rw [hl] at he hs
  rcases List.mem_append.mp he with h | h
  · exact hp.anti e m ((List.pairwise_append.mp hs).2.2 e h m (by simp)) hpm
  · simp at h; rw [h]; exact hpm

theorem concatPick_eq {α : Type} {lt} (items : α → List Ent) (hit : α → Bool) (inner : α → List Ent)
    {p : Ent → Bool} (hp : Antitone lt p) :
    ∀ (ts : List α), Sorted lt (ts.map items).flatten →
      (∀ T ∈ ts, inner T = (items T).dropWhile p ∧ ∃ m, (items T).getLast? = some m ∧ hit T = !p m) →
      concatPick items hit inner ts = (ts.map items).flatten.dropWhile p
  | [], _, _ => rfl
  | T :: rest, hs, h => by
    obtain ⟨hin, m, hm, hhit⟩ := h T (by simp)
    have hsT : Sorted lt (items T) := by
      rw [List.map_cons, List.flatten_cons] at hs
      exact List.Pairwise.sublist (List.sublist_append_left _ _) hs
    have hsR : Sorted lt (rest.map items).flatten := by
      rw [List.map_cons, List.flatten_cons] at hs
      exact List.Pairwise.sublist (List.sublist_append_right _ _) hs
    have hmem : m ∈ items T := List.mem_of_getLast? hm
    rw [List.map_cons, List.flatten_cons]
    simp only [concatPick]
    cases hpm : p m with
    | false =>
      have hne : (items T).dropWhile p ≠ [] := dropWhile_ne_nil_of_mem _ m hmem hpm
      have hh : hit T = true := by rw [hhit, hpm]; rfl
      rw [if_pos hh, hin, dropWhile_append_nonempty _ _ hne]
      have : ((items T).dropWhile p).isEmpty = false := by
        cases hd : (items T).dropWhile p with
        | nil => exact absurd hd hne
        | cons _ _ => rfl
      simp [this]
    | true =>
      have hh : hit T = false := by rw [hhit, hpm]; rfl
      rw [hh]
      simp only [Bool.false_eq_true, if_false]
      rw [dropWhile_append_all _ _ (all_of_last hp _ hsT m hm hpm)]
      exact concatPick_eq items hit inner hp rest hsR (fun U hU => h U (List.mem_cons_of_mem _ hU))

/-- shape of a level: ascending disjoint tables, each non-empty with non-empty blocks -/
structure LevelOK (ts : List (List (List Ent))) : Prop where
  sorted : Sorted (dirLt false) ts.flatten.flatten
  nonempty : ∀ T ∈ ts, T.flatten ≠ [] ∧ ∀ b ∈ T, b ≠ []

theorem icmp_ge (m t : Ent) : icmp .ge m t = !ikLt m t := by simp [icmp, CmpOp.eval]

theorem icmp_le (m t : Ent) : icmp .le m t = !ikLt t m := by
  simp only [icmp, CmpOp.eval]
  rcases ikLt_tri m t with h | h | h
  · simp [h, ikLt_asymm h]
  · simp [h, ikLt_irrefl' m t h, ikLt_irrefl' t m (ikEq_symm h)]
  · simp [h, ikLt_asymm h, (ordOK_dir false).not_eq_of_gt (by simpa [dirLt] using h)]

theorem concatSeek_fwd (c : IterCfg) (hc : c.ConcatGood) (hft : c.sstSeekFallsThrough = true) (t : Ent)
    (ts : List (List (List Ent))) (h : LevelOK ts) :
    concatSeek c false t ts = ts.flatten.flatten.dropWhile (fun e => ikLt e t) := by
  unfold concatSeek
  simp only [Bool.false_eq_true, if_false, hc.1, hft]
  have := concatPick_eq (lt := dirLt false) List.flatten
    (hitFwd .ge t)
    (fun T => blockSeek true t T) (anti_ikLt_target t) ts (by rw [← List.flatten_flatten]; exact h.sorted)
    (by
      intro T hT
      have hTs : Sorted (dirLt false) T.flatten := by
        have := h.sorted
        obtain ⟨a, b, rfl⟩ := List.append_of_mem hT
        simp only [List.flatten_append, List.flatten_cons] at this
        exact List.Pairwise.sublist (List.sublist_append_left _ _)
          (List.Pairwise.sublist (List.sublist_append_right _ _) this)
      refine ⟨blockSeek_eq t T hTs (h.nonempty T hT).2, ?_⟩
      cases hl : T.flatten.getLast? with
      | none => exact absurd (List.getLast?_eq_none_iff.mp hl) (h.nonempty T hT).1
      | some m => exact ⟨m, rfl, by simp [hitFwd, hl, icmp_ge]⟩)
  rw [this, ← List.flatten_flatten]

theorem concatSeek_rev (c : IterCfg) (hc : c.ConcatGood) (t : Ent)
    (ts : List (List (List Ent))) (h : LevelOK ts) :
    concatSeek c true t ts = ts.flatten.flatten.reverse.dropWhile (fun e => ikLt t e) := by
  unfold concatSeek
  simp only [if_true, hc.2]
  have hflat : (ts.reverse.map fun T : List (List Ent) => T.flatten.reverse).flatten = ts.flatten.flatten.reverse := by
    induction ts with
    | nil => rfl
    | cons T r ih =>
      have hr : LevelOK r := ⟨by
        have := h.sorted
        simp only [List.flatten_cons, List.flatten_append] at this
        exact List.Pairwise.sublist (List.sublist_append_right _ _) this,
        fun U hU => h.nonempty U (List.mem_cons_of_mem _ hU)⟩
      simp only [List.reverse_cons, List.map_append, List.flatten_append, ih hr, List.flatten_cons, List.map_cons,
        List.map_nil, List.flatten_nil, List.append_nil, List.reverse_append]
  have := concatPick_eq (lt := dirLt true) (fun T : List (List Ent) => T.flatten.reverse)
    (hitRev .le t)
    (fun T => T.flatten.reverse.dropWhile (fun e => ikLt t e)) (anti_ikLt_target_rev t) ts.reverse
    (by rw [hflat]; exact sorted_reverse false h.sorted)
    (by
      intro T hT
      have hT' : T ∈ ts := List.mem_reverse.mp hT
      refine ⟨rfl, ?_⟩
      cases hl : T.flatten.head? with
      | none => exact absurd (List.head?_eq_none_iff.mp hl) (h.nonempty T hT').1
      | some m => exact ⟨m, by simp [List.getLast?_reverse, hl], by simp [hitRev, hl, icmp_le]⟩)
  rw [this, hflat]

end NoKV.Iter

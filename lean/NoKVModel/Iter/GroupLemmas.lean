/-
The yield loops of `TxnIterator.advance`, abstracted from the configuration: `B`/`A` = the entry
is below the lower / above the upper bound, `F` = filtered out (read ts, since-ts, prefix).

`advF` = `advanceLit` (skip / stop / `lastKey` dedup), `advR` = `advanceRN` (reverse, newest
version of each group).  `gF` / `gR` list everything the loop will yield from a position; the
machine lemmas relate one `advance` call to them, the membership lemmas characterise them on
sorted streams.
-/
import NoKVModel.Iter.StreamLemmas

namespace NoKV.Iter

section
variable (B A F : Ent → Bool)

/-! ### forward loop / all-versions loop -/

def advF (rev all setLk : Bool) : Bytes → List Ent → Option Ent × Bytes × List Ent
  | lk, [] => (none, lk, [])
  | lk, e :: rest =>
    if B e then (if rev then (none, lk, e :: rest) else advF rev all setLk lk rest)
    else if A e then (if !rev then (none, lk, e :: rest) else advF rev all setLk lk rest)
    else if F e then advF rev all setLk lk rest
    else if !all && decide (lk ≠ []) && decide (lk = e.key) then advF rev all setLk lk rest
    else if e.dead then advF rev all setLk (if setLk then e.key else lk) rest
    else (some e, e.key, e :: rest)

/-- everything `advF` will yield from here on -/
def gF (rev all setLk : Bool) : Bytes → List Ent → List Ent
  | _, [] => []
  | lk, e :: rest =>
    if B e then (if rev then [] else gF rev all setLk lk rest)
    else if A e then (if !rev then [] else gF rev all setLk lk rest)
    else if F e then gF rev all setLk lk rest
    else if !all && decide (lk ≠ []) && decide (lk = e.key) then gF rev all setLk lk rest
    else if e.dead then gF rev all setLk (if setLk then e.key else lk) rest
    else e :: gF rev all setLk e.key rest

def passP (e : Ent) : Bool := !B e && !A e && !F e

theorem gF_nil_of_out (rev all setLk : Bool) : ∀ (l : List Ent) (lk : Bytes),
    (∀ x ∈ l, B x = true ∨ A x = true) → gF B A F rev all setLk lk l = []
  | [], _, _ => rfl
  | e :: rest, lk, h => by
    have ih := fun lk => gF_nil_of_out rev all setLk rest lk (fun x hx => h x (List.mem_cons_of_mem _ hx))
    simp only [gF]
    rcases h e (by simp) with hb | ha
    · simp [hb, ih]
    · by_cases hb : B e = true
      · simp [hb, ih]
      · simp [hb, ha, ih]

theorem gF_sublist (rev all setLk : Bool) : ∀ (l : List Ent) (lk : Bytes), (gF B A F rev all setLk lk l).Sublist l
  | [], _ => by simp [gF]
  | e :: rest, lk => by
    have ih := fun lk => gF_sublist rev all setLk rest lk
    simp only [gF]
    split
    · split
      · exact List.nil_sublist _
      · exact (ih _).trans (List.sublist_cons_self _ _)
    · split
      · split
        · exact List.nil_sublist _
        · exact (ih _).trans (List.sublist_cons_self _ _)
      · split
        · exact (ih _).trans (List.sublist_cons_self _ _)
        · split
          · exact (ih _).trans (List.sublist_cons_self _ _)
          · split
            · exact (ih _).trans (List.sublist_cons_self _ _)
            · exact (ih _).cons_cons _

/-- `stopped a`: the loop returns at `a` without moving -/
def stoppedF (rev : Bool) (a : Ent) : Bool := if rev then B a else (!B a && A a)

/-- one `advF` call: the item it lands on is the head of `gF`, and what remains after moving past
it is the tail -/
theorem advF_gF (rev all setLk : Bool)
    (hout : ∀ a b, dirLt rev a b = true → stoppedF B A rev a = true → (B b = true ∨ A b = true)) :
    ∀ (l : List Ent) (lk : Bytes), Sorted (dirLt rev) l →
      (advF B A F rev all setLk lk l).1 = (gF B A F rev all setLk lk l).head? ∧
      gF B A F rev all setLk (advF B A F rev all setLk lk l).2.1 (advF B A F rev all setLk lk l).2.2.tail =
        (gF B A F rev all setLk lk l).tail ∧
      Sorted (dirLt rev) (advF B A F rev all setLk lk l).2.2
  | [], lk, _ => by simp [advF, gF, Sorted]
  | e :: rest, lk, hs => by
    have ih := fun lk => advF_gF rev all setLk hout rest lk hs.tail
    have hstop : stoppedF B A rev e = true → gF B A F rev all setLk lk rest = [] := fun hst =>
      gF_nil_of_out B A F rev all setLk rest lk (fun x hx => hout e x (hs.head_lt x hx) hst)
    simp only [advF, gF]
    by_cases hb : B e = true
    · simp only [hb, if_true]
      cases rev with
      | true => simp only [if_true, List.head?_nil, List.tail_cons, List.tail_nil, true_and]
                exact ⟨hstop (by simp [stoppedF, hb]), hs⟩
      | false => simpa using ih lk
    · have hb' : B e = false := by cases h : B e <;> simp_all
      simp only [hb', Bool.false_eq_true, if_false]
      by_cases ha : A e = true
      · simp only [ha, if_true]
        cases rev with
        | false => simp only [Bool.not_false, if_true, List.head?_nil, List.tail_cons, List.tail_nil, true_and]
                   exact ⟨hstop (by simp [stoppedF, hb', ha]), hs⟩
        | true => simpa using ih lk
      · have ha' : A e = false := by cases h : A e <;> simp_all
        simp only [ha', Bool.false_eq_true, if_false]
        by_cases hf : F e = true
        · simp only [hf, if_true]; exact ih lk
        · have hf' : F e = false := by cases h : F e <;> simp_all
          simp only [hf', Bool.false_eq_true, if_false]
          split
          · exact ih lk
          · split
            · exact ih _
            · simp only [List.head?_cons, List.tail_cons, true_and]
              exact hs

/-! membership on sorted streams -/

theorem mem_gF_all (rev setLk : Bool)
    (hout : ∀ a b, dirLt rev a b = true → stoppedF B A rev a = true → (B b = true ∨ A b = true)) (x : Ent) :
    ∀ (l : List Ent) (lk : Bytes), Sorted (dirLt rev) l →
      (x ∈ gF B A F rev true setLk lk l ↔ (x ∈ l ∧ passP B A F x = true ∧ x.dead = false))
  | [], _, _ => by simp [gF]
  | e :: rest, lk, hs => by
    have ih := fun lk => mem_gF_all rev setLk hout x rest lk hs.tail
    have hnone : stoppedF B A rev e = true → ¬ (x ∈ e :: rest ∧ passP B A F x = true ∧ x.dead = false) := by
      rintro hst ⟨hx, hp, _⟩
      simp only [passP, Bool.and_eq_true, Bool.not_eq_true'] at hp
      rcases List.mem_cons.mp hx with h | h
      · subst h
        cases rev <;> simp [stoppedF] at hst <;> simp_all
      · rcases hout e x (hs.head_lt x h) hst with h1 | h1 <;> simp_all
    have hskip : passP B A F e = false → ((x ∈ rest ∧ passP B A F x = true ∧ x.dead = false) ↔
        (x ∈ e :: rest ∧ passP B A F x = true ∧ x.dead = false)) := by
      intro hp
      constructor
      · rintro ⟨h1, h2, h3⟩; exact ⟨List.mem_cons_of_mem _ h1, h2, h3⟩
      · rintro ⟨h1, h2, h3⟩
        rcases List.mem_cons.mp h1 with h | h
        · subst h; rw [hp] at h2; cases h2
        · exact ⟨h, h2, h3⟩
    simp only [gF]
    by_cases hb : B e = true
    · simp only [hb, if_true]
      cases rev with
      | true =>
        simp only [if_true, List.not_mem_nil, false_iff]
        exact hnone (by simp [stoppedF, hb])
      | false =>
        simp only [Bool.false_eq_true, if_false]
        rw [ih lk]; exact hskip (by simp [passP, hb])
    · have hb' : B e = false := by cases h : B e <;> simp_all
      simp only [hb', Bool.false_eq_true, if_false]
      by_cases ha : A e = true
      · simp only [ha, if_true]
        cases rev with
        | false =>
          simp only [Bool.not_false, if_true, List.not_mem_nil, false_iff]
          exact hnone (by simp [stoppedF, hb', ha])
        | true =>
          simp only [Bool.not_true, Bool.false_eq_true, if_false]
          rw [ih lk]; exact hskip (by simp [passP, ha])
      · have ha' : A e = false := by cases h : A e <;> simp_all
        simp only [ha', Bool.false_eq_true, if_false]
        by_cases hf : F e = true
        · simp only [hf, if_true]; rw [ih lk]; exact hskip (by simp [passP, hf])
        · have hf' : F e = false := by cases h : F e <;> simp_all
          simp only [hf', Bool.false_eq_true, if_false, Bool.not_true, Bool.false_and]
          by_cases hd : e.dead = true
          · simp only [hd, if_true]
            rw [ih _]
            constructor
            · rintro ⟨h1, h2, h3⟩; exact ⟨List.mem_cons_of_mem _ h1, h2, h3⟩
            · rintro ⟨h1, h2, h3⟩
              rcases List.mem_cons.mp h1 with h | h
              · subst h; rw [hd] at h3; cases h3
              · exact ⟨h, h2, h3⟩
          · have hd' : e.dead = false := by cases h : e.dead <;> simp_all
            simp only [hd', Bool.false_eq_true, if_false, List.mem_cons, ih]
            constructor
            · rintro (h | ⟨h1, h2, h3⟩)
              · subst h; exact ⟨Or.inl rfl, by simp [passP, hb', ha', hf'], hd'⟩
              · exact ⟨Or.inr h1, h2, h3⟩
            · rintro ⟨h1 | h1, h2, h3⟩
              · exact Or.inl h1
              · exact Or.inr ⟨h1, h2, h3⟩

/-- `x` is the newest entry of its user key among the passing entries of `l` -/
def NewestIn (l : List Ent) (x : Ent) : Prop :=
  ∀ y ∈ l, passP B A F y = true → y.key = x.key → y.ver ≤ x.ver

theorem ver_lt_of_sorted_same_key {e x : Ent} (h : dirLt false e x = true) (hk : x.key = e.key) : x.ver < e.ver := by
  simp only [dirLt, Bool.false_eq_true, if_false] at h
  rcases ikLt_iff.mp h with h | ⟨_, h⟩
  · rw [hk, Bytes.lt_irrefl] at h; cases h
  · exact h

/-- forward, one version per key, `lastKey` recorded on the skip path: on a `compareKeys`-sorted
stream whose keys are non-empty, with `lk` not above any key of the stream, the loop yields
exactly the live entries that are the newest passing entry of their key, other than key `lk` -/
theorem mem_gF_newest
    (hkey : ∀ a b, a.key = b.key → B a = B b ∧ A a = A b)
    (hout : ∀ a b, dirLt false a b = true → stoppedF B A false a = true → (B b = true ∨ A b = true)) (x : Ent) :
    ∀ (l : List Ent) (lk : Bytes), Sorted (dirLt false) l → (∀ y ∈ l, y.key ≠ []) →
      (lk = [] ∨ ∀ y ∈ l, Bytes.lt y.key lk = false) →
      (x ∈ gF B A F false false true lk l ↔
        (x ∈ l ∧ passP B A F x = true ∧ x.dead = false ∧ x.key ≠ lk ∧ NewestIn B A F l x))
  | [], _, _, _, _ => by simp [gF]
  | e :: rest, lk, hs, hk, hlk => by
    have _ := hkey
    have hkr : ∀ y ∈ rest, y.key ≠ [] := fun y hy => hk y (List.mem_cons_of_mem _ hy)
    have hlkr : lk = [] ∨ ∀ y ∈ rest, Bytes.lt y.key lk = false :=
      hlk.imp id (fun h y hy => h y (List.mem_cons_of_mem _ hy))
    have ih := fun lk h => mem_gF_newest hkey hout x rest lk hs.tail hkr h
    -- skipping an entry that does not pass changes nothing
    have hskip : passP B A F e = false →
        ((x ∈ rest ∧ passP B A F x = true ∧ x.dead = false ∧ x.key ≠ lk ∧ NewestIn B A F rest x) ↔
         (x ∈ e :: rest ∧ passP B A F x = true ∧ x.dead = false ∧ x.key ≠ lk ∧ NewestIn B A F (e :: rest) x)) := by
      intro hp
      constructor
      · rintro ⟨h1, h2, h3, h4, h5⟩
        refine ⟨List.mem_cons_of_mem _ h1, h2, h3, h4, ?_⟩
        intro y hy hpy hky
        rcases List.mem_cons.mp hy with h | h
        · subst h; rw [hp] at hpy; cases hpy
        · exact h5 y h hpy hky
      · rintro ⟨h1, h2, h3, h4, h5⟩
        rcases List.mem_cons.mp h1 with h | h
        · subst h; rw [hp] at h2; cases h2
        · exact ⟨h, h2, h3, h4, fun y hy => h5 y (List.mem_cons_of_mem _ hy)⟩
    -- the keys of the rest are not below the key of `e`
    have hge : ∀ y ∈ rest, Bytes.lt y.key e.key = false := fun y hy => by
      have := hs.head_lt y hy
      simp only [dirLt, Bool.false_eq_true, if_false] at this
      exact key_le_of_ikLt this
    simp only [gF, Bool.false_eq_true, if_false, Bool.not_false, if_true, Bool.true_and]
    by_cases hb : B e = true
    · simp only [hb, if_true]; rw [ih lk hlkr]; exact hskip (by simp [passP, hb])
    · have hb' : B e = false := by cases h : B e <;> simp_all
      simp only [hb', Bool.false_eq_true, if_false]
      by_cases ha : A e = true
      · simp only [ha, if_true, List.not_mem_nil, false_iff]
        rintro ⟨hx, hp, _⟩
        simp only [passP, Bool.and_eq_true, Bool.not_eq_true'] at hp
        rcases List.mem_cons.mp hx with h | h
        · subst h; simp_all
        · rcases hout e x (hs.head_lt x h) (by simp [stoppedF, hb', ha]) with h1 | h1 <;> simp_all
      · have ha' : A e = false := by cases h : A e <;> simp_all
        simp only [ha', Bool.false_eq_true, if_false]
        by_cases hf : F e = true
        · simp only [hf, if_true]; rw [ih lk hlkr]; exact hskip (by simp [passP, hf])
        · have hf' : F e = false := by cases h : F e <;> simp_all
          have hpe : passP B A F e = true := by simp [passP, hb', ha', hf']
          simp only [hf', Bool.false_eq_true, if_false]
          by_cases hdup : (decide (lk ≠ []) && decide (lk = e.key)) = true
          · -- every entry of key `lk` is skipped
            simp only [hdup, if_true]
            simp only [Bool.and_eq_true, decide_eq_true_eq] at hdup
            rw [ih lk hlkr]
            constructor
            · rintro ⟨h1, h2, h3, h4, h5⟩
              refine ⟨List.mem_cons_of_mem _ h1, h2, h3, h4, ?_⟩
              intro y hy hpy hky
              rcases List.mem_cons.mp hy with h | h
              · subst h; exact absurd (hdup.2.trans hky).symm h4
              · exact h5 y h hpy hky
            · rintro ⟨h1, h2, h3, h4, h5⟩
              rcases List.mem_cons.mp h1 with h | h
              · subst h; exact absurd hdup.2.symm h4
              · exact ⟨h, h2, h3, h4, fun y hy => h5 y (List.mem_cons_of_mem _ hy)⟩
          · have hnd : ¬ (lk ≠ [] ∧ lk = e.key) := by simpa using hdup
            have hdup' : (decide (lk ≠ []) && decide (lk = e.key)) = false := by
              cases h : (decide (lk ≠ []) && decide (lk = e.key)) <;> simp_all
            have hek : e.key ≠ lk := fun h => hnd ⟨by rw [← h]; exact hk e (by simp), h.symm⟩
            have hlk' : e.key = [] ∨ ∀ y ∈ rest, Bytes.lt y.key e.key = false := Or.inr hge
            -- facts shared by the dead and the live case
            have hto : ∀ {x : Ent}, x ∈ rest → x.key ≠ e.key → x.key ≠ lk := by
              intro x hx hne heq
              rcases hlk with h0 | h0
              · exact hk x (List.mem_cons_of_mem _ hx) (heq.trans h0)
              · have h1 := h0 e (by simp)
                have h2 := hge x hx
                rw [heq] at h2
                exact hek (Bytes.eq_of_not_lt h1 h2)
            have hnewer : ∀ {x : Ent}, x ∈ rest → NewestIn B A F (e :: rest) x → x.key ≠ e.key := by
              intro x hx hn heq
              have h1 := hn e (by simp) hpe heq.symm
              have h2 := ver_lt_of_sorted_same_key (hs.head_lt x hx) heq
              omega
            simp only [hdup', Bool.false_eq_true, if_false]
            by_cases hd : e.dead = true
            · simp only [hd, if_true]
              rw [ih e.key hlk']
              constructor
              · rintro ⟨h1, h2, h3, h4, h5⟩
                refine ⟨List.mem_cons_of_mem _ h1, h2, h3, hto h1 h4, ?_⟩
                intro y hy hpy hky
                rcases List.mem_cons.mp hy with h | h
                · subst h; exact absurd hky.symm h4
                · exact h5 y h hpy hky
              · rintro ⟨h1, h2, h3, _, h5⟩
                rcases List.mem_cons.mp h1 with h | h
                · subst h; rw [hd] at h3; cases h3
                · exact ⟨h, h2, h3, hnewer h h5, fun y hy => h5 y (List.mem_cons_of_mem _ hy)⟩
            · have hd' : e.dead = false := by cases h : e.dead <;> simp_all
              simp only [hd', Bool.false_eq_true, if_false, List.mem_cons]
              rw [ih e.key hlk']
              constructor
              · rintro (h | ⟨h1, h2, h3, h4, h5⟩)
                · subst h
                  refine ⟨Or.inl rfl, hpe, hd', hek, ?_⟩
                  intro y hy _ hky
                  rcases List.mem_cons.mp hy with h | h
                  · subst h; exact Nat.le_refl _
                  · exact Nat.le_of_lt (ver_lt_of_sorted_same_key (hs.head_lt y h) hky)
                · refine ⟨Or.inr h1, h2, h3, hto h1 h4, ?_⟩
                  intro y hy hpy hky
                  rcases List.mem_cons.mp hy with h | h
                  · subst h; exact absurd hky.symm h4
                  · exact h5 y h hpy hky
              · rintro ⟨h1, h2, h3, _, h5⟩
                rcases h1 with h | h
                · exact Or.inl h
                · exact Or.inr ⟨h, h2, h3, hnewer h (by simpa using h5), fun y hy => h5 y (List.mem_cons_of_mem _ hy)⟩

end

end NoKV.Iter

/-
Step lemmas of the TxnIterator machine and the run theorem.
-/
import NoKVModel.Iter.TxnMachine

namespace NoKV.Iter

/-- the visible snapshot in iteration order -/
def dirV (db : DB) (upd : Bool) (pend : List Write) (rev : Bool) : List Ent :=
  if rev then (txnV db upd pend).reverse else txnV db upd pend

theorem streamOK_dirV (c : IterCfg) (hc : c.TxnGood) (db : DB) (h : db.WF) (upd : Bool) (pend : List Write)
    (hk : KeysOK db pend) (o : Opts) : StreamOK o db.readTs (dirV db upd pend o.reverse) := by
  have hp := hc.2.2.2.1
  refine ⟨?_, ?_, ?_⟩
  · cases hr : o.reverse with
    | false => simpa [dirV] using sorted_txnV db upd pend
    | true => simpa [dirV] using sorted_reverse false (sorted_txnV db upd pend)
  · intro y hy
    apply txnV_keys c hp db h upd pend hk y
    unfold dirV at hy; split at hy
    · exact List.mem_reverse.mp hy
    · exact hy
  · intro y hy
    apply txnV_ver db upd pend y
    unfold dirV at hy; split at hy
    · exact List.mem_reverse.mp hy
    · exact hy

/-! ### the specification's list is what the loop yields from the start of the stream -/

theorem mem_newestPerKey (l : List Ent) (x : Ent) :
    x ∈ newestPerKey l ↔ (x ∈ l ∧ ∀ f ∈ l, f.key = x.key → f.ver ≤ x.ver) := by
  simp only [newestPerKey, List.mem_filter, List.all_eq_true, Bool.or_eq_true, Bool.not_eq_true',
    decide_eq_false_iff_not, decide_eq_true_eq]
  constructor
  · rintro ⟨h1, h2⟩
    refine ⟨h1, fun f hf hk => ?_⟩
    rcases h2 f hf with h | h
    · exact absurd hk h
    · exact h
  · rintro ⟨h1, h2⟩
    refine ⟨h1, fun f hf => ?_⟩
    by_cases hk : f.key = x.key
    · exact Or.inr (h2 f hf hk)
    · exact Or.inl hk

theorem specVisible_vis (o : Opts) (rts : Nat) (e : Ent) (h : specVisible o rts e = true) : visAt rts e = true := by
  simp only [specVisible, Bool.and_eq_true, decide_eq_true_eq] at h
  simp only [visAt, CmpOp.nat, CmpOp.eval, Bool.not_not, Bool.or_eq_true, decide_eq_true_eq, beq_iff_eq]
  omega

theorem mem_specTxnList (db : DB) (upd : Bool) (pend : List Write) (o : Opts) (x : Ent) :
    x ∈ specTxnList (txnSnapshot db upd pend) o db.readTs ↔
      (x ∈ txnV db upd pend ∧ specVisible o db.readTs x = true ∧ x.dead = false ∧
        (o.allVersions = true ∨ NewestVis o db.readTs (txnV db upd pend) x)) := by
  have hmemV : ∀ y, (y ∈ txnSnapshot db upd pend ∧ specVisible o db.readTs y = true) ↔
      (y ∈ txnV db upd pend ∧ specVisible o db.readTs y = true) := by
    intro y
    simp only [txnV, List.mem_filter]
    constructor
    · rintro ⟨h1, h2⟩; exact ⟨⟨h1, specVisible_vis o _ y h2⟩, h2⟩
    · rintro ⟨⟨h1, _⟩, h2⟩; exact ⟨h1, h2⟩
  have hnew : (∀ f, f ∈ txnSnapshot db upd pend ∧ specVisible o db.readTs f = true → f.key = x.key → f.ver ≤ x.ver) ↔
      NewestVis o db.readTs (txnV db upd pend) x := by
    simp only [NewestVis]
    constructor
    · intro h y hy hv hk; exact h y ((hmemV y).mpr ⟨hy, hv⟩) hk
    · intro h f hf hk; exact h f ((hmemV f).mp hf).1 hf.2 hk
  unfold specTxnList
  have hrev : ∀ l : List Ent, (x ∈ if o.reverse = true then l.reverse else l) ↔ x ∈ l := by
    intro l; split <;> simp
  simp only [hrev]
  by_cases ha : o.allVersions = true
  · simp only [ha, if_true, List.mem_filter, Bool.not_eq_true', true_or, and_true]
    constructor
    · rintro ⟨h1, h2⟩; exact ⟨((hmemV x).mp h1).1, h1.2, h2⟩
    · rintro ⟨h1, h2, h3⟩; exact ⟨(hmemV x).mpr ⟨h1, h2⟩, h3⟩
  · have ha' : o.allVersions = false := by cases hh : o.allVersions <;> simp_all
    simp only [ha', Bool.false_eq_true, if_false, false_or, List.mem_filter, Bool.not_eq_true', mem_newestPerKey]
    constructor
    · rintro ⟨⟨h1, h2⟩, h3⟩; exact ⟨((hmemV x).mp h1).1, h1.2, h3, hnew.mp h2⟩
    · rintro ⟨h1, h2, h3, h4⟩; exact ⟨⟨(hmemV x).mpr ⟨h1, h2⟩, hnew.mpr h4⟩, h3⟩

theorem sorted_specTxnList (db : DB) (upd : Bool) (pend : List Write) (o : Opts) :
    Sorted (dirLt o.reverse) (specTxnList (txnSnapshot db upd pend) o db.readTs) := by
  have hs := sorted_snapshotOf ((if upd then [pendingEnts db.readTs pend] else []) ++ db.byRecency)
  have hsub : ∀ p q : Ent → Bool, Sorted (dirLt false)
      (((if o.allVersions then (txnSnapshot db upd pend).filter p
          else newestPerKey ((txnSnapshot db upd pend).filter p))).filter q) := by
    intro p q
    apply sorted_filter
    split
    · exact sorted_filter _ _ hs
    · exact sorted_filter _ _ (sorted_filter _ _ hs)
  unfold specTxnList
  cases hr : o.reverse with
  | false => simpa using hsub _ _
  | true => simpa using sorted_reverse false (hsub _ _)

theorem newestVis_dir (o : Opts) (rts : Nat) (l : List Ent) (x : Ent) (rev : Bool) :
    NewestVis o rts (if rev then l.reverse else l) x ↔ NewestVis o rts l x := by
  cases rev <;> simp [NewestVis]

/-- the whole scan the specification asks for = what the loop yields from the start -/
theorem specTxnList_eq_G (c : IterCfg) (hc : c.TxnGood) (db : DB) (h : db.WF) (upd : Bool) (pend : List Write)
    (hk : KeysOK db pend) (o : Opts) :
    specTxnList (txnSnapshot db upd pend) o db.readTs = G c o db.readTs [] (dirV db upd pend o.reverse) := by
  have hok := streamOK_dirV c hc db h upd pend hk o
  apply sorted_ext (ordOK_dir o.reverse) (sorted_specTxnList db upd pend o)
    (List.Pairwise.sublist (G_sublist c o db.readTs [] _) hok.sorted)
  intro x
  rw [mem_specTxnList, mem_G c hc o db.readTs _ hok]
  unfold dirV
  rw [newestVis_dir]
  have : (x ∈ if o.reverse = true then (txnV db upd pend).reverse else txnV db upd pend) ↔ x ∈ txnV db upd pend := by
    split <;> simp
  rw [this]

/-- seeking the stream first and then scanning = scanning and then skipping (the seek predicate
looks at the user key only, so no group of versions is split) -/
theorem G_dropWhile (c : IterCfg) (hc : c.TxnGood) (o : Opts) (rts : Nat) (l : List Ent) (hok : StreamOK o rts l)
    (p : Ent → Bool) (hp : Antitone (dirLt o.reverse) p) (hpk : ∀ a b : Ent, a.key = b.key → p a = p b) :
    G c o rts [] (l.dropWhile p) = (G c o rts [] l).dropWhile p := by
  have hok' := hok.sub (List.dropWhile_sublist p)
  have hsG : Sorted (dirLt o.reverse) (G c o rts [] l) := List.Pairwise.sublist (G_sublist c o rts [] l) hok.sorted
  apply sorted_ext (ordOK_dir o.reverse) (List.Pairwise.sublist (G_sublist c o rts [] _) hok'.sorted)
    (sorted_dropWhile p _ hsG)
  intro x
  rw [mem_G c hc o rts _ hok', mem_dropWhile_sorted hp _ hsG, mem_G c hc o rts _ hok,
    mem_dropWhile_sorted hp _ hok.sorted]
  constructor
  · rintro ⟨⟨h1, h1'⟩, h2, h3, h4⟩
    refine ⟨⟨h1, h2, h3, h4.imp id ?_⟩, h1'⟩
    intro hn y hy hv hky
    exact hn y ((mem_dropWhile_sorted hp _ hok.sorted y).mpr ⟨hy, by rw [hpk y x hky]; exact h1'⟩) hv hky
  · rintro ⟨⟨h1, h2, h3, h4⟩, h1'⟩
    refine ⟨⟨h1, h1'⟩, h2, h3, h4.imp id ?_⟩
    intro hn y hy hv hky
    exact hn y ((mem_dropWhile_sorted hp _ hok.sorted y).mp hy).1 hv hky

theorem dropWhile_nil_all {lt} {p : Ent → Bool} (hp : Antitone lt p) (l : List Ent) (hs : Sorted lt l)
    (h : l.dropWhile p = []) : ∀ e ∈ l, p e = true := by
  intro e he
  cases hpe : p e with
  | true => rfl
  | false =>
    have := (mem_dropWhile_sorted hp l hs e).mpr ⟨he, hpe⟩
    rw [h] at this; cases this

/-! ### the machine -/

structure TxnRel (c : IterCfg) (db : DB) (upd : Bool) (pend : List Write) (o : Opts) (it : TxnIt) (R : List Ent) : Prop where
  srcs : it.srcs = txnSources c db upd pend
  rts : it.readTs = db.readTs
  opt : it.opt = o
  cur : it.cur = R.head?
  pos : if it.seekOOR then R = [] else
    (Sorted (dirLt o.reverse) it.stream ∧ G c o db.readTs it.lastKey it.stream.tail = R.tail)

/-- positioning the underlying iterator at `l` and advancing -/
theorem rel_adv (c : IterCfg) (hc : c.TxnGood) (db : DB) (upd : Bool) (pend : List Write) (o : Opts)
    (st : List Ent) (lk0 : Bytes) (cu : Option Ent) (lk : Bytes) (l : List Ent) (hs : Sorted (dirLt o.reverse) l) :
    TxnRel c db upd pend o
      (TxnIt.adv c ⟨txnSources c db upd pend, db.readTs, o, st, lk0, cu, false⟩ lk l) (G c o db.readTs lk l) := by
  have := advance_G c hc o db.readTs lk l hs
  exact ⟨rfl, rfl, rfl, this.1, by
    simp only [TxnIt.adv, TxnIt.setAdv, Bool.false_eq_true, if_false]
    exact ⟨this.2.2, this.2.1⟩⟩

theorem rel_oor (c : IterCfg) (db : DB) (upd : Bool) (pend : List Write) (o : Opts) (st : List Ent) (lk : Bytes) :
    TxnRel c db upd pend o ⟨txnSources c db upd pend, db.readTs, o, st, lk, none, true⟩ [] :=
  ⟨rfl, rfl, rfl, rfl, by simp⟩

/-- the fallback loop of reverse `Seek` runs off the end when everything still to come is above the key -/
theorem rel_skipGreater (c : IterCfg) (hc : c.TxnGood) (db : DB) (upd : Bool) (pend : List Write) (o : Opts)
    (key : Bytes) : ∀ (n : Nat) (it : TxnIt) (R : List Ent), TxnRel c db upd pend o it R → it.seekOOR = false →
      (∀ e ∈ R, Bytes.lt key e.key = true) → R.length < n →
      TxnRel c db upd pend o (skipGreater c key n it) [] ∧ (skipGreater c key n it).seekOOR = false
  | 0, _, _, _, _, _, hn => by omega
  | n + 1, it, R, hrel, hoor, hall, hn => by
    obtain ⟨srcs, rts, opt, st, lk, cu, oor⟩ := it
    obtain ⟨h1, h2, h3, h4, h5⟩ := hrel
    simp only at h1 h2 h3 h4 h5 hoor
    subst h1 h2 h3 hoor
    simp only [Bool.false_eq_true, if_false] at h5
    cases R with
    | nil =>
      simp only [List.head?_nil] at h4
      subst h4
      simp only [skipGreater]
      exact ⟨⟨rfl, rfl, rfl, rfl, by simpa using h5⟩, by trivial⟩
    | cons e R' =>
      simp only [List.head?_cons] at h4
      subst h4
      simp only [skipGreater, hall e (by simp), if_true]
      have hrel' := rel_adv c hc db upd pend opt st lk (some e) lk st.tail
        (List.Pairwise.sublist (List.tail_sublist _) h5.1)
      rw [h5.2] at hrel'
      exact rel_skipGreater c hc db upd pend opt key n _ R' (by simpa using hrel') rfl
        (fun x hx => hall x (List.mem_cons_of_mem _ hx)) (by simp at hn; omega)

theorem specVisible_lower {o : Opts} {rts : Nat} {e : Ent} (h : specVisible o rts e = true) (hl : o.lower ≠ []) :
    Bytes.lt e.key o.lower = false := by
  simp only [specVisible, inBounds, Bool.and_eq_true, Bool.or_eq_true, decide_eq_true_eq] at h
  rcases h.1.2.1 with h | h
  · exact absurd h hl
  · simpa [Bytes.le] using h

theorem specVisible_upper {o : Opts} {rts : Nat} {e : Ent} (h : specVisible o rts e = true) (hu : o.upper ≠ []) :
    Bytes.lt e.key o.upper = true := by
  simp only [specVisible, inBounds, Bool.and_eq_true, Bool.or_eq_true, decide_eq_true_eq] at h
  rcases h.1.2.2 with h | h
  · exact absurd h hu
  · exact h

/-- one cursor operation keeps the model iterator and the specification's cursor in step -/
theorem txnRel_step (c : IterCfg) (hc : c.TxnGood) (db : DB) (hwf : db.WF) (upd : Bool) (pend : List Write)
    (hk : KeysOK db pend) (o : Opts) (it : TxnIt) (R : List Ent) (h : TxnRel c db upd pend o it R) (op : CurOp) :
    TxnRel c db upd pend o (it.step c op)
      (specStep (specTxnList (txnSnapshot db upd pend) o db.readTs) o.reverse true R op) := by
  obtain ⟨srcs, rts, opt, st, lk, cu, oor⟩ := it
  obtain ⟨h1, h2, h3, h4, h5⟩ := h
  simp only at h1 h2 h3 h4 h5
  subst h1 h2 h3
  have hgood := hc
  obtain ⟨hops, _, _, _, _, _, _, _⟩ := hc
  obtain ⟨_, _, hslo, hsup, _⟩ := hops
  have hfull := specTxnList_eq_G c hgood db hwf upd pend hk opt
  have hok := streamOK_dirV c hgood db hwf upd pend hk opt
  have hrewind : TxnRel c db upd pend opt
      (TxnIt.adv c ⟨txnSources c db upd pend, db.readTs, opt, st, [], cu, false⟩ []
        (mergedRewind c opt.reverse db.readTs (txnSources c db upd pend)))
      (specTxnList (txnSnapshot db upd pend) opt db.readTs) := by
    rw [hfull, txn_mergedRewind' c hgood db hwf upd pend]
    exact rel_adv c hgood db upd pend opt st [] cu [] _ hok.sorted
  cases op with
  | rewind =>
    simp only [TxnIt.step, TxnIt.rewind, specStep]
    exact hrewind
  | next =>
    simp only [TxnIt.step, TxnIt.next, specStep]
    cases oor with
    | true =>
      simp only [if_true] at h5 ⊢
      subst h5
      exact ⟨rfl, rfl, rfl, rfl, by simp⟩
    | false =>
      simp only [Bool.false_eq_true, if_false] at h5 ⊢
      rw [← h5.2]
      exact rel_adv c hgood db upd pend opt st lk cu lk st.tail (List.Pairwise.sublist (List.tail_sublist _) h5.1)
  | seek k =>
    simp only [TxnIt.step, specStep]
    unfold TxnIt.seek
    simp only [hslo, hsup, bcmp, CmpOp.eval]
    by_cases hk0 : k = []
    · simp only [hk0, if_true, true_and]
      exact hrewind
    · simp only [hk0, if_false, and_false]
      rw [hfull]
      have hsG : Sorted (dirLt opt.reverse) (G c opt db.readTs [] (dirV db upd pend opt.reverse)) :=
        List.Pairwise.sublist (G_sublist c opt db.readTs [] _) hok.sorted
      have hvisG : ∀ e ∈ G c opt db.readTs [] (dirV db upd pend opt.reverse), specVisible opt db.readTs e = true :=
        fun e he => ((mem_G c hgood opt db.readTs _ hok e).mp he).2.1
      cases hr : opt.reverse with
      | false =>
        rw [hr] at hok hsG hvisG
        simp only [Bool.not_false, if_true, Bool.false_eq_true, if_false]
        have hdv : dirV db upd pend false = txnV db upd pend := by simp [dirV]
        by_cases hU : opt.upper ≠ [] ∧ (!Bytes.lt k opt.upper) = true
        · rw [if_pos hU]
          have : (G c opt db.readTs [] (dirV db upd pend false)).dropWhile (fun e => Bytes.lt e.key k) = [] := by
            apply dropWhile_all
            intro e he
            exact Bytes.lt_of_lt_of_le (specVisible_upper (hvisG e he) hU.1) (by simpa [Bytes.le] using hU.2)
          rw [this]
          exact rel_oor c db upd pend opt st []
        · rw [if_neg hU, txn_mergedSeek_fwd' c hgood db hwf upd pend]
          -- versions in the stream are at most the read timestamp: `ikLt e ⟨k', readTs⟩ ↔ e.key < k'`
          have hp : ∀ k' : Bytes, (txnV db upd pend).dropWhile (fun e => ikLt e ⟨k', db.readTs, [], false, false⟩) =
              (txnV db upd pend).dropWhile (fun e => Bytes.lt e.key k') := by
            intro k'
            apply dropWhile_congr_mem
            intro e he
            have hv := txnV_ver db upd pend e he
            simp only [ikLt]
            have : decide (db.readTs < e.ver) = false := by simp; omega
            simp [this]
          rw [hp]
          have hokf : StreamOK opt db.readTs (txnV db upd pend) := by rw [← hdv]; exact hok
          have hrel := fun k' => rel_adv c hgood db upd pend opt st [] cu []
            ((txnV db upd pend).dropWhile (fun e => Bytes.lt e.key k'))
            (by rw [hr]; exact sorted_dropWhile _ _ (sorted_txnV db upd pend))
          have hcomm := fun k' => G_dropWhile c hgood opt db.readTs (txnV db upd pend) hokf
            (fun e => Bytes.lt e.key k') (by rw [hr]; exact anti_keyLt k') (fun a b hab => by simp [hab])
          rw [hdv] at hsG hvisG ⊢
          by_cases hL : opt.lower ≠ [] ∧ Bytes.lt k opt.lower = true
          · rw [if_pos hL]
            have := hrel opt.lower
            rw [hcomm opt.lower] at this
            have e1 : (G c opt db.readTs [] (txnV db upd pend)).dropWhile (fun e => Bytes.lt e.key opt.lower) =
                G c opt db.readTs [] (txnV db upd pend) :=
              dropWhile_none _ (fun e he => specVisible_lower (hvisG e he) hL.1)
            have e2 : (G c opt db.readTs [] (txnV db upd pend)).dropWhile (fun e => Bytes.lt e.key k) =
                G c opt db.readTs [] (txnV db upd pend) := by
              apply dropWhile_none
              intro e he
              have hkk := specVisible_lower (hvisG e he) hL.1
              cases hh : Bytes.lt e.key k with
              | false => rfl
              | true => rw [Bytes.lt_trans hh hL.2] at hkk; cases hkk
            rw [e2]; rw [e1] at this; exact this
          · rw [if_neg hL]
            have := hrel k
            rw [hcomm k] at this
            exact this
      | true =>
        rw [hr] at hok hsG hvisG
        simp only [Bool.not_true, Bool.false_eq_true, if_false, if_true]
        have hdv : dirV db upd pend true = (txnV db upd pend).reverse := by simp [dirV]
        rw [hdv] at hok hsG hvisG ⊢
        by_cases hL : opt.lower ≠ [] ∧ Bytes.lt k opt.lower = true
        · rw [if_pos hL]
          have : (G c opt db.readTs [] (txnV db upd pend).reverse).dropWhile (fun e => Bytes.lt k e.key) = [] := by
            apply dropWhile_all
            intro e he
            exact Bytes.lt_of_lt_of_le hL.2 (by simpa [Bytes.le] using specVisible_lower (hvisG e he) hL.1)
          rw [this]
          exact rel_oor c db upd pend opt st []
        · rw [if_neg hL]
          -- the clamped key
          generalize hkc : (if opt.upper ≠ [] ∧ (!Bytes.lt k opt.upper) = true then opt.upper else k) = k'
          rw [txn_mergedSeek_rev' c hgood db hwf upd pend, txn_mergedRewind' c hgood db hwf upd pend]
          simp only [if_true]
          have hp : (txnV db upd pend).reverse.dropWhile (fun e => ikLt ⟨k', 0, [], false, false⟩ e) =
              (txnV db upd pend).reverse.dropWhile (fun e => Bytes.lt k' e.key) := by
            apply dropWhile_congr_mem
            intro e _
            simp [ikLt]
          rw [hp]
          have hanti : Antitone (dirLt true) (fun e : Ent => Bytes.lt k' e.key) := anti_keyGt k'
          have hcomm := G_dropWhile c hgood opt db.readTs (txnV db upd pend).reverse hok
            (fun e => Bytes.lt k' e.key) (by rw [hr]; exact hanti) (fun a b hab => by simp [hab])
          -- the specification's position does not depend on the clamping
          have hspec : (G c opt db.readTs [] (txnV db upd pend).reverse).dropWhile (fun e => Bytes.lt k e.key) =
              (G c opt db.readTs [] (txnV db upd pend).reverse).dropWhile (fun e => Bytes.lt k' e.key) := by
            by_cases hU : opt.upper ≠ [] ∧ (!Bytes.lt k opt.upper) = true
            · rw [if_pos hU] at hkc
              subst hkc
              have e1 : (G c opt db.readTs [] (txnV db upd pend).reverse).dropWhile (fun e => Bytes.lt opt.upper e.key) =
                  G c opt db.readTs [] (txnV db upd pend).reverse :=
                dropWhile_none _ (fun e he => Bytes.lt_asymm (specVisible_upper (hvisG e he) hU.1))
              have e2 : (G c opt db.readTs [] (txnV db upd pend).reverse).dropWhile (fun e => Bytes.lt k e.key) =
                  G c opt db.readTs [] (txnV db upd pend).reverse := by
                apply dropWhile_none
                intro e he
                have hkk := specVisible_upper (hvisG e he) hU.1
                cases hh : Bytes.lt k e.key with
                | false => rfl
                | true =>
                  have := Bytes.lt_trans hh hkk
                  simp [this] at hU
              rw [e1, e2]
            · rw [if_neg hU] at hkc
              subst hkc; rfl
          rw [hspec]
          have hs1 : Sorted (dirLt opt.reverse) ((txnV db upd pend).reverse.dropWhile (fun e => Bytes.lt k' e.key)) :=
            sorted_dropWhile _ _ hok.sorted
          have hrel1 := rel_adv c hgood db upd pend opt st [] cu []
            ((txnV db upd pend).reverse.dropWhile (fun e => Bytes.lt k' e.key)) hs1
          rw [hcomm] at hrel1
          -- name the first attempt
          generalize hit1 : TxnIt.adv c ⟨txnSources c db upd pend, db.readTs, opt, st, [], cu, false⟩ []
            ((txnV db upd pend).reverse.dropWhile (fun e => Bytes.lt k' e.key)) = it1 at hrel1 ⊢
          cases hR1 : (G c opt db.readTs [] (txnV db upd pend).reverse).dropWhile (fun e => Bytes.lt k' e.key) with
          | cons e R' =>
            -- the first attempt found an item at or below the key: no fallback
            rw [hR1] at hrel1
            have hcur : it1.cur = some e := by rw [hrel1.cur]; rfl
            have hple : Bytes.lt k' e.key = false := by
              have : e ∈ (G c opt db.readTs [] (txnV db upd pend).reverse).dropWhile (fun e => Bytes.lt k' e.key) := by
                rw [hR1]; simp
              exact ((mem_dropWhile_sorted hanti _ hsG e).mp this).2
            simp only [hcur, hple, Bool.false_eq_true, if_false]
            exact hrel1
          | nil =>
            rw [hR1] at hrel1
            have hcur : it1.cur = none := by rw [hrel1.cur]; rfl
            simp only [hcur, if_true]
            -- everything the scan would yield lies above the key
            have hallG := dropWhile_nil_all hanti _ hsG hR1
            obtain ⟨srcs1, rts1, opt1, st1, lk1, cu1, oor1⟩ := it1
            have hf1 : srcs1 = txnSources c db upd pend ∧ rts1 = db.readTs ∧ opt1 = opt := ⟨hrel1.srcs, hrel1.rts, hrel1.opt⟩
            obtain ⟨rfl, rfl, rfl⟩ := hf1
            have hrel2 := rel_adv c hgood db upd pend opt1 st1 lk1 cu1 lk1 (txnV db upd pend).reverse hok.sorted
            have hsub : ∀ x ∈ G c opt1 db.readTs lk1 (txnV db upd pend).reverse, Bytes.lt k' x.key = true :=
              fun x hx => hallG x (G_lk_sub c hgood opt1 hr db.readTs lk1 _ hok.keys x hx)
            have hlen : (G c opt1 db.readTs lk1 (txnV db upd pend).reverse).length < (txnV db upd pend).reverse.length + 1 :=
              Nat.lt_succ_of_le (G_sublist c opt1 db.readTs lk1 _).length_le
            have hadv : TxnIt.adv c ⟨txnSources c db upd pend, db.readTs, opt1, st1, lk1, cu1, oor1⟩ lk1
                  (txnV db upd pend).reverse =
                TxnIt.adv c ⟨txnSources c db upd pend, db.readTs, opt1, st1, lk1, cu1, false⟩ lk1
                  (txnV db upd pend).reverse := by
              have : oor1 = false := by
                have := congrArg TxnIt.seekOOR hit1
                simpa [TxnIt.adv, TxnIt.setAdv] using this.symm
              rw [this]
            simp only at hadv ⊢
            rw [hadv]
            exact (rel_skipGreater c hgood db upd pend opt1 k' _ _ _ hrel2 rfl hsub hlen).1

/-- the run of a transaction iterator equals the run of the specification's cursor -/
theorem runTxn_eq (c : IterCfg) (hc : c.TxnGood) (db : DB) (hwf : db.WF) (upd : Bool) (pend : List Write)
    (hk : KeysOK db pend) (o : Opts) :
    ∀ (ops : List CurOp) (it : TxnIt) (R : List Ent), TxnRel c db upd pend o it R →
      runTxn c it ops = runSpec (specTxnList (txnSnapshot db upd pend) o db.readTs) o.reverse true R ops
  | [], _, _, _ => rfl
  | op :: ops, it, R, h => by
    have hstep := txnRel_step c hc db hwf upd pend hk o it R h op
    simp only [runTxn, runSpec]
    rw [runTxn_eq c hc db hwf upd pend hk o ops _ _ hstep, hstep.cur]

end NoKV.Iter

/-
The merged streams of the iterators under the good configuration: `Rewind` yields the
specification's snapshot (reversed for reverse iteration), `Seek` its `dropWhile`.
-/
import NoKVModel.Iter.ScanLemmas

namespace NoKV.Iter

/-! ### small list helpers -/

theorem dropWhile_congr_mem {p q : Ent → Bool} : ∀ (l : List Ent), (∀ e ∈ l, p e = q e) → l.dropWhile p = l.dropWhile q
  | [], _ => rfl
  | x :: r, h => by
    have hx := h x (by simp)
    have hr := dropWhile_congr_mem r (fun e he => h e (List.mem_cons_of_mem _ he))
    cases hp : p x with
    | true => rw [List.dropWhile_cons_of_pos hp, List.dropWhile_cons_of_pos (by rw [← hx]; exact hp), hr]
    | false =>
      rw [List.dropWhile_cons_of_neg (by simp [hp]), List.dropWhile_cons_of_neg (by rw [← hx]; simp [hp])]

theorem dropWhile_none {p : Ent → Bool} : ∀ (l : List Ent), (∀ e ∈ l, p e = false) → l.dropWhile p = l
  | [], _ => rfl
  | x :: r, h => by rw [List.dropWhile_cons_of_neg (by simp [h x (by simp)])]

theorem dropWhile_all {p : Ent → Bool} : ∀ (l : List Ent), (∀ e ∈ l, p e = true) → l.dropWhile p = []
  | [], _ => rfl
  | x :: r, h => by
    rw [List.dropWhile_cons_of_pos (h x (by simp))]
    exact dropWhile_all r (fun e he => h e (List.mem_cons_of_mem _ he))

theorem dropWhile_append_all {p : Ent → Bool} (X : List Ent) : ∀ (b : List Ent), (∀ e ∈ b, p e = true) →
    (b ++ X).dropWhile p = X.dropWhile p
  | [], _ => rfl
  | x :: r, h => by
    rw [List.cons_append, List.dropWhile_cons_of_pos (h x (by simp))]
    exact dropWhile_append_all X r (fun e he => h e (List.mem_cons_of_mem _ he))

theorem dropWhile_append_head {p : Ent → Bool} (X : List Ent) (hX : X.dropWhile p = X) : ∀ (b : List Ent),
    (b ++ X).dropWhile p = if (b.dropWhile p).isEmpty then X else b.dropWhile p ++ X
  | [] => by simp [hX]
  | x :: r => by
    cases hp : p x with
    | true =>
      rw [List.cons_append, List.dropWhile_cons_of_pos hp, List.dropWhile_cons_of_pos hp]
      exact dropWhile_append_head X hX r
    | false =>
      rw [List.cons_append, List.dropWhile_cons_of_neg (by simp [hp]), List.dropWhile_cons_of_neg (by simp [hp])]
      simp

/-! ### `tableIterator.Seek` with the fall-through is a plain `dropWhile` -/

theorem blockSeek_eq (t : Ent) : ∀ (bs : List (List Ent)), Sorted (dirLt false) bs.flatten → (∀ b ∈ bs, b ≠ []) →
    blockSeek true t bs = bs.flatten.dropWhile (fun e => ikLt e t)
  | [], _, _ => rfl
  | [b], _, _ => by simp [blockSeek]
  | b :: b2 :: rest, hs, hne => by
    have hb2 : b2 ≠ [] := hne b2 (by simp)
    obtain ⟨h2, tl, rfl⟩ : ∃ h2 tl, b2 = h2 :: tl := by
      cases b2 with
      | nil => exact absurd rfl hb2
      | cons a l => exact ⟨a, l, rfl⟩
    have hs' : Sorted (dirLt false) ((h2 :: tl) :: rest).flatten := by
      rw [List.flatten_cons] at hs
      exact List.Pairwise.sublist (List.sublist_append_right _ _) hs
    have hbX : ∀ e ∈ b, ikLt e h2 = true := by
      intro e he
      rw [List.flatten_cons] at hs
      have := (List.pairwise_append.mp hs).2.2 e he h2 (by simp)
      simpa [dirLt] using this
    rw [List.flatten_cons]
    simp only [blockSeek, List.head?_cons]
    by_cases hlt : ikLt t h2 = true
    · simp only [hlt, if_true]
      have hX : (((h2 :: tl) :: rest).flatten).dropWhile (fun e => ikLt e t) = ((h2 :: tl) :: rest).flatten := by
        rw [List.flatten_cons, List.cons_append, List.dropWhile_cons_of_neg]
        simp [ikLt_asymm hlt]
      rw [dropWhile_append_head _ hX]
    · have hlt' : ikLt t h2 = false := by cases h : ikLt t h2 <;> simp_all
      simp only [hlt', Bool.false_eq_true, if_false]
      rw [blockSeek_eq t _ hs' (fun x hx => hne x (List.mem_cons_of_mem _ hx))]
      rw [dropWhile_append_all]
      intro e he
      rcases ikLt_tri h2 t with h | h | h
      · exact ikLt_trans (hbX e he) h
      · rw [← ikLt_congrR e h2 t h]; exact hbX e he
      · rw [hlt'] at h; cases h

/-! ### antitone predicates used by the seeks -/

theorem key_le_of_ikLt {a b : Ent} (h : ikLt a b = true) : Bytes.lt b.key a.key = false := by
  rw [ikLt_iff] at h
  rcases h with h | ⟨h, _⟩
  · exact Bytes.lt_asymm h
  · rw [h]; exact Bytes.lt_irrefl _

theorem anti_ikLt_target (t : Ent) : Antitone (dirLt false) (fun e => ikLt e t) :=
  ⟨fun a b hab hb => by simp [dirLt] at hab; exact ikLt_trans hab hb,
   fun a b hab => ikLt_congrL a b t hab⟩

theorem anti_ikLt_target_rev (t : Ent) : Antitone (dirLt true) (fun e => ikLt t e) :=
  ⟨fun a b hab hb => by simp [dirLt] at hab; exact ikLt_trans hb hab,
   fun a b hab => ikLt_congrR t a b hab⟩

theorem anti_keyLt (k : Bytes) : Antitone (dirLt false) (fun e => Bytes.lt e.key k) :=
  ⟨fun a b hab hb => by
      simp [dirLt] at hab
      have := key_le_of_ikLt hab
      exact Bytes.lt_of_le_of_lt (by simpa [Bytes.le] using this) hb,
   fun a b hab => by rw [(ikEq_iff.mp hab).1]⟩

theorem anti_keyGt (k : Bytes) : Antitone (dirLt true) (fun e => Bytes.lt k e.key) :=
  ⟨fun a b hab hb => by
      simp [dirLt] at hab
      have := key_le_of_ikLt hab
      exact Bytes.lt_of_lt_of_le hb (by simpa [Bytes.le] using this),
   fun a b hab => by rw [(ikEq_iff.mp hab).1]⟩

end NoKV.Iter

/-
Model of the iterator stack: `lsm/iterator.go` (MergeIterator, NewIterators), the per-source
iterators (skiplist / table / pending-writes), `txn_iterator.go` (readTsIterator, TxnIterator:
advance, Seek, Rewind, Next), `txn.go:newPendingWritesIterator`, `iterator.go` (DBIterator:
populate, Seek, Rewind, Next).  Core Lean only; executable; every recursion is structural
(fuel where two lists shrink alternately) so that witnesses can be closed by `decide`.

Abstraction level (what is modelled literally and what is not):
* an entry is `(user key, version, value, dead?)`; `dead` = delete bit or expired;
  only the default column family is modelled;
* a positioned source iterator is the list of entries it will still yield, head = current;
  `Rewind`/`Seek` of a source = the whole list / `dropWhile` in the source's own order
  (binary search over a list sorted by that same order);
* `MergeIterator` = two-pointer merge of the two child streams (`merge2F`; on equal internal
  keys the side named by `eqKeyAdvances` is advanced, the other one yielded) followed by the
  `curKey` loop of `MergeIterator.Next` (`dedupAdj`); `NewMergeIterator` = the balanced tree
  (`mergeTreeF`);
* `TxnIterator.advance`, `Seek` (both directions, clamping, the reverse fallback loop) and
  `DBIterator.populate/Seek` are modelled statement by statement.
-/
import NoKVModel.Base.Bytes
import NoKVModel.Base.Cfg

namespace NoKV.Iter

structure Ent where
  key : Bytes
  ver : Nat
  val : Bytes
  /-- delete bit (`kv.BitDelete`) -/
  del : Bool
  /-- `ExpiresAt` in the past -/
  exp : Bool
  deriving DecidableEq, Repr, Inhabited

/-- deleted or expired -/
def Ent.dead (e : Ent) : Bool := e.del || e.exp

/-- `utils.CompareKeys a b < 0`: user key ascending, then version descending. -/
def ikLt (a b : Ent) : Bool :=
  Bytes.lt a.key b.key || (decide (a.key = b.key) && decide (b.ver < a.ver))

/-- same internal key -/
def ikEq (a b : Ent) : Bool := decide (a.key = b.key) && decide (a.ver = b.ver)

def maxU64 : Nat := 18446744073709551615

/-- the 8-byte big-endian suffix `MaxUint64 - ts` of an internal key -/
def tsSuffix (ver : Nat) : Bytes :=
  let n := maxU64 - ver
  [n / 72057594037927936 % 256, n / 281474976710656 % 256, n / 1099511627776 % 256,
   n / 4294967296 % 256, n / 16777216 % 256, n / 65536 % 256, n / 256 % 256, n % 256]

/-- `bytes.Compare` on whole internal keys (the CF header is common to all keys modelled) -/
def rawLt (a b : Ent) : Bool := Bytes.lt (a.key ++ tsSuffix a.ver) (b.key ++ tsSuffix b.ver)

inductive Side where
  | left | right
  deriving DecidableEq, Repr

inductive ImmOrder where
  | oldestFirst | newestFirst
  deriving DecidableEq, Repr

inductive KeyCmp where
  | rawBytes | compareKeys
  deriving DecidableEq, Repr

inductive RevGroup where
  | firstSeen | newest
  deriving DecidableEq, Repr

inductive RevSeekTs where
  | max | zero
  deriving DecidableEq, Repr

/-- Facts about the iterator stack the proofs depend on (filled in by the extractor). -/
structure IterCfg where
  /-- `MergeIterator.fix`, `cmp == 0`: which child is advanced (the other one is yielded) -/
  eqKeyAdvances : Side
  /-- `LSM.NewIterators`: order in which `lsm.immutables` (oldest first) is appended -/
  immOrder : ImmOrder
  /-- `newPendingWritesIterator` / `pendingWritesIterator.Seek`: comparator on internal keys -/
  pendingCmp : KeyCmp
  /-- `TxnIterator.advance`: `lastKey` is recorded when a deleted/expired entry is skipped while
  iterating forward (in reverse order the entry met first is the OLDEST version, so recording it
  there would hide newer live versions; reverse needs `revGroup = newest`) -/
  lastKeyOnSkip : Bool
  /-- `TxnIterator.advance`, reverse, one version per key: which version of a key is yielded -/
  revGroup : RevGroup
  /-- `DBIterator.Seek`, reverse: version used in the seek key -/
  dbRevSeekTs : RevSeekTs
  /-- `DBIterator.materialize` recognises the delete bit of an entry (as written it only tests
  `Value == nil` and the expiry, and stored tombstones carry an empty non-nil value) -/
  dbSkipsDeleted : Bool
  /-- `tableIterator.Seek`, forward: when the target is past the last entry of the candidate
  block the iterator moves on to the next block (as written it ends in `io.EOF`) -/
  sstSeekFallsThrough : Bool
  /-- `advance`: `bytes.Compare(userKey, LowerBound) <op> 0` ⇒ outside -/
  txnLowerOp : CmpOp
  /-- `advance`: `bytes.Compare(userKey, UpperBound) <op> 0` ⇒ outside -/
  txnUpperOp : CmpOp
  /-- `TxnIterator.Seek`: `bytes.Compare(key, LowerBound) <op> 0` -/
  txnSeekLowerOp : CmpOp
  /-- `TxnIterator.Seek`: `bytes.Compare(key, UpperBound) <op> 0` -/
  txnSeekUpperOp : CmpOp
  /-- `advance`: `version <op> it.readTs` ⇒ skip -/
  txnReadTsOp : CmpOp
  /-- `readTsIterator.ensureVisible`: `ParseTs(key) <op> ri.readTs` ⇒ skip -/
  wrapReadTsOp : CmpOp
  /-- `advance`: `version <op> SinceTs` ⇒ skip -/
  txnSinceOp : CmpOp
  dbLowerOp : CmpOp
  dbUpperOp : CmpOp
  dbSeekLowerOp : CmpOp
  dbSeekUpperOp : CmpOp
  /-- `ConcatIterator.Seek`, forward: first table with `CompareKeys(MaxKey, key) <op> 0` -/
  concatFwdOp : CmpOp
  /-- `ConcatIterator.Seek`, reverse: last table with `CompareKeys(MinKey, key) <op> 0` -/
  concatRevOp : CmpOp
  deriving DecidableEq, Repr

def IterCfg.good : IterCfg :=
  { eqKeyAdvances := .right, immOrder := .newestFirst, pendingCmp := .compareKeys,
    lastKeyOnSkip := true, revGroup := .newest, dbRevSeekTs := .zero, dbSkipsDeleted := true, sstSeekFallsThrough := true,
    txnLowerOp := .lt, txnUpperOp := .ge, txnSeekLowerOp := .lt, txnSeekUpperOp := .ge,
    txnReadTsOp := .gt, wrapReadTsOp := .gt, txnSinceOp := .le,
    dbLowerOp := .lt, dbUpperOp := .ge, dbSeekLowerOp := .lt, dbSeekUpperOp := .ge,
    concatFwdOp := .ge, concatRevOp := .le }

/-- the operator facts (none of them is a known defect) -/
def IterCfg.OpsGood (c : IterCfg) : Prop :=
  c.txnLowerOp = .lt ∧ c.txnUpperOp = .ge ∧ c.txnSeekLowerOp = .lt ∧ c.txnSeekUpperOp = .ge ∧
  c.txnReadTsOp = .gt ∧ c.wrapReadTsOp = .gt ∧ c.txnSinceOp = .le ∧
  c.dbLowerOp = .lt ∧ c.dbUpperOp = .ge ∧ c.dbSeekLowerOp = .lt ∧ c.dbSeekUpperOp = .ge

instance IterCfg.decOpsGood (c : IterCfg) : Decidable c.OpsGood := by
  unfold IterCfg.OpsGood; exact inferInstance

/-- the table-selection rules of `ConcatIterator.Seek` -/
def IterCfg.ConcatGood (c : IterCfg) : Prop := c.concatFwdOp = .ge ∧ c.concatRevOp = .le

instance IterCfg.decConcatGood (c : IterCfg) : Decidable c.ConcatGood := by
  unfold IterCfg.ConcatGood; exact inferInstance

/-- merge keeps the left child on equal internal keys -/
def IterCfg.MergeGood (c : IterCfg) : Prop := c.eqKeyAdvances = .right

instance IterCfg.decMergeGood (c : IterCfg) : Decidable c.MergeGood := by
  unfold IterCfg.MergeGood; exact inferInstance

/-- everything the transaction-iterator theorem needs -/
def IterCfg.TxnGood (c : IterCfg) : Prop :=
  c.OpsGood ∧ c.eqKeyAdvances = .right ∧ c.immOrder = .newestFirst ∧ c.pendingCmp = .compareKeys ∧
  c.lastKeyOnSkip = true ∧ c.revGroup = .newest ∧ c.sstSeekFallsThrough = true ∧ c.ConcatGood

instance IterCfg.decTxnGood (c : IterCfg) : Decidable c.TxnGood := by
  unfold IterCfg.TxnGood; exact inferInstance

/-- everything the DB-iterator theorem needs -/
def IterCfg.DbGood (c : IterCfg) : Prop :=
  c.OpsGood ∧ c.eqKeyAdvances = .right ∧ c.immOrder = .newestFirst ∧ c.dbRevSeekTs = .zero ∧
  c.dbSkipsDeleted = true ∧ c.sstSeekFallsThrough = true ∧ c.ConcatGood

instance IterCfg.decDbGood (c : IterCfg) : Decidable c.DbGood := by
  unfold IterCfg.DbGood; exact inferInstance

def bcmp (op : CmpOp) (a b : Bytes) : Bool := op.eval (Bytes.lt a b) (decide (a = b))

/-! ### one source -/

def srcLt : KeyCmp → Ent → Ent → Bool
  | .rawBytes => rawLt
  | .compareKeys => ikLt

/-- insert into a list kept ascending in `srcLt k`, replacing an entry with the same internal key -/
def upsert (k : KeyCmp) (e : Ent) : List Ent → List Ent
  | [] => [e]
  | x :: xs =>
    if ikEq e x then e :: xs
    else if srcLt k e x then e :: x :: xs
    else x :: upsert k e xs

/-- the entries a source iterator yields after `Rewind` -/
def srcRewind (rev : Bool) (items : List Ent) : List Ent :=
  if rev then items.reverse else items

/-- … after `Seek t`: forward first entry `>= t`, reverse last entry `<= t`, in the source's order -/
def srcSeek (k : KeyCmp) (rev : Bool) (t : Ent) (items : List Ent) : List Ent :=
  if rev then items.reverse.dropWhile (fun e => srcLt k t e)
  else items.dropWhile (fun e => srcLt k e t)

/-- forward `tableIterator.Seek` over the blocks of one SST: the candidate block is the one before
the first block whose base key is `> t` (the last block if there is none); inside it the first
entry `>= t`; when there is none the iterator is at `io.EOF` — unless `ft` (fall through to the
next block), which is what the repaired code does. -/
def blockSeek (ft : Bool) (t : Ent) : List (List Ent) → List Ent
  | [] => []
  | [b] => b.dropWhile (fun e => ikLt e t)
  | b :: b2 :: rest =>
    if (match b2.head? with | some h2 => ikLt t h2 | none => false) then
      let r := b.dropWhile (fun e => ikLt e t)
      if r.isEmpty then (if ft then (b2 :: rest).flatten else []) else r ++ (b2 :: rest).flatten
    else blockSeek ft t (b2 :: rest)

/-- `utils.CompareKeys a b <op> 0` -/
def icmp (op : CmpOp) (a b : Ent) : Bool := op.eval (ikLt a b) (ikEq a b)

/-- `ConcatIterator.Seek`: the first element of the list (tables in iteration order) that `hit`s
is sought with `inner`; when that leaves the table iterator invalid the concat iterator is invalid,
otherwise the remaining tables follow -/
def concatPick {α : Type} (items : α → List Ent) (hit : α → Bool) (inner : α → List Ent) : List α → List Ent
  | [] => []
  | T :: rest =>
    if hit T then (if (inner T).isEmpty then [] else inner T ++ (rest.map items).flatten)
    else concatPick items hit inner rest

/-! ### MergeIterator -/

/-- two-pointer merge of two positioned child streams; `rev` flips the comparison
(`fix`: `cmp < 0 ⇒ swap when reverse`). Fuel = sum of the lengths. -/
def merge2F (adv : Side) (rev : Bool) : Nat → List Ent → List Ent → List Ent
  | 0, _, _ => []
  | _ + 1, [], ys => ys
  | _ + 1, x :: xs, [] => x :: xs
  | n + 1, x :: xs, y :: ys =>
    if ikEq x y then
      (if adv = .right then x :: merge2F adv rev n xs ys else y :: merge2F adv rev n xs ys)
    else if (if rev then ikLt y x else ikLt x y) then x :: merge2F adv rev n xs (y :: ys)
    else y :: merge2F adv rev n (x :: xs) ys

/-- the `curKey` loop of `MergeIterator.Next`: entries equal to the one just yielded are skipped -/
def dedupFrom (prev : Ent) : List Ent → List Ent
  | [] => []
  | y :: r => if ikEq prev y then dedupFrom prev r else y :: dedupFrom y r

def dedupAdj : List Ent → List Ent
  | [] => []
  | x :: r => x :: dedupFrom x r

def merge2 (adv : Side) (rev : Bool) (xs ys : List Ent) : List Ent :=
  dedupAdj (merge2F adv rev (xs.length + ys.length) xs ys)

/-- `NewMergeIterator`: 0 ⇒ empty, 1 ⇒ the iterator itself, otherwise split at `len/2`. -/
def mergeTreeF (adv : Side) (rev : Bool) : Nat → List (List Ent) → List Ent
  | 0, _ => []
  | _ + 1, [] => []
  | _ + 1, [a] => a
  | n + 1, a :: b :: l =>
    let all := a :: b :: l
    let mid := all.length / 2
    merge2 adv rev (mergeTreeF adv rev n (all.take mid)) (mergeTreeF adv rev n (all.drop mid))

def mergeTree (adv : Side) (rev : Bool) (l : List (List Ent)) : List Ent :=
  mergeTreeF adv rev l.length l

/-! ### options -/

structure Opts where
  reverse : Bool := false
  allVersions : Bool := false
  prefixIsKey : Bool := false
  pfx : Bytes := []
  sinceTs : Nat := 0
  lower : Bytes := []
  upper : Bytes := []
  deriving DecidableEq, Repr, Inhabited

def isPrefix : Bytes → Bytes → Bool
  | [], _ => true
  | _ :: _, [] => false
  | p :: ps, k :: ks => decide (p = k) && isPrefix ps ks

/-! ### database state and the source list of an iterator -/

structure DB where
  /-- active memtable, ascending in `compareKeys` -/
  mem : List Ent := []
  /-- `lsm.immutables`: oldest first -/
  imms : List (List Ent) := []
  /-- level-0 tables as `iteratorsReversed` lists them: newest first; a table is its list of blocks -/
  l0 : List (List (List Ent)) := []
  /-- main tables of the base level (the only level >= 1 the harness fills), ascending and
  disjoint; a table is its list of blocks -/
  lvl : List (List (List Ent)) := []
  /-- `oracle.nextTxnTs` -/
  nextTs : Nat := 1
  deriving Repr

structure Write where
  key : Bytes
  val : Bytes
  del : Bool
  exp : Bool
  deriving DecidableEq, Repr, Inhabited

def DB.commit (db : DB) (ws : List Write) : DB :=
  { db with mem := ws.foldl (fun m w => upsert .compareKeys ⟨w.key, db.nextTs, w.val, w.del, w.exp⟩ m) db.mem,
            nextTs := db.nextTs + 1 }

/-- non-transactional write (`DB.Set` / `DB.Del`): version `MaxUint64` -/
def DB.plain (db : DB) (w : Write) : DB :=
  { db with mem := upsert .compareKeys ⟨w.key, maxU64, w.val, w.del, w.exp⟩ db.mem }

def DB.rotate (db : DB) : DB := { db with mem := [], imms := db.imms ++ [db.mem] }

def commonPrefixLen : Bytes → Bytes → Nat
  | a :: as, b :: bs => if a = b then commonPrefixLen as bs + 1 else 0
  | _, _ => 0

/-- `tableBuilder.add` / `tryFinishBlock` (block size 8 KiB as `db.go:Open` fixes it): cut the
entries of a flushed memtable into data blocks.  `endB` = bytes written into the current block,
`n` = its entry count, `base` = its base key (user key ++ timestamp suffix; the 4-byte CF header
is counted separately), `cur` = its entries, newest first.  A value of at least `vt` bytes sits
in the value log and is stored as a 16-byte pointer. -/
def cutGo (vt : Nat) : Nat → Nat → Bytes → List Ent → List Ent → List (List Ent)
  | _, _, _, cur, [] => if cur.isEmpty then [] else [cur.reverse]
  | endB, n, base, cur, e :: rest =>
    let ik := e.key ++ tsSuffix e.ver
    let L := 4 + ik.length
    let V := if e.val.length < vt then e.val.length else 16
    if 0 < n ∧ 8192 < endB + 6 + L + (V + 2) + ((n + 1) * 4 + 16) then
      cur.reverse :: cutGo vt (4 + L + V + 2) 1 ik [e] rest
    else
      let diff := if n = 0 then L else L - (4 + commonPrefixLen ik base)
      cutGo vt (endB + 4 + diff + V + 2) (n + 1) (if n = 0 then ik else base) (e :: cur) rest

def cutBySize (vt : Nat) (l : List Ent) : List (List Ent) := cutGo vt 0 0 [] [] l

/-- flush of the oldest immutable memtable into a new level-0 table (`vt` = value threshold) -/
def DB.flush (db : DB) (vt : Nat) : DB :=
  match db.imms with
  | [] => db
  | t :: rest => { db with imms := rest, l0 := (if t.isEmpty then db.l0 else cutBySize vt t :: db.l0) }

/-- user-key ranges `[min, max]` of two non-empty sorted runs intersect (`getKeyRange` takes all
versions of the smallest and largest user key) -/
def rangesOverlap (a b : List Ent) : Bool :=
  match a.head?, a.getLast?, b.head?, b.getLast? with
  | some a0, some a1, some b0, some b1 => !Bytes.lt a1.key b0.key && !Bytes.lt b1.key a0.key
  | _, _, _, _ => false

/-- `l0move` + ingest `drain` of the single level-0 table: it is merged (kept on equal internal
keys) with the main tables of the base level whose key range it overlaps; the result replaces them.
No entry is dropped by the compaction. -/
def DB.sink (c : IterCfg) (db : DB) (vt : Nat) : DB :=
  match db.l0 with
  | [T] =>
    let top := T.flatten
    let before := db.lvl.takeWhile (fun X => !rangesOverlap top X.flatten)
    let restL := db.lvl.dropWhile (fun X => !rangesOverlap top X.flatten)
    let hitL := restL.takeWhile (fun X => rangesOverlap top X.flatten)
    let after := restL.dropWhile (fun X => rangesOverlap top X.flatten)
    let merged := merge2 c.eqKeyAdvances false top hitL.flatten.flatten
    -- tables to the left of the new one: those entirely below it
    let lo := (before ++ after).filter (fun X => match X.flatten.head?, merged.head? with
      | some x, some m => ikLt x m | _, _ => true)
    let hi := (before ++ after).filter (fun X => match X.flatten.head?, merged.head? with
      | some x, some m => !ikLt x m | _, _ => false)
    { db with l0 := [], lvl := lo ++ [cutBySize vt merged] ++ hi }
  | _ => db

def DB.readTs (db : DB) : Nat := db.nextTs - 1

/-- pending writes of the iterating transaction as `newPendingWritesIterator` sorts them
(one entry per key: `pendingWrites` is a map; version = read timestamp) -/
def pendingList (c : IterCfg) (readTs : Nat) (ws : List Write) : List Ent :=
  ws.foldl (fun m w => upsert c.pendingCmp ⟨w.key, readTs, w.val, w.del, w.exp⟩ m) []

/-- LSM sources in the order `LSM.NewIterators` lists them (each as its list of blocks;
a memtable is one block) -/
def lsmSources (c : IterCfg) (db : DB) : List (List (List Ent)) :=
  [[db.mem]] ++ ((match c.immOrder with | .oldestFirst => db.imms | .newestFirst => db.imms.reverse).map fun m => [m]) ++ db.l0

/-- a source as the merge iterator sees it: comparator of the source + entries -/
structure Source where
  cmp : KeyCmp
  /-- entries in the source's order, block by block (one block unless the source is an SST) -/
  blocks : List (List Ent)
  /-- wrapped in a `readTsIterator` -/
  wrapped : Bool
  /-- `some ts`: a `ConcatIterator` over the tables `ts` of a level (then `blocks = ts.flatten`) -/
  tables : Option (List (List (List Ent)))
  deriving Repr

def Source.items (s : Source) : List Ent := s.blocks.flatten

/-- forward table selection: `CompareKeys(MaxKey, key) <op> 0` -/
def hitFwd (op : CmpOp) (t : Ent) (T : List (List Ent)) : Bool :=
  match T.flatten.getLast? with | some m => icmp op m t | none => false

/-- reverse table selection: `CompareKeys(MinKey, key) <op> 0` -/
def hitRev (op : CmpOp) (t : Ent) (T : List (List Ent)) : Bool :=
  match T.flatten.head? with | some m => icmp op m t | none => false

/-- `ConcatIterator.Seek` over the tables of a level -/
def concatSeek (c : IterCfg) (rev : Bool) (t : Ent) (ts : List (List (List Ent))) : List Ent :=
  if rev then
    concatPick (fun T => T.flatten.reverse) (hitRev c.concatRevOp t)
      (fun T => T.flatten.reverse.dropWhile (fun e => ikLt t e)) ts.reverse
  else
    concatPick List.flatten (hitFwd c.concatFwdOp t) (fun T => blockSeek c.sstSeekFallsThrough t T) ts

/-- `Seek t` on one source -/
def Source.seek (c : IterCfg) (s : Source) (rev : Bool) (t : Ent) : List Ent :=
  match s.tables with
  | some ts => concatSeek c rev t ts
  | none =>
  match s.cmp with
  | .rawBytes => srcSeek .rawBytes rev t s.items
  | .compareKeys => if rev then srcSeek .compareKeys true t s.items else blockSeek c.sstSeekFallsThrough t s.blocks

/-- the `ConcatIterator` of the base level (absent when the level holds no table) -/
def levelSource (db : DB) (wrapped : Bool) : List Source :=
  if db.lvl.isEmpty then [] else [⟨.compareKeys, db.lvl.flatten, wrapped, some db.lvl⟩]

def txnSources (c : IterCfg) (db : DB) (update : Bool) (pend : List Write) : List Source :=
  (if update && !pend.isEmpty then [⟨c.pendingCmp, [pendingList c db.readTs pend], false, none⟩] else []) ++
  (lsmSources c db).map (fun s => ⟨.compareKeys, s, true, none⟩) ++ levelSource db true

def dbSources (c : IterCfg) (db : DB) : List Source :=
  (lsmSources c db).map (fun s => ⟨.compareKeys, s, false, none⟩) ++ levelSource db false

/-- the stream a positioned source yields (`readTsIterator.ensureVisible` = a filter) -/
def Source.wrap (c : IterCfg) (readTs : Nat) (s : Source) (l : List Ent) : List Ent :=
  if s.wrapped then l.filter (fun e => !c.wrapReadTsOp.nat e.ver readTs) else l

def mergedRewind (c : IterCfg) (rev : Bool) (readTs : Nat) (srcs : List Source) : List Ent :=
  mergeTree c.eqKeyAdvances rev (srcs.map fun s => s.wrap c readTs (srcRewind rev s.items))

def mergedSeek (c : IterCfg) (rev : Bool) (readTs : Nat) (t : Ent) (srcs : List Source) : List Ent :=
  mergeTree c.eqKeyAdvances rev (srcs.map fun s => s.wrap c readTs (s.seek c rev t))

/-! ### TxnIterator -/

structure TxnIt where
  srcs : List Source
  readTs : Nat
  opt : Opts
  /-- underlying merged iterator: entries still to come, head = current position -/
  stream : List Ent := []
  lastKey : Bytes := []
  cur : Option Ent := none
  seekOOR : Bool := false
  deriving Repr

def prefixOk (o : Opts) (k : Bytes) : Bool :=
  if o.pfx = [] then true
  else if o.prefixIsKey then decide (k = o.pfx) else isPrefix o.pfx k

/-- the filters of `advance` that do not depend on `lastKey`: `true` = the entry is skipped
(read timestamp, since-ts, prefix) -/
def filteredOut (c : IterCfg) (o : Opts) (readTs : Nat) (e : Ent) : Bool :=
  c.txnReadTsOp.nat e.ver readTs || (decide (0 < o.sinceTs) && c.txnSinceOp.nat e.ver o.sinceTs) ||
  !prefixOk o e.key

def belowLower (c : IterCfg) (o : Opts) (k : Bytes) : Bool := decide (o.lower ≠ []) && bcmp c.txnLowerOp k o.lower
def aboveUpper (c : IterCfg) (o : Opts) (k : Bytes) : Bool := decide (o.upper ≠ []) && bcmp c.txnUpperOp k o.upper

/-- `TxnIterator.advance` as written: returns (current item, lastKey, underlying position). -/
def advanceLit (c : IterCfg) (o : Opts) (readTs : Nat) : Bytes → List Ent → Option Ent × Bytes × List Ent
  | lk, [] => (none, lk, [])
  | lk, e :: rest =>
    if belowLower c o e.key then
      (if o.reverse then (none, lk, e :: rest) else advanceLit c o readTs lk rest)
    else if aboveUpper c o e.key then
      (if !o.reverse then (none, lk, e :: rest) else advanceLit c o readTs lk rest)
    else if filteredOut c o readTs e then advanceLit c o readTs lk rest
    else if !o.allVersions && decide (lk ≠ []) && decide (lk = e.key) then advanceLit c o readTs lk rest
    else if e.dead then advanceLit c o readTs (if c.lastKeyOnSkip && !o.reverse then e.key else lk) rest
    else (some e, e.key, e :: rest)

/-- reverse, one version per key, *repaired* rule (`revGroup = newest`; no such code exists yet):
the iterator walks to the last entry of the group — same user key, passing the filters — which is
the newest visible version, and yields it unless it is dead.  `cand` is the group's current
candidate. -/
def advanceRN (c : IterCfg) (o : Opts) (readTs : Nat) : Option Ent → Bytes → List Ent → Option Ent × Bytes × List Ent
  | none, lk, [] => (none, lk, [])
  | some p, _, [] => if p.dead then (none, p.key, []) else (some p, p.key, [p])
  | cand, lk, e :: rest =>
    let chain := fun (lk : Bytes) =>
      if belowLower c o e.key then (none, lk, e :: rest)
      else if aboveUpper c o e.key then advanceRN c o readTs none lk rest
      else if filteredOut c o readTs e then advanceRN c o readTs none lk rest
      else if decide (lk ≠ []) && decide (lk = e.key) then advanceRN c o readTs none lk rest
      else advanceRN c o readTs (some e) lk rest
    match cand with
    | none => chain lk
    | some p =>
      if decide (e.key = p.key) && !filteredOut c o readTs e then advanceRN c o readTs (some e) lk rest
      else if p.dead then chain p.key
      else (some p, p.key, p :: e :: rest)

def advance (c : IterCfg) (o : Opts) (readTs : Nat) (lk : Bytes) (l : List Ent) : Option Ent × Bytes × List Ent :=
  if o.reverse && !o.allVersions && decide (c.revGroup = .newest) then advanceRN c o readTs none lk l
  else advanceLit c o readTs lk l

def TxnIt.setAdv (it : TxnIt) (r : Option Ent × Bytes × List Ent) : TxnIt :=
  { it with cur := r.1, lastKey := r.2.1, stream := r.2.2 }

def TxnIt.adv (c : IterCfg) (it : TxnIt) (lk : Bytes) (l : List Ent) : TxnIt :=
  it.setAdv (advance c it.opt it.readTs lk l)

def TxnIt.rewind (c : IterCfg) (it : TxnIt) : TxnIt :=
  ({ it with seekOOR := false }).adv c [] (mergedRewind c it.opt.reverse it.readTs it.srcs)

def TxnIt.next (c : IterCfg) (it : TxnIt) : TxnIt :=
  if it.seekOOR then { it with cur := none }
  else it.adv c it.lastKey it.stream.tail

/-- the fallback loop of reverse `Seek`: `for Valid && Key > key { iitr.Next(); advance() }` -/
def skipGreater (c : IterCfg) (key : Bytes) : Nat → TxnIt → TxnIt
  | 0, it => it
  | n + 1, it =>
    match it.cur with
    | none => it
    | some e => if Bytes.lt key e.key then skipGreater c key n (it.adv c it.lastKey it.stream.tail) else it

def TxnIt.seek (c : IterCfg) (it : TxnIt) (key : Bytes) : TxnIt :=
  let it := { it with lastKey := [], seekOOR := false }
  let o := it.opt
  if key = [] then it.adv c [] (mergedRewind c o.reverse it.readTs it.srcs)
  else if !o.reverse then
    if o.upper ≠ [] ∧ bcmp c.txnSeekUpperOp key o.upper then { it with cur := none, seekOOR := true }
    else
      let key := if o.lower ≠ [] ∧ bcmp c.txnSeekLowerOp key o.lower then o.lower else key
      it.adv c [] (mergedSeek c false it.readTs ⟨key, it.readTs, [], false, false⟩ it.srcs)
  else
    if o.lower ≠ [] ∧ bcmp c.txnSeekLowerOp key o.lower then { it with cur := none, seekOOR := true }
    else
      let key := if o.upper ≠ [] ∧ bcmp c.txnSeekUpperOp key o.upper then o.upper else key
      let it1 := it.adv c [] (mergedSeek c true it.readTs ⟨key, 0, [], false, false⟩ it.srcs)
      let bad := match it1.cur with | none => true | some e => Bytes.lt key e.key
      if bad then
        let all := mergedRewind c true it.readTs it.srcs
        skipGreater c key (all.length + 1) (it1.adv c it1.lastKey all)
      else it1

/-! ### DBIterator -/

structure DbIt where
  srcs : List Source
  asc : Bool
  lower : Bytes
  upper : Bytes
  stream : List Ent := []
  cur : Option Ent := none
  seekOOR : Bool := false
  deriving Repr

/-- `DBIterator.populate` (+ `materialize`: deleted/expired entries are skipped) -/
def populate (c : IterCfg) (asc : Bool) (lower upper : Bytes) : List Ent → Option Ent × List Ent
  | [] => (none, [])
  | e :: rest =>
    if lower ≠ [] ∧ bcmp c.dbLowerOp e.key lower then
      (if !asc then (none, e :: rest) else populate c asc lower upper rest)
    else if upper ≠ [] ∧ bcmp c.dbUpperOp e.key upper then
      (if asc then (none, e :: rest) else populate c asc lower upper rest)
    else if e.exp || (c.dbSkipsDeleted && e.del) then populate c asc lower upper rest
    else (some e, e :: rest)

def DbIt.pop (c : IterCfg) (it : DbIt) (l : List Ent) : DbIt :=
  let r := populate c it.asc it.lower it.upper l
  { it with cur := r.1, stream := r.2 }

def DbIt.rewind (c : IterCfg) (it : DbIt) : DbIt :=
  ({ it with seekOOR := false }).pop c (mergedRewind c (!it.asc) 0 it.srcs)

def DbIt.next (c : IterCfg) (it : DbIt) : DbIt :=
  if it.seekOOR then { it with cur := none } else it.pop c it.stream.tail

def DbIt.seek (c : IterCfg) (it : DbIt) (key : Bytes) : DbIt :=
  let it := { it with seekOOR := false }
  if it.asc then
    if it.upper ≠ [] ∧ bcmp c.dbSeekUpperOp key it.upper then { it with cur := none, seekOOR := true }
    else
      let key := if it.lower ≠ [] ∧ bcmp c.dbSeekLowerOp key it.lower then it.lower else key
      it.pop c (mergedSeek c false 0 ⟨key, maxU64, [], false, false⟩ it.srcs)
  else
    if it.lower ≠ [] ∧ bcmp c.dbSeekLowerOp key it.lower then { it with cur := none, seekOOR := true }
    else
      let key := if it.upper ≠ [] ∧ bcmp c.dbSeekUpperOp key it.upper then it.upper else key
      let ts := match c.dbRevSeekTs with | .max => maxU64 | .zero => 0
      it.pop c (mergedSeek c true 0 ⟨key, ts, [], false, false⟩ it.srcs)

/-! ### cursor operations and runs -/

inductive CurOp where
  | rewind | seek (k : Bytes) | next
  deriving DecidableEq, Repr

def TxnIt.step (c : IterCfg) (it : TxnIt) : CurOp → TxnIt
  | .rewind => it.rewind c
  | .seek k => it.seek c k
  | .next => it.next c

def DbIt.step (c : IterCfg) (it : DbIt) : CurOp → DbIt
  | .rewind => it.rewind c
  | .seek k => it.seek c k
  | .next => it.next c

/-- what the caller observes after every cursor operation -/
def runTxn (c : IterCfg) : TxnIt → List CurOp → List (Option Ent)
  | _, [] => []
  | it, op :: ops => let it' := it.step c op; it'.cur :: runTxn c it' ops

def runDb (c : IterCfg) : DbIt → List CurOp → List (Option Ent)
  | _, [] => []
  | it, op :: ops => let it' := it.step c op; it'.cur :: runDb c it' ops

def newTxnIt (c : IterCfg) (db : DB) (update : Bool) (pend : List Write) (o : Opts) : TxnIt :=
  { srcs := txnSources c db update pend, readTs := db.readTs, opt := o }

def newDbIt (c : IterCfg) (db : DB) (asc : Bool) (lower upper : Bytes) : DbIt :=
  { srcs := dbSources c db, asc := asc, lower := lower, upper := upper }

end NoKV.Iter

/-
Order theory of internal keys (`compareKeys`) and of sorted lists of entries.
-/
import NoKVModel.Iter.Spec

namespace NoKV.Iter

theorem ikEq_iff {a b : Ent} : ikEq a b = true ↔ (a.key = b.key ∧ a.ver = b.ver) := by
  simp [ikEq]

theorem ikEq_refl (a : Ent) : ikEq a a = true := by simp [ikEq]

theorem ikEq_symm {a b : Ent} (h : ikEq a b = true) : ikEq b a = true := by
  rw [ikEq_iff] at *; exact ⟨h.1.symm, h.2.symm⟩

theorem ikEq_trans {a b c : Ent} (h1 : ikEq a b = true) (h2 : ikEq b c = true) : ikEq a c = true := by
  rw [ikEq_iff] at *; exact ⟨h1.1.trans h2.1, h1.2.trans h2.2⟩

theorem ikLt_iff {a b : Ent} :
    ikLt a b = true ↔ (Bytes.lt a.key b.key = true ∨ (a.key = b.key ∧ b.ver < a.ver)) := by
  simp [ikLt]

/-- direction-aware order: forward `compareKeys a b < 0`, reverse `compareKeys a b > 0` -/
def dirLt (rev : Bool) (a b : Ent) : Bool := if rev then ikLt b a else ikLt a b

/-- what the merge lemmas need from the order -/
structure OrdOK (lt : Ent → Ent → Bool) : Prop where
  irrefl : ∀ a b, ikEq a b = true → lt a b = false
  trans : ∀ a b c, lt a b = true → lt b c = true → lt a c = true
  tri : ∀ a b, lt a b = true ∨ ikEq a b = true ∨ lt b a = true
  congrL : ∀ a a' b, ikEq a a' = true → lt a b = lt a' b
  congrR : ∀ a b b', ikEq b b' = true → lt a b = lt a b'

theorem ikLt_irrefl' (a b : Ent) (h : ikEq a b = true) : ikLt a b = false := by
  rw [ikEq_iff] at h
  cases hh : ikLt a b with
  | false => rfl
  | true =>
    rw [ikLt_iff] at hh
    rcases hh with hh | ⟨_, hh⟩
    · rw [h.1, Bytes.lt_irrefl] at hh; cases hh
    · omega

theorem ikLt_trans {a b c : Ent} (h1 : ikLt a b = true) (h2 : ikLt b c = true) : ikLt a c = true := by
  rw [ikLt_iff] at *
  rcases h1 with h1 | ⟨e1, v1⟩ <;> rcases h2 with h2 | ⟨e2, v2⟩
  · exact Or.inl (Bytes.lt_trans h1 h2)
  · rw [← e2]; exact Or.inl h1
  · rw [e1]; exact Or.inl h2
  · exact Or.inr ⟨e1.trans e2, by omega⟩

theorem ikLt_tri (a b : Ent) : ikLt a b = true ∨ ikEq a b = true ∨ ikLt b a = true := by
  rcases Bytes.lt_or_eq_or_gt a.key b.key with h | h | h
  · exact Or.inl (ikLt_iff.mpr (Or.inl h))
  · rcases Nat.lt_trichotomy a.ver b.ver with hv | hv | hv
    · exact Or.inr (Or.inr (ikLt_iff.mpr (Or.inr ⟨h.symm, hv⟩)))
    · exact Or.inr (Or.inl (ikEq_iff.mpr ⟨h, hv⟩))
    · exact Or.inl (ikLt_iff.mpr (Or.inr ⟨h, hv⟩))
  · exact Or.inr (Or.inr (ikLt_iff.mpr (Or.inl h)))

theorem ikLt_congrL (a a' b : Ent) (h : ikEq a a' = true) : ikLt a b = ikLt a' b := by
  rw [ikEq_iff] at h
  simp only [ikLt, h.1, h.2]

theorem ikLt_congrR (a b b' : Ent) (h : ikEq b b' = true) : ikLt a b = ikLt a b' := by
  rw [ikEq_iff] at h
  simp only [ikLt, h.1, h.2]

theorem ikLt_asymm {a b : Ent} (h : ikLt a b = true) : ikLt b a = false := by
  cases hh : ikLt b a with
  | false => rfl
  | true =>
    have := ikLt_trans h hh
    rw [ikLt_irrefl' a a (ikEq_refl a)] at this; cases this

theorem ordOK_dir (rev : Bool) : OrdOK (dirLt rev) := by
  cases rev
  · exact ⟨fun a b h => by simpa [dirLt] using ikLt_irrefl' a b h,
           fun a b c h1 h2 => by simp [dirLt] at *; exact ikLt_trans h1 h2,
           fun a b => by simpa [dirLt] using ikLt_tri a b,
           fun a a' b h => by simpa [dirLt] using ikLt_congrL a a' b h,
           fun a b b' h => by simpa [dirLt] using ikLt_congrR a b b' h⟩
  · exact ⟨fun a b h => by simpa [dirLt] using ikLt_irrefl' b a (ikEq_symm h),
           fun a b c h1 h2 => by simp [dirLt] at *; exact ikLt_trans h2 h1,
           fun a b => by
             rcases ikLt_tri a b with h | h | h
             · exact Or.inr (Or.inr (by simpa [dirLt] using h))
             · exact Or.inr (Or.inl h)
             · exact Or.inl (by simpa [dirLt] using h),
           fun a a' b h => by simpa [dirLt] using ikLt_congrR b a a' h,
           fun a b b' h => by simpa [dirLt] using ikLt_congrL b b' a h⟩

namespace OrdOK
variable {lt : Ent → Ent → Bool} (ok : OrdOK lt)
include ok

theorem asymm {a b : Ent} (h : lt a b = true) : lt b a = false := by
  cases hh : lt b a with
  | false => rfl
  | true =>
    have := ok.trans _ _ _ h hh
    rw [ok.irrefl a a (ikEq_refl a)] at this; cases this

theorem not_eq_of_lt {a b : Ent} (h : lt a b = true) : ikEq a b = false := by
  cases hh : ikEq a b with
  | false => rfl
  | true => rw [ok.irrefl a b hh] at h; cases h

theorem not_eq_of_gt {a b : Ent} (h : lt b a = true) : ikEq a b = false := by
  cases hh : ikEq a b with
  | false => rfl
  | true => rw [ok.irrefl b a (ikEq_symm hh)] at h; cases h

end OrdOK

/-- strictly sorted in `lt` -/
def Sorted (lt : Ent → Ent → Bool) (l : List Ent) : Prop := l.Pairwise (fun a b => lt a b = true)

instance Sorted.decSorted (lt : Ent → Ent → Bool) (l : List Ent) : Decidable (Sorted lt l) := by
  unfold Sorted; exact inferInstance

theorem Sorted.tail {lt} {x : Ent} {l : List Ent} (h : Sorted lt (x :: l)) : Sorted lt l :=
  (List.pairwise_cons.mp h).2

theorem Sorted.head_lt {lt} {x : Ent} {l : List Ent} (h : Sorted lt (x :: l)) : ∀ y ∈ l, lt x y = true :=
  (List.pairwise_cons.mp h).1

/-- two strictly sorted lists with the same members are equal -/
theorem sorted_ext {lt} (ok : OrdOK lt) : ∀ {l1 l2 : List Ent}, Sorted lt l1 → Sorted lt l2 →
    (∀ e, e ∈ l1 ↔ e ∈ l2) → l1 = l2
  | [], [], _, _, _ => rfl
  | [], y :: _, _, _, h => by have := (h y).mpr (by simp); simp at this
  | x :: _, [], _, _, h => by have := (h x).mp (by simp); simp at this
  | x :: xs, y :: ys, s1, s2, h => by
    have hx : x ∈ y :: ys := (h x).mp (by simp)
    have hy : y ∈ x :: xs := (h y).mpr (by simp)
    have hxy : x = y := by
      rcases List.mem_cons.mp hx with hx | hx
      · exact hx
      · rcases List.mem_cons.mp hy with hy | hy
        · exact hy.symm
        · have a := s2.head_lt x hx
          have b := s1.head_lt y hy
          rw [ok.asymm a] at b; cases b
    subst hxy
    have : xs = ys := by
      apply sorted_ext ok s1.tail s2.tail
      intro e
      constructor
      · intro he
        rcases List.mem_cons.mp ((h e).mp (List.mem_cons_of_mem _ he)) with h1 | h1
        · subst h1
          have := s1.head_lt e he
          rw [ok.irrefl e e (ikEq_refl e)] at this; cases this
        · exact h1
      · intro he
        rcases List.mem_cons.mp ((h e).mpr (List.mem_cons_of_mem _ he)) with h1 | h1
        · subst h1
          have := s2.head_lt e he
          rw [ok.irrefl e e (ikEq_refl e)] at this; cases this
        · exact h1
    rw [this]

/-- in a strictly sorted list two members with the same internal key are the same member -/
theorem Sorted.eq_of_ikEq {lt} (ok : OrdOK lt) {l : List Ent} (h : Sorted lt l) {a b : Ent}
    (ha : a ∈ l) (hb : b ∈ l) (hab : ikEq a b = true) : a = b := by
  induction l with
  | nil => cases ha
  | cons x xs ih =>
    rcases List.mem_cons.mp ha with ha1 | ha1 <;> rcases List.mem_cons.mp hb with hb1 | hb1
    · rw [ha1, hb1]
    · have := h.head_lt b hb1
      rw [← ha1, ok.irrefl a b hab] at this; cases this
    · have := h.head_lt a ha1
      rw [← hb1, ok.irrefl b a (ikEq_symm hab)] at this; cases this
    · exact ih h.tail ha1 hb1

theorem sorted_reverse {l : List Ent} (rev : Bool) (h : Sorted (dirLt rev) l) : Sorted (dirLt (!rev)) l.reverse := by
  unfold Sorted at *
  rw [List.pairwise_reverse]
  cases rev <;> simpa [dirLt] using h

end NoKV.Iter

/-
Specification side of C06, written directly from the property statement over the abstract
snapshot (no cursor mechanics, no merge, no `lastKey`).

The snapshot of an iterator is the set of internal entries `(key, version) ↦ (value, dead?)`
where, for an internal key present in several places, the most recent write wins
(pending writes of the iterating transaction, then the active memtable, the immutable
memtables newest first, the level-0 tables newest first).  It is represented by the
`compareKeys`-sorted list of these entries.
-/
import NoKVModel.Iter.Model

namespace NoKV.Iter

/-- keep the first occurrence of every internal key -/
def firstWins : List Ent → List Ent
  | [] => []
  | e :: r => e :: (firstWins r).filter (fun f => !ikEq e f)

def insertIk (e : Ent) : List Ent → List Ent
  | [] => [e]
  | x :: xs => if ikLt e x then e :: x :: xs else x :: insertIk e xs

def isortIk (l : List Ent) : List Ent := l.foldr insertIk []

/-- the snapshot: sources listed from most recent to least recent -/
def snapshotOf (srcs : List (List Ent)) : List Ent := isortIk (firstWins srcs.flatten)

/-- LSM sources by true recency (does not depend on any configuration flag) -/
def DB.byRecency (db : DB) : List (List Ent) :=
  [db.mem] ++ db.imms.reverse ++ db.l0.map List.flatten ++ (if db.lvl.isEmpty then [] else [db.lvl.flatten.flatten])

/-- the transaction's own writes: the last write to a key wins; version = read timestamp -/
def pendingEnts (readTs : Nat) (ws : List Write) : List Ent :=
  firstWins (ws.reverse.map fun w => ⟨w.key, readTs, w.val, w.del, w.exp⟩)

def txnSnapshot (db : DB) (update : Bool) (pend : List Write) : List Ent :=
  snapshotOf ((if update then [pendingEnts db.readTs pend] else []) ++ db.byRecency)

def dbSnapshot (db : DB) : List Ent := snapshotOf db.byRecency

/-- point read at `readTs`: the newest version `≤ readTs` of the key in the snapshot -/
def specGet (snap : List Ent) (readTs : Nat) (k : Bytes) : Option Ent :=
  (snap.filter fun e => decide (e.key = k) && decide (e.ver ≤ readTs)).head?

def inBounds (lower upper : Bytes) (k : Bytes) : Bool :=
  (decide (lower = []) || Bytes.le lower k) && (decide (upper = []) || Bytes.lt k upper)

/-- visible to a transaction iterator: version ≤ read timestamp, > since-ts when given,
key inside `[lower, upper)` and matching the prefix (or equal to it for a key iterator) -/
def specVisible (o : Opts) (readTs : Nat) (e : Ent) : Bool :=
  decide (e.ver ≤ readTs) && (decide (o.sinceTs = 0) || decide (o.sinceTs < e.ver)) &&
  inBounds o.lower o.upper e.key && prefixOk o e.key

/-- entries that are the newest among the entries of their user key -/
def newestPerKey (l : List Ent) : List Ent :=
  l.filter fun e => l.all fun f => !decide (f.key = e.key) || decide (f.ver ≤ e.ver)

/-- the whole scan of a transaction iterator, in iteration order -/
def specTxnList (snap : List Ent) (o : Opts) (readTs : Nat) : List Ent :=
  let vis := snap.filter (specVisible o readTs)
  let fwd := (if o.allVersions then vis else newestPerKey vis).filter fun e => !e.dead
  if o.reverse then fwd.reverse else fwd

/-- the whole scan of a DB iterator (an all-versions iterator by design: the Percolator scan
of `raftstore/kv/apply.go` walks the versions of a key with it) -/
def specDbList (snap : List Ent) (asc : Bool) (lower upper : Bytes) : List Ent :=
  let fwd := (snap.filter fun e => inBounds lower upper e.key).filter fun e => !e.dead
  if asc then fwd else fwd.reverse

/-- the cursor over the scan: `Rewind` = start, `Seek t` = first item at or after `t` in
iteration order, `Next` = following item.  `emptyIsRewind`: `TxnIterator.Seek` documents an empty
key as `Rewind`. -/
def specStep (full : List Ent) (rev : Bool) (emptyIsRewind : Bool) (cur : List Ent) : CurOp → List Ent
  | .rewind => full
  | .seek k =>
    if emptyIsRewind ∧ k = [] then full
    else if rev then full.dropWhile (fun e => Bytes.lt k e.key)
    else full.dropWhile (fun e => Bytes.lt e.key k)
  | .next => cur.tail

def runSpec (full : List Ent) (rev : Bool) (emptyIsRewind : Bool) : List Ent → List CurOp → List (Option Ent)
  | _, [] => []
  | cur, op :: ops =>
    let cur' := specStep full rev emptyIsRewind cur op
    cur'.head? :: runSpec full rev emptyIsRewind cur' ops

def specTxnRun (db : DB) (update : Bool) (pend : List Write) (o : Opts) (ops : List CurOp) : List (Option Ent) :=
  runSpec (specTxnList (txnSnapshot db update pend) o db.readTs) o.reverse true [] ops

def specDbRun (db : DB) (asc : Bool) (lower upper : Bytes) (ops : List CurOp) : List (Option Ent) :=
  runSpec (specDbList (dbSnapshot db) asc lower upper) (!asc) false [] ops

end NoKV.Iter

/-
The merged stream a read-only TxnIterator scans (no pending writes): the part of the snapshot
visible at the read timestamp, in iteration order; forward `Seek` = its `dropWhile`.
-/
import NoKVModel.Iter.DbLemmas

namespace NoKV.Iter

def visAt (readTs : Nat) (e : Ent) : Bool := !CmpOp.gt.nat e.ver readTs

theorem visAt_congr (readTs : Nat) : ∀ a b, ikEq a b = true → visAt readTs a = visAt readTs b := by
  intro a b h; simp only [visAt, (ikEq_iff.mp h).2]

theorem txnSources_ro (c : IterCfg) (db : DB) : txnSources c db false [] = lsmAll c db true := by
  simp [txnSources, lsmAll]

theorem wrapF_vis (c : IterCfg) (hw : c.wrapReadTsOp = .gt) (rts : Nat) (l : List Ent) :
    wrapF c rts true l = l.filter (visAt rts) := by
  simp only [wrapF, if_true, hw]; rfl

theorem txn_mergedRewind (c : IterCfg) (hc : c.TxnGood) (db : DB) (h : db.WF) (rev : Bool) :
    mergedRewind c rev db.readTs (txnSources c db false []) =
      if rev then ((dbSnapshot db).filter (visAt db.readTs)).reverse else (dbSnapshot db).filter (visAt db.readTs) := by
  obtain ⟨hops, hadv, himm, _, _, _, hft, hcc⟩ := hc
  obtain ⟨_, _, _, _, _, hw, _⟩ := hops
  rw [txnSources_ro, lsm_mergedRewind c himm hft hcc db h, hadv]
  unfold dbSnapshot
  simp only [wrapF_vis c hw]
  cases rev
  · have := mergeTree_filter false _ (visAt_congr db.readTs) _ h.allSorted
    rw [mergeTree_eq_snapshot _ h.allSorted] at this
    simpa [List.map_map, Function.comp_def] using this
  · have hs' : AllSorted (dirLt true) (db.byRecency.map List.reverse) := by
      intro s hs1
      obtain ⟨u, hu, rfl⟩ := List.mem_map.mp hs1
      exact sorted_reverse false (h.allSorted u hu)
    have := mergeTree_filter true _ (visAt_congr db.readTs) _ hs'
    rw [mergeTree_rev_eq_snapshot _ h.allSorted, List.map_map] at this
    simpa [Function.comp_def, List.filter_reverse] using this

theorem txn_mergedSeek_fwd (c : IterCfg) (hc : c.TxnGood) (db : DB) (h : db.WF) (t : Ent) :
    mergedSeek c false db.readTs t (txnSources c db false []) =
      ((dbSnapshot db).dropWhile (fun e => ikLt e t)).filter (visAt db.readTs) := by
  obtain ⟨hops, hadv, himm, _, _, _, hft, hcc⟩ := hc
  obtain ⟨_, _, _, _, _, hw, _⟩ := hops
  rw [txnSources_ro, lsm_mergedSeek c himm hft hcc db h, hadv]
  unfold dbSnapshot
  simp only [wrapF_vis c hw]
  have h1 := mergeTree_filter false _ (visAt_congr db.readTs) _ (allSorted_map_dropWhile (fun e => ikLt e t) _ h.allSorted)
  rw [mergeTree_dropWhile false (anti_ikLt_target t) _ h.allSorted, mergeTree_eq_snapshot _ h.allSorted, List.map_map] at h1
  simpa [Function.comp_def] using h1

end NoKV.Iter

/-
The merged stream a read-only TxnIterator scans (no pending writes): the part of the snapshot
visible at the read timestamp, in iteration order; forward `Seek` = its `dropWhile`.
-/
import NoKVModel.Iter.DbLemmas

namespace NoKV.Iter

def visAt (readTs : Nat) (e : Ent) : Bool := !CmpOp.gt.nat e.ver readTs

theorem visAt_congr (readTs : Nat) : ∀ a b, ikEq a b = true → visAt readTs a = visAt readTs b := by
  intro a b h; simp only [visAt, (ikEq_iff.mp h).2]

theorem txn_mergedRewind (c : IterCfg) (hc : c.TxnGood) (db : DB) (h : db.WF) (rev : Bool) :
    mergedRewind c rev db.readTs (txnSources c db false []) =
      if rev then ((dbSnapshot db).filter (visAt db.readTs)).reverse else (dbSnapshot db).filter (visAt db.readTs) := by
  obtain ⟨hops, hadv, himm, _, _, _, _⟩ := hc
  obtain ⟨_, _, _, _, _, hw, _⟩ := hops
  unfold mergedRewind txnSources dbSnapshot
  simp only [Bool.false_and, Bool.false_eq_true, if_false, List.nil_append]
  rw [hadv, List.map_map]
  have hitems := lsmSources_items c himm db
  cases rev
  · have : (lsmSources c db).map ((fun s : Source => s.wrap c db.readTs (srcRewind false s.items)) ∘ fun s => ⟨.compareKeys, s, true⟩)
        = db.byRecency.map (List.filter (visAt db.readTs)) := by
      rw [← hitems, List.map_map]; apply List.map_congr_left; intro s _
      simp [Source.wrap, srcRewind, Source.items, hw]
      rfl
    rw [this, mergeTree_filter false _ (visAt_congr _) _ h.allSorted, mergeTree_eq_snapshot _ h.allSorted]
    simp
  · have : (lsmSources c db).map ((fun s : Source => s.wrap c db.readTs (srcRewind true s.items)) ∘ fun s => ⟨.compareKeys, s, true⟩)
        = (db.byRecency.map List.reverse).map (List.filter (visAt db.readTs)) := by
      rw [← hitems, List.map_map, List.map_map]; apply List.map_congr_left; intro s _
      simp [Source.wrap, srcRewind, Source.items, hw]
      rfl
    have hs' : AllSorted (dirLt true) (db.byRecency.map List.reverse) := by
      intro s hs1
      obtain ⟨u, hu, rfl⟩ := List.mem_map.mp hs1
      exact sorted_reverse false (h.allSorted u hu)
    rw [this, mergeTree_filter true _ (visAt_congr _) _ hs', mergeTree_rev_eq_snapshot _ h.allSorted]
    simp [List.filter_reverse]

theorem txn_mergedSeek_fwd (c : IterCfg) (hc : c.TxnGood) (db : DB) (h : db.WF) (t : Ent) :
    mergedSeek c false db.readTs t (txnSources c db false []) =
      ((dbSnapshot db).dropWhile (fun e => ikLt e t)).filter (visAt db.readTs) := by
  obtain ⟨hops, hadv, himm, _, _, _, hft⟩ := hc
  obtain ⟨_, _, _, _, _, hw, _⟩ := hops
  unfold mergedSeek txnSources dbSnapshot
  simp only [Bool.false_and, Bool.false_eq_true, if_false, List.nil_append]
  rw [hadv, List.map_map]
  have hitems := lsmSources_items c himm db
  have : (lsmSources c db).map ((fun s : Source => s.wrap c db.readTs (s.seek c false t)) ∘ fun s => ⟨.compareKeys, s, true⟩)
      = (db.byRecency.map (List.dropWhile (fun e => ikLt e t))).map (List.filter (visAt db.readTs)) := by
    rw [← hitems, List.map_map, List.map_map]; apply List.map_congr_left; intro s hs
    have := lsmSources_blocks c himm db h s hs
    simp [Source.wrap, Source.seek, hft, blockSeek_source t s this.1 this.2, hw]
    rfl
  rw [this, mergeTree_filter false _ (visAt_congr _) _ (allSorted_map_dropWhile _ _ h.allSorted),
    mergeTree_dropWhile false (anti_ikLt_target t) _ h.allSorted, mergeTree_eq_snapshot _ h.allSorted]

end NoKV.Iter

/-
The specification's snapshot (`snapshotOf`: flatten the sources from most to least recent, keep
the first occurrence of every internal key, sort) is what the merge-iterator tree yields.
-/
import NoKVModel.Iter.MergeLemmas

namespace NoKV.Iter

/-- first occurrence of its internal key in a list -/
def FirstOcc : List Ent → Ent → Prop
  | [], _ => False
  | x :: r, e => e = x ∨ (ikEq x e = false ∧ FirstOcc r e)

theorem mem_firstWins (l : List Ent) (e : Ent) : e ∈ firstWins l ↔ FirstOcc l e := by
  induction l with
  | nil => simp [firstWins, FirstOcc]
  | cons x r ih =>
    simp only [firstWins, List.mem_cons, List.mem_filter, ih, FirstOcc]
    constructor
    · rintro (h | ⟨h1, h2⟩)
      · exact Or.inl h
      · exact Or.inr ⟨by simpa using h2, h1⟩
    · rintro (h | ⟨h1, h2⟩)
      · exact Or.inl h
      · exact Or.inr ⟨h2, by simpa using h1⟩

theorem firstOcc_mem {l : List Ent} {e : Ent} (h : FirstOcc l e) : e ∈ l := by
  induction l with
  | nil => cases h
  | cons x r ih =>
    rcases h with h | ⟨_, h⟩
    · simp [h]
    · exact List.mem_cons_of_mem _ (ih h)

theorem firstOcc_append (a b : List Ent) (e : Ent) :
    FirstOcc (a ++ b) e ↔ (FirstOcc a e ∨ (NoKey a e ∧ FirstOcc b e)) := by
  induction a with
  | nil => simp [FirstOcc, NoKey]
  | cons x r ih =>
    simp only [List.cons_append, FirstOcc, ih, NoKey, List.mem_cons, forall_eq_or_imp]
    constructor
    · rintro (h | ⟨h1, h2 | ⟨h2, h3⟩⟩)
      · exact Or.inl (Or.inl h)
      · exact Or.inl (Or.inr ⟨h1, h2⟩)
      · exact Or.inr ⟨⟨h1, h2⟩, h3⟩
    · rintro ((h | ⟨h1, h2⟩) | ⟨⟨h1, h2⟩, h3⟩)
      · exact Or.inl h
      · exact Or.inr ⟨h1, Or.inl h2⟩
      · exact Or.inr ⟨h1, Or.inr ⟨h2, h3⟩⟩

theorem firstOcc_of_sorted {lt} (ok : OrdOK lt) {s : List Ent} (hs : Sorted lt s) (e : Ent) :
    FirstOcc s e ↔ e ∈ s := by
  constructor
  · exact firstOcc_mem
  · intro he
    induction s with
    | nil => cases he
    | cons x r ih =>
      rcases List.mem_cons.mp he with h | h
      · exact Or.inl h
      · exact Or.inr ⟨ok.not_eq_of_lt (hs.head_lt e h), ih hs.tail h⟩

theorem firstOcc_flatten {lt} (ok : OrdOK lt) (l : List (List Ent)) (hs : AllSorted lt l) (e : Ent) :
    FirstOcc l.flatten e ↔ FirstWins l e := by
  induction l with
  | nil => simp [FirstOcc, FirstWins]
  | cons s r ih =>
    have hr : AllSorted lt r := fun t ht => hs t (List.mem_cons_of_mem _ ht)
    rw [List.flatten_cons, firstOcc_append, firstOcc_of_sorted ok (hs s (by simp)), ih hr]
    rfl

theorem firstWins_distinct (l : List Ent) : (firstWins l).Pairwise (fun a b => ikEq a b = false) := by
  induction l with
  | nil => simp [firstWins]
  | cons x r ih =>
    simp only [firstWins]
    refine List.pairwise_cons.mpr ⟨?_, ih.sublist List.filter_sublist⟩
    intro y hy
    simpa using (List.mem_filter.mp hy).2

theorem mem_insertIk (e : Ent) (l : List Ent) (x : Ent) : x ∈ insertIk e l ↔ (x = e ∨ x ∈ l) := by
  induction l with
  | nil => simp [insertIk]
  | cons y r ih =>
    simp only [insertIk]
    split
    · simp
    · simp only [List.mem_cons, ih]
      constructor
      · rintro (h | h | h)
        · exact Or.inr (Or.inl h)
        · exact Or.inl h
        · exact Or.inr (Or.inr h)
      · rintro (h | h | h)
        · exact Or.inr (Or.inl h)
        · exact Or.inl h
        · exact Or.inr (Or.inr h)

theorem mem_isortIk (l : List Ent) (x : Ent) : x ∈ isortIk l ↔ x ∈ l := by
  induction l with
  | nil => simp [isortIk]
  | cons y r ih =>
    have : isortIk (y :: r) = insertIk y (isortIk r) := rfl
    rw [this, mem_insertIk, ih]; simp

theorem sorted_insertIk (e : Ent) (l : List Ent) (hs : Sorted ikLt l) (hd : ∀ x ∈ l, ikEq e x = false) :
    Sorted ikLt (insertIk e l) := by
  induction l with
  | nil => simp [insertIk, Sorted]
  | cons y r ih =>
    simp only [insertIk]
    split
    · rename_i hlt
      refine List.pairwise_cons.mpr ⟨?_, hs⟩
      intro z hz
      rcases List.mem_cons.mp hz with hz | hz
      · rw [hz]; exact hlt
      · exact ikLt_trans hlt (hs.head_lt z hz)
    · rename_i hlt
      have hye : ikLt y e = true := by
        rcases ikLt_tri e y with h | h | h
        · exact absurd h hlt
        · rw [hd y (by simp)] at h; cases h
        · exact h
      refine List.pairwise_cons.mpr ⟨?_, ih hs.tail (fun x hx => hd x (List.mem_cons_of_mem _ hx))⟩
      intro z hz
      rcases (mem_insertIk e r z).mp hz with hz | hz
      · rw [hz]; exact hye
      · exact hs.head_lt z hz

theorem sorted_isortIk (l : List Ent) (hd : l.Pairwise (fun a b => ikEq a b = false)) : Sorted ikLt (isortIk l) := by
  induction l with
  | nil => simp [isortIk, Sorted]
  | cons y r ih =>
    have : isortIk (y :: r) = insertIk y (isortIk r) := rfl
    rw [this]
    apply sorted_insertIk y _ (ih hd.tail)
    intro x hx
    exact (List.pairwise_cons.mp hd).1 x ((mem_isortIk r x).mp hx)

theorem dirLt_false : dirLt false = ikLt := by funext a b; simp [dirLt]

theorem sorted_snapshotOf (srcs : List (List Ent)) : Sorted (dirLt false) (snapshotOf srcs) := by
  rw [dirLt_false]; exact sorted_isortIk _ (firstWins_distinct _)

theorem mem_snapshotOf (srcs : List (List Ent)) (hs : AllSorted (dirLt false) srcs) (e : Ent) :
    e ∈ snapshotOf srcs ↔ FirstWins srcs e := by
  unfold snapshotOf
  rw [mem_isortIk, mem_firstWins, firstOcc_flatten (ordOK_dir false) srcs hs]

/-- **Merge lemma (forward).** -/
theorem mergeTree_eq_snapshot (srcs : List (List Ent)) (hs : AllSorted (dirLt false) srcs) :
    mergeTree .right false srcs = snapshotOf srcs := by
  apply sorted_ext (ordOK_dir false) (mergeTree_sorted false srcs hs) (sorted_snapshotOf srcs)
  intro e
  rw [mem_mergeTree false srcs hs, mem_snapshotOf srcs hs]

theorem firstWins_map_reverse (l : List (List Ent)) (e : Ent) :
    FirstWins (l.map List.reverse) e ↔ FirstWins l e := by
  induction l with
  | nil => simp [FirstWins]
  | cons s r ih => simp [FirstWins, NoKey, ih]

/-- **Merge lemma (reverse).** -/
theorem mergeTree_rev_eq_snapshot (srcs : List (List Ent)) (hs : AllSorted (dirLt false) srcs) :
    mergeTree .right true (srcs.map List.reverse) = (snapshotOf srcs).reverse := by
  have hs' : AllSorted (dirLt true) (srcs.map List.reverse) := by
    intro s hs1
    obtain ⟨t, ht, rfl⟩ := List.mem_map.mp hs1
    exact sorted_reverse false (hs t ht)
  apply sorted_ext (ordOK_dir true) (mergeTree_sorted true _ hs') (sorted_reverse false (sorted_snapshotOf srcs))
  intro e
  rw [mem_mergeTree true _ hs', firstWins_map_reverse, List.mem_reverse, mem_snapshotOf srcs hs]

end NoKV.Iter

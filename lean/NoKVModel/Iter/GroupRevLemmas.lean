/-
The reverse, one-version-per-key loop (`advanceRN`, rule `revGroup = newest`), abstracted from the
configuration like `GroupLemmas.lean`.  Streams are sorted by `dirLt true`: user key descending,
version ascending inside a key, so the newest version of a key is the LAST entry of its run.
-/
import NoKVModel.Iter.GroupLemmas

namespace NoKV.Iter

section
variable (B A F : Ent → Bool)

def advR : Option Ent → Bytes → List Ent → Option Ent × Bytes × List Ent
  | none, lk, [] => (none, lk, [])
  | some p, _, [] => if p.dead then (none, p.key, []) else (some p, p.key, [p])
  | cand, lk, e :: rest =>
    let chain := fun (lk : Bytes) =>
      if B e then (none, lk, e :: rest)
      else if A e then advR none lk rest
      else if F e then advR none lk rest
      else if decide (lk ≠ []) && decide (lk = e.key) then advR none lk rest
      else advR (some e) lk rest
    match cand with
    | none => chain lk
    | some p =>
      if decide (e.key = p.key) && !F e then advR (some e) lk rest
      else if p.dead then chain p.key
      else (some p, p.key, p :: e :: rest)

/-- everything `advR` will yield from here on -/
def gR : Option Ent → Bytes → List Ent → List Ent
  | none, _, [] => []
  | some p, _, [] => if p.dead then [] else [p]
  | cand, lk, e :: rest =>
    let chain := fun (lk : Bytes) =>
      if B e then []
      else if A e then gR none lk rest
      else if F e then gR none lk rest
      else if decide (lk ≠ []) && decide (lk = e.key) then gR none lk rest
      else gR (some e) lk rest
    match cand with
    | none => chain lk
    | some p =>
      if decide (e.key = p.key) && !F e then gR (some e) lk rest
      else if p.dead then chain p.key
      else p :: chain p.key

/-- the `chain` of `gR` is `gR none` -/
theorem gR_none_cons (lk : Bytes) (e : Ent) (rest : List Ent) :
    gR B A F none lk (e :: rest) =
      if B e then []
      else if A e then gR B A F none lk rest
      else if F e then gR B A F none lk rest
      else if decide (lk ≠ []) && decide (lk = e.key) then gR B A F none lk rest
      else gR B A F (some e) lk rest := by
  simp only [gR]

theorem gR_some_cons (p : Ent) (lk : Bytes) (e : Ent) (rest : List Ent) :
    gR B A F (some p) lk (e :: rest) =
      if decide (e.key = p.key) && !F e then gR B A F (some e) lk rest
      else if p.dead then gR B A F none p.key (e :: rest)
      else p :: gR B A F none p.key (e :: rest) := by
  simp only [gR]

theorem advR_none_cons (lk : Bytes) (e : Ent) (rest : List Ent) :
    advR B A F none lk (e :: rest) =
      if B e then (none, lk, e :: rest)
      else if A e then advR B A F none lk rest
      else if F e then advR B A F none lk rest
      else if decide (lk ≠ []) && decide (lk = e.key) then advR B A F none lk rest
      else advR B A F (some e) lk rest := by
  simp only [advR]

theorem advR_some_cons (p : Ent) (lk : Bytes) (e : Ent) (rest : List Ent) :
    advR B A F (some p) lk (e :: rest) =
      if decide (e.key = p.key) && !F e then advR B A F (some e) lk rest
      else if p.dead then advR B A F none p.key (e :: rest)
      else (some p, p.key, p :: e :: rest) := by
  simp only [advR]

theorem gR_nil_of_below : ∀ (l : List Ent) (lk : Bytes), (∀ x ∈ l, B x = true) → gR B A F none lk l = []
  | [], _, _ => by simp [gR]
  | e :: rest, lk, h => by rw [gR_none_cons]; simp [h e (by simp)]

/-- the candidate's `lk` is never looked at again -/
theorem gR_some_lk (p : Ent) (lk lk' : Bytes) : ∀ (l : List Ent), gR B A F (some p) lk l = gR B A F (some p) lk' l
  | [] => by simp [gR]
  | e :: rest => by
    rw [gR_some_cons, gR_some_cons, gR_some_lk e lk lk' rest]

def optList : Option Ent → List Ent
  | none => []
  | some p => [p]

theorem gR_sublist : ∀ (l : List Ent) (cand : Option Ent) (lk : Bytes),
    (gR B A F cand lk l).Sublist (optList cand ++ l)
  | [], none, _ => by simp [gR, optList]
  | [], some p, _ => by
    simp only [gR, optList]
    split <;> simp
  | e :: rest, cand, lk => by
    have ihn := fun lk => gR_sublist rest none lk
    have ihs := fun lk => gR_sublist rest (some e) lk
    have hchain : ∀ lk, (gR B A F none lk (e :: rest)).Sublist (e :: rest) := by
      intro lk
      rw [gR_none_cons]
      split
      · exact List.nil_sublist _
      · split
        · exact (by simpa [optList] using ihn lk : (gR B A F none lk rest).Sublist rest).trans (List.sublist_cons_self _ _)
        · split
          · exact (by simpa [optList] using ihn lk : (gR B A F none lk rest).Sublist rest).trans (List.sublist_cons_self _ _)
          · split
            · exact (by simpa [optList] using ihn lk : (gR B A F none lk rest).Sublist rest).trans (List.sublist_cons_self _ _)
            · simpa [optList] using ihs lk
    cases cand with
    | none => simpa [optList] using hchain lk
    | some p =>
      rw [gR_some_cons]
      simp only [optList, List.cons_append, List.nil_append]
      split
      · exact (by simpa [optList] using ihs lk : (gR B A F (some e) lk rest).Sublist (e :: rest)).trans
          (List.sublist_cons_self _ _)
      · split
        · exact (hchain p.key).trans (List.sublist_cons_self _ _)
        · exact (hchain p.key).cons_cons _

/-- one `advR` call against `gR` -/
theorem advR_gR (hout : ∀ a b, dirLt true a b = true → B a = true → B b = true) :
    ∀ (l : List Ent) (cand : Option Ent) (lk : Bytes), Sorted (dirLt true) (optList cand ++ l) →
      (advR B A F cand lk l).1 = (gR B A F cand lk l).head? ∧
      gR B A F none (advR B A F cand lk l).2.1 (advR B A F cand lk l).2.2.tail = (gR B A F cand lk l).tail ∧
      Sorted (dirLt true) (advR B A F cand lk l).2.2
  | [], none, lk, _ => by simp [advR, gR, Sorted]
  | [], some p, lk, _ => by
    simp only [advR, gR]
    split <;> simp [gR, Sorted]
  | e :: rest, cand, lk, hs => by
    have hsE : Sorted (dirLt true) (e :: rest) := by
      cases cand with
      | none => simpa [optList] using hs
      | some p => simpa [optList] using hs.tail
    have ihn := fun lk => advR_gR hout rest none lk (by simpa [optList] using hsE.tail)
    have ihs := fun lk => advR_gR hout rest (some e) lk (by simpa [optList] using hsE)
    have hchain : ∀ lk,
        (advR B A F none lk (e :: rest)).1 = (gR B A F none lk (e :: rest)).head? ∧
        gR B A F none (advR B A F none lk (e :: rest)).2.1 (advR B A F none lk (e :: rest)).2.2.tail =
          (gR B A F none lk (e :: rest)).tail ∧
        Sorted (dirLt true) (advR B A F none lk (e :: rest)).2.2 := by
      intro lk
      rw [advR_none_cons, gR_none_cons]
      by_cases hb : B e = true
      · simp only [hb, if_true, List.head?_nil, List.tail_cons, List.tail_nil, true_and]
        exact ⟨gR_nil_of_below B A F rest lk (fun x hx => hout e x (hsE.head_lt x hx) hb), hsE⟩
      · have hb' : B e = false := by cases h : B e <;> simp_all
        simp only [hb', Bool.false_eq_true, if_false]
        split
        · exact ihn lk
        · split
          · exact ihn lk
          · split
            · exact ihn lk
            · exact ihs lk
    cases cand with
    | none => exact hchain lk
    | some p =>
      rw [advR_some_cons, gR_some_cons]
      split
      · exact ihs lk
      · split
        · exact hchain p.key
        · simp only [List.head?_cons, List.tail_cons, true_and]
          exact by simpa [optList] using hs

/-! ### membership on sorted streams -/

theorem key_ge_of_sorted_rev {a b : Ent} (h : dirLt true a b = true) : Bytes.lt a.key b.key = false := by
  simp only [dirLt, if_true] at h
  exact key_le_of_ikLt h

theorem ver_lt_of_sorted_rev_same_key {a b : Ent} (h : dirLt true a b = true) (hk : b.key = a.key) : a.ver < b.ver := by
  simp only [dirLt, if_true] at h
  rcases ikLt_iff.mp h with h | ⟨_, h⟩
  · rw [hk, Bytes.lt_irrefl] at h; cases h
  · exact h

/-- reverse, one version per key: on a stream sorted by `dirLt true` with non-empty keys, `lk` not
below any key of the stream, and a filter `F` that within one key never fails again above a
passing version, the loop yields exactly the live entries that are the newest passing entry of
their key, other than key `lk`. -/
theorem mem_gR
    (hkey : ∀ a b, a.key = b.key → B a = B b ∧ A a = A b)
    (hout : ∀ a b, dirLt true a b = true → B a = true → B b = true) (x : Ent) :
    ∀ (l : List Ent) (cand : Option Ent) (lk : Bytes), Sorted (dirLt true) (optList cand ++ l) →
      (∀ y ∈ optList cand ++ l, y.key ≠ []) →
      (∀ a ∈ optList cand ++ l, ∀ b ∈ optList cand ++ l, a.key = b.key → a.ver ≤ b.ver → F a = false → F b = false) →
      (lk = [] ∨ ∀ y ∈ optList cand ++ l, Bytes.lt lk y.key = false) →
      (∀ p, cand = some p → passP B A F p = true ∧ p.key ≠ lk) →
      (x ∈ gR B A F cand lk l ↔
        (x ∈ optList cand ++ l ∧ passP B A F x = true ∧ x.dead = false ∧ x.key ≠ lk ∧
          NewestIn B A F (optList cand ++ l) x))
  | [], none, _, _, _, _, _, _ => by simp [gR, optList]
  | [], some p, lk, _, _, _, _, hc => by
    obtain ⟨hpp, hpl⟩ := hc p rfl
    simp only [gR, optList, List.append_nil, List.mem_singleton]
    by_cases hd : p.dead = true
    · simp only [hd, if_true, List.not_mem_nil, false_iff]
      rintro ⟨h1, _, h3, _⟩
      rw [h1, hd] at h3; cases h3
    · have hd' : p.dead = false := by cases h : p.dead <;> simp_all
      simp only [hd', Bool.false_eq_true, if_false, List.mem_singleton]
      constructor
      · intro h; subst h
        refine ⟨rfl, hpp, hd', hpl, ?_⟩
        intro y hy _ _
        simp only [List.mem_singleton] at hy
        rw [hy]; exact Nat.le_refl _
      · exact fun h => h.1
  | e :: rest, cand, lk, hs, hk, hF, hlk, hc => by
    have _ := hkey
    have hsE : Sorted (dirLt true) (e :: rest) := by
      cases cand with
      | none => simpa [optList] using hs
      | some p => simpa [optList] using hs.tail
    have hkE : ∀ y ∈ e :: rest, y.key ≠ [] := fun y hy => hk y (List.mem_append_right _ hy)
    have hFE : ∀ a ∈ e :: rest, ∀ b ∈ e :: rest, a.key = b.key → a.ver ≤ b.ver → F a = false → F b = false :=
      fun a ha b hb => hF a (List.mem_append_right _ ha) b (List.mem_append_right _ hb)
    -- the keys of the rest are not above the key of `e`
    have hle : ∀ y ∈ rest, Bytes.lt e.key y.key = false := fun y hy => key_ge_of_sorted_rev (hsE.head_lt y hy)
    -- the claim for `cand = none` on `e :: rest`, for any admissible `lk`
    have hchain : ∀ lk, (lk = [] ∨ ∀ y ∈ e :: rest, Bytes.lt lk y.key = false) →
        (x ∈ gR B A F none lk (e :: rest) ↔
          (x ∈ e :: rest ∧ passP B A F x = true ∧ x.dead = false ∧ x.key ≠ lk ∧ NewestIn B A F (e :: rest) x)) := by
      intro lk hlk
      have hlkr : lk = [] ∨ ∀ y ∈ rest, Bytes.lt lk y.key = false :=
        hlk.imp id (fun h y hy => h y (List.mem_cons_of_mem _ hy))
      have ihn := mem_gR hkey hout x rest none lk (by simpa [optList] using hsE.tail)
        (by simpa [optList] using fun y hy => hkE y (List.mem_cons_of_mem _ hy))
        (by simpa [optList] using fun a ha b hb => hFE a (List.mem_cons_of_mem _ ha) b (List.mem_cons_of_mem _ hb))
        (by simpa [optList] using hlkr) (by intro p hp; cases hp)
      simp only [optList, List.nil_append] at ihn
      have hskip : passP B A F e = false →
          ((x ∈ rest ∧ passP B A F x = true ∧ x.dead = false ∧ x.key ≠ lk ∧ NewestIn B A F rest x) ↔
           (x ∈ e :: rest ∧ passP B A F x = true ∧ x.dead = false ∧ x.key ≠ lk ∧ NewestIn B A F (e :: rest) x)) := by
        intro hp
        constructor
        · rintro ⟨h1, h2, h3, h4, h5⟩
          refine ⟨List.mem_cons_of_mem _ h1, h2, h3, h4, ?_⟩
          intro y hy hpy hky
          rcases List.mem_cons.mp hy with h | h
          · subst h; rw [hp] at hpy; cases hpy
          · exact h5 y h hpy hky
        · rintro ⟨h1, h2, h3, h4, h5⟩
          rcases List.mem_cons.mp h1 with h | h
          · subst h; rw [hp] at h2; cases h2
          · exact ⟨h, h2, h3, h4, fun y hy => h5 y (List.mem_cons_of_mem _ hy)⟩
      rw [gR_none_cons]
      by_cases hb : B e = true
      · simp only [hb, if_true, List.not_mem_nil, false_iff]
        rintro ⟨hx, hp, _⟩
        simp only [passP, Bool.and_eq_true, Bool.not_eq_true'] at hp
        rcases List.mem_cons.mp hx with h | h
        · subst h; simp_all
        · have := hout e x (hsE.head_lt x h) hb
          simp_all
      · have hb' : B e = false := by cases h : B e <;> simp_all
        simp only [hb', Bool.false_eq_true, if_false]
        by_cases ha : A e = true
        · simp only [ha, if_true]; rw [ihn]; exact hskip (by simp [passP, ha])
        · have ha' : A e = false := by cases h : A e <;> simp_all
          simp only [ha', Bool.false_eq_true, if_false]
          by_cases hf : F e = true
          · simp only [hf, if_true]; rw [ihn]; exact hskip (by simp [passP, hf])
          · have hf' : F e = false := by cases h : F e <;> simp_all
            have hpe : passP B A F e = true := by simp [passP, hb', ha', hf']
            simp only [hf', Bool.false_eq_true, if_false]
            by_cases hdup : (decide (lk ≠ []) && decide (lk = e.key)) = true
            · simp only [hdup, if_true]
              simp only [Bool.and_eq_true, decide_eq_true_eq] at hdup
              rw [ihn]
              constructor
              · rintro ⟨h1, h2, h3, h4, h5⟩
                refine ⟨List.mem_cons_of_mem _ h1, h2, h3, h4, ?_⟩
                intro y hy hpy hky
                rcases List.mem_cons.mp hy with h | h
                · subst h; exact absurd (hdup.2.trans hky).symm h4
                · exact h5 y h hpy hky
              · rintro ⟨h1, h2, h3, h4, h5⟩
                rcases List.mem_cons.mp h1 with h | h
                · subst h; exact absurd hdup.2.symm h4
                · exact ⟨h, h2, h3, h4, fun y hy => h5 y (List.mem_cons_of_mem _ hy)⟩
            · have hnd : ¬ (lk ≠ [] ∧ lk = e.key) := by simpa using hdup
              have hdup' : (decide (lk ≠ []) && decide (lk = e.key)) = false := by
                cases h : (decide (lk ≠ []) && decide (lk = e.key)) <;> simp_all
              have hek : e.key ≠ lk := fun h => hnd ⟨by rw [← h]; exact hkE e (by simp), h.symm⟩
              simp only [hdup', Bool.false_eq_true, if_false]
              have := mem_gR hkey hout x rest (some e) lk (by simpa [optList] using hsE)
                (by simpa [optList] using hkE) (by simpa [optList] using hFE) (by simpa [optList] using hlk)
                (by intro p hp; cases hp; exact ⟨hpe, hek⟩)
              simpa [optList] using this
    cases cand with
    | none => simpa [optList] using hchain lk (by simpa [optList] using hlk)
    | some p =>
      obtain ⟨hpp, hpl⟩ := hc p rfl
      simp only [optList, List.cons_append, List.nil_append] at hs hk hF hlk ⊢
      have hpe : dirLt true p e = true := hs.head_lt e (by simp)
      have hpk : p.key ≠ [] := hk p (by simp)
      have hpb : B p = false ∧ A p = false ∧ F p = false := by
        simp only [passP, Bool.and_eq_true, Bool.not_eq_true'] at hpp
        exact ⟨hpp.1.1, hpp.1.2, hpp.2⟩
      -- keys of `e :: rest` are not above `p.key`
      have hlep : ∀ y ∈ e :: rest, Bytes.lt p.key y.key = false :=
        fun y hy => key_ge_of_sorted_rev (hs.head_lt y hy)
      rw [gR_some_cons]
      by_cases hcont : (decide (e.key = p.key) && !F e) = true
      · -- `e` continues the group of `p`
        simp only [hcont, if_true]
        simp only [Bool.and_eq_true, decide_eq_true_eq, Bool.not_eq_true'] at hcont
        have hpe' : passP B A F e = true := by
          have := hkey e p hcont.1
          simp [passP, this.1, this.2, hpb.1, hpb.2.1, hcont.2]
        have := mem_gR hkey hout x rest (some e) lk (by simpa [optList] using hsE)
          (by simpa [optList] using hkE) (by simpa [optList] using hFE)
          (by simpa [optList] using hlk.imp id (fun h y hy => h y (List.mem_cons_of_mem _ hy)))
          (by intro q hq; cases hq; exact ⟨hpe', by rw [hcont.1]; exact hpl⟩)
        simp only [optList, List.cons_append, List.nil_append] at this
        rw [this]
        have hvlt : p.ver < e.ver := ver_lt_of_sorted_rev_same_key hpe hcont.1
        constructor
        · rintro ⟨h1, h2, h3, h4, h5⟩
          refine ⟨List.mem_cons_of_mem _ h1, h2, h3, h4, ?_⟩
          intro y hy hpy hky
          rcases List.mem_cons.mp hy with h | h
          · subst h
            have := h5 e (by simp) hpe' (hcont.1.trans hky)
            omega
          · exact h5 y h hpy hky
        · rintro ⟨h1, h2, h3, h4, h5⟩
          rcases List.mem_cons.mp h1 with h | h
          · subst h
            have := h5 e (by simp) hpe' hcont.1
            omega
          · exact ⟨h, h2, h3, h4, fun y hy => h5 y (List.mem_cons_of_mem _ hy)⟩
      · have hcont' : (decide (e.key = p.key) && !F e) = false := by
          cases h : (decide (e.key = p.key) && !F e) <;> simp_all
        simp only [hcont', Bool.false_eq_true, if_false]
        -- no later entry of key `p.key` passes
        have hnone : ∀ y ∈ e :: rest, y.key = p.key → passP B A F y = false := by
          intro y hy hyk
          have hek : e.key = p.key := by
            rcases List.mem_cons.mp hy with h | h
            · rw [← h]; exact hyk
            · have h1 := hle y h
              have h2 := hlep e (by simp)
              rw [hyk] at h1
              exact (Bytes.eq_of_not_lt h2 h1).symm
          have hfe : F e = true := by
            cases h : F e with
            | true => rfl
            | false => simp [hek, h] at hcont'
          have hpv : p.ver ≤ e.ver := Nat.le_of_lt (ver_lt_of_sorted_rev_same_key hpe hek)
          have := hF p (by simp) e (by simp) hek.symm hpv hpb.2.2
          rw [hfe] at this; cases this
        have hch := hchain p.key (Or.inr hlep)
        have hto : ∀ {x : Ent}, x ∈ e :: rest → x.key ≠ p.key → x.key ≠ lk := by
          intro x hx hne heq
          rcases hlk with h0 | h0
          · exact hkE x hx (heq.trans h0)
          · have h1 := h0 p (by simp)
            have h2 := hlep x hx
            rw [heq] at h2
            exact hpl (Bytes.eq_of_not_lt h2 h1)
        by_cases hd : p.dead = true
        · simp only [hd, if_true]
          rw [hch]
          constructor
          · rintro ⟨h1, h2, h3, h4, h5⟩
            refine ⟨List.mem_cons_of_mem _ h1, h2, h3, hto h1 h4, ?_⟩
            intro y hy hpy hky
            rcases List.mem_cons.mp hy with h | h
            · subst h; exact absurd hky.symm h4
            · exact h5 y h hpy hky
          · rintro ⟨h1, h2, h3, _, h5⟩
            rcases List.mem_cons.mp h1 with h | h
            · subst h; rw [hd] at h3; cases h3
            · refine ⟨h, h2, h3, ?_, fun y hy => h5 y (List.mem_cons_of_mem _ hy)⟩
              intro heq
              rw [hnone x h heq] at h2; cases h2
        · have hd' : p.dead = false := by cases h : p.dead <;> simp_all
          simp only [hd', Bool.false_eq_true, if_false, List.mem_cons]
          rw [hch]
          constructor
          · rintro (h | ⟨h1, h2, h3, h4, h5⟩)
            · subst h
              refine ⟨Or.inl rfl, hpp, hd', hpl, ?_⟩
              intro y hy hpy hky
              rcases List.mem_cons.mp hy with h | h
              · subst h; exact Nat.le_refl _
              · rw [hnone y h hky] at hpy; cases hpy
            · refine ⟨Or.inr (by simpa using h1), h2, h3, hto h1 h4, ?_⟩
              intro y hy hpy hky
              rcases List.mem_cons.mp hy with h | h
              · subst h; exact absurd hky.symm h4
              · exact h5 y h hpy hky
          · rintro ⟨h1, h2, h3, _, h5⟩
            rcases h1 with h | h
            · exact Or.inl h
            · have hx : x ∈ e :: rest := by simpa using h
              refine Or.inr ⟨hx, h2, h3, ?_, fun y hy => h5 y (List.mem_cons_of_mem _ hy)⟩
              intro heq
              rw [hnone x hx heq] at h2; cases h2

/-! ### a different `lastKey` only removes yields -/

theorem gR_none_sub_some (hkey : ∀ a b, a.key = b.key → B a = B b ∧ A a = A b) (x : Ent) :
    ∀ (l : List Ent) (p : Ent) (lk0 : Bytes), B p = false → A p = false → p.key ≠ [] →
      x ∈ gR B A F none p.key l → x ∈ gR B A F (some p) lk0 l
  | [], _, _, _, _, _, h => by simp [gR] at h
  | f :: r, p, lk0, hb, ha, hk, h => by
    rw [gR_some_cons]
    by_cases hcont : (decide (f.key = p.key) && !F f) = true
    · simp only [hcont, if_true]
      simp only [Bool.and_eq_true, decide_eq_true_eq, Bool.not_eq_true'] at hcont
      have hfb := hkey f p hcont.1
      rw [gR_none_cons] at h
      simp only [hfb.1, hb, hfb.2, ha, hcont.2, Bool.false_eq_true, if_false] at h
      have hdup : (decide (p.key ≠ []) && decide (p.key = f.key)) = true := by simp [hk, hcont.1]
      rw [hdup] at h
      simp only [if_true] at h
      rw [← hcont.1] at h
      exact gR_none_sub_some hkey x r f lk0 (by rw [hfb.1]; exact hb) (by rw [hfb.2]; exact ha)
        (by rw [hcont.1]; exact hk) h
    · have hcont' : (decide (f.key = p.key) && !F f) = false := by
        cases hh : (decide (f.key = p.key) && !F f) <;> simp_all
      simp only [hcont', Bool.false_eq_true, if_false]
      split
      · exact h
      · exact List.mem_cons_of_mem _ h

theorem gR_lk_sub (hkey : ∀ a b, a.key = b.key → B a = B b ∧ A a = A b) (x : Ent) :
    ∀ (l : List Ent) (lk : Bytes), (∀ y ∈ l, y.key ≠ []) → x ∈ gR B A F none lk l → x ∈ gR B A F none [] l
  | [], _, _, h => by simp [gR] at h
  | e :: rest, lk, hk, h => by
    have ih := fun lk => gR_lk_sub hkey x rest lk (fun y hy => hk y (List.mem_cons_of_mem _ hy))
    rw [gR_none_cons] at h ⊢
    by_cases hb : B e = true
    · simp [hb] at h
    · have hb' : B e = false := by cases hh : B e <;> simp_all
      simp only [hb', Bool.false_eq_true, if_false] at h ⊢
      by_cases ha : A e = true
      · simp only [ha, if_true] at h ⊢; exact ih lk h
      · have ha' : A e = false := by cases hh : A e <;> simp_all
        simp only [ha', Bool.false_eq_true, if_false] at h ⊢
        by_cases hf : F e = true
        · simp only [hf, if_true] at h ⊢; exact ih lk h
        · have hf' : F e = false := by cases hh : F e <;> simp_all
          simp only [hf', Bool.false_eq_true, if_false] at h ⊢
          have hnil : (decide (([] : Bytes) ≠ []) && decide (([] : Bytes) = e.key)) = false := by simp
          rw [hnil]
          simp only [Bool.false_eq_true, if_false]
          by_cases hdup : (decide (lk ≠ []) && decide (lk = e.key)) = true
          · simp only [hdup, if_true] at h
            simp only [Bool.and_eq_true, decide_eq_true_eq] at hdup
            rw [hdup.2] at h
            exact gR_none_sub_some B A F hkey x rest e [] hb' ha' (hk e (by simp)) h
          · have hdup' : (decide (lk ≠ []) && decide (lk = e.key)) = false := by
              cases hh : (decide (lk ≠ []) && decide (lk = e.key)) <;> simp_all
            simp only [hdup', Bool.false_eq_true, if_false] at h
            rw [gR_some_lk B A F e [] lk]
            exact h

end

end NoKV.Iter

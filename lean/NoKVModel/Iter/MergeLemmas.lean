/-
`MergeIterator` over sorted, internally duplicate-free child streams is the sorted union in
which, on equal internal keys, the LEFT child's entry is kept; the balanced tree built by
`NewMergeIterator` therefore yields "first source wins".
-/
import NoKVModel.Iter.OrderLemmas

namespace NoKV.Iter

/-- no member of `xs` has the internal key of `e` -/
def NoKey (xs : List Ent) (e : Ent) : Prop := ∀ x ∈ xs, ikEq x e = false

theorem merge2F_dir (adv : Side) (rev : Bool) (n : Nat) (x y : Ent) (xs ys : List Ent) :
    merge2F adv rev (n + 1) (x :: xs) (y :: ys) =
      if ikEq x y then
        (if adv = .right then x :: merge2F adv rev n xs ys else y :: merge2F adv rev n xs ys)
      else if dirLt rev x y then x :: merge2F adv rev n xs (y :: ys)
      else y :: merge2F adv rev n (x :: xs) ys := by
  rfl

/-- membership in the two-pointer merge (left child kept on equal internal keys) -/
theorem mem_merge2F (rev : Bool) : ∀ (n : Nat) (xs ys : List Ent),
    xs.length + ys.length ≤ n → Sorted (dirLt rev) xs → Sorted (dirLt rev) ys →
    ∀ e, e ∈ merge2F .right rev n xs ys ↔ (e ∈ xs ∨ (e ∈ ys ∧ NoKey xs e)) := by
  have ok := ordOK_dir rev
  intro n
  induction n with
  | zero =>
    intro xs ys hl _ _ e
    have h1 : xs = [] := by cases xs with | nil => rfl | cons _ _ => simp at hl
    have h2 : ys = [] := by cases ys with | nil => rfl | cons _ _ => simp at hl
    subst h1 h2
    simp [merge2F]
  | succ n ih =>
    intro xs ys hl sx sy e
    cases xs with
    | nil => simp [merge2F, NoKey]
    | cons x xs =>
      cases ys with
      | nil => simp [merge2F]
      | cons y ys =>
        rw [merge2F_dir]
        simp only [List.length_cons] at hl
        by_cases hxy : ikEq x y = true
        · -- equal internal keys: x kept, y dropped
          simp only [hxy, if_true]
          have := ih xs ys (by omega) sx.tail sy.tail e
          simp only [List.mem_cons, this]
          constructor
          · rintro (h | h | ⟨h1, h2⟩)
            · exact Or.inl (Or.inl h)
            · exact Or.inl (Or.inr h)
            · refine Or.inr ⟨Or.inr h1, ?_⟩
              intro z hz
              rcases List.mem_cons.mp hz with hz | hz
              · subst hz
                have : dirLt rev z e = true := by
                  rw [ok.congrL z y e hxy]; exact sy.head_lt e h1
                exact ok.not_eq_of_lt this
              · exact h2 z hz
          · rintro (h | ⟨h1, h2⟩)
            · rcases h with h | h
              · exact Or.inl h
              · exact Or.inr (Or.inl h)
            · rcases h1 with h1 | h1
              · subst h1
                have := h2 x (by simp)
                rw [hxy] at this; cases this
              · exact Or.inr (Or.inr ⟨h1, fun z hz => h2 z (List.mem_cons_of_mem _ hz)⟩)
        · have hxy' : ikEq x y = false := by cases h : ikEq x y <;> simp_all
          simp only [hxy', Bool.false_eq_true, if_false]
          by_cases hlt : dirLt rev x y = true
          · simp only [hlt, if_true]
            have := ih xs (y :: ys) (by simp; omega) sx.tail sy e
            simp only [List.mem_cons, this]
            constructor
            · rintro (h | h | ⟨h1, h2⟩)
              · exact Or.inl (Or.inl h)
              · exact Or.inl (Or.inr h)
              · refine Or.inr ⟨h1, ?_⟩
                intro z hz
                rcases List.mem_cons.mp hz with hz | hz
                · subst hz
                  have : dirLt rev z e = true := by
                    rcases h1 with h1 | h1
                    · rw [h1]; exact hlt
                    · exact ok.trans _ _ _ hlt (sy.head_lt e h1)
                  exact ok.not_eq_of_lt this
                · exact h2 z hz
            · rintro (h | ⟨h1, h2⟩)
              · rcases h with h | h
                · exact Or.inl h
                · exact Or.inr (Or.inl h)
              · exact Or.inr (Or.inr ⟨h1, fun z hz => h2 z (List.mem_cons_of_mem _ hz)⟩)
          · have hlt' : dirLt rev x y = false := by cases h : dirLt rev x y <;> simp_all
            have hgt : dirLt rev y x = true := by
              rcases ok.tri x y with h | h | h
              · rw [hlt'] at h; cases h
              · rw [hxy'] at h; cases h
              · exact h
            simp only [hlt', Bool.false_eq_true, if_false]
            have := ih (x :: xs) ys (by simp; omega) sx sy.tail e
            simp only [List.mem_cons, this]
            constructor
            · rintro (h | h | ⟨h1, h2⟩)
              · refine Or.inr ⟨Or.inl h, ?_⟩
                subst h
                intro z hz
                have : dirLt rev e z = true := by
                  rcases List.mem_cons.mp hz with hz | hz
                  · rw [hz]; exact hgt
                  · exact ok.trans _ _ _ hgt (sx.head_lt z hz)
                exact ok.not_eq_of_gt this
              · exact Or.inl h
              · exact Or.inr ⟨Or.inr h1, h2⟩
            · rintro (h | ⟨h1, h2⟩)
              · exact Or.inr (Or.inl h)
              · rcases h1 with h1 | h1
                · exact Or.inl h1
                · exact Or.inr (Or.inr ⟨h1, h2⟩)

/-- the two-pointer merge of sorted streams is sorted -/
theorem sorted_merge2F (rev : Bool) : ∀ (n : Nat) (xs ys : List Ent),
    xs.length + ys.length ≤ n → Sorted (dirLt rev) xs → Sorted (dirLt rev) ys →
    Sorted (dirLt rev) (merge2F .right rev n xs ys) := by
  have ok := ordOK_dir rev
  intro n
  induction n with
  | zero => intro xs ys _ _ _; simp [merge2F, Sorted]
  | succ n ih =>
    intro xs ys hl sx sy
    cases xs with
    | nil => simpa [merge2F] using sy
    | cons x xs =>
      cases ys with
      | nil => simpa [merge2F] using sx
      | cons y ys =>
        rw [merge2F_dir]
        simp only [List.length_cons] at hl
        by_cases hxy : ikEq x y = true
        · simp only [hxy, if_true]
          refine List.pairwise_cons.mpr ⟨?_, ih xs ys (by omega) sx.tail sy.tail⟩
          intro m hm
          rcases (mem_merge2F rev n xs ys (by omega) sx.tail sy.tail m).mp hm with h | ⟨h, _⟩
          · exact sx.head_lt m h
          · rw [ok.congrL x y m hxy]; exact sy.head_lt m h
        · have hxy' : ikEq x y = false := by cases h : ikEq x y <;> simp_all
          simp only [hxy', Bool.false_eq_true, if_false]
          by_cases hlt : dirLt rev x y = true
          · simp only [hlt, if_true]
            refine List.pairwise_cons.mpr ⟨?_, ih xs (y :: ys) (by simp; omega) sx.tail sy⟩
            intro m hm
            rcases (mem_merge2F rev n xs (y :: ys) (by simp; omega) sx.tail sy m).mp hm with h | ⟨h, _⟩
            · exact sx.head_lt m h
            · rcases List.mem_cons.mp h with h | h
              · rw [h]; exact hlt
              · exact ok.trans _ _ _ hlt (sy.head_lt m h)
          · have hlt' : dirLt rev x y = false := by cases h : dirLt rev x y <;> simp_all
            have hgt : dirLt rev y x = true := by
              rcases ok.tri x y with h | h | h
              · rw [hlt'] at h; cases h
              · rw [hxy'] at h; cases h
              · exact h
            simp only [hlt', Bool.false_eq_true, if_false]
            refine List.pairwise_cons.mpr ⟨?_, ih (x :: xs) ys (by simp; omega) sx sy.tail⟩
            intro m hm
            rcases (mem_merge2F rev n (x :: xs) ys (by simp; omega) sx sy.tail m).mp hm with h | ⟨h, _⟩
            · rcases List.mem_cons.mp h with h | h
              · rw [h]; exact hgt
              · exact ok.trans _ _ _ hgt (sx.head_lt m h)
            · exact sy.head_lt m h

/-- on a strictly sorted stream the `curKey` loop of `MergeIterator.Next` skips nothing -/
theorem dedupFrom_sorted {lt} (ok : OrdOK lt) : ∀ (p : Ent) (l : List Ent), Sorted lt (p :: l) → dedupFrom p l = l
  | _, [], _ => rfl
  | p, y :: r, h => by
    have h1 : ikEq p y = false := ok.not_eq_of_lt (h.head_lt y (by simp))
    simp only [dedupFrom, h1, Bool.false_eq_true, if_false]
    rw [dedupFrom_sorted ok y r h.tail]

theorem dedupAdj_sorted {lt} (ok : OrdOK lt) (l : List Ent) (h : Sorted lt l) : dedupAdj l = l := by
  cases l with
  | nil => rfl
  | cons x r => simp [dedupAdj, dedupFrom_sorted ok x r h]

theorem merge2_eq (rev : Bool) (xs ys : List Ent) (sx : Sorted (dirLt rev) xs) (sy : Sorted (dirLt rev) ys) :
    merge2 .right rev xs ys = merge2F .right rev (xs.length + ys.length) xs ys := by
  unfold merge2
  exact dedupAdj_sorted (ordOK_dir rev) _ (sorted_merge2F rev _ xs ys (Nat.le_refl _) sx sy)

theorem sorted_merge2 (rev : Bool) (xs ys : List Ent) (sx : Sorted (dirLt rev) xs) (sy : Sorted (dirLt rev) ys) :
    Sorted (dirLt rev) (merge2 .right rev xs ys) := by
  rw [merge2_eq rev xs ys sx sy]
  exact sorted_merge2F rev _ xs ys (Nat.le_refl _) sx sy

theorem mem_merge2 (rev : Bool) (xs ys : List Ent) (sx : Sorted (dirLt rev) xs) (sy : Sorted (dirLt rev) ys) (e : Ent) :
    e ∈ merge2 .right rev xs ys ↔ (e ∈ xs ∨ (e ∈ ys ∧ NoKey xs e)) := by
  rw [merge2_eq rev xs ys sx sy]
  exact mem_merge2F rev _ xs ys (Nat.le_refl _) sx sy e

/-! ### the tree of merge iterators: first source wins -/

/-- `e` is the entry the first source holding its internal key has for it -/
def FirstWins : List (List Ent) → Ent → Prop
  | [], _ => False
  | s :: r, e => e ∈ s ∨ (NoKey s e ∧ FirstWins r e)

/-- no source of `l` holds the internal key of `e` -/
def NoKeyAll (l : List (List Ent)) (e : Ent) : Prop := ∀ s ∈ l, NoKey s e

theorem firstWins_append (a b : List (List Ent)) (e : Ent) :
    FirstWins (a ++ b) e ↔ (FirstWins a e ∨ (NoKeyAll a e ∧ FirstWins b e)) := by
  induction a with
  | nil => simp [FirstWins, NoKeyAll]
  | cons s r ih =>
    simp only [List.cons_append, FirstWins, ih, NoKeyAll, List.mem_cons, forall_eq_or_imp]
    constructor
    · rintro (h | ⟨h1, h2 | ⟨h2, h3⟩⟩)
      · exact Or.inl (Or.inl h)
      · exact Or.inl (Or.inr ⟨h1, h2⟩)
      · exact Or.inr ⟨⟨h1, h2⟩, h3⟩
    · rintro ((h | ⟨h1, h2⟩) | ⟨⟨h1, h2⟩, h3⟩)
      · exact Or.inl h
      · exact Or.inr ⟨h1, Or.inl h2⟩
      · exact Or.inr ⟨h1, Or.inr ⟨h2, h3⟩⟩

theorem firstWins_mem {l : List (List Ent)} {e : Ent} (h : FirstWins l e) : ∃ s ∈ l, e ∈ s := by
  induction l with
  | nil => cases h
  | cons s r ih =>
    rcases h with h | ⟨_, h⟩
    · exact ⟨s, by simp, h⟩
    · obtain ⟨t, ht, he⟩ := ih h
      exact ⟨t, List.mem_cons_of_mem _ ht, he⟩

/-- some source holds the key ⇒ some first-wins entry has that key -/
theorem exists_firstWins {l : List (List Ent)} {e : Ent} (h : ¬ NoKeyAll l e) :
    ∃ x, FirstWins l x ∧ ikEq x e = true := by
  induction l with
  | nil => exact absurd (fun _ hs => by cases hs) h
  | cons s r ih =>
    by_cases hs : NoKey s e
    · have : ¬ NoKeyAll r e := by
        intro hr; apply h
        intro t ht
        rcases List.mem_cons.mp ht with ht | ht
        · rw [ht]; exact hs
        · exact hr t ht
      obtain ⟨x, hx, hxe⟩ := ih this
      refine ⟨x, Or.inr ⟨?_, hx⟩, hxe⟩
      intro z hz
      cases hzx : ikEq z x with
      | false => rfl
      | true => have := hs z hz; rw [ikEq_trans hzx hxe] at this; cases this
    · unfold NoKey at hs
      have : ∃ x ∈ s, ikEq x e = true := by
        apply Classical.byContradiction
        intro hne
        apply hs
        intro x hx
        cases hxe : ikEq x e with
        | false => rfl
        | true => exact absurd ⟨x, hx, hxe⟩ hne
      obtain ⟨x, hx, hxe⟩ := this
      exact ⟨x, Or.inl hx, hxe⟩

/-- every source is strictly sorted (hence holds each internal key at most once) -/
def AllSorted (lt : Ent → Ent → Bool) (l : List (List Ent)) : Prop := ∀ s ∈ l, Sorted lt s

theorem mergeTreeF_spec (rev : Bool) : ∀ (n : Nat) (l : List (List Ent)), l.length ≤ n → AllSorted (dirLt rev) l →
    Sorted (dirLt rev) (mergeTreeF .right rev n l) ∧ ∀ e, e ∈ mergeTreeF .right rev n l ↔ FirstWins l e := by
  intro n
  induction n with
  | zero =>
    intro l hl _
    have : l = [] := by cases l with | nil => rfl | cons _ _ => simp at hl
    subst this
    simp [mergeTreeF, Sorted, FirstWins]
  | succ n ih =>
    intro l hl hs
    match l, hl, hs with
    | [], _, _ => simp [mergeTreeF, Sorted, FirstWins]
    | [a], _, hs =>
      refine ⟨by simpa [mergeTreeF] using hs a (by simp), ?_⟩
      intro e
      simp [mergeTreeF, FirstWins]
    | a :: b :: r, hl, hs =>
      simp only [mergeTreeF]
      have hlen : (a :: b :: r).length = r.length + 2 := by simp
      have hmid1 : 1 ≤ (a :: b :: r).length / 2 := by rw [hlen]; omega
      have hmid2 : (a :: b :: r).length / 2 < (a :: b :: r).length := by rw [hlen]; omega
      simp only [List.length_cons] at hl
      have hA : AllSorted (dirLt rev) ((a :: b :: r).take ((a :: b :: r).length / 2)) :=
        fun s hs' => hs s (List.mem_of_mem_take hs')
      have hB : AllSorted (dirLt rev) ((a :: b :: r).drop ((a :: b :: r).length / 2)) :=
        fun s hs' => hs s (List.mem_of_mem_drop hs')
      obtain ⟨sA, mA⟩ := ih _ (by rw [List.length_take]; omega) hA
      obtain ⟨sB, mB⟩ := ih _ (by rw [List.length_drop]; omega) hB
      refine ⟨sorted_merge2 rev _ _ sA sB, ?_⟩
      intro e
      rw [mem_merge2 rev _ _ sA sB]
      conv => rhs; rw [← List.take_append_drop ((a :: b :: r).length / 2) (a :: b :: r)]
      rw [firstWins_append, mA, mB]
      constructor
      · rintro (h | ⟨h1, h2⟩)
        · exact Or.inl h
        · refine Or.inr ⟨?_, h1⟩
          apply Classical.byContradiction
          intro hn
          obtain ⟨x, hx, hxe⟩ := exists_firstWins hn
          have := h2 x ((mA x).mpr hx)
          rw [hxe] at this; cases this
      · rintro (h | ⟨h1, h2⟩)
        · exact Or.inl h
        · refine Or.inr ⟨h2, ?_⟩
          intro x hx
          obtain ⟨s, hs1, hs2⟩ := firstWins_mem ((mA x).mp hx)
          exact h1 s hs1 x hs2

theorem mergeTree_sorted (rev : Bool) (l : List (List Ent)) (hs : AllSorted (dirLt rev) l) :
    Sorted (dirLt rev) (mergeTree .right rev l) :=
  (mergeTreeF_spec rev l.length l (Nat.le_refl _) hs).1

theorem mem_mergeTree (rev : Bool) (l : List (List Ent)) (hs : AllSorted (dirLt rev) l) (e : Ent) :
    e ∈ mergeTree .right rev l ↔ FirstWins l e :=
  (mergeTreeF_spec rev l.length l (Nat.le_refl _) hs).2 e

end NoKV.Iter

/-
Step lemmas of the DBIterator machine and the run theorem.
-/
import NoKVModel.Iter.DbMachine

namespace NoKV.Iter

/-- the snapshot in iteration order -/
def dirSnap (db : DB) (asc : Bool) : List Ent := if asc then dbSnapshot db else (dbSnapshot db).reverse

theorem sorted_dirSnap (db : DB) (asc : Bool) : Sorted (dirLt (!asc)) (dirSnap db asc) := by
  cases asc
  · simpa [dirSnap, dbSnapshot] using sorted_reverse false (sorted_snapshotOf db.byRecency)
  · simpa [dirSnap, dbSnapshot] using sorted_snapshotOf db.byRecency

theorem specDb_dirSnap (db : DB) (asc : Bool) (lower upper : Bytes) :
    specDbList (dbSnapshot db) asc lower upper = (dirSnap db asc).filter (keepD lower upper) := by
  rw [specDbList_eq]
  cases asc <;> simp [dirSnap, List.filter_reverse]

theorem snapshot_ver {db : DB} (h : db.WF) : ∀ e ∈ dbSnapshot db, e.ver ≤ maxU64 := by
  intro e he
  obtain ⟨s, hs, hes⟩ := firstWins_mem ((mem_snapshotOf _ h.allSorted e).mp he)
  exact h.ver s hs e hes

structure DbRel (c : IterCfg) (db : DB) (asc : Bool) (lower upper : Bytes) (it : DbIt) (cur : List Ent) : Prop where
  srcs : it.srcs = dbSources c db
  asc : it.asc = asc
  lower : it.lower = lower
  upper : it.upper = upper
  inv : DbInv it cur

theorem dbRel_pop (c : IterCfg) (hc : c.DbGood) (db : DB) (asc : Bool) (lower upper : Bytes)
    (st : List Ent) (cu : Option Ent) (oor : Bool) (l : List Ent) (hs : Sorted (dirLt (!asc)) l) :
    DbRel c db asc lower upper (DbIt.pop c ⟨dbSources c db, asc, lower, upper, st, cu, false⟩ l)
      (l.filter (keepD lower upper)) := by
  have := dbInv_pop c hc ⟨dbSources c db, asc, lower, upper, st, cu, oor⟩ l hs
  exact ⟨by simp [DbIt.pop], by simp [DbIt.pop], by simp [DbIt.pop], by simp [DbIt.pop], this⟩

theorem dbRel_oor (c : IterCfg) (db : DB) (asc : Bool) (lower upper : Bytes) (st : List Ent) :
    DbRel c db asc lower upper ⟨dbSources c db, asc, lower, upper, st, none, true⟩ [] :=
  ⟨rfl, rfl, rfl, rfl, by simp [DbInv]⟩

theorem keepD_lower {lower upper : Bytes} {e : Ent} (h : keepD lower upper e = true) (hl : lower ≠ []) :
    Bytes.lt e.key lower = false := by
  simp only [keepD, inBounds, Bool.and_eq_true, Bool.or_eq_true, decide_eq_true_eq] at h
  rcases h.1.1 with h | h
  · exact absurd h hl
  · simpa [Bytes.le] using h

theorem keepD_upper {lower upper : Bytes} {e : Ent} (h : keepD lower upper e = true) (hu : upper ≠ []) :
    Bytes.lt e.key upper = true := by
  simp only [keepD, inBounds, Bool.and_eq_true, Bool.or_eq_true, decide_eq_true_eq] at h
  rcases h.1.2 with h | h
  · exact absurd h hu
  · exact h

/-- one cursor operation keeps the model iterator and the specification's cursor in step -/
theorem dbRel_step (c : IterCfg) (hc : c.DbGood) (db : DB) (hwf : db.WF) (asc : Bool) (lower upper : Bytes)
    (it : DbIt) (cur : List Ent) (h : DbRel c db asc lower upper it cur) (op : CurOp) :
    DbRel c db asc lower upper (it.step c op)
      (specStep (specDbList (dbSnapshot db) asc lower upper) (!asc) false cur op) := by
  obtain ⟨h1, h2, h3, h4, hinv⟩ := h
  obtain ⟨srcs0, asc0, lo0, up0, st, cu, oor⟩ := it
  simp only at h1 h2 h3 h4
  subst h1 h2 h3 h4
  have hgood := hc
  obtain ⟨hops, _, _, hrts, _, _⟩ := hc
  obtain ⟨_, _, _, _, _, _, _, _, _, hslo, hsup⟩ := hops
  rw [specDb_dirSnap]
  have hsd := sorted_dirSnap db asc0
  cases op with
  | rewind =>
    simp only [DbIt.step, DbIt.rewind, specStep]
    rw [db_mergedRewind c hgood db hwf]
    have : (if (!asc0) = true then (dbSnapshot db).reverse else dbSnapshot db) = dirSnap db asc0 := by
      cases asc0 <;> simp [dirSnap]
    rw [this]
    exact dbRel_pop c hgood db asc0 lo0 up0 st cu oor _ hsd
  | next =>
    simp only [DbIt.step, DbIt.next, specStep]
    cases oor with
    | true =>
      simp only [if_true]
      have hcur : cur = [] := by simpa [DbInv] using hinv.2
      subst hcur
      exact ⟨rfl, rfl, rfl, rfl, by simp [DbInv]⟩
    | false =>
      simp only [Bool.false_eq_true, if_false]
      have hi : Sorted (dirLt (!asc0)) st ∧ st.tail.filter (keepD lo0 up0) = cur.tail := by
        simpa [DbInv] using hinv.2
      rw [← hi.2]
      exact dbRel_pop c hgood db asc0 lo0 up0 st cu false _ (List.Pairwise.sublist (List.tail_sublist _) hi.1)
  | seek k =>
    simp only [DbIt.step, specStep]
    unfold DbIt.seek
    simp only [hslo, hsup, bcmp, CmpOp.eval]
    cases asc0 with
    | true =>
      simp only [if_true, Bool.not_true, Bool.false_eq_true, if_false, false_and]
      by_cases hU : up0 ≠ [] ∧ (!Bytes.lt k up0) = true
      · rw [if_pos hU]
        have : ((dirSnap db true).filter (keepD lo0 up0)).dropWhile (fun e => Bytes.lt e.key k) = [] := by
          apply dropWhile_all
          intro e he
          have hk := keepD_upper (List.mem_filter.mp he).2 hU.1
          exact Bytes.lt_of_lt_of_le hk (by simpa [Bytes.le] using hU.2)
        rw [this]
        exact dbRel_oor c db true lo0 up0 st
      · rw [if_neg hU, db_mergedSeek_fwd c hgood db hwf]
        -- the seek key carries version MaxUint64: `ikLt e ⟨k', max⟩ ↔ e.key < k'`
        have hp : ∀ k' : Bytes, (dbSnapshot db).dropWhile (fun e => ikLt e ⟨k', maxU64, [], false, false⟩) =
            (dbSnapshot db).dropWhile (fun e => Bytes.lt e.key k') := by
          intro k'
          apply dropWhile_congr_mem
          intro e he
          have hv := snapshot_ver hwf e he
          simp only [ikLt]
          have : decide (maxU64 < e.ver) = false := by simp; omega
          simp [this]
        rw [hp]
        have hrel := fun k' => dbRel_pop c hgood db true lo0 up0 st cu oor
          ((dbSnapshot db).dropWhile (fun e => Bytes.lt e.key k'))
          (sorted_dropWhile _ _ (by simpa [dirSnap] using hsd))
        have hcomm := fun k' => filter_dropWhile_comm (ordOK_dir false) (anti_keyLt k') (keepD lo0 up0)
          (dbSnapshot db) (sorted_snapshotOf _)
        have hds : dirSnap db true = dbSnapshot db := by simp [dirSnap]
        rw [hds]
        by_cases hL : lo0 ≠ [] ∧ Bytes.lt k lo0 = true
        · rw [if_pos hL]
          have := hrel lo0
          rw [hcomm lo0] at this
          have e1 : ((dbSnapshot db).filter (keepD lo0 up0)).dropWhile (fun e => Bytes.lt e.key lo0) =
              (dbSnapshot db).filter (keepD lo0 up0) :=
            dropWhile_none _ (fun e he => keepD_lower (List.mem_filter.mp he).2 hL.1)
          have e2 : ((dbSnapshot db).filter (keepD lo0 up0)).dropWhile (fun e => Bytes.lt e.key k) =
              (dbSnapshot db).filter (keepD lo0 up0) := by
            apply dropWhile_none
            intro e he
            have hk := keepD_lower (List.mem_filter.mp he).2 hL.1
            cases hh : Bytes.lt e.key k with
            | false => rfl
            | true => rw [Bytes.lt_trans hh hL.2] at hk; cases hk
          rw [e2]; rw [e1] at this; exact this
        · rw [if_neg hL]
          have := hrel k
          rw [hcomm k] at this
          exact this
    | false =>
      simp only [Bool.false_eq_true, if_false, Bool.not_false, if_true, false_and]
      by_cases hL : lo0 ≠ [] ∧ Bytes.lt k lo0 = true
      · rw [if_pos hL]
        have : ((dirSnap db false).filter (keepD lo0 up0)).dropWhile (fun e => Bytes.lt k e.key) = [] := by
          apply dropWhile_all
          intro e he
          have hk := keepD_lower (List.mem_filter.mp he).2 hL.1
          exact Bytes.lt_of_lt_of_le hL.2 (by simpa [Bytes.le] using hk)
        rw [this]
        exact dbRel_oor c db false lo0 up0 st
      · rw [if_neg hL, hrts, db_mergedSeek_rev c hgood db hwf]
        have hp : ∀ k' : Bytes, (dbSnapshot db).reverse.dropWhile (fun e => ikLt ⟨k', 0, [], false, false⟩ e) =
            (dbSnapshot db).reverse.dropWhile (fun e => Bytes.lt k' e.key) := by
          intro k'
          apply dropWhile_congr_mem
          intro e _
          simp [ikLt]
        simp only [hp]
        have hds : dirSnap db false = (dbSnapshot db).reverse := by simp [dirSnap]
        rw [hds]
        have hsr : Sorted (dirLt true) (dbSnapshot db).reverse := by simpa [dirSnap] using hsd
        have hrel := fun k' => dbRel_pop c hgood db false lo0 up0 st cu oor
          ((dbSnapshot db).reverse.dropWhile (fun e => Bytes.lt k' e.key)) (sorted_dropWhile _ _ hsr)
        have hcomm := fun k' => filter_dropWhile_comm (ordOK_dir true) (anti_keyGt k') (keepD lo0 up0)
          (dbSnapshot db).reverse hsr
        by_cases hU : up0 ≠ [] ∧ (!Bytes.lt k up0) = true
        · rw [if_pos hU]
          have := hrel up0
          rw [hcomm up0] at this
          have e1 : ((dbSnapshot db).reverse.filter (keepD lo0 up0)).dropWhile (fun e => Bytes.lt up0 e.key) =
              (dbSnapshot db).reverse.filter (keepD lo0 up0) := by
            apply dropWhile_none
            intro e he
            exact Bytes.lt_asymm (keepD_upper (List.mem_filter.mp he).2 hU.1)
          have e2 : ((dbSnapshot db).reverse.filter (keepD lo0 up0)).dropWhile (fun e => Bytes.lt k e.key) =
              (dbSnapshot db).reverse.filter (keepD lo0 up0) := by
            apply dropWhile_none
            intro e he
            have hk := keepD_upper (List.mem_filter.mp he).2 hU.1
            cases hh : Bytes.lt k e.key with
            | false => rfl
            | true =>
              have := Bytes.lt_trans hh hk
              simp [this] at hU
          rw [e2]; rw [e1] at this; exact this
        · rw [if_neg hU]
          have := hrel k
          rw [hcomm k] at this
          exact this

/-- the run of a DB iterator equals the run of the specification's cursor -/
theorem runDb_eq (c : IterCfg) (hc : c.DbGood) (db : DB) (hwf : db.WF) (asc : Bool) (lower upper : Bytes) :
    ∀ (ops : List CurOp) (it : DbIt) (cur : List Ent), DbRel c db asc lower upper it cur →
      runDb c it ops = runSpec (specDbList (dbSnapshot db) asc lower upper) (!asc) false cur ops
  | [], _, _, _ => rfl
  | op :: ops, it, cur, h => by
    have hstep := dbRel_step c hc db hwf asc lower upper it cur h op
    simp only [runDb, runSpec]
    rw [runDb_eq c hc db hwf asc lower upper ops _ _ hstep, hstep.inv.1]

end NoKV.Iter

/-
The merged stream of a TxnIterator for ANY transaction (read-only or with pending writes), good
configuration: the part `V` of the transaction's snapshot visible at its read timestamp,
in iteration order after `Rewind`, its `dropWhile` after `Seek`.
-/
import NoKVModel.Iter.PendingLemmas

namespace NoKV.Iter

/-- the visible part of the transaction's snapshot, `compareKeys`-ascending -/
def txnV (db : DB) (upd : Bool) (pend : List Write) : List Ent :=
  (txnSnapshot db upd pend).filter (visAt db.readTs)

/-- the sources behind `txnV`: the sorted pending list (empty for a read-only transaction), then
the LSM sources by recency -/
def txnZ (c : IterCfg) (db : DB) (upd : Bool) (pend : List Write) : List (List Ent) :=
  (if upd then pendingList c db.readTs pend else []) :: db.byRecency

theorem txnZ_sorted (c : IterCfg) (hp : c.pendingCmp = .compareKeys) (db : DB) (h : db.WF) (upd : Bool)
    (pend : List Write) : AllSorted (dirLt false) (txnZ c db upd pend) := by
  intro s hs
  rcases List.mem_cons.mp hs with hs | hs
  · rw [hs]; split
    · exact (pendingList_spec c hp db.readTs pend).1
    · simp [Sorted]
  · exact h.allSorted s hs

theorem txnSnapshot_eq (c : IterCfg) (hp : c.pendingCmp = .compareKeys) (db : DB) (upd : Bool) (pend : List Write) :
    txnSnapshot db upd pend = snapshotOf (txnZ c db upd pend) := by
  unfold txnSnapshot txnZ
  cases upd with
  | false => simp [snapshotOf_nil_cons]
  | true =>
    simp only [if_true, List.singleton_append]
    have sp := pendingList_spec c hp db.readTs pend
    exact snapshotOf_cons_congr _ _ _ (sp.1.distinct (ordOK_dir false)) (firstWins_distinct _) sp.2

theorem filter_vis_pending (c : IterCfg) (hp : c.pendingCmp = .compareKeys) (rts : Nat) (pend : List Write) :
    (pendingList c rts pend).filter (visAt rts) = pendingList c rts pend := by
  rw [List.filter_eq_self]
  intro x hx
  have := (pendingList_ver c hp rts pend x hx).1
  simp [visAt, CmpOp.nat, CmpOp.eval, this]

theorem txnV_eq (c : IterCfg) (hp : c.pendingCmp = .compareKeys) (db : DB) (h : db.WF) (upd : Bool) (pend : List Write) :
    txnV db upd pend = mergeTree .right false ((txnZ c db upd pend).map (List.filter (visAt db.readTs))) := by
  unfold txnV
  rw [txnSnapshot_eq c hp, mergeTree_filter false _ (visAt_congr _) _ (txnZ_sorted c hp db h upd pend),
    mergeTree_eq_snapshot _ (txnZ_sorted c hp db h upd pend)]

theorem sorted_txnV (db : DB) (upd : Bool) (pend : List Write) : Sorted (dirLt false) (txnV db upd pend) :=
  sorted_filter _ _ (sorted_snapshotOf _)

theorem txnV_ver (db : DB) (upd : Bool) (pend : List Write) : ∀ x ∈ txnV db upd pend, x.ver ≤ db.readTs := by
  intro x hx
  have := (List.mem_filter.mp hx).2
  simp only [visAt, CmpOp.nat, CmpOp.eval, Bool.not_not, Bool.or_eq_true, decide_eq_true_eq, beq_iff_eq] at this
  omega

/-- keys of the LSM state and of the pending writes are non-empty (`Txn.modify`, `DB.Set`,
`SetVersionedEntry` and `lsm.Set` all reject an empty key) -/
def KeysOK (db : DB) (pend : List Write) : Prop :=
  (∀ s ∈ db.byRecency, ∀ e ∈ s, e.key ≠ []) ∧ ∀ w ∈ pend, w.key ≠ []

theorem txnV_keys (c : IterCfg) (hp : c.pendingCmp = .compareKeys) (db : DB) (h : db.WF) (upd : Bool)
    (pend : List Write) (hk : KeysOK db pend) : ∀ x ∈ txnV db upd pend, x.key ≠ [] := by
  intro x hx
  have hx' := (List.mem_filter.mp hx).1
  rw [txnSnapshot_eq c hp] at hx'
  obtain ⟨s, hs, hxs⟩ := firstWins_mem ((mem_snapshotOf _ (txnZ_sorted c hp db h upd pend) x).mp hx')
  rcases List.mem_cons.mp hs with hs | hs
  · subst hs
    split at hxs
    · obtain ⟨w, hw, hwk⟩ := (pendingList_ver c hp db.readTs pend x hxs).2
      rw [← hwk]; exact hk.2 w hw
    · cases hxs
  · exact hk.1 s hs x hxs

/-! ### the three positions of the merged iterator -/

/-- the streams of the sources of a transaction iterator, positioned by `g` (`Rewind` / `Seek`
on the entry list of one source), equal `txnZ` positioned and filtered — up to an empty source -/
theorem txn_stream (c : IterCfg) (hc : c.TxnGood) (db : DB) (h : db.WF) (upd : Bool) (pend : List Write)
    (rev : Bool) (g : List Ent → List Ent) (hg0 : g [] = []) (hgm : ∀ l x, x ∈ g l → x ∈ l) (hgs : ∀ l, Sorted (dirLt false) l → Sorted (dirLt rev) (g l))
    (pos : Source → List Ent)
    (hpos : ∀ s ∈ lsmAll c db true, pos s = g s.items)
    (hposP : pos ⟨.compareKeys, [pendingList c db.readTs pend], false, none⟩ = g (pendingList c db.readTs pend)) :
    mergeTree c.eqKeyAdvances rev ((txnSources c db upd pend).map fun s => s.wrap c db.readTs (pos s)) =
      mergeTree .right rev ((txnZ c db upd pend).map fun l => (g l).filter (visAt db.readTs)) := by
  obtain ⟨hops, hadv, himm, hpc, _, _, hft, hcc⟩ := hc
  obtain ⟨_, _, _, _, _, hw, _⟩ := hops
  rw [hadv]
  -- the LSM part
  have hL : (lsmAll c db true).map (fun s => s.wrap c db.readTs (pos s)) =
      db.byRecency.map (fun l => (g l).filter (visAt db.readTs)) := by
    rw [← lsmAll_items c himm db true, List.map_map]
    apply List.map_congr_left
    intro s hs
    have hwr := (lsmAll_seek c himm hft hcc db h true ⟨[], 0, [], false, false⟩ s hs).1
    simp only [Function.comp, Source.wrap, hwr, if_true, hpos s hs, hw]
    rfl
  have hsortedL : AllSorted (dirLt rev) (db.byRecency.map (fun l => (g l).filter (visAt db.readTs))) := by
    intro s hs
    obtain ⟨u, hu, rfl⟩ := List.mem_map.mp hs
    exact sorted_filter _ _ (hgs u (h.allSorted u hu))
  have hsrc : txnSources c db upd pend =
      (if upd && !pend.isEmpty then [⟨c.pendingCmp, [pendingList c db.readTs pend], false, none⟩] else []) ++
        lsmAll c db true := by simp [txnSources, lsmAll, List.append_assoc]
  rw [hsrc, List.map_append, hL, hpc]
  unfold txnZ
  by_cases hu : upd = true
  · by_cases hpe : pend.isEmpty = true
    · -- an update transaction without writes: no pending source; `pendingList [] = []`
      have : pend = [] := List.isEmpty_iff.mp hpe
      subst this
      simp only [hu, List.isEmpty_nil, Bool.not_true, Bool.and_false, Bool.false_eq_true, if_false, List.map_nil,
        List.nil_append, if_true, List.map_cons, pendingList, List.foldl_nil, hg0, List.filter_nil]
      exact (mergeTree_nil_cons rev _ hsortedL).symm
    · have hpe' : pend.isEmpty = false := by cases hh : pend.isEmpty <;> simp_all
      simp only [hu, hpe', Bool.not_false, Bool.and_true, if_true, List.map_cons, List.map_nil, List.singleton_append]
      congr 2
      simp only [Source.wrap, Bool.false_eq_true, if_false, hposP]
      -- the pending entries are all visible
      rw [List.filter_eq_self.mpr]
      intro x hx
      have := (pendingList_ver c hpc db.readTs pend x (hgm _ x hx)).1
      simp [visAt, CmpOp.nat, CmpOp.eval, this]
  · have hu' : upd = false := by cases hh : upd <;> simp_all
    simp only [hu', Bool.false_and, Bool.false_eq_true, if_false, List.map_nil, List.nil_append, List.map_cons, hg0,
      List.filter_nil]
    exact (mergeTree_nil_cons rev _ hsortedL).symm

theorem txnV_snap (c : IterCfg) (hp : c.pendingCmp = .compareKeys) (db : DB) (upd : Bool) (pend : List Write) :
    txnV db upd pend = (snapshotOf (txnZ c db upd pend)).filter (visAt db.readTs) := by
  unfold txnV; rw [txnSnapshot_eq c hp]

theorem txn_mergedRewind' (c : IterCfg) (hc : c.TxnGood) (db : DB) (h : db.WF) (upd : Bool) (pend : List Write)
    (rev : Bool) :
    mergedRewind c rev db.readTs (txnSources c db upd pend) =
      if rev then (txnV db upd pend).reverse else txnV db upd pend := by
  have hp := hc.2.2.2.1
  have hZ := txnZ_sorted c hp db h upd pend
  unfold mergedRewind
  cases rev with
  | false =>
    rw [txn_stream c hc db h upd pend false id rfl (fun _ _ hx => hx) (fun l hl => hl)
      (fun s => srcRewind false s.items) (fun s _ => by simp [srcRewind]) (by simp [srcRewind, Source.items])]
    simp only [id, Bool.false_eq_true, if_false]
    exact (txnV_eq c hp db h upd pend).symm
  | true =>
    rw [txn_stream c hc db h upd pend true List.reverse rfl (fun _ _ hx => List.mem_reverse.mp hx)
      (fun l hl => sorted_reverse false hl)
      (fun s => srcRewind true s.items) (fun s _ => by simp [srcRewind]) (by simp [srcRewind, Source.items])]
    simp only [if_true]
    have hs' : AllSorted (dirLt true) ((txnZ c db upd pend).map List.reverse) := by
      intro s hs1
      obtain ⟨u, hu, rfl⟩ := List.mem_map.mp hs1
      exact sorted_reverse false (hZ u hu)
    have := mergeTree_filter true _ (visAt_congr db.readTs) _ hs'
    rw [mergeTree_rev_eq_snapshot _ hZ, List.map_map] at this
    rw [txnV_snap c hp, ← List.filter_reverse, ← this]
    rfl

theorem txn_mergedSeek_fwd' (c : IterCfg) (hc : c.TxnGood) (db : DB) (h : db.WF) (upd : Bool) (pend : List Write)
    (t : Ent) :
    mergedSeek c false db.readTs t (txnSources c db upd pend) = (txnV db upd pend).dropWhile (fun e => ikLt e t) := by
  have hp := hc.2.2.2.1
  have hZ := txnZ_sorted c hp db h upd pend
  obtain ⟨_, _, himm, hpc, _, _, hft, hcc⟩ := id hc
  unfold mergedSeek
  rw [txn_stream c hc db h upd pend false (List.dropWhile fun e => ikLt e t) rfl
    (fun _ _ hx => (List.dropWhile_sublist _).subset hx) (fun l hl => sorted_dropWhile _ l hl)
    (fun s => s.seek c false t) (fun s hs => (lsmAll_seek c himm hft hcc db h true t s hs).2.1)
    (by simp [Source.seek, blockSeek, Source.items])]
  have h1 := mergeTree_filter false _ (visAt_congr db.readTs) _ (allSorted_map_dropWhile (fun e => ikLt e t) _ hZ)
  rw [mergeTree_dropWhile false (anti_ikLt_target t) _ hZ, mergeTree_eq_snapshot _ hZ, List.map_map] at h1
  rw [txnV_snap c hp, ← filter_dropWhile_comm (ordOK_dir false) (anti_ikLt_target t) _ _ (sorted_snapshotOf _), ← h1]
  rfl

theorem txn_mergedSeek_rev' (c : IterCfg) (hc : c.TxnGood) (db : DB) (h : db.WF) (upd : Bool) (pend : List Write)
    (t : Ent) :
    mergedSeek c true db.readTs t (txnSources c db upd pend) =
      (txnV db upd pend).reverse.dropWhile (fun e => ikLt t e) := by
  have hp := hc.2.2.2.1
  have hZ := txnZ_sorted c hp db h upd pend
  obtain ⟨_, _, himm, hpc, _, _, hft, hcc⟩ := id hc
  unfold mergedSeek
  rw [txn_stream c hc db h upd pend true (fun l => l.reverse.dropWhile fun e => ikLt t e) rfl
    (fun _ _ hx => List.mem_reverse.mp ((List.dropWhile_sublist _).subset hx))
    (fun l hl => sorted_dropWhile _ _ (sorted_reverse false hl))
    (fun s => s.seek c true t) (fun s hs => (lsmAll_seek c himm hft hcc db h true t s hs).2.2)
    (by simp [Source.seek, hpc, srcSeek, srcLt, Source.items])]
  have hs' : AllSorted (dirLt true) ((txnZ c db upd pend).map List.reverse) := by
    intro s hs1
    obtain ⟨u, hu, rfl⟩ := List.mem_map.mp hs1
    exact sorted_reverse false (hZ u hu)
  have h1 := mergeTree_filter true _ (visAt_congr db.readTs) _ (allSorted_map_dropWhile (fun e => ikLt t e) _ hs')
  rw [mergeTree_dropWhile true (anti_ikLt_target_rev t) _ hs', mergeTree_rev_eq_snapshot _ hZ, List.map_map,
    List.map_map] at h1
  rw [txnV_snap c hp, ← List.filter_reverse,
    ← filter_dropWhile_comm (ordOK_dir true) (anti_ikLt_target_rev t) _ _ (sorted_reverse false (sorted_snapshotOf _)),
    ← h1]
  rfl

end NoKV.Iter

/-
The TxnIterator cursor machine against the specification's cursor (good configuration).
-/
import NoKVModel.Iter.GroupRevLemmas
import NoKVModel.Iter.TxnStream

namespace NoKV.Iter

def Bm (c : IterCfg) (o : Opts) (e : Ent) : Bool := belowLower c o e.key
def Am (c : IterCfg) (o : Opts) (e : Ent) : Bool := aboveUpper c o e.key

/-- reverse, one version per key, repaired group rule -/
def isRN (c : IterCfg) (o : Opts) : Bool := o.reverse && !o.allVersions && decide (c.revGroup = .newest)

theorem advanceLit_eq (c : IterCfg) (o : Opts) (rts : Nat) : ∀ (l : List Ent) (lk : Bytes),
    advanceLit c o rts lk l =
      advF (Bm c o) (Am c o) (filteredOut c o rts) o.reverse o.allVersions (c.lastKeyOnSkip && !o.reverse) lk l
  | [], _ => rfl
  | e :: rest, lk => by
    simp only [advanceLit, advF, advanceLit_eq c o rts rest]
    rfl

theorem advanceRN_eq (c : IterCfg) (o : Opts) (rts : Nat) : ∀ (l : List Ent) (cand : Option Ent) (lk : Bytes),
    advanceRN c o rts cand lk l = advR (Bm c o) (Am c o) (filteredOut c o rts) cand lk l
  | [], none, _ => rfl
  | [], some _, _ => rfl
  | e :: rest, none, lk => by
    simp only [advanceRN, advR, advanceRN_eq c o rts rest]
    rfl
  | e :: rest, some p, lk => by
    simp only [advanceRN, advR, advanceRN_eq c o rts rest]
    rfl

/-- everything the iterator will yield from the position (`lk`, `l`) on -/
def G (c : IterCfg) (o : Opts) (rts : Nat) (lk : Bytes) (l : List Ent) : List Ent :=
  if isRN c o then gR (Bm c o) (Am c o) (filteredOut c o rts) none lk l
  else gF (Bm c o) (Am c o) (filteredOut c o rts) o.reverse o.allVersions (c.lastKeyOnSkip && !o.reverse) lk l

theorem advance_eq (c : IterCfg) (o : Opts) (rts : Nat) (lk : Bytes) (l : List Ent) :
    advance c o rts lk l =
      if isRN c o then advR (Bm c o) (Am c o) (filteredOut c o rts) none lk l
      else advF (Bm c o) (Am c o) (filteredOut c o rts) o.reverse o.allVersions (c.lastKeyOnSkip && !o.reverse) lk l := by
  unfold advance isRN
  split
  · exact advanceRN_eq c o rts l none lk
  · exact advanceLit_eq c o rts l lk

/-! ### the predicates under the good operators -/

theorem Bm_iff (c : IterCfg) (hc : c.OpsGood) (o : Opts) (e : Ent) :
    Bm c o e = (decide (o.lower ≠ []) && Bytes.lt e.key o.lower) := by
  simp [Bm, belowLower, bcmp, hc.1, CmpOp.eval]

theorem Am_iff (c : IterCfg) (hc : c.OpsGood) (o : Opts) (e : Ent) :
    Am c o e = (decide (o.upper ≠ []) && !Bytes.lt e.key o.upper) := by
  simp [Am, aboveUpper, bcmp, hc.2.1, CmpOp.eval]

theorem bm_key (c : IterCfg) (o : Opts) : ∀ a b : Ent, a.key = b.key → Bm c o a = Bm c o b ∧ Am c o a = Am c o b := by
  intro a b h; simp [Bm, Am, h]

theorem hout_fwd (c : IterCfg) (hc : c.OpsGood) (o : Opts) :
    ∀ a b, dirLt false a b = true → stoppedF (Bm c o) (Am c o) false a = true → (Bm c o b = true ∨ Am c o b = true) := by
  intro a b hab hst
  right
  simp only [stoppedF, Bool.false_eq_true, if_false, Bool.and_eq_true, Bool.not_eq_true', Am_iff c hc,
    decide_eq_true_eq] at hst ⊢
  refine ⟨hst.2.1, ?_⟩
  simp only [dirLt, Bool.false_eq_true, if_false] at hab
  have hk := key_le_of_ikLt hab
  cases h : Bytes.lt b.key o.upper with
  | false => rfl
  | true =>
    have := Bytes.lt_of_le_of_lt (show Bytes.le a.key b.key = true by simpa [Bytes.le] using hk) h
    rw [hst.2.2] at this; cases this

theorem hout_rev (c : IterCfg) (hc : c.OpsGood) (o : Opts) :
    ∀ a b, dirLt true a b = true → Bm c o a = true → Bm c o b = true := by
  intro a b hab hst
  simp only [Bm_iff c hc, Bool.and_eq_true, decide_eq_true_eq] at hst ⊢
  refine ⟨hst.1, ?_⟩
  have hk := key_ge_of_sorted_rev hab
  exact Bytes.lt_of_le_of_lt (show Bytes.le b.key a.key = true by simpa [Bytes.le] using hk) hst.2

theorem hout_rev' (c : IterCfg) (hc : c.OpsGood) (o : Opts) :
    ∀ a b, dirLt true a b = true → stoppedF (Bm c o) (Am c o) true a = true → (Bm c o b = true ∨ Am c o b = true) := by
  intro a b hab hst
  exact Or.inl (hout_rev c hc o a b hab (by simpa [stoppedF] using hst))

theorem fo_spec (c : IterCfg) (hc : c.OpsGood) (o : Opts) (rts : Nat) (e : Ent) :
    (!filteredOut c o rts e) =
      (decide (e.ver ≤ rts) && (decide (o.sinceTs = 0) || decide (o.sinceTs < e.ver)) && prefixOk o e.key) := by
  obtain ⟨_, _, _, _, hr, _, hs, _⟩ := id hc
  simp only [filteredOut, hr, hs, CmpOp.nat, CmpOp.eval]
  cases prefixOk o e.key
  · simp
  · rw [Bool.eq_iff_iff]
    simp
    omega

theorem bounds_spec (lower upper k : Bytes) :
    (!(decide (lower ≠ []) && Bytes.lt k lower) && !(decide (upper ≠ []) && !Bytes.lt k upper)) = inBounds lower upper k := by
  simp only [inBounds, Bytes.le]
  by_cases h1 : lower = [] <;> by_cases h2 : upper = [] <;> by_cases h3 : Bytes.lt k lower = true <;>
    by_cases h4 : Bytes.lt k upper = true <;> simp_all

/-- the loop's pass condition is the specification's visibility -/
theorem passP_spec (c : IterCfg) (hc : c.OpsGood) (o : Opts) (rts : Nat) (e : Ent) :
    passP (Bm c o) (Am c o) (filteredOut c o rts) e = specVisible o rts e := by
  simp only [passP, Bm_iff c hc, Am_iff c hc, bounds_spec, fo_spec c hc, specVisible]
  generalize inBounds o.lower o.upper e.key = b1
  generalize decide (e.ver ≤ rts) = b2
  generalize (decide (o.sinceTs = 0) || decide (o.sinceTs < e.ver)) = b3
  generalize prefixOk o e.key = b4
  cases b1 <;> cases b2 <;> cases b3 <;> cases b4 <;> rfl

theorem fo_mono (c : IterCfg) (hc : c.OpsGood) (o : Opts) (rts : Nat) (a b : Ent) (hb : b.ver ≤ rts)
    (hk : a.key = b.key) (hv : a.ver ≤ b.ver) (ha : filteredOut c o rts a = false) : filteredOut c o rts b = false := by
  have h1 := fo_spec c hc o rts a
  have h2 := fo_spec c hc o rts b
  rw [ha] at h1
  cases hfb : filteredOut c o rts b with
  | false => rfl
  | true =>
    rw [hfb, ← hk] at h2
    simp at h1 h2
    have h3 := h2 hb (by omega)
    rw [h1.2] at h3; cases h3

/-! ### streams the iterator walks -/

structure StreamOK (o : Opts) (rts : Nat) (l : List Ent) : Prop where
  sorted : Sorted (dirLt o.reverse) l
  keys : ∀ y ∈ l, y.key ≠ []
  ver : ∀ y ∈ l, y.ver ≤ rts

theorem StreamOK.sub {o : Opts} {rts : Nat} {l l' : List Ent} (h : StreamOK o rts l) (hs : l'.Sublist l) :
    StreamOK o rts l' :=
  ⟨List.Pairwise.sublist hs h.sorted, fun y hy => h.keys y (hs.subset hy), fun y hy => h.ver y (hs.subset hy)⟩

/-- `x` is the newest visible entry of its key in `l` -/
def NewestVis (o : Opts) (rts : Nat) (l : List Ent) (x : Ent) : Prop :=
  ∀ y ∈ l, specVisible o rts y = true → y.key = x.key → y.ver ≤ x.ver

theorem mem_G (c : IterCfg) (hc : c.TxnGood) (o : Opts) (rts : Nat) (l : List Ent) (h : StreamOK o rts l) (x : Ent) :
    x ∈ G c o rts [] l ↔
      (x ∈ l ∧ specVisible o rts x = true ∧ x.dead = false ∧ (o.allVersions = true ∨ NewestVis o rts l x)) := by
  obtain ⟨hops, _, _, _, hlk, hrg, _, _⟩ := id hc
  have hnv : NewestIn (Bm c o) (Am c o) (filteredOut c o rts) l x ↔ NewestVis o rts l x := by
    simp only [NewestIn, NewestVis, passP_spec c hops]
  unfold G isRN
  simp only [hrg, decide_true, Bool.and_true, hlk, Bool.true_and]
  by_cases hr : o.reverse = true
  · by_cases ha : o.allVersions = true
    · simp only [hr, ha, Bool.not_true, Bool.and_false, Bool.false_eq_true, if_false]
      have := mem_gF_all (Bm c o) (Am c o) (filteredOut c o rts) true false (hout_rev' c hops o) x l []
        (by simpa [hr] using h.sorted)
      rw [this, passP_spec c hops]
      simp
    · have ha' : o.allVersions = false := by cases hh : o.allVersions <;> simp_all
      simp only [hr, ha', Bool.not_false, Bool.and_true, if_true]
      have := mem_gR (Bm c o) (Am c o) (filteredOut c o rts) (bm_key c o) (hout_rev c hops o) x l none []
        (by simpa [optList, hr] using h.sorted) (by simpa [optList] using h.keys)
        (by
          simp only [optList, List.nil_append]
          intro a _ b hb hk hv hfa
          exact fo_mono c hops o rts a b (h.ver b hb) hk hv hfa)
        (Or.inl rfl) (by intro p hp; cases hp)
      simp only [optList, List.nil_append, passP_spec c hops, hnv] at this
      rw [this]
      constructor
      · rintro ⟨h1, h2, h3, _, h5⟩; exact ⟨h1, h2, h3, Or.inr h5⟩
      · rintro ⟨h1, h2, h3, h5⟩
        exact ⟨h1, h2, h3, h.keys x h1, h5.resolve_left (by simp [ha'])⟩
  · have hr' : o.reverse = false := by cases hh : o.reverse <;> simp_all
    simp only [hr', Bool.false_and, Bool.false_eq_true, if_false, Bool.not_false]
    by_cases ha : o.allVersions = true
    · simp only [ha]
      have := mem_gF_all (Bm c o) (Am c o) (filteredOut c o rts) false true (hout_fwd c hops o) x l []
        (by simpa [hr'] using h.sorted)
      rw [this, passP_spec c hops]
      simp
    · have ha' : o.allVersions = false := by cases hh : o.allVersions <;> simp_all
      simp only [ha']
      have := mem_gF_newest (Bm c o) (Am c o) (filteredOut c o rts) (bm_key c o) (hout_fwd c hops o) x l []
        (by simpa [hr'] using h.sorted) h.keys (Or.inl rfl)
      simp only [passP_spec c hops, hnv] at this
      rw [this]
      constructor
      · rintro ⟨h1, h2, h3, _, h5⟩; exact ⟨h1, h2, h3, Or.inr h5⟩
      · rintro ⟨h1, h2, h3, h5⟩
        exact ⟨h1, h2, h3, h.keys x h1, h5.resolve_left (by simp [ha'])⟩

theorem G_sublist (c : IterCfg) (o : Opts) (rts : Nat) (lk : Bytes) (l : List Ent) : (G c o rts lk l).Sublist l := by
  unfold G
  split
  · simpa [optList] using gR_sublist (Bm c o) (Am c o) (filteredOut c o rts) l none lk
  · exact gF_sublist _ _ _ _ _ _ l lk

/-- one `advance` call -/
theorem advance_G (c : IterCfg) (hc : c.TxnGood) (o : Opts) (rts : Nat) (lk : Bytes) (l : List Ent)
    (hs : Sorted (dirLt o.reverse) l) :
    (advance c o rts lk l).1 = (G c o rts lk l).head? ∧
    G c o rts (advance c o rts lk l).2.1 (advance c o rts lk l).2.2.tail = (G c o rts lk l).tail ∧
    Sorted (dirLt o.reverse) (advance c o rts lk l).2.2 := by
  have hops := hc.1
  rw [advance_eq]
  unfold G
  by_cases hrn : isRN c o = true
  · simp only [hrn, if_true]
    have hr : o.reverse = true := by
      simp only [isRN, Bool.and_eq_true] at hrn; exact hrn.1.1
    rw [hr] at hs ⊢
    exact advR_gR (Bm c o) (Am c o) (filteredOut c o rts) (hout_rev c hops o) l none lk (by simpa [optList] using hs)
  · have hrn' : isRN c o = false := by cases hh : isRN c o <;> simp_all
    simp only [hrn', Bool.false_eq_true, if_false]
    apply advF_gF
    · cases hr : o.reverse with
      | true => exact hout_rev' c hops o
      | false => exact hout_fwd c hops o
    · exact hs

/-- a different `lastKey` only removes yields (reverse iteration) -/
theorem G_lk_sub (c : IterCfg) (hc : c.TxnGood) (o : Opts) (hr : o.reverse = true) (rts : Nat) (lk : Bytes) (l : List Ent)
    (hk : ∀ y ∈ l, y.key ≠ []) (x : Ent) : x ∈ G c o rts lk l → x ∈ G c o rts [] l := by
  have hrg := hc.2.2.2.2.2.1
  unfold G isRN
  simp only [hr, hrg, decide_true, Bool.and_true, Bool.true_and]
  by_cases ha : o.allVersions = true
  · simp only [ha, Bool.not_true, Bool.false_eq_true, if_false]
    -- all versions: `lastKey` is never consulted
    have hgen : ∀ (l : List Ent) (lk lk' : Bytes) (s : Bool),
        gF (Bm c o) (Am c o) (filteredOut c o rts) true true s lk l =
        gF (Bm c o) (Am c o) (filteredOut c o rts) true true s lk' l := by
      intro l
      induction l with
      | nil => intros; rfl
      | cons e rest ih =>
        intro lk lk' s
        simp only [gF, Bool.not_true, Bool.false_and, Bool.false_eq_true, if_false]
        rw [ih lk lk' s, ih (if s = true then e.key else lk) (if s = true then e.key else lk') s, ih e.key e.key s]
    rw [hgen l lk []]
    exact id
  · have ha' : o.allVersions = false := by cases hh : o.allVersions <;> simp_all
    simp only [ha', Bool.not_false, if_true]
    exact gR_lk_sub (Bm c o) (Am c o) (filteredOut c o rts) (bm_key c o) x l lk hk

end NoKV.Iter

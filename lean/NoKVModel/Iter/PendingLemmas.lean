/-
The pending-writes source (`newPendingWritesIterator` with `CompareKeys`): the upsert-sorted list
holds exactly the last write of every key, i.e. the specification's `pendingEnts`; replacing one by
the other does not change the snapshot.
-/
import NoKVModel.Iter.TxnLemmas

namespace NoKV.Iter

/-- no two members share an internal key -/
def Distinct (l : List Ent) : Prop := l.Pairwise (fun a b => ikEq a b = false)

theorem Sorted.distinct {lt} (ok : OrdOK lt) {l : List Ent} (h : Sorted lt l) : Distinct l :=
  List.Pairwise.imp (fun hab => ok.not_eq_of_lt hab) h

theorem firstOcc_of_distinct {s : List Ent} (hs : Distinct s) (e : Ent) : FirstOcc s e ↔ e ∈ s := by
  constructor
  · exact firstOcc_mem
  · intro he
    induction s with
    | nil => cases he
    | cons x r ih =>
      rcases List.mem_cons.mp he with h | h
      · exact Or.inl h
      · exact Or.inr ⟨(List.pairwise_cons.mp hs).1 e h, ih (List.pairwise_cons.mp hs).2 h⟩

theorem mem_upsert (e : Ent) : ∀ (l : List Ent), Sorted (dirLt false) l →
    ∀ x, x ∈ upsert .compareKeys e l ↔ (x = e ∨ (x ∈ l ∧ ikEq e x = false))
  | [], _, x => by simp [upsert]
  | y :: ys, hs, x => by
    have ok := ordOK_dir false
    simp only [upsert, srcLt]
    by_cases h1 : ikEq e y = true
    · simp only [h1, if_true, List.mem_cons]
      constructor
      · rintro (h | h)
        · exact Or.inl h
        · refine Or.inr ⟨Or.inr h, ?_⟩
          have : dirLt false e x = true := by rw [ok.congrL e y x h1]; exact hs.head_lt x h
          exact ok.not_eq_of_lt this
      · rintro (h | ⟨h | h, h2⟩)
        · exact Or.inl h
        · rw [h, h1] at h2; cases h2
        · exact Or.inr h
    · have h1' : ikEq e y = false := by cases h : ikEq e y <;> simp_all
      simp only [h1', Bool.false_eq_true, if_false]
      by_cases h2 : ikLt e y = true
      · simp only [h2, if_true, List.mem_cons]
        have hlt : dirLt false e y = true := by simpa [dirLt] using h2
        constructor
        · rintro (h | h | h)
          · exact Or.inl h
          · rw [h]; exact Or.inr ⟨Or.inl rfl, h1'⟩
          · exact Or.inr ⟨Or.inr h, ok.not_eq_of_lt (ok.trans _ _ _ hlt (hs.head_lt x h))⟩
        · rintro (h | ⟨h | h, _⟩)
          · exact Or.inl h
          · exact Or.inr (Or.inl h)
          · exact Or.inr (Or.inr h)
      · simp only [h2, Bool.false_eq_true, if_false, List.mem_cons, mem_upsert e ys hs.tail x]
        constructor
        · rintro (h | h | ⟨h, h3⟩)
          · rw [h]; exact Or.inr ⟨Or.inl rfl, h1'⟩
          · exact Or.inl h
          · exact Or.inr ⟨Or.inr h, h3⟩
        · rintro (h | ⟨h | h, h3⟩)
          · exact Or.inr (Or.inl h)
          · exact Or.inl h
          · exact Or.inr (Or.inr ⟨h, h3⟩)

theorem sorted_upsert (e : Ent) : ∀ (l : List Ent), Sorted (dirLt false) l → Sorted (dirLt false) (upsert .compareKeys e l)
  | [], _ => by simp [upsert, Sorted]
  | y :: ys, hs => by
    have ok := ordOK_dir false
    simp only [upsert, srcLt]
    by_cases h1 : ikEq e y = true
    · simp only [h1, if_true]
      refine List.pairwise_cons.mpr ⟨?_, hs.tail⟩
      intro z hz
      rw [ok.congrL e y z h1]; exact hs.head_lt z hz
    · have h1' : ikEq e y = false := by cases h : ikEq e y <;> simp_all
      simp only [h1', Bool.false_eq_true, if_false]
      by_cases h2 : ikLt e y = true
      · simp only [h2, if_true]
        have hlt : dirLt false e y = true := by simpa [dirLt] using h2
        refine List.pairwise_cons.mpr ⟨?_, hs⟩
        intro z hz
        rcases List.mem_cons.mp hz with h | h
        · rw [h]; exact hlt
        · exact ok.trans _ _ _ hlt (hs.head_lt z h)
      · simp only [h2, Bool.false_eq_true, if_false]
        have hgt : dirLt false y e = true := by
          rcases ok.tri e y with h | h | h
          · simp [dirLt] at h; exact absurd h h2
          · rw [h1'] at h; cases h
          · exact h
        refine List.pairwise_cons.mpr ⟨?_, sorted_upsert e ys hs.tail⟩
        intro z hz
        rcases (mem_upsert e ys hs.tail z).mp hz with h | ⟨h, _⟩
        · rw [h]; exact hgt
        · exact hs.head_lt z h

/-- folding `upsert` over the writes: sorted, and its members are the first occurrences in
"latest write first" order -/
theorem foldl_upsert (f : Write → Ent) : ∀ (ws : List Write) (acc : List Ent), Sorted (dirLt false) acc →
    Sorted (dirLt false) (ws.foldl (fun m w => upsert .compareKeys (f w) m) acc) ∧
    ∀ x, x ∈ ws.foldl (fun m w => upsert .compareKeys (f w) m) acc ↔ FirstOcc (ws.reverse.map f ++ acc) x
  | [], acc, hs => by
    refine ⟨hs, fun x => ?_⟩
    simp [firstOcc_of_distinct (hs.distinct (ordOK_dir false))]
  | w :: ws, acc, hs => by
    have ih := foldl_upsert f ws (upsert .compareKeys (f w) acc) (sorted_upsert (f w) acc hs)
    refine ⟨ih.1, fun x => ?_⟩
    simp only [List.foldl_cons]
    rw [ih.2 x]
    simp only [List.reverse_cons, List.map_append, List.map_cons, List.map_nil, List.append_assoc, List.cons_append,
      List.nil_append]
    rw [firstOcc_append, firstOcc_append]
    have hd1 := (sorted_upsert (f w) acc hs).distinct (ordOK_dir false)
    have hd2 := hs.distinct (ordOK_dir false)
    have : FirstOcc (upsert .compareKeys (f w) acc) x ↔ FirstOcc (f w :: acc) x := by
      rw [firstOcc_of_distinct hd1, mem_upsert (f w) acc hs]
      simp only [FirstOcc, firstOcc_of_distinct hd2]
      constructor
      · rintro (h | ⟨h1, h2⟩)
        · exact Or.inl h
        · exact Or.inr ⟨h2, h1⟩
      · rintro (h | ⟨h1, h2⟩)
        · exact Or.inl h
        · exact Or.inr ⟨h2, h1⟩
    rw [this]

theorem pendingList_spec (c : IterCfg) (hc : c.pendingCmp = .compareKeys) (rts : Nat) (ws : List Write) :
    Sorted (dirLt false) (pendingList c rts ws) ∧ ∀ x, x ∈ pendingList c rts ws ↔ x ∈ pendingEnts rts ws := by
  unfold pendingList pendingEnts
  rw [hc]
  have := foldl_upsert (fun w => (⟨w.key, rts, w.val, w.del, w.exp⟩ : Ent)) ws [] (by simp [Sorted])
  refine ⟨this.1, fun x => ?_⟩
  rw [this.2 x, mem_firstWins]
  simp

theorem pendingList_ver (c : IterCfg) (hc : c.pendingCmp = .compareKeys) (rts : Nat) (ws : List Write) :
    ∀ x ∈ pendingList c rts ws, x.ver = rts ∧ ∃ w ∈ ws, w.key = x.key := by
  intro x hx
  have := ((pendingList_spec c hc rts ws).2 x).mp hx
  unfold pendingEnts at this
  have := firstOcc_mem ((mem_firstWins _ x).mp this)
  simp only [List.mem_map, List.mem_reverse] at this
  obtain ⟨w, hw, rfl⟩ := this
  exact ⟨rfl, w, hw, rfl⟩

/-- sources with the same members, each free of duplicate internal keys, give the same snapshot -/
theorem snapshotOf_cons_congr (P P' : List Ent) (L : List (List Ent)) (hd : Distinct P) (hd' : Distinct P')
    (hm : ∀ x, x ∈ P ↔ x ∈ P') : snapshotOf (P' :: L) = snapshotOf (P :: L) := by
  unfold snapshotOf
  have ok := ordOK_dir false
  have s1 := sorted_isortIk _ (firstWins_distinct (P' :: L).flatten)
  have s2 := sorted_isortIk _ (firstWins_distinct (P :: L).flatten)
  rw [← dirLt_false] at s1 s2
  apply sorted_ext ok s1 s2
  intro e
  rw [mem_isortIk, mem_isortIk, mem_firstWins, mem_firstWins, List.flatten_cons, List.flatten_cons,
    firstOcc_append, firstOcc_append, firstOcc_of_distinct hd, firstOcc_of_distinct hd', hm]
  have : NoKey P' e ↔ NoKey P e := by
    constructor
    · intro h x hx; exact h x ((hm x).mp hx)
    · intro h x hx; exact h x ((hm x).mpr hx)
  rw [this]

theorem snapshotOf_nil_cons (L : List (List Ent)) : snapshotOf ([] :: L) = snapshotOf L := by
  simp [snapshotOf]

theorem mergeTree_nil_cons (rev : Bool) (Y : List (List Ent)) (hs : AllSorted (dirLt rev) Y) :
    mergeTree .right rev ([] :: Y) = mergeTree .right rev Y := by
  have hs' : AllSorted (dirLt rev) ([] :: Y) := by
    intro s h
    rcases List.mem_cons.mp h with h | h
    · rw [h]; simp [Sorted]
    · exact hs s h
  apply sorted_ext (ordOK_dir rev) (mergeTree_sorted rev _ hs') (mergeTree_sorted rev _ hs)
  intro e
  rw [mem_mergeTree rev _ hs', mem_mergeTree rev _ hs]
  simp [FirstWins, NoKey]

end NoKV.Iter

/-
The invariant of the oracle × watermark system (`NoKV.Snap.sys`) under the good configuration, and
its preservation by every action.  The one fact imported from C32 is that the state of `txnMark`
satisfies C32's invariants (`tmR : WM.Ok`: true of a fresh or re-seeded watermark and kept by every
step of the watermark system *with the usage contract*): the contract is not assumed, it is
established here from the oracle mutex (`busy`, `next`).
-/
import NoKVModel.Snap.Model
import NoKVModel.Snap.WMFacts

namespace NoKV.Snap
open NoKV NoKV.Conc

/-- all writes of `t` are in the store at its commit timestamp -/
def AllApplied (s : St) (t : Txn) : Prop := ∀ kv, kv ∈ t.writes → entryOf kv t.commitTs ∈ s.store

/-- the first `i` writes of `t` are in the store -/
def PrefixApplied (s : St) (t : Txn) (i : Nat) : Prop :=
  ∀ j kv, j < i → t.writes[j]? = some kv → entryOf kv t.commitTs ∈ s.store

/-- `ts` is assigned, counted in `txnMark`, and its `Done` has not decremented yet -/
def Pending (s : St) (ts : Nat) : Prop := ts ≠ 0 ∧ s.tm.nDoneDec ts = 0

def HasKind (s : St) (w : Nat) (k : WM.Kind) : Prop := ∃ wt, s.tm.thr w = some wt ∧ wt.kind = k

/-- what a thread may rely on, by program counter; `False` = the shape never occurs -/
def PcInv (s : St) (tid : Nat) (t : Txn) : Pc → Prop
  | .rdLoadNext => t.commitTs = 0 ∧ t.began = false
  | .rdLoadLast _ => t.commitTs = 0 ∧ t.began = false
  | .rdWait => t.commitTs = 0
  | .active => t.commitTs = 0 ∧ t.began = true
  | .cLock => t.commitTs = 0
  | .cDoneRead => t.commitTs = 0 ∧ s.locked = some tid
  | .cCleanup => t.commitTs = 0 ∧ s.locked = some tid
  | .cAssign => t.commitTs = 0 ∧ s.locked = some tid
  | .cRecord => s.locked = some tid ∧ Pending s t.commitTs ∧ 1 ≤ s.tm.nCounted t.commitTs
  | .cApply i => Pending s t.commitTs ∧ 1 ≤ s.tm.nCounted t.commitTs ∧ PrefixApplied s t i
  | .cDone => Pending s t.commitTs ∧ 1 ≤ s.tm.nCounted t.commitTs ∧ AllApplied s t
  | .dDoneRead => t.commitTs ≠ 0 → AllApplied s t
  | .finished => t.commitTs ≠ 0 → AllApplied s t
  | .call .read _ .rdWait => t.commitTs = 0
  | .call .read _ .cCleanup => t.commitTs = 0 ∧ s.locked = some tid
  | .call .read _ .finished => t.commitTs ≠ 0 → AllApplied s t
  | .call .txn w .active => t.commitTs = 0 ∧ HasKind s w (.wait t.readTs)
  | .call .txn w .cRecord => s.locked = some tid ∧ Pending s t.commitTs ∧ HasKind s w (.begin t.commitTs)
  | .call .txn w .dDoneRead => t.commitTs ≠ 0 ∧ AllApplied s t ∧ HasKind s w (.done t.commitTs)
  | .call _ _ _ => False

def lockedPc : Pc → Bool
  | .cDoneRead | .cCleanup | .cAssign | .cRecord => true
  | .call .read _ .cCleanup => true
  | .call .txn _ .cRecord => true
  | _ => false

/-- assigned and not yet decremented -/
def pendingPc : Pc → Bool
  | .cRecord | .cApply _ | .cDone => true
  | .call .txn _ .cRecord => true
  | _ => false

structure TI (s : St) (tid : Nat) (t : Txn) : Prop where
  began : t.began = true → t.readTs ≤ s.tm.doneUntil
  pc : PcInv s tid t t.pc

theorem PcInv.locked {s : St} {tid : Nat} {t : Txn} {p : Pc} (h : PcInv s tid t p)
    (hl : lockedPc p = true) : s.locked = some tid := by
  unfold PcInv at h
  split at h
  all_goals first
    | exact h.elim
    | (simp [lockedPc] at hl; done)
    | exact h.2
    | exact h.1

theorem PcInv.pending {s : St} {tid : Nat} {t : Txn} {p : Pc} (h : PcInv s tid t p)
    (hl : pendingPc p = true) : Pending s t.commitTs := by
  unfold PcInv at h
  split at h
  all_goals first
    | exact h.elim
    | (simp [pendingPc] at hl; done)
    | exact h.2.1
    | exact h.1

/-- `PcInv` reads the mutex, the kinds of the `txnMark` call records, the two ghost counters at
the thread's own timestamp, and membership in the store -/
theorem PcInv.frame {s s' : St} {tid : Nat} {t : Txn} {p : Pc} (h : PcInv s tid t p)
    (hl : s.locked = some tid → s'.locked = some tid)
    (hk : ∀ w k, HasKind s w k → HasKind s' w k)
    (hdec : pendingPc p = true → s'.tm.nDoneDec t.commitTs = s.tm.nDoneDec t.commitTs)
    (hcnt : ∀ j, s.tm.nCounted j ≤ s'.tm.nCounted j)
    (hst : ∀ e, e ∈ s.store → e ∈ s'.store) : PcInv s' tid t p := by
  have hall : AllApplied s t → AllApplied s' t := fun h kv hkv => hst _ (h kv hkv)
  have hpre : ∀ i, PrefixApplied s t i → PrefixApplied s' t i := fun i h j kv hj hkv => hst _ (h j kv hj hkv)
  have hpend : pendingPc p = true → Pending s t.commitTs → Pending s' t.commitTs :=
    fun hp h => ⟨h.1, by rw [hdec hp]; exact h.2⟩
  have hc1 : 1 ≤ s.tm.nCounted t.commitTs → 1 ≤ s'.tm.nCounted t.commitTs :=
    fun h => Nat.le_trans h (hcnt _)
  unfold PcInv at h ⊢
  split at h
  all_goals simp only [pendingPc, forall_const] at hpend
  all_goals first
    | exact h.elim
    | exact h
    | exact ⟨h.1, hl h.2⟩
    | exact ⟨hl h.1, hpend h.2.1, hc1 h.2.2⟩
    | exact ⟨hpend h.1, hc1 h.2.1, hpre _ h.2.2⟩
    | exact ⟨hpend h.1, hc1 h.2.1, hall h.2.2⟩
    | exact fun hn => hall (h hn)
    | exact ⟨h.1, hk _ _ h.2⟩
    | exact ⟨hl h.1, hpend h.2.1, hk _ _ h.2.2⟩
    | exact ⟨h.1, hall h.2.1, hk _ _ h.2.2⟩

theorem TI.frame {s s' : St} {tid : Nat} {t : Txn} (h : TI s tid t)
    (hdu : s.tm.doneUntil ≤ s'.tm.doneUntil)
    (hl : s.locked = some tid → s'.locked = some tid)
    (hk : ∀ w k, HasKind s w k → HasKind s' w k)
    (hdec : pendingPc t.pc = true → s'.tm.nDoneDec t.commitTs = s.tm.nDoneDec t.commitTs)
    (hcnt : ∀ j, s.tm.nCounted j ≤ s'.tm.nCounted j)
    (hst : ∀ e, e ∈ s.store → e ∈ s'.store) : TI s' tid t :=
  ⟨fun hb => Nat.le_trans (h.began hb) hdu, h.pc.frame hl hk hdec hcnt hst⟩

structure Inv (c : SnapCfg) (s : St) : Prop where
  tmR : WM.Ok s.tm
  ti : ∀ tid t, s.thr tid = some t → TI s tid t
  busy : s.tm.sectionBusy = true →
    ∃ tid t w wt, s.thr tid = some t ∧ t.pc = .call .txn w .cRecord ∧ s.tm.thr w = some wt ∧ wt.stage ≤ 3
  next : s.tm.lastIndex < s.nextTs
  tsLt : ∀ tid t, s.thr tid = some t → t.commitTs < s.nextTs
  uniq : ∀ a b ta tb, s.thr a = some ta → s.thr b = some tb → ta.commitTs ≠ 0 →
    ta.commitTs = tb.commitTs → a = b
  fresh : ∀ j, s.nextTs ≤ j → s.tm.nDoneDec j = 0

def BusyOk (s : St) : Prop :=
  s.tm.sectionBusy = true →
    ∃ tid t w wt, s.thr tid = some t ∧ t.pc = .call .txn w .cRecord ∧ s.tm.thr w = some wt ∧ wt.stage ≤ 3

/-- the state after a step of thread `tid` (record `t` ↦ `t'`): what remains to be shown per case -/
theorem Inv.update {c : SnapCfg} {s s' : St} (h : Inv c s) (tid : Nat) (t t' : Txn)
    (ht : s.thr tid = some t)
    (hthr : ∀ x, s'.thr x = if x = tid then some t' else s.thr x)
    (htm : WM.Ok s'.tm)
    (hdu : s.tm.doneUntil ≤ s'.tm.doneUntil)
    (hl : ∀ x, x ≠ tid → s.locked = some x → s'.locked = some x)
    (hk : ∀ w k, HasKind s w k → HasKind s' w k)
    (hdec : ∀ x tx, x ≠ tid → s.thr x = some tx → pendingPc tx.pc = true →
      s'.tm.nDoneDec tx.commitTs = s.tm.nDoneDec tx.commitTs)
    (hcnt : ∀ j, s.tm.nCounted j ≤ s'.tm.nCounted j)
    (hst : ∀ e, e ∈ s.store → e ∈ s'.store)
    (hself : TI s' tid t')
    (hbusy : BusyOk s')
    (hnext : s'.tm.lastIndex < s'.nextTs)
    (hfresh : ∀ j, s'.nextTs ≤ j → s'.tm.nDoneDec j = 0)
    (hts : (t'.commitTs = t.commitTs ∧ s'.nextTs = s.nextTs) ∨
           (t.commitTs = 0 ∧ t'.commitTs = s.nextTs ∧ s'.nextTs = s.nextTs + 1)) : Inv c s' := by
  have hnx : s.nextTs ≤ s'.nextTs := by rcases hts with h1 | h1 <;> omega
  have hoth : ∀ x tx, x ≠ tid → s'.thr x = some tx → s.thr x = some tx := by
    intro x tx hx hxs; rw [hthr x, if_neg hx] at hxs; exact hxs
  have hme : ∀ tx, s'.thr tid = some tx → tx = t' := by
    intro tx hxs; rw [hthr tid, if_pos rfl] at hxs; cases hxs; rfl
  have htlt : t'.commitTs < s'.nextTs := by
    have := h.tsLt tid t ht
    rcases hts with h1 | h1 <;> omega
  refine ⟨htm, ?_, hbusy, hnext, ?_, ?_, hfresh⟩
  · intro x tx hx
    by_cases hxt : x = tid
    · subst hxt; rw [hme tx hx]; exact hself
    · have hx0 := hoth x tx hxt hx
      exact (h.ti x tx hx0).frame hdu (hl x hxt) hk (hdec x tx hxt hx0) hcnt hst
  · intro x tx hx
    by_cases hxt : x = tid
    · subst hxt; rw [hme tx hx]; exact htlt
    · exact Nat.lt_of_lt_of_le (h.tsLt x tx (hoth x tx hxt hx)) hnx
  · intro a b ta tb ha hb hne heq
    by_cases hat : a = tid <;> by_cases hbt : b = tid
    · rw [hat, hbt]
    · subst hat
      have hb0 := hoth b tb hbt hb
      rw [hme ta ha] at hne heq
      have := h.tsLt b tb hb0
      rcases hts with h1 | h1
      · exact h.uniq a b t tb ht hb0 (h1.1 ▸ hne) (h1.1 ▸ heq)
      · omega
    · subst hbt
      have ha0 := hoth a ta hat ha
      rw [hme tb hb] at heq
      have := h.tsLt a ta ha0
      rcases hts with h1 | h1
      · exact h.uniq a b ta t ha0 ht hne (h1.1 ▸ heq)
      · omega
    · exact h.uniq a b ta tb (hoth a ta hat ha) (hoth b tb hbt hb) hne heq

/-- the busy witness survives a step that leaves `txnMark` and every thread inside `txnMark.Begin` alone -/
theorem BusyOk.keep {s s' : St} (h : BusyOk s) (htm : s'.tm = s.tm)
    (hthr : ∀ x tx w, s.thr x = some tx → tx.pc = .call .txn w .cRecord → s'.thr x = some tx) : BusyOk s' := by
  intro hb
  rw [htm] at hb
  obtain ⟨x, tx, w, wt, hx, hpc, hw, hst⟩ := h hb
  exact ⟨x, tx, w, wt, hthr x tx w hx hpc, hpc, by rw [htm]; exact hw, hst⟩

theorem setT_thr (s : St) (tid : Nat) (t : Txn) (x : Nat) :
    (setT s tid t).thr x = if x = tid then some t else s.thr x := by
  simp only [setT, upd]

/-- a step that leaves `txnMark`, the mutex, the store and `nextTxnTs` alone and moves the thread
to a program counter outside `txnMark.Begin` -/
theorem Inv.localStep {c : SnapCfg} {s s' : St} (h : Inv c s) (tid : Nat) (t t' : Txn)
    (ht : s.thr tid = some t)
    (hthr : ∀ x, s'.thr x = if x = tid then some t' else s.thr x)
    (e1 : s'.tm = s.tm) (e2 : s'.locked = s.locked) (e3 : s'.store = s.store) (e4 : s'.nextTs = s.nextTs)
    (hts : t'.commitTs = t.commitTs)
    (hnb : ∀ w, t.pc ≠ .call .txn w .cRecord)
    (hself : TI s' tid t') : Inv c s' := by
  refine h.update tid t t' ht hthr (e1 ▸ h.tmR) (by rw [e1]; exact Nat.le_refl _) (fun _ _ hx => by rw [e2]; exact hx)
    (fun _ _ hx => by unfold HasKind at hx ⊢; rw [e1]; exact hx) (fun _ _ _ _ _ => by rw [e1])
    (fun _ => by rw [e1]; exact Nat.le_refl _) (fun _ he => by rw [e3]; exact he) hself ?_
    (by rw [e1, e4]; exact h.next) (fun j hj => by rw [e1]; exact h.fresh j (by omega))
    (Or.inl ⟨hts, e4⟩)
  refine BusyOk.keep h.busy e1 ?_
  intro x tx w hx hpc
  by_cases hxt : x = tid
  · subst hxt; rw [ht] at hx; cases hx; exact (hnb w hpc).elim
  · rw [hthr, if_neg hxt]; exact hx

end NoKV.Snap

/-
C05 model: the transaction oracle of /repo/txn.go composed with the two watermarks of
utils/watermarker.go, small-step.

A *thread* is one transaction (NewTransaction … Commit/Discard).  `.run tid` executes ONE atomic
micro-step of the call the thread is in; API calls of an open transaction (`get`, `set`,
`commit`, `discard`) are environment actions, enabled while the thread is between calls.

  oracle.readTs     x := nextTxnTs.Load() - 1                                   rdLoadNext
                    r := min(x, txnMark.LastIndex()); enter readMark.Begin(r)   rdLoadLast x
                    … micro-steps of readMark.Begin(r) …                        call read w rdWait
                    enter txnMark.WaitForMark(r)                                rdWait
                    … micro-steps of the wait (may block) …                     call txn w active
  Txn.Get           pending write, else (update txn: remember the key) read the store at r
  Txn.Commit        no writes: Discard.  Otherwise oracle.newCommitTs:
                    o.Lock(); hasConflict → unlock, ErrConflict, Discard        cLock
                    doneRead: enter readMark.Done(r)                            cDoneRead
                    … micro-steps …                                             call read w cCleanup
                    cleanup: m := readMark.DoneUntil(); prune committedTxns     cCleanup
                    ts := nextTxnTs.Add(1)-1; enter txnMark.Begin(ts)           cAssign
                    … micro-steps of txnMark.Begin(ts) …                        call txn w cRecord
                    committedTxns += (ts, keys); o.Unlock()                     cRecord
                    the commit worker applies the entries, one per step         cApply i
                    req.Wait() returned: enter txnMark.Done(ts)                 cDone
                    … micro-steps …                                             call txn w dDoneRead
  Txn.Discard       doneRead (if not done yet): readMark.Done(r)                dDoneRead
                    … micro-steps …                                             call read w finished

The watermark micro-steps are those of `NoKV.Conc.WM` (C32's model, reused unchanged): the state
holds one `WM.St` per mark, a watermark call is a `WM` thread with a fresh id, and a step of a
transaction thread inside a call is `WM.step … (.run w)`.  `WM.step` is used with
`contract := false`: nothing in this model *assumes* that `txnMark.Begin` calls are serialized —
that is proved (NoKVModel/Snap/Invariant.lean) from the oracle lock.

Index 0 (a transaction begun on a fresh DB has readTs 0): counted like any other index when
`wm.tracksZero` (the tree since d7ef6bd); otherwise ignored by `addIndex` — `readMark.Begin(0)` is
then a bare `tryAdvance` (C32's `adv` call) and `readMark.Done(0)` is nothing at all.

Modelled, not part of this model: the commit queue and batch formation (C34/C37), the LSM below
the versioned store (C01/C02: the store is the abstract list of versions of E-MVCC, entries are
only ever added), the sliding window of the watermark, `intentTable` (a cache of the newest
unpruned commit per key: `intentTable[k] > readTs` iff some unpruned committedTxn with that key has
ts > readTs — the second loop of `hasConflict`, which is what is modelled), fingerprint collisions
(keys stand for their fingerprints; a collision only adds conflicts), size limits and the error
paths of `sendToWriteCh` (C04).

Ghost fields (never read by the modelled code): `Txn.rlog`, `Txn.began`.
-/
import NoKVModel.Base.Bytes
import NoKVModel.Conc.Sys
import NoKVModel.Conc.Watermark

namespace NoKV.Snap
open NoKV NoKV.Conc

abbrev Key := Bytes
abbrev Val := Bytes

/-! The versioned store and the pending-writes map are those of E-MVCC (NoKVModel/Mvcc/Model.lean:
`Entry`, `bestOf`, `readAt`, `lookupW`, `setW`), restated here so that this model does not depend
on the rest of the atomic-step model. -/

/-- one version of one key; `val = none` is a tombstone (`BitDelete`) -/
structure Entry where
  key : Key
  ts : Nat
  val : Option Val
  deriving DecidableEq, Repr

/-- The entry `lsm.Get(InternalKey(k, ts))` lands on: greatest version `≤ ts` of `k`. -/
def bestOf : List Entry → Key → Nat → Option Entry
  | [], _, _ => none
  | e :: es, k, ts =>
    let r := bestOf es k ts
    if e.key = k ∧ e.ts ≤ ts then
      match r with
      | some b => if e.ts < b.ts then some b else some e
      | none => some e
    else r

/-- visible value at `ts`: tombstone and absence both read as `none` (`ErrKeyNotFound`) -/
def readAt (st : List Entry) (k : Key) (ts : Nat) : Option Val :=
  match bestOf st k ts with
  | some e => e.val
  | none => none

def lookupW (w : List (Key × Option Val)) (k : Key) : Option (Option Val) :=
  match w.find? (fun p => p.1 = k) with
  | some p => some p.2
  | none => none

def setW (w : List (Key × Option Val)) (k : Key) (v : Option Val) : List (Key × Option Val) :=
  (k, v) :: w.filter (fun p => p.1 ≠ k)

/-- Decisions read off the Go source by `extract/cmd/snap`. -/
structure SnapCfg where
  /-- `WaterMark.Begin`: pending count incremented before lastIndex is published. -/
  wm : WM.WMCfg
  /-- `oracle.newCommitTs` holds `o.Lock()` from before `hasConflict` until after the append to
      `committedTxns` (deferred unlock) — in particular across `nextTxnTs.Add` and `txnMark.Begin`. -/
  commitLocked : Bool
  /-- `commitAndSend`: `orc.doneCommit(commitTs)` runs after `req.Wait()` returned, and the commit
      worker finishes a request (`wg.Done`) only after `applyRequests`. -/
  doneAfterApply : Bool
  /-- `oracle.readTs` calls `txnMark.WaitForMark(readTs)` before returning. -/
  readWaits : Bool
  /-- `oracle.readTs` lowers the timestamp to `txnMark.LastIndex()`. -/
  readClamp : Bool
  /-- `oracle.readTs`: `nextTxnTs.Load() - readTsOff` (source: 1). -/
  readTsOff : Nat
  /-- `oracle.initCommitState(committed)` (reopen of a non-empty DB) seeds `txnMark.doneUntil` and
      `txnMark.lastIndex` with `committed + seedOff` (source: 0 — the recovered version itself, so that
      the first commit timestamp of the session, `committed + 1`, is NOT done yet). -/
  seedOff : Nat
  deriving DecidableEq, Repr

def SnapCfg.good : SnapCfg :=
  { wm := WM.WMCfg.good, commitLocked := true, doneAfterApply := true, readWaits := true, readClamp := true,
    readTsOff := 1, seedOff := 0 }

/-- what `C05_stable_reads` needs; the formula of `readTs` is NOT part of it -/
def SnapCfg.Good (c : SnapCfg) : Prop :=
  c.wm.countsFirst = true ∧ c.commitLocked = true ∧ c.doneAfterApply = true ∧ c.readWaits = true ∧
  c.seedOff = 0
instance SnapCfg.decGood (c : SnapCfg) : Decidable c.Good := by unfold SnapCfg.Good; exact inferInstance

inductive Mark where
  | txn | read
  deriving DecidableEq, Repr

inductive Pc where
  | rdLoadNext
  | rdLoadLast (x : Nat)
  | rdWait
  | active
  | cLock
  | cDoneRead
  | cCleanup
  | cAssign
  | cRecord
  | cApply (i : Nat)
  | cDone
  | dDoneRead
  | finished
  | call (m : Mark) (w : Nat) (k : Pc)
  deriving DecidableEq, Repr

inductive Res where
  | none | ok | conflict
  deriving DecidableEq, Repr

structure Txn where
  update : Bool
  pc : Pc := .rdLoadNext
  readTs : Nat := 0
  reads : List Key := []                       -- keys read (fingerprints)
  writes : List (Key × Option Val) := []       -- pendingWrites
  doneRead : Bool := false
  commitTs : Nat := 0                          -- 0 = none assigned
  result : Res := .none                        -- what Commit returned
  began : Bool := false                        -- ghost: NewTransaction returned
  rlog : List (Key × Option Val) := []         -- ghost: reads served by the store, newest first
  deriving DecidableEq, Repr

structure St where
  tm : WM.St                                   -- oracle.txnMark
  rm : WM.St                                   -- oracle.readMark
  nextTs : Nat                                 -- oracle.nextTxnTs
  locked : Option Nat                          -- oracle mutex: holder
  committed : List (Nat × List Key)            -- oracle.committedTxns
  lastCleanup : Nat                            -- oracle.lastCleanupTs
  store : List Entry                           -- versions in the LSM
  thr : Nat → Option Txn
  wfresh : Nat                                 -- next unused watermark-call id

inductive Act where
  | spawn (tid : Nat) (update : Bool)          -- db.NewTransaction(update) is called
  | get (tid : Nat) (k : Key)
  | set (tid : Nat) (k : Key) (v : Option Val) -- none = Delete
  | scan (tid : Nat)                            -- a forward iteration over everything
  | commit (tid : Nat)
  | discard (tid : Nat)
  | run (tid : Nat)

def setT (s : St) (tid : Nat) (t : Txn) : St := { s with thr := upd s.thr tid (some t) }

def markOf (s : St) : Mark → WM.St
  | .txn => s.tm
  | .read => s.rm

def setMark (s : St) (m : Mark) (w : WM.St) : St :=
  match m with
  | .txn => { s with tm := w }
  | .read => { s with rm := w }

/-- the watermark calls the oracle makes (`BeginMany` / `DoneMany` are never used by txn.go) -/
inductive Call where
  | begin (i : Nat)            -- WaterMark.Begin(i)
  | done (i : Nat)             -- WaterMark.Done(i)
  | wait (i : Nat)             -- WaterMark.WaitForMark(i)
  | adv                        -- Begin(0) when index 0 is ignored: a bare tryAdvance
  deriving DecidableEq, Repr

def Call.kind : Call → WM.Kind
  | .begin i => .begin i
  | .done i => .done i
  | .wait i => .wait i
  | .adv => .adv

def Call.act (w : Nat) : Call → WM.Act
  | .begin i => .begin w i
  | .done i => .done w i
  | .wait i => .wait w i
  | .adv => .adv w

/-- has the watermark call returned?  (`WaitForMark`: its `returned` flag; every other call: its
program has run out) -/
def thrDone (c : WM.WMCfg) (t : WM.Thr) : Bool :=
  match t.kind with
  | .wait _ => t.returned
  | _ => ((WM.progOf c t.kind)[t.stage]?).isNone

def callDone (c : WM.WMCfg) (ws : WM.St) (w : Nat) : Bool :=
  match ws.thr w with
  | some t => thrDone c t
  | none => true

/-- enter a watermark call: a fresh `WM` thread; the transaction thread continues at `k` when it returns -/
def enter (c : SnapCfg) (s : St) (tid : Nat) (t : Txn) (m : Mark) (call : Call) (k : Pc) : Option St :=
  match WM.step c.wm false (markOf s m) (call.act s.wfresh) with
  | some ws => some { (setMark (setT s tid { t with pc := .call m s.wfresh k }) m ws) with wfresh := s.wfresh + 1 }
  | none => none

/-- `oracle.hasConflict` (second loop; see the header for `intentTable`) -/
def hasConflict (s : St) (t : Txn) : Bool :=
  s.committed.any (fun ct => decide (t.readTs < ct.1) && t.reads.any (fun k => ct.2.contains k))

/-- `oracle.cleanupCommittedTransactions` -/
def cleanup (s : St) : St :=
  let m := s.rm.doneUntil
  if m = s.lastCleanup then s
  else { s with lastCleanup := m, committed := s.committed.filter (fun ct => !(decide (ct.1 ≤ m))) }

def entryOf (kv : Key × Option Val) (ts : Nat) : Entry := { key := kv.1, ts := ts, val := kv.2 }

/-- `oracle.doneRead` as the next thing to do, continuing at `k` -/
def doDoneRead (c : SnapCfg) (s : St) (tid : Nat) (t : Txn) (k : Pc) : Option St :=
  if t.doneRead = true ∨ (t.readTs = 0 ∧ c.wm.tracksZero = false) then
    some (setT s tid { t with doneRead := true, pc := k })
  else enter c s tid { t with doneRead := true } .read (.done t.readTs) k

def afterRecord (c : SnapCfg) : Pc := if c.doneAfterApply then .cApply 0 else .cDone
def afterApply (c : SnapCfg) : Pc := if c.doneAfterApply then .cDone else .dDoneRead
def afterDone (c : SnapCfg) : Pc := if c.doneAfterApply then .dDoneRead else .cApply 0

def stepThr (c : SnapCfg) (s : St) (tid : Nat) (t : Txn) : Option St :=
  match t.pc with
  | .rdLoadNext => some (setT s tid { t with pc := .rdLoadLast (s.nextTs - c.readTsOff) })
  | .rdLoadLast x =>
    let r := if c.readClamp = true ∧ s.tm.lastIndex < x then s.tm.lastIndex else x
    if r = 0 ∧ c.wm.tracksZero = false then
      -- index 0 ignored by addIndex: Begin(0) is a bare tryAdvance (count-then-publish order) or nothing
      if c.wm.countsFirst then enter c s tid { t with readTs := r } .read .adv .rdWait
      else some (setT s tid { t with readTs := r, pc := .rdWait })
    else enter c s tid { t with readTs := r } .read (.begin r) .rdWait
  | .rdWait =>
    if c.readWaits then enter c s tid t .txn (.wait t.readTs) .active
    else some (setT s tid { t with pc := .active, began := true })
  | .active => none
  | .cLock =>
    if c.commitLocked = true ∧ s.locked ≠ none then none
    else if hasConflict s t then some (setT s tid { t with pc := .dDoneRead, result := .conflict })
    else some { (setT s tid { t with pc := .cDoneRead }) with locked := if c.commitLocked then some tid else s.locked }
  | .cDoneRead => doDoneRead c s tid t .cCleanup
  | .cCleanup => some (setT (cleanup s) tid { t with pc := .cAssign })
  | .cAssign =>
    match enter c s tid { t with commitTs := s.nextTs } .txn (.begin s.nextTs) .cRecord with
    | some s' => some { s' with nextTs := s.nextTs + 1 }
    | none => none
  | .cRecord =>
    some { (setT s tid { t with pc := afterRecord c }) with
      committed := s.committed ++ [(t.commitTs, t.writes.map (fun kv => kv.1))],
      locked := if c.commitLocked then none else s.locked }
  | .cApply i =>
    match t.writes[i]? with
    | some kv => some { (setT s tid { t with pc := .cApply (i + 1) }) with store := entryOf kv t.commitTs :: s.store }
    | none => some (setT s tid { t with pc := afterApply c, result := if c.doneAfterApply then t.result else .ok })
  | .cDone => enter c s tid t .txn (.done t.commitTs) (afterDone c)
  | .dDoneRead => doDoneRead c s tid t .finished
  | .finished => none
  | .call m w k =>
    if callDone c.wm (markOf s m) w then
      some (setT s tid { t with pc := k, began := t.began || decide (k = .active),
                                result := if k = .dDoneRead then .ok else t.result })
    else
      match WM.step c.wm false (markOf s m) (.run w) with
      | some ws => some (setMark s m ws)
      | none => none

/-- the value a `Txn.Get` is answered with: `none` = ErrKeyNotFound -/
def getVal (s : St) (t : Txn) (k : Key) : Option Val :=
  match (if t.update then lookupW t.writes k else none) with
  | some v => v
  | none => readAt s.store k t.readTs

def dedup (l : List Key) : List Key :=
  l.foldr (fun k acc => if acc.contains k then acc else k :: acc) []

/-- is `k` answered from the transaction's own pending writes? -/
def ownKey (t : Txn) (k : Key) : Bool := t.update && (lookupW t.writes k).isSome

/-- keys an iterator of `t` walks over: everything in the LSM merged with the pending writes -/
def scanKeys (s : St) (t : Txn) : List Key :=
  dedup (s.store.map (fun e => e.key) ++ (if t.update then t.writes.map (fun kv => kv.1) else []))

/-- what a forward iteration yields (unordered here; the driver sorts): live keys with their values -/
def scanOut (s : St) (t : Txn) : List (Key × Val) :=
  (scanKeys s t).filterMap (fun k => (getVal s t k).map (fun v => (k, v)))

def step (c : SnapCfg) (s : St) : Act → Option St
  | .spawn tid u => if s.thr tid = none then some (setT s tid { update := u }) else none
  | .get tid k =>
    match s.thr tid with
    | some t =>
      if t.pc = .active then
        if t.update = true ∧ (lookupW t.writes k).isSome then some s
        else some (setT s tid { t with reads := if t.update then t.reads ++ [k] else t.reads,
                                       rlog := (k, readAt s.store k t.readTs) :: t.rlog })
      else none
    | none => none
  | .scan tid =>
    match s.thr tid with
    | some t =>
      if t.pc = .active then
        some (setT s tid { t with
          reads := if t.update then t.reads ++ (scanOut s t).map (fun kv => kv.1) else t.reads,
          rlog := ((dedup (s.store.map (fun e => e.key))).filter (fun k => !ownKey t k)).map
                    (fun k => (k, readAt s.store k t.readTs)) ++ t.rlog })
      else none
    | none => none
  | .set tid k v =>
    match s.thr tid with
    | some t =>
      if t.pc = .active ∧ t.update = true then some (setT s tid { t with writes := setW t.writes k v })
      else none
    | none => none
  | .commit tid =>
    match s.thr tid with
    | some t =>
      if t.pc = .active then
        if t.writes = [] then some (setT s tid { t with pc := .dDoneRead, result := .ok })
        else some (setT s tid { t with pc := .cLock })
      else none
    | none => none
  | .discard tid =>
    match s.thr tid with
    | some t => if t.pc = .active then some (setT s tid { t with pc := .dDoneRead }) else none
    | none => none
  | .run tid =>
    match s.thr tid with
    | some t => stepThr c s tid t
    | none => none

/-- a watermark after `SetDoneUntil(n)` / `SetLastIndex(l)` on a fresh structure -/
def seededWM (n l : Nat) : WM.St := { WM.initSt with doneUntil := n, lastIndex := l }

/-- The oracle after `Open`: `db.orc.initCommitState(lsm.MaxVersion())`.  `n` = the newest version
recovered from disk (0 = empty database: `initCommitState` returns at once), `store` = the
recovered versions.  `nextTxnTs = n+1`, `readMark.doneUntil = n`, `txnMark.doneUntil = lastIndex =
n + seedOff`, `lastCleanupTs = n`; no transaction exists, `committedTxns` is empty. -/
def seededSt (c : SnapCfg) (n : Nat) (store : List Entry) : St :=
  { tm := if n = 0 then WM.initSt else seededWM (n + c.seedOff) (n + c.seedOff),
    rm := seededWM n 0, nextTs := n + 1, locked := none, committed := [], lastCleanup := n,
    store := store, thr := fun _ => none, wfresh := 0 }

/-- a fresh database -/
def initSt : St :=
  { tm := WM.initSt, rm := WM.initSt, nextTs := 1, locked := none, committed := [], lastCleanup := 0,
    store := [], thr := fun _ => none, wfresh := 0 }

/-- Initial states: a database opened fresh OR reopened with any recovered content whose versions
do not exceed the recovered maximum `n` (that `Open` recovers exactly what was acknowledged is
C09/C10's subject). -/
def sys (c : SnapCfg) : Sys St Act :=
  { init := fun s => ∃ n store, s = seededSt c n store ∧ ∀ e, e ∈ store → e.ts ≤ n, step := step c }

end NoKV.Snap

/-
Consequences of `Inv` for what transactions read: the shape of one step (`step_shape`), the
snapshot of a begun transaction does not move (`frozen_step`), and every answer a transaction was
ever given still equals its snapshot (`RL`).
-/
import NoKVModel.Snap.Preserve

namespace NoKV.Snap
open NoKV NoKV.Conc

/-- how one step may change a thread record, as far as reads are concerned -/
structure Evo (s : St) (t t' : Txn) : Prop where
  began : t.began = true → t'.began = true
  readTs : t.began = true → t'.readTs = t.readTs
  rlog : t'.rlog = t.rlog ∨
    (t.began = true ∧ ∀ kv, kv ∈ t'.rlog → kv ∈ t.rlog ∨ readAt s.store kv.1 t.readTs = kv.2)

theorem Evo.same (s : St) (t t' : Txn) (e1 : t'.began = t.began) (e2 : t'.readTs = t.readTs)
    (e3 : t'.rlog = t.rlog) : Evo s t t' :=
  ⟨fun h => e1 ▸ h, fun _ => e2, Or.inl e3⟩

/-- the store changes only by the commit worker adding one entry of a transaction in `cApply` -/
def StoreRel (s s' : St) (tid : Nat) : Prop :=
  s'.store = s.store ∨
  ∃ t i kv, s.thr tid = some t ∧ t.pc = .cApply i ∧ s'.store = entryOf kv t.commitTs :: s.store

theorem enter_any_shape {c : SnapCfg} {s s' : St} {tid : Nat} {t : Txn} {m : Mark} {call : Call} {k : Pc}
    (h : enter c s tid t m call k = some s') :
    (∀ x, s'.thr x = if x = tid then some { t with pc := .call m s.wfresh k } else s.thr x) ∧ s'.store = s.store := by
  unfold enter at h
  split at h
  · cases h
    cases m <;> exact ⟨fun x => by simp only [setMark, setT, upd], rfl⟩
  · cases h

theorem step_shape {c : SnapCfg} (hc : c.Good) {s s' : St} {a : Act} (h : Inv c s)
    (hs : Snap.step c s a = some s') :
    ∃ tid t', (∀ x, s'.thr x = if x = tid then some t' else s.thr x) ∧
      (∀ t, s.thr tid = some t → Evo s t t') ∧
      (s.thr tid = none → t'.began = false ∧ t'.rlog = []) ∧ StoreRel s s' tid := by
  obtain ⟨hcf, hlk, hda, hrw, _⟩ := hc
  -- a step that rewrites the record of `tid` to `t'` without touching what `Evo` reads
  have plain : ∀ (tid : Nat) (t t' : Txn), s.thr tid = some t →
      (∀ x, s'.thr x = if x = tid then some t' else s.thr x) → s'.store = s.store →
      t'.began = t.began → t'.readTs = t.readTs → t'.rlog = t.rlog →
      ∃ tid t', (∀ x, s'.thr x = if x = tid then some t' else s.thr x) ∧
        (∀ t, s.thr tid = some t → Evo s t t') ∧
        (s.thr tid = none → t'.began = false ∧ t'.rlog = []) ∧ StoreRel s s' tid := by
    intro tid t t' ht hthr hst e1 e2 e3
    refine ⟨tid, t', hthr, ?_, ?_, Or.inl hst⟩
    · intro t0 ht0; rw [ht] at ht0; cases ht0; exact Evo.same s t t' e1 e2 e3
    · intro hn; rw [ht] at hn; cases hn
  cases a with
  | spawn tid u =>
    simp only [Snap.step] at hs
    split at hs
    · rename_i hfree; cases hs
      exact ⟨tid, { update := u }, setT_thr _ _ _, (fun t ht => by rw [hfree] at ht; cases ht),
        fun _ => ⟨rfl, rfl⟩, Or.inl rfl⟩
    · cases hs
  | get tid k =>
    simp only [Snap.step] at hs
    cases ht : s.thr tid with
    | none => simp [ht] at hs
    | some t =>
      simp only [ht] at hs
      split at hs
      · rename_i hpc
        have hp : t.commitTs = 0 ∧ t.began = true := by
          have := (h.ti tid t ht).pc; rw [hpc] at this; simpa [PcInv] using this
        split at hs
        · cases hs
          exact plain tid t t ht (fun x => by by_cases hx : x = tid <;> simp [hx, ht]) rfl rfl rfl rfl
        · cases hs
          refine ⟨tid, _, setT_thr _ _ _, ?_, (fun hn => by rw [ht] at hn; cases hn), Or.inl rfl⟩
          intro t0 ht0; rw [ht] at ht0; cases ht0
          refine ⟨fun hb => hb, fun _ => rfl, Or.inr ⟨hp.2, ?_⟩⟩
          intro kv hkv
          simp only [List.mem_cons] at hkv
          rcases hkv with hkv | hkv
          · subst hkv; exact Or.inr rfl
          · exact Or.inl hkv
      · cases hs
  | scan tid =>
    simp only [Snap.step] at hs
    cases ht : s.thr tid with
    | none => simp [ht] at hs
    | some t =>
      simp only [ht] at hs
      split at hs
      · rename_i hpc
        have hp : t.commitTs = 0 ∧ t.began = true := by
          have := (h.ti tid t ht).pc; rw [hpc] at this; simpa [PcInv] using this
        cases hs
        refine ⟨tid, _, setT_thr _ _ _, ?_, (fun hn => by rw [ht] at hn; cases hn), Or.inl rfl⟩
        intro t0 ht0; rw [ht] at ht0; cases ht0
        refine ⟨fun hb => hb, fun _ => rfl, Or.inr ⟨hp.2, ?_⟩⟩
        intro kv hkv
        simp only [List.mem_append, List.mem_map] at hkv
        rcases hkv with ⟨k, _, hk⟩ | hkv
        · subst hk; exact Or.inr rfl
        · exact Or.inl hkv
      · cases hs
  | set tid k v =>
    simp only [Snap.step] at hs
    cases ht : s.thr tid with
    | none => simp [ht] at hs
    | some t =>
      simp only [ht] at hs
      split at hs
      · cases hs; exact plain tid t _ ht (setT_thr _ _ _) rfl rfl rfl rfl
      · cases hs
  | commit tid =>
    simp only [Snap.step] at hs
    cases ht : s.thr tid with
    | none => simp [ht] at hs
    | some t =>
      simp only [ht] at hs
      split at hs
      · split at hs
        · cases hs; exact plain tid t _ ht (setT_thr _ _ _) rfl rfl rfl rfl
        · cases hs; exact plain tid t _ ht (setT_thr _ _ _) rfl rfl rfl rfl
      · cases hs
  | discard tid =>
    simp only [Snap.step] at hs
    cases ht : s.thr tid with
    | none => simp [ht] at hs
    | some t =>
      simp only [ht] at hs
      split at hs
      · cases hs; exact plain tid t _ ht (setT_thr _ _ _) rfl rfl rfl rfl
      · cases hs
  | run tid =>
    simp only [Snap.step] at hs
    cases ht : s.thr tid with
    | none => simp [ht] at hs
    | some t =>
      simp only [ht] at hs
      have hp := (h.ti tid t ht).pc
      have doneRead : ∀ k, doDoneRead c s tid t k = some s' →
          ∃ tid t', (∀ x, s'.thr x = if x = tid then some t' else s.thr x) ∧
            (∀ t, s.thr tid = some t → Evo s t t') ∧
            (s.thr tid = none → t'.began = false ∧ t'.rlog = []) ∧ StoreRel s s' tid := by
        intro k hd
        unfold doDoneRead at hd
        split at hd
        · cases hd; exact plain tid t _ ht (setT_thr _ _ _) rfl rfl rfl rfl
        · obtain ⟨e0, e1⟩ := enter_any_shape hd
          exact plain tid t _ ht e0 e1 rfl rfl rfl
      cases hpc : t.pc with
      | rdLoadNext =>
        simp only [stepThr, hpc] at hs; cases hs
        exact plain tid t _ ht (setT_thr _ _ _) rfl rfl rfl rfl
      | rdLoadLast x =>
        rw [hpc] at hp
        have hp' : t.commitTs = 0 ∧ t.began = false := by simpa [PcInv] using hp
        simp only [stepThr, hpc] at hs
        generalize (if c.readClamp = true ∧ s.tm.lastIndex < x then s.tm.lastIndex else x) = r at hs
        have evo : ∀ t' : Txn, t'.began = t.began → t'.rlog = t.rlog → Evo s t t' := fun t' e1 e3 =>
          ⟨(fun hb => by rw [hp'.2] at hb; cases hb), (fun hb => by rw [hp'.2] at hb; cases hb), Or.inl e3⟩
        split at hs
        · try simp only [hcf, if_true] at hs
          obtain ⟨e0, e1⟩ := enter_any_shape hs
          refine ⟨tid, _, e0, ?_, (fun hn => by rw [ht] at hn; cases hn), Or.inl e1⟩
          intro t0 ht0; rw [ht] at ht0; cases ht0; exact evo _ rfl rfl
        · obtain ⟨e0, e1⟩ := enter_any_shape hs
          refine ⟨tid, _, e0, ?_, (fun hn => by rw [ht] at hn; cases hn), Or.inl e1⟩
          intro t0 ht0; rw [ht] at ht0; cases ht0; exact evo _ rfl rfl
      | rdWait =>
        simp only [stepThr, hpc, hrw, if_true] at hs
        obtain ⟨e0, e1⟩ := enter_any_shape hs
        exact plain tid t _ ht e0 e1 rfl rfl rfl
      | active => simp only [stepThr, hpc] at hs; cases hs
      | cLock =>
        simp only [stepThr, hpc] at hs
        split at hs
        · cases hs
        · split at hs
          · cases hs; exact plain tid t _ ht (setT_thr _ _ _) rfl rfl rfl rfl
          · cases hs
            exact plain tid t { t with pc := .cDoneRead } ht (fun x => by simp only [setT, upd]) rfl rfl rfl rfl
      | cDoneRead => simp only [stepThr, hpc] at hs; exact doneRead _ hs
      | cCleanup =>
        simp only [stepThr, hpc] at hs; cases hs
        have hcl : (cleanup s).store = s.store ∧ (cleanup s).thr = s.thr := by
          unfold cleanup; simp only; split <;> simp
        exact plain tid t { t with pc := .cAssign } ht (fun x => by simp only [setT, upd, hcl.2]) hcl.1 rfl rfl rfl
      | cAssign =>
        simp only [stepThr, hpc] at hs
        split at hs
        · rename_i s1 hs1
          cases hs
          obtain ⟨e0, e1⟩ := enter_any_shape hs1
          exact plain tid t _ ht e0 e1 rfl rfl rfl
        · cases hs
      | cRecord =>
        simp only [stepThr, hpc] at hs; cases hs
        exact plain tid t { t with pc := afterRecord c } ht (fun x => by simp only [setT, upd]) rfl rfl rfl rfl
      | cApply i =>
        simp only [stepThr, hpc] at hs
        split at hs
        · rename_i kv hkv
          cases hs
          refine ⟨tid, { t with pc := .cApply (i + 1) }, (fun x => by simp only [setT, upd]), ?_,
            (fun hn => by rw [ht] at hn; cases hn), Or.inr ⟨t, i, kv, ht, hpc, rfl⟩⟩
          intro t0 ht0; rw [ht] at ht0; cases ht0; exact Evo.same s t _ rfl rfl rfl
        · cases hs; exact plain tid t _ ht (setT_thr _ _ _) rfl rfl rfl rfl
      | cDone =>
        simp only [stepThr, hpc] at hs
        obtain ⟨e0, e1⟩ := enter_any_shape hs
        exact plain tid t _ ht e0 e1 rfl rfl rfl
      | dDoneRead => simp only [stepThr, hpc] at hs; exact doneRead _ hs
      | finished => simp only [stepThr, hpc] at hs; cases hs
      | call m w k =>
        simp only [stepThr, hpc] at hs
        split at hs
        · cases hs
          refine ⟨tid, _, setT_thr _ _ _, ?_, (fun hn => by rw [ht] at hn; cases hn), Or.inl rfl⟩
          intro t0 ht0; rw [ht] at ht0; cases ht0
          exact ⟨(fun hb => by simp [hb]), fun _ => rfl, Or.inl rfl⟩
        · split at hs
          · cases hs
            refine plain tid t t ht (fun x => ?_) ?_ rfl rfl rfl
            · cases m <;> by_cases hx : x = tid <;> simp [setMark, hx, ht]
            · cases m <;> rfl
          · cases hs

theorem readAt_cons_newer (e : Entry) (st : List Entry) (k : Key) (r : Nat) (h : r < e.ts) :
    readAt (e :: st) k r = readAt st k r := by
  unfold readAt
  have : bestOf (e :: st) k r = bestOf st k r := by
    simp only [bestOf]
    rw [if_neg]
    intro hc; omega
  rw [this]

/-- a commit timestamp whose `Done` has not decremented is above the watermark -/
theorem pending_above {c : SnapCfg} (hcf : c.wm.countsFirst = true) {s : St} (h : Inv c s) (ts : Nat)
    (hp : Pending s ts) (hcnt : 1 ≤ s.tm.nCounted ts) : s.tm.doneUntil < ts := by
  exact WM.above_mark s.tm h.tmR ts hcnt hp.2

/-- **the snapshot of a begun transaction does not move**: no step of any thread changes what a
read at its read timestamp returns, for any key -/
theorem frozen_step {c : SnapCfg} (hc : c.Good) {s s' : St} {a : Act} (h : Inv c s)
    (hs : Snap.step c s a = some s') (rt : Nat) (R : Txn) (hR : s.thr rt = some R) (hb : R.began = true)
    (k : Key) : readAt s'.store k R.readTs = readAt s.store k R.readTs := by
  obtain ⟨tid, t', _, _, _, hst⟩ := step_shape hc h hs
  rcases hst with hst | ⟨t, i, kv, ht, hpc, hst⟩
  · rw [hst]
  · rw [hst]
    apply readAt_cons_newer
    have hp := (h.ti tid t ht).pc
    rw [hpc] at hp
    have hp' : Pending s t.commitTs ∧ 1 ≤ s.tm.nCounted t.commitTs ∧ PrefixApplied s t i := by
      simpa [PcInv] using hp
    have h1 := pending_above hc.1 h t.commitTs hp'.1 hp'.2.1
    have h2 := (h.ti rt R hR).began hb
    show R.readTs < t.commitTs
    omega

/-- every answer a transaction was given from the store still equals its snapshot -/
def RL (s : St) : Prop :=
  ∀ tid t, s.thr tid = some t →
    (t.rlog ≠ [] → t.began = true) ∧ ∀ kv, kv ∈ t.rlog → readAt s.store kv.1 t.readTs = kv.2

theorem RL.step {c : SnapCfg} (hc : c.Good) {s s' : St} {a : Act} (h : Inv c s) (hrl : RL s)
    (hs : Snap.step c s a = some s') : RL s' := by
  obtain ⟨tid, t', hthr, hevo, hnew, _⟩ := step_shape hc h hs
  intro x tx hx
  -- a thread record that existed before, with its successor
  have old : ∀ (t0 : Txn), s.thr x = some t0 → Evo s t0 tx →
      (tx.rlog ≠ [] → tx.began = true) ∧ ∀ kv, kv ∈ tx.rlog → readAt s'.store kv.1 tx.readTs = kv.2 := by
    intro t0 h0 ev
    obtain ⟨r1, r2⟩ := hrl x t0 h0
    have keep : ∀ kv : Key × Option Val, t0.began = true → readAt s.store kv.1 t0.readTs = kv.2 →
        readAt s'.store kv.1 tx.readTs = kv.2 := by
      intro kv hb hv
      rw [ev.readTs hb, frozen_step hc h hs x t0 h0 hb]; exact hv
    rcases ev.rlog with e | ⟨hb, e⟩
    · refine ⟨fun hne => ev.began (r1 (e ▸ hne)), fun kv hkv => ?_⟩
      rw [e] at hkv
      exact keep kv (r1 (List.ne_nil_of_mem hkv)) (r2 kv hkv)
    · refine ⟨fun _ => ev.began hb, fun kv hkv => ?_⟩
      rcases e kv hkv with h1 | h1
      · exact keep kv hb (r2 kv h1)
      · exact keep kv hb h1
  by_cases hxt : x = tid
  · subst hxt
    rw [hthr x, if_pos rfl] at hx; cases hx
    cases h0 : s.thr x with
    | none =>
      obtain ⟨_, e2⟩ := hnew h0
      rw [e2]; exact ⟨fun hne => (hne rfl).elim, (fun kv hkv => by cases hkv)⟩
    | some t0 => exact old t0 h0 (hevo t0 h0)
  · rw [hthr x, if_neg hxt] at hx
    exact old tx hx (Evo.same s tx tx rfl rfl rfl)

theorem RL.reachable {c : SnapCfg} (hc : c.Good) (s : St) (hr : Reachable (sys c) s) : Inv c s ∧ RL s := by
  refine Reachable.invariant (S := sys c) (fun s => Inv c s ∧ RL s) ?_ ?_ s hr
  · rintro s0 ⟨n, store, rfl, _⟩
    exact ⟨Inv.init c hc.2.2.2.2 n store, fun _ _ hx => by simp [seededSt] at hx⟩
  · intro s0 a s1 ih hst
    exact ⟨ih.1.step hc hst, ih.2.step hc ih.1 hst⟩

end NoKV.Snap

/-
Facts about C32's watermark micro-step model (`NoKV.Conc.WM`) that the C05 composition needs:
what ONE micro-step / one call entry can change (`Eff`, `SpawnEff`), and one more invariant of the
watermark system (`begun_counted`).  Nothing here is specific to the oracle.
-/
import NoKVModel.Conc.WatermarkContract

namespace NoKV.Conc.WM
open NoKV.Conc

/-- everything a micro-step of watermark thread `w` (record `t`) does, under count-then-publish -/
structure Eff (s s' : St) (w : Nat) (t : Thr) : Prop where
  self : ∃ t', s'.thr w = some t' ∧ t'.kind = t.kind ∧ t.stage ≤ t'.stage ∧ t'.stage ≤ t.stage + 1
  oth : ∀ x tx, x ≠ w → s.thr x = some tx → ∃ tx', s'.thr x = some tx' ∧ tx'.kind = tx.kind ∧ tx'.stage = tx.stage
  absent : ∀ x, s.thr x = none → s'.thr x = none
  du : s.doneUntil ≤ s'.doneUntil
  cntMono : ∀ j, s.nCounted j ≤ s'.nCounted j
  decEq : ∀ j, t.kind ≠ .done j → s'.nDoneDec j = s.nDoneDec j
  last : s'.lastIndex = s.lastIndex ∨ ∃ i, t.kind = .begin i ∧ s'.lastIndex = i
  busy : s'.sectionBusy = s.sectionBusy ∨ s'.sectionBusy = false
  busyEnd : t.kind.isBegin = true → t.stage = 3 → s'.sectionBusy = false
  first : ∀ i, t.kind = .begin i → t.stage = 0 → 1 ≤ s'.nCounted i

theorem wake_oth (thr : Nat → Option Thr) (u x : Nat) (tx : Thr) (h : thr x = some tx) :
    ∃ tx', wake thr u x = some tx' ∧ tx'.kind = tx.kind ∧ tx'.stage = tx.stage := by
  unfold wake
  rw [h]
  simp only
  split
  · exact ⟨_, rfl, rfl, rfl⟩
  · exact ⟨_, rfl, rfl, rfl⟩

theorem wake_none (thr : Nat → Option Thr) (u x : Nat) (h : thr x = none) : wake thr u x = none := by
  unfold wake; rw [h]

/-- a step that only rewrites the stepping thread's record -/
theorem Eff.local {s : St} {w : Nat} {t t' : Thr} (ht : s.thr w = some t) (hk : t'.kind = t.kind)
    (h1 : t.stage ≤ t'.stage) (h2 : t'.stage ≤ t.stage + 1)
    (h3 : t.kind.isBegin = true → t.stage = 3 → False) (h4 : ∀ i, t.kind = .begin i → t.stage = 0 → False) :
    Eff s (setThr s w t') w t :=
  { self := ⟨t', by simp [setThr], hk, h1, h2⟩
    oth := fun x tx hx htx => ⟨tx, by simp [setThr, upd_other _ _ _ _ hx, htx], rfl, rfl⟩
    absent := fun x hx => by
      by_cases hxw : x = w
      · subst hxw; rw [ht] at hx; cases hx
      · simp [setThr, upd_other _ _ _ _ hxw, hx]
    du := Nat.le_refl _
    cntMono := fun _ => Nat.le_refl _
    decEq := fun _ _ => rfl
    last := Or.inl rfl
    busy := Or.inl rfl
    busyEnd := fun a b => (h3 a b).elim
    first := fun i a b => (h4 i a b).elim }

theorem advance_stage (c : WMCfg) (hc : c.countsFirst = true) (k : Kind) (st : Nat)
    (h : (progOf c k)[st]? = some .advance) :
    (k.isBegin = true → st = 3 → False) ∧ (∀ i, k = .begin i → st = 0 → False) := by
  constructor
  · intro hb h3
    subst h3
    cases k <;> simp [progOf, hc] at h hb
  · intro i hk h0
    subst hk; subst h0
    simp [progOf, hc] at h

theorem wait_stage (c : WMCfg) (k : Kind) (st : Nat) (i : Nat)
    (h : (progOf c k)[st]? = some (.wait i)) : k = .wait i ∧ st = 0 := by
  cases k with
  | begin j =>
    exfalso
    cases hcf : c.countsFirst <;> simp only [progOf, hcf] at h
    · rcases st with _ | _ | _ | _ | _ <;> simp at h
    · rcases st with _ | _ | _ | _ | _ | _ <;> simp at h
  | done j =>
    exfalso
    simp only [progOf] at h
    rcases st with _ | _ | _ <;> simp at h
  | wait j =>
    simp only [progOf] at h
    rcases st with _ | _
    · simp at h; subst h; exact ⟨rfl, rfl⟩
    · simp at h
  | adv =>
    exfalso
    simp only [progOf] at h
    rcases st with _ | _ <;> simp at h

theorem stepThr_eff (c : WMCfg) (hc : c.countsFirst = true) (s s' : St) (w : Nat) (t : Thr)
    (ht : s.thr w = some t) (h : stepThr c s w t = some s') : Eff s s' w t := by
  have habs : ∀ (x : Nat) (t' : Thr), s.thr x = none → upd s.thr w (some t') x = none := by
    intro x t' hx
    by_cases hxw : x = w
    · subst hxw; rw [ht] at hx; cases hx
    · simp [upd_other _ _ _ _ hxw, hx]
  unfold stepThr at h
  split at h
  · cases h
  · rename_i ins hins
    have gi := good_instr c hc t.kind t.stage ins hins
    cases ins with
    | setLast i =>
      cases h
      obtain ⟨hk, hst⟩ := gi.2.2.1 i rfl
      exact
        { self := ⟨nextInstr t, by simp [setThr], rfl, by simp [nextInstr], by simp [nextInstr]⟩
          oth := fun x tx hx htx => ⟨tx, by simp [setThr, upd_other _ _ _ _ hx, htx], rfl, rfl⟩
          absent := fun x hx => by simpa [setThr] using habs x _ hx
          du := Nat.le_refl _
          cntMono := fun _ => Nat.le_refl _
          decEq := fun _ _ => rfl
          last := by
            by_cases hl : s.lastIndex < i
            · exact Or.inr ⟨i, hk, by simp [hl]⟩
            · exact Or.inl (by simp [hl])
          busy := Or.inl rfl
          busyEnd := fun _ h3 => by omega
          first := fun _ _ h0 => by omega }
    | add i up =>
      cases h
      cases up with
      | true =>
        obtain ⟨hk, hst⟩ := gi.1 i rfl
        exact
          { self := ⟨nextInstr t, by simp [setThr], rfl, by simp [nextInstr], by simp [nextInstr]⟩
            oth := fun x tx hx htx => ⟨tx, by simp [setThr, upd_other _ _ _ _ hx, htx], rfl, rfl⟩
            absent := fun x hx => by simpa [setThr] using habs x _ hx
            du := Nat.le_refl _
            cntMono := fun j => by
              by_cases hj : j = i
              · subst hj; simp
              · simp [upd_other _ _ _ _ hj]
            decEq := fun _ _ => by simp
            last := Or.inl rfl
            busy := Or.inl rfl
            busyEnd := fun _ h3 => by omega
            first := fun i' hk' _ => by
              rw [hk] at hk'; cases hk'
              simp }
      | false =>
        have hnb := gi.2.1 i rfl
        have hkd : t.kind = .done i := by
          cases hkk : t.kind with
          | begin j => simp [hkk, Kind.isBegin] at hnb
          | done j =>
            rw [hkk] at hins
            match hst : t.stage with
            | 0 => simp [progOf, hst] at hins; rw [hins]
            | 1 => simp [progOf, hst] at hins
            | n + 2 => simp [progOf, hst] at hins
          | wait j =>
            rw [hkk] at hins
            match hst : t.stage with
            | 0 => simp [progOf, hst] at hins
            | n + 1 => simp [progOf, hst] at hins
          | adv =>
            rw [hkk] at hins
            match hst : t.stage with
            | 0 => simp [progOf, hst] at hins
            | n + 1 => simp [progOf, hst] at hins
        exact
          { self := ⟨nextInstr t, by simp [setThr], rfl, by simp [nextInstr], by simp [nextInstr]⟩
            oth := fun x tx hx htx => ⟨tx, by simp [setThr, upd_other _ _ _ _ hx, htx], rfl, rfl⟩
            absent := fun x hx => by simpa [setThr] using habs x _ hx
            du := Nat.le_refl _
            cntMono := fun _ => by simp
            decEq := fun j hj => by
              have : j ≠ i := fun e => hj (e ▸ hkd)
              simp [upd_other _ _ _ _ this]
            last := Or.inl rfl
            busy := Or.inl rfl
            busyEnd := fun hb _ => by simp [hkd, Kind.isBegin] at hb
            first := fun i' hk' _ => by rw [hkd] at hk'; cases hk' }
    | endBegin =>
      cases h
      obtain ⟨hk, hst⟩ := gi.2.2.2 rfl
      exact
        { self := ⟨nextInstr t, by simp [setThr], rfl, by simp [nextInstr], by simp [nextInstr]⟩
          oth := fun x tx hx htx => ⟨tx, by simp [setThr, upd_other _ _ _ _ hx, htx], rfl, rfl⟩
          absent := fun x hx => by simpa [setThr] using habs x _ hx
          du := Nat.le_refl _
          cntMono := fun _ => Nat.le_refl _
          decEq := fun _ _ => rfl
          last := Or.inl rfl
          busy := Or.inr rfl
          busyEnd := fun _ _ => rfl
          first := fun _ _ h0 => by omega }
    | advance =>
      obtain ⟨ha3, ha0⟩ := advance_stage c hc t.kind t.stage hins
      simp only at h
      cases hl : t.loc <;> simp only [hl] at h
      · -- start
        cases h; exact Eff.local ht rfl (Nat.le_refl _) (Nat.le_succ _) ha3 ha0
      · -- haveD
        split at h <;> cases h
        · exact Eff.local ht rfl (by simp [nextInstr]) (by simp [nextInstr]) ha3 ha0
        · exact Eff.local ht rfl (Nat.le_refl _) (Nat.le_succ _) ha3 ha0
      · -- haveDL
        split at h <;> cases h
        · exact Eff.local ht rfl (by simp [nextInstr]) (by simp [nextInstr]) ha3 ha0
        · exact Eff.local ht rfl (Nat.le_refl _) (Nat.le_succ _) ha3 ha0
      · -- haveDH
        split at h <;> cases h
        · exact Eff.local ht rfl (by simp [nextInstr]) (by simp [nextInstr]) ha3 ha0
        · exact Eff.local ht rfl (Nat.le_refl _) (Nat.le_succ _) ha3 ha0
      · -- cas
        split at h <;> cases h
        · rename_i d hd
          exact
            { self := ⟨{ t with loc := .notify (d + 1) }, by simp [setThr], rfl, Nat.le_refl _, Nat.le_succ _⟩
              oth := fun x tx hx htx => ⟨tx, by simp [setThr, upd_other _ _ _ _ hx, htx], rfl, rfl⟩
              absent := fun x hx => by simpa [setThr] using habs x _ hx
              du := by show s.doneUntil ≤ d + 1; omega
              cntMono := fun _ => Nat.le_refl _
              decEq := fun _ _ => rfl
              last := Or.inl rfl
              busy := Or.inl rfl
              busyEnd := fun a b => (ha3 a b).elim
              first := fun i a b => (ha0 i a b).elim }
        · exact Eff.local ht rfl (Nat.le_refl _) (Nat.le_succ _) ha3 ha0
      · -- notify
        cases h
        rename_i u
        exact
          { self := ⟨{ t with loc := .start }, by simp, rfl, Nat.le_refl _, Nat.le_succ _⟩
            oth := fun x tx hx htx => by
              obtain ⟨tx', h1, h2, h3⟩ := wake_oth s.thr u x tx htx
              exact ⟨tx', by simp [upd_other _ _ _ _ hx, h1], h2, h3⟩
            absent := fun x hx => by
              by_cases hxw : x = w
              · subst hxw; rw [ht] at hx; cases hx
              · simp [upd_other _ _ _ _ hxw, wake_none _ _ _ hx]
            du := Nat.le_refl _
            cntMono := fun _ => Nat.le_refl _
            decEq := fun _ _ => rfl
            last := Or.inl rfl
            busy := Or.inl rfl
            busyEnd := fun a b => (ha3 a b).elim
            first := fun i a b => (ha0 i a b).elim }
      · cases h
      · cases h
    | wait i =>
      obtain ⟨hkw, hst0⟩ := wait_stage c t.kind t.stage i hins
      have hw3 : t.kind.isBegin = true → t.stage = 3 → False := fun hb _ => by simp [hkw, Kind.isBegin] at hb
      have hw0 : ∀ j, t.kind = .begin j → t.stage = 0 → False := fun j hk _ => by rw [hkw] at hk; cases hk
      simp only at h
      cases hl : t.loc <;> simp only [hl] at h
      · -- start
        split at h <;> cases h
        · exact Eff.local ht rfl (by simp [nextInstr]) (by simp [nextInstr]) hw3 hw0
        · exact Eff.local ht rfl (Nat.le_refl _) (Nat.le_succ _) hw3 hw0
      · cases h
      · cases h
      · cases h
      · cases h
      · cases h
      · -- w2
        split at h <;> cases h
        · exact Eff.local ht rfl (by simp [nextInstr]) (by simp [nextInstr]) hw3 hw0
        · exact Eff.local ht rfl (Nat.le_refl _) (Nat.le_succ _) hw3 hw0
      · -- sleeping
        split at h <;> cases h
        exact Eff.local ht rfl (by simp [nextInstr]) (by simp [nextInstr]) hw3 hw0

/-- entering a call: a new thread record at a free id, nothing else moves -/
structure SpawnEff (s s' : St) (w : Nat) (k : Kind) : Prop where
  free : s.thr w = none
  self : s'.thr w = some { kind := k }
  oth : ∀ x, x ≠ w → s'.thr x = s.thr x
  du : s'.doneUntil = s.doneUntil
  cnt : s'.nCounted = s.nCounted
  dec : s'.nDoneDec = s.nDoneDec
  last : s'.lastIndex = s.lastIndex
  busy : s'.sectionBusy = (s.sectionBusy || k.isBegin)

theorem spawn_eff (c : WMCfg) (ct : Bool) (s s' : St) (w : Nat) (k : Kind)
    (h : step c ct s (match k with
      | .begin i => .begin w i
      | .done i => .done w i
      | .wait i => .wait w i
      | .adv => .adv w) = some s') : SpawnEff s s' w k := by
  cases k with
  | begin i =>
    simp only [step] at h
    split at h
    · rename_i hg; cases h
      exact ⟨hg.1, by simp [setThr], fun x hx => by simp [setThr, upd_other _ _ _ _ hx], rfl, rfl, rfl, rfl,
        by simp [Kind.isBegin]⟩
    · cases h
  | done i =>
    simp only [step] at h
    split at h
    · rename_i hg; cases h
      exact ⟨hg.1, by simp [setThr], fun x hx => by simp [setThr, upd_other _ _ _ _ hx], rfl, rfl, rfl, rfl,
        by simp [Kind.isBegin, setThr]⟩
    · cases h
  | wait i =>
    simp only [step] at h
    split at h
    · rename_i hg; cases h
      exact ⟨hg, by simp [setThr], fun x hx => by simp [setThr, upd_other _ _ _ _ hx], rfl, rfl, rfl, rfl,
        by simp [Kind.isBegin, setThr]⟩
    · cases h
  | adv =>
    simp only [step] at h
    split at h
    · rename_i hg; cases h
      exact ⟨hg, by simp [setThr], fun x hx => by simp [setThr, upd_other _ _ _ _ hx], rfl, rfl, rfl, rfl,
        by simp [Kind.isBegin, setThr]⟩
    · cases h

/-- One more invariant of the watermark system (any contract flag): a `Begin(i)` past its first
micro-step has been counted. -/
theorem begun_counted (c : WMCfg) (hc : c.countsFirst = true) (ct : Bool) (s : St)
    (hr : Reachable (sys c ct) s) :
    ∀ w t i, s.thr w = some t → t.kind = .begin i → 1 ≤ t.stage → 1 ≤ s.nCounted i := by
  refine Reachable.invariant (S := sys c ct)
    (fun s => ∀ w t i, s.thr w = some t → t.kind = .begin i → 1 ≤ t.stage → 1 ≤ s.nCounted i) ?_ ?_ s hr
  · intro s hs w t i ht
    cases hs
    simp [initSt] at ht
  · intro s a s' ih hst w t i ht hk hstage
    have spawnCase : ∀ (x : Nat) (k : Kind), SpawnEff s s' x k → 1 ≤ s'.nCounted i := by
      intro x k se
      rw [se.cnt]
      by_cases hw : w = x
      · subst hw; rw [se.self] at ht; cases ht; simp at hstage
      · rw [se.oth w hw] at ht; exact ih w t i ht hk hstage
    cases a with
    | begin x j => exact spawnCase x (.begin j) (spawn_eff c ct s s' x (.begin j) hst)
    | done x j => exact spawnCase x (.done j) (spawn_eff c ct s s' x (.done j) hst)
    | wait x j => exact spawnCase x (.wait j) (spawn_eff c ct s s' x (.wait j) hst)
    | adv x => exact spawnCase x .adv (spawn_eff c ct s s' x .adv hst)
    | run x =>
      change step c ct s (.run x) = some s' at hst
      simp only [step] at hst
      cases hx : s.thr x with
      | none => simp [hx] at hst
      | some tx =>
        simp only [hx] at hst
        have e := stepThr_eff c hc s s' x tx hx hst
        by_cases hw : w = x
        · subst hw
          obtain ⟨t', ht', hk', h1, h2⟩ := e.self
          rw [ht] at ht'; cases ht'
          by_cases h0 : tx.stage = 0
          · exact e.first i (hk' ▸ hk) h0
          · exact Nat.le_trans (ih w tx i hx (hk' ▸ hk) (by omega)) (e.cntMono i)
        · cases hw' : s.thr w with
          | none => rw [e.absent w hw'] at ht; cases ht
          | some tw =>
            obtain ⟨tw', h1, h2, h3⟩ := e.oth w tw hw hw'
            rw [ht] at h1; cases h1
            exact Nat.le_trans (ih w tw i hw' (h2 ▸ hk) (h3 ▸ hstage)) (e.cntMono i)

end NoKV.Conc.WM

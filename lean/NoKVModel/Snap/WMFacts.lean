/-
The ONLY file of the C05 composition that looks inside C32's watermark micro-step model
(`NoKV.Conc.WM`: `stepThr`, `step`, `progOf`, the invariants `N` and `W`).  Everything the rest of
NoKVModel/Snap and Props/C05 needs about the watermark is stated here as a lemma about

  * one micro-step of a call record (`Eff`, `run_eff`) and one call entry (`SpawnEff`, `spawn_eff`)
    of the four calls the oracle makes (`Snap.Call`: Begin, Done, WaitForMark, bare tryAdvance);
  * `Ok`: C32's invariants `N`, `W` (+ `BC`) as a predicate on a watermark state — true of a fresh
    watermark AND of one re-seeded by SetDoneUntil/SetLastIndex (reopen), kept by every step of the
    watermark system WITH the usage contract (`Ok.step`; `run_eff`, `spawn_reach`, `begin_reach`);
  * what the invariants give in an Ok state (`above_mark`, `begin_unpublished`, `du_le_last`,
    `wait_returned_le`, `begun_counted`, `begin_done_stage`).

When Conc/Watermark*.lean changes, this is the file to repair; the statements below are meant to
stay.  The auxiliary kinds `count` / `publish` (BeginMany) cannot occur under the contract
(`N.noAux`) and are never spawned by `Snap.Call`.
-/
import NoKVModel.Conc.WatermarkContract
import NoKVModel.Snap.Model

namespace NoKV.Conc.WM
open NoKV.Conc

/-- everything a micro-step of watermark thread `w` (record `t`) does, under count-then-publish -/
structure Eff (s s' : St) (w : Nat) (t : Thr) : Prop where
  self : ∃ t', s'.thr w = some t' ∧ t'.kind = t.kind ∧ t.stage ≤ t'.stage ∧ t'.stage ≤ t.stage + 1
  oth : ∀ x tx, x ≠ w → s.thr x = some tx → ∃ tx', s'.thr x = some tx' ∧ tx'.kind = tx.kind ∧ tx'.stage = tx.stage
  absent : ∀ x, s.thr x = none → s'.thr x = none
  du : s.doneUntil ≤ s'.doneUntil
  cntMono : ∀ j, s.nCounted j ≤ s'.nCounted j
  decEq : ∀ j, t.kind ≠ .done j → s'.nDoneDec j = s.nDoneDec j
  last : s'.lastIndex = s.lastIndex ∨ ∃ i, t.kind = .begin i ∧ s'.lastIndex = i
  busy : s'.sectionBusy = s.sectionBusy ∨ s'.sectionBusy = false
  busyEnd : t.kind.isBegin = true → t.stage = 3 → s'.sectionBusy = false
  first : ∀ i, t.kind = .begin i → t.stage = 0 → 1 ≤ s'.nCounted i

theorem wake_oth (thr : Nat → Option Thr) (u x : Nat) (tx : Thr) (h : thr x = some tx) :
    ∃ tx', wake thr u x = some tx' ∧ tx'.kind = tx.kind ∧ tx'.stage = tx.stage := by
  unfold wake
  rw [h]
  simp only
  split
  · exact ⟨_, rfl, rfl, rfl⟩
  · exact ⟨_, rfl, rfl, rfl⟩

theorem wake_none (thr : Nat → Option Thr) (u x : Nat) (h : thr x = none) : wake thr u x = none := by
  unfold wake; rw [h]

/-- a step that only rewrites the stepping thread's record -/
theorem Eff.local {s : St} {w : Nat} {t t' : Thr} (ht : s.thr w = some t) (hk : t'.kind = t.kind)
    (h1 : t.stage ≤ t'.stage) (h2 : t'.stage ≤ t.stage + 1)
    (h3 : t.kind.isBegin = true → t.stage = 3 → False) (h4 : ∀ i, t.kind = .begin i → t.stage = 0 → False) :
    Eff s (setThr s w t') w t :=
  { self := ⟨t', by simp [setThr], hk, h1, h2⟩
    oth := fun x tx hx htx => ⟨tx, by simp [setThr, upd_other _ _ _ _ hx, htx], rfl, rfl⟩
    absent := fun x hx => by
      by_cases hxw : x = w
      · subst hxw; rw [ht] at hx; cases hx
      · simp [setThr, upd_other _ _ _ _ hxw, hx]
    du := Nat.le_refl _
    cntMono := fun _ => Nat.le_refl _
    decEq := fun _ _ => rfl
    last := Or.inl rfl
    busy := Or.inl rfl
    busyEnd := fun a b => (h3 a b).elim
    first := fun i a b => (h4 i a b).elim }

theorem advance_stage (c : WMCfg) (hc : c.countsFirst = true) (k : Kind) (st : Nat)
    (h : (progOf c k)[st]? = some .advance) :
    (k.isBegin = true → st = 3 → False) ∧ (∀ i, k = .begin i → st = 0 → False) := by
  constructor
  · intro hb h3
    subst h3
    cases k <;> simp [progOf, hc] at h hb
  · intro i hk h0
    subst hk; subst h0
    simp [progOf, hc] at h

theorem wait_stage (c : WMCfg) (k : Kind) (st : Nat) (i : Nat)
    (h : (progOf c k)[st]? = some (.wait i)) : k = .wait i ∧ st = 0 := by
  cases k with
  | begin j =>
    exfalso
    cases hcf : c.countsFirst <;> simp only [progOf, hcf] at h
    · rcases st with _ | _ | _ | _ | _ <;> simp at h
    · rcases st with _ | _ | _ | _ | _ | _ <;> simp at h
  | done j =>
    exfalso
    simp only [progOf] at h
    rcases st with _ | _ | _ <;> simp at h
  | wait j =>
    simp only [progOf] at h
    rcases st with _ | _
    · simp at h; subst h; exact ⟨rfl, rfl⟩
    · simp at h
  | adv =>
    exfalso
    simp only [progOf] at h
    rcases st with _ | _ <;> simp at h
  | count j =>
    exfalso
    simp only [progOf] at h
    rcases st with _ | _ | _ <;> simp at h
  | publish j =>
    exfalso
    simp only [progOf] at h
    rcases st with _ | _ | _ <;> simp at h

theorem stepThr_eff (c : WMCfg) (hc : c.countsFirst = true) (s s' : St) (w : Nat) (t : Thr)
    (hka : t.kind.isAux = false)
    (ht : s.thr w = some t) (h : stepThr c s w t = some s') : Eff s s' w t := by
  have habs : ∀ (x : Nat) (t' : Thr), s.thr x = none → upd s.thr w (some t') x = none := by
    intro x t' hx
    by_cases hxw : x = w
    · subst hxw; rw [ht] at hx; cases hx
    · simp [upd_other _ _ _ _ hxw, hx]
  unfold stepThr at h
  split at h
  · cases h
  · rename_i ins hins
    have gi := good_instr c hc t.kind hka t.stage ins hins
    cases ins with
    | setLast i =>
      cases h
      obtain ⟨hk, hst⟩ := gi.2.2.1 i rfl
      exact
        { self := ⟨nextInstr t, by simp [setThr], rfl, by simp [nextInstr], by simp [nextInstr]⟩
          oth := fun x tx hx htx => ⟨tx, by simp [setThr, upd_other _ _ _ _ hx, htx], rfl, rfl⟩
          absent := fun x hx => by simpa [setThr] using habs x _ hx
          du := Nat.le_refl _
          cntMono := fun _ => Nat.le_refl _
          decEq := fun _ _ => rfl
          last := by
            by_cases hl : s.lastIndex < i
            · exact Or.inr ⟨i, hk, by simp [hl]⟩
            · exact Or.inl (by simp [hl])
          busy := Or.inl rfl
          busyEnd := fun _ h3 => by omega
          first := fun _ _ h0 => by omega }
    | add i up =>
      cases h
      cases up with
      | true =>
        obtain ⟨hk, hst⟩ := gi.1 i rfl
        exact
          { self := ⟨nextInstr t, by simp [setThr], rfl, by simp [nextInstr], by simp [nextInstr]⟩
            oth := fun x tx hx htx => ⟨tx, by simp [setThr, upd_other _ _ _ _ hx, htx], rfl, rfl⟩
            absent := fun x hx => by simpa [setThr] using habs x _ hx
            du := Nat.le_refl _
            cntMono := fun j => by
              by_cases hj : j = i
              · subst hj; simp
              · simp [upd_other _ _ _ _ hj]
            decEq := fun _ _ => by simp
            last := Or.inl rfl
            busy := Or.inl rfl
            busyEnd := fun _ h3 => by omega
            first := fun i' hk' _ => by
              rw [hk] at hk'; cases hk'
              simp }
      | false =>
        have hnb := (gi.2.1 i rfl).1
        have hkd : t.kind = .done i := by
          cases hkk : t.kind with
          | begin j => simp [hkk, Kind.isBegin] at hnb
          | done j =>
            rw [hkk] at hins
            match hst : t.stage with
            | 0 => simp [progOf, hst] at hins; rw [hins]
            | 1 => simp [progOf, hst] at hins
            | n + 2 => simp [progOf, hst] at hins
          | wait j =>
            rw [hkk] at hins
            match hst : t.stage with
            | 0 => simp [progOf, hst] at hins
            | n + 1 => simp [progOf, hst] at hins
          | adv =>
            rw [hkk] at hins
            match hst : t.stage with
            | 0 => simp [progOf, hst] at hins
            | n + 1 => simp [progOf, hst] at hins
          | count j => simp [hkk, Kind.isAux] at hka
          | publish j => simp [hkk, Kind.isAux] at hka
        exact
          { self := ⟨nextInstr t, by simp [setThr], rfl, by simp [nextInstr], by simp [nextInstr]⟩
            oth := fun x tx hx htx => ⟨tx, by simp [setThr, upd_other _ _ _ _ hx, htx], rfl, rfl⟩
            absent := fun x hx => by simpa [setThr] using habs x _ hx
            du := Nat.le_refl _
            cntMono := fun _ => by simp
            decEq := fun j hj => by
              have : j ≠ i := fun e => hj (e ▸ hkd)
              simp [upd_other _ _ _ _ this]
            last := Or.inl rfl
            busy := Or.inl rfl
            busyEnd := fun hb _ => by simp [hkd, Kind.isBegin] at hb
            first := fun i' hk' _ => by rw [hkd] at hk'; cases hk' }
    | endBegin =>
      cases h
      obtain ⟨hk, hst⟩ := gi.2.2.2 rfl
      exact
        { self := ⟨nextInstr t, by simp [setThr], rfl, by simp [nextInstr], by simp [nextInstr]⟩
          oth := fun x tx hx htx => ⟨tx, by simp [setThr, upd_other _ _ _ _ hx, htx], rfl, rfl⟩
          absent := fun x hx => by simpa [setThr] using habs x _ hx
          du := Nat.le_refl _
          cntMono := fun _ => Nat.le_refl _
          decEq := fun _ _ => rfl
          last := Or.inl rfl
          busy := Or.inr rfl
          busyEnd := fun _ _ => rfl
          first := fun _ _ h0 => by omega }
    | advance =>
      obtain ⟨ha3, ha0⟩ := advance_stage c hc t.kind t.stage hins
      simp only at h
      cases hl : t.loc <;> simp only [hl] at h
      · -- start
        cases h; exact Eff.local ht rfl (Nat.le_refl _) (Nat.le_succ _) ha3 ha0
      · -- haveD
        split at h <;> cases h
        · exact Eff.local ht rfl (by simp [nextInstr]) (by simp [nextInstr]) ha3 ha0
        · exact Eff.local ht rfl (Nat.le_refl _) (Nat.le_succ _) ha3 ha0
      · -- haveDL
        split at h <;> cases h
        · exact Eff.local ht rfl (by simp [nextInstr]) (by simp [nextInstr]) ha3 ha0
        · exact Eff.local ht rfl (Nat.le_refl _) (Nat.le_succ _) ha3 ha0
      · -- haveDH
        split at h <;> cases h
        · exact Eff.local ht rfl (by simp [nextInstr]) (by simp [nextInstr]) ha3 ha0
        · exact Eff.local ht rfl (Nat.le_refl _) (Nat.le_succ _) ha3 ha0
      · -- cas
        split at h <;> cases h
        · rename_i d hd
          exact
            { self := ⟨{ t with loc := .notify (d + 1) }, by simp [setThr], rfl, Nat.le_refl _, Nat.le_succ _⟩
              oth := fun x tx hx htx => ⟨tx, by simp [setThr, upd_other _ _ _ _ hx, htx], rfl, rfl⟩
              absent := fun x hx => by simpa [setThr] using habs x _ hx
              du := by show s.doneUntil ≤ d + 1; omega
              cntMono := fun _ => Nat.le_refl _
              decEq := fun _ _ => rfl
              last := Or.inl rfl
              busy := Or.inl rfl
              busyEnd := fun a b => (ha3 a b).elim
              first := fun i a b => (ha0 i a b).elim }
        · exact Eff.local ht rfl (Nat.le_refl _) (Nat.le_succ _) ha3 ha0
      · -- notify
        cases h
        rename_i u
        exact
          { self := ⟨{ t with loc := .start }, by simp, rfl, Nat.le_refl _, Nat.le_succ _⟩
            oth := fun x tx hx htx => by
              obtain ⟨tx', h1, h2, h3⟩ := wake_oth s.thr u x tx htx
              exact ⟨tx', by simp [upd_other _ _ _ _ hx, h1], h2, h3⟩
            absent := fun x hx => by
              by_cases hxw : x = w
              · subst hxw; rw [ht] at hx; cases hx
              · simp [upd_other _ _ _ _ hxw, wake_none _ _ _ hx]
            du := Nat.le_refl _
            cntMono := fun _ => Nat.le_refl _
            decEq := fun _ _ => rfl
            last := Or.inl rfl
            busy := Or.inl rfl
            busyEnd := fun a b => (ha3 a b).elim
            first := fun i a b => (ha0 i a b).elim }
      · cases h
      · cases h
    | wait i =>
      obtain ⟨hkw, hst0⟩ := wait_stage c t.kind t.stage i hins
      have hw3 : t.kind.isBegin = true → t.stage = 3 → False := fun hb _ => by simp [hkw, Kind.isBegin] at hb
      have hw0 : ∀ j, t.kind = .begin j → t.stage = 0 → False := fun j hk _ => by rw [hkw] at hk; cases hk
      simp only at h
      cases hl : t.loc <;> simp only [hl] at h
      · -- start
        split at h <;> cases h
        · exact Eff.local ht rfl (by simp [nextInstr]) (by simp [nextInstr]) hw3 hw0
        · exact Eff.local ht rfl (Nat.le_refl _) (Nat.le_succ _) hw3 hw0
      · cases h
      · cases h
      · cases h
      · cases h
      · cases h
      · -- w2
        split at h <;> cases h
        · exact Eff.local ht rfl (by simp [nextInstr]) (by simp [nextInstr]) hw3 hw0
        · exact Eff.local ht rfl (Nat.le_refl _) (Nat.le_succ _) hw3 hw0
      · -- sleeping
        split at h <;> cases h
        exact Eff.local ht rfl (by simp [nextInstr]) (by simp [nextInstr]) hw3 hw0

/-- entering a call: a new thread record at a free id, nothing else moves -/
structure SpawnEff (s s' : St) (w : Nat) (k : Kind) : Prop where
  free : s.thr w = none
  self : s'.thr w = some { kind := k }
  oth : ∀ x, x ≠ w → s'.thr x = s.thr x
  du : s'.doneUntil = s.doneUntil
  cnt : s'.nCounted = s.nCounted
  dec : s'.nDoneDec = s.nDoneDec
  last : s'.lastIndex = s.lastIndex
  busy : s'.sectionBusy = (s.sectionBusy || k.isBegin)

open NoKV.Snap in
/-- entering one of the oracle's four calls -/
theorem spawn_eff (c : WMCfg) (ct : Bool) (s s' : St) (w : Nat) (call : Call)
    (h : step c ct s (call.act w) = some s') : SpawnEff s s' w call.kind := by
  cases call with
  | begin i =>
    simp only [Call.act, step] at h
    split at h
    · rename_i hg; cases h
      exact ⟨hg.1, by simp [setThr, Call.kind], fun x hx => by simp [setThr, upd_other _ _ _ _ hx], rfl, rfl, rfl, rfl,
        by simp [Kind.isBegin, Call.kind]⟩
    · cases h
  | done i =>
    simp only [Call.act, step] at h
    split at h
    · rename_i hg; cases h
      exact ⟨hg.1, by simp [setThr, Call.kind], fun x hx => by simp [setThr, upd_other _ _ _ _ hx], rfl, rfl, rfl, rfl,
        by simp [Kind.isBegin, setThr, Call.kind]⟩
    · cases h
  | wait i =>
    simp only [Call.act, step] at h
    split at h
    · rename_i hg; cases h
      exact ⟨hg, by simp [setThr, Call.kind], fun x hx => by simp [setThr, upd_other _ _ _ _ hx], rfl, rfl, rfl, rfl,
        by simp [Kind.isBegin, setThr, Call.kind]⟩
    · cases h
  | adv =>
    simp only [Call.act, step] at h
    split at h
    · rename_i hg; cases h
      exact ⟨hg, by simp [setThr, Call.kind], fun x hx => by simp [setThr, upd_other _ _ _ _ hx], rfl, rfl, rfl, rfl,
        by simp [Kind.isBegin, setThr, Call.kind]⟩
    · cases h

/-! ### the states of `txnMark`: C32's invariants, from a fresh OR a re-seeded watermark -/

/-- a `Begin(i)` past its first micro-step has been counted -/
def BC (s : St) : Prop :=
  ∀ w t i, s.thr w = some t → t.kind = .begin i → 1 ≤ t.stage → 1 ≤ s.nCounted i

/-- What the composition knows about `txnMark`: C32's contract invariant `N`, its waiter invariant
`W`, and `BC`.  Holds for a fresh watermark, for one re-seeded by `SetDoneUntil(n)` /
`SetLastIndex(n)` (`oracle.initCommitState` after a reopen), and is preserved by every step of the
watermark system WITH the usage contract. -/
structure Ok (s : St) : Prop where
  n : N s
  w : W s
  bc : BC s

open NoKV.Snap in
theorem Ok.seeded (n : Nat) : Ok (seededWM n n) := by
  refine ⟨⟨Nat.le_refl _, ?_, ?_, ?_, ?_, ?_, ?_⟩, ?_, ?_⟩
  · intro j _; simp [seededWM, initSt]
  · intro j; rfl
  · intro j _; simp [seededWM, initSt]
  · intro tid t ht; simp [seededWM, initSt] at ht
  · intro i j ti tj hi; simp [seededWM, initSt] at hi
  · intro tid t ht; simp [seededWM, initSt] at ht
  · intro tid t ht; simp [seededWM, initSt] at ht
  · intro w t i ht; simp [seededWM, initSt] at ht

theorem Ok.fresh : Ok initSt := by
  have := Ok.seeded 0
  exact this

theorem W.preserved (c : WMCfg) (ct : Bool) {s s' : St} {a : Act} (hW : W s) (hs : step c ct s a = some s') :
    W s' := by
  have fresh : ∀ (tid : Nat) (k : Kind), WT s.doneUntil ({ kind := k } : Thr) := by
    intro tid k; exact ⟨by simp, by simp, by simp⟩
  cases a with
  | begin tid i =>
    simp only [step] at hs
    split at hs <;> cases hs
    exact W.set hW (Nat.le_refl _) tid _ (fresh tid _)
  | done tid i =>
    simp only [step] at hs
    split at hs <;> cases hs
    exact W.set hW (Nat.le_refl _) tid _ (fresh tid _)
  | wait tid i =>
    simp only [step] at hs
    split at hs <;> cases hs
    exact W.set hW (Nat.le_refl _) tid _ (fresh tid _)
  | adv tid =>
    simp only [step] at hs
    split at hs <;> cases hs
    exact W.set hW (Nat.le_refl _) tid _ (fresh tid _)
  | count tid i =>
    simp only [step] at hs
    split at hs <;> cases hs
    exact W.set hW (Nat.le_refl _) tid _ (fresh tid _)
  | publish tid i =>
    simp only [step] at hs
    split at hs <;> cases hs
    exact W.set hW (Nat.le_refl _) tid _ (fresh tid _)
  | run tid =>
    simp only [step] at hs
    cases ht : s.thr tid with
    | none => simp [ht] at hs
    | some t => simp only [ht] at hs; exact W.step_thr c hW ht hs

theorem BC.preserved (c : WMCfg) (hc : c.countsFirst = true) {s s' : St} {a : Act} (hn : N s) (ih : BC s)
    (hst : step c true s a = some s') : BC s' := by
  intro w t i ht hk hstage
  -- a call entry: the new record is at stage 0, the counters do not move
  have spawnCase : ∀ (x : Nat) (t0 : Thr), t0.stage = 0 → s'.thr x = some t0 →
      (∀ y, y ≠ x → s'.thr y = s.thr y) → s'.nCounted = s.nCounted → 1 ≤ s'.nCounted i := by
    intro x t0 h0 hself hoth hcnt
    rw [hcnt]
    by_cases hw : w = x
    · subst hw; rw [hself] at ht; cases ht; omega
    · rw [hoth w hw] at ht; exact ih w t i ht hk hstage
  cases a with
  | begin x j =>
    simp only [step] at hst; split at hst <;> cases hst
    exact spawnCase x { kind := .begin j } rfl (by simp [setThr]) (fun y hy => by simp [setThr, upd_other _ _ _ _ hy]) rfl
  | done x j =>
    simp only [step] at hst; split at hst <;> cases hst
    exact spawnCase x { kind := .done j } rfl (by simp [setThr]) (fun y hy => by simp [setThr, upd_other _ _ _ _ hy]) rfl
  | wait x j =>
    simp only [step] at hst; split at hst <;> cases hst
    exact spawnCase x { kind := .wait j } rfl (by simp [setThr]) (fun y hy => by simp [setThr, upd_other _ _ _ _ hy]) rfl
  | adv x =>
    simp only [step] at hst; split at hst <;> cases hst
    exact spawnCase x { kind := .adv } rfl (by simp [setThr]) (fun y hy => by simp [setThr, upd_other _ _ _ _ hy]) rfl
  | count x j =>
    simp only [step] at hst; split at hst
    · rename_i hg; exact absurd hg.2.1 (by simp)
    · cases hst
  | publish x j =>
    simp only [step] at hst; split at hst
    · rename_i hg; exact absurd hg.2 (by simp)
    · cases hst
  | run x =>
    simp only [step] at hst
    cases hx : s.thr x with
    | none => simp [hx] at hst
    | some tx =>
      simp only [hx] at hst
      have e := stepThr_eff c hc s s' x tx (hn.noAux x tx hx) hx hst
      by_cases hw : w = x
      · subst hw
        obtain ⟨t', ht', hk', h1, h2⟩ := e.self
        rw [ht] at ht'; cases ht'
        by_cases h0 : tx.stage = 0
        · exact e.first i (hk' ▸ hk) h0
        · exact Nat.le_trans (ih w tx i hx (hk' ▸ hk) (by omega)) (e.cntMono i)
      · cases hw' : s.thr w with
        | none => rw [e.absent w hw'] at ht; cases ht
        | some tw =>
          obtain ⟨tw', h1, h2, h3⟩ := e.oth w tw hw hw'
          rw [ht] at h1; cases h1
          exact Nat.le_trans (ih w tw i hw' (h2 ▸ hk) (h3 ▸ hstage)) (e.cntMono i)

/-- every step of the watermark system WITH the usage contract keeps `Ok` -/
theorem Ok.step (c : WMCfg) (hc : c.countsFirst = true) {s s' : St} {a : Act} (h : Ok s)
    (hs : step c true s a = some s') : Ok s' :=
  ⟨N.preserved hc h.n hs, W.preserved c true h.w hs, BC.preserved c hc h.n h.bc hs⟩

/-! ### the steps the oracle makes keep `txnMark` Ok -/

/-- one micro-step of a call record: its record, its effect, and the successor is Ok again -/
theorem run_eff (c : WMCfg) (hc : c.countsFirst = true) (s s' : St) (w : Nat)
    (hr : Ok s) (h : step c false s (.run w) = some s') :
    Ok s' ∧ ∃ t, s.thr w = some t ∧ Eff s s' w t := by
  have h0 := h
  simp only [step] at h
  cases hw : s.thr w with
  | none => simp [hw] at h
  | some t =>
    simp only [hw] at h
    exact ⟨hr.step c hc (a := .run w) h0, t, rfl, stepThr_eff c hc s s' w t (hr.n.noAux w t hw) hw h⟩

open NoKV.Snap in
/-- entering Done / WaitForMark / a bare tryAdvance never needs the contract -/
theorem spawn_reach (c : WMCfg) (hc : c.countsFirst = true) (s s' : St) (w : Nat) (call : Call)
    (hk : call.kind.isBegin = false) (hr : Ok s) (h : step c false s (call.act w) = some s') : Ok s' := by
  refine hr.step c hc (a := call.act w) ?_
  cases call with
  | begin i => simp [Call.kind, Kind.isBegin] at hk
  | done i => exact h
  | wait i => exact h
  | adv => exact h

/-- entering `Begin(i)` with the contract's side conditions established by the caller -/
theorem begin_reach (c : WMCfg) (hc : c.countsFirst = true) (s s' : St) (w i : Nat) (hpos : 0 < i)
    (hbusy : s.sectionBusy = false) (hlast : s.lastIndex < i) (hr : Ok s)
    (h : step c false s (.begin w i) = some s') : Ok s' := by
  refine hr.step c hc (a := .begin w i) ?_
  simp only [step] at h ⊢
  split at h
  · rename_i hg
    rw [if_pos ⟨hg.1, Or.inl hpos, fun _ => ⟨hbusy, hlast⟩⟩]
    exact h
  · cases h

/-! ### what C32's invariants give in an Ok state -/

/-- `doneUntil ≤ lastIndex` -/
theorem du_le_last (s : St) (hr : Ok s) : s.doneUntil ≤ s.lastIndex := hr.n.le

/-- an index that is counted and whose `Done` has not decremented is above the mark -/
theorem above_mark (s : St) (hr : Ok s) (j : Nat)
    (hcnt : 1 ≤ s.nCounted j) (hdec : s.nDoneDec j = 0) : s.doneUntil < j := by
  cases Nat.lt_or_ge s.doneUntil j with
  | inl h1 => exact h1
  | inr h1 => have := hr.n.m j h1; omega

/-- a `Begin(i)` that has not executed its `setLastIndex` yet: `lastIndex < i` -/
theorem begin_unpublished (s : St) (hr : Ok s)
    (w : Nat) (t : Thr) (i : Nat) (hw : s.thr w = some t) (hk : t.kind = .begin i) (hst : t.stage ≤ 2) :
    s.lastIndex < i := by
  have := (hr.n.ti w t hw).preLt ⟨by rw [hk]; rfl, hst⟩
  rw [hk] at this
  exact this

/-- `WaitForMark(i)` returns only with `doneUntil ≥ i` -/
theorem wait_returned_le (s : St) (hr : Ok s) (w : Nat) (t : Thr)
    (i : Nat) (hw : s.thr w = some t) (hk : t.kind = .wait i) (hret : t.returned = true) :
    i ≤ s.doneUntil := by
  have := (hr.w w t hw).returnedLe hret
  rw [hk] at this
  exact this

/-- a `Begin(i)` past its first micro-step has been counted -/
theorem begun_counted (s : St) (hr : Ok s) :
    ∀ w t i, s.thr w = some t → t.kind = .begin i → 1 ≤ t.stage → 1 ≤ s.nCounted i := hr.bc

/-- a `Begin` whose program has run out is past every instruction (stage ≥ 4 in either order) -/
theorem begin_done_stage (c : WMCfg) (i st : Nat) (h : (progOf c (.begin i))[st]? = none) : 4 ≤ st := by
  simp only [List.getElem?_eq_none_iff] at h
  cases hcf : c.countsFirst <;> simp [progOf, hcf] at h <;> omega

end NoKV.Conc.WM

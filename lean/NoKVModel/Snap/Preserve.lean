/-
`Inv` holds initially and is preserved by every action of `NoKV.Snap.sys` under the good
configuration; hence it holds in every reachable state (`Inv.reachable`).
-/
import NoKVModel.Snap.Invariant

namespace NoKV.Snap
open NoKV NoKV.Conc

/-- `Inv` holds after `Open`, fresh or reopened: this is where the seeding of the marks by
`oracle.initCommitState` matters — `txnMark.doneUntil = txnMark.lastIndex = n < nextTxnTs = n+1`, so
the first commit timestamp of the session is not done (`next`), given `seedOff = 0`. -/
theorem Inv.init (c : SnapCfg) (hseed : c.seedOff = 0) (n : Nat) (store : List Entry) :
    Inv c (seededSt c n store) := by
  have htm : (seededSt c n store).tm = seededWM n n := by
    simp only [seededSt, hseed, Nat.add_zero]
    split
    · rename_i h0; subst h0; rfl
    · rfl
  exact
    { tmR := by rw [htm]; exact WM.Ok.seeded n
      ti := fun _ _ h => by simp [seededSt] at h
      busy := fun h => by rw [htm] at h; simp [seededWM, WM.initSt] at h
      next := by rw [htm]; simp [seededWM, seededSt]
      tsLt := fun _ _ h => by simp [seededSt] at h
      uniq := fun _ _ _ _ h => by simp [seededSt] at h
      fresh := fun j _ => by rw [htm]; simp [seededWM, WM.initSt] }

theorem nextTs_pos {c : SnapCfg} {s : St} (h : Inv c s) : 1 ≤ s.nextTs := by
  have := h.next; omega

/-- `db.NewTransaction` is called: a new thread record -/
theorem Inv.spawnStep {c : SnapCfg} {s : St} (h : Inv c s) (tid : Nat) (u : Bool) (hfree : s.thr tid = none) :
    Inv c (setT s tid { update := u }) := by
  have hoth : ∀ x tx, (setT s tid { update := u }).thr x = some tx → x ≠ tid → s.thr x = some tx := by
    intro x tx hx hne; rw [setT_thr, if_neg hne] at hx; exact hx
  have hme : ∀ tx, (setT s tid { update := u }).thr tid = some tx → tx = { update := u } := by
    intro tx hx; rw [setT_thr, if_pos rfl] at hx; cases hx; rfl
  refine ⟨h.tmR, ?_, ?_, h.next, ?_, ?_, h.fresh⟩
  · intro x tx hx
    by_cases hxt : x = tid
    · subst hxt; rw [hme tx hx]
      exact ⟨fun hb => by simp at hb, by simp [PcInv]⟩
    · exact (h.ti x tx (hoth x tx hx hxt)).frame (Nat.le_refl _) (fun hx => hx) (fun _ _ hx => hx)
        (fun _ => rfl) (fun _ => Nat.le_refl _) (fun _ he => he)
  · refine BusyOk.keep h.busy rfl ?_
    intro x tx w hx _
    by_cases hxt : x = tid
    · subst hxt; rw [hfree] at hx; cases hx
    · rw [setT_thr, if_neg hxt]; exact hx
  · intro x tx hx
    by_cases hxt : x = tid
    · subst hxt; rw [hme tx hx]; exact (nextTs_pos h : 1 ≤ s.nextTs)
    · exact h.tsLt x tx (hoth x tx hx hxt)
  · intro a b ta tb ha hb hne heq
    by_cases hat : a = tid
    · subst hat; rw [hme ta ha] at hne; simp at hne
    · by_cases hbt : b = tid
      · subst hbt; rw [hme tb hb] at heq; simp at heq; exact (hne heq).elim
      · exact h.uniq a b ta tb (hoth a ta ha hat) (hoth b tb hb hbt) hne heq

/-- a step of an open transaction between calls (`get`, `set`, `scan`): only fields that no
invariant reads change -/
theorem Inv.activeStep {c : SnapCfg} {s : St} (h : Inv c s) (tid : Nat) (t t' : Txn)
    (ht : s.thr tid = some t) (hpc : t.pc = .active) (e1 : t'.pc = .active) (e2 : t'.commitTs = t.commitTs)
    (e3 : t'.began = t.began) (e4 : t'.readTs = t.readTs) : Inv c (setT s tid t') := by
  have hti := h.ti tid t ht
  have hp : t.commitTs = 0 ∧ t.began = true := by
    have := hti.pc; rw [hpc] at this; simpa [PcInv] using this
  refine h.localStep tid t t' ht (setT_thr s tid t') rfl rfl rfl rfl e2 (fun w => by rw [hpc]; simp) ?_
  refine ⟨fun hb => ?_, ?_⟩
  · rw [e4]; exact hti.began (e3 ▸ hb)
  · rw [e1]; simp only [PcInv]; rw [e2, e3]; exact hp

theorem HasKind.spawn {s s' : St} {w : Nat} {k : WM.Kind} (se : WM.SpawnEff s.tm s'.tm w k) :
    ∀ x K, HasKind s x K → HasKind s' x K := by
  intro x K ⟨wt, hx, hK⟩
  have : x ≠ w := fun e => by subst e; rw [se.free] at hx; cases hx
  exact ⟨wt, by rw [se.oth x this]; exact hx, hK⟩

/-- a thread enters `txnMark.WaitForMark` or `txnMark.Done` -/
theorem Inv.enterTxn {c : SnapCfg} (hcf : c.wm.countsFirst = true) {s s' : St} (h : Inv c s) (tid : Nat) (t t' : Txn) (call : Call)
    (ht : s.thr tid = some t)
    (hthr : ∀ x, s'.thr x = if x = tid then some t' else s.thr x)
    (hnk : call.kind.isBegin = false)
    (hws : WM.step c.wm false s.tm (call.act s.wfresh) = some s'.tm)
    (e2 : s'.locked = s.locked) (e3 : s'.store = s.store) (e4 : s'.nextTs = s.nextTs)
    (hts : t'.commitTs = t.commitTs)
    (hnb : ∀ w, t.pc ≠ .call .txn w .cRecord)
    (hself : WM.SpawnEff s.tm s'.tm s.wfresh call.kind → TI s' tid t') : Inv c s' := by
  have se := WM.spawn_eff c.wm false s.tm s'.tm s.wfresh call hws
  have hb : s'.tm.sectionBusy = s.tm.sectionBusy := by rw [se.busy, hnk]; simp
  refine h.update tid t t' ht hthr ?_ (by rw [se.du]; exact Nat.le_refl _) (fun _ _ hx => by rw [e2]; exact hx)
    (HasKind.spawn se) (fun _ _ _ _ _ => by rw [se.dec]) (fun _ => by rw [se.cnt]; exact Nat.le_refl _)
    (fun _ he => by rw [e3]; exact he) (hself se) ?_ (by rw [se.last, e4]; exact h.next)
    (fun j hj => by rw [se.dec]; exact h.fresh j (by omega)) (Or.inl ⟨hts, e4⟩)
  · exact WM.spawn_reach c.wm hcf s.tm s'.tm s.wfresh call hnk h.tmR hws
  · intro hbusy
    rw [hb] at hbusy
    obtain ⟨x, tx, w, wt, hx, hpc, hw, hst⟩ := h.busy hbusy
    have hxt : x ≠ tid := fun e => by subst e; rw [ht] at hx; cases hx; exact hnb w hpc
    have hww : w ≠ s.wfresh := fun e => by subst e; rw [se.free] at hw; cases hw
    exact ⟨x, tx, w, wt, by rw [hthr, if_neg hxt]; exact hx, hpc, by rw [se.oth w hww]; exact hw, hst⟩

/-- the three shapes of a thread inside a `txnMark` call -/
theorem PcInv.callKind {s : St} {tid : Nat} {t : Txn} {w : Nat} {k : Pc}
    (h : PcInv s tid t (.call .txn w k)) :
    (k = .active ∧ t.commitTs = 0 ∧ HasKind s w (.wait t.readTs)) ∨
    (k = .cRecord ∧ s.locked = some tid ∧ Pending s t.commitTs ∧ HasKind s w (.begin t.commitTs)) ∨
    (k = .dDoneRead ∧ t.commitTs ≠ 0 ∧ AllApplied s t ∧ HasKind s w (.done t.commitTs)) := by
  cases k <;> simp only [PcInv] at h <;> first | exact h.elim | skip
  · exact Or.inl ⟨rfl, h⟩
  · exact Or.inr (Or.inl ⟨rfl, h⟩)
  · exact Or.inr (Or.inr ⟨rfl, h⟩)

/-- one micro-step inside a `txnMark` call -/
theorem Inv.tmRun {c : SnapCfg} (hcf : c.wm.countsFirst = true) {s : St} (h : Inv c s) (tid : Nat) (t : Txn)
    (w : Nat) (k : Pc) (ws : WM.St) (ht : s.thr tid = some t) (hpc : t.pc = .call .txn w k)
    (hws : WM.step c.wm false s.tm (.run w) = some ws) : Inv c { s with tm := ws } := by
  obtain ⟨hreach, wt, hw, e⟩ := WM.run_eff c.wm hcf s.tm ws w h.tmR hws
  · have hp := (h.ti tid t ht).pc
    rw [hpc] at hp
    have hck := hp.callKind
    -- the kind of the stepping call record
    have hK : ∀ K, HasKind s w K → wt.kind = K := by
      intro K ⟨wt', h1, h2⟩; rw [hw] at h1; cases h1; exact h2
    have hkind : ∀ x K, HasKind s x K → HasKind { s with tm := ws } x K := by
      intro x K ⟨wx, h1, h2⟩
      by_cases hxw : x = w
      · subst hxw
        obtain ⟨t', h3, h4, _, _⟩ := e.self
        rw [hw] at h1; cases h1
        exact ⟨t', h3, h4.trans h2⟩
      · obtain ⟨tx', h3, h4, _⟩ := e.oth x wx hxw h1
        exact ⟨tx', h3, h4.trans h2⟩
    -- a `Done` decrement belongs to the stepping thread's own timestamp
    have hdone : ∀ j, wt.kind = .done j → j = t.commitTs ∧ t.commitTs ≠ 0 := by
      intro j hj
      rcases hck with ⟨_, _, hk⟩ | ⟨_, _, _, hk⟩ | ⟨_, hne, _, hk⟩
      · rw [hK _ hk] at hj; cases hj
      · rw [hK _ hk] at hj; cases hj
      · rw [hK _ hk] at hj; cases hj; exact ⟨rfl, hne⟩
    refine h.update (s' := { s with tm := ws }) tid t t ht (fun x => by
        by_cases hx : x = tid
        · subst hx; simp [ht]
        · simp [hx]) ?_ e.du (fun _ _ hx => hx) hkind ?_ e.cntMono (fun _ he => he) ?_ ?_ ?_ ?_
      (Or.inl ⟨rfl, rfl⟩)
    · exact hreach
    · intro x tx hxt hx hpend
      apply e.decEq
      intro hj
      obtain ⟨h1, h2⟩ := hdone _ hj
      exact hxt (h.uniq x tid tx t hx ht (h1 ▸ h2) h1)
    · refine (h.ti tid t ht).frame e.du (fun hx => hx) hkind ?_ e.cntMono (fun _ he => he)
      intro hpend
      apply e.decEq
      intro hj
      rcases hck with ⟨hk, _, _⟩ | ⟨_, _, _, hk⟩ | ⟨hk, _, _, _⟩
      · rw [hpc, hk] at hpend; simp [pendingPc] at hpend
      · rw [hK _ hk] at hj; cases hj
      · rw [hpc, hk] at hpend; simp [pendingPc] at hpend
    · intro hb
      have hb0 : s.tm.sectionBusy = true := by
        rcases e.busy with h1 | h1
        · rw [← h1]; exact hb
        · rw [h1] at hb; cases hb
      obtain ⟨x, tx, w0, wt0, hx, hpcx, hw0, hst⟩ := h.busy hb0
      by_cases hww : w0 = w
      · subst hww
        obtain rfl : wt = wt0 := by rw [hw] at hw0; exact Option.some.inj hw0
        obtain ⟨t', h3, _, _, h5⟩ := e.self
        have hbeg : wt.kind.isBegin = true := by
          have hpx := (h.ti x tx hx).pc
          rw [hpcx] at hpx
          obtain ⟨_, _, ⟨wt1, h6, h7⟩⟩ : s.locked = some x ∧ Pending s tx.commitTs ∧ HasKind s w0 (.begin tx.commitTs) := by
            simpa [PcInv] using hpx
          rw [hw] at h6; cases h6; rw [h7]; rfl
        by_cases h3' : wt.stage = 3
        · have := e.busyEnd hbeg h3'
          rw [this] at hb; cases hb
        · exact ⟨x, tx, w0, t', hx, hpcx, h3, by omega⟩
      · obtain ⟨tx', h3, _, h4⟩ := e.oth w0 wt0 hww hw0
        exact ⟨x, tx, w0, tx', hx, hpcx, h3, by rw [h4]; exact hst⟩
    · show ws.lastIndex < s.nextTs
      rcases e.last with h1 | ⟨i, h1, h2⟩
      · rw [h1]; exact h.next
      · rw [h2]
        rcases hck with ⟨_, _, hk⟩ | ⟨_, _, _, hk⟩ | ⟨_, _, _, hk⟩
        · rw [hK _ hk] at h1; cases h1
        · rw [hK _ hk] at h1; cases h1; exact h.tsLt tid t ht
        · rw [hK _ hk] at h1; cases h1
    · intro j hj
      show ws.nDoneDec j = 0
      rw [e.decEq j]
      · exact h.fresh j hj
      · intro hkj
        obtain ⟨h1, _⟩ := hdone j hkj
        have := h.tsLt tid t ht
        change s.nextTs ≤ j at hj
        omega

/-- two threads inside the critical section of `newCommitTs` are the same thread -/
theorem Inv.mutex {c : SnapCfg} {s : St} (h : Inv c s) {a b : Nat} {ta tb : Txn} (ha : s.thr a = some ta)
    (hb : s.thr b = some tb) (la : lockedPc ta.pc = true) (lb : lockedPc tb.pc = true) : a = b := by
  have h1 := (h.ti a ta ha).pc.locked la
  have h2 := (h.ti b tb hb).pc.locked lb
  rw [h1] at h2; cases h2; rfl

/-- `ts := nextTxnTs.Add(1) - 1` and the entry into `txnMark.Begin(ts)`: the usage contract of the
watermark holds at this point because the thread owns the oracle mutex -/
theorem Inv.assign {c : SnapCfg} (hcf : c.wm.countsFirst = true) {s s' : St} (h : Inv c s) (tid : Nat) (t : Txn)
    (ht : s.thr tid = some t) (hpc : t.pc = .cAssign)
    (hthr : ∀ x, s'.thr x = if x = tid then
      some { t with commitTs := s.nextTs, pc := .call .txn s.wfresh .cRecord } else s.thr x)
    (hws : WM.step c.wm false s.tm (.begin s.wfresh s.nextTs) = some s'.tm)
    (e2 : s'.locked = s.locked) (e3 : s'.store = s.store) (e4 : s'.nextTs = s.nextTs + 1) : Inv c s' := by
  have se : WM.SpawnEff s.tm s'.tm s.wfresh (.begin s.nextTs) :=
    WM.spawn_eff c.wm false s.tm s'.tm s.wfresh (Call.begin s.nextTs) hws
  have hp : t.commitTs = 0 ∧ s.locked = some tid := by
    have := (h.ti tid t ht).pc; rw [hpc] at this; simpa [PcInv] using this
  have hnotbusy : s.tm.sectionBusy = false := by
    cases hb : s.tm.sectionBusy with
    | false => rfl
    | true =>
      obtain ⟨x, tx, w, wt, hx, hpcx, _, _⟩ := h.busy hb
      have : x = tid := h.mutex hx ht (by rw [hpcx]; rfl) (by rw [hpc]; rfl)
      subst this; rw [ht] at hx; cases hx; rw [hpc] at hpcx; cases hpcx
  have hpos := nextTs_pos h
  refine h.update tid t _ ht hthr ?_ (by rw [se.du]; exact Nat.le_refl _) (fun _ _ hx => by rw [e2]; exact hx)
    (HasKind.spawn se) (fun _ _ _ _ _ => by rw [se.dec]) (fun _ => by rw [se.cnt]; exact Nat.le_refl _)
    (fun _ he => by rw [e3]; exact he) ?_ ?_ (by rw [se.last, e4]; have := h.next; omega)
    (fun j hj => by rw [se.dec]; exact h.fresh j (by omega)) (Or.inr ⟨hp.1, rfl, e4⟩)
  · exact WM.begin_reach c.wm hcf s.tm s'.tm s.wfresh s.nextTs hpos hnotbusy h.next h.tmR hws
  · refine ⟨fun hb => ?_, ?_⟩
    · have := (h.ti tid t ht).began hb
      rw [se.du]; exact this
    · simp only [PcInv]
      refine ⟨by rw [e2]; exact hp.2, ⟨by omega, ?_⟩, ⟨_, se.self, rfl⟩⟩
      rw [se.dec]; exact h.fresh _ (Nat.le_refl _)
  · intro _
    exact ⟨tid, _, s.wfresh, _, by rw [hthr, if_pos rfl], rfl, se.self, by simp⟩

theorem thrDone_begin_stage (c : WM.WMCfg) (wt : WM.Thr) (i : Nat) (hk : wt.kind = .begin i)
    (hd : thrDone c wt = true) : 4 ≤ wt.stage := by
  unfold thrDone at hd
  rw [hk] at hd
  simp only [Option.isNone_iff_eq_none] at hd
  exact WM.begin_done_stage c i wt.stage hd

theorem thrDone_wait (c : WM.WMCfg) (wt : WM.Thr) (i : Nat) (hk : wt.kind = .wait i)
    (hd : thrDone c wt = true) : wt.returned = true := by
  unfold thrDone at hd
  rw [hk] at hd
  exact hd

/-- a watermark call returns -/
theorem Inv.callReturn {c : SnapCfg} (hcf : c.wm.countsFirst = true) {s : St} (h : Inv c s) (tid : Nat) (t : Txn)
    (m : Mark) (w : Nat) (k : Pc) (ht : s.thr tid = some t) (hpc : t.pc = .call m w k)
    (hdone : callDone c.wm (markOf s m) w = true) :
    Inv c (setT s tid { t with pc := k, began := t.began || decide (k = .active),
                               result := if k = .dDoneRead then .ok else t.result }) := by
  have hti := h.ti tid t ht
  have hp := hti.pc
  rw [hpc] at hp
  cases m with
  | read =>
    have hnb : ∀ w', t.pc ≠ .call .txn w' .cRecord := fun w' => by rw [hpc]; simp
    cases k <;> simp only [PcInv] at hp <;> first | exact hp.elim | skip
    · -- rdWait
      refine h.localStep tid t _ ht (setT_thr _ _ _) rfl rfl rfl rfl rfl hnb ⟨fun hb => ?_, ?_⟩
      · exact hti.began (by simpa using hb)
      · simpa [PcInv] using hp
    · -- cCleanup
      refine h.localStep tid t _ ht (setT_thr _ _ _) rfl rfl rfl rfl rfl hnb ⟨fun hb => ?_, ?_⟩
      · exact hti.began (by simpa using hb)
      · simpa [PcInv, setT] using hp
    · -- finished
      refine h.localStep tid t _ ht (setT_thr _ _ _) rfl rfl rfl rfl rfl hnb ⟨fun hb => ?_, ?_⟩
      · exact hti.began (by simpa using hb)
      · simp only [PcInv]; exact hp
  | txn =>
    rcases hp.callKind with ⟨hk, h0, ⟨wt, hw, hkind⟩⟩ | ⟨hk, hl, hpend, ⟨wt, hw, hkind⟩⟩ | ⟨hk, hne, hall, _⟩
    · -- WaitForMark returned
      subst hk
      have hnb : ∀ w', t.pc ≠ .call .txn w' .cRecord := fun w' => by rw [hpc]; simp
      have hret : wt.returned = true :=
        thrDone_wait c.wm wt _ hkind (by simpa only [callDone, markOf, hw] using hdone)
      have hle := WM.wait_returned_le s.tm h.tmR w wt _ hw hkind hret
      refine h.localStep tid t _ ht (setT_thr _ _ _) rfl rfl rfl rfl rfl hnb ⟨fun _ => hle, ?_⟩
      simp [PcInv, h0]
    · -- txnMark.Begin returned
      subst hk
      have hdn : thrDone c.wm wt = true := by simpa only [callDone, markOf, hw] using hdone
      have hstage := thrDone_begin_stage c.wm wt _ hkind hdn
      have hcounted := WM.begun_counted s.tm h.tmR w wt _ hw hkind (by omega)
      refine h.update tid t _ ht (setT_thr _ _ _) h.tmR (Nat.le_refl _) (fun _ _ hx => hx)
        (fun _ _ hx => hx) (fun _ _ _ _ _ => rfl) (fun _ => Nat.le_refl _) (fun _ he => he)
        ⟨fun hb => hti.began (by simpa using hb), ?_⟩ ?_ h.next h.fresh (Or.inl ⟨rfl, rfl⟩)
      · simp only [PcInv]; exact ⟨hl, hpend, hcounted⟩
      · intro hb
        obtain ⟨x, tx, w0, wt0, hx, hpcx, hw0, hst⟩ := h.busy hb
        have hxt : x ≠ tid := by
          intro e; subst e
          rw [ht] at hx; cases hx
          rw [hpc] at hpcx; cases hpcx
          rw [hw] at hw0; cases hw0
          omega
        exact ⟨x, tx, w0, wt0, by rw [setT_thr, if_neg hxt]; exact hx, hpcx, hw0, hst⟩
    · -- txnMark.Done returned
      subst hk
      have hnb : ∀ w', t.pc ≠ .call .txn w' .cRecord := fun w' => by rw [hpc]; simp
      refine h.localStep tid t _ ht (setT_thr _ _ _) rfl rfl rfl rfl rfl hnb ⟨fun hb => ?_, ?_⟩
      · exact hti.began (by simpa using hb)
      · simp only [PcInv]; exact fun _ => hall

theorem enter_read_shape {c : SnapCfg} {s s' : St} {tid : Nat} {t : Txn} {call : Call} {k : Pc}
    (h : enter c s tid t .read call k = some s') :
    (∀ x, s'.thr x = if x = tid then some { t with pc := .call .read s.wfresh k } else s.thr x) ∧
    s'.tm = s.tm ∧ s'.locked = s.locked ∧ s'.store = s.store ∧ s'.nextTs = s.nextTs := by
  unfold enter at h
  split at h
  · cases h
    exact ⟨fun x => by simp only [setMark, setT, upd], rfl, rfl, rfl, rfl⟩
  · cases h

theorem enter_txn_shape {c : SnapCfg} {s s' : St} {tid : Nat} {t : Txn} {call : Call} {k : Pc}
    (h : enter c s tid t .txn call k = some s') :
    (∀ x, s'.thr x = if x = tid then some { t with pc := .call .txn s.wfresh k } else s.thr x) ∧
    WM.step c.wm false s.tm (call.act s.wfresh) = some s'.tm ∧
    s'.locked = s.locked ∧ s'.store = s.store ∧ s'.nextTs = s.nextTs := by
  unfold enter at h
  split at h
  · rename_i ws hws
    cases h
    exact ⟨fun x => by simp only [setMark, setT, upd], hws, rfl, rfl, rfl⟩
  · cases h

/-- `oracle.doneRead` as a step: the thread moves to `k` or into `readMark.Done` -/
theorem Inv.doneReadStep {c : SnapCfg} {s s' : St} (h : Inv c s) (tid : Nat) (t : Txn) (k : Pc)
    (ht : s.thr tid = some t) (hnb : ∀ w, t.pc ≠ .call .txn w .cRecord)
    (hs : doDoneRead c s tid t k = some s')
    (hk1 : ∀ s1 t1, s1.tm = s.tm → s1.locked = s.locked → s1.store = s.store → t1.commitTs = t.commitTs →
      t1.writes = t.writes → PcInv s tid t t.pc → PcInv s1 tid t1 k)
    (hk2 : ∀ s1 t1 w, s1.tm = s.tm → s1.locked = s.locked → s1.store = s.store → t1.commitTs = t.commitTs →
      t1.writes = t.writes → PcInv s tid t t.pc → PcInv s1 tid t1 (.call .read w k)) : Inv c s' := by
  have hti := h.ti tid t ht
  unfold doDoneRead at hs
  split at hs
  · cases hs
    exact h.localStep tid t _ ht (setT_thr _ _ _) rfl rfl rfl rfl rfl hnb
      ⟨fun hb => hti.began hb, hk1 _ _ rfl rfl rfl rfl rfl hti.pc⟩
  · obtain ⟨e0, e1, e2, e3, e4⟩ := enter_read_shape hs
    exact h.localStep tid t _ ht e0 e1 e2 e3 e4 rfl hnb
      ⟨fun hb => by rw [e1]; exact hti.began hb, hk2 _ _ _ e1 e2 e3 rfl rfl hti.pc⟩

theorem mem_of_getElem?_none {α : Type} (l : List α) (i : Nat) (hn : l[i]? = none) (x : α) (hx : x ∈ l) :
    ∃ j, j < i ∧ l[j]? = some x := by
  obtain ⟨j, hj, hjx⟩ := List.mem_iff_getElem.mp hx
  have : l.length ≤ i := List.getElem?_eq_none_iff.mp hn
  exact ⟨j, by omega, by simp [hj, hjx]⟩

theorem Inv.step {c : SnapCfg} (hc : c.Good) {s s' : St} {a : Act} (h : Inv c s)
    (hs : Snap.step c s a = some s') : Inv c s' := by
  obtain ⟨hcf, hlk, hda, hrw, _⟩ := hc
  cases a with
  | spawn tid u =>
    simp only [Snap.step] at hs
    split at hs
    · rename_i hfree; cases hs; exact h.spawnStep tid u hfree
    · cases hs
  | get tid k =>
    simp only [Snap.step] at hs
    cases ht : s.thr tid with
    | none => simp [ht] at hs
    | some t =>
      simp only [ht] at hs
      split at hs
      · rename_i hpc
        split at hs
        · cases hs; exact h
        · cases hs; exact h.activeStep tid t _ ht hpc hpc rfl rfl rfl
      · cases hs
  | scan tid =>
    simp only [Snap.step] at hs
    cases ht : s.thr tid with
    | none => simp [ht] at hs
    | some t =>
      simp only [ht] at hs
      split at hs
      · rename_i hpc; cases hs; exact h.activeStep tid t _ ht hpc hpc rfl rfl rfl
      · cases hs
  | set tid k v =>
    simp only [Snap.step] at hs
    cases ht : s.thr tid with
    | none => simp [ht] at hs
    | some t =>
      simp only [ht] at hs
      split at hs
      · rename_i hpc; cases hs; exact h.activeStep tid t _ ht hpc.1 hpc.1 rfl rfl rfl
      · cases hs
  | commit tid =>
    simp only [Snap.step] at hs
    cases ht : s.thr tid with
    | none => simp [ht] at hs
    | some t =>
      simp only [ht] at hs
      have hti := h.ti tid t ht
      split at hs
      · rename_i hpc
        have hp : t.commitTs = 0 ∧ t.began = true := by
          have := hti.pc; rw [hpc] at this; simpa [PcInv] using this
        have hnb : ∀ w, t.pc ≠ .call .txn w .cRecord := fun w => by rw [hpc]; simp
        split at hs
        · cases hs
          exact h.localStep tid t _ ht (setT_thr _ _ _) rfl rfl rfl rfl rfl hnb
            ⟨fun hb => hti.began hb, by simp [PcInv, hp.1]⟩
        · cases hs
          exact h.localStep tid t _ ht (setT_thr _ _ _) rfl rfl rfl rfl rfl hnb
            ⟨fun hb => hti.began hb, by simp [PcInv, hp.1]⟩
      · cases hs
  | discard tid =>
    simp only [Snap.step] at hs
    cases ht : s.thr tid with
    | none => simp [ht] at hs
    | some t =>
      simp only [ht] at hs
      have hti := h.ti tid t ht
      split at hs
      · rename_i hpc
        have hp : t.commitTs = 0 ∧ t.began = true := by
          have := hti.pc; rw [hpc] at this; simpa [PcInv] using this
        have hnb : ∀ w, t.pc ≠ .call .txn w .cRecord := fun w => by rw [hpc]; simp
        cases hs
        exact h.localStep tid t _ ht (setT_thr _ _ _) rfl rfl rfl rfl rfl hnb
          ⟨fun hb => hti.began hb, by simp [PcInv, hp.1]⟩
      · cases hs
  | run tid =>
    simp only [Snap.step] at hs
    cases ht : s.thr tid with
    | none => simp [ht] at hs
    | some t =>
      simp only [ht] at hs
      have hti := h.ti tid t ht
      have hp := hti.pc
      cases hpc : t.pc with
      | rdLoadNext =>
        rw [hpc] at hp
        have hnb : ∀ w, t.pc ≠ .call .txn w .cRecord := fun w => by rw [hpc]; simp
        simp only [stepThr, hpc] at hs
        cases hs
        exact h.localStep tid t _ ht (setT_thr _ _ _) rfl rfl rfl rfl rfl hnb
          ⟨fun hb => hti.began hb, by simpa [PcInv] using hp⟩
      | rdLoadLast x =>
        rw [hpc] at hp
        have hp' : t.commitTs = 0 ∧ t.began = false := by simpa [PcInv] using hp
        have hnb : ∀ w, t.pc ≠ .call .txn w .cRecord := fun w => by rw [hpc]; simp
        simp only [stepThr, hpc] at hs
        generalize (if c.readClamp = true ∧ s.tm.lastIndex < x then s.tm.lastIndex else x) = r at hs
        split at hs
        · try simp only [hcf, if_true] at hs
          obtain ⟨e0, e1, e2, e3, e4⟩ := enter_read_shape hs
          refine h.localStep tid t _ ht e0 e1 e2 e3 e4 rfl hnb ⟨fun hb => ?_, ?_⟩
          · simp [hp'.2] at hb
          · simp [PcInv, hp'.1]
        · obtain ⟨e0, e1, e2, e3, e4⟩ := enter_read_shape hs
          refine h.localStep tid t _ ht e0 e1 e2 e3 e4 rfl hnb ⟨fun hb => ?_, ?_⟩
          · simp [hp'.2] at hb
          · simp [PcInv, hp'.1]
      | rdWait =>
        rw [hpc] at hp
        have hp' : t.commitTs = 0 := by simpa [PcInv] using hp
        have hnb : ∀ w, t.pc ≠ .call .txn w .cRecord := fun w => by rw [hpc]; simp
        simp only [stepThr, hpc, hrw, if_true] at hs
        obtain ⟨e0, hws, e2, e3, e4⟩ := enter_txn_shape hs
        refine h.enterTxn hcf tid t _ (Call.wait t.readTs) ht e0 rfl hws e2 e3 e4 rfl hnb (fun se => ⟨fun hb => ?_, ?_⟩)
        · rw [se.du]; exact hti.began hb
        · simp only [PcInv]; exact ⟨hp', _, se.self, rfl⟩
      | active => simp only [stepThr, hpc] at hs; cases hs
      | cLock =>
        rw [hpc] at hp
        have hp' : t.commitTs = 0 := by simpa [PcInv] using hp
        have hnb : ∀ w, t.pc ≠ .call .txn w .cRecord := fun w => by rw [hpc]; simp
        simp only [stepThr, hpc] at hs
        split at hs
        · cases hs
        · rename_i hfree
          have hnone : s.locked = none := by
            cases hl : s.locked with
            | none => rfl
            | some x => exact (hfree ⟨hlk, by simp [hl]⟩).elim
          split at hs
          · cases hs
            exact h.localStep tid t _ ht (setT_thr _ _ _) rfl rfl rfl rfl rfl hnb
              ⟨fun hb => hti.began hb, by simp [PcInv, hp']⟩
          · cases hs
            refine h.update tid t { t with pc := .cDoneRead } ht (fun x => by simp only [setT, upd]) h.tmR (Nat.le_refl _)
              (fun x _ hx => by rw [hnone] at hx; cases hx) (fun _ _ hx => hx) (fun _ _ _ _ _ => rfl)
              (fun _ => Nat.le_refl _) (fun _ he => he) ⟨fun hb => hti.began hb, ?_⟩ ?_ h.next h.fresh
              (Or.inl ⟨rfl, rfl⟩)
            · simp [PcInv, hp']
            · refine BusyOk.keep h.busy rfl ?_
              intro x tx w hx hpcx
              by_cases hxt : x = tid
              · subst hxt; rw [ht] at hx; cases hx; exact (hnb w hpcx).elim
              · simp only [setT, upd, if_neg hxt]; exact hx
      | cDoneRead =>
        have hnb : ∀ w, t.pc ≠ .call .txn w .cRecord := fun w => by rw [hpc]; simp
        simp only [stepThr, hpc] at hs
        refine h.doneReadStep tid t .cCleanup ht hnb hs ?_ ?_
        · intro s1 t1 e1 e2 _ e4 _ hp; rw [hpc] at hp
          simp only [PcInv] at hp ⊢; rw [e2, e4]; exact hp
        · intro s1 t1 w e1 e2 _ e4 _ hp; rw [hpc] at hp
          simp only [PcInv] at hp ⊢; rw [e2, e4]; exact hp
      | cCleanup =>
        rw [hpc] at hp
        have hp' : t.commitTs = 0 ∧ s.locked = some tid := by simpa [PcInv] using hp
        have hnb : ∀ w, t.pc ≠ .call .txn w .cRecord := fun w => by rw [hpc]; simp
        simp only [stepThr, hpc] at hs
        cases hs
        have hcl : (cleanup s).tm = s.tm ∧ (cleanup s).locked = s.locked ∧ (cleanup s).store = s.store ∧
            (cleanup s).nextTs = s.nextTs ∧ (cleanup s).thr = s.thr := by
          unfold cleanup; simp only; split <;> simp
        refine h.localStep tid t { t with pc := .cAssign } ht (fun x => by simp only [setT, upd, hcl.2.2.2.2]) hcl.1 hcl.2.1 hcl.2.2.1
          hcl.2.2.2.1 rfl hnb ⟨fun hb => ?_, ?_⟩
        · show t.readTs ≤ (cleanup s).tm.doneUntil; rw [hcl.1]; exact hti.began hb
        · simp only [PcInv]; exact ⟨hp'.1, by show (cleanup s).locked = _; rw [hcl.2.1]; exact hp'.2⟩
      | cAssign =>
        simp only [stepThr, hpc] at hs
        split at hs
        · rename_i s1 hs1
          cases hs
          obtain ⟨e0, hws, e2, e3, _⟩ := enter_txn_shape hs1
          exact h.assign hcf tid t ht hpc e0 hws e2 e3 rfl
        · cases hs
      | cRecord =>
        rw [hpc] at hp
        have hp' : s.locked = some tid ∧ Pending s t.commitTs ∧ 1 ≤ s.tm.nCounted t.commitTs := by
          simpa [PcInv] using hp
        have hnb : ∀ w, t.pc ≠ .call .txn w .cRecord := fun w => by rw [hpc]; simp
        simp only [stepThr, hpc] at hs
        cases hs
        refine h.update tid t { t with pc := afterRecord c } ht (fun x => by simp only [setT, upd]) h.tmR (Nat.le_refl _)
          (fun x hxt hx => by rw [hp'.1] at hx; cases hx; exact (hxt rfl).elim) (fun _ _ hx => hx)
          (fun _ _ _ _ _ => rfl) (fun _ => Nat.le_refl _) (fun _ he => he) ⟨fun hb => hti.began hb, ?_⟩ ?_
          h.next h.fresh (Or.inl ⟨rfl, rfl⟩)
        · simp only [afterRecord, hda, if_true, PcInv]
          exact ⟨hp'.2.1, hp'.2.2, fun j kv hj _ => by omega⟩
        · refine BusyOk.keep h.busy rfl ?_
          intro x tx w hx hpcx
          by_cases hxt : x = tid
          · subst hxt; rw [ht] at hx; cases hx; exact (hnb w hpcx).elim
          · simp only [setT, upd, if_neg hxt]; exact hx
      | cApply i =>
        rw [hpc] at hp
        have hp' : Pending s t.commitTs ∧ 1 ≤ s.tm.nCounted t.commitTs ∧ PrefixApplied s t i := by
          simpa [PcInv] using hp
        have hnb : ∀ w, t.pc ≠ .call .txn w .cRecord := fun w => by rw [hpc]; simp
        simp only [stepThr, hpc] at hs
        split at hs
        · rename_i kv hkv
          cases hs
          refine h.update tid t { t with pc := .cApply (i + 1) } ht (fun x => by simp only [setT, upd]) h.tmR (Nat.le_refl _)
            (fun _ _ hx => hx) (fun _ _ hx => hx) (fun _ _ _ _ _ => rfl) (fun _ => Nat.le_refl _)
            (fun _ he => List.mem_cons_of_mem _ he) ⟨fun hb => hti.began hb, ?_⟩ ?_ h.next h.fresh
            (Or.inl ⟨rfl, rfl⟩)
          · simp only [PcInv]
            refine ⟨hp'.1, hp'.2.1, ?_⟩
            intro j kv' hj hkv'
            by_cases hji : j = i
            · subst hji
              have : kv' = kv := by
                have h1 : t.writes[j]? = some kv' := hkv'
                rw [hkv] at h1; exact (Option.some.inj h1).symm
              subst this
              exact List.mem_cons_self
            · exact List.mem_cons_of_mem _ (hp'.2.2 j kv' (by omega) hkv')
          · refine BusyOk.keep h.busy rfl ?_
            intro x tx w hx hpcx
            by_cases hxt : x = tid
            · subst hxt; rw [ht] at hx; cases hx; exact (hnb w hpcx).elim
            · simp only [setT, upd, if_neg hxt]; exact hx
        · rename_i hnone
          cases hs
          refine h.localStep tid t _ ht (setT_thr _ _ _) rfl rfl rfl rfl rfl hnb ⟨fun hb => hti.began hb, ?_⟩
          simp only [afterApply, hda, if_true, PcInv]
          refine ⟨hp'.1, hp'.2.1, ?_⟩
          intro kv hkv
          obtain ⟨j, hj, hjk⟩ := mem_of_getElem?_none t.writes i hnone kv hkv
          exact hp'.2.2 j kv hj hjk
      | cDone =>
        rw [hpc] at hp
        have hp' : Pending s t.commitTs ∧ 1 ≤ s.tm.nCounted t.commitTs ∧ AllApplied s t := by
          simpa [PcInv] using hp
        have hnb : ∀ w, t.pc ≠ .call .txn w .cRecord := fun w => by rw [hpc]; simp
        simp only [stepThr, hpc] at hs
        obtain ⟨e0, hws, e2, e3, e4⟩ := enter_txn_shape hs
        refine h.enterTxn hcf tid t _ (Call.done t.commitTs) ht e0 rfl hws e2 e3 e4 rfl hnb (fun se => ⟨fun hb => ?_, ?_⟩)
        · rw [se.du]; exact hti.began hb
        · simp only [afterDone, hda, if_true, PcInv]
          exact ⟨hp'.1.1, fun kv hkv => by rw [e3]; exact hp'.2.2 kv hkv, _, se.self, rfl⟩
      | dDoneRead =>
        have hnb : ∀ w, t.pc ≠ .call .txn w .cRecord := fun w => by rw [hpc]; simp
        simp only [stepThr, hpc] at hs
        refine h.doneReadStep tid t .finished ht hnb hs ?_ ?_
        · intro s1 t1 _ _ e3 e4 e5 hp; rw [hpc] at hp
          simp only [PcInv, AllApplied] at hp ⊢; rw [e3, e4, e5]; exact hp
        · intro s1 t1 w _ _ e3 e4 e5 hp; rw [hpc] at hp
          simp only [PcInv, AllApplied] at hp ⊢; rw [e3, e4, e5]; exact hp
      | finished => simp only [stepThr, hpc] at hs; cases hs
      | call m w k =>
        simp only [stepThr, hpc] at hs
        split at hs
        · rename_i hdone
          cases hs
          exact h.callReturn hcf tid t m w k ht hpc hdone
        · split at hs
          · rename_i ws hws
            cases hs
            cases m with
            | txn => exact h.tmRun hcf tid t w k ws ht hpc hws
            | read =>
              exact ⟨h.tmR, fun x tx hx => (h.ti x tx hx).frame (Nat.le_refl _) (fun hx => hx) (fun _ _ hx => hx)
                (fun _ => rfl) (fun _ => Nat.le_refl _) (fun _ he => he), h.busy, h.next, h.tsLt, h.uniq,
                h.fresh⟩
          · cases hs

theorem Inv.reachable {c : SnapCfg} (hc : c.Good) (s : St) (hr : Reachable (sys c) s) : Inv c s := by
  refine Reachable.invariant (S := sys c) (Inv c) ?_ ?_ s hr
  · rintro s0 ⟨n, store, rfl, _⟩; exact Inv.init c hc.2.2.2.2 n store
  · intro s0 a s1 ih hst; exact ih.step hc hst

end NoKV.Snap

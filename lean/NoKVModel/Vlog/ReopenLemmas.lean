/-
Reopen (= `reconcileManifest`) and the concurrent window of `rewrite`.
-/
import NoKVModel.Vlog.GcLemmas

namespace NoKV.Vlog

/-- `reconcileManifest` keeps the file of every pointer the map holds -/
def Tracked (s : St) : Prop := ∀ k w p, Visible s.lsm k w p → keeps s.man p.bucket p.fid = true

theorem readPtr_reopen {s : St} {p : Ptr} (h : keeps s.man p.bucket p.fid = true) :
    readPtr (reopen s).files p = readPtr s.files p := by
  simp only [reopen]
  apply readPtr_filter
  intro g _ hg
  obtain ⟨h1, h2⟩ := isFile_iff.mp hg
  rw [h1, h2]; exact h

theorem wf_reopen {s : St} (h : WF s) (ht : Tracked s) : WF (reopen s) := by
  intro k w p hv
  have hv' : Visible s.lsm k w p := hv
  obtain ⟨r, hr, h1, h2⟩ := h k w p hv'
  exact ⟨r, by rw [readPtr_reopen (ht k w p hv')]; exact hr, h1, h2⟩

theorem tracked_reopen {s : St} (ht : Tracked s) : Tracked (reopen s) := ht

theorem read_reopen {s : St} (ht : Tracked s) (k : Bytes) (v : Nat) : readKV (reopen s) k v = readKV s k v := by
  unfold readKV
  have hl : (reopen s).lsm = s.lsm := rfl
  rw [hl]
  cases hlk : lookup s.lsm k v with
  | none => rfl
  | some e =>
    simp only
    unfold resolve
    cases hv : e.v with
    | inl x d => rfl
    | ptr p =>
      simp only
      rw [readPtr_reopen (ht e.key e.ver p ⟨e, (lookup_some hlk).1, hv⟩)]

/-! ### the concurrent window -/

theorem exact_put_other (c : VCfg) (s : St) (k : Bytes) (ver : Nat) (val : Bytes) (del : Bool) (hh : Nat)
    (k' : Bytes) (w' : Nat) (hne : ¬ (k = k' ∧ ver = w')) :
    exact (put c s k ver val del hh).lsm k' w' = exact s.lsm k' w' := by
  have hi : ∀ x : LVal, isEnt k' w' ⟨k, ver, x⟩ = false := by
    intro x
    cases h : isEnt k' w' ⟨k, ver, x⟩ with
    | false => rfl
    | true => exact absurd (isEnt_iff.mp h) hne
  unfold put
  split
  · simp only [exact_cons, hi]; rfl
  · simp only [logHead, exact_cons, hi]; rfl

theorem ext_put (c : VCfg) (s : St) (k : Bytes) (ver : Nat) (val : Bytes) (del : Bool) (hh : Nat) :
    Ext s.files (put c s k ver val del hh).files := by
  unfold put
  split
  · exact Ext.refl _
  · exact (appendOne_ok c s.P s.files (bucketOf s.P hh) ⟨k, ver, val⟩).ext

theorem ext_orphan (c : VCfg) (s : St) (k : Bytes) (ver : Nat) (val : Bytes) (hh : Nat) :
    Ext s.files (orphan c s k ver val hh).files := by
  unfold orphan
  split
  · exact Ext.refl _
  · exact (appendOne_ok c s.P s.files (bucketOf s.P hh) ⟨k, ver, val⟩).ext

/-- the client calls of the window: writes whose (key, version) no selected record has -/
def Fresh (wb : List Rec) : Op → Prop
  | .put k ver _ _ _ => ∀ r, r ∈ wb → ¬ (k = r.key ∧ ver = r.ver)
  | .orphan _ _ _ _ => True
  | .gc _ _ => False

theorem livePre_apply {c : VCfg} {s : St} {b f : Nat} {wb : List Rec} (op : Op) (hf : Fresh wb op)
    (hl : ∀ r, r ∈ wb → LivePre s b f r) : ∀ r, r ∈ wb → LivePre (op.apply c s) b f r := by
  intro r hr
  obtain ⟨e, p, he, hp, hb, hfid, hread⟩ := hl r hr
  cases op with
  | put k ver val del hh =>
    refine ⟨e, p, ?_, hp, hb, hfid, ext_put c s k ver val del hh _ _ hread⟩
    simp only [Op.apply]
    rw [exact_put_other c s k ver val del hh r.key r.ver (hf r hr)]; exact he
  | orphan k ver val hh =>
    refine ⟨e, p, ?_, hp, hb, hfid, ext_orphan c s k ver val hh _ _ hread⟩
    simp only [Op.apply, orphan]
    split <;> exact he
  | gc b' f' => exact absurd hf (by simp [Fresh])

theorem livePre_run {c : VCfg} {s : St} {b f : Nat} {wb : List Rec} (mid : List Op) (hf : ∀ op, op ∈ mid → Fresh wb op)
    (hl : ∀ r, r ∈ wb → LivePre s b f r) : ∀ r, r ∈ wb → LivePre (run c s mid) b f r := by
  induction mid generalizing s with
  | nil => exact hl
  | cons op rest ih =>
    simp only [run, List.foldl_cons]
    exact ih (fun o ho => hf o (List.mem_cons_of_mem _ ho)) (livePre_apply op (hf op List.mem_cons_self) hl)

end NoKV.Vlog

/-
The versioned map, the well-formedness invariant (every visible pointer is readable and designates
a record of its own key and version), and the effect of client writes and of `rewrite` on it.
-/
import NoKVModel.Vlog.FileLemmas

namespace NoKV.Vlog

/-! ### the versioned map -/

theorem isEnt_iff {k : Bytes} {w : Nat} {e : LEnt} : isEnt k w e = true ↔ e.key = k ∧ e.ver = w := by
  simp [isEnt]

theorem exact_some {m : List LEnt} {k : Bytes} {w : Nat} {e : LEnt} (h : exact m k w = some e) :
    e ∈ m ∧ e.key = k ∧ e.ver = w := by
  unfold exact at h
  exact ⟨List.mem_of_find?_eq_some h, isEnt_iff.mp (List.find?_some h)⟩

theorem exact_cons (x : LEnt) (m : List LEnt) (k : Bytes) (w : Nat) :
    exact (x :: m) k w = if isEnt k w x then some x else exact m k w := by
  unfold exact
  rw [List.find?_cons]
  cases isEnt k w x <;> rfl

theorem exact_isSome_of_mem {m : List LEnt} {e : LEnt} (h : e ∈ m) : ∃ e', exact m e.key e.ver = some e' := by
  unfold exact
  cases hf : m.find? (isEnt e.key e.ver) with
  | some e' => exact ⟨e', rfl⟩
  | none =>
    have := List.find?_eq_none.mp hf e h
    simp [isEnt] at this

/-- some entry is stored under (k, w) -/
def Present (m : List LEnt) (k : Bytes) (w : Nat) : Prop := ∃ e, e ∈ m ∧ e.key = k ∧ e.ver = w

theorem verOf_le {m : List LEnt} {k : Bytes} {v u : Nat} (h : verOf m k v = some u) : u ≤ v ∧ Present m k u := by
  induction m generalizing u with
  | nil => simp [verOf] at h
  | cons e es ih =>
    simp only [verOf] at h
    by_cases hc : e.key = k ∧ e.ver ≤ v
    · simp only [hc, and_self, if_true] at h
      cases hr : verOf es k v with
      | none =>
        simp only [hr, Option.some.injEq] at h
        exact ⟨h ▸ hc.2, e, List.mem_cons_self, hc.1, h⟩
      | some w =>
        simp only [hr, Option.some.injEq] at h
        obtain ⟨h1, e', h2, h3, h4⟩ := ih hr
        by_cases hle : e.ver ≤ w
        · have : u = w := by rw [← h]; exact Nat.max_eq_right hle
          exact ⟨by omega, e', List.mem_cons_of_mem _ h2, h3, by omega⟩
        · have : u = e.ver := by rw [← h]; exact Nat.max_eq_left (by omega)
          exact ⟨by omega, e, List.mem_cons_self, hc.1, this.symm⟩
    · simp only [hc, if_false] at h
      obtain ⟨h1, e', h2, h3, h4⟩ := ih h
      exact ⟨h1, e', List.mem_cons_of_mem _ h2, h3, h4⟩

theorem verOf_ge {m : List LEnt} {k : Bytes} {v w : Nat} (hp : Present m k w) (hw : w ≤ v) :
    ∃ u, verOf m k v = some u ∧ w ≤ u := by
  induction m with
  | nil => obtain ⟨e, he, _⟩ := hp; cases he
  | cons x xs ih =>
    obtain ⟨e, he, hk, hv⟩ := hp
    simp only [verOf]
    rcases List.mem_cons.mp he with h | h
    · subst h
      have hc : e.key = k ∧ e.ver ≤ v := ⟨hk, by omega⟩
      simp only [hc, and_self, if_true]
      cases verOf xs k v with
      | none => exact ⟨e.ver, rfl, by omega⟩
      | some u => exact ⟨max e.ver u, rfl, by have := Nat.le_max_left e.ver u; omega⟩
    · obtain ⟨u, hu, hle⟩ := ih ⟨e, h, hk, hv⟩
      by_cases hc : x.key = k ∧ x.ver ≤ v
      · simp only [hc, and_self, if_true, hu]
        exact ⟨max x.ver u, rfl, by have := Nat.le_max_right x.ver u; omega⟩
      · simp only [hc, if_false]
        exact ⟨u, hu, hle⟩

/-- inserting under a (key, version) that is already stored does not change which version answers -/
theorem verOf_cons_present {m : List LEnt} {x : LEnt} (hp : Present m x.key x.ver) (k : Bytes) (v : Nat) :
    verOf (x :: m) k v = verOf m k v := by
  simp only [verOf]
  by_cases hc : x.key = k ∧ x.ver ≤ v
  · simp only [hc, and_self, if_true]
    obtain ⟨u, hu, hle⟩ := verOf_ge (hc.1 ▸ hp) hc.2
    simp only [hu]
    congr 1
    exact Nat.max_eq_right hle
  · simp only [hc, if_false]

theorem lookup_some {m : List LEnt} {k : Bytes} {v : Nat} {e : LEnt} (h : lookup m k v = some e) :
    exact m e.key e.ver = some e ∧ e.key = k ∧ e.ver ≤ v := by
  unfold lookup at h
  cases hv : verOf m k v with
  | none => simp [hv] at h
  | some w =>
    simp only [hv] at h
    obtain ⟨_, h2, h3⟩ := exact_some h
    have := (verOf_le hv).1
    exact ⟨by rw [h2, h3]; exact h, h2, by omega⟩

/-- an exact hit is what `lookup` at that very version returns -/
theorem lookup_of_exact {m : List LEnt} {k : Bytes} {w : Nat} {e : LEnt} (h : exact m k w = some e) :
    lookup m k w = some e := by
  obtain ⟨h1, h2, h3⟩ := exact_some h
  obtain ⟨u, hu, hle⟩ := verOf_ge (m := m) ⟨e, h1, h2, h3⟩ (Nat.le_refl w)
  have := (verOf_le hu).1
  have huw : u = w := by omega
  unfold lookup
  simp [hu, huw, h]

/-! ### invariant -/

/-- `p` is the pointer the map currently stores under (k, w) -/
def Visible (m : List LEnt) (k : Bytes) (w : Nat) (p : Ptr) : Prop :=
  ∃ e, exact m k w = some e ∧ e.v = .ptr p

/-- every pointer reachable from the map is readable and designates a record of that key and version -/
def WF (s : St) : Prop :=
  ∀ k w p, Visible s.lsm k w p → ∃ r, readPtr s.files p = some r ∧ r.key = k ∧ r.ver = w

theorem resolve_ext {fs fs' : List VFile} (he : Ext fs fs') {e : LEnt}
    (hr : ∀ p, e.v = .ptr p → ∃ r, readPtr fs p = some r) : resolve fs' e = resolve fs e := by
  unfold resolve
  cases hv : e.v with
  | inl v d => rfl
  | ptr p =>
    obtain ⟨r, hr⟩ := hr p hv
    simp [hr, he p r hr]

theorem wf_readable {s : St} (h : WF s) {k : Bytes} {w : Nat} {e : LEnt} (he : exact s.lsm k w = some e) :
    ∀ p, e.v = .ptr p → ∃ r, readPtr s.files p = some r := by
  intro p hp
  obtain ⟨r, hr, _⟩ := h k w p ⟨e, he, hp⟩
  exact ⟨r, hr⟩

/-! ### client writes -/

theorem wf_logHead {s : St} (b : Nat) (h : WF s) : WF (logHead s b) := h

theorem wf_put (c : VCfg) {s : St} (h : WF s) (k : Bytes) (ver : Nat) (val : Bytes) (del : Bool) (hh : Nat) :
    WF (put c s k ver val del hh) := by
  unfold put
  by_cases hc : (del || inlineVal c s.P val) = true
  · simp only [hc, if_true]
    intro k' w' p ⟨e, he, hp⟩
    simp only [exact_cons] at he
    by_cases hi : isEnt k' w' ⟨k, ver, .inl (if del = true then [] else val) del⟩ = true
    · rw [if_pos hi] at he
      injection he with he; subst he; simp at hp
    · rw [if_neg hi] at he
      exact h k' w' p ⟨e, he, hp⟩
  · simp only [hc]
    have ok := appendOne_ok c s.P s.files (bucketOf s.P hh) ⟨k, ver, val⟩
    apply wf_logHead
    intro k' w' p ⟨e, he, hp⟩
    simp only [exact_cons] at he
    by_cases hi : isEnt k' w' ⟨k, ver, .ptr (appendOne c s.P s.files (bucketOf s.P hh) ⟨k, ver, val⟩).2⟩ = true
    · rw [if_pos hi] at he
      injection he with he; subst he
      simp only [LVal.ptr.injEq] at hp; subst hp
      obtain ⟨h1, h2⟩ := isEnt_iff.mp hi
      exact ⟨_, ok.read, h1, h2⟩
    · rw [if_neg hi] at he
      obtain ⟨r, hr, h1, h2⟩ := h k' w' p ⟨e, he, hp⟩
      exact ⟨r, ok.ext _ _ hr, h1, h2⟩

theorem wf_orphan (c : VCfg) {s : St} (h : WF s) (k : Bytes) (ver : Nat) (val : Bytes) (hh : Nat) :
    WF (orphan c s k ver val hh) := by
  unfold orphan
  split
  · exact h
  · have ok := appendOne_ok c s.P s.files (bucketOf s.P hh) ⟨k, ver, val⟩
    intro k' w' p hv
    obtain ⟨r, hr, h1, h2⟩ := h k' w' p hv
    exact ⟨r, ok.ext _ _ hr, h1, h2⟩

/-- a write reads back: `GetVersionedEntry(k, ver)` right after the write of (k, ver) -/
theorem read_put (c : VCfg) (s : St) (k : Bytes) (ver : Nat) (val : Bytes) (hh : Nat) :
    readKV (put c s k ver val false hh) k ver = .val val := by
  have hlook : ∀ (x : LVal) (m : List LEnt), lookup (⟨k, ver, x⟩ :: m) k ver = some ⟨k, ver, x⟩ := by
    intro x m
    apply lookup_of_exact
    simp [exact_cons, isEnt]
  unfold put
  split
  · rename_i hc
    simp only [Bool.false_or] at hc
    simp [readKV, hlook, resolve]
  · have ok := appendOne_ok c s.P s.files (bucketOf s.P hh) ⟨k, ver, val⟩
    simp only [readKV, logHead, hlook, resolve, ok.read]

theorem read_del (c : VCfg) (s : St) (k : Bytes) (ver : Nat) (val : Bytes) (hh : Nat) :
    readKV (put c s k ver val true hh) k ver = .tomb := by
  have hlook : ∀ (x : LVal) (m : List LEnt), lookup (⟨k, ver, x⟩ :: m) k ver = some ⟨k, ver, x⟩ := by
    intro x m
    apply lookup_of_exact
    simp [exact_cons, isEnt]
  unfold put
  simp [readKV, hlook, resolve]

theorem verOf_cons_other {x : LEnt} {m : List LEnt} {k : Bytes} {v : Nat} (h : ¬ (x.key = k ∧ x.ver ≤ v)) :
    verOf (x :: m) k v = verOf m k v := by
  simp only [verOf, h, if_false]

/-- a write to (k, ver) leaves every read of another key, or of the same key below `ver`, unchanged —
    whatever it does to the value log (rotation included) -/
theorem read_put_frame (c : VCfg) {s : St} (h : WF s) (k : Bytes) (ver : Nat) (val : Bytes) (del : Bool) (hh : Nat)
    (k' : Bytes) (v' : Nat) (hne : ¬ (k = k' ∧ ver ≤ v')) :
    readKV (put c s k ver val del hh) k' v' = readKV s k' v' := by
  have hex : ∀ (x : LVal) (w : Nat), w ≤ v' → exact (⟨k, ver, x⟩ :: s.lsm) k' w = exact s.lsm k' w := by
    intro x w hw
    rw [exact_cons]
    have : isEnt k' w ⟨k, ver, x⟩ = false := by
      cases hi : isEnt k' w ⟨k, ver, x⟩ with
      | false => rfl
      | true =>
        obtain ⟨h1, h2⟩ := isEnt_iff.mp hi
        exact absurd ⟨h1, by simp at h2; omega⟩ hne
    simp [this]
  have hlook : ∀ (x : LVal), lookup (⟨k, ver, x⟩ :: s.lsm) k' v' = lookup s.lsm k' v' := by
    intro x
    unfold lookup
    rw [verOf_cons_other (by simpa using hne)]
    cases hv : verOf s.lsm k' v' with
    | none => rfl
    | some w => exact hex x w (verOf_le hv).1
  unfold put
  split
  · simp only [readKV, hlook]
  · have ok := appendOne_ok c s.P s.files (bucketOf s.P hh) ⟨k, ver, val⟩
    simp only [readKV, logHead, hlook]
    cases hl : lookup s.lsm k' v' with
    | none => rfl
    | some e =>
      exact resolve_ext ok.ext (wf_readable h (lookup_some hl).1)

/-! ### rewrite: the re-inserts -/

/-- the write-back set is re-inserted under the records' own keys and versions -/
theorem exact_insertPtrs {Q : Rec → Ptr → Prop} {wb : List Rec} {ps : List Ptr} (hq : All2 Q wb ps)
    (m : List LEnt) (k : Bytes) (w : Nat) :
    (∃ r p, Q r p ∧ r ∈ wb ∧ r.key = k ∧ r.ver = w ∧ exact (insertPtrs m wb ps) k w = some ⟨k, w, .ptr p⟩) ∨
    ((∀ r, r ∈ wb → ¬ (r.key = k ∧ r.ver = w)) ∧ exact (insertPtrs m wb ps) k w = exact m k w) := by
  induction hq generalizing m with
  | nil => exact Or.inr ⟨fun _ h => (List.not_mem_nil h).elim, rfl⟩
  | @cons r p rs ps' hrp _ ih =>
    simp only [insertPtrs]
    rcases ih (⟨r.key, r.ver, .ptr p⟩ :: m) with ⟨r', p', h1, h2, h3, h4, h5⟩ | ⟨hno, heq⟩
    · exact Or.inl ⟨r', p', h1, List.mem_cons_of_mem _ h2, h3, h4, h5⟩
    · rw [exact_cons] at heq
      by_cases hi : isEnt k w ⟨r.key, r.ver, .ptr p⟩ = true
      · obtain ⟨h1, h2⟩ := isEnt_iff.mp hi
        simp only at h1 h2
        refine Or.inl ⟨r, p, hrp, List.mem_cons_self, h1, h2, ?_⟩
        rw [heq, hi, if_pos rfl, h1, h2]
      · simp only [hi] at heq
        refine Or.inr ⟨?_, by simpa using heq⟩
        intro r' hr' hkw
        rcases List.mem_cons.mp hr' with h | h
        · subst h
          exact hi (isEnt_iff.mpr hkw)
        · exact hno r' h hkw

theorem present_cons {m : List LEnt} {x : LEnt} {k : Bytes} {w : Nat} (h : Present m k w) : Present (x :: m) k w := by
  obtain ⟨e, h1, h2, h3⟩ := h
  exact ⟨e, List.mem_cons_of_mem _ h1, h2, h3⟩

theorem verOf_insertPtrs {wb : List Rec} {ps : List Ptr} {m : List LEnt}
    (hp : ∀ r, r ∈ wb → Present m r.key r.ver) (k : Bytes) (v : Nat) :
    verOf (insertPtrs m wb ps) k v = verOf m k v := by
  induction wb generalizing m ps with
  | nil => cases ps <;> rfl
  | cons r rs ih =>
    cases ps with
    | nil => rfl
    | cons p ps' =>
      simp only [insertPtrs]
      rw [ih (fun r' hr' => present_cons (hp r' (List.mem_cons_of_mem _ hr')))]
      exact verOf_cons_present (x := ⟨r.key, r.ver, .ptr p⟩) (hp r List.mem_cons_self) k v

/-- what `rewrite` knows about a record it re-inserts, when the liveness test is exact:
    the map stores, under the record's own key and version, a pointer into (b, f) that reads this record -/
def LivePre (s : St) (b f : Nat) (r : Rec) : Prop :=
  ∃ e p, exact s.lsm r.key r.ver = some e ∧ e.v = .ptr p ∧ p.bucket = b ∧ p.fid = f ∧ readPtr s.files p = some r

/-- state after the re-inserts: new map, new files -/
structure Reinserted (s s1 : St) (b f : Nat) (wb : List Rec) : Prop where
  params : s1.P = s.P
  ext : Ext s.files s1.files
  /-- every (k, w): either re-pointed to a fresh readable copy of a record of `wb`, or untouched -/
  exact_cases : ∀ k w,
    (∃ r p, r ∈ wb ∧ r.key = k ∧ r.ver = w ∧ exact s1.lsm k w = some ⟨k, w, .ptr p⟩ ∧
        readPtr s1.files p = some r ∧ p.bucket = b ∧ activeFid s.files b ≤ p.fid) ∨
    ((∀ r, r ∈ wb → ¬ (r.key = k ∧ r.ver = w)) ∧ exact s1.lsm k w = exact s.lsm k w)
  ver : (∀ r, r ∈ wb → Present s.lsm r.key r.ver) → ∀ k v, verOf s1.lsm k v = verOf s.lsm k v
  others : ∀ b', b' ≠ b → maxFid? s1.files b' = maxFid? s.files b'
  active_ge : activeFid s.files b ≤ activeFid s1.files b

theorem reinsert_spec (c : VCfg) (s : St) (b f : Nat) (wb : List Rec) :
    Reinserted s (reinsert c s b wb) b f wb := by
  unfold reinsert
  split
  · rename_i h; subst h
    exact ⟨rfl, Ext.refl _, fun k w => Or.inr ⟨fun _ h => (List.not_mem_nil h).elim, rfl⟩, fun _ _ _ => rfl, fun _ _ => rfl, Nat.le_refl _⟩
  · have ok := appendBatch_ok c s.P s.files b wb
    refine ⟨rfl, ok.ext, ?_, ?_, ok.others, ok.active_ge⟩
    · intro k w
      rcases exact_insertPtrs ok.each s.lsm k w with ⟨r, p, ⟨h1, h2, h3⟩, h4, h5, h6, h7⟩ | h
      · exact Or.inl ⟨r, p, h4, h5, h6, h7, h1, h2, h3⟩
      · exact Or.inr h
    · intro hp k v
      exact verOf_insertPtrs hp k v

/-- the re-inserts keep the invariant (whatever the liveness test selected) -/
theorem wf_reinserted {s s1 : St} {b f : Nat} {wb : List Rec} (h : WF s) (hr : Reinserted s s1 b f wb) : WF s1 := by
  intro k w p ⟨e, he, hp⟩
  rcases hr.exact_cases k w with ⟨r, p', _, h2, h3, h4, h5, _, _⟩ | ⟨_, heq⟩
  · rw [h4] at he
    injection he with he; subst he
    simp only [LVal.ptr.injEq] at hp; subst hp
    exact ⟨r, h5, h2, h3⟩
  · rw [heq] at he
    obtain ⟨r, hr1, hr2, hr3⟩ := h k w p ⟨e, he, hp⟩
    exact ⟨r, hr.ext _ _ hr1, hr2, hr3⟩

/-- with an exact liveness test the re-inserts change no read -/
theorem read_reinserted {s s1 : St} {b f : Nat} {wb : List Rec} (h : WF s) (hr : Reinserted s s1 b f wb)
    (hl : ∀ r, r ∈ wb → LivePre s b f r) (k : Bytes) (v : Nat) : readKV s1 k v = readKV s k v := by
  have hpres : ∀ r, r ∈ wb → Present s.lsm r.key r.ver := by
    intro r hr'
    obtain ⟨e, _, he, _⟩ := hl r hr'
    obtain ⟨h1, h2, h3⟩ := exact_some he
    exact ⟨e, h1, h2, h3⟩
  unfold readKV lookup
  rw [hr.ver hpres k v]
  cases hv : verOf s.lsm k v with
  | none => rfl
  | some w =>
    simp only
    rcases hr.exact_cases k w with ⟨r, p', h1, h2, h3, h4, h5, _, _⟩ | ⟨_, heq⟩
    · obtain ⟨e, p, he, hp, _, _, hread⟩ := hl r h1
      rw [h2, h3] at he
      rw [h4, he]
      simp only [resolve, h5, hp, hread]
    · rw [heq]
      cases he : exact s.lsm k w with
      | none => rfl
      | some e => exact resolve_ext hr.ext (wf_readable h he)

/-! ### rewrite: which records are selected -/

theorem mem_liveRecs {c : VCfg} {m : List LEnt} {b f : Nat} {l : List (Nat × Rec)} {r : Rec} :
    r ∈ liveRecs c m b f l ↔ ∃ o, (o, r) ∈ l ∧ liveTest c m b f o r = true := by
  unfold liveRecs
  simp only [List.mem_map, List.mem_filter]
  constructor
  · rintro ⟨⟨o, r'⟩, ⟨h1, h2⟩, h3⟩
    simp only at h3; subst h3
    exact ⟨o, h1, h2⟩
  · rintro ⟨o, h1, h2⟩
    exact ⟨(o, r), ⟨h1, h2⟩, rfl⟩

/-- a record of file (b,f) at offset o is scanned by `rewrite` -/
theorem scanned_of_readPtr {s : St} {p : Ptr} {r : Rec} (h : readPtr s.files p = some r) :
    (p.off, r) ∈ scan (recsOf s.files p.bucket p.fid) headerSize := by
  unfold readPtr at h
  unfold recsOf
  cases hf : findFile s.files p.bucket p.fid with
  | none => simp [hf] at h
  | some g =>
    simp only [hf] at h ⊢
    exact recAt_mem_scan h

theorem readPtr_of_scanned {s : St} {b f o : Nat} {r : Rec} (h : (o, r) ∈ scan (recsOf s.files b f) headerSize) :
    readPtr s.files ⟨b, f, o, recLen r⟩ = some r := by
  unfold recsOf at h
  unfold readPtr
  cases hf : findFile s.files b f with
  | none => simp [hf, scan] at h
  | some g =>
    simp only [hf] at h ⊢
    exact scan_recAt h

/-- liveness by pointer equality (the repaired comparison) -/
theorem liveTest_eq {c : VCfg} (hc : c.LiveEq) (m : List LEnt) (b f o : Nat) (r : Rec) :
    liveTest c m b f o r = true ↔
      ∃ e p, lookup m r.key r.ver = some e ∧ e.v = .ptr p ∧ p.bucket = b ∧ p.fid = f ∧ p.off = o := by
  obtain ⟨h1, h2, h3, h4⟩ := hc
  unfold liveTest
  cases hl : lookup m r.key r.ver with
  | none => simp [h4]
  | some e =>
    cases hv : e.v with
    | inl x d => simp [hv]
    | ptr p =>
      constructor
      · intro h
        simp only [hv, h1, h2, h3, CmpOp.nat, CmpOp.eval] at h
        refine ⟨e, p, rfl, hv, ?_⟩
        by_cases hb : p.bucket = b <;> by_cases hf : p.fid = f <;> by_cases ho : p.off = o <;>
          simp [hb, hf, ho] at h ⊢
      · rintro ⟨e', p', he', hv', hb, hf, ho⟩
        injection he' with he'; subst he'
        rw [hv] at hv'; injection hv' with hv'; subst hv'
        simp [hv, h1, h2, h3, CmpOp.nat, CmpOp.eval, hb, hf, ho]

/-- the as-is comparison (`Fid >`, `Offset >`) selects at least the exactly-live records -/
theorem liveTest_of_exact {c : VCfg} (hc : c.LiveSeq) (m : List LEnt) (b f o : Nat) (r : Rec)
    (h : ∃ e p, lookup m r.key r.ver = some e ∧ e.v = .ptr p ∧ p.bucket = b ∧ p.fid = f ∧ p.off = o) :
    liveTest c m b f o r = true := by
  obtain ⟨e, p, hl, hv, hb, hf, ho⟩ := h
  obtain ⟨hops, h3, _⟩ := hc
  unfold liveTest
  simp only [hl, hv, h3]
  rcases hops with ⟨h1, h2⟩ | ⟨h1, h2⟩ <;> simp [h1, h2, CmpOp.nat, CmpOp.eval, hb, hf, ho]

/-- (exact test) every selected record is live in the strong sense -/
theorem livePre_of_selected {c : VCfg} (hc : c.LiveEq) {s : St} (h : WF s) {b f : Nat} {r : Rec}
    (hr : r ∈ gcLive c s b f) : LivePre s b f r := by
  unfold gcLive at hr
  obtain ⟨o, hscan, hlive⟩ := mem_liveRecs.mp hr
  obtain ⟨e, p, hl, hv, hb, hf, ho⟩ := (liveTest_eq hc _ _ _ _ _).mp hlive
  obtain ⟨hex, hk, _⟩ := lookup_some hl
  obtain ⟨r', hr', hk', hv'⟩ := h e.key e.ver p ⟨e, hex, hv⟩
  have hread := readPtr_of_scanned hscan
  -- both pointers designate offset o of file (b,f): the same record
  have hsame : r' = r := by
    unfold readPtr at hr' hread
    simp only [hb, hf] at hr'
    cases hfile : findFile s.files b f with
    | none => simp [hfile] at hread
    | some g =>
      simp only [hfile, ho] at hr' hread
      exact recAt_unique hr' hread
  subst hsame
  refine ⟨e, p, ?_, hv, hb, hf, hr'⟩
  rw [hk', hv']; exact hex

/-- every pointer the map holds into (b,f) belongs to a selected record -/
theorem selected_of_visible {c : VCfg} (hc : c.LiveSeq) {s : St} (h : WF s) {b f : Nat} {k : Bytes} {w : Nat} {p : Ptr}
    (hv : Visible s.lsm k w p) (hb : p.bucket = b) (hf : p.fid = f) :
    ∃ r, r ∈ gcLive c s b f ∧ r.key = k ∧ r.ver = w := by
  obtain ⟨r, hr, hk, hw⟩ := h k w p hv
  obtain ⟨e, he, hp⟩ := hv
  refine ⟨r, ?_, hk, hw⟩
  unfold gcLive
  apply mem_liveRecs.mpr
  refine ⟨p.off, ?_, ?_⟩
  · have := scanned_of_readPtr hr
    rw [hb, hf] at this; exact this
  · apply liveTest_of_exact hc
    refine ⟨e, p, ?_, hp, hb, hf, rfl⟩
    rw [hk, hw]; exact lookup_of_exact he

/-! ### rewrite: dropping the file -/

theorem wf_dropFile {s : St} {b f : Nat} (h : WF s)
    (hno : ∀ k w p, Visible s.lsm k w p → ¬ (p.bucket = b ∧ p.fid = f)) : WF (dropFile s b f) := by
  intro k w p hv
  obtain ⟨r, hr, h1, h2⟩ := h k w p hv
  refine ⟨r, ?_, h1, h2⟩
  simp only [dropFile]
  rw [readPtr_removeFile (hno k w p hv)]; exact hr

theorem read_dropFile {s : St} {b f : Nat} (_h : WF s)
    (hno : ∀ k w p, Visible s.lsm k w p → ¬ (p.bucket = b ∧ p.fid = f)) (k : Bytes) (v : Nat) :
    readKV (dropFile s b f) k v = readKV s k v := by
  unfold readKV
  simp only [dropFile]
  cases hl : lookup s.lsm k v with
  | none => rfl
  | some e =>
    simp only
    unfold resolve
    cases hv : e.v with
    | inl x d => rfl
    | ptr p =>
      simp only
      rw [readPtr_removeFile (hno e.key e.ver p ⟨e, (lookup_some hl).1, hv⟩)]

/-- after the re-inserts no visible pointer is left in file (b,f) -/
theorem no_pointer_left {c : VCfg} (hc : c.LiveSeq) {s s1 : St} {b f : Nat} (h : WF s)
    (hlt : f < activeFid s.files b) (hr : Reinserted s s1 b f (gcLive c s b f)) :
    ∀ k w p, Visible s1.lsm k w p → ¬ (p.bucket = b ∧ p.fid = f) := by
  intro k w p ⟨e, he, hp⟩ ⟨hb, hf⟩
  rcases hr.exact_cases k w with ⟨r, p', _, _, _, h4, _, _, h7⟩ | ⟨hno, heq⟩
  · rw [h4] at he
    injection he with he; subst he
    simp only [LVal.ptr.injEq] at hp; subst hp
    omega
  · rw [heq] at he
    obtain ⟨r, hr1, hr2, hr3⟩ := selected_of_visible hc h ⟨e, he, hp⟩ hb hf
    exact hno r hr1 ⟨hr2, hr3⟩

/-- `rewrite` keeps the invariant, for the as-is and for the repaired liveness comparison -/
theorem wf_gc {c : VCfg} (hc : c.LiveSeq) {s : St} (h : WF s) (b f : Nat) : WF (gc c s b f).1 := by
  unfold gc
  split
  · exact h
  · rename_i hcond
    have hlt : f < activeFid s.files b := by
      simp only [Bool.or_eq_true, Bool.not_eq_true', decide_eq_false_iff_not, not_or, Decidable.not_not] at hcond
      exact hcond.2
    have hr := reinsert_spec c s b f (gcLive c s b f)
    have hwf1 := wf_reinserted h hr
    simp only
    split
    · exact hwf1
    · exact wf_dropFile hwf1 (no_pointer_left hc h hlt hr)

/-- `rewrite` with the exact liveness test changes no read -/
theorem read_gc {c : VCfg} (hc : c.LiveEq) {s : St} (h : WF s) (b f : Nat) (k : Bytes) (v : Nat) :
    readKV (gc c s b f).1 k v = readKV s k v := by
  have hseq : c.LiveSeq := ⟨Or.inl ⟨hc.1, hc.2.1⟩, hc.2.2.1, hc.2.2.2⟩
  unfold gc
  split
  · rfl
  · rename_i hcond
    have hlt : f < activeFid s.files b := by
      simp only [Bool.or_eq_true, Bool.not_eq_true', decide_eq_false_iff_not, not_or, Decidable.not_not] at hcond
      exact hcond.2
    have hr := reinsert_spec c s b f (gcLive c s b f)
    have hwf1 := wf_reinserted h hr
    have hread1 := read_reinserted h hr (fun r hr' => livePre_of_selected hc h hr') k v
    simp only
    split
    · exact hread1
    · rw [read_dropFile hwf1 (no_pointer_left hseq h hlt hr)]; exact hread1

end NoKV.Vlog

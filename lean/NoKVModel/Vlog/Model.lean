/-
Value-log engine (C08, C11): executable model of
  /repo/vlog.go        (valueLog.write, bucket choice, head persistence, reconcileManifest)
  /repo/vlog_gc.go     (rewrite: scan, liveness test, re-insert, post-check, removeValueLogFile)
  /repo/vlog/manager.go, vlog/io.go (reserve/rotate at MaxSize, AppendEntries, read by pointer)
  /repo/db.go          (shouldWriteValueToLSM, loadBorrowedEntry)

The LSM side is the abstract versioned map the C01/C02 contributors prove the real LSM to be:
a list of entries (newest first), `lookup k v` = the visible entry of the greatest version ≤ v.
Flush / compaction are not modelled here.

Core Lean only; every function is total and computable.
-/
import NoKVModel.Base.Bytes
import NoKVModel.Base.Cfg

namespace NoKV.Vlog

/-- Decisions read off the Go source by `extract/cmd/vlog`. -/
structure VCfg where
  /-- `db.go:shouldWriteValueToLSM`: value stays inline iff `len <op> ValueThreshold` (`lt`). -/
  thresholdOp : CmpOp
  /-- `vlog/io.go:reserve`: rotate iff `offset+sz <op> MaxSize` (`gt`). -/
  rotateOp : CmpOp
  /-- `vlog_gc.go:rewrite.process`: a scanned record is skipped iff `diskVP.Fid <op> fid` … (`gt` as-is, `ne` repaired) -/
  gcFidOp : CmpOp
  /-- … or `diskVP.Fid == fid && diskVP.Offset <op> ptr.Offset` (`gt` as-is, `ne` repaired). -/
  gcOffOp : CmpOp
  /-- `diskVP.Bucket != bucket ⇒ skip` is present. -/
  gcChecksBucket : Bool
  /-- the sanity lookup after the re-inserts uses a key that is still alive.  As-is it reads
      `wb[len(wb)-1].Key` after `batchSet` released (and reset) the entries: the lookup fails with
      ErrEmptyKey, `rewrite` returns that error and the file is NOT removed in this run. -/
  postCheckLive : Bool
  /-- `rewrite.process`: when `lsm.Get(e.Key)` finds nothing, is the scanned record treated as live
      and re-inserted?  As-is `false`: the code falls back to the value-log copy (`entry = e`), whose
      meta never carries the pointer bit, so the unconditional `kv.DiscardEntry(e, entry)` drops it.
      `true` = that DiscardEntry test no longer guards the miss branch. -/
  gcMissIsLive : Bool
  deriving DecidableEq, Repr

def VCfg.good : VCfg :=
  { thresholdOp := .lt, rotateOp := .gt, gcFidOp := .ne, gcOffOp := .ne, gcChecksBucket := true, postCheckLive := false,
    gcMissIsLive := false }

/-- The tree as read on the pinned commit. -/
def VCfg.asis : VCfg := { VCfg.good with gcFidOp := .gt, gcOffOp := .gt }

/-- liveness test = pointer equality (the repaired shape). -/
def VCfg.LiveEq (c : VCfg) : Prop :=
  c.gcFidOp = .ne ∧ c.gcOffOp = .ne ∧ c.gcChecksBucket = true ∧ c.gcMissIsLive = false
instance VCfg.decLiveEq (c : VCfg) : Decidable c.LiveEq := by unfold VCfg.LiveEq; exact inferInstance

/-- liveness test = "the LSM pointer is not newer than the scanned record" (as-is) or equality. -/
def VCfg.LiveSeq (c : VCfg) : Prop :=
  ((c.gcFidOp = .ne ∧ c.gcOffOp = .ne) ∨ (c.gcFidOp = .gt ∧ c.gcOffOp = .gt)) ∧ c.gcChecksBucket = true ∧
    c.gcMissIsLive = false
instance VCfg.decLiveSeq (c : VCfg) : Decidable c.LiveSeq := by unfold VCfg.LiveSeq; exact inferInstance

/-- as-is liveness operators -/
def VCfg.LiveGt (c : VCfg) : Prop :=
  c.gcFidOp = .gt ∧ c.gcOffOp = .gt ∧ c.gcChecksBucket = true ∧ c.gcMissIsLive = false
instance VCfg.decLiveGt (c : VCfg) : Decidable c.LiveGt := by unfold VCfg.LiveGt; exact inferInstance

/-- the miss branch of the liveness test re-inserts (a seeded / hypothetical shape), liveness otherwise exact -/
def VCfg.MissLive (c : VCfg) : Prop :=
  c.gcFidOp = .ne ∧ c.gcOffOp = .ne ∧ c.gcChecksBucket = true ∧ c.gcMissIsLive = true
instance VCfg.decMissLive (c : VCfg) : Decidable c.MissLive := by unfold VCfg.MissLive; exact inferInstance

/-- holds of every configuration (theorems that do not depend on any extracted decision) -/
def VCfg.Any (_ : VCfg) : Prop := True
instance VCfg.decAny (c : VCfg) : Decidable c.Any := by unfold VCfg.Any; exact inferInstance

/-- the write path as extracted: inline iff `len < T`, rotate iff `off+sz > MaxSize` -/
def VCfg.WritePath (c : VCfg) : Prop := c.thresholdOp = .lt ∧ c.rotateOp = .gt
instance VCfg.decWritePath (c : VCfg) : Decidable c.WritePath := by unfold VCfg.WritePath; exact inferInstance

/-- Per-database parameters (options.go): ValueThreshold, ValueLogFileSize, ValueLogBucketCount. -/
structure Params where
  T : Nat
  maxSize : Nat
  buckets : Nat
  deriving DecidableEq, Repr

/-- version used by the non-transactional API (`nonTxnMaxVersion`). -/
def maxU64 : Nat := 18446744073709551615

/-- length of a uvarint -/
def uvLen (n : Nat) : Nat :=
  if n < 128 then 1 else if n < 16384 then 2 else if n < 2097152 then 3 else if n < 268435456 then 4 else 5

/-- one value-log record (`kv.EncodeEntry`): internal key = cf header(4) ++ user key ++ ts(8);
    meta and expiresAt are 0 on every record the modelled operations write. -/
structure Rec where
  key : Bytes
  ver : Nat
  val : Bytes
  deriving DecidableEq, Repr

/-- encoded length: uvarint(klen) uvarint(vlen) uvarint(meta) uvarint(expires) key value crc32 -/
def recLen (r : Rec) : Nat :=
  uvLen (r.key.length + 12) + uvLen r.val.length + 1 + 1 + (r.key.length + 12) + r.val.length + 4

theorem recLen_pos (r : Rec) : 0 < recLen r := by unfold recLen; omega

structure Ptr where
  bucket : Nat
  fid : Nat
  off : Nat
  len : Nat
  deriving DecidableEq, Repr

inductive LVal where
  | inl (val : Bytes) (del : Bool)
  | ptr (p : Ptr)
  deriving DecidableEq, Repr

structure LEnt where
  key : Bytes
  ver : Nat
  v : LVal
  deriving DecidableEq, Repr

structure VFile where
  bucket : Nat
  fid : Nat
  recs : List Rec
  deriving DecidableEq, Repr

def headerSize : Nat := 20

def total : List Rec → Nat
  | [] => 0
  | r :: rs => recLen r + total rs

/-- the record starting at byte `off` (scan from `start`), provided the length matches -/
def recAt : List Rec → Nat → Nat → Nat → Option Rec
  | [], _, _, _ => none
  | r :: rs, start, off, len =>
    if off = start then (if len = recLen r then some r else none)
    else recAt rs (start + recLen r) off len

/-- records with their byte offsets (`iterateLogFile`) -/
def scan : List Rec → Nat → List (Nat × Rec)
  | [], _ => []
  | r :: rs, start => (start, r) :: scan rs (start + recLen r)

def isFile (b fid : Nat) (f : VFile) : Bool := f.bucket == b && f.fid == fid

def findFile (fs : List VFile) (b fid : Nat) : Option VFile := fs.find? (isFile b fid)

/-- `Manager.Read` + decode: the record a pointer designates -/
def readPtr (fs : List VFile) (p : Ptr) : Option Rec :=
  match findFile fs p.bucket p.fid with
  | none => none
  | some f => recAt f.recs headerSize p.off p.len

/-- greatest file id of a bucket = the active file (`Manager.maxFid/activeID`) -/
def maxFid? : List VFile → Nat → Option Nat
  | [], _ => none
  | f :: fs, b =>
    if f.bucket = b then
      (match maxFid? fs b with
       | some m => some (max f.fid m)
       | none => some f.fid)
    else maxFid? fs b

def recsOf (fs : List VFile) (b fid : Nat) : List Rec :=
  match findFile fs b fid with
  | some f => f.recs
  | none => []

/-- append a record to file (b, fid) -/
def addTo (fs : List VFile) (b fid : Nat) (r : Rec) : List VFile :=
  fs.map fun f => if isFile b fid f then { f with recs := f.recs ++ [r] } else f

/-- `ensureActiveLocked` on a bucket without files -/
def ensure (fs : List VFile) (b : Nat) : List VFile :=
  match maxFid? fs b with
  | none => fs ++ [⟨b, 0, []⟩]
  | some _ => fs

def activeFid (fs : List VFile) (b : Nat) : Nat :=
  match maxFid? fs b with
  | some m => m
  | none => 0

/-- `rotateLocked`: a new empty active file `maxFid+1` -/
def rotate (fs : List VFile) (b : Nat) : List VFile := fs ++ [⟨b, activeFid fs b + 1, []⟩]

/-- write one record at the head of the active file, no rotation check -/
def appendNoRot (fs : List VFile) (b : Nat) (r : Rec) : List VFile × Ptr :=
  let a := activeFid fs b
  (addTo fs b a r, ⟨b, a, headerSize + total (recsOf fs b a), recLen r⟩)

def headOff (fs : List VFile) (b : Nat) : Nat := headerSize + total (recsOf fs b (activeFid fs b))

/-- `reserve(sz)`: rotate when the reservation does not fit -/
def reserve (c : VCfg) (P : Params) (fs : List VFile) (b sz : Nat) : List VFile :=
  let fs := ensure fs b
  if c.rotateOp.nat (headOff fs b + sz) P.maxSize then rotate fs b else fs

/-- `appendPayload`: reserve + write of one record -/
def appendOne (c : VCfg) (P : Params) (fs : List VFile) (b : Nat) (r : Rec) : List VFile × Ptr :=
  appendNoRot (reserve c P fs b (recLen r)) b r

def appendAllNoRot : List VFile → Nat → List Rec → List VFile × List Ptr
  | fs, _, [] => (fs, [])
  | fs, b, r :: rs =>
    let (fs1, p) := appendNoRot fs b r
    let (fs2, ps) := appendAllNoRot fs1 b rs
    (fs2, p :: ps)

def appendEach (c : VCfg) (P : Params) : List VFile → Nat → List Rec → List VFile × List Ptr
  | fs, _, [] => (fs, [])
  | fs, b, r :: rs =>
    let (fs1, p) := appendOne c P fs b r
    let (fs2, ps) := appendEach c P fs1 b rs
    (fs2, p :: ps)

/-- `Manager.AppendEntries` for the entries of one request that go to one bucket: one reservation
    for the whole batch, unless the batch is larger than a file (then record by record). -/
def appendBatch (c : VCfg) (P : Params) (fs : List VFile) (b : Nat) (rs : List Rec) : List VFile × List Ptr :=
  if rs = [] then (fs, [])
  else if total rs > P.maxSize then appendEach c P fs b rs
  else appendAllNoRot (reserve c P fs b (total rs)) b rs

/-! ### the LSM as a versioned map -/

/-- greatest version ≤ v stored for key k -/
def verOf : List LEnt → Bytes → Nat → Option Nat
  | [], _, _ => none
  | e :: es, k, v =>
    if e.key = k ∧ e.ver ≤ v then
      (match verOf es k v with
       | some w => some (max e.ver w)
       | none => some e.ver)
    else verOf es k v

def isEnt (k : Bytes) (w : Nat) (e : LEnt) : Bool := e.key == k && e.ver == w

/-- the visible entry stored under exactly (k, w): the most recent insert -/
def exact (m : List LEnt) (k : Bytes) (w : Nat) : Option LEnt := m.find? (isEnt k w)

/-- `lsm.Get(InternalKey(k, v))` -/
def lookup (m : List LEnt) (k : Bytes) (v : Nat) : Option LEnt :=
  match verOf m k v with
  | none => none
  | some w => exact m k w

/-- manifest: value-log status edits, newest first: (bucket, fid, valid) -/
abbrev Man := List (Nat × Nat × Bool)

def isMan (b fid : Nat) (e : Nat × Nat × Bool) : Bool := e.1 == b && e.2.1 == fid

def manGet (m : Man) (b fid : Nat) : Option Bool := (m.find? (isMan b fid)).map (·.2.2)

/-- some fid' ≥ fid of the bucket is currently valid -/
def covered (m : Man) (b fid : Nat) : Bool :=
  m.any fun e => e.1 == b && decide (fid ≤ e.2.1) && (manGet m b e.2.1 == some true)

def hasValid (m : Man) (b : Nat) : Bool := covered m b 0

/-- `reconcileManifest`: does the file survive a reopen? -/
def keeps (m : Man) (b fid : Nat) : Bool :=
  match manGet m b fid with
  | some v => v
  | none => !hasValid m b || covered m b fid

structure St where
  P : Params
  lsm : List LEnt
  files : List VFile
  man : Man
  deriving Repr

def initFiles : Nat → List VFile
  | 0 => []
  | n + 1 => initFiles n ++ [⟨n, 0, []⟩]

def St.init (P : Params) : St := { P := P, lsm := [], files := initFiles P.buckets, man := [] }

def bucketOf (P : Params) (h : Nat) : Nat := if P.buckets ≤ 1 then 0 else h % P.buckets

/-- `shouldWriteValueToLSM` -/
def inlineVal (c : VCfg) (P : Params) (val : Bytes) : Bool := c.thresholdOp.nat val.length P.T

/-- `updateHead`: the active file of the bucket is (re)recorded as valid -/
def logHead (s : St) (b : Nat) : St := { s with man := (b, activeFid s.files b, true) :: s.man }

/-- one acknowledged client write (`Set`/`SetVersionedEntry`/`Del`/`DeleteVersionedEntry`);
    `h` = crc32c of the key base, decides the bucket. -/
def put (c : VCfg) (s : St) (k : Bytes) (ver : Nat) (val : Bytes) (del : Bool) (h : Nat) : St :=
  if del || inlineVal c s.P val then
    { s with lsm := ⟨k, ver, .inl (if del then [] else val) del⟩ :: s.lsm }
  else
    let b := bucketOf s.P h
    let (fs, p) := appendOne c s.P s.files b ⟨k, ver, val⟩
    logHead { s with lsm := ⟨k, ver, .ptr p⟩ :: s.lsm, files := fs } b

/-- `valueLog.write` only (process crash before `applyRequests`): bytes in the value log that no
    WAL record and no LSM entry references. -/
def orphan (c : VCfg) (s : St) (k : Bytes) (ver : Nat) (val : Bytes) (h : Nat) : St :=
  if inlineVal c s.P val then s
  else { s with files := (appendOne c s.P s.files (bucketOf s.P h) ⟨k, ver, val⟩).1 }

inductive Res where
  | notfound | tomb | val (v : Bytes) | err
  deriving DecidableEq, Repr

/-- `loadBorrowedEntry` -/
def resolve (fs : List VFile) (e : LEnt) : Res :=
  match e.v with
  | .inl v del => if del then .tomb else .val v
  | .ptr p =>
    match readPtr fs p with
    | some r => .val r.val
    | none => .err

/-- `GetVersionedEntry(k, v)` (tombstones are returned as such) -/
def readKV (s : St) (k : Bytes) (v : Nat) : Res :=
  match lookup s.lsm k v with
  | none => .notfound
  | some e => resolve s.files e

/-- `rewrite.process`: is the scanned record (at offset `o` of file (b,f)) re-inserted? -/
def liveTest (c : VCfg) (m : List LEnt) (b f o : Nat) (r : Rec) : Bool :=
  match lookup m r.key r.ver with
  | none => c.gcMissIsLive -- as-is: falls back to the vlog copy, whose meta has no pointer bit ⇒ discarded
  | some e =>
    match e.v with
    | .inl _ _ => false    -- DiscardEntry: deleted, or not a value pointer
    | .ptr p =>
      if c.gcChecksBucket && p.bucket != b then false
      else if c.gcFidOp.nat p.fid f || (p.fid == f && c.gcOffOp.nat p.off o) then false
      else true

def liveRecs (c : VCfg) (m : List LEnt) (b f : Nat) (l : List (Nat × Rec)) : List Rec :=
  (l.filter fun x => liveTest c m b f x.1 x.2).map (·.2)

def insertPtrs : List LEnt → List Rec → List Ptr → List LEnt
  | m, r :: rs, p :: ps => insertPtrs (⟨r.key, r.ver, .ptr p⟩ :: m) rs ps
  | m, _, _ => m

def removeFile (fs : List VFile) (b f : Nat) : List VFile := fs.filter fun x => !isFile b f x

inductive GcOut where
  | ok | emptykey | badfid
  deriving DecidableEq, Repr

/-- the write-back set of `rewrite(b, f)` -/
def gcLive (c : VCfg) (s : St) (b f : Nat) : List Rec :=
  liveRecs c s.lsm b f (scan (recsOf s.files b f) headerSize)

/-- `batchSet(wb)`: value log first, then the LSM, then the head -/
def reinsert (c : VCfg) (s : St) (b : Nat) (wb : List Rec) : St :=
  if wb = [] then s
  else
    let (fs, ps) := appendBatch c s.P s.files b wb
    logHead { s with lsm := insertPtrs s.lsm wb ps, files := fs } b

/-- `removeValueLogFile`: manifest delete, then unlink -/
def dropFile (s : St) (b f : Nat) : St :=
  { s with man := (b, f, false) :: s.man, files := removeFile s.files b f }

/-- `valueLog.rewrite(b, f)` run to completion between two client calls. -/
def gc (c : VCfg) (s : St) (b f : Nat) : St × GcOut :=
  if (findFile s.files b f).isNone || !(decide (f < activeFid s.files b)) then (s, .badfid)
  else
    let wb := gcLive c s b f
    let s1 := reinsert c s b wb
    if wb != [] && !c.postCheckLive then (s1, .emptykey)
    else (dropFile s1 b f, .ok)

/-- close + open: `reconcileManifest` -/
def reopen (s : St) : St :=
  { s with files := s.files.filter fun f => keeps s.man f.bucket f.fid }

/-! ### operation sequences -/

/-- what can happen to a database between two reads -/
inductive Op where
  /-- acknowledged client write (`del = true`: tombstone) -/
  | put (k : Bytes) (ver : Nat) (val : Bytes) (del : Bool) (h : Nat)
  /-- bytes appended by `valueLog.write` whose commit never reached the WAL / LSM (process crash) -/
  | orphan (k : Bytes) (ver : Nat) (val : Bytes) (h : Nat)
  /-- `rewrite` of file `f` of bucket `b`, run to completion -/
  | gc (b f : Nat)
  deriving Repr

def Op.apply (c : VCfg) (s : St) : Op → St
  | .put k ver val del h => Vlog.put c s k ver val del h
  | .orphan k ver val h => Vlog.orphan c s k ver val h
  | .gc b f => (Vlog.gc c s b f).1

def run (c : VCfg) (s : St) (ops : List Op) : St := ops.foldl (Op.apply c) s

/-- the concurrent window of `rewrite`: liveness tests on `s`, then the client calls `mid`, then the
    re-inserts (post-check and removal left out: as-is they do not happen when something was re-inserted) -/
def gcInterleaved (c : VCfg) (s : St) (b f : Nat) (mid : List Op) : St :=
  reinsert c (run c s mid) b (gcLive c s b f)

end NoKV.Vlog

/-
Value-log files: pointer arithmetic.  Appending (with or without rotation) never disturbs an
existing readable pointer, and the pointer handed back reads the record just written.
-/
import NoKVModel.Vlog.Model

namespace NoKV.Vlog

/-! ### records inside one file -/

theorem recAt_append_some {rs : List Rec} {x : Rec} {start off len : Nat} {r : Rec}
    (h : recAt rs start off len = some r) : recAt (rs ++ [x]) start off len = some r := by
  induction rs generalizing start with
  | nil => simp [recAt] at h
  | cons a as ih =>
    simp only [List.cons_append, recAt] at h ⊢
    by_cases ho : off = start
    · simpa [ho] using h
    · simp only [ho, if_false] at h ⊢
      exact ih h

theorem recAt_append_new (rs : List Rec) (x : Rec) (start : Nat) :
    recAt (rs ++ [x]) start (start + total rs) (recLen x) = some x := by
  induction rs generalizing start with
  | nil => simp [recAt, total]
  | cons a as ih =>
    have hp := recLen_pos a
    have hne : ¬ (start + total (a :: as) = start) := by simp only [total]; omega
    simp only [List.cons_append, recAt, hne, if_false]
    have : start + total (a :: as) = (start + recLen a) + total as := by simp only [total]; omega
    rw [this]
    exact ih (start + recLen a)

theorem scan_off_ge {rs : List Rec} {start o : Nat} {r : Rec} (h : (o, r) ∈ scan rs start) : start ≤ o := by
  induction rs generalizing start with
  | nil => simp [scan] at h
  | cons a as ih =>
    simp only [scan, List.mem_cons] at h
    rcases h with h | h
    · have := (Prod.mk.inj h).1; omega
    · have := ih h; omega

theorem recAt_mem_scan {rs : List Rec} {start off len : Nat} {r : Rec}
    (h : recAt rs start off len = some r) : (off, r) ∈ scan rs start := by
  induction rs generalizing start with
  | nil => simp [recAt] at h
  | cons a as ih =>
    simp only [recAt] at h
    by_cases ho : off = start
    · simp only [ho, if_true] at h
      by_cases hl : len = recLen a
      · simp only [hl, if_true, Option.some.injEq] at h
        simp [scan, ho, h]
      · simp [hl] at h
    · simp only [ho, if_false] at h
      simp only [scan, List.mem_cons]
      exact Or.inr (ih h)

theorem scan_recAt {rs : List Rec} {start o : Nat} {r : Rec}
    (h : (o, r) ∈ scan rs start) : recAt rs start o (recLen r) = some r := by
  induction rs generalizing start with
  | nil => simp [scan] at h
  | cons a as ih =>
    simp only [scan, List.mem_cons] at h
    rcases h with h | h
    · obtain ⟨h1, h2⟩ := Prod.mk.inj h
      simp [recAt, h1, h2]
    · have hge := scan_off_ge h
      have hp := recLen_pos a
      have hne : ¬ (o = start) := by omega
      simp only [recAt, hne, if_false]
      exact ih h

theorem recAt_unique {rs : List Rec} {start off l l' : Nat} {r r' : Rec}
    (h : recAt rs start off l = some r) (h' : recAt rs start off l' = some r') : r = r' := by
  induction rs generalizing start with
  | nil => simp [recAt] at h
  | cons a as ih =>
    simp only [recAt] at h h'
    by_cases ho : off = start
    · simp only [ho, if_true] at h h'
      by_cases hl : l = recLen a
      · by_cases hl' : l' = recLen a
        · simp only [hl, hl', if_true, Option.some.injEq] at h h'
          rw [← h, ← h']
        · simp [hl'] at h'
      · simp [hl] at h
    · simp only [ho, if_false] at h h'
      exact ih h h'

theorem recAt_len {rs : List Rec} {start off l : Nat} {r : Rec}
    (h : recAt rs start off l = some r) : l = recLen r := by
  induction rs generalizing start with
  | nil => simp [recAt] at h
  | cons a as ih =>
    simp only [recAt] at h
    by_cases ho : off = start
    · simp only [ho, if_true] at h
      by_cases hl : l = recLen a
      · simp only [hl, if_true, Option.some.injEq] at h
        rw [hl, h]
      · simp [hl] at h
    · simp only [ho, if_false] at h
      exact ih h

/-! ### file lists -/

/-- every readable pointer of `fs` reads the same record in `fs'` -/
def Ext (fs fs' : List VFile) : Prop := ∀ p r, readPtr fs p = some r → readPtr fs' p = some r

theorem Ext.refl (fs : List VFile) : Ext fs fs := fun _ _ h => h

theorem Ext.trans {a b c : List VFile} (h1 : Ext a b) (h2 : Ext b c) : Ext a c :=
  fun p r h => h2 p r (h1 p r h)

theorem isFile_iff {b fid : Nat} {f : VFile} : isFile b fid f = true ↔ f.bucket = b ∧ f.fid = fid := by
  simp [isFile]

def addRec (b a : Nat) (x : Rec) (f : VFile) : VFile :=
  if isFile b a f then { f with recs := f.recs ++ [x] } else f

theorem addRec_bucket (b a : Nat) (x : Rec) (f : VFile) : (addRec b a x f).bucket = f.bucket := by
  unfold addRec; split <;> rfl

theorem addRec_fid (b a : Nat) (x : Rec) (f : VFile) : (addRec b a x f).fid = f.fid := by
  unfold addRec; split <;> rfl

theorem isFile_addRec (b a b' f' : Nat) (x : Rec) (f : VFile) : isFile b' f' (addRec b a x f) = isFile b' f' f := by
  simp [isFile, addRec_bucket, addRec_fid]

theorem addTo_eq (fs : List VFile) (b a : Nat) (x : Rec) : addTo fs b a x = fs.map (addRec b a x) := rfl

theorem findFile_addTo (fs : List VFile) (b a b' f' : Nat) (x : Rec) :
    findFile (addTo fs b a x) b' f' = (findFile fs b' f').map (addRec b a x) := by
  induction fs with
  | nil => simp [findFile, addTo]
  | cons g gs ih =>
    simp only [findFile, addTo_eq, List.map_cons, List.find?_cons, isFile_addRec] at ih ⊢
    cases hg : isFile b' f' g with
    | true => simp
    | false => simpa using ih

theorem ext_addTo (fs : List VFile) (b a : Nat) (x : Rec) : Ext fs (addTo fs b a x) := by
  intro p r h
  unfold readPtr at h ⊢
  rw [findFile_addTo]
  cases hf : findFile fs p.bucket p.fid with
  | none => simp [hf] at h
  | some g =>
    simp only [hf] at h
    simp only [Option.map_some]
    unfold addRec
    split
    · exact recAt_append_some h
    · exact h

theorem findFile_append_some {fs : List VFile} {g f : VFile} {b fid : Nat}
    (h : findFile fs b fid = some f) : findFile (fs ++ [g]) b fid = some f := by
  unfold findFile at h ⊢
  rw [List.find?_append, h]; rfl

theorem findFile_append_none {fs : List VFile} {g : VFile} {b fid : Nat}
    (h : findFile fs b fid = none) : findFile (fs ++ [g]) b fid = if isFile b fid g then some g else none := by
  unfold findFile at h ⊢
  rw [List.find?_append, h]
  simp [List.find?_cons]
  cases isFile b fid g <;> simp

theorem ext_append_file (fs : List VFile) (g : VFile) : Ext fs (fs ++ [g]) := by
  intro p r h
  unfold readPtr at h ⊢
  cases hf : findFile fs p.bucket p.fid with
  | none => simp [hf] at h
  | some f =>
    rw [findFile_append_some hf]
    simpa [hf] using h

/-! ### the active file -/

theorem maxFid?_addTo (fs : List VFile) (b a b' : Nat) (x : Rec) : maxFid? (addTo fs b a x) b' = maxFid? fs b' := by
  induction fs with
  | nil => rfl
  | cons g gs ih =>
    rw [addTo_eq] at ih ⊢
    simp only [List.map_cons, maxFid?, addRec_bucket, addRec_fid, ih]

theorem maxFid?_ge {fs : List VFile} {b : Nat} {f : VFile} (hm : f ∈ fs) (hb : f.bucket = b) :
    ∃ m, maxFid? fs b = some m ∧ f.fid ≤ m := by
  induction fs with
  | nil => cases hm
  | cons g gs ih =>
    simp only [maxFid?]
    rcases List.mem_cons.mp hm with h | h
    · subst h
      simp only [hb, if_true]
      cases maxFid? gs b with
      | none => exact ⟨f.fid, rfl, Nat.le_refl _⟩
      | some m => exact ⟨max f.fid m, rfl, Nat.le_max_left _ _⟩
    · obtain ⟨m, h1, h2⟩ := ih h
      by_cases hg : g.bucket = b
      · simp only [hg, if_true, h1]
        exact ⟨max g.fid m, rfl, by have := Nat.le_max_right g.fid m; omega⟩
      · simp only [hg, if_false]
        exact ⟨m, h1, h2⟩

theorem maxFid?_mem {fs : List VFile} {b m : Nat} (h : maxFid? fs b = some m) :
    ∃ f, f ∈ fs ∧ f.bucket = b ∧ f.fid = m := by
  induction fs generalizing m with
  | nil => simp [maxFid?] at h
  | cons g gs ih =>
    simp only [maxFid?] at h
    by_cases hg : g.bucket = b
    · simp only [hg, if_true] at h
      cases hr : maxFid? gs b with
      | none =>
        simp only [hr, Option.some.injEq] at h
        exact ⟨g, List.mem_cons_self, hg, h⟩
      | some m' =>
        simp only [hr, Option.some.injEq] at h
        by_cases hle : g.fid ≤ m'
        · obtain ⟨f, h1, h2, h3⟩ := ih hr
          have : m = m' := by rw [← h]; exact Nat.max_eq_right hle
          exact ⟨f, List.mem_cons_of_mem _ h1, h2, by omega⟩
        · have : m = g.fid := by rw [← h]; exact Nat.max_eq_left (by omega)
          exact ⟨g, List.mem_cons_self, hg, this.symm⟩
    · simp only [hg, if_false] at h
      obtain ⟨f, h1, h2, h3⟩ := ih h
      exact ⟨f, List.mem_cons_of_mem _ h1, h2, h3⟩

theorem findFile_isSome_of_mem {fs : List VFile} {b fid : Nat} {f : VFile}
    (hm : f ∈ fs) (hb : f.bucket = b) (hf : f.fid = fid) : ∃ g, findFile fs b fid = some g := by
  unfold findFile
  cases h : fs.find? (isFile b fid) with
  | some g => exact ⟨g, rfl⟩
  | none =>
    have := List.find?_eq_none.mp h f hm
    simp [isFile, hb, hf] at this

theorem findFile_some {fs : List VFile} {b fid : Nat} {g : VFile} (h : findFile fs b fid = some g) :
    g ∈ fs ∧ g.bucket = b ∧ g.fid = fid := by
  unfold findFile at h
  have h1 := List.mem_of_find?_eq_some h
  have h2 := List.find?_some h
  exact ⟨h1, isFile_iff.mp h2⟩

theorem findFile_none_of_gt {fs : List VFile} {b m fid : Nat} (h : maxFid? fs b = some m) (hgt : m < fid) :
    findFile fs b fid = none := by
  cases hf : findFile fs b fid with
  | none => rfl
  | some g =>
    obtain ⟨h1, h2, h3⟩ := findFile_some hf
    obtain ⟨m', hm', hle⟩ := maxFid?_ge h1 h2
    rw [h] at hm'
    injection hm' with hm'
    omega

theorem maxFid?_append (fs : List VFile) (g : VFile) (b : Nat) :
    maxFid? (fs ++ [g]) b =
      if g.bucket = b then
        (match maxFid? fs b with
         | some m => some (max m g.fid)
         | none => some g.fid)
      else maxFid? fs b := by
  induction fs with
  | nil =>
    simp only [List.nil_append, maxFid?]
  | cons x xs ih =>
    simp only [List.cons_append, maxFid?, ih]
    by_cases hx : x.bucket = b <;> by_cases hg : g.bucket = b
    · simp only [hx, hg, if_true]
      cases maxFid? xs b with
      | none => simp
      | some m => simp [Nat.max_assoc]
    · simp only [hx, hg, if_true, if_false]
    · simp only [hx, hg, if_true, if_false]
    · simp only [hx, hg, if_false]

theorem activeFid_of_some {fs : List VFile} {b m : Nat} (h : maxFid? fs b = some m) : activeFid fs b = m := by
  simp [activeFid, h]

/-! ### the append primitives -/

/-- what the callers need from one append of record `x` into bucket `b` -/
structure AppendOk (fs fs' : List VFile) (b : Nat) (x : Rec) (p : Ptr) : Prop where
  ext : Ext fs fs'
  read : readPtr fs' p = some x
  bucket : p.bucket = b
  fid_ge : activeFid fs b ≤ p.fid
  fid_active : maxFid? fs' b = some p.fid
  others : ∀ b', b' ≠ b → maxFid? fs' b' = maxFid? fs b'

theorem appendNoRot_ok {fs : List VFile} {b m : Nat} (x : Rec) (h : maxFid? fs b = some m) :
    AppendOk fs (appendNoRot fs b x).1 b x (appendNoRot fs b x).2 := by
  have ha : activeFid fs b = m := activeFid_of_some h
  obtain ⟨f, hf1, hf2, hf3⟩ := maxFid?_mem h
  obtain ⟨g, hg⟩ := findFile_isSome_of_mem hf1 hf2 hf3
  simp only [appendNoRot, ha]
  refine ⟨ext_addTo _ _ _ _, ?_, rfl, by simp [ha], ?_, ?_⟩
  · unfold readPtr
    simp only [findFile_addTo, hg, Option.map_some]
    have hgi : isFile b m g = true := isFile_iff.mpr (findFile_some hg).2
    simp only [addRec, hgi, if_true, recsOf, hg]
    exact recAt_append_new _ _ _
  · simp only [maxFid?_addTo, h]
  · intro b' _
    simp only [maxFid?_addTo]

theorem ensure_spec (fs : List VFile) (b : Nat) :
    Ext fs (ensure fs b) ∧ (∃ m, maxFid? (ensure fs b) b = some m ∧ activeFid fs b ≤ m) ∧
      (∀ b', b' ≠ b → maxFid? (ensure fs b) b' = maxFid? fs b') := by
  unfold ensure
  cases h : maxFid? fs b with
  | some m => exact ⟨Ext.refl _, ⟨m, h, by simp [activeFid, h]⟩, fun _ _ => rfl⟩
  | none =>
    refine ⟨ext_append_file _ _, ⟨0, ?_, by simp [activeFid, h]⟩, ?_⟩
    · simp [maxFid?_append, h]
    · intro b' hb'
      have : ¬ (b = b') := fun e => hb' e.symm
      simp [maxFid?_append, this]

theorem rotate_spec {fs : List VFile} {b m : Nat} (h : maxFid? fs b = some m) :
    Ext fs (rotate fs b) ∧ maxFid? (rotate fs b) b = some (m + 1) ∧
      (∀ b', b' ≠ b → maxFid? (rotate fs b) b' = maxFid? fs b') := by
  unfold rotate
  refine ⟨ext_append_file _ _, ?_, ?_⟩
  · simp only [maxFid?_append, activeFid_of_some h, h, if_true]
    congr 1
    exact Nat.max_eq_right (by omega)
  · intro b' hb'
    have : ¬ (b = b') := fun e => hb' e.symm
    simp [maxFid?_append, this]

theorem reserve_spec (c : VCfg) (P : Params) (fs : List VFile) (b sz : Nat) :
    Ext fs (reserve c P fs b sz) ∧ (∃ m, maxFid? (reserve c P fs b sz) b = some m ∧ activeFid fs b ≤ m) ∧
      (∀ b', b' ≠ b → maxFid? (reserve c P fs b sz) b' = maxFid? fs b') := by
  obtain ⟨he, ⟨m, hm, hle⟩, ho⟩ := ensure_spec fs b
  unfold reserve
  simp only
  split
  · obtain ⟨hr, hm', ho'⟩ := rotate_spec hm
    exact ⟨he.trans hr, ⟨m + 1, hm', by omega⟩, fun b' hb' => by rw [ho' b' hb', ho b' hb']⟩
  · exact ⟨he, ⟨m, hm, hle⟩, ho⟩

theorem appendOne_ok (c : VCfg) (P : Params) (fs : List VFile) (b : Nat) (x : Rec) :
    AppendOk fs (appendOne c P fs b x).1 b x (appendOne c P fs b x).2 := by
  obtain ⟨he, ⟨m, hm, hle⟩, ho⟩ := reserve_spec c P fs b (recLen x)
  have h := appendNoRot_ok x hm
  unfold appendOne
  refine ⟨he.trans h.ext, h.read, h.bucket, ?_, h.fid_active, ?_⟩
  · have := h.fid_ge
    rw [activeFid_of_some hm] at this
    omega
  · intro b' hb'
    rw [h.others b' hb', ho b' hb']

/-- pointwise relation between two lists of equal length (core Lean has no `Forall₂`) -/
inductive All2 {α β : Type} (R : α → β → Prop) : List α → List β → Prop where
  | nil : All2 R [] []
  | cons {a b as bs} : R a b → All2 R as bs → All2 R (a :: as) (b :: bs)

/-- the result of appending a batch: every record readable through its pointer, in the bucket,
    at or after the previously active file -/
structure BatchOk (fs fs' : List VFile) (b : Nat) (rs : List Rec) (ps : List Ptr) : Prop where
  ext : Ext fs fs'
  each : All2 (fun r p => readPtr fs' p = some r ∧ p.bucket = b ∧ activeFid fs b ≤ p.fid) rs ps
  others : ∀ b', b' ≠ b → maxFid? fs' b' = maxFid? fs b'
  active_ge : activeFid fs b ≤ activeFid fs' b

theorem forall₂_weaken {fs1 fs2 : List VFile} {b a0 a1 : Nat} (he : Ext fs1 fs2) (hle : a0 ≤ a1)
    {rs : List Rec} {ps : List Ptr}
    (h : All2 (fun r p => readPtr fs1 p = some r ∧ p.bucket = b ∧ a1 ≤ p.fid) rs ps) :
    All2 (fun r p => readPtr fs2 p = some r ∧ p.bucket = b ∧ a0 ≤ p.fid) rs ps := by
  induction h with
  | nil => exact All2.nil
  | cons hh _ ih => exact All2.cons ⟨he _ _ hh.1, hh.2.1, by have := hh.2.2; omega⟩ ih

theorem appendAllNoRot_ok {fs : List VFile} {b m : Nat} (rs : List Rec) (h : maxFid? fs b = some m) :
    BatchOk fs (appendAllNoRot fs b rs).1 b rs (appendAllNoRot fs b rs).2 ∧
      maxFid? (appendAllNoRot fs b rs).1 b = some m := by
  induction rs generalizing fs with
  | nil =>
    simp only [appendAllNoRot]
    exact ⟨⟨Ext.refl _, All2.nil, fun _ _ => rfl, Nat.le_refl _⟩, h⟩
  | cons x xs ih =>
    have h1 := appendNoRot_ok x h
    have hfid : (appendNoRot fs b x).2.fid = m := by simp [appendNoRot, activeFid_of_some h]
    have hm1 : maxFid? (appendNoRot fs b x).1 b = some m := by rw [h1.fid_active, hfid]
    obtain ⟨h2, hm2⟩ := ih hm1
    simp only [appendAllNoRot]
    refine ⟨⟨h1.ext.trans h2.ext, ?_, ?_, ?_⟩, hm2⟩
    · refine All2.cons ⟨h2.ext _ _ h1.read, h1.bucket, h1.fid_ge⟩ ?_
      have := h2.each
      rw [activeFid_of_some hm1] at this
      rw [activeFid_of_some h]
      exact forall₂_weaken (Ext.refl _) (Nat.le_refl _) this
    · intro b' hb'
      rw [h2.others b' hb', h1.others b' hb']
    · rw [activeFid_of_some h, activeFid_of_some hm2]; exact Nat.le_refl _

theorem appendEach_ok (c : VCfg) (P : Params) (fs : List VFile) (b : Nat) (rs : List Rec) :
    BatchOk fs (appendEach c P fs b rs).1 b rs (appendEach c P fs b rs).2 := by
  induction rs generalizing fs with
  | nil =>
    simp only [appendEach]
    exact ⟨Ext.refl _, All2.nil, fun _ _ => rfl, Nat.le_refl _⟩
  | cons x xs ih =>
    have h1 := appendOne_ok c P fs b x
    have h2 := ih (appendOne c P fs b x).1
    have hact : activeFid fs b ≤ activeFid (appendOne c P fs b x).1 b := by
      rw [activeFid_of_some h1.fid_active]; exact h1.fid_ge
    simp only [appendEach]
    refine ⟨h1.ext.trans h2.ext, ?_, ?_, ?_⟩
    · refine All2.cons ⟨h2.ext _ _ h1.read, h1.bucket, h1.fid_ge⟩ ?_
      exact forall₂_weaken (Ext.refl _) hact h2.each
    · intro b' hb'
      rw [h2.others b' hb', h1.others b' hb']
    · have := h2.active_ge; omega

theorem appendBatch_ok (c : VCfg) (P : Params) (fs : List VFile) (b : Nat) (rs : List Rec) :
    BatchOk fs (appendBatch c P fs b rs).1 b rs (appendBatch c P fs b rs).2 := by
  unfold appendBatch
  split
  · rename_i h; subst h
    exact ⟨Ext.refl _, All2.nil, fun _ _ => rfl, Nat.le_refl _⟩
  · split
    · exact appendEach_ok c P fs b rs
    · obtain ⟨he, ⟨m, hm, hle⟩, ho⟩ := reserve_spec c P fs b (total rs)
      obtain ⟨h2, hm2⟩ := appendAllNoRot_ok rs hm
      refine ⟨he.trans h2.ext, ?_, ?_, ?_⟩
      · have := h2.each
        rw [activeFid_of_some hm] at this
        exact forall₂_weaken (Ext.refl _) hle this
      · intro b' hb'
        rw [h2.others b' hb', ho b' hb']
      · rw [activeFid_of_some hm2]; exact hle

/-! ### removing files -/

theorem findFile_filter {fs : List VFile} {q : VFile → Bool} {b fid : Nat}
    (h : ∀ f, f ∈ fs → isFile b fid f = true → q f = true) :
    findFile (fs.filter q) b fid = findFile fs b fid := by
  induction fs with
  | nil => rfl
  | cons g gs ih =>
    have ih' := ih (fun f hf => h f (List.mem_cons_of_mem _ hf))
    unfold findFile at ih' ⊢
    simp only [List.filter_cons]
    cases hq : q g with
    | true =>
      simp only [if_true, List.find?_cons]
      cases isFile b fid g <;> simp [ih']
    | false =>
      have hg : isFile b fid g = false := by
        cases hi : isFile b fid g with
        | false => rfl
        | true => have := h g List.mem_cons_self hi; rw [hq] at this; cases this
      simp only [Bool.false_eq_true, if_false, List.find?_cons, hg, ih']

theorem readPtr_filter {fs : List VFile} {q : VFile → Bool} {p : Ptr}
    (h : ∀ f, f ∈ fs → isFile p.bucket p.fid f = true → q f = true) :
    readPtr (fs.filter q) p = readPtr fs p := by
  unfold readPtr
  rw [findFile_filter h]

theorem readPtr_removeFile {fs : List VFile} {b f : Nat} {p : Ptr} (h : ¬ (p.bucket = b ∧ p.fid = f)) :
    readPtr (removeFile fs b f) p = readPtr fs p := by
  unfold removeFile
  apply readPtr_filter
  intro g _ hg
  obtain ⟨h1, h2⟩ := isFile_iff.mp hg
  cases hi : isFile b f g with
  | false => rfl
  | true =>
    obtain ⟨h3, h4⟩ := isFile_iff.mp hi
    exact absurd ⟨h1 ▸ h3, h2 ▸ h4⟩ h

end NoKV.Vlog

/-
Disk-level lemmas: files of the model directory, which steps leave "CURRENT names file n with
content f" alone, crash images of step lists, the free-id probe.
-/
import NoKVModel.Manifest.Disk
import NoKVModel.Manifest.SnapLemmas

namespace NoKV.Manifest

/-! ## files -/

theorem lookup_filter_ne {m n : Nat} (h : m ≠ n) (l : List (Nat × MFile)) :
    List.lookup m (l.filter (fun p => p.1 ≠ n)) = List.lookup m l := by
  induction l with
  | nil => rfl
  | cons p t ih =>
    obtain ⟨k, f⟩ := p
    simp only [List.filter_cons]
    split
    · by_cases hm : m = k
      · subst hm
        simp only [List.lookup, beq_self_eq_true]
      · have : (m == k) = false := by simpa using hm
        simp only [List.lookup, this]
        exact ih
    · rename_i hp
      have hk : k = n := by simpa using hp
      subst hk
      have : (m == k) = false := by simpa using h
      simp only [List.lookup, this]
      exact ih

theorem file_setFile_self (d : Disk) (n : Nat) (f : MFile) : (d.setFile n f).file? n = some f := by
  simp only [Disk.setFile, Disk.file?, List.lookup, beq_self_eq_true]

theorem file_setFile_ne (d : Disk) {m n : Nat} (h : m ≠ n) (f : MFile) :
    (d.setFile n f).file? m = d.file? m := by
  have : (m == n) = false := by simpa using h
  simp only [Disk.setFile, Disk.file?, List.lookup, this]
  exact lookup_filter_ne h _

theorem file_rmFile_ne (d : Disk) {m n : Nat} (h : m ≠ n) : (d.rmFile n).file? m = d.file? m := by
  simp only [Disk.rmFile, Disk.file?]
  exact lookup_filter_ne h _

theorem mem_ids_of_file {d : Disk} {n : Nat} {f : MFile} (h : d.file? n = some f) :
    n ∈ d.files.map (fun p => p.1) := by
  unfold Disk.file? at h
  generalize d.files = l at h
  induction l with
  | nil => simp [List.lookup] at h
  | cons p t ih =>
    obtain ⟨k, g⟩ := p
    by_cases hk : n = k
    · subst hk; simp
    · have : (n == k) = false := by simpa using hk
      simp only [List.lookup, this] at h
      simp [ih h]

/-! ## "CURRENT names file n whose content is f" -/

def Points (d : Disk) (n : Nat) (f : MFile) : Prop := d.current = some n ∧ d.file? n = some f

/-- steps that touch neither CURRENT nor file `n` -/
def Harmless (n : Nat) : Step → Prop
  | .stat _ => True
  | .sync _ => True
  | .close _ => True
  | .openrw _ => True
  | .writeTmp _ => True
  | .tmpOpen => True
  | .tmpWrite _ => True
  | .tmpSync => True
  | .tmpClose => True
  | .create k => k ≠ n
  | .setRaw k _ => k ≠ n
  | .remove k => k ≠ n
  | .append k _ => k ≠ n
  | .renameTmp => False
  | .writeCur _ => False

theorem points_step {d : Disk} {n : Nat} {f : MFile} {s : Step} (hs : Harmless n s) (h : Points d n f) :
    Points (d.step s) n f := by
  obtain ⟨hc, hf⟩ := h
  cases s with
  | stat k => exact ⟨hc, hf⟩
  | sync k => exact ⟨hc, hf⟩
  | close k => exact ⟨hc, hf⟩
  | openrw k => exact ⟨hc, hf⟩
  | writeTmp k => exact ⟨hc, hf⟩
  | tmpOpen => exact ⟨hc, hf⟩
  | tmpWrite k => exact ⟨hc, hf⟩
  | tmpSync => exact ⟨hc, hf⟩
  | tmpClose => exact ⟨hc, hf⟩
  | create k =>
    have hne : n ≠ k := fun e => hs e.symm
    exact ⟨hc, by simp only [Disk.step]; rw [file_setFile_ne d hne]; exact hf⟩
  | setRaw k g =>
    have hne : n ≠ k := fun e => hs e.symm
    exact ⟨hc, by simp only [Disk.step]; rw [file_setFile_ne d hne]; exact hf⟩
  | remove k =>
    have hne : n ≠ k := fun e => hs e.symm
    exact ⟨hc, by simp only [Disk.step]; rw [file_rmFile_ne d hne]; exact hf⟩
  | append k rs =>
    have hne : n ≠ k := fun e => hs e.symm
    simp only [Disk.step]
    cases d.file? k with
    | none => exact ⟨hc, hf⟩
    | some g => exact ⟨hc, by rw [file_setFile_ne d hne]; exact hf⟩
  | renameTmp => exact absurd hs id
  | writeCur k => exact absurd hs id

/-! ## images of step lists -/

theorem steps_append (d : Disk) (a b : List Step) : d.steps (a ++ b) = (d.steps a).steps b := by
  simp [Disk.steps, List.foldl_append]

theorem steps_cons (d : Disk) (s : Step) (t : List Step) : d.steps (s :: t) = (d.step s).steps t := rfl

theorem stepImages_append (d : Disk) (a i : Nat) (l1 l2 : List Step) :
    stepImages d a i (l1 ++ l2) = stepImages d a i l1 ++ stepImages (d.steps l1) a i l2 := by
  induction l1 generalizing d with
  | nil => rfl
  | cons s t ih => simp [stepImages, steps_cons, ih]

theorem tornImages_append (d : Disk) (a i : Nat) (l1 l2 : List Step) :
    tornImages d a i (l1 ++ l2) = tornImages d a i l1 ++ tornImages (d.steps l1) a i l2 := by
  induction l1 generalizing d with
  | nil => rfl
  | cons s t ih => simp [tornImages, steps_cons, ih]

/-- an invariant preserved by every step of the list holds at every crash image and at the end -/
theorem stepImages_inv (P : Disk → Prop) (ss : List Step)
    (hstep : ∀ s ∈ ss, ∀ d, P d → P (d.step s)) (d : Disk) (h0 : P d) (a i : Nat) :
    (∀ im ∈ stepImages d a i ss, P im.disk ∧ im.acked = a) ∧ P (d.steps ss) := by
  induction ss generalizing d with
  | nil => exact ⟨by simp [stepImages], h0⟩
  | cons s t ih =>
    have h1 : P (d.step s) := hstep s List.mem_cons_self d h0
    obtain ⟨hi, he⟩ := ih (fun s' hs' => hstep s' (List.mem_cons_of_mem _ hs')) (d.step s) h1
    refine ⟨?_, he⟩
    intro im him
    rcases List.mem_cons.mp him with him | him
    · subst him; exact ⟨h0, rfl⟩
    · exact hi im him

def NoAppend : Step → Prop
  | .append _ _ => False
  | _ => True

theorem tornImages_noAppend (d : Disk) (a i : Nat) (ss : List Step) (h : ∀ s ∈ ss, NoAppend s) :
    tornImages d a i ss = [] := by
  induction ss generalizing d with
  | nil => rfl
  | cons s t ih =>
    have hs := h s List.mem_cons_self
    have ht := ih (d.step s) (fun s' hs' => h s' (List.mem_cons_of_mem _ hs'))
    cases s <;> simp_all [tornImages, NoAppend]

/-! ## the free-id probe -/

theorem freeId_free (fuel : Nat) (ids : List Nat) (id : Nat) (h : ids.length ≤ fuel) :
    (freeId fuel ids id).1 ∉ ids ∧ id ≤ (freeId fuel ids id).1 := by
  induction fuel generalizing ids id with
  | zero =>
    have : ids = [] := List.eq_nil_of_length_eq_zero (by omega)
    subst this
    simp [freeId]
  | succ n ih =>
    unfold freeId
    split
    · rename_i hmem
      have hlen : (ids.erase id).length ≤ n := by
        rw [List.length_erase_of_mem hmem]; omega
      obtain ⟨h1, h2⟩ := ih (ids.erase id) (id + 1) hlen
      refine ⟨?_, by simp only; omega⟩
      simp only
      intro hin
      apply h1
      have hne : (freeId n (ids.erase id) (id + 1)).1 ≠ id := by omega
      exact (List.mem_erase_of_ne hne).mpr hin
    · rename_i hmem
      exact ⟨hmem, Nat.le_refl _⟩

theorem freeId_stats (fuel : Nat) (ids : List Nat) (id : Nat) :
    ∀ s ∈ (freeId fuel ids id).2, ∃ k, s = Step.stat k := by
  induction fuel generalizing ids id with
  | zero => intro s hs; simp [freeId] at hs; exact ⟨id, hs⟩
  | succ n ih =>
    intro s hs
    unfold freeId at hs
    split at hs
    · rcases List.mem_cons.mp hs with hs | hs
      · exact ⟨id, hs⟩
      · exact ih _ _ s hs
    · simp at hs; exact ⟨id, hs⟩

theorem rwFree_ne_cur {m : Mgr} {d : Disk} {cur : Nat} {f : MFile} (h : d.file? cur = some f) :
    (rwFree m d).1 ≠ cur := by
  intro e
  have := (freeId_free _ (d.files.map (fun p => p.1)) (if m.next = 0 then 1 else m.next) (Nat.le_refl _)).1
  unfold rwFree at e
  rw [e] at this
  exact this (mem_ids_of_file h)

/-! ## recovery of a directory whose CURRENT names a known file -/

theorem recoverDB_points_clean (c : MCfg) {d : Disk} {n : Nat} {f : MFile} (h : Points d n f)
    (ht : f.tail = .clean) : recoverDB c d = some (replay c f.recs) := by
  obtain ⟨hc, hf⟩ := h
  simp [recoverDB, hc, hf, verifyFile, replayFile, ht]

theorem recoverDB_points_torn (c : MCfg) (h1 : c.verifyTruncPartLen = true) (h2 : c.verifyTruncLenOnly = true)
    (h3 : c.verifyTruncPartPayload = true) {d : Disk} {n : Nat} {f : MFile} (h : Points d n f) :
    recoverDB c d = some (replay c f.recs) := by
  obtain ⟨hc, hf⟩ := h
  cases ht : f.tail <;> simp [recoverDB, hc, hf, verifyFile, replayFile, ht, h1, h2, h3]

theorem recoverOpen_eq_recoverDB (c : MCfg) (h : c.openVerifies = true) (d : Disk) :
    recoverOpen c d = recoverDB c d := by
  simp [recoverOpen, recoverDB, h]

theorem recoverOpen_points_clean (c : MCfg) {d : Disk} {n : Nat} {f : MFile} (h : Points d n f)
    (ht : f.tail = .clean) : recoverOpen c d = some (replay c f.recs) := by
  obtain ⟨hc, hf⟩ := h
  cases ho : c.openVerifies <;> simp [recoverOpen, hc, hf, verifyFile, replayFile, ht, ho]

theorem tornFiles_shape (f : MFile) (es : List Edit) :
    ∀ f' ∈ tornFiles f es, ∃ i, i ≤ es.length ∧ f'.recs = f.recs ++ es.take i := by
  induction es generalizing f with
  | nil => intro f' h; simp [tornFiles] at h
  | cons e rest ih =>
    intro f' h
    simp only [tornFiles, List.mem_append, List.mem_cons, List.not_mem_nil, or_false] at h
    rcases h with (h | h) | h
    · rcases h with h | h | h <;> (subst h; exact ⟨0, by simp, by simp⟩)
    · cases rest with
      | nil => simp at h
      | cons e2 r2 =>
        simp at h
        subst h
        exact ⟨1, by simp, by simp⟩
    · obtain ⟨i, hi, hr⟩ := ih _ f' h
      refine ⟨i + 1, by simp; omega, ?_⟩
      rw [hr]
      simp

end NoKV.Manifest

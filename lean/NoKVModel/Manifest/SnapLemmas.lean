/-
SNAPSHOT FAITHFULNESS: replaying the edits `writeSnapshot` writes, from the empty version,
gives back the version (files in canonical order).  This is where field-level mismatches
between `apply` and `writeSnapshot` surface as hypotheses (`snapInvalidAsUpdate`).
-/
import NoKVModel.Manifest.VersionLemmas

namespace NoKV.Manifest
open KMap

theorem applyAll_addFiles (c : MCfg) (l : List FileMeta) (v : Version) :
    applyAll c v (l.map Edit.addFile) = { v with files := v.files ++ l } := by
  induction l generalizing v with
  | nil => simp [applyAll]
  | cons m t ih =>
    simp only [List.map_cons, applyAll, List.foldl_cons]
    have := ih (apply c v (.addFile m))
    simp only [applyAll] at this
    rw [this]
    simp [apply]

theorem headMatches_nil (b f : Nat) : headMatches ([] : KMap VlogMeta) b f = false := rfl

theorem applyAll_vlogUpds (c : MCfg) (l acc : KMap VlogMeta) (v : Version)
    (hk : ∀ p ∈ l, p.1 = (p.2.bucket, p.2.fid)) (hs : Sorted (acc ++ l))
    (hv : v.vlogs = acc) (hh : v.heads = []) :
    applyAll c v (l.map (fun p => Edit.vlogUpd (some p.2))) = { v with vlogs := acc ++ l } := by
  induction l generalizing v acc with
  | nil => subst hv; simp [applyAll]
  | cons p t ih =>
    simp only [List.map_cons, applyAll, List.foldl_cons]
    have hp : p.1 = (p.2.bucket, p.2.fid) := hk p List.mem_cons_self
    have hlast : ins (p.2.bucket, p.2.fid) p.2 acc = acc ++ [p] := by
      rw [← hp]
      have := ins_append_last (k := p.1) (x := p.2) (m := acc) (by
        intro q hq
        unfold Sorted at hs
        rw [List.pairwise_append] at hs
        exact hs.2.2 q hq p List.mem_cons_self)
      simpa using this
    have hstep : apply c v (.vlogUpd (some p.2)) = { v with vlogs := acc ++ [p] } := by
      simp [apply, hh, headMatches_nil, hv, hlast]
    rw [hstep]
    have := ih (acc ++ [p]) { v with vlogs := acc ++ [p] }
      (fun q hq => hk q (List.mem_cons_of_mem _ hq)) (by simpa using hs) rfl hh
    simp only [applyAll] at this
    rw [this]
    simp

theorem applyAll_heads (c : MCfg) (hf : c.headForcesValid = true) (l acc : KMap VlogMeta) (v : Version)
    (hk : ∀ p ∈ l, p.1 = (p.2.bucket, 0) ∧ p.2.valid = true ∧ v.vlogs.get (p.2.bucket, p.2.fid) = some p.2)
    (hvs : Sorted v.vlogs) (hs : Sorted (acc ++ l)) (hh : v.heads = acc) :
    applyAll c v (l.map (fun p => Edit.vlogHead (some p.2))) = { v with heads := acc ++ l } := by
  induction l generalizing v acc with
  | nil => subst hh; simp [applyAll]
  | cons p t ih =>
    simp only [List.map_cons, applyAll, List.foldl_cons]
    obtain ⟨hp, hval, hget⟩ := hk p List.mem_cons_self
    have hm : ({ p.2 with valid := true } : VlogMeta) = p.2 := by
      cases h : p.2; simp [h] at hval; simp [hval]
    have hlast : ins (p.2.bucket, 0) p.2 acc = acc ++ [p] := by
      rw [← hp]
      have := ins_append_last (k := p.1) (x := p.2) (m := acc) (by
        intro q hq
        unfold Sorted at hs
        rw [List.pairwise_append] at hs
        exact hs.2.2 q hq p List.mem_cons_self)
      simpa using this
    have hstep : apply c v (.vlogHead (some p.2)) = { v with heads := acc ++ [p] } := by
      simp only [apply, hf, if_true, hm, ins_same hvs hget, hh, hlast]
    rw [hstep]
    have := ih (acc ++ [p]) { v with heads := acc ++ [p] }
      (fun q hq => hk q (List.mem_cons_of_mem _ hq)) hvs (by simpa using hs) rfl
    simp only [applyAll] at this
    rw [this]
    simp

theorem applyAll_rafts (c : MCfg) (l acc : KMap RaftPtr) (v : Version)
    (hk : ∀ p ∈ l, p.1 = (p.2.group, 0)) (hs : Sorted (acc ++ l)) (hv : v.rafts = acc) :
    applyAll c v (l.map (fun p => Edit.raft (some p.2))) = { v with rafts := acc ++ l } := by
  induction l generalizing v acc with
  | nil => subst hv; simp [applyAll]
  | cons p t ih =>
    simp only [List.map_cons, applyAll, List.foldl_cons]
    have hp : p.1 = (p.2.group, 0) := hk p List.mem_cons_self
    have hlast : ins (p.2.group, 0) p.2 acc = acc ++ [p] := by
      rw [← hp]
      have := ins_append_last (k := p.1) (x := p.2) (m := acc) (by
        intro q hq
        unfold Sorted at hs
        rw [List.pairwise_append] at hs
        exact hs.2.2 q hq p List.mem_cons_self)
      simpa using this
    have hstep : apply c v (.raft (some p.2)) = { v with rafts := acc ++ [p] } := by
      simp [apply, hv, hlast]
    rw [hstep]
    have := ih (acc ++ [p]) { v with rafts := acc ++ [p] }
      (fun q hq => hk q (List.mem_cons_of_mem _ hq)) (by simpa using hs) rfl
    simp only [applyAll] at this
    rw [this]
    simp

theorem applyAll_regions (c : MCfg) (l acc : KMap RegionMeta) (v : Version)
    (hk : ∀ p ∈ l, p.1 = (p.2.id, 0)) (hs : Sorted (acc ++ l)) (hv : v.regions = acc) :
    applyAll c v (l.map (fun p => Edit.region (some (p.2, false)))) = { v with regions := acc ++ l } := by
  induction l generalizing v acc with
  | nil => subst hv; simp [applyAll]
  | cons p t ih =>
    simp only [List.map_cons, applyAll, List.foldl_cons]
    have hp : p.1 = (p.2.id, 0) := hk p List.mem_cons_self
    have hlast : ins (p.2.id, 0) p.2 acc = acc ++ [p] := by
      rw [← hp]
      have := ins_append_last (k := p.1) (x := p.2) (m := acc) (by
        intro q hq
        unfold Sorted at hs
        rw [List.pairwise_append] at hs
        exact hs.2.2 q hq p List.mem_cons_self)
      simpa using this
    have hstep : apply c v (.region (some (p.2, false))) = { v with regions := acc ++ [p] } := by
      simp [apply, hv, hlast]
    rw [hstep]
    have := ih (acc ++ [p]) { v with regions := acc ++ [p] }
      (fun q hq => hk q (List.mem_cons_of_mem _ hq)) (by simpa using hs) rfl
    simp only [applyAll] at this
    rw [this]
    simp

/-- **Snapshot faithfulness** (apply level). -/
theorem snapshot_applyAll (c : MCfg) (hsn : c.snapInvalidAsUpdate = true) (hf : c.headForcesValid = true)
    {v : Version} (hw : WF v) :
    applyAll c Version.empty (snapshotEdits c v) = canon v := by
  unfold snapshotEdits
  simp only [hsn, or_true, if_true]
  rw [applyAll_append, applyAll_append, applyAll_append, applyAll_append, applyAll_append]
  rw [applyAll_addFiles]
  have h1 : applyAll c { Version.empty with files := Version.empty.files ++ sortF v.files }
      [Edit.logPtr v.logSeg v.logOff] =
      { files := sortF v.files, logSeg := v.logSeg, logOff := v.logOff } := by
    simp [applyAll, apply, Version.empty]
  rw [h1]
  rw [applyAll_vlogUpds c v.vlogs [] _ hw.vkey (by simpa using hw.vs) rfl rfl]
  rw [applyAll_heads c hf v.heads [] _ ?_ (by simpa using hw.vs) (by simpa using hw.hs) rfl]
  · rw [applyAll_rafts c v.rafts [] _ hw.rkey (by simpa using hw.rs) rfl]
    rw [applyAll_regions c v.regions [] _ hw.gkey (by simpa using hw.gs) rfl]
    simp [canon]
  · intro p hp
    have hg : v.heads.get p.1 = some p.2 := get_of_mem hw.hs (by simpa using hp)
    obtain ⟨a, b, d⟩ := hw.hkey p.1 p.2 hg
    exact ⟨a, b, by simpa using d⟩

/-- every snapshot edit survives the codec round trip (all payloads present, heads valid) -/
theorem snapshot_roundTrips (c : MCfg) (hf : c.headForcesValid = true) (v : Version) :
    ∀ e ∈ snapshotEdits c v, RoundTrips c e := by
  intro e he v'
  unfold snapshotEdits at he
  simp only [List.mem_append, List.mem_map, List.mem_singleton] at he
  rcases he with ((((he | he) | he) | he) | he) | he
  · obtain ⟨m, _, rfl⟩ := he; rfl
  · subst he; rfl
  · obtain ⟨p, _, rfl⟩ := he
    split
    · rfl
    · simp [decodeNorm, apply]
  · obtain ⟨p, _, rfl⟩ := he
    simp [decodeNorm, apply, hf]
  · obtain ⟨p, _, rfl⟩ := he; rfl
  · obtain ⟨p, _, rfl⟩ := he; rfl

/-- **Snapshot faithfulness** (replay level: what `Open` reads back from a rewritten manifest). -/
theorem snapshot_faithful (c : MCfg) (hsn : c.snapInvalidAsUpdate = true) (hf : c.headForcesValid = true)
    {v : Version} (hw : WF v) : replay c (snapshotEdits c v) = canon v := by
  unfold replay
  rw [replayFrom_eq_applyAll c _ (snapshot_roundTrips c hf v)]
  exact snapshot_applyAll c hsn hf hw

end NoKV.Manifest

/-
The run invariant of the manifest step model, from which C15_reload_eq and C15_crash_prefix
follow.  Parametrised by an invariant `I` of in-memory versions and a class `allowed` of edits,
so that the same argument gives the theorem for the repaired configuration (all edits) and the
`_partial` theorem for the as-is configuration (edits outside the three defects).
-/
import NoKVModel.Manifest.CrashLemmas

namespace NoKV.Manifest
open KMap

/-- the directory recovers (Verify; Open) to `S` up to per-level file order -/
def Recovers (c : MCfg) (d : Disk) (S : Version) : Prop :=
  ∃ v, recoverDB c d = some v ∧ canon v = canon S

structure Hyps (c : MCfg) (I : Version → Prop) (allowed : Edit → Prop) : Prop where
  ord : OrderOK c
  dff : c.delFileFirstOnly = true
  t1 : c.verifyTruncPartLen = true
  t2 : c.verifyTruncLenOnly = true
  t3 : c.verifyTruncPartPayload = true
  i0 : I Version.empty
  istep : ∀ v e, allowed e → I v → I (apply c v e)
  snap : ∀ v, I v → replay c (snapshotEdits c v) = canon v
  rt : ∀ e, allowed e → RoundTrips c e

theorem take_append_len {α : Type} (l1 l2 : List α) (i : Nat) :
    (l1 ++ l2).take (l1.length + i) = l1 ++ l2.take i := by
  induction l1 with
  | nil => simp
  | cons x t ih => simp [Nat.succ_add, ih]

theorem take_append_le {α : Type} (l1 l2 : List α) {j : Nat} (h : j ≤ l1.length) :
    (l1 ++ l2).take j = l1.take j := by
  induction l1 generalizing j with
  | nil => simp at h; subst h; simp
  | cons x t ih =>
    cases j with
    | zero => simp
    | succ j => simp at h; simp [ih h]

theorem I_applyAll {c : MCfg} {I : Version → Prop} {allowed : Edit → Prop} (H : Hyps c I allowed)
    (es : List Edit) (he : ∀ e ∈ es, allowed e) {v : Version} (hv : I v) : I (applyAll c v es) := by
  induction es generalizing v with
  | nil => exact hv
  | cons e t ih =>
    exact ih (fun e' he' => he e' (List.mem_cons_of_mem _ he')) (H.istep v e (he e List.mem_cons_self) hv)

theorem replay_extend {c : MCfg} {I : Version → Prop} {allowed : Edit → Prop} (H : Hyps c I allowed)
    {rs : List Edit} {S : Version} (hcan : canon (replay c rs) = canon S)
    (es : List Edit) (he : ∀ e ∈ es, allowed e) :
    canon (replay c (rs ++ es)) = canon (applyAll c S es) := by
  unfold replay
  rw [replayFrom_append, replayFrom_eq_applyAll c es (fun e h => H.rt e (he e h))]
  exact canon_applyAll_congr c H.dff es hcan

theorem recovers_of_points {c : MCfg} {I : Version → Prop} {allowed : Edit → Prop} (H : Hyps c I allowed)
    {d : Disk} {n : Nat} {f : MFile} {S : Version} (hp : Points d n f)
    (hcan : canon (replay c f.recs) = canon S) : Recovers c d S :=
  ⟨_, recoverDB_points_torn c H.t1 H.t2 H.t3 hp, hcan⟩

/-- crash images of the append of a batch -/
theorem append_phase {c : MCfg} {I : Version → Prop} {allowed : Edit → Prop} (H : Hyps c I allowed)
    {d : Disk} {cur : Nat} {f : MFile} {S : Version} (hp : Points d cur f)
    (hcan : canon (replay c f.recs) = canon S) (es : List Edit) (he : ∀ e ∈ es, allowed e)
    (sw : Bool) (m : Mgr) (hm : m.cur = cur) (a i : Nat) :
    (∀ im ∈ stepImages d a i (appendSteps c sw m es),
        (Recovers c im.disk S ∨ Recovers c im.disk (applyAll c S es)) ∧ im.acked = a) ∧
    (∀ im ∈ tornImages d a i (appendSteps c sw m es),
        ∃ k, k ≤ es.length ∧ Recovers c im.disk (applyAll c S (es.take k)) ∧ im.acked = a) ∧
    Points (d.steps (appendSteps c sw m es)) cur { f with recs := f.recs ++ es } ∧
    canon (replay c (f.recs ++ es)) = canon (applyAll c S es) := by
  have hext := replay_extend H hcan es he
  have hd1 : d.step (.append cur es) = d.setFile cur { f with recs := f.recs ++ es } := by
    simp [Disk.step, hp.2]
  have hp1 : Points (d.setFile cur { f with recs := f.recs ++ es }) cur { f with recs := f.recs ++ es } :=
    ⟨hp.1, file_setFile_self d cur _⟩
  have htorn : ∀ f' ∈ tornFiles f es, ∃ k, k ≤ es.length ∧
      Recovers c (d.setFile cur f') (applyAll c S (es.take k)) := by
    intro f' hf'
    obtain ⟨k, hk, hr⟩ := tornFiles_shape f es f' hf'
    refine ⟨k, hk, ?_⟩
    have hpp : Points (d.setFile cur f') cur f' := ⟨hp.1, file_setFile_self d cur _⟩
    refine recovers_of_points H hpp ?_
    rw [hr]
    exact replay_extend H hcan _ (fun e h => he e (List.mem_of_mem_take h))
  unfold appendSteps
  rw [hm]
  by_cases hs : (c.syncOnAppend = true ∧ sw = true ∧ es.any requiresSync = true)
  · simp only [hs, and_self, if_true]
    refine ⟨?_, ?_, ?_, hext⟩
    · intro im him
      simp only [List.singleton_append, stepImages, hd1, List.mem_cons, List.not_mem_nil, or_false] at him
      rcases him with him | him
      · subst him; exact ⟨Or.inl (recovers_of_points H hp hcan), rfl⟩
      · subst him; exact ⟨Or.inr (recovers_of_points H hp1 hext), rfl⟩
    · intro im him
      simp only [List.singleton_append, tornImages, hp.2, List.append_nil, List.mem_map] at him
      obtain ⟨f', hf', rfl⟩ := him
      obtain ⟨k, hk, hr⟩ := htorn f' hf'
      exact ⟨k, hk, hr, rfl⟩
    · simp only [List.singleton_append, steps_cons, hd1]
      exact hp1
  · simp only [hs, if_false, List.append_nil]
    refine ⟨?_, ?_, ?_, hext⟩
    · intro im him
      simp only [stepImages, List.mem_cons, List.not_mem_nil, or_false] at him
      subst him; exact ⟨Or.inl (recovers_of_points H hp hcan), rfl⟩
    · intro im him
      simp only [tornImages, hp.2, List.append_nil, List.mem_map] at him
      obtain ⟨f', hf', rfl⟩ := him
      obtain ⟨k, hk, hr⟩ := htorn f' hf'
      exact ⟨k, hk, hr, rfl⟩
    · simp only [steps_cons, hd1]
      exact hp1

/-- crash images of a rewrite from a quiescent state -/
theorem rewrite_phase {c : MCfg} {I : Version → Prop} {allowed : Edit → Prop} (H : Hyps c I allowed)
    {d : Disk} {f : MFile} {S : Version} (m : Mgr) (hp : Points d m.cur f)
    (hcan : canon (replay c f.recs) = canon S) (hv : m.v = S) (hI : I S) (sw : Bool) (a i : Nat) :
    (∀ im ∈ stepImages d a i (rewriteSteps c sw m d).1, Recovers c im.disk S ∧ im.acked = a) ∧
    tornImages d a i (rewriteSteps c sw m d).1 = [] ∧
    (∃ f', Points (d.steps (rewriteSteps c sw m d).1) (rewriteSteps c sw m d).2.cur f' ∧ f'.tail = .clean ∧
        canon (replay c f'.recs) = canon S) ∧
    (rewriteSteps c sw m d).2.v = S := by
  have hn : (rwFree m d).1 ≠ m.cur := rwFree_ne_cur hp.2
  have hst : ∀ s ∈ (rwFree m d).2, ∃ k, s = Step.stat k := freeId_stats _ _ _
  obtain ⟨h1, h2, h3⟩ := rewrite_images c H.ord sw hn (rwFree m d).2 hst (snapshotEdits c m.v) hp a i
  have hsnap : canon (replay c (fullFile (snapshotEdits c m.v)).recs) = canon S := by
    simp only [fullFile]
    rw [H.snap m.v (hv ▸ hI), canon_idem, hv]
  refine ⟨?_, h3, ⟨fullFile (snapshotEdits c m.v), h2, rfl, hsnap⟩, hv⟩
  intro im him
  obtain ⟨hor, ha⟩ := h1 im him
  refine ⟨?_, ha⟩
  rcases hor with hor | hor
  · exact recovers_of_points H hor hcan
  · exact recovers_of_points H hor hsnap

/-! ## the run invariant -/

structure Inv (c : MCfg) (I : Version → Prop) (r : Run) : Prop where
  mem : r.mgr.v = applyAll c Version.empty r.edits
  pts : ∃ f, Points r.disk r.mgr.cur f ∧ f.tail = .clean ∧
    canon (replay c f.recs) = canon (applyAll c Version.empty r.edits)
  iv : I r.mgr.v
  imgs : ∀ im ∈ r.images ++ r.torn, ∃ j, im.acked ≤ j ∧ j ≤ r.edits.length ∧
    Recovers c im.disk (applyAll c Version.empty (r.edits.take j))

theorem Inv_init {c : MCfg} {I : Version → Prop} {allowed : Edit → Prop} (H : Hyps c I allowed) :
    Inv c I ({} : Run) := by
  refine ⟨rfl, ⟨{}, ⟨rfl, rfl⟩, rfl, rfl⟩, H.i0, ?_⟩
  intro im him
  simp at him

theorem old_images {c : MCfg} {r : Run} (new : List Edit)
    (h : ∀ im ∈ r.images ++ r.torn, ∃ j, im.acked ≤ j ∧ j ≤ r.edits.length ∧
      Recovers c im.disk (applyAll c Version.empty (r.edits.take j))) :
    ∀ im ∈ r.images ++ r.torn, ∃ j, im.acked ≤ j ∧ j ≤ (r.edits ++ new).length ∧
      Recovers c im.disk (applyAll c Version.empty ((r.edits ++ new).take j)) := by
  intro im him
  obtain ⟨j, h1, h2, h3⟩ := h im him
  refine ⟨j, h1, by simp; omega, ?_⟩
  rw [take_append_le _ _ h2]
  exact h3

theorem Inv_call {c : MCfg} {I : Version → Prop} {allowed : Edit → Prop} (H : Hyps c I allowed)
    (thr : Nat) (sw : Bool) {r : Run} (hr : Inv c I r) (cl : Call) (hcl : ∀ e ∈ cl.edits, allowed e) :
    Inv c I (Run.call c thr sw r cl) := by
  obtain ⟨f, hp, hclean, hcan⟩ := hr.pts
  have hIS : I (applyAll c Version.empty r.edits) := hr.mem ▸ hr.iv
  have htake0 : r.edits.take r.edits.length = r.edits := List.take_length
  cases cl with
  | rewrite =>
    obtain ⟨h1, h2, ⟨f', hp', hc', hcan'⟩, hv'⟩ :=
      rewrite_phase H r.mgr hp hcan hr.mem hIS sw r.edits.length (r.edits.length + 0)
    simp only [Run.call, callSteps, Call.edits, List.append_nil, Nat.add_zero]
    refine ⟨hv', ⟨f', hp', hc', hcan'⟩, by rw [hv']; exact hIS, ?_⟩
    intro im him
    simp only [Nat.add_zero] at h1 h2
    dsimp only [List.length_nil, Nat.add_zero] at him ⊢
    rw [h2, List.append_nil] at him
    rcases List.mem_append.mp him with him | him
    · rcases List.mem_append.mp him with him | him
      · exact hr.imgs im (List.mem_append_left _ him)
      · obtain ⟨hrec, ha⟩ := h1 im him
        exact ⟨r.edits.length, by omega, Nat.le_refl _, by rw [htake0]; exact hrec⟩
    · exact hr.imgs im (List.mem_append_right _ him)
  | log es =>
    simp only [Call.edits] at hcl
    obtain ⟨ha1, ha2, ha3, ha4⟩ :=
      append_phase H hp hcan es hcl sw r.mgr rfl r.edits.length (r.edits.length + es.length)
    have hS' : applyAll c (applyAll c Version.empty r.edits) es = applyAll c Version.empty (r.edits ++ es) :=
      (applyAll_append c _ _ _).symm
    have hIS' : I (applyAll c Version.empty (r.edits ++ es)) := by
      rw [← hS']; exact I_applyAll H es hcl hIS
    have hold := old_images (c := c) es hr.imgs
    -- witnesses for the images of the append
    have hwA : ∀ im ∈ stepImages r.disk r.edits.length (r.edits.length + es.length) (appendSteps c sw r.mgr es),
        ∃ j, im.acked ≤ j ∧ j ≤ (r.edits ++ es).length ∧
          Recovers c im.disk (applyAll c Version.empty ((r.edits ++ es).take j)) := by
      intro im him
      obtain ⟨hor, ha⟩ := ha1 im him
      rcases hor with hor | hor
      · refine ⟨r.edits.length, by omega, by simp, ?_⟩
        rw [take_append_le _ _ (Nat.le_refl _), htake0]; exact hor
      · refine ⟨r.edits.length + es.length, by omega, by simp, ?_⟩
        rw [take_append_len, List.take_length, ← hS']; exact hor
    have hwT : ∀ im ∈ tornImages r.disk r.edits.length (r.edits.length + es.length) (appendSteps c sw r.mgr es),
        ∃ j, im.acked ≤ j ∧ j ≤ (r.edits ++ es).length ∧
          Recovers c im.disk (applyAll c Version.empty ((r.edits ++ es).take j)) := by
      intro im him
      obtain ⟨k, hk, hrec, ha⟩ := ha2 im him
      refine ⟨r.edits.length + k, by omega, by simp; omega, ?_⟩
      rw [take_append_len, applyAll_append]; exact hrec
    simp only [Run.call, callSteps, Call.edits]
    split
    · -- the append pushed the file over the threshold: rewrite in the same call
      have hmv : ({ r.mgr with v := applyAll c r.mgr.v es } : Mgr).v = applyAll c Version.empty (r.edits ++ es) := by
        simp only [hr.mem]; exact hS'
      obtain ⟨h1, h2, ⟨f', hp', hc', hcan'⟩, hv'⟩ :=
        rewrite_phase H { r.mgr with v := applyAll c r.mgr.v es } ha3 (hS' ▸ ha4) hmv hIS' sw
          r.edits.length (r.edits.length + es.length)
      refine ⟨hv', ⟨f', by rw [steps_append]; exact hp', hc', hcan'⟩, by rw [hv']; exact hIS', ?_⟩
      intro im him
      dsimp only at him ⊢
      rw [stepImages_append, tornImages_append, h2, List.append_nil] at him
      rcases List.mem_append.mp him with him | him
      · rcases List.mem_append.mp him with him | him
        · exact hold im (List.mem_append_left _ him)
        · rcases List.mem_append.mp him with him | him
          · exact hwA im him
          · obtain ⟨hrec, ha⟩ := h1 im him
            refine ⟨r.edits.length + es.length, by omega, by simp, ?_⟩
            rw [take_append_len, List.take_length]; exact hrec
      · rcases List.mem_append.mp him with him | him
        · exact hold im (List.mem_append_right _ him)
        · exact hwT im him
    · refine ⟨by simp only [hr.mem]; exact hS', ⟨_, ha3, hclean, hS' ▸ ha4⟩, by simp only [hr.mem]; rw [hS']; exact hIS', ?_⟩
      intro im him
      dsimp only at him ⊢
      rcases List.mem_append.mp him with him | him
      · rcases List.mem_append.mp him with him | him
        · exact hold im (List.mem_append_left _ him)
        · exact hwA im him
      · rcases List.mem_append.mp him with him | him
        · exact hold im (List.mem_append_right _ him)
        · exact hwT im him

theorem Inv_run {c : MCfg} {I : Version → Prop} {allowed : Edit → Prop} (H : Hyps c I allowed)
    (thr : Nat) (sw : Bool) (cs : List Call) (hcs : ∀ cl ∈ cs, ∀ e ∈ cl.edits, allowed e)
    {r : Run} (hr : Inv c I r) : Inv c I (cs.foldl (Run.call c thr sw) r) := by
  induction cs generalizing r with
  | nil => exact hr
  | cons cl t ih =>
    exact ih (fun cl' h => hcs cl' (List.mem_cons_of_mem _ h))
      (Inv_call H thr sw hr cl (hcs cl List.mem_cons_self))

end NoKV.Manifest

/-
Lemmas about the sorted association lists (`KMap`) of the manifest model.
-/
import NoKVModel.Manifest.Model

namespace NoKV.Manifest
namespace KMap
variable {α : Type}

theorem klt_irrefl (a : Key) : ¬ klt a a := by unfold klt; omega
theorem klt_asymm {a b : Key} (h : klt a b) : ¬ klt b a := by unfold klt at *; omega
theorem klt_trans {a b c : Key} (h1 : klt a b) (h2 : klt b c) : klt a c := by unfold klt at *; omega
theorem klt_ne {a b : Key} (h : klt a b) : a ≠ b := by
  intro e; subst e; exact klt_irrefl a h
theorem klt_total (a b : Key) : klt a b ∨ a = b ∨ klt b a := by
  obtain ⟨a1, a2⟩ := a
  obtain ⟨b1, b2⟩ := b
  unfold klt
  simp only [Prod.mk.injEq]
  omega

/-- strictly ascending keys -/
def Sorted (m : KMap α) : Prop := m.Pairwise (fun a b => klt a.1 b.1)

theorem sorted_nil : Sorted ([] : KMap α) := List.Pairwise.nil

theorem sorted_cons {p : Key × α} {m : KMap α} :
    Sorted (p :: m) ↔ (∀ q ∈ m, klt p.1 q.1) ∧ Sorted m := by
  unfold Sorted; exact List.pairwise_cons

theorem mem_ins {k : Key} {x : α} {m : KMap α} {p : Key × α} (h : p ∈ ins k x m) :
    p = (k, x) ∨ p ∈ m := by
  induction m with
  | nil => simp [ins] at h; exact Or.inl h
  | cons hd t ih =>
    obtain ⟨k', y⟩ := hd
    unfold ins at h
    split at h
    · rcases List.mem_cons.mp h with h | h
      · exact Or.inl h
      · exact Or.inr h
    · split at h
      · rcases List.mem_cons.mp h with h | h
        · exact Or.inl h
        · exact Or.inr (List.mem_cons_of_mem _ h)
      · rcases List.mem_cons.mp h with h | h
        · exact Or.inr (h ▸ List.mem_cons_self)
        · rcases ih h with h | h
          · exact Or.inl h
          · exact Or.inr (List.mem_cons_of_mem _ h)

theorem mem_del {k : Key} {m : KMap α} {p : Key × α} (h : p ∈ del k m) : p ∈ m := by
  induction m with
  | nil => simp [del] at h
  | cons hd t ih =>
    obtain ⟨k', y⟩ := hd
    unfold del at h
    split at h
    · exact List.mem_cons_of_mem _ h
    · rcases List.mem_cons.mp h with h | h
      · exact h ▸ List.mem_cons_self
      · exact List.mem_cons_of_mem _ (ih h)

theorem sorted_ins {k : Key} {x : α} {m : KMap α} (hs : Sorted m) : Sorted (ins k x m) := by
  induction m with
  | nil => simp [ins, Sorted]
  | cons hd t ih =>
    obtain ⟨k', y⟩ := hd
    obtain ⟨h1, h2⟩ := sorted_cons.mp hs
    unfold ins
    split
    · rename_i hlt
      refine sorted_cons.mpr ⟨?_, hs⟩
      intro q hq
      rcases List.mem_cons.mp hq with hq | hq
      · subst hq; exact hlt
      · exact klt_trans hlt (h1 q hq)
    · split
      · rename_i _ heq
        subst heq
        exact sorted_cons.mpr ⟨h1, h2⟩
      · rename_i hnlt hne
        refine sorted_cons.mpr ⟨?_, ih h2⟩
        intro q hq
        rcases mem_ins hq with hq | hq
        · subst hq
          rcases klt_total k k' with h | h | h
          · exact absurd h hnlt
          · exact absurd h hne
          · exact h
        · exact h1 q hq

theorem sorted_del {k : Key} {m : KMap α} (hs : Sorted m) : Sorted (del k m) := by
  induction m with
  | nil => simp [del, Sorted]
  | cons hd t ih =>
    obtain ⟨k', y⟩ := hd
    obtain ⟨h1, h2⟩ := sorted_cons.mp hs
    unfold del
    split
    · exact h2
    · exact sorted_cons.mpr ⟨fun q hq => h1 q (mem_del hq), ih h2⟩

theorem get_ins_self (k : Key) (x : α) (m : KMap α) : get k (ins k x m) = some x := by
  induction m with
  | nil => simp [ins, get]
  | cons hd t ih =>
    obtain ⟨k', y⟩ := hd
    unfold ins
    split
    · simp [get]
    · split
      · simp [get]
      · rename_i _ hne
        simp [get, hne, ih]

theorem get_ins_other {k k' : Key} (x : α) (m : KMap α) (hne : k' ≠ k) :
    get k' (ins k x m) = get k' m := by
  induction m with
  | nil => simp [ins, get, hne]
  | cons hd t ih =>
    obtain ⟨k2, y⟩ := hd
    unfold ins
    split
    · simp [get, hne]
    · split
      · rename_i _ heq
        subst heq
        simp [get, hne]
      · simp only [get, ih]

theorem get_none_of_lt {k : Key} {m : KMap α} (h : ∀ q ∈ m, klt k q.1) : get k m = none := by
  induction m with
  | nil => rfl
  | cons hd t ih =>
    obtain ⟨k', y⟩ := hd
    have h1 : k ≠ k' := klt_ne (h (k', y) List.mem_cons_self)
    simp only [get, h1, if_false]
    exact ih (fun q hq => h q (List.mem_cons_of_mem _ hq))

theorem get_del_self {k : Key} {m : KMap α} (hs : Sorted m) : get k (del k m) = none := by
  induction m with
  | nil => rfl
  | cons hd t ih =>
    obtain ⟨k', y⟩ := hd
    obtain ⟨h1, h2⟩ := sorted_cons.mp hs
    unfold del
    split
    · rename_i heq
      subst heq
      exact get_none_of_lt h1
    · rename_i hne
      simp [get, hne, ih h2]

theorem get_del_other {k k' : Key} (m : KMap α) (hne : k' ≠ k) : get k' (del k m) = get k' m := by
  induction m with
  | nil => rfl
  | cons hd t ih =>
    obtain ⟨k2, y⟩ := hd
    unfold del
    split
    · rename_i heq
      subst heq
      simp [get, hne]
    · simp only [get, ih]

theorem get_of_mem {k : Key} {x : α} {m : KMap α} (hs : Sorted m) (h : (k, x) ∈ m) : get k m = some x := by
  induction m with
  | nil => simp at h
  | cons hd t ih =>
    obtain ⟨k', y⟩ := hd
    obtain ⟨h1, h2⟩ := sorted_cons.mp hs
    rcases List.mem_cons.mp h with h | h
    · cases h; simp [get]
    · have : k ≠ k' := fun e => klt_irrefl k' (by simpa [e] using h1 (k, x) h)
      simp only [get, this, if_false]
      exact ih h2 h

theorem mem_of_get {k : Key} {x : α} {m : KMap α} (h : get k m = some x) : (k, x) ∈ m := by
  induction m with
  | nil => simp [get] at h
  | cons hd t ih =>
    obtain ⟨k', y⟩ := hd
    unfold get at h
    split at h
    · rename_i heq
      cases h; subst heq; exact List.mem_cons_self
    · exact List.mem_cons_of_mem _ (ih h)

/-- inserting a key larger than all present appends -/
theorem ins_append_last {k : Key} {x : α} {m : KMap α} (h : ∀ p ∈ m, klt p.1 k) :
    ins k x m = m ++ [(k, x)] := by
  induction m with
  | nil => rfl
  | cons hd t ih =>
    obtain ⟨k', y⟩ := hd
    have hk : klt k' k := h (k', y) List.mem_cons_self
    have h1 : ¬ klt k k' := klt_asymm hk
    have h2 : k ≠ k' := fun e => klt_ne hk e.symm
    simp only [ins, h1, h2, if_false, List.cons_append]
    rw [ih (fun p hp => h p (List.mem_cons_of_mem _ hp))]

/-- re-inserting the binding that is already there changes nothing -/
theorem ins_same {k : Key} {x : α} {m : KMap α} (hs : Sorted m) (h : get k m = some x) :
    ins k x m = m := by
  induction m with
  | nil => simp [get] at h
  | cons hd t ih =>
    obtain ⟨k', y⟩ := hd
    obtain ⟨h1, h2⟩ := sorted_cons.mp hs
    unfold get at h
    split at h
    · rename_i heq
      cases h; subst heq
      simp [ins, klt_irrefl]
    · rename_i hne
      have hm := mem_of_get h
      have hlt : klt k' k := h1 (k, x) hm
      simp only [ins, klt_asymm hlt, hne, if_false]
      rw [ih h2 h]

/-- folding `ins` over a sorted list whose keys lie above the accumulator rebuilds it -/
theorem foldl_ins_sorted (l acc : KMap α) (hs : Sorted (acc ++ l)) :
    l.foldl (fun a p => ins p.1 p.2 a) acc = acc ++ l := by
  induction l generalizing acc with
  | nil => simp
  | cons hd t ih =>
    obtain ⟨k, x⟩ := hd
    simp only [List.foldl_cons]
    have hlast : ins k x acc = acc ++ [(k, x)] := by
      apply ins_append_last
      intro p hp
      unfold Sorted at hs
      rw [List.pairwise_append] at hs
      exact hs.2.2 p hp (k, x) List.mem_cons_self
    rw [hlast, ih]
    · simp
    · simpa using hs

end KMap
end NoKV.Manifest

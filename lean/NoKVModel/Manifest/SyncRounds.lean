/-
The invariant of runs with the durability ghost, preserved by every call and by every crash +
recovery: hence it holds after any number of rounds (`Reach`).
-/
import NoKVModel.Manifest.SyncRun

namespace NoKV.Manifest
open KMap

structure XInv (c : MCfg) (x : XRun) : Prop where
  /-- the manager holds the state of the acknowledged list (up to per-level file order) -/
  hv : canon x.mgr.v = canon (applyAll c Version.empty x.edits)
  wf : WF x.mgr.v
  /-- the quiescent directory: everything acknowledged is in the manifest CURRENT durably names -/
  fin : JAt c x.edits x.durable x.edits.length x.mgr.cur x.disk x.sync
  /-- every crash point of the current round -/
  cands : ∀ cd ∈ x.cands, J c x.edits cd.durable cd.acked cd.disk cd.sync

theorem JAt_raise_dur {c : MCfg} {E : List Edit} {dur dur' acked n : Nat} {d : Disk} {σ : SyncSt}
    (h : JAt c E dur acked n d σ) (hd : dur' ≤ (σ.get n).2) : JAt c E dur' acked n d σ := by
  obtain ⟨f, h1, h2, h3, h4, h5, h6, h7, h8, h9, h10⟩ := h
  exact ⟨f, h1, h2, h3, h4, h5, h6, h7, h8, hd, h10⟩

theorem JAt_curSynced {c : MCfg} {E : List Edit} {dur acked n : Nat} {d : Disk} {σ : SyncSt}
    (h : JAt c E dur acked n d σ) : σ.curSynced = true := by
  obtain ⟨f, h1, h2, _⟩ := h
  exact h2

theorem JAt_dur_le {c : MCfg} {E : List Edit} {dur acked n : Nat} {d : Disk} {σ : SyncSt}
    (h : JAt c E dur acked n d σ) : dur ≤ (σ.get n).2 := by
  obtain ⟨f, h1, h2, h3, h4, h5, h6, h7, h8, h9, h10⟩ := h
  exact h9

theorem XInv_init (c : MCfg) : XInv c ({} : XRun) := by
  refine ⟨rfl, WF_empty, ?_, by intro cd h; simp at h⟩
  refine ⟨{}, rfl, rfl, rfl, rfl, ?_, ?_, ?_, ?_, ?_, ?_⟩ <;> simp [SyncSt.get, List.lookup, replay, replayFrom, applyAll]

theorem max_le_of {a b c : Nat} (h1 : a ≤ c) (h2 : b ≤ c) : max a b ≤ c := by
  simp [Nat.max_def]; split <;> assumption

/-- a call preserves the invariant (syncWrites on) -/
theorem XInv_call (c : MCfg) (hc : c.GoodLoss) (thr : Nat) {x : XRun} (hx : XInv c x) (cl : Call) :
    XInv c (x.call c thr true cl) := by
  have H := hyps_good c hc.1
  have hts := hc.2.1
  have hso := hc.2.2
  have hdff := H.dff
  have hhfv : c.headForcesValid = true := hc.1.1.1
  have hcs : (x.disk, x.sync) = (x.disk, x.sync) := rfl
  cases cl with
  | rewrite =>
    have hE : x.edits.length + ([] : List Edit).length = x.edits.length := by simp
    obtain ⟨r1, r2, r3⟩ := rewrite_phase_X H hts x.mgr hx.fin (Nat.le_refl _) hx.hv hx.wf
    have hcur := JAt_curSynced r2
    refine ⟨?_, ?_, ?_, ?_⟩
    · show canon (rewriteSteps c true x.mgr x.disk).2.v = canon (applyAll c Version.empty (x.edits ++ []))
      rw [List.append_nil]; exact hx.hv
    · exact hx.wf
    · show JAt c (x.edits ++ []) _ (x.edits ++ []).length _ _ _
      simp only [List.append_nil]
      show JAt c x.edits
        (if (psteps (x.edits.length + 0) (x.disk, x.sync) (rewriteSteps c true x.mgr x.disk).1).2.curSynced then
          max x.durable ((psteps (x.edits.length + 0) (x.disk, x.sync) (rewriteSteps c true x.mgr x.disk).1).2.get
            (rewriteSteps c true x.mgr x.disk).2.cur).2 else x.durable)
        x.edits.length (rewriteSteps c true x.mgr x.disk).2.cur
        (psteps (x.edits.length + 0) (x.disk, x.sync) (rewriteSteps c true x.mgr x.disk).1).1
        (psteps (x.edits.length + 0) (x.disk, x.sync) (rewriteSteps c true x.mgr x.disk).1).2
      rw [Nat.add_zero, hcur, if_pos rfl]
      exact JAt_raise_dur r2 (max_le_of (JAt_dur_le r2) (Nat.le_refl _))
    · intro cd hcd
      have hcd' : cd ∈ x.cands ++ candSteps (x.edits.length + 0) x.edits.length x.durable (x.disk, x.sync)
          (rewriteSteps c true x.mgr x.disk).1 := hcd
      show J c (x.edits ++ []) _ _ _ _
      rw [List.append_nil]
      rcases List.mem_append.mp hcd' with h | h
      · exact hx.cands cd h
      · rw [Nat.add_zero] at h
        obtain ⟨q1, q2, q3⟩ := r1 cd h
        rw [q2, q3]; exact q1
  | log es =>
    have hlen : x.edits.length + es.length = (x.edits ++ es).length := by simp
    have hv' : canon (applyAll c x.mgr.v es) = canon (applyAll c Version.empty (x.edits ++ es)) := by
      rw [applyAll_append]
      exact canon_applyAll_congr c hdff es hx.hv
    have hwf' : WF (applyAll c x.mgr.v es) := WF_applyAll c hhfv es hx.wf
    obtain ⟨a1, a2⟩ := append_phase_X H hso hx.fin es x.mgr rfl
    have hold : ∀ cd ∈ x.cands, J c (x.edits ++ es) cd.durable cd.acked cd.disk cd.sync :=
      fun cd h => J_extend (hx.cands cd h) es
    have hnewA : ∀ cd ∈ candSteps (x.edits ++ es).length x.edits.length x.durable (x.disk, x.sync)
        (appendSteps c true x.mgr es), J c (x.edits ++ es) cd.durable cd.acked cd.disk cd.sync := by
      intro cd h
      obtain ⟨q1, q2, q3⟩ := a1 cd h
      rw [q2, q3]; exact q1
    by_cases hrw : needRewrite c thr (fileSize (x.disk.steps (appendSteps c true x.mgr es)) x.mgr.cur) = true
    · -- append, then rewrite in the same call
      have hsteps : (callSteps c thr true x.mgr x.disk (.log es)) =
          (appendSteps c true x.mgr es ++
            (rewriteSteps c true { x.mgr with v := applyAll c x.mgr.v es } (x.disk.steps (appendSteps c true x.mgr es))).1,
           (rewriteSteps c true { x.mgr with v := applyAll c x.mgr.v es } (x.disk.steps (appendSteps c true x.mgr es))).2) := by
        simp only [callSteps, hrw, if_true]
      generalize hq : psteps (x.edits ++ es).length (x.disk, x.sync) (appendSteps c true x.mgr es) = q at a2
      have hq1 : q.1 = x.disk.steps (appendSteps c true x.mgr es) := by rw [← hq, psteps_fst]
      obtain ⟨d1, σ1⟩ := q
      simp only at hq1 a2
      subst hq1
      obtain ⟨r1, r2, r3⟩ := rewrite_phase_X H hts ({ x.mgr with v := applyAll c x.mgr.v es } : Mgr)
        (a := x.edits.length) a2 (by simp) hv' hwf'
      have hcur := JAt_curSynced r2
      have hps : psteps (x.edits ++ es).length (x.disk, x.sync) (callSteps c thr true x.mgr x.disk (.log es)).1 =
          psteps (x.edits ++ es).length (x.disk.steps (appendSteps c true x.mgr es), σ1)
            (rewriteSteps c true { x.mgr with v := applyAll c x.mgr.v es } (x.disk.steps (appendSteps c true x.mgr es))).1 := by
        rw [hsteps, psteps_append, hq]
      refine ⟨?_, ?_, ?_, ?_⟩
      · show canon (callSteps c thr true x.mgr x.disk (.log es)).2.v = _
        rw [hsteps]; exact hv'
      · show WF (callSteps c thr true x.mgr x.disk (.log es)).2.v
        rw [hsteps]; exact hwf'
      · show JAt c (x.edits ++ es)
          (if (psteps (x.edits.length + es.length) (x.disk, x.sync) (callSteps c thr true x.mgr x.disk (.log es)).1).2.curSynced then
            max x.durable ((psteps (x.edits.length + es.length) (x.disk, x.sync) (callSteps c thr true x.mgr x.disk (.log es)).1).2.get
              (callSteps c thr true x.mgr x.disk (.log es)).2.cur).2 else x.durable)
          (x.edits ++ es).length (callSteps c thr true x.mgr x.disk (.log es)).2.cur
          (psteps (x.edits.length + es.length) (x.disk, x.sync) (callSteps c thr true x.mgr x.disk (.log es)).1).1
          (psteps (x.edits.length + es.length) (x.disk, x.sync) (callSteps c thr true x.mgr x.disk (.log es)).1).2
        rw [hlen, hps]
        have hcur2 : (callSteps c thr true x.mgr x.disk (.log es)).2.cur =
            (rewriteSteps c true { x.mgr with v := applyAll c x.mgr.v es } (x.disk.steps (appendSteps c true x.mgr es))).2.cur := by
          rw [hsteps]
        rw [hcur2, hcur, if_pos rfl]
        exact JAt_raise_dur r2 (max_le_of (JAt_dur_le r2) (Nat.le_refl _))
      · intro cd hcd
        have hcd' : cd ∈ x.cands ++ candSteps (x.edits.length + es.length) x.edits.length x.durable (x.disk, x.sync)
            (callSteps c thr true x.mgr x.disk (.log es)).1 := hcd
        show J c (x.edits ++ es) _ _ _ _
        rw [hlen, hsteps, candSteps_append, hq] at hcd'
        rcases List.mem_append.mp hcd' with h | h
        · exact hold cd h
        · rcases List.mem_append.mp h with h | h
          · exact hnewA cd h
          · obtain ⟨q1, q2, q3⟩ := r1 cd h
            rw [q2, q3]; exact q1
    · have hsteps : (callSteps c thr true x.mgr x.disk (.log es)) =
          (appendSteps c true x.mgr es, { x.mgr with v := applyAll c x.mgr.v es }) := by
        simp only [callSteps, hrw]
        rfl
      have hcur := JAt_curSynced a2
      refine ⟨?_, ?_, ?_, ?_⟩
      · show canon (callSteps c thr true x.mgr x.disk (.log es)).2.v = _
        rw [hsteps]; exact hv'
      · show WF (callSteps c thr true x.mgr x.disk (.log es)).2.v
        rw [hsteps]; exact hwf'
      · show JAt c (x.edits ++ es)
          (if (psteps (x.edits.length + es.length) (x.disk, x.sync) (callSteps c thr true x.mgr x.disk (.log es)).1).2.curSynced then
            max x.durable ((psteps (x.edits.length + es.length) (x.disk, x.sync) (callSteps c thr true x.mgr x.disk (.log es)).1).2.get
              (callSteps c thr true x.mgr x.disk (.log es)).2.cur).2 else x.durable)
          (x.edits ++ es).length (callSteps c thr true x.mgr x.disk (.log es)).2.cur
          (psteps (x.edits.length + es.length) (x.disk, x.sync) (callSteps c thr true x.mgr x.disk (.log es)).1).1
          (psteps (x.edits.length + es.length) (x.disk, x.sync) (callSteps c thr true x.mgr x.disk (.log es)).1).2
        rw [hlen, hsteps]
        simp only
        rw [hcur, if_pos rfl]
        exact JAt_raise_dur a2 (max_le_of (JAt_dur_le a2) (Nat.le_refl _))
      · intro cd hcd
        have hcd' : cd ∈ x.cands ++ candSteps (x.edits.length + es.length) x.edits.length x.durable (x.disk, x.sync)
            (callSteps c thr true x.mgr x.disk (.log es)).1 := hcd
        show J c (x.edits ++ es) _ _ _ _
        rw [hlen, hsteps] at hcd'
        rcases List.mem_append.mp hcd' with h | h
        · exact hold cd h
        · exact hnewA cd h

/-- **Crash + recovery.**  From any crash point of a run satisfying the invariant, with any loss
of unsynced bytes: `Verify; Open` succeeds; the recovered state is the state after a prefix of
the acknowledged list that contains every edit acknowledged as durable (and every acknowledged
edit if nothing was lost); and the run that continues from there satisfies the invariant again. -/
theorem recover_ok (c : MCfg) (hc : c.GoodLoss) {x : XRun} (hx : XInv c x) {cd : Cand} (hcd : cd ∈ x.allCands)
    {d' : Disk} (hd' : d' ∈ lossVariants cd.disk cd.sync) :
    ∃ x' j, x.recoverFrom c cd d' = some x' ∧ cd.durable ≤ j ∧ j ≤ x.edits.length ∧
      x'.edits = x.edits.take j ∧ (d' = cd.disk → cd.acked ≤ j) ∧
      recoverDB c d' = some x'.mgr.v ∧
      canon x'.mgr.v = canon (applyAll c Version.empty (x.edits.take j)) ∧ XInv c x' := by
  have H := hyps_good c hc.1
  have hJ : J c x.edits cd.durable cd.acked cd.disk cd.sync := by
    unfold XRun.allCands at hcd
    rcases List.mem_append.mp hcd with h | h
    · exact hx.cands cd h
    · simp only [List.mem_cons, List.not_mem_nil, or_false] at h
      subst h
      exact ⟨x.mgr.cur, hx.fin⟩
  obtain ⟨n, f, f', L, v1, v2, v3, v4, v5, v6, v7, v8, v9, v10⟩ := J_variant H hJ hd'
  obtain ⟨n0, f0, h1, h2, h3, h4, h5, h6, h7, h8, h9, h10⟩ := hJ
  have hn : n0 = n := by rw [h1] at v1; exact Option.some.inj v1
  subst hn
  have hf : f0 = f := by rw [h3] at v2; exact Option.some.inj v2
  subst hf
  have hj : (cd.sync.get n0).2 + (L - (cd.sync.get n0).1) ≤ x.edits.length := by omega
  have hLlen : (f0.recs.take L).length = L := length_take_le' _ v8
  have hrec : x.recoverFrom c cd d' = some
      { mgr := { v := replay c (f0.recs.take L), cur := n0, next := n0 + 1 },
        disk := { (d'.setFile n0 { recs := f0.recs.take L, tail := .clean }) with tmp := none },
        sync := { cd.sync with tmpSynced := false },
        edits := x.edits.take ((cd.sync.get n0).2 + (L - (cd.sync.get n0).1)),
        durable := cd.durable, cands := [] } := by
    simp only [XRun.recoverFrom, v3, v4, v6, replayFile, hLlen]
  have hdb : recoverDB c d' = some (replay c (f0.recs.take L)) := by
    simp only [recoverDB, v3, v4, v6, replayFile]
  refine ⟨_, (cd.sync.get n0).2 + (L - (cd.sync.get n0).1), hrec, by omega, hj, rfl, ?_, hdb, v10, ?_⟩
  · intro he
    have := v9 he
    omega
  · have hElen : (x.edits.take ((cd.sync.get n0).2 + (L - (cd.sync.get n0).1))).length =
        (cd.sync.get n0).2 + (L - (cd.sync.get n0).1) := length_take_le' _ hj
    refine ⟨v10, ?_, ?_, by intro cd' h; simp at h⟩
    · show WF (replay c (f0.recs.take L))
      unfold replay
      rw [replayFrom_eq_applyAll c _ (fun e _ => H.rt e trivial)]
      exact I_applyAll H _ (fun _ _ => trivial) H.i0
    · refine ⟨{ recs := f0.recs.take L, tail := .clean }, v3, h2, file_setFile_self d' n0 _, rfl, ?_, ?_, ?_, ?_, h9, ?_⟩
      · show (cd.sync.get n0).1 ≤ (f0.recs.take L).length
        rw [hLlen]; exact v7
      · show canon (replay c ((f0.recs.take L).take (cd.sync.get n0).1)) = _
        rw [take_take_le _ v7]
        show _ = canon (applyAll c Version.empty ((x.edits.take _).take (cd.sync.get n0).2))
        rw [take_take_le _ (by omega)]
        exact h6
      · show (f0.recs.take L).drop (cd.sync.get n0).1 =
          ((x.edits.take ((cd.sync.get n0).2 + (L - (cd.sync.get n0).1))).drop (cd.sync.get n0).2).take
            ((f0.recs.take L).length - (cd.sync.get n0).1)
        rw [hLlen, drop_take', take_take_le _ (Nat.le_refl _)]
        have hL : L = (cd.sync.get n0).1 + (L - (cd.sync.get n0).1) := by omega
        rw [hL, drop_take', h7, take_take_le _ (by omega)]
        congr 1
        omega
      · show (cd.sync.get n0).2 + ((f0.recs.take L).length - (cd.sync.get n0).1) ≤ _
        rw [hLlen, hElen]
        exact Nat.le_refl _
      · show (x.edits.take _).length ≤ (cd.sync.get n0).2 + ((f0.recs.take L).length - (cd.sync.get n0).1)
        rw [hLlen, hElen]
        exact Nat.le_refl _

/-- the invariant holds after any number of rounds -/
theorem XInv_reach (c : MCfg) (hc : c.GoodLoss) (thr : Nat) {x : XRun} (hr : Reach c thr true x) : XInv c x := by
  induction hr with
  | init => exact XInv_init c
  | call cl _ ih => exact XInv_call c hc thr ih cl
  | crash _ hcd hd' hrec ih =>
    obtain ⟨x'', j, h1, _, _, _, _, _, _, h8⟩ := recover_ok c hc ih hcd hd'
    rw [h1] at hrec
    cases hrec
    exact h8

end NoKV.Manifest

/-
Manifest engine (C15), disk half (E-Disk restricted to the manifest directory).

* disk = manifest files (list of framed records + a possibly torn tail), `CURRENT`, `CURRENT.tmp`;
* every engine procedure (append a batch, rewrite) is a LIST OF ATOMIC FILE STEPS, in the order
  of the file-system calls of `logEditsLocked` / `rewriteLocked` / `writeCurrent`;
* a process crash after any prefix of the steps keeps everything the completed steps did;
  a crash *inside* a write step leaves a torn tail (`tornVariants`);
* `recoverDB` = `manifest.Verify` then `manifest.Open` (db.go), `recoverOpen` = bare
  `manifest.Open` (pd/storage/local.go).
-/
import NoKVModel.Manifest.Model

namespace NoKV.Manifest

inductive Tail where
  | clean | partLen | lenOnly | partPayload
  deriving DecidableEq, Repr, Inhabited

structure MFile where
  recs : List Edit := []
  tail : Tail := .clean
  deriving DecidableEq, Repr, Inhabited

structure Disk where
  files : List (Nat × MFile) := []
  current : Option Nat := none
  tmp : Option Nat := none
  deriving DecidableEq, Repr, Inhabited

def Disk.file? (d : Disk) (n : Nat) : Option MFile := d.files.lookup n

def Disk.setFile (d : Disk) (n : Nat) (f : MFile) : Disk :=
  { d with files := (n, f) :: d.files.filter (fun p => p.1 ≠ n) }

def Disk.rmFile (d : Disk) (n : Nat) : Disk :=
  { d with files := d.files.filter (fun p => p.1 ≠ n) }

/-- one file-system call of the manager -/
inductive Step where
  | stat (n : Nat)
  | create (n : Nat)                    -- OpenFileHandle(O_CREATE|O_TRUNC)
  | append (n : Nat) (rs : List Edit)   -- one Write of whole records at the end of the file
  | setRaw (n : Nat) (f : MFile)        -- one 4096-byte chunk of the snapshot writer: resulting content
  | sync (n : Nat)
  | close (n : Nat)
  | openrw (n : Nat)
  | writeTmp (n : Nat)                  -- WriteFile(CURRENT.tmp, name)
  | renameTmp                           -- Rename(CURRENT.tmp, CURRENT)
  | writeCur (n : Nat)                  -- (bad shape) WriteFile(CURRENT, name) directly
  | tmpOpen                             -- OpenFileHandle(CURRENT.tmp, O_CREATE|O_TRUNC)
  | tmpWrite (n : Nat)                  -- Write(name) on the CURRENT.tmp handle
  | tmpSync                             -- Sync() on the CURRENT.tmp handle
  | tmpClose
  | remove (n : Nat)
  deriving DecidableEq, Repr, Inhabited

def Disk.step (d : Disk) : Step → Disk
  | .create n => d.setFile n {}
  | .append n rs =>
    match d.file? n with
    | some f => d.setFile n { f with recs := f.recs ++ rs }
    | none => d
  | .setRaw n f => d.setFile n f
  | .writeTmp n => { d with tmp := some n }
  | .tmpWrite n => { d with tmp := some n }
  | .renameTmp =>
    match d.tmp with
    | some n => { d with current := some n, tmp := none }
    | none => d
  | .writeCur n => { d with current := some n }
  | .remove n => d.rmFile n
  | _ => d

def Disk.steps (d : Disk) (ss : List Step) : Disk := ss.foldl Disk.step d

/-- fresh directory after `createNew` -/
def Disk.init : Disk := { files := [(1, {})], current := some 1 }

/-! ## recovery -/

/-- `manifest.Verify` on the file CURRENT names: truncate a torn tail (none = Verify fails) -/
def verifyFile (c : MCfg) (f : MFile) : Option MFile :=
  match f.tail with
  | .clean => some f
  | .partLen => if c.verifyTruncPartLen then some { f with tail := .clean } else none
  | .lenOnly => if c.verifyTruncLenOnly then some { f with tail := .clean } else none
  | .partPayload => if c.verifyTruncPartPayload then some { f with tail := .clean } else none

/-- `Manager.replay` on a file: a partial length / partial payload is `io.ErrUnexpectedEOF`
(Open fails); a bare length prefix reads as `io.EOF` and is silently accepted. -/
def replayFile (c : MCfg) (f : MFile) : Option Version :=
  match f.tail with
  | .clean => some (replay c f.recs)
  | .lenOnly => some (replay c f.recs)
  | _ => none

/-- the PD open path `pd/storage.OpenLocalStore`: bare `manifest.Open` (with `openVerifies`
`Verify` runs first).  A missing CURRENT or a
CURRENT that names a missing file makes `Open` start a new empty manifest. -/
def recoverOpen (c : MCfg) (d : Disk) : Option Version :=
  match d.current with
  | none => some Version.empty
  | some n =>
    match d.file? n with
    | none => some Version.empty
    | some f =>
      if c.openVerifies then
        match verifyFile c f with
        | some f' => replayFile c f'
        | none => none
      else replayFile c f

/-- `manifest.Verify` followed by `manifest.Open` (db.go:runRecoveryChecks + lsm) -/
def recoverDB (c : MCfg) (d : Disk) : Option Version :=
  match d.current with
  | none => some Version.empty
  | some n =>
    match d.file? n with
    | none => some Version.empty
    | some f =>
      match verifyFile c f with
      | some f' => replayFile c f'
      | none => none

/-! ## the manager's procedures as step lists -/

structure Mgr where
  v : Version := {}
  cur : Nat := 1
  next : Nat := 2
  deriving DecidableEq, Repr, Inhabited

/-- `nextManifestFileLocked`: probe ids upward until one does not exist (fuel = number of files;
an id that was probed is never probed again, so it is dropped from the list) -/
def freeId : Nat → List Nat → Nat → Nat × List Step
  | 0, _, id => (id, [.stat id])
  | fuel + 1, ids, id =>
    if id ∈ ids then
      let r := freeId fuel (ids.erase id) (id + 1)
      (r.1, .stat id :: r.2)
    else (id, [.stat id])

/-- content of a file of which only the first `bytes` bytes of `rs` were written -/
def cutAt : List Edit → Nat → MFile
  | [], _ => {}
  | e :: rest, bytes =>
    if encLen e ≤ bytes then
      let f := cutAt rest (bytes - encLen e)
      { f with recs := e :: f.recs }
    else if bytes = 0 then {}
    else if bytes < 4 then { tail := .partLen }
    else if bytes = 4 then { tail := .lenOnly }
    else { tail := .partPayload }

/-- the writes `bufio.Writer(4096)` issues for a snapshot: a write at every multiple of 4096
bytes below the total (leaving a cut file), and the final flush that completes the file -/
def snapshotWriteSteps (n : Nat) (se : List Edit) : List Step :=
  (List.range ((encLens se - 1) / 4096)).map (fun i => Step.setRaw n (cutAt se ((i + 1) * 4096))) ++
  [.setRaw n { recs := se, tail := .clean }]

def appendSteps (c : MCfg) (syncWrites : Bool) (m : Mgr) (es : List Edit) : List Step :=
  [.append m.cur es] ++
  (if c.syncOnAppend ∧ syncWrites ∧ es.any requiresSync then [.sync m.cur] else [])

/-- `writeCurrent` up to (excluding) the rename: CURRENT.tmp gets the name -/
def tmpPart (c : MCfg) (syncWrites : Bool) (n : Nat) : List Step :=
  if c.currentTmpSynced then
    [.tmpOpen, .tmpWrite n] ++ (if syncWrites then [.tmpSync] else []) ++ [.tmpClose]
  else [.writeTmp n]

def switchCurrentSteps (c : MCfg) (syncWrites : Bool) (n : Nat) : List Step :=
  if c.currentViaRename then tmpPart c syncWrites n ++ [.renameTmp] else [.writeCur n]

/-- target id and the `Stat` probes of `nextManifestFileLocked` -/
def rwFree (m : Mgr) (d : Disk) : Nat × List Step :=
  freeId (d.files.map (fun p => p.1)).length (d.files.map (fun p => p.1)) (if m.next = 0 then 1 else m.next)

/-- `rewriteLocked` after the target name `n` was chosen; `se` = snapshot edits -/
def rewriteBody (c : MCfg) (syncWrites : Bool) (cur n : Nat) (se : List Edit) : List Step :=
  let write := snapshotWriteSteps n se ++ (if syncWrites then [.sync n] else []) ++ [.close n]
  let switch := switchCurrentSteps c syncWrites n
  let reopen := [Step.close cur, .openrw n]
  let rm := if cur ≠ n then [Step.remove cur] else []
  if c.currentAfterSnapshot then
    if c.removeOldAfterCurrent then [.create n] ++ write ++ switch ++ reopen ++ rm
    else [.create n] ++ write ++ rm ++ switch ++ reopen
  else
    if c.removeOldAfterCurrent then [.create n] ++ switch ++ write ++ reopen ++ rm
    else [.create n] ++ rm ++ switch ++ write ++ reopen

/-- `rewriteLocked` -/
def rewriteSteps (c : MCfg) (syncWrites : Bool) (m : Mgr) (d : Disk) : List Step × Mgr :=
  ((rwFree m d).2 ++ rewriteBody c syncWrites m.cur (rwFree m d).1 (snapshotEdits c m.v),
   { m with cur := (rwFree m d).1, next := (rwFree m d).1 + 1 })

def fileSize (d : Disk) (n : Nat) : Nat :=
  match d.file? n with
  | some f => encLens f.recs
  | none => 0

def needRewrite (c : MCfg) (thr : Nat) (size : Nat) : Bool :=
  thr > 0 ∧ (if c.rewriteAtGE then size ≥ thr else size > thr)

/-- an API call -/
inductive Call where
  | log (es : List Edit)     -- LogEdits(es...) (non-empty)
  | rewrite                  -- Rewrite()
  deriving DecidableEq, Repr, Inhabited

/-- steps of one call (with the manager after it) -/
def callSteps (c : MCfg) (thr : Nat) (syncWrites : Bool) (m : Mgr) (d : Disk) : Call → List Step × Mgr
  | .log es =>
    let a := appendSteps c syncWrites m es
    let d1 := d.steps a
    let m1 : Mgr := { m with v := applyAll c m.v es }
    if needRewrite c thr (fileSize d1 m.cur) then
      (a ++ (rewriteSteps c syncWrites m1 d1).1, (rewriteSteps c syncWrites m1 d1).2)
    else (a, m1)
  | .rewrite => rewriteSteps c syncWrites m d

def Call.edits : Call → List Edit
  | .log es => es
  | .rewrite => []

/-- A crash image: the disk, how many edits had been acknowledged (their call had returned),
and how many edits had been issued including the call in flight. -/
structure Image where
  disk : Disk
  acked : Nat
  issued : Nat
  deriving DecidableEq, Repr, Inhabited

/-- images before each step of `ss` starting from `d` (process crash between two file ops) -/
def stepImages (d : Disk) (acked issued : Nat) : List Step → List Image
  | [] => []
  | s :: ss => ⟨d, acked, issued⟩ :: stepImages (d.step s) acked issued ss

/-- crash inside the `Write` of `rs` at the end of file `n`: every torn shape -/
def tornFiles (f : MFile) : List Edit → List MFile
  | [] => []
  | e :: rest =>
    [{ f with tail := .partLen }, { f with tail := .lenOnly }, { f with tail := .partPayload }] ++
    (match rest with
     | [] => []
     | _ :: _ => [{ f with recs := f.recs ++ [e] }]) ++
    tornFiles { f with recs := f.recs ++ [e] } rest

def tornImages (d : Disk) (acked issued : Nat) : List Step → List Image
  | [] => []
  | s :: ss =>
    (match s with
     | .append n rs =>
       match d.file? n with
       | some f => (tornFiles f rs).map (fun f' => ⟨d.setFile n f', acked, issued⟩)
       | none => []
     | _ => []) ++ tornImages (d.step s) acked issued ss

structure Run where
  mgr : Mgr := {}
  disk : Disk := Disk.init
  edits : List Edit := []          -- all edits issued so far, in order
  images : List Image := []        -- crash images between file ops
  torn : List Image := []          -- crash images inside appends
  deriving Repr, Inhabited

def Run.call (c : MCfg) (thr : Nat) (syncWrites : Bool) (r : Run) (cl : Call) : Run :=
  let ss := (callSteps c thr syncWrites r.mgr r.disk cl).1
  let acked := r.edits.length
  let issued := acked + cl.edits.length
  { mgr := (callSteps c thr syncWrites r.mgr r.disk cl).2, disk := r.disk.steps ss, edits := r.edits ++ cl.edits,
    images := r.images ++ stepImages r.disk acked issued ss,
    torn := r.torn ++ tornImages r.disk acked issued ss }

def runCalls (c : MCfg) (thr : Nat) (syncWrites : Bool) (cs : List Call) : Run :=
  cs.foldl (Run.call c thr syncWrites) {}

/-- every crash image of a run, including the quiescent end state -/
def Run.allImages (r : Run) : List Image :=
  r.images ++ r.torn ++ [⟨r.disk, r.edits.length, r.edits.length⟩]

end NoKV.Manifest

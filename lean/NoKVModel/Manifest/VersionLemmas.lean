/-
Version-level lemmas of the manifest model:
* `apply` respects the normalisation `canon` (per-level file order);
* the codec round trip `decodeNorm` is invisible to `apply` (under the codec flags);
* the well-formedness invariant `WF` of reachable versions;
* SNAPSHOT FAITHFULNESS: replaying the snapshot a rewrite writes gives back the version.
-/
import NoKVModel.Manifest.SortLemmas

namespace NoKV.Manifest
open KMap

/-! ## canon -/

theorem canon_idem (v : Version) : canon (canon v) = canon v := by
  simp [canon, sortF_idem]

theorem canon_eq_iff {v1 v2 : Version} :
    canon v1 = canon v2 ↔
      sortF v1.files = sortF v2.files ∧ v1.logSeg = v2.logSeg ∧ v1.logOff = v2.logOff ∧
      v1.vlogs = v2.vlogs ∧ v1.heads = v2.heads ∧ v1.rafts = v2.rafts ∧ v1.regions = v2.regions := by
  cases v1; cases v2
  simp [canon]

theorem canon_apply_congr (c : MCfg) (hd : c.delFileFirstOnly = true) {v1 v2 : Version}
    (h : canon v1 = canon v2) (e : Edit) : canon (apply c v1 e) = canon (apply c v2 e) := by
  obtain ⟨hf, h1, h2, h3, h4, h5, h6⟩ := canon_eq_iff.mp h
  apply canon_eq_iff.mpr
  cases e with
  | addFile m => exact ⟨sortF_append_congr hf _, h1, h2, h3, h4, h5, h6⟩
  | delFile m =>
    simp only [apply, hd, if_true]
    exact ⟨sortF_eraseFirst_congr hf _, h1, h2, h3, h4, h5, h6⟩
  | logPtr s o => exact ⟨hf, rfl, rfl, h3, h4, h5, h6⟩
  | vlogHead m =>
    cases m with
    | none => exact ⟨hf, h1, h2, h3, h4, h5, h6⟩
    | some m => simp only [apply, h3, h4]; exact ⟨hf, h1, h2, trivial, trivial, h5, h6⟩
  | vlogDel m =>
    cases m with
    | none => exact ⟨hf, h1, h2, h3, h4, h5, h6⟩
    | some m => simp only [apply, h3, h4]; exact ⟨hf, h1, h2, trivial, trivial, h5, h6⟩
  | vlogUpd m =>
    cases m with
    | none => exact ⟨hf, h1, h2, h3, h4, h5, h6⟩
    | some m => simp only [apply, h3, h4]; exact ⟨hf, h1, h2, trivial, trivial, h5, h6⟩
  | raft p =>
    cases p with
    | none => exact ⟨hf, h1, h2, h3, h4, h5, h6⟩
    | some p => simp only [apply, h5]; exact ⟨hf, h1, h2, h3, h4, trivial, h6⟩
  | region r =>
    cases r with
    | none => exact ⟨hf, h1, h2, h3, h4, h5, h6⟩
    | some r =>
      obtain ⟨m, d⟩ := r
      cases d <;> (simp only [apply, h6]; exact ⟨hf, h1, h2, h3, h4, h5, trivial⟩)

theorem canon_applyAll_congr (c : MCfg) (hd : c.delFileFirstOnly = true) (es : List Edit) {v1 v2 : Version}
    (h : canon v1 = canon v2) : canon (applyAll c v1 es) = canon (applyAll c v2 es) := by
  induction es generalizing v1 v2 with
  | nil => exact h
  | cons e t ih => exact ih (canon_apply_congr c hd h e)

theorem applyAll_append (c : MCfg) (v : Version) (a b : List Edit) :
    applyAll c v (a ++ b) = applyAll c (applyAll c v a) b := by
  simp [applyAll, List.foldl_append]

/-! ## codec round trip -/

/-- the edit survives `decodeEdit ∘ writeEdit` as far as `apply` can tell -/
def RoundTrips (c : MCfg) (e : Edit) : Prop := ∀ v, apply c v (decodeNorm c e) = apply c v e

theorem roundTrips_of_flags (c : MCfg) (hr : c.nilRaftRoundtrip = true) (hg : c.nilRegionRoundtrip = true)
    (hh : c.headForcesValid = true) (e : Edit) : RoundTrips c e := by
  intro v
  cases e with
  | addFile m => rfl
  | delFile m => rfl
  | logPtr s o => rfl
  | vlogHead m => cases m with
    | none => rfl
    | some m => simp [decodeNorm, apply, hh]
  | vlogDel m => cases m with
    | none => rfl
    | some m => simp [decodeNorm, apply]
  | vlogUpd m => cases m <;> rfl
  | raft p => cases p with
    | none => simp [decodeNorm, hr]
    | some p => rfl
  | region r => cases r with
    | none => simp [decodeNorm, hg]
    | some r =>
      obtain ⟨m, d⟩ := r
      cases d
      · rfl
      · simp [decodeNorm, apply, RegionMeta.zero]

theorem replayFrom_eq_applyAll (c : MCfg) (rs : List Edit) (h : ∀ e ∈ rs, RoundTrips c e) (v : Version) :
    replayFrom c v rs = applyAll c v rs := by
  induction rs generalizing v with
  | nil => rfl
  | cons e t ih =>
    simp only [replayFrom, applyAll, List.foldl_cons]
    rw [h e List.mem_cons_self v]
    exact ih (fun e' he' => h e' (List.mem_cons_of_mem _ he')) _

theorem replayFrom_append (c : MCfg) (v : Version) (a b : List Edit) :
    replayFrom c v (a ++ b) = replayFrom c (replayFrom c v a) b := by
  simp [replayFrom, List.foldl_append]

/-! ## well-formed versions -/

structure WF (v : Version) : Prop where
  vs : Sorted v.vlogs
  hs : Sorted v.heads
  rs : Sorted v.rafts
  gs : Sorted v.regions
  vkey : ∀ p ∈ v.vlogs, p.1 = (p.2.bucket, p.2.fid)
  hkey : ∀ k h, v.heads.get k = some h →
    k = (h.bucket, 0) ∧ h.valid = true ∧ v.vlogs.get (h.bucket, h.fid) = some h
  rkey : ∀ p ∈ v.rafts, p.1 = (p.2.group, 0)
  gkey : ∀ p ∈ v.regions, p.1 = (p.2.id, 0)

theorem WF_empty : WF Version.empty :=
  ⟨sorted_nil, sorted_nil, sorted_nil, sorted_nil, by simp [Version.empty], by simp [Version.empty, KMap.get],
   by simp [Version.empty], by simp [Version.empty]⟩

theorem get_ins (k k0 : Key) (x : α) (m : KMap α) :
    get k (ins k0 x m) = if k = k0 then some x else get k m := by
  by_cases h : k = k0
  · subst h; simp [get_ins_self]
  · simp [h, get_ins_other x m h]

theorem headMatches_false_of {heads : KMap VlogMeta} {b f : Nat} {h : VlogMeta}
    (hm : headMatches heads b f = false) (hg : heads.get (b, 0) = some h) : h.fid ≠ f := by
  unfold headMatches at hm
  rw [hg] at hm
  simpa using hm

theorem key_ne_of_bucket {b b' f f' : Nat} (h : b' ≠ b) : ((b', f') : Key) ≠ (b, f) := by
  intro e; exact h (Prod.mk.inj e).1

/-- heads that survive a value-log edit on (b, f) do not point at (b, f) -/
theorem hkey_after_vlog_ins {v : Version} (hw : WF v) {b f : Nat} (x : VlogMeta) {heads' : KMap VlogMeta}
    (hsub : ∀ k h, heads'.get k = some h → v.heads.get k = some h ∧ (k = (b, 0) → h.fid ≠ f)) :
    ∀ k h, heads'.get k = some h →
      k = (h.bucket, 0) ∧ h.valid = true ∧ (v.vlogs.ins (b, f) x).get (h.bucket, h.fid) = some h := by
  intro k h hg
  obtain ⟨hold, hne⟩ := hsub k h hg
  obtain ⟨hk, hv, hgv⟩ := hw.hkey k h hold
  refine ⟨hk, hv, ?_⟩
  have : ((h.bucket, h.fid) : Key) ≠ (b, f) := by
    intro e
    have e1 := (Prod.mk.inj e).1
    have e2 := (Prod.mk.inj e).2
    exact hne (by rw [hk, e1]) e2
  rw [get_ins_other x _ this]
  exact hgv

theorem WF_apply (c : MCfg) (hh : c.headForcesValid = true) {v : Version} (hw : WF v) (e : Edit) :
    WF (apply c v e) := by
  cases e with
  | addFile m => exact ⟨hw.vs, hw.hs, hw.rs, hw.gs, hw.vkey, hw.hkey, hw.rkey, hw.gkey⟩
  | delFile m => exact ⟨hw.vs, hw.hs, hw.rs, hw.gs, hw.vkey, hw.hkey, hw.rkey, hw.gkey⟩
  | logPtr s o => exact ⟨hw.vs, hw.hs, hw.rs, hw.gs, hw.vkey, hw.hkey, hw.rkey, hw.gkey⟩
  | vlogHead m =>
    cases m with
    | none => exact hw
    | some m =>
      simp only [apply, hh, if_true]
      refine ⟨sorted_ins hw.vs, sorted_ins hw.hs, hw.rs, hw.gs, ?_, ?_, hw.rkey, hw.gkey⟩
      · intro p hp
        rcases mem_ins hp with hp | hp
        · subst hp; rfl
        · exact hw.vkey p hp
      · intro k h hg
        rw [get_ins] at hg
        split at hg
        · rename_i hk
          cases hg
          exact ⟨hk, rfl, get_ins_self _ _ _⟩
        · rename_i hk
          obtain ⟨hk', hv, hgv⟩ := hw.hkey k h hg
          refine ⟨hk', hv, ?_⟩
          have : ((h.bucket, h.fid) : Key) ≠ (m.bucket, m.fid) := by
            intro e
            apply hk
            rw [hk', (Prod.mk.inj e).1]
          rw [get_ins_other _ _ this]
          exact hgv
  | vlogDel m =>
    cases m with
    | none => exact hw
    | some m =>
      simp only [apply]
      have hvk : ∀ p ∈ ins (m.bucket, m.fid) (⟨m.bucket, m.fid,
          if c.vlogDelZeroesOffset then 0 else ((v.vlogs.get (m.bucket, m.fid)).getD ⟨0, 0, 0, false⟩).offset, false⟩ : VlogMeta) v.vlogs,
          p.1 = (p.2.bucket, p.2.fid) := by
        intro p hp
        rcases mem_ins hp with hp | hp
        · subst hp; rfl
        · exact hw.vkey p hp
      cases hm : headMatches v.heads m.bucket m.fid
      · simp only [Bool.false_eq_true, if_false]
        refine ⟨sorted_ins hw.vs, hw.hs, hw.rs, hw.gs, hvk, ?_, hw.rkey, hw.gkey⟩
        apply hkey_after_vlog_ins hw
        intro k h hg
        refine ⟨hg, ?_⟩
        intro hk
        subst hk
        exact headMatches_false_of hm hg
      · simp only [if_true]
        refine ⟨sorted_ins hw.vs, sorted_del hw.hs, hw.rs, hw.gs, hvk, ?_, hw.rkey, hw.gkey⟩
        apply hkey_after_vlog_ins hw
        intro k h hg
        by_cases hk : k = (m.bucket, 0)
        · subst hk
          rw [get_del_self hw.hs] at hg
          cases hg
        · rw [get_del_other _ hk] at hg
          exact ⟨hg, fun e => absurd e hk⟩
  | vlogUpd m =>
    cases m with
    | none => exact hw
    | some m =>
      simp only [apply]
      have hvk : ∀ p ∈ ins (m.bucket, m.fid) m v.vlogs, p.1 = (p.2.bucket, p.2.fid) := by
        intro p hp
        rcases mem_ins hp with hp | hp
        · subst hp; rfl
        · exact hw.vkey p hp
      cases hm : headMatches v.heads m.bucket m.fid
      · simp only [Bool.false_eq_true, if_false]
        refine ⟨sorted_ins hw.vs, hw.hs, hw.rs, hw.gs, hvk, ?_, hw.rkey, hw.gkey⟩
        apply hkey_after_vlog_ins hw
        intro k h hg
        refine ⟨hg, ?_⟩
        intro hk
        subst hk
        exact headMatches_false_of hm hg
      · simp only [if_true]
        cases hv : m.valid
        · simp only [Bool.false_eq_true, if_false]
          refine ⟨sorted_ins hw.vs, sorted_del hw.hs, hw.rs, hw.gs, hvk, ?_, hw.rkey, hw.gkey⟩
          apply hkey_after_vlog_ins hw
          intro k h hg
          by_cases hk : k = (m.bucket, 0)
          · subst hk
            rw [get_del_self hw.hs] at hg
            cases hg
          · rw [get_del_other _ hk] at hg
            exact ⟨hg, fun e => absurd e hk⟩
        · simp only [if_true]
          refine ⟨sorted_ins hw.vs, sorted_ins hw.hs, hw.rs, hw.gs, hvk, ?_, hw.rkey, hw.gkey⟩
          intro k h hg
          rw [get_ins] at hg
          split at hg
          · rename_i hk
            cases hg
            exact ⟨hk, hv, get_ins_self _ _ _⟩
          · rename_i hk
            obtain ⟨hk', hvv, hgv⟩ := hw.hkey k h hg
            refine ⟨hk', hvv, ?_⟩
            have : ((h.bucket, h.fid) : Key) ≠ (m.bucket, m.fid) := by
              intro e
              apply hk
              rw [hk', (Prod.mk.inj e).1]
            rw [get_ins_other _ _ this]
            exact hgv
  | raft p =>
    cases p with
    | none => exact hw
    | some p =>
      refine ⟨hw.vs, hw.hs, sorted_ins hw.rs, hw.gs, hw.vkey, hw.hkey, ?_, hw.gkey⟩
      intro q hq
      rcases mem_ins hq with hq | hq
      · subst hq; rfl
      · exact hw.rkey q hq
  | region r =>
    cases r with
    | none => exact hw
    | some r =>
      obtain ⟨m, d⟩ := r
      cases d
      · refine ⟨hw.vs, hw.hs, hw.rs, sorted_ins hw.gs, hw.vkey, hw.hkey, hw.rkey, ?_⟩
        intro q hq
        rcases mem_ins hq with hq | hq
        · subst hq; rfl
        · exact hw.gkey q hq
      · exact ⟨hw.vs, hw.hs, hw.rs, sorted_del hw.gs, hw.vkey, hw.hkey, hw.rkey,
          fun q hq => hw.gkey q (mem_del hq)⟩

theorem WF_applyAll (c : MCfg) (hh : c.headForcesValid = true) (es : List Edit) {v : Version} (hw : WF v) :
    WF (applyAll c v es) := by
  induction es generalizing v with
  | nil => exact hw
  | cons e t ih => exact ih (WF_apply c hh hw e)

end NoKV.Manifest

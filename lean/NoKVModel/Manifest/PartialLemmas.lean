/-
Instances of the run invariant: the repaired configuration (all edits) and the as-is
configuration (edits outside the three defects); the crash statement for all images.
-/
import NoKVModel.Manifest.RunLemmas

namespace NoKV.Manifest
open KMap

/-- all edits of a call list, in order -/
def allEdits (cs : List Call) : List Edit := cs.flatMap Call.edits

theorem run_edits_from (c : MCfg) (thr : Nat) (sw : Bool) (cs : List Call) (r : Run) :
    (cs.foldl (Run.call c thr sw) r).edits = r.edits ++ allEdits cs := by
  induction cs generalizing r with
  | nil => simp [allEdits]
  | cons cl t ih =>
    simp only [List.foldl_cons]
    rw [ih]
    simp [Run.call, allEdits, List.append_assoc]

theorem run_edits (c : MCfg) (thr : Nat) (sw : Bool) (cs : List Call) :
    (runCalls c thr sw cs).edits = allEdits cs := by
  unfold runCalls
  rw [run_edits_from]
  rfl

/-- the crash statement for every image of a run, from the invariant -/
theorem crash_all {c : MCfg} {I : Version → Prop} {allowed : Edit → Prop} (H : Hyps c I allowed)
    (thr : Nat) (sw : Bool) (cs : List Call) (hcs : ∀ cl ∈ cs, ∀ e ∈ cl.edits, allowed e) :
    ∀ im ∈ (runCalls c thr sw cs).allImages,
      ∃ j, im.acked ≤ j ∧ j ≤ (runCalls c thr sw cs).edits.length ∧
        ∃ v, recoverDB c im.disk = some v ∧
          canon v = canon (applyAll c Version.empty ((runCalls c thr sw cs).edits.take j)) := by
  have hI : Inv c I (runCalls c thr sw cs) := Inv_run H thr sw cs hcs (Inv_init H)
  intro im him
  unfold Run.allImages at him
  rcases List.mem_append.mp him with him | him
  · exact hI.imgs im him
  · simp only [List.mem_cons, List.not_mem_nil, or_false] at him
    subst him
    obtain ⟨f, hp, hcl, hcan⟩ := hI.pts
    refine ⟨_, Nat.le_refl _, Nat.le_refl _, replay c f.recs, recoverDB_points_clean c hp hcl, ?_⟩
    rw [List.take_length]
    exact hcan

/-! ## repaired configuration -/

theorem hyps_good (c : MCfg) (hc : c.Good) : Hyps c WF (fun _ => True) := by
  obtain ⟨⟨hh, hd, o1, o2, o3, t1, t2, t3⟩, hs, hr, hg⟩ := hc
  exact {
    ord := ⟨o1, o2, o3⟩, dff := hd, t1 := t1, t2 := t2, t3 := t3,
    i0 := WF_empty,
    istep := fun v e _ hw => WF_apply c hh hw e,
    snap := fun v hw => snapshot_faithful c hs hh hw,
    rt := fun e _ => roundTrips_of_flags c hr hg hh e }

/-! ## as-is configuration -/

/-- edits outside the as-is defects -/
def Benign : Edit → Prop
  | .raft none => False
  | .region none => False
  | .vlogUpd (some m) => m.valid = true ∨ m.offset = 0
  | _ => True

/-- well-formed, and every invalid value-log entry has offset 0 -/
def WFZ (v : Version) : Prop := WF v ∧ ∀ p ∈ v.vlogs, p.2.valid = false → p.2.offset = 0

theorem roundTrips_benign (c : MCfg) (hh : c.headForcesValid = true) (e : Edit) (hb : Benign e) :
    RoundTrips c e := by
  intro v
  cases e with
  | addFile m => rfl
  | delFile m => rfl
  | logPtr s o => rfl
  | vlogHead m => cases m with
    | none => rfl
    | some m => simp [decodeNorm, apply, hh]
  | vlogDel m => cases m with
    | none => rfl
    | some m => simp [decodeNorm, apply]
  | vlogUpd m => cases m <;> rfl
  | raft p => cases p with
    | none => exact absurd hb id
    | some p => rfl
  | region r => cases r with
    | none => exact absurd hb id
    | some r =>
      obtain ⟨m, d⟩ := r
      cases d
      · rfl
      · simp [decodeNorm, apply, RegionMeta.zero]

theorem WFZ_apply (c : MCfg) (hh : c.headForcesValid = true) (hz : c.vlogDelZeroesOffset = true)
    {v : Version} (e : Edit) (hb : Benign e) (hw : WFZ v) : WFZ (apply c v e) := by
  refine ⟨WF_apply c hh hw.1 e, ?_⟩
  have hz0 := hw.2
  cases e with
  | addFile m => exact hz0
  | delFile m => exact hz0
  | logPtr s o => exact hz0
  | vlogHead m =>
    cases m with
    | none => exact hz0
    | some m =>
      intro p hp
      simp only [apply, hh, if_true] at hp
      rcases mem_ins hp with hp | hp
      · subst hp; intro h; simp at h
      · exact hz0 p hp
  | vlogDel m =>
    cases m with
    | none => exact hz0
    | some m =>
      intro p hp
      simp only [apply, hz, if_true] at hp
      rcases mem_ins hp with hp | hp
      · subst hp; intro _; rfl
      · exact hz0 p hp
  | vlogUpd m =>
    cases m with
    | none => exact hz0
    | some m =>
      intro p hp
      simp only [apply] at hp
      rcases mem_ins hp with hp | hp
      · subst hp
        intro h
        rcases hb with hb | hb
        · simp [hb] at h
        · exact hb
      · exact hz0 p hp
  | raft p => cases p <;> exact hz0
  | region r =>
    cases r with
    | none => exact hz0
    | some r => obtain ⟨m, d⟩ := r; cases d <;> exact hz0

/-- the value-log section of the snapshot, as-is shape included -/
theorem applyAll_vlogs_general (c : MCfg) (hz : c.vlogDelZeroesOffset = true) (l acc : KMap VlogMeta) (v : Version)
    (hk : ∀ p ∈ l, p.1 = (p.2.bucket, p.2.fid)) (h0 : ∀ p ∈ l, p.2.valid = false → p.2.offset = 0)
    (hs : Sorted (acc ++ l)) (hv : v.vlogs = acc) (hh : v.heads = []) :
    applyAll c v (l.map (fun p => if p.2.valid ∨ c.snapInvalidAsUpdate then Edit.vlogUpd (some p.2)
        else Edit.vlogDel (some p.2))) = { v with vlogs := acc ++ l } := by
  induction l generalizing v acc with
  | nil => subst hv; simp [applyAll]
  | cons p t ih =>
    simp only [List.map_cons, applyAll, List.foldl_cons]
    have hp : p.1 = (p.2.bucket, p.2.fid) := hk p List.mem_cons_self
    have hlast : ins (p.2.bucket, p.2.fid) p.2 acc = acc ++ [p] := by
      rw [← hp]
      have := ins_append_last (k := p.1) (x := p.2) (m := acc) (by
        intro q hq
        unfold Sorted at hs
        rw [List.pairwise_append] at hs
        exact hs.2.2 q hq p List.mem_cons_self)
      simpa using this
    have hstep : apply c v (if p.2.valid ∨ c.snapInvalidAsUpdate then Edit.vlogUpd (some p.2)
        else Edit.vlogDel (some p.2)) = { v with vlogs := acc ++ [p] } := by
      split
      · simp [apply, hh, headMatches_nil, hv, hlast]
      · rename_i hcond
        have hval : p.2.valid = false := by
          cases hvv : p.2.valid
          · rfl
          · exact absurd (Or.inl hvv) hcond
        have hoff : p.2.offset = 0 := h0 p List.mem_cons_self hval
        have hm : (⟨p.2.bucket, p.2.fid, 0, false⟩ : VlogMeta) = p.2 := by
          cases hp2 : p.2
          simp [hp2] at hval hoff
          simp [hval, hoff]
        simp [apply, hh, headMatches_nil, hv, hz, hm, hlast]
    rw [hstep]
    have := ih (acc ++ [p]) { v with vlogs := acc ++ [p] }
      (fun q hq => hk q (List.mem_cons_of_mem _ hq)) (fun q hq => h0 q (List.mem_cons_of_mem _ hq))
      (by simpa using hs) rfl hh
    simp only [applyAll] at this
    rw [this]
    simp

theorem snapshot_faithful_asis (c : MCfg) (hf : c.headForcesValid = true) (hz : c.vlogDelZeroesOffset = true)
    {v : Version} (hw : WFZ v) : replay c (snapshotEdits c v) = canon v := by
  unfold replay
  rw [replayFrom_eq_applyAll c _ (snapshot_roundTrips c hf v)]
  obtain ⟨hw, h0⟩ := hw
  unfold snapshotEdits
  rw [applyAll_append, applyAll_append, applyAll_append, applyAll_append, applyAll_append]
  rw [applyAll_addFiles]
  have h1 : applyAll c { Version.empty with files := Version.empty.files ++ sortF v.files }
      [Edit.logPtr v.logSeg v.logOff] =
      { files := sortF v.files, logSeg := v.logSeg, logOff := v.logOff } := by
    simp [applyAll, apply, Version.empty]
  rw [h1]
  rw [applyAll_vlogs_general c hz v.vlogs [] _ hw.vkey h0 (by simpa using hw.vs) rfl rfl]
  rw [applyAll_heads c hf v.heads [] _ ?_ (by simpa using hw.vs) (by simpa using hw.hs) rfl]
  · rw [applyAll_rafts c v.rafts [] _ hw.rkey (by simpa using hw.rs) rfl]
    rw [applyAll_regions c v.regions [] _ hw.gkey (by simpa using hw.gs) rfl]
    simp [canon]
  · intro p hp
    have hg : v.heads.get p.1 = some p.2 := get_of_mem hw.hs (by simpa using hp)
    obtain ⟨a, b, d⟩ := hw.hkey p.1 p.2 hg
    exact ⟨a, b, by simpa using d⟩

theorem hyps_asis (c : MCfg) (hc : c.GoodAsIs) : Hyps c WFZ Benign := by
  obtain ⟨⟨hh, hd, o1, o2, o3, t1, t2, t3⟩, hz⟩ := hc
  exact {
    ord := ⟨o1, o2, o3⟩, dff := hd, t1 := t1, t2 := t2, t3 := t3,
    i0 := ⟨WF_empty, by simp [Version.empty]⟩,
    istep := fun v e hb hw => WFZ_apply c hh hz e hb hw,
    snap := fun v hw => snapshot_faithful_asis c hh hz hw,
    rt := fun e hb => roundTrips_benign c hh e hb }

end NoKV.Manifest

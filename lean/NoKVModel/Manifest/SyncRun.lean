/-
One preservation lemma per file-system step for the crash-point invariant `J`, the two
procedures (append, rewrite) as phases, the invariant `XInv` of runs with the durability ghost,
its preservation by calls and by crash + recovery, hence for every `Reach`able run.
-/
import NoKVModel.Manifest.SyncLemmas

namespace NoKV.Manifest
open KMap

/-! ## pairs (directory, ghost) along step lists -/

theorem psteps_append (tot : Nat) (p : PS) (a b : List Step) :
    psteps tot p (a ++ b) = psteps tot (psteps tot p a) b := by
  simp [psteps, List.foldl_append]

theorem psteps_cons (tot : Nat) (p : PS) (s : Step) (t : List Step) :
    psteps tot p (s :: t) = psteps tot (pstep tot p s) t := rfl

theorem psteps_fst (tot : Nat) (p : PS) (ss : List Step) : (psteps tot p ss).1 = p.1.steps ss := by
  induction ss generalizing p with
  | nil => rfl
  | cons s t ih => rw [psteps_cons, ih, steps_cons]; rfl

theorem candSteps_append (tot a dur : Nat) (p : PS) (l1 l2 : List Step) :
    candSteps tot a dur p (l1 ++ l2) = candSteps tot a dur p l1 ++ candSteps tot a dur (psteps tot p l1) l2 := by
  induction l1 generalizing p with
  | nil => rfl
  | cons s t ih => simp [candSteps, psteps_cons, ih]

/-- an invariant preserved by every step holds at every crash point and at the end -/
theorem cand_inv (P : PS → Prop) (tot : Nat) (ss : List Step)
    (hstep : ∀ s ∈ ss, ∀ p, P p → P (pstep tot p s)) (p : PS) (h0 : P p) (a dur : Nat) :
    (∀ cd ∈ candSteps tot a dur p ss, P (cd.disk, cd.sync) ∧ cd.acked = a ∧ cd.durable = dur) ∧
    P (psteps tot p ss) := by
  induction ss generalizing p with
  | nil => exact ⟨by simp [candSteps], h0⟩
  | cons s t ih =>
    have h1 : P (pstep tot p s) := hstep s List.mem_cons_self p h0
    obtain ⟨hi, he⟩ := ih (fun s' hs' => hstep s' (List.mem_cons_of_mem _ hs')) (pstep tot p s) h1
    refine ⟨?_, he⟩
    intro cd hcd
    rcases List.mem_cons.mp hcd with hcd | hcd
    · subst hcd; exact ⟨h0, rfl, rfl⟩
    · exact hi cd hcd

/-! ## one lemma per step -/

/-- steps that leave CURRENT, manifest `n` and its ghost entry alone -/
def HarmlessS (n : Nat) (s : Step) : Prop := Harmless n s ∧ s ≠ .sync n

theorem ghost_step_harmless {n : Nat} {s : Step} (hs : HarmlessS n s) (tot : Nat) (d : Disk) (σ : SyncSt) :
    (σ.step tot d s).get n = σ.get n ∧ (σ.step tot d s).curSynced = σ.curSynced := by
  obtain ⟨hh, hns⟩ := hs
  cases s with
  | stat k => exact ⟨rfl, rfl⟩
  | close k => exact ⟨rfl, rfl⟩
  | openrw k => exact ⟨rfl, rfl⟩
  | append k rs => exact ⟨rfl, rfl⟩
  | setRaw k g => exact ⟨rfl, rfl⟩
  | writeTmp k => exact ⟨rfl, rfl⟩
  | tmpOpen => exact ⟨rfl, rfl⟩
  | tmpWrite k => exact ⟨rfl, rfl⟩
  | tmpSync => exact ⟨rfl, rfl⟩
  | tmpClose => exact ⟨rfl, rfl⟩
  | create k =>
    have hne : n ≠ k := fun e => hh e.symm
    exact ⟨get_set_ne σ hne _, rfl⟩
  | remove k =>
    have hne : n ≠ k := fun e => hh e.symm
    exact ⟨get_set_ne σ hne _, rfl⟩
  | sync k =>
    have hne : n ≠ k := fun e => hns (by rw [e])
    simp only [SyncSt.step]
    cases d.file? k with
    | none => exact ⟨rfl, rfl⟩
    | some g => exact ⟨get_set_ne σ hne _, rfl⟩
  | renameTmp => exact absurd hh id
  | writeCur k => exact absurd hh id

theorem JAt_pstep {c : MCfg} {E : List Edit} {dur acked n : Nat} {s : Step} (hs : HarmlessS n s) (tot : Nat)
    {p : PS} (h : JAt c E dur acked n p.1 p.2) : JAt c E dur acked n (pstep tot p s).1 (pstep tot p s).2 := by
  obtain ⟨f, h1, h2, h3, h4, h5, h6, h7, h8, h9, h10⟩ := h
  obtain ⟨g1, g2⟩ := ghost_step_harmless hs tot p.1 p.2
  obtain ⟨q1, q2⟩ := points_step hs.1 (⟨h1, h3⟩ : Points p.1 n f)
  simp only [pstep]
  exact ⟨f, q1, by rw [g2]; exact h2, q2, h4, by rw [g1]; exact h5, by rw [g1]; exact h6,
    by rw [g1]; exact h7, by rw [g1]; exact h8, by rw [g1]; exact h9, by rw [g1]; exact h10⟩

/-- `Write` of a batch at the end of the live manifest -/
theorem JAt_append {c : MCfg} {E : List Edit} {dur n : Nat} {d : Disk} {σ : SyncSt}
    (h : JAt c E dur E.length n d σ) (es : List Edit) :
    JAt c (E ++ es) dur (E ++ es).length n (d.step (.append n es)) σ := by
  obtain ⟨f, h1, h2, h3, h4, h5, h6, h7, h8, h9, h10⟩ := h
  have hlen : (σ.get n).2 + (f.recs.length - (σ.get n).1) = E.length := by omega
  have hdrop : f.recs.drop (σ.get n).1 = E.drop (σ.get n).2 := by
    rw [h7]; apply take_of_length_le'; simp; omega
  have hstep : d.step (.append n es) = d.setFile n { f with recs := f.recs ++ es } := by
    simp [Disk.step, h3]
  rw [hstep]
  refine ⟨{ f with recs := f.recs ++ es }, h1, h2, ?_, h4, by simp; omega, ?_, ?_, by simp; omega, h9, by simp; omega⟩
  · exact file_setFile_self d n _
  · show canon (replay c ((f.recs ++ es).take (σ.get n).1)) = _
    rw [take_append_le _ _ h5, take_append_le _ _ (by omega)]
    exact h6
  · show (f.recs ++ es).drop (σ.get n).1 = _
    rw [drop_append_le _ _ h5, hdrop, drop_append_le _ _ (by omega)]
    symm
    apply take_of_length_le'
    simp; omega

/-- `Sync` of the live manifest after an append: everything issued so far is now covered -/
theorem JAt_sync {c : MCfg} {I : Version → Prop} (H : Hyps c I (fun _ => True))
    {E : List Edit} {dur n : Nat} {d : Disk} {σ : SyncSt} (h : JAt c E dur E.length n d σ) :
    JAt c E dur E.length n (d.step (.sync n)) (σ.step E.length d (.sync n)) := by
  obtain ⟨f, h1, h2, h3, h4, h5, h6, h7, h8, h9, h10⟩ := h
  have hlen : (σ.get n).2 + (f.recs.length - (σ.get n).1) = E.length := by omega
  have hrep := J_replay_take H h6 h7 h5 (Nat.le_refl _)
  rw [hlen] at hrep
  simp only [Disk.step, SyncSt.step, h3]
  refine ⟨f, h1, h2, h3, h4, ?_, ?_, ?_, ?_, ?_, ?_⟩ <;> rw [get_set_self]
  · exact Nat.le_refl _
  · exact hrep
  · simp
  · simp
  · simp; omega
  · simp

/-! ## the append of a batch -/

theorem append_phase_X {c : MCfg} {I : Version → Prop} (H : Hyps c I (fun _ => True)) (hso : c.syncOnAppend = true)
    {E : List Edit} {dur n : Nat} {d : Disk} {σ : SyncSt} (h : JAt c E dur E.length n d σ)
    (es : List Edit) (m : Mgr) (hm : m.cur = n) :
    (∀ cd ∈ candSteps (E ++ es).length E.length dur (d, σ) (appendSteps c true m es),
        J c (E ++ es) dur E.length cd.disk cd.sync ∧ cd.acked = E.length ∧ cd.durable = dur) ∧
    JAt c (E ++ es) dur (E ++ es).length n
      (psteps (E ++ es).length (d, σ) (appendSteps c true m es)).1
      (psteps (E ++ es).length (d, σ) (appendSteps c true m es)).2 := by
  have h0 : JAt c (E ++ es) dur E.length n d σ := JAt_extend h es
  have h1 : JAt c (E ++ es) dur (E ++ es).length n (d.step (.append n es)) σ := JAt_append h es
  have hσ : σ.step (E ++ es).length d (.append n es) = σ := rfl
  unfold appendSteps
  rw [hm]
  by_cases hs : es.any requiresSync = true
  · rw [if_pos ⟨hso, rfl, hs⟩]
    simp only [List.singleton_append]
    have h2 := JAt_sync H h1
    refine ⟨?_, ?_⟩
    · intro cd hcd
      simp only [candSteps, pstep, hσ, List.mem_cons, List.not_mem_nil, or_false] at hcd
      rcases hcd with hcd | hcd
      · subst hcd; exact ⟨⟨n, h0⟩, rfl, rfl⟩
      · subst hcd; exact ⟨⟨n, JAt_weaken h1 (Nat.le_refl _) (by simp)⟩, rfl, rfl⟩
    · simpa only [psteps, List.foldl_cons, List.foldl_nil, pstep, hσ] using h2
  · rw [if_neg (fun hh => hs hh.2.2)]
    simp only [List.append_nil]
    refine ⟨?_, ?_⟩
    · intro cd hcd
      simp only [candSteps, List.mem_cons, List.not_mem_nil, or_false] at hcd
      subst hcd; exact ⟨⟨n, h0⟩, rfl, rfl⟩
    · simpa only [psteps, List.foldl_cons, List.foldl_nil, pstep, hσ] using h1

/-! ## the rewrite -/

theorem rwPre_nosync (c : MCfg) (sw : Bool) {cur n : Nat} (hn : n ≠ cur) (se : List Edit) :
    ∀ s ∈ rwPre c sw n se, s ≠ Step.sync cur := by
  intro s hs e
  subst e
  unfold rwPre at hs
  rcases List.mem_append.mp hs with hs | hs
  · simp only [List.mem_append, List.mem_cons, List.mem_map, List.mem_range, List.not_mem_nil, or_false] at hs
    rcases hs with ((hs | hs) | hs) | hs
    · cases hs
    · obtain ⟨i, _, hi⟩ := hs; cases hi
    · cases hs
    · rcases hs with hs | hs
      · cases sw
        · simp at hs
        · simp at hs; exact hn hs.symm
      · cases hs
  · cases h : c.currentTmpSynced <;> cases sw <;> simp [tmpPart, h] at hs

/-- the pair right before the rename, for the repaired `writeCurrent` with `syncWrites` -/
theorem pre_end_pair (c : MCfg) (hts : c.currentTmpSynced = true) (tot n : Nat) (F : MFile) (A : List Step) (p : PS) :
    psteps tot p (A ++ [Step.setRaw n F] ++ ([Step.sync n] ++ [Step.close n]) ++ tmpPart c true n) =
      ({ ((psteps tot p A).1.setFile n F) with tmp := some n },
       { ((psteps tot p A).2.set n (F.recs.length, tot)) with tmpSynced := true }) := by
  simp only [psteps_append]
  generalize psteps tot p A = q
  obtain ⟨d0, σ0⟩ := q
  simp [psteps, pstep, Disk.step, SyncSt.step, tmpPart, hts, file_setFile_self]

theorem rwPre_split (c : MCfg) (n : Nat) (se : List Edit) :
    rwPre c true n se =
      ([Step.create n] ++ (List.range ((encLens se - 1) / 4096)).map (fun i => Step.setRaw n (cutAt se ((i + 1) * 4096)))) ++
      [Step.setRaw n (fullFile se)] ++ ([Step.sync n] ++ [Step.close n]) ++ tmpPart c true n := by
  simp [rwPre]

/-- **Crash points of a rewrite, with the ghost.**  Up to the rename CURRENT durably names the
old manifest, untouched; the rename happens only once the snapshot is complete and fsynced and
the name in CURRENT.tmp is fsynced; from then on CURRENT durably names the snapshot. -/
theorem rewrite_phase_X {c : MCfg} {I : Version → Prop} (H : Hyps c I (fun _ => True)) (hts : c.currentTmpSynced = true)
    {E : List Edit} {dur a : Nat} {d : Disk} {σ : SyncSt} (m : Mgr)
    (h : JAt c E dur E.length m.cur d σ) (ha : a ≤ E.length)
    (hv : canon m.v = canon (applyAll c Version.empty E)) (hI : I m.v) :
    (∀ cd ∈ candSteps E.length a dur (d, σ) (rewriteSteps c true m d).1,
        J c E dur a cd.disk cd.sync ∧ cd.acked = a ∧ cd.durable = dur) ∧
    JAt c E dur E.length (rewriteSteps c true m d).2.cur
      (psteps E.length (d, σ) (rewriteSteps c true m d).1).1
      (psteps E.length (d, σ) (rewriteSteps c true m d).1).2 ∧
    ((psteps E.length (d, σ) (rewriteSteps c true m d).1).2.get (rewriteSteps c true m d).2.cur).2 = E.length := by
  obtain ⟨f, h1, h2, h3, h4, h5, h6, h7, h8, h9, h10⟩ := id h
  have hn : (rwFree m d).1 ≠ m.cur := rwFree_ne_cur h3
  have hst : ∀ s ∈ (rwFree m d).2, ∃ k, s = Step.stat k := freeId_stats _ _ _
  generalize hnn : (rwFree m d).1 = n at hn
  generalize hss : (rwFree m d).2 = stats at hst
  have hsteps : (rewriteSteps c true m d).1 =
      (stats ++ rwPre c true n (snapshotEdits c m.v)) ++ ([Step.renameTmp] ++ rwPost m.cur n) := by
    simp only [rewriteSteps, hnn, hss, rewriteBody_good c H.ord, List.append_assoc]
  have hcur : (rewriteSteps c true m d).2.cur = n := by simp [rewriteSteps, hnn]
  rw [hsteps, hcur]
  generalize hse : snapshotEdits c m.v = se
  -- phase 1
  have hP1 : ∀ s ∈ stats ++ rwPre c true n se, HarmlessS m.cur s := by
    intro s hs
    rcases List.mem_append.mp hs with hs | hs
    · obtain ⟨k, rfl⟩ := hst s hs
      exact ⟨trivial, by intro e; cases e⟩
    · exact ⟨(rwPre_harmless c true hn se s hs).1, rwPre_nosync c true hn se s hs⟩
  have hJa : JAt c E dur a m.cur d σ := JAt_weaken h (Nat.le_refl _) ha
  obtain ⟨hi1, he1⟩ := cand_inv (fun p => JAt c E dur a m.cur p.1 p.2) E.length (stats ++ rwPre c true n se)
    (fun s hs p hp => JAt_pstep (hP1 s hs) E.length hp) (d, σ) hJa a dur
  -- the pair before the rename
  have hlist : stats ++ rwPre c true n se =
      (stats ++ ([Step.create n] ++ (List.range ((encLens se - 1) / 4096)).map
            (fun i => Step.setRaw n (cutAt se ((i + 1) * 4096))))) ++ [Step.setRaw n (fullFile se)] ++
        ([Step.sync n] ++ [Step.close n]) ++ tmpPart c true n := by
    simp [rwPre, List.append_assoc]
  have hpair := pre_end_pair c hts E.length n (fullFile se)
    (stats ++ ([Step.create n] ++ (List.range ((encLens se - 1) / 4096)).map
            (fun i => Step.setRaw n (cutAt se ((i + 1) * 4096))))) (d, σ)
  rw [← hlist] at hpair
  generalize psteps E.length (d, σ) (stats ++ ([Step.create n] ++ (List.range ((encLens se - 1) / 4096)).map
            (fun i => Step.setRaw n (cutAt se ((i + 1) * 4096))))) = q at hpair
  obtain ⟨d0, σ0⟩ := q
  -- the rename
  have hsnap : canon (replay c se) = canon (applyAll c Version.empty E) := by
    rw [← hse, H.snap m.v hI, canon_idem, hv]
  have hdE : dur ≤ E.length := by omega
  have hp2 : JAt c E dur a n (pstep E.length (psteps E.length (d, σ) (stats ++ rwPre c true n se)) .renameTmp).1
      (pstep E.length (psteps E.length (d, σ) (stats ++ rwPre c true n se)) .renameTmp).2 := by
    rw [hpair]
    simp only [pstep, Disk.step, SyncSt.step]
    refine ⟨fullFile se, rfl, rfl, file_setFile_self d0 n _, rfl, ?_, ?_, ?_, ?_, ?_, ?_⟩
    · simp [SyncSt.get, SyncSt.set, List.lookup, fullFile]
    · simp only [SyncSt.get, SyncSt.set, List.lookup, beq_self_eq_true, Option.getD_some, fullFile]
      rw [List.take_length, List.take_length]; exact hsnap
    · simp [SyncSt.get, SyncSt.set, List.lookup, fullFile]
    · simp [SyncSt.get, SyncSt.set, List.lookup, fullFile]
    · simp [SyncSt.get, SyncSt.set, List.lookup, fullFile]; exact hdE
    · simp [SyncSt.get, SyncSt.set, List.lookup, fullFile]; exact ha
  have hP2 : ∀ s ∈ rwPost m.cur n, HarmlessS n s := by
    intro s hs
    refine ⟨(rwPost_harmless hn s hs).1, ?_⟩
    intro e
    subst e
    have hc : m.cur ≠ n := fun e => hn e.symm
    simp [rwPost, hc] at hs
  obtain ⟨hi2, he2⟩ := cand_inv (fun p => JAt c E dur a n p.1 p.2) E.length (rwPost m.cur n)
    (fun s hs p hp => JAt_pstep (hP2 s hs) E.length hp) _ hp2 a dur
  have hend : psteps E.length (d, σ) ((stats ++ rwPre c true n se) ++ ([Step.renameTmp] ++ rwPost m.cur n)) =
      psteps E.length (pstep E.length (psteps E.length (d, σ) (stats ++ rwPre c true n se)) .renameTmp) (rwPost m.cur n) := by
    rw [psteps_append, List.singleton_append, psteps_cons]
  -- the ghost entry of n is untouched by the post steps
  have hkeep : ∀ (ss : List Step), (∀ s ∈ ss, HarmlessS n s) → ∀ p : PS, ((psteps E.length p ss).2.get n) = p.2.get n := by
    intro ss
    induction ss with
    | nil => intro _ p; rfl
    | cons s t ih =>
      intro hh p
      rw [psteps_cons, ih (fun s' hs' => hh s' (List.mem_cons_of_mem _ hs'))]
      exact (ghost_step_harmless (hh s List.mem_cons_self) E.length p.1 p.2).1
  have hget : ((psteps E.length (pstep E.length (psteps E.length (d, σ) (stats ++ rwPre c true n se)) .renameTmp)
      (rwPost m.cur n)).2.get n).2 = E.length := by
    rw [hkeep _ hP2, hpair]
    simp [pstep, SyncSt.step, SyncSt.get, SyncSt.set, List.lookup]
  refine ⟨?_, ?_, ?_⟩
  · intro cd hcd
    rw [candSteps_append] at hcd
    rcases List.mem_append.mp hcd with hcd | hcd
    · obtain ⟨x1, x2, x3⟩ := hi1 cd hcd
      exact ⟨⟨m.cur, x1⟩, x2, x3⟩
    · simp only [List.singleton_append, candSteps] at hcd
      rcases List.mem_cons.mp hcd with hcd | hcd
      · subst hcd; exact ⟨⟨m.cur, he1⟩, rfl, rfl⟩
      · obtain ⟨x1, x2, x3⟩ := hi2 cd hcd
        exact ⟨⟨n, x1⟩, x2, x3⟩
  · rw [hend]
    obtain ⟨f', g1, g2, g3, g4, g5, g6, g7, g8, g9, g10⟩ := he2
    exact ⟨f', g1, g2, g3, g4, g5, g6, g7, g8, g9, by omega⟩
  · rw [hend]
    exact hget

end NoKV.Manifest

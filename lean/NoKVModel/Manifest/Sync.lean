/-
Manifest engine (C15): durability ghost and repeated crash/recovery rounds.

On top of the step model of `Disk.lean`:
* `SyncSt` records, per manifest file, how many leading records an `fsync` has covered (and how
  many edits those records stand for), and whether the *content* of CURRENT / CURRENT.tmp has
  been fsynced;
* a crash may lose ANY BYTE PREFIX OF THE BYTES WRITTEN SINCE THE LAST SYNC of the manifest that
  CURRENT names (`lossVariants`: every record boundary at or after the synced point, and the
  three torn shapes inside the next record), and — when the name in CURRENT was never fsynced —
  the name itself;
* `XRun` = a run with that ghost, `XRun.recoverFrom` = Verify; Open on a crashed directory,
  continuing as a new run whose acknowledged list is the recovered prefix;
* `Reach` = any number of rounds (calls …, crash, recovery, calls …, crash, …).

Directory operations (create, rename, remove) are atomic and ordered; only file *contents* are
subject to loss.  Everything is computable (the driver runs the same functions).
-/
import NoKVModel.Manifest.Disk

namespace NoKV.Manifest

/-- durability ghost -/
structure SyncSt where
  /-- file id ↦ (leading records covered by an fsync, edits those records stand for) -/
  files : List (Nat × (Nat × Nat)) := [(1, (0, 0))]
  /-- the content of CURRENT.tmp has been fsynced since it was written -/
  tmpSynced : Bool := false
  /-- the name CURRENT holds was on stable storage before CURRENT switched to it -/
  curSynced : Bool := true
  deriving DecidableEq, Repr, Inhabited

def SyncSt.get (σ : SyncSt) (n : Nat) : Nat × Nat := (σ.files.lookup n).getD (0, 0)

def SyncSt.set (σ : SyncSt) (n : Nat) (v : Nat × Nat) : SyncSt :=
  { σ with files := (n, v) :: σ.files.filter (fun p => p.1 ≠ n) }

/-- effect of one file-system call on the ghost; `d` = directory before the call, `tot` = number
of edits issued so far including the batch in flight (what a completely synced live manifest or
snapshot stands for) -/
def SyncSt.step (tot : Nat) (d : Disk) (σ : SyncSt) : Step → SyncSt
  | .create n => σ.set n (0, 0)
  | .remove n => σ.set n (0, 0)
  | .sync n =>
    match d.file? n with
    | some f => σ.set n (f.recs.length, tot)
    | none => σ
  | .writeTmp _ => { σ with tmpSynced := false }
  | .tmpWrite _ => { σ with tmpSynced := false }
  | .tmpSync => { σ with tmpSynced := true }
  | .renameTmp =>
    match d.tmp with
    | some _ => { σ with curSynced := σ.tmpSynced, tmpSynced := false }
    | none => σ
  | .writeCur _ => { σ with curSynced := false }
  | _ => σ

abbrev PS := Disk × SyncSt

def pstep (tot : Nat) (p : PS) (s : Step) : PS := (p.1.step s, p.2.step tot p.1 s)

def psteps (tot : Nat) (p : PS) (ss : List Step) : PS := ss.foldl (pstep tot) p

/-- a crash point: the directory and ghost between two file-system calls, the number of edits
whose call had returned, and the number of edits acknowledged *as durable* -/
structure Cand where
  disk : Disk
  sync : SyncSt
  acked : Nat
  durable : Nat
  deriving DecidableEq, Repr, Inhabited

def candSteps (tot acked dur : Nat) (p : PS) : List Step → List Cand
  | [] => []
  | s :: ss => ⟨p.1, p.2, acked, dur⟩ :: candSteps tot acked dur (pstep tot p s) ss

/-! ## what a crash may leave of a directory -/

def tornShapes (f : MFile) (L : Nat) : List MFile :=
  [{ recs := f.recs.take L, tail := .clean }, { recs := f.recs.take L, tail := .partLen },
   { recs := f.recs.take L, tail := .lenOnly }, { recs := f.recs.take L, tail := .partPayload }]

/-- every byte prefix of `f` that keeps its first `S` records, by shape -/
def fileCuts (f : MFile) (S : Nat) : List MFile :=
  (List.range (f.recs.length - S)).flatMap (fun i => tornShapes f (S + i)) ++ [f]

def freshId (d : Disk) : Nat := (d.files.map (fun p => p.1)).foldl max 0 + 1

/-- the directories a crash at this point may leave: the manifest CURRENT names cut anywhere
after its synced prefix (the last variant is "nothing lost"), and, if the name in CURRENT was
never fsynced, a CURRENT holding a proper prefix of the name (it then names no file) -/
def lossVariants (d : Disk) (σ : SyncSt) : List Disk :=
  match d.current with
  | none => [d]
  | some n =>
    match d.file? n with
    | none => [d]
    | some f =>
      (fileCuts f (σ.get n).1).map (fun f' => d.setFile n f') ++
      (if σ.curSynced then [] else [{ d with current := some (freshId d) }])

/-! ## runs with the ghost, recovery, rounds -/

structure XRun where
  mgr : Mgr := {}
  disk : Disk := Disk.init
  sync : SyncSt := {}
  /-- the acknowledged list (plus the batch in flight), relative to the last recovery -/
  edits : List Edit := []
  /-- how many of them have been acknowledged as durable -/
  durable : Nat := 0
  /-- crash points of the current round -/
  cands : List Cand := []
  deriving Repr, Inhabited

def XRun.call (c : MCfg) (thr : Nat) (syncWrites : Bool) (x : XRun) (cl : Call) : XRun :=
  let cs := callSteps c thr syncWrites x.mgr x.disk cl
  let tot := x.edits.length + cl.edits.length
  let p' := psteps tot (x.disk, x.sync) cs.1
  { mgr := cs.2, disk := p'.1, sync := p'.2, edits := x.edits ++ cl.edits,
    durable := if p'.2.curSynced then max x.durable (p'.2.get cs.2.cur).2 else x.durable,
    cands := x.cands ++ candSteps tot x.edits.length x.durable (x.disk, x.sync) cs.1 }

def XRun.final (x : XRun) : Cand := ⟨x.disk, x.sync, x.edits.length, x.durable⟩

def XRun.allCands (x : XRun) : List Cand := x.cands ++ [x.final]

/-- `Verify; Open` on a crashed directory `d'` (a loss variant of the crash point `cd`), and the
run that continues from it: the acknowledged list becomes the recovered prefix.  `none` = the
directory does not open to a manifest (Verify/Open fail, or CURRENT names nothing and `Open`
would start an empty manifest). -/
def XRun.recoverFrom (c : MCfg) (x : XRun) (cd : Cand) (d' : Disk) : Option XRun :=
  match d'.current with
  | none => none
  | some n =>
    match d'.file? n with
    | none => none
    | some f =>
      match verifyFile c f with
      | none => none
      | some f' =>
        match replayFile c f' with
        | none => none
        | some v =>
          some { mgr := { v := v, cur := n, next := n + 1 },
                 disk := { (d'.setFile n f') with tmp := none },
                 sync := { cd.sync with tmpSynced := false },
                 edits := x.edits.take ((cd.sync.get n).2 + (f'.recs.length - (cd.sync.get n).1)),
                 durable := cd.durable,
                 cands := [] }

/-- any number of rounds: calls, then a crash at any crash point with any loss, recovery, … -/
inductive Reach (c : MCfg) (thr : Nat) (syncWrites : Bool) : XRun → Prop
  | init : Reach c thr syncWrites {}
  | call {x : XRun} (cl : Call) : Reach c thr syncWrites x → Reach c thr syncWrites (x.call c thr syncWrites cl)
  | crash {x x' : XRun} {cd : Cand} {d' : Disk} : Reach c thr syncWrites x → cd ∈ x.allCands →
      d' ∈ lossVariants cd.disk cd.sync → x.recoverFrom c cd d' = some x' → Reach c thr syncWrites x'

end NoKV.Manifest

/-
Manifest engine (C15): the in-memory `Version`, the per-edit `apply` rules of
`manifest/manager.go:apply`, the snapshot a rewrite writes (`writeSnapshot`), what the
codec round trip does to an edit (`decodeNorm`, from `manifest/codec.go`), byte-exact
record lengths (for the rewrite threshold and the 4096-byte chunks of the snapshot writer).

Core Lean only; everything is computable.  The code is modelled as it is, oddities included:
* `EditDeleteValueLog` overwrites all four fields of the entry (offset := 0, valid := false);
* `writeSnapshot` writes an *invalid* value-log entry as `EditDeleteValueLog`
  (`snapInvalidAsUpdate = false`), which loses its offset;
* `decodeEdit` turns a raft / region edit without payload (nil pointer on the writer side)
  into an all-zero pointer / region (`nilRaftRoundtrip / nilRegionRoundtrip = false`).
-/
import NoKVModel.Base.Bytes

namespace NoKV.Manifest

/-! ## sorted association lists keyed by pairs of naturals (Go maps, canonical form) -/

abbrev Key := Nat × Nat

def klt (a b : Key) : Prop := a.1 < b.1 ∨ (a.1 = b.1 ∧ a.2 < b.2)

instance klt.dec (a b : Key) : Decidable (klt a b) := by unfold klt; exact inferInstance

abbrev KMap (α : Type) := List (Key × α)

namespace KMap
variable {α : Type}

def ins (k : Key) (x : α) : KMap α → KMap α
  | [] => [(k, x)]
  | (k', y) :: t =>
    if klt k k' then (k, x) :: (k', y) :: t
    else if k = k' then (k, x) :: t
    else (k', y) :: ins k x t

def del (k : Key) : KMap α → KMap α
  | [] => []
  | (k', y) :: t => if k = k' then t else (k', y) :: del k t

def get (k : Key) : KMap α → Option α
  | [] => none
  | (k', y) :: t => if k = k' then some y else get k t

end KMap

/-! ## metadata records -/

structure FileMeta where
  level : Nat
  id : Nat
  size : Nat
  smallest : Bytes
  largest : Bytes
  created : Nat
  valueSize : Nat
  ingest : Bool
  deriving DecidableEq, Repr, Inhabited

structure VlogMeta where
  bucket : Nat
  fid : Nat
  offset : Nat
  valid : Bool
  deriving DecidableEq, Repr, Inhabited

structure RaftPtr where
  group : Nat
  segment : Nat
  offset : Nat
  appliedIndex : Nat
  appliedTerm : Nat
  committed : Nat
  snapIndex : Nat
  snapTerm : Nat
  truncIndex : Nat
  truncTerm : Nat
  segIndex : Nat
  truncOffset : Nat
  deriving DecidableEq, Repr, Inhabited

structure RegionMeta where
  id : Nat
  start : Bytes
  end_ : Bytes
  ver : Nat
  conf : Nat
  state : Nat
  peers : List (Nat × Nat)
  deriving DecidableEq, Repr, Inhabited

def RaftPtr.zero : RaftPtr := ⟨0, 0, 0, 0, 0, 0, 0, 0, 0, 0, 0, 0⟩
def RegionMeta.zero : RegionMeta := ⟨0, [], [], 0, 0, 0, []⟩

/-- One manifest edit.  `none` payloads are Go nil pointers (`edit.ValueLog == nil` …). -/
inductive Edit where
  | addFile (m : FileMeta)
  | delFile (m : FileMeta)
  | logPtr (seg off : Nat)
  | vlogHead (m : Option VlogMeta)
  | vlogDel (m : Option VlogMeta)
  | vlogUpd (m : Option VlogMeta)
  | raft (p : Option RaftPtr)
  | region (r : Option (RegionMeta × Bool))   -- (meta, Delete)
  deriving DecidableEq, Repr, Inhabited

/-- In-memory state (`manifest.Version`).  `files` is the flat list of SST metas in insertion
order: Go's `Levels[l]` is its sub-list with `level = l` (an absent and an empty level are the
same thing here). -/
structure Version where
  files : List FileMeta := []
  logSeg : Nat := 0
  logOff : Nat := 0
  vlogs : KMap VlogMeta := []
  heads : KMap VlogMeta := []
  rafts : KMap RaftPtr := []
  regions : KMap RegionMeta := []
  deriving DecidableEq, Repr, Inhabited

def Version.empty : Version := {}

/-! ## configuration (facts extracted from manifest/manager.go and manifest/codec.go) -/

structure MCfg where
  /-- `writeSnapshot` writes an invalid value-log entry as EditUpdateValueLog (good) rather than
      EditDeleteValueLog (as-is: loses the offset). -/
  snapInvalidAsUpdate : Bool
  /-- `apply(EditDeleteValueLog)` sets `meta.Offset = 0`. -/
  vlogDelZeroesOffset : Bool
  /-- `apply(EditValueLogHead)` forces `Valid = true`. -/
  headForcesValid : Bool
  /-- `apply(EditDeleteFile)` removes the first match only (`break`). -/
  delFileFirstOnly : Bool
  /-- an `EditRaftPointer` without payload decodes to nil (good) / to an all-zero pointer (as-is). -/
  nilRaftRoundtrip : Bool
  /-- same for `EditRegion`. -/
  nilRegionRoundtrip : Bool
  /-- rewrite: CURRENT is switched only after the snapshot is written (+synced) and closed. -/
  currentAfterSnapshot : Bool
  /-- rewrite: the old manifest is removed only after CURRENT was switched. -/
  removeOldAfterCurrent : Bool
  /-- `writeCurrent` writes CURRENT.tmp and renames it over CURRENT. -/
  currentViaRename : Bool
  /-- `writeCurrent` fsyncs CURRENT.tmp before the rename (when `syncWrites`): the name CURRENT
      holds is on stable storage before CURRENT switches to it. -/
  currentTmpSynced : Bool
  /-- sync after the append when some edit of the batch `requiresSync` and `syncWrites`. -/
  syncOnAppend : Bool
  /-- rewrite triggers when `size >= threshold` (`info.Size() < threshold` ⇒ no rewrite). -/
  rewriteAtGE : Bool
  /-- `Verify` truncates a 1–3 byte length prefix / a bare length prefix / a partial payload. -/
  verifyTruncPartLen : Bool
  verifyTruncLenOnly : Bool
  verifyTruncPartPayload : Bool
  /-- the bare-`Open` entry point (pd/storage `OpenLocalStore`) truncates a torn tail: it runs
      `Verify` before `Open` (or `Open` does so itself). -/
  openVerifies : Bool
  deriving DecidableEq, Repr, Inhabited

def MCfg.good : MCfg :=
  { snapInvalidAsUpdate := true, vlogDelZeroesOffset := true, headForcesValid := true,
    delFileFirstOnly := true, nilRaftRoundtrip := true, nilRegionRoundtrip := true,
    currentAfterSnapshot := true, removeOldAfterCurrent := true, currentViaRename := true,
    currentTmpSynced := true,
    syncOnAppend := true, rewriteAtGE := true,
    verifyTruncPartLen := true, verifyTruncLenOnly := true, verifyTruncPartPayload := true,
    openVerifies := true }

/-- the as-is tree (pinned commit) -/
def MCfg.asis : MCfg :=
  { MCfg.good with snapInvalidAsUpdate := false, nilRaftRoundtrip := false,
                   nilRegionRoundtrip := false, openVerifies := false, currentTmpSynced := false }

/-- flags the snapshot-faithfulness theorem needs -/
def MCfg.GoodSnap (c : MCfg) : Prop := c.snapInvalidAsUpdate = true ∧ c.headForcesValid = true

instance MCfg.decGoodSnap (c : MCfg) : Decidable c.GoodSnap := by
  unfold MCfg.GoodSnap; exact inferInstance

/-- the step order of rewrite / writeCurrent, the truncation rules of Verify, the two apply
rules the normalisation and the codec round trip lean on: true of the as-is tree -/
def MCfg.GoodSteps (c : MCfg) : Prop :=
  c.headForcesValid = true ∧ c.delFileFirstOnly = true ∧
  c.currentAfterSnapshot = true ∧ c.removeOldAfterCurrent = true ∧ c.currentViaRename = true ∧
  c.verifyTruncPartLen = true ∧ c.verifyTruncLenOnly = true ∧ c.verifyTruncPartPayload = true

instance MCfg.decGoodSteps (c : MCfg) : Decidable c.GoodSteps := by
  unfold MCfg.GoodSteps; exact inferInstance

/-- flags the reload and crash theorems need (recovery path = Verify; Open, as db.go does) -/
def MCfg.Good (c : MCfg) : Prop :=
  c.GoodSteps ∧ c.snapInvalidAsUpdate = true ∧ c.nilRaftRoundtrip = true ∧ c.nilRegionRoundtrip = true

instance MCfg.decGood (c : MCfg) : Decidable c.Good := by
  unfold MCfg.Good; exact inferInstance

/-- … and for the bare `manifest.Open` path (pd/storage/local.go) -/
def MCfg.GoodOpen (c : MCfg) : Prop := c.Good ∧ c.openVerifies = true

instance MCfg.decGoodOpen (c : MCfg) : Decidable c.GoodOpen := by
  unfold MCfg.GoodOpen; exact inferInstance

/-- flags of the multi-round theorem under loss of unsynced bytes -/
def MCfg.GoodLoss (c : MCfg) : Prop := c.Good ∧ c.currentTmpSynced = true ∧ c.syncOnAppend = true

instance MCfg.decGoodLoss (c : MCfg) : Decidable c.GoodLoss := by
  unfold MCfg.GoodLoss; exact inferInstance

/-- as-is theorems (`_partial`): additionally the delete rule zeroes the offset -/
def MCfg.GoodAsIs (c : MCfg) : Prop := c.GoodSteps ∧ c.vlogDelZeroesOffset = true

instance MCfg.decGoodAsIs (c : MCfg) : Decidable c.GoodAsIs := by
  unfold MCfg.GoodAsIs; exact inferInstance

/-! ## apply -/

def fkey (m : FileMeta) : Key := (m.level, m.id)

/-- `for i, fm := range files { if fm.FileID == meta.FileID { remove i; break } }` -/
def eraseFirst (k : Key) : List FileMeta → List FileMeta
  | [] => []
  | x :: t => if fkey x = k then t else x :: eraseFirst k t

def eraseAll (k : Key) (l : List FileMeta) : List FileMeta := l.filter (fun x => fkey x ≠ k)

def headMatches (heads : KMap VlogMeta) (b f : Nat) : Bool :=
  match heads.get (b, 0) with
  | some h => h.fid = f
  | none => false

def apply (c : MCfg) (v : Version) : Edit → Version
  | .addFile m => { v with files := v.files ++ [m] }
  | .delFile m =>
    { v with files := if c.delFileFirstOnly then eraseFirst (fkey m) v.files else eraseAll (fkey m) v.files }
  | .logPtr s o => { v with logSeg := s, logOff := o }
  | .vlogHead none => v
  | .vlogHead (some m) =>
    let m' : VlogMeta := { m with valid := if c.headForcesValid then true else m.valid }
    { v with vlogs := v.vlogs.ins (m.bucket, m.fid) m', heads := v.heads.ins (m.bucket, 0) m' }
  | .vlogDel none => v
  | .vlogDel (some m) =>
    let old : VlogMeta := (v.vlogs.get (m.bucket, m.fid)).getD ⟨0, 0, 0, false⟩
    let m' : VlogMeta := ⟨m.bucket, m.fid, if c.vlogDelZeroesOffset then 0 else old.offset, false⟩
    { v with vlogs := v.vlogs.ins (m.bucket, m.fid) m',
             heads := if headMatches v.heads m.bucket m.fid then v.heads.del (m.bucket, 0) else v.heads }
  | .vlogUpd none => v
  | .vlogUpd (some m) =>
    { v with vlogs := v.vlogs.ins (m.bucket, m.fid) m,
             heads := if headMatches v.heads m.bucket m.fid then
                        (if m.valid then v.heads.ins (m.bucket, 0) m else v.heads.del (m.bucket, 0))
                      else v.heads }
  | .raft none => v
  | .raft (some p) => { v with rafts := v.rafts.ins (p.group, 0) p }
  | .region none => v
  | .region (some (m, true)) => { v with regions := v.regions.del (m.id, 0) }
  | .region (some (m, false)) => { v with regions := v.regions.ins (m.id, 0) m }

def applyAll (c : MCfg) (v : Version) (es : List Edit) : Version := es.foldl (apply c) v

/-- what `decodeEdit (writeEdit e)` yields (field level; the byte codec itself is C16) -/
def decodeNorm (c : MCfg) : Edit → Edit
  | .vlogHead (some m) => .vlogHead (some { m with valid := true })
  | .vlogDel (some m) => .vlogDel (some ⟨m.bucket, m.fid, 0, false⟩)
  | .raft none => if c.nilRaftRoundtrip then .raft none else .raft (some RaftPtr.zero)
  | .region none => if c.nilRegionRoundtrip then .region none else .region (some (RegionMeta.zero, false))
  | .region (some (m, true)) => .region (some ({ RegionMeta.zero with id := m.id }, true))
  | e => e

/-- `replay`: decode every record and apply it, from the empty version -/
def replayFrom (c : MCfg) (v : Version) (rs : List Edit) : Version :=
  rs.foldl (fun v e => apply c v (decodeNorm c e)) v

def replay (c : MCfg) (rs : List Edit) : Version := replayFrom c Version.empty rs

/-! ## canonical form: per-level file order is not part of the state -/

def kle (a b : Key) : Prop := ¬ klt b a

instance kle.dec (a b : Key) : Decidable (kle a b) := by unfold kle; exact inferInstance

/-- stable insertion: before the first element whose key is ≥ -/
def insF (x : FileMeta) : List FileMeta → List FileMeta
  | [] => [x]
  | y :: t => if kle (fkey x) (fkey y) then x :: y :: t else y :: insF x t

/-- stable sort by (level, file id) — `sort.Slice` by FileID inside each level -/
def sortF (l : List FileMeta) : List FileMeta := l.foldr insF []

def canon (v : Version) : Version := { v with files := sortF v.files }

/-! ## snapshot written by a rewrite -/

def snapshotEdits (c : MCfg) (v : Version) : List Edit :=
  (sortF v.files).map Edit.addFile ++
  [Edit.logPtr v.logSeg v.logOff] ++
  v.vlogs.map (fun p => if p.2.valid ∨ c.snapInvalidAsUpdate then Edit.vlogUpd (some p.2)
                        else Edit.vlogDel (some p.2)) ++
  v.heads.map (fun p => Edit.vlogHead (some p.2)) ++
  v.rafts.map (fun p => Edit.raft (some p.2)) ++
  v.regions.map (fun p => Edit.region (some (p.2, false)))

/-! ## record lengths (bytes) -/

def uvLenAux : Nat → Nat → Nat
  | 0, _ => 1
  | fuel + 1, n => if n < 128 then 1 else 1 + uvLenAux fuel (n / 128)

/-- length of `binary.AppendUvarint` -/
def uvLen (n : Nat) : Nat := uvLenAux 10 n

def lvLen (b : Bytes) : Nat := uvLen b.length + b.length

def fileLen (m : FileMeta) : Nat :=
  uvLen m.level + uvLen m.id + uvLen m.size + lvLen m.smallest + lvLen m.largest +
  uvLen m.created + uvLen m.valueSize + 1

def payloadLen : Edit → Nat
  | .addFile m => 5 + fileLen m
  | .delFile m => 5 + fileLen m
  | .logPtr s o => 5 + uvLen s + uvLen o
  | .vlogHead none => 5
  | .vlogHead (some m) => 5 + uvLen m.bucket + uvLen m.fid + uvLen m.offset
  | .vlogDel none => 5
  | .vlogDel (some m) => 5 + uvLen m.bucket + uvLen m.fid
  | .vlogUpd none => 5
  | .vlogUpd (some m) => 5 + uvLen m.bucket + uvLen m.fid + uvLen m.offset + 1
  | .raft none => 5
  | .raft (some p) =>
    5 + uvLen p.group + uvLen p.segment + uvLen p.offset + uvLen p.appliedIndex + uvLen p.appliedTerm +
    uvLen p.committed + uvLen p.snapIndex + uvLen p.snapTerm + uvLen p.truncIndex + uvLen p.truncTerm +
    uvLen p.segIndex + uvLen p.truncOffset
  | .region none => 5
  | .region (some (m, true)) => 5 + uvLen m.id + 1
  | .region (some (m, false)) =>
    5 + uvLen m.id + 1 + lvLen m.start + lvLen m.end_ + uvLen m.ver + uvLen m.conf + 1 +
    uvLen m.peers.length + (m.peers.map (fun p => uvLen p.1 + uvLen p.2)).sum

/-- framed record: 4-byte little-endian length + payload -/
def encLen (e : Edit) : Nat := 4 + payloadLen e

def encLens (es : List Edit) : Nat := (es.map encLen).sum

/-- `requiresSync` -/
def requiresSync : Edit → Bool
  | .raft _ => false
  | .region _ => false
  | _ => true

/-! ## LogRaftTruncate: the pointer edit it logs (none = no-op return) -/

def raftTruncateEdit (v : Version) (g idx term seg off : Nat) : Option Edit :=
  let ex := v.rafts.get (g, 0)
  let ptr : RaftPtr := ex.getD { RaftPtr.zero with group := g }
  if ex.isNone ∧ idx = 0 ∧ term = 0 then none
  else if ptr.truncIndex = idx ∧ ptr.truncTerm = term ∧
          (((seg = 0 ∨ ptr.segIndex = seg) ∧ (off = 0 ∨ ptr.truncOffset = off)) ∨ off = 0) then none
  else
    let seg' := if seg = 0 ∧ ptr.segIndex ≠ 0 then ptr.segIndex % 4294967296 else seg
    let off' := if off = 0 ∧ ptr.truncOffset ≠ 0 then ptr.truncOffset else off
    some (.raft (some { ptr with group := g, truncIndex := idx, truncTerm := term, segIndex := seg', truncOffset := off' }))

end NoKV.Manifest

/-
Lemmas for the durability ghost: the per-crash-point invariant `J` ("CURRENT durably names a
manifest whose synced prefix stands for `s ≥ durable` edits and whose remaining records are the
following edits one by one"), what every loss variant of such a directory recovers to.
-/
import NoKVModel.Manifest.Sync
import NoKVModel.Manifest.PartialLemmas

namespace NoKV.Manifest
open KMap

/-! ## ghost bookkeeping -/

theorem lookup_filter_ne' {β : Type} {m n : Nat} (h : m ≠ n) (l : List (Nat × β)) :
    List.lookup m (l.filter (fun p => p.1 ≠ n)) = List.lookup m l := by
  induction l with
  | nil => rfl
  | cons p t ih =>
    obtain ⟨k, f⟩ := p
    simp only [List.filter_cons]
    split
    · by_cases hm : m = k
      · subst hm
        simp only [List.lookup, beq_self_eq_true]
      · have : (m == k) = false := by simpa using hm
        simp only [List.lookup, this]
        exact ih
    · rename_i hp
      have hk : k = n := by simpa using hp
      subst hk
      have : (m == k) = false := by simpa using h
      simp only [List.lookup, this]
      exact ih

theorem get_set_self (σ : SyncSt) (n : Nat) (v : Nat × Nat) : (σ.set n v).get n = v := by
  simp only [SyncSt.set, SyncSt.get, List.lookup, beq_self_eq_true, Option.getD_some]

theorem get_set_ne (σ : SyncSt) {m n : Nat} (h : m ≠ n) (v : Nat × Nat) : (σ.set n v).get m = σ.get m := by
  have : (m == n) = false := by simpa using h
  simp only [SyncSt.set, SyncSt.get, List.lookup, this]
  rw [lookup_filter_ne' h]

theorem set_curSynced (σ : SyncSt) (n : Nat) (v : Nat × Nat) : (σ.set n v).curSynced = σ.curSynced := rfl
theorem set_tmpSynced (σ : SyncSt) (n : Nat) (v : Nat × Nat) : (σ.set n v).tmpSynced = σ.tmpSynced := rfl

/-! ## lists -/

theorem take_add' {α : Type} (l : List α) (a b : Nat) : l.take (a + b) = l.take a ++ (l.drop a).take b := by
  induction l generalizing a with
  | nil => simp
  | cons x t ih =>
    cases a with
    | zero => simp
    | succ a =>
      have : a + 1 + b = (a + b) + 1 := by omega
      simp [this, ih]

theorem drop_append_le {α : Type} (l1 l2 : List α) {n : Nat} (h : n ≤ l1.length) :
    (l1 ++ l2).drop n = l1.drop n ++ l2 := by
  induction l1 generalizing n with
  | nil => simp at h; subst h; simp
  | cons x t ih =>
    cases n with
    | zero => simp
    | succ n => simp at h; simp [ih h]

theorem take_of_length_le' {α : Type} (l : List α) {n : Nat} (h : l.length ≤ n) : l.take n = l := by
  induction l generalizing n with
  | nil => simp
  | cons x t ih =>
    cases n with
    | zero => simp at h
    | succ n => simp at h; simp [ih h]

theorem take_take_le {α : Type} (l : List α) {a b : Nat} (h : a ≤ b) : (l.take b).take a = l.take a := by
  induction l generalizing a b with
  | nil => simp
  | cons x t ih =>
    cases a with
    | zero => simp
    | succ a =>
      cases b with
      | zero => omega
      | succ b => simp [ih (Nat.le_of_succ_le_succ h)]

theorem drop_take' {α : Type} (l : List α) (a b : Nat) : (l.take (a + b)).drop a = (l.drop a).take b := by
  induction l generalizing a with
  | nil => simp
  | cons x t ih =>
    cases a with
    | zero => simp
    | succ a =>
      have : a + 1 + b = (a + b) + 1 := by omega
      simp [this, ih]

theorem length_take_le' {α : Type} (l : List α) {n : Nat} (h : n ≤ l.length) : (l.take n).length = n := by
  simp [List.length_take]; omega

/-! ## the crash-point invariant -/

/-- At this crash point: CURRENT durably names manifest `n`, whose content `f` is clean; the
first `S` records are covered by an fsync and replay to the state after `s` edits of `E`; the
records after them are the edits `s, s+1, …` one by one; nothing acknowledged as durable lies
beyond `s`, nothing acknowledged lies beyond the end of the file. -/
def JAt (c : MCfg) (E : List Edit) (dur acked : Nat) (n : Nat) (d : Disk) (σ : SyncSt) : Prop :=
  ∃ f, d.current = some n ∧ σ.curSynced = true ∧ d.file? n = some f ∧ f.tail = .clean ∧
    (σ.get n).1 ≤ f.recs.length ∧
    canon (replay c (f.recs.take (σ.get n).1)) = canon (applyAll c Version.empty (E.take (σ.get n).2)) ∧
    f.recs.drop (σ.get n).1 = (E.drop (σ.get n).2).take (f.recs.length - (σ.get n).1) ∧
    (σ.get n).2 + (f.recs.length - (σ.get n).1) ≤ E.length ∧
    dur ≤ (σ.get n).2 ∧ acked ≤ (σ.get n).2 + (f.recs.length - (σ.get n).1)

def J (c : MCfg) (E : List Edit) (dur acked : Nat) (d : Disk) (σ : SyncSt) : Prop :=
  ∃ n, JAt c E dur acked n d σ

theorem JAt_extend {c : MCfg} {E : List Edit} {dur acked n : Nat} {d : Disk} {σ : SyncSt}
    (h : JAt c E dur acked n d σ) (new : List Edit) : JAt c (E ++ new) dur acked n d σ := by
  obtain ⟨f, h1, h2, h3, h4, h5, h6, h7, h8, h9, h10⟩ := h
  refine ⟨f, h1, h2, h3, h4, h5, ?_, ?_, by simp; omega, h9, h10⟩
  · rw [take_append_le _ _ (by omega)]; exact h6
  · rw [drop_append_le _ _ (by omega), List.take_append_of_le_length (by simp; omega)]
    exact h7

theorem JAt_weaken {c : MCfg} {E : List Edit} {dur acked dur' acked' n : Nat} {d : Disk} {σ : SyncSt}
    (h : JAt c E dur acked n d σ) (hd : dur' ≤ dur) (ha : acked' ≤ acked) : JAt c E dur' acked' n d σ := by
  obtain ⟨f, h1, h2, h3, h4, h5, h6, h7, h8, h9, h10⟩ := h
  exact ⟨f, h1, h2, h3, h4, h5, h6, h7, h8, by omega, by omega⟩

theorem J_extend {c : MCfg} {E : List Edit} {dur acked : Nat} {d : Disk} {σ : SyncSt}
    (h : J c E dur acked d σ) (new : List Edit) : J c (E ++ new) dur acked d σ := by
  obtain ⟨n, f, h1, h2, h3, h4, h5, h6, h7, h8, h9, h10⟩ := h
  refine ⟨n, f, h1, h2, h3, h4, h5, ?_, ?_, by simp; omega, h9, h10⟩
  · rw [take_append_le _ _ (by omega)]; exact h6
  · rw [drop_append_le _ _ (by omega), List.take_append_of_le_length (by simp; omega)]
    exact h7

theorem J_weaken {c : MCfg} {E : List Edit} {dur acked dur' acked' : Nat} {d : Disk} {σ : SyncSt}
    (h : J c E dur acked d σ) (hd : dur' ≤ dur) (ha : acked' ≤ acked) : J c E dur' acked' d σ := by
  obtain ⟨n, f, h1, h2, h3, h4, h5, h6, h7, h8, h9, h10⟩ := h
  exact ⟨n, f, h1, h2, h3, h4, h5, h6, h7, h8, by omega, by omega⟩

/-- replaying the first `L ≥ S` records of such a manifest -/
theorem J_replay_take {c : MCfg} {I : Version → Prop} (H : Hyps c I (fun _ => True))
    {E : List Edit} {f : MFile} {S s L : Nat}
    (h6 : canon (replay c (f.recs.take S)) = canon (applyAll c Version.empty (E.take s)))
    (h7 : f.recs.drop S = (E.drop s).take (f.recs.length - S))
    (hSL : S ≤ L) (hL : L ≤ f.recs.length) :
    canon (replay c (f.recs.take L)) = canon (applyAll c Version.empty (E.take (s + (L - S)))) := by
  have e1 : f.recs.take L = f.recs.take S ++ (E.drop s).take (L - S) := by
    have : L = S + (L - S) := by omega
    rw [this, take_add', h7, take_take_le _ (by omega)]
    congr 2
    omega
  rw [e1, take_add', applyAll_append]
  exact replay_extend H h6 _ (fun _ _ => trivial)

/-- the shape of every loss variant of a directory satisfying `J` -/
theorem mem_fileCuts {f f' : MFile} {S : Nat} (h : f' ∈ fileCuts f S) (hS : S ≤ f.recs.length) :
    f' = f ∨ ∃ L, S ≤ L ∧ L < f.recs.length ∧ f'.recs = f.recs.take L := by
  unfold fileCuts at h
  rcases List.mem_append.mp h with h | h
  · right
    obtain ⟨i, hi, hf⟩ := List.mem_flatMap.mp h
    have hi' : i < f.recs.length - S := List.mem_range.mp hi
    refine ⟨S + i, by omega, by omega, ?_⟩
    simp only [tornShapes, List.mem_cons, List.not_mem_nil, or_false] at hf
    rcases hf with hf | hf | hf | hf <;> (subst hf; rfl)
  · left; simpa using h

theorem verify_any (c : MCfg) (t1 : c.verifyTruncPartLen = true) (t2 : c.verifyTruncLenOnly = true)
    (t3 : c.verifyTruncPartPayload = true) (f : MFile) :
    verifyFile c f = some { f with tail := .clean } := by
  cases f with
  | mk recs tail => cases tail <;> simp [verifyFile, t1, t2, t3]

/-- **Recovery of any loss variant.**  It opens; the recovered manifest is a record prefix
`L ≥ S` of the one at the crash point; nothing is lost if nothing was cut. -/
theorem J_variant {c : MCfg} {I : Version → Prop} (H : Hyps c I (fun _ => True))
    {E : List Edit} {dur acked : Nat} {d : Disk} {σ : SyncSt} (hJ : J c E dur acked d σ)
    {d' : Disk} (hd' : d' ∈ lossVariants d σ) :
    ∃ n f f' L, d.current = some n ∧ d.file? n = some f ∧ d'.current = some n ∧ d'.file? n = some f' ∧
      d' = d.setFile n f' ∧
      verifyFile c f' = some { recs := f.recs.take L, tail := .clean } ∧
      (σ.get n).1 ≤ L ∧ L ≤ f.recs.length ∧ (d' = d → L = f.recs.length) ∧
      canon (replay c (f.recs.take L)) =
        canon (applyAll c Version.empty (E.take ((σ.get n).2 + (L - (σ.get n).1)))) := by
  obtain ⟨n, f, h1, h2, h3, h4, h5, h6, h7, h8, h9, h10⟩ := hJ
  unfold lossVariants at hd'
  simp only [h1, h3, h2, if_true, List.append_nil, List.mem_map] at hd'
  obtain ⟨f', hf', rfl⟩ := hd'
  have hcur : (d.setFile n f').current = some n := h1
  have hfile : (d.setFile n f').file? n = some f' := file_setFile_self d n f'
  rcases mem_fileCuts hf' h5 with hff | ⟨L, hL1, hL2, hLr⟩
  · subst hff
    refine ⟨n, f', f', f'.recs.length, h1, h3, hcur, hfile, rfl, ?_, h5, Nat.le_refl _, fun _ => rfl, ?_⟩
    · rw [verify_any c H.t1 H.t2 H.t3, List.take_length]
    · exact J_replay_take H h6 h7 h5 (Nat.le_refl _)
  · refine ⟨n, f, f', L, h1, h3, hcur, hfile, rfl, ?_, hL1, by omega, ?_, ?_⟩
    · rw [verify_any c H.t1 H.t2 H.t3, hLr]
    · intro he
      have : (d.setFile n f').file? n = d.file? n := by rw [he]
      rw [hfile, h3] at this
      cases this
      have := congrArg List.length hLr
      simp [List.length_take] at this
      omega
    · exact J_replay_take H h6 h7 hL1 (by omega)

end NoKV.Manifest

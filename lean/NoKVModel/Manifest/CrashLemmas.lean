/-
Crash lemmas: every crash image of a rewrite still names a complete manifest (the old one
until the rename of CURRENT.tmp, the complete snapshot from then on); the run invariant
from which C15_reload_eq and C15_crash_prefix follow.
-/
import NoKVModel.Manifest.DiskLemmas

namespace NoKV.Manifest
open KMap

structure OrderOK (c : MCfg) : Prop where
  cas : c.currentAfterSnapshot = true
  roc : c.removeOldAfterCurrent = true
  cvr : c.currentViaRename = true

def fullFile (se : List Edit) : MFile := { recs := se, tail := .clean }

/-- rewrite steps up to (excluding) the rename of CURRENT.tmp -/
def rwPre (c : MCfg) (syncWrites : Bool) (n : Nat) (se : List Edit) : List Step :=
  ([Step.create n] ++ (List.range ((encLens se - 1) / 4096)).map (fun i => Step.setRaw n (cutAt se ((i + 1) * 4096)))) ++
  [.setRaw n (fullFile se)] ++ ((if syncWrites then [Step.sync n] else []) ++ [.close n]) ++ tmpPart c syncWrites n

def rwPost (cur n : Nat) : List Step :=
  [Step.close cur, .openrw n] ++ (if cur ≠ n then [Step.remove cur] else [])

theorem rewriteBody_good (c : MCfg) (ho : OrderOK c) (sw : Bool) (cur n : Nat) (se : List Edit) :
    rewriteBody c sw cur n se = rwPre c sw n se ++ [.renameTmp] ++ rwPost cur n := by
  simp [rewriteBody, rwPre, rwPost, snapshotWriteSteps, switchCurrentSteps, ho.cas, ho.roc, ho.cvr, fullFile,
    List.append_assoc]

theorem steps_noop (ss : List Step) (h : ∀ s ∈ ss, ∀ d : Disk, d.step s = d) (d : Disk) : d.steps ss = d := by
  induction ss generalizing d with
  | nil => rfl
  | cons s t ih =>
    rw [steps_cons, h s List.mem_cons_self d]
    exact ih (fun s' hs' => h s' (List.mem_cons_of_mem _ hs')) d

theorem tmpPart_harmless (c : MCfg) (sw : Bool) (n k : Nat) :
    ∀ s ∈ tmpPart c sw n, Harmless k s ∧ NoAppend s := by
  intro s hs
  cases h : c.currentTmpSynced <;> cases sw <;> simp [tmpPart, h] at hs
  · subst hs; exact ⟨trivial, trivial⟩
  · subst hs; exact ⟨trivial, trivial⟩
  · rcases hs with hs | hs | hs <;> (subst hs; exact ⟨trivial, trivial⟩)
  · rcases hs with hs | hs | hs | hs <;> (subst hs; exact ⟨trivial, trivial⟩)

theorem steps_tmpPart (c : MCfg) (sw : Bool) (n : Nat) (d : Disk) :
    d.steps (tmpPart c sw n) = { d with tmp := some n } := by
  cases h : c.currentTmpSynced <;> cases sw <;> simp [tmpPart, h, Disk.steps, Disk.step]

theorem rwPre_harmless (c : MCfg) (sw : Bool) {cur n : Nat} (hn : n ≠ cur) (se : List Edit) :
    ∀ s ∈ rwPre c sw n se, Harmless cur s ∧ NoAppend s := by
  intro s hs
  unfold rwPre at hs
  rcases List.mem_append.mp hs with hs | hs
  case inr => exact tmpPart_harmless c sw n cur s hs
  simp only [List.mem_append, List.mem_cons, List.mem_map, List.mem_range, List.not_mem_nil, or_false] at hs
  rcases hs with ((hs | hs) | hs) | hs
  · subst hs; exact ⟨hn, trivial⟩
  · obtain ⟨i, _, rfl⟩ := hs; exact ⟨hn, trivial⟩
  · subst hs; exact ⟨hn, trivial⟩
  · rcases hs with hs | hs
    · cases sw
      · simp at hs
      · simp at hs; subst hs; exact ⟨trivial, trivial⟩
    · subst hs; exact ⟨trivial, trivial⟩

theorem rwPost_harmless {cur n : Nat} (hn : n ≠ cur) : ∀ s ∈ rwPost cur n, Harmless n s ∧ NoAppend s := by
  intro s hs
  have hc : cur ≠ n := fun e => hn e.symm
  simp only [rwPost, hc, ne_eq, not_false_eq_true, if_true, List.mem_append, List.mem_cons, List.not_mem_nil, or_false] at hs
  rcases hs with (hs | hs) | hs
  · subst hs; exact ⟨trivial, trivial⟩
  · subst hs; exact ⟨trivial, trivial⟩
  · subst hs; exact ⟨hc, trivial⟩

theorem pre_end_aux (c : MCfg) (sw : Bool) (A B : List Step) (hB : ∀ s ∈ B, ∀ d : Disk, d.step s = d) (n : Nat) (F : MFile) (d : Disk) :
    (d.steps (A ++ [Step.setRaw n F] ++ B ++ tmpPart c sw n)).tmp = some n ∧
    (d.steps (A ++ [Step.setRaw n F] ++ B ++ tmpPart c sw n)).file? n = some F := by
  rw [steps_append, steps_append, steps_append, steps_noop B hB, steps_tmpPart]
  generalize d.steps A = d0
  simp only [Disk.steps, List.foldl_cons, List.foldl_nil, Disk.step]
  exact ⟨trivial, file_setFile_self d0 n _⟩

/-- the disk right before the rename: CURRENT.tmp names the new file, which is complete -/
theorem rwPre_end (c : MCfg) (sw : Bool) (n : Nat) (se : List Edit) (d : Disk) :
    (d.steps (rwPre c sw n se)).tmp = some n ∧ (d.steps (rwPre c sw n se)).file? n = some (fullFile se) := by
  unfold rwPre
  apply pre_end_aux
  intro s hs d'
  cases sw <;> simp at hs
  · subst hs; rfl
  · rcases hs with hs | hs <;> (subst hs; rfl)

/-- **Crash images of a rewrite.**  With the as-is step order, every image names either the old
manifest (untouched) or the complete snapshot; there is nothing to tear. -/
theorem rewrite_images (c : MCfg) (ho : OrderOK c) (sw : Bool) {cur n : Nat} (hn : n ≠ cur)
    (stats : List Step) (hst : ∀ s ∈ stats, ∃ k, s = Step.stat k) (se : List Edit)
    {d : Disk} {f : MFile} (hp : Points d cur f) (a i : Nat) :
    (∀ im ∈ stepImages d a i (stats ++ rewriteBody c sw cur n se),
        (Points im.disk cur f ∨ Points im.disk n (fullFile se)) ∧ im.acked = a) ∧
    Points (d.steps (stats ++ rewriteBody c sw cur n se)) n (fullFile se) ∧
    tornImages d a i (stats ++ rewriteBody c sw cur n se) = [] := by
  rw [rewriteBody_good c ho]
  have hstat : ∀ s ∈ stats, Harmless cur s ∧ NoAppend s := by
    intro s hs; obtain ⟨k, rfl⟩ := hst s hs; exact ⟨trivial, trivial⟩
  have h1 : ∀ s ∈ stats ++ rwPre c sw n se, Harmless cur s ∧ NoAppend s := by
    intro s hs
    rcases List.mem_append.mp hs with hs | hs
    · exact hstat s hs
    · exact rwPre_harmless c sw hn se s hs
  -- phase 1: up to the rename, CURRENT names the untouched old manifest
  obtain ⟨hi1, he1⟩ := stepImages_inv (fun d => Points d cur f) (stats ++ rwPre c sw n se)
    (fun s hs d' hd' => points_step (h1 s hs).1 hd') d hp a i
  have hassoc : stats ++ (rwPre c sw n se ++ [Step.renameTmp] ++ rwPost cur n) =
      (stats ++ rwPre c sw n se) ++ ([Step.renameTmp] ++ rwPost cur n) := by simp [List.append_assoc]
  rw [hassoc]
  -- the rename
  have hmid := rwPre_end c sw n se (d.steps stats)
  rw [← steps_append] at hmid
  generalize hd1 : d.steps (stats ++ rwPre c sw n se) = d1 at he1 hmid
  have hp2 : Points (d1.step .renameTmp) n (fullFile se) := by
    simp only [Disk.step, hmid.1]
    exact ⟨rfl, hmid.2⟩
  -- phase 2: afterwards CURRENT names the complete snapshot
  obtain ⟨hi2, he2⟩ := stepImages_inv (fun d => Points d n (fullFile se)) (rwPost cur n)
    (fun s hs d' hd' => points_step (rwPost_harmless hn s hs).1 hd') (d1.step .renameTmp) hp2 a i
  refine ⟨?_, ?_, ?_⟩
  · intro im him
    rw [stepImages_append, hd1] at him
    rcases List.mem_append.mp him with him | him
    · exact ⟨Or.inl (hi1 im him).1, (hi1 im him).2⟩
    · simp only [List.singleton_append, stepImages] at him
      rcases List.mem_cons.mp him with him | him
      · subst him; exact ⟨Or.inl he1, rfl⟩
      · exact ⟨Or.inr (hi2 im him).1, (hi2 im him).2⟩
  · rw [steps_append, hd1]
    simpa [steps_cons] using he2
  · apply tornImages_noAppend
    intro s hs
    rcases List.mem_append.mp hs with hs | hs
    · exact (h1 s hs).2
    · rcases List.mem_append.mp hs with hs | hs
      · simp at hs; subst hs; trivial
      · exact (rwPost_harmless hn s hs).2

end NoKV.Manifest

/-
Lemmas about the stable sort of the SST file list by (level, file id) — the only
normalisation under which "reloaded state = in-memory state" is stated (per-level order).
-/
import NoKVModel.Manifest.MapLemmas

namespace NoKV.Manifest
open KMap

theorem kle_refl (a : Key) : kle a a := klt_irrefl a
theorem kle_total (a b : Key) : kle a b ∨ kle b a := by
  unfold kle
  rcases klt_total a b with h | h | h
  · exact Or.inl (klt_asymm h)
  · subst h; exact Or.inl (klt_irrefl a)
  · exact Or.inr (klt_asymm h)
theorem kle_trans {a b c : Key} (h1 : kle a b) (h2 : kle b c) : kle a c := by
  unfold kle klt at *; omega
theorem klt_of_not_kle {a b : Key} (h : ¬ kle a b) : klt b a := by
  unfold kle at h; exact Decidable.not_not.mp h
theorem kle_of_klt {a b : Key} (h : klt a b) : kle a b := klt_asymm h
theorem ne_of_klt_key {x y : FileMeta} (h : klt (fkey y) (fkey x)) {k : Key} (hk : fkey x = k) : fkey y ≠ k := by
  intro e; rw [← hk] at e; exact klt_ne h e

def SortedF (l : List FileMeta) : Prop := l.Pairwise (fun a b => kle (fkey a) (fkey b))

theorem mem_insF {x y : FileMeta} {l : List FileMeta} : y ∈ insF x l ↔ y = x ∨ y ∈ l := by
  induction l with
  | nil => simp [insF]
  | cons h t ih =>
    unfold insF
    split
    · simp
    · simp only [List.mem_cons, ih]
      constructor
      · rintro (h | h | h)
        · exact Or.inr (Or.inl h)
        · exact Or.inl h
        · exact Or.inr (Or.inr h)
      · rintro (h | h | h)
        · exact Or.inr (Or.inl h)
        · exact Or.inl h
        · exact Or.inr (Or.inr h)

theorem sortedF_insF {x : FileMeta} {l : List FileMeta} (hs : SortedF l) : SortedF (insF x l) := by
  induction l with
  | nil => simp [insF, SortedF]
  | cons h t ih =>
    obtain ⟨h1, h2⟩ := List.pairwise_cons.mp hs
    unfold insF
    split
    · rename_i hle
      refine List.pairwise_cons.mpr ⟨?_, hs⟩
      intro q hq
      rcases List.mem_cons.mp hq with hq | hq
      · subst hq; exact hle
      · exact kle_trans hle (h1 q hq)
    · rename_i hnle
      refine List.pairwise_cons.mpr ⟨?_, ih h2⟩
      intro q hq
      rcases mem_insF.mp hq with hq | hq
      · subst hq; exact kle_of_klt (klt_of_not_kle hnle)
      · exact h1 q hq

theorem sortedF_sortF (l : List FileMeta) : SortedF (sortF l) := by
  induction l with
  | nil => simp [sortF, SortedF]
  | cons h t ih => exact sortedF_insF ih

theorem insF_of_le {x : FileMeta} {l : List FileMeta} (h : ∀ y ∈ l, kle (fkey x) (fkey y)) :
    insF x l = x :: l := by
  cases l with
  | nil => rfl
  | cons y t => simp [insF, h y List.mem_cons_self]

theorem sortF_of_sorted {l : List FileMeta} (hs : SortedF l) : sortF l = l := by
  induction l with
  | nil => rfl
  | cons h t ih =>
    obtain ⟨h1, h2⟩ := List.pairwise_cons.mp hs
    show insF h (sortF t) = h :: t
    rw [ih h2]
    exact insF_of_le h1

theorem sortF_idem (l : List FileMeta) : sortF (sortF l) = sortF l :=
  sortF_of_sorted (sortedF_sortF l)

theorem insF_comm {y a : FileMeta} (h : klt (fkey y) (fkey a)) (u : List FileMeta) :
    insF y (insF a u) = insF a (insF y u) := by
  have hya : kle (fkey y) (fkey a) := kle_of_klt h
  have hay : ¬ kle (fkey a) (fkey y) := fun e => e h
  induction u with
  | nil => simp [insF, hya, hay]
  | cons z w ih =>
    by_cases haz : kle (fkey a) (fkey z)
    · have hyz : kle (fkey y) (fkey z) := kle_trans hya haz
      simp [insF, haz, hyz, hya, hay]
    · by_cases hyz : kle (fkey y) (fkey z)
      · simp [insF, haz, hyz, hay]
      · simp [insF, haz, hyz, ih]

theorem insF_cons_le {x y : FileMeta} (t : List FileMeta) (h : kle (fkey x) (fkey y)) :
    insF x (y :: t) = x :: y :: t := by simp [insF, h]
theorem insF_cons_gt {x y : FileMeta} (t : List FileMeta) (h : ¬ kle (fkey x) (fkey y)) :
    insF x (y :: t) = y :: insF x t := by simp [insF, h]
theorem sortF_cons (a : FileMeta) (l : List FileMeta) : sortF (a :: l) = insF a (sortF l) := rfl

/-- sorting commutes with inserting into a prefix -/
theorem sortF_insF_append (a : FileMeta) (s r : List FileMeta) :
    sortF (insF a s ++ r) = insF a (sortF (s ++ r)) := by
  induction s with
  | nil => rfl
  | cons y t ih =>
    by_cases hle : kle (fkey a) (fkey y)
    · rw [insF_cons_le t hle]
      rfl
    · rw [insF_cons_gt t hle, List.cons_append, sortF_cons, ih, List.cons_append, sortF_cons]
      exact insF_comm (klt_of_not_kle hle) _

theorem sortF_append_sortF (l r : List FileMeta) : sortF (sortF l ++ r) = sortF (l ++ r) := by
  induction l with
  | nil => rfl
  | cons a t ih =>
    show sortF (insF a (sortF t) ++ r) = insF a (sortF (t ++ r))
    rw [sortF_insF_append, ih]

theorem eraseFirst_insF_same {x : FileMeta} {k : Key} (hk : fkey x = k) (s : List FileMeta) :
    eraseFirst k (insF x s) = s := by
  induction s with
  | nil => simp [insF, eraseFirst, hk]
  | cons y w ih =>
    unfold insF
    split
    · simp [eraseFirst, hk]
    · rename_i hnle
      have : fkey y ≠ k := ne_of_klt_key (klt_of_not_kle hnle) hk
      simp [eraseFirst, this, ih]

theorem mem_eraseFirst {k : Key} {y : FileMeta} {l : List FileMeta} (h : y ∈ eraseFirst k l) : y ∈ l := by
  induction l with
  | nil => simp [eraseFirst] at h
  | cons x t ih =>
    unfold eraseFirst at h
    split at h
    · exact List.mem_cons_of_mem _ h
    · rcases List.mem_cons.mp h with h | h
      · exact h ▸ List.mem_cons_self
      · exact List.mem_cons_of_mem _ (ih h)

theorem eraseFirst_insF_other {x : FileMeta} {k : Key} (hk : fkey x ≠ k) {s : List FileMeta}
    (hs : SortedF s) : eraseFirst k (insF x s) = insF x (eraseFirst k s) := by
  induction s with
  | nil => simp [insF, eraseFirst, hk]
  | cons y w ih =>
    obtain ⟨h1, h2⟩ := List.pairwise_cons.mp hs
    by_cases hle : kle (fkey x) (fkey y)
    · rw [insF_cons_le w hle]
      by_cases hy : fkey y = k
      · have : insF x w = x :: w := insF_of_le (fun z hz => kle_trans hle (h1 z hz))
        simp [eraseFirst, hk, hy, this]
      · simp [eraseFirst, hk, hy, insF_cons_le _ hle]
    · rw [insF_cons_gt w hle]
      by_cases hy : fkey y = k
      · simp [eraseFirst, hy]
      · simp [eraseFirst, hy, ih h2, insF_cons_gt _ hle]

theorem sortF_eraseFirst (k : Key) (l : List FileMeta) :
    sortF (eraseFirst k l) = eraseFirst k (sortF l) := by
  induction l with
  | nil => rfl
  | cons x t ih =>
    by_cases hk : fkey x = k
    · show sortF (eraseFirst k (x :: t)) = eraseFirst k (insF x (sortF t))
      rw [eraseFirst_insF_same hk]
      simp [eraseFirst, hk]
    · show sortF (eraseFirst k (x :: t)) = eraseFirst k (insF x (sortF t))
      rw [eraseFirst_insF_other hk (sortedF_sortF t), ← ih]
      simp [eraseFirst, hk, sortF]

/-- the two file-list edits respect the normalisation -/
theorem sortF_append_congr {f1 f2 : List FileMeta} (h : sortF f1 = sortF f2) (r : List FileMeta) :
    sortF (f1 ++ r) = sortF (f2 ++ r) := by
  rw [← sortF_append_sortF f1, ← sortF_append_sortF f2, h]

theorem sortF_eraseFirst_congr {f1 f2 : List FileMeta} (h : sortF f1 = sortF f2) (k : Key) :
    sortF (eraseFirst k f1) = sortF (eraseFirst k f2) := by
  rw [sortF_eraseFirst, sortF_eraseFirst, h]

end NoKV.Manifest

/-
Order facts the main-table argument needs (core Lean only):
* `ikLt` (= `utils.CompareKeys … < 0`) is asymmetric and transitive;
* `minUk t ≤ e.uk ≤ maxUk t` for every entry of a table, and both bounds are attained;
* the stable insertion sort returns a sorted permutation;
* Go's `sort.Search` (`goSearch`) returns the least index of a monotone predicate.
-/
import NoKVModel.Lsm.Lemmas

namespace NoKV.Lsm

/-! ### `ikLt` -/

theorem ikLt_iff (a b : Entry) :
    ikLt a b = true ↔ (Bytes.lt a.uk b.uk = true ∨ (a.uk = b.uk ∧ b.ver < a.ver)) := by
  simp [ikLt]

theorem ikLt_asymm {a b : Entry} (h : ikLt a b = true) : ikLt b a = false := by
  cases hba : ikLt b a with
  | false => rfl
  | true =>
    rcases (ikLt_iff a b).mp h with h1 | ⟨h1, h2⟩
    · rcases (ikLt_iff b a).mp hba with h3 | ⟨h3, _⟩
      · rw [Bytes.lt_asymm h1] at h3; cases h3
      · rw [h3, Bytes.lt_irrefl] at h1; cases h1
    · rcases (ikLt_iff b a).mp hba with h3 | ⟨_, h4⟩
      · rw [h1, Bytes.lt_irrefl] at h3; cases h3
      · omega

theorem ikLt_trans {a b c : Entry} (h1 : ikLt a b = true) (h2 : ikLt b c = true) : ikLt a c = true := by
  rw [ikLt_iff] at *
  rcases h1 with h1 | ⟨h1, h1'⟩
  · rcases h2 with h2 | ⟨h2, _⟩
    · exact Or.inl (Bytes.lt_trans h1 h2)
    · rw [h2] at h1; exact Or.inl h1
  · rcases h2 with h2 | ⟨h2, h2'⟩
    · rw [← h1] at h2; exact Or.inl h2
    · exact Or.inr ⟨h1.trans h2, by omega⟩

theorem ikLt_of_uk_lt {a b : Entry} (h : Bytes.lt a.uk b.uk = true) : ikLt a b = true :=
  (ikLt_iff a b).mpr (Or.inl h)

/-- `ikLt a b = false` leaves `b.uk ≤ a.uk` -/
theorem uk_le_of_not_ikLt {a b : Entry} (h : ikLt a b = false) : Bytes.le b.uk a.uk = true := by
  rw [← Bytes.not_lt_iff_le]
  cases hl : Bytes.lt a.uk b.uk with
  | false => rfl
  | true => rw [ikLt_of_uk_lt hl] at h; cases h

theorem uk_le_of_ikLt {a b : Entry} (h : ikLt a b = true) : Bytes.le a.uk b.uk = true := by
  rcases (ikLt_iff a b).mp h with h | ⟨h, _⟩
  · exact Bytes.le_of_lt h
  · rw [h]; exact Bytes.le_refl _

/-! ### smallest / largest entry of a table -/

theorem minEnt_eq_none {t : Src} : minEnt t = none ↔ t = [] := by
  cases t with
  | nil => simp [minEnt]
  | cons e l =>
    simp only [minEnt]
    cases minEnt l with
    | none => simp
    | some m => by_cases h : ikLt e m = true <;> simp [h]

theorem maxEnt_eq_none {t : Src} : maxEnt t = none ↔ t = [] := by
  cases t with
  | nil => simp [maxEnt]
  | cons e l =>
    simp only [maxEnt]
    cases maxEnt l with
    | none => simp
    | some m => by_cases h : ikLt m e = true <;> simp [h]

theorem minEnt_spec : ∀ (t : Src) (m : Entry), minEnt t = some m →
    m ∈ t ∧ ∀ e ∈ t, Bytes.le m.uk e.uk = true := by
  intro t
  induction t with
  | nil => intro m h; simp [minEnt] at h
  | cons x l ih =>
    intro m h
    simp only [minEnt] at h
    cases hl : minEnt l with
    | none =>
      rw [hl] at h
      simp at h
      subst h
      have : l = [] := minEnt_eq_none.mp hl
      subst this
      exact ⟨List.mem_cons_self, by intro e he; simp at he; subst he; exact Bytes.le_refl _⟩
    | some m' =>
      rw [hl] at h
      obtain ⟨hm', hle⟩ := ih m' hl
      by_cases hx : ikLt x m' = true
      · simp [hx] at h
        subst h
        refine ⟨List.mem_cons_self, ?_⟩
        intro e he
        rcases List.mem_cons.mp he with he | he
        · subst he; exact Bytes.le_refl _
        · exact Bytes.le_trans (uk_le_of_ikLt hx) (hle e he)
      · have hx' : ikLt x m' = false := by simpa using hx
        simp [hx'] at h
        subst h
        refine ⟨List.mem_cons_of_mem _ hm', ?_⟩
        intro e he
        rcases List.mem_cons.mp he with he | he
        · subst he; exact uk_le_of_not_ikLt hx'
        · exact hle e he

theorem maxEnt_spec : ∀ (t : Src) (m : Entry), maxEnt t = some m →
    m ∈ t ∧ ∀ e ∈ t, Bytes.le e.uk m.uk = true := by
  intro t
  induction t with
  | nil => intro m h; simp [maxEnt] at h
  | cons x l ih =>
    intro m h
    simp only [maxEnt] at h
    cases hl : maxEnt l with
    | none =>
      rw [hl] at h
      simp at h
      subst h
      have : l = [] := maxEnt_eq_none.mp hl
      subst this
      exact ⟨List.mem_cons_self, by intro e he; simp at he; subst he; exact Bytes.le_refl _⟩
    | some m' =>
      rw [hl] at h
      obtain ⟨hm', hle⟩ := ih m' hl
      by_cases hx : ikLt m' x = true
      · simp [hx] at h
        subst h
        refine ⟨List.mem_cons_self, ?_⟩
        intro e he
        rcases List.mem_cons.mp he with he | he
        · subst he; exact Bytes.le_refl _
        · exact Bytes.le_trans (hle e he) (uk_le_of_ikLt hx)
      · have hx' : ikLt m' x = false := by simpa using hx
        simp [hx'] at h
        subst h
        refine ⟨List.mem_cons_of_mem _ hm', ?_⟩
        intro e he
        rcases List.mem_cons.mp he with he | he
        · subst he; exact uk_le_of_not_ikLt hx'
        · exact hle e he

theorem minUk_le {t : Src} {e : Entry} (h : e ∈ t) : Bytes.le (minUk t) e.uk = true := by
  unfold minUk
  cases hm : minEnt t with
  | none => rw [minEnt_eq_none.mp hm] at h; simp at h
  | some m => exact (minEnt_spec t m hm).2 e h

theorem le_maxUk {t : Src} {e : Entry} (h : e ∈ t) : Bytes.le e.uk (maxUk t) = true := by
  unfold maxUk
  cases hm : maxEnt t with
  | none => rw [maxEnt_eq_none.mp hm] at h; simp at h
  | some m => exact (maxEnt_spec t m hm).2 e h

theorem minUk_attained {t : Src} (h : t ≠ []) : ∃ e ∈ t, e.uk = minUk t := by
  unfold minUk
  cases hm : minEnt t with
  | none => exact absurd (minEnt_eq_none.mp hm) h
  | some m => exact ⟨m, (minEnt_spec t m hm).1, rfl⟩

theorem maxUk_attained {t : Src} (h : t ≠ []) : ∃ e ∈ t, e.uk = maxUk t := by
  unfold maxUk
  cases hm : maxEnt t with
  | none => exact absurd (maxEnt_eq_none.mp hm) h
  | some m => exact ⟨m, (maxEnt_spec t m hm).1, rfl⟩

theorem minUk_le_maxUk {t : Src} (h : t ≠ []) : Bytes.le (minUk t) (maxUk t) = true := by
  obtain ⟨e, he, hu⟩ := minUk_attained h
  rw [← hu]
  exact le_maxUk he

/-- table `a` lies entirely before table `b` (user-key ranges) -/
def Before (a b : Src) : Prop := Bytes.lt (maxUk a) (minUk b) = true

theorem minLt_asymm {a b : Src} (h : minLt a b = true) : minLt b a = false := by
  unfold minLt at *
  cases ha : minEnt a with
  | none => simp [ha] at h
  | some x =>
    cases hb : minEnt b with
    | none => simp [ha, hb] at h
    | some y =>
      simp only [ha, hb] at h ⊢
      exact ikLt_asymm h

theorem minLt_trans {a b c : Src} (h1 : minLt a b = true) (h2 : minLt b c = true) : minLt a c = true := by
  unfold minLt at *
  cases ha : minEnt a with
  | none => simp [ha] at h1
  | some x =>
    cases hb : minEnt b with
    | none => simp [ha, hb] at h1
    | some y =>
      cases hc : minEnt c with
      | none => simp [hb, hc] at h2
      | some z =>
        simp only [ha, hb, hc] at h1 h2 ⊢
        exact ikLt_trans h1 h2

/-- a table wholly before another one also sorts before it -/
theorem minLt_of_Before {a b : Src} (ha : a ≠ []) (hb : b ≠ []) (h : Before a b) : minLt a b = true := by
  unfold minLt
  cases hma : minEnt a with
  | none => exact absurd (minEnt_eq_none.mp hma) ha
  | some x =>
    cases hmb : minEnt b with
    | none => exact absurd (minEnt_eq_none.mp hmb) hb
    | some y =>
      simp only
      apply ikLt_of_uk_lt
      have h1 : Bytes.le x.uk (maxUk a) = true := le_maxUk (minEnt_spec a x hma).1
      have h2 : minUk b = y.uk := by simp [minUk, hmb]
      unfold Before at h
      rw [h2] at h
      exact Bytes.lt_of_le_of_lt h1 h

/-! ### stable insertion sort -/

section SortSec
variable {α : Type} (lt : α → α → Bool)

theorem insertStable_perm (x : α) : ∀ l : List α, (insertStable lt x l).Perm (x :: l) := by
  intro l
  induction l with
  | nil => exact List.Perm.refl _
  | cons y ys ih =>
    simp only [insertStable]
    split
    · exact List.Perm.refl _
    · exact (List.Perm.cons y ih).trans (List.Perm.swap x y ys)

theorem foldl_insert_perm (l : List α) : ∀ acc : List α,
    (l.foldl (fun acc x => insertStable lt x acc) acc).Perm (acc ++ l) := by
  induction l with
  | nil => intro acc; simp
  | cons x l ih =>
    intro acc
    simp only [List.foldl]
    refine (ih _).trans ?_
    have h1 : (insertStable lt x acc ++ l).Perm ((x :: acc) ++ l) :=
      List.Perm.append_right l (insertStable_perm lt x acc)
    refine h1.trans ?_
    simpa using (List.perm_middle (a := x) (l₁ := acc) (l₂ := l)).symm

theorem sortStable_perm (l : List α) : (sortStable lt l).Perm l := by
  simpa [sortStable] using foldl_insert_perm lt l []

/-- sorted: no later element is strictly smaller than an earlier one -/
def SortedBy (l : List α) : Prop := l.Pairwise (fun a b => lt b a = false)

theorem insertStable_sorted (hA : ∀ x y, lt x y = true → lt y x = false)
    (hT : ∀ x y z, lt x y = true → lt y z = true → lt x z = true) (x : α) :
    ∀ l : List α, SortedBy lt l → SortedBy lt (insertStable lt x l) := by
  intro l
  induction l with
  | nil => intro _; simp [insertStable, SortedBy]
  | cons y ys ih =>
    intro hs
    unfold SortedBy at hs
    rw [List.pairwise_cons] at hs
    obtain ⟨hy, hys⟩ := hs
    simp only [insertStable]
    by_cases hxy : lt x y = true
    · simp only [hxy, if_true]
      unfold SortedBy
      rw [List.pairwise_cons]
      refine ⟨?_, List.pairwise_cons.mpr ⟨hy, hys⟩⟩
      intro z hz
      rcases List.mem_cons.mp hz with hz | hz
      · subst hz; exact hA _ _ hxy
      · cases hzx : lt z x with
        | false => rfl
        | true =>
          have := hT _ _ _ hzx hxy
          rw [hy z hz] at this
          cases this
    · have hxy' : lt x y = false := by simpa using hxy
      simp only [hxy', Bool.false_eq_true, if_false]
      unfold SortedBy
      rw [List.pairwise_cons]
      refine ⟨?_, ih hys⟩
      intro z hz
      have hz' := (insertStable_perm lt x ys).mem_iff.mp hz
      rcases List.mem_cons.mp hz' with hz' | hz'
      · subst hz'; exact hxy'
      · exact hy z hz'

theorem sortStable_sorted (hA : ∀ x y, lt x y = true → lt y x = false)
    (hT : ∀ x y z, lt x y = true → lt y z = true → lt x z = true) (l : List α) :
    SortedBy lt (sortStable lt l) := by
  have : ∀ (l acc : List α), SortedBy lt acc →
      SortedBy lt (l.foldl (fun acc x => insertStable lt x acc) acc) := by
    intro l
    induction l with
    | nil => intro acc h; exact h
    | cons x l ih => intro acc h; exact ih _ (insertStable_sorted lt hA hT x acc h)
  exact this l [] (by simp [SortedBy])

end SortSec

/-! ### `sort.Search` -/

theorem goSearch_spec (f : Nat → Bool) (n : Nat)
    (hmono : ∀ a b, a ≤ b → b < n → f a = true → f b = true) :
    ∀ fuel i j, j - i ≤ fuel → i ≤ j → j ≤ n →
      (∀ k, k < i → f k = false) → (∀ k, j ≤ k → k < n → f k = true) →
      i ≤ goSearch f fuel i j ∧ goSearch f fuel i j ≤ j ∧
      (∀ k, k < goSearch f fuel i j → f k = false) ∧
      (∀ k, goSearch f fuel i j ≤ k → k < n → f k = true) := by
  intro fuel
  induction fuel with
  | zero =>
    intro i j hf hij _ hlo hhi
    have : i = j := by omega
    subst this
    simp only [goSearch]
    exact ⟨Nat.le_refl _, Nat.le_refl _, hlo, hhi⟩
  | succ fuel ih =>
    intro i j hf hij hjn hlo hhi
    simp only [goSearch]
    by_cases hlt : i < j
    · simp only [hlt, if_true]
      have hh1 : i ≤ (i + j) / 2 := by omega
      have hh2 : (i + j) / 2 < j := by omega
      by_cases hfh : f ((i + j) / 2) = true
      · simp only [hfh, if_true]
        have := ih i ((i + j) / 2) (by omega) hh1 (by omega) hlo
          (by intro k hk hkn; exact hmono _ _ hk hkn hfh)
        exact ⟨this.1, by omega, this.2.2.1, this.2.2.2⟩
      · have hfh' : f ((i + j) / 2) = false := by simpa using hfh
        simp only [hfh', Bool.false_eq_true, if_false]
        have := ih ((i + j) / 2 + 1) j (by omega) (by omega) hjn
          (by
            intro k hk
            cases hfk : f k with
            | false => rfl
            | true =>
              have := hmono k ((i + j) / 2) (by omega) (by omega) hfk
              rw [hfh'] at this; cases this)
          hhi
        exact ⟨by omega, this.2.1, this.2.2.1, this.2.2.2⟩
    · simp only [hlt, if_false]
      have : i = j := by omega
      subst this
      exact ⟨Nat.le_refl _, Nat.le_refl _, hlo, hhi⟩

/-- the call shape the code uses: `sort.Search(n, f)` -/
theorem goSearch_least (f : Nat → Bool) (n : Nat)
    (hmono : ∀ a b, a ≤ b → b < n → f a = true → f b = true) :
    goSearch f (n + 1) 0 n ≤ n ∧
    (∀ k, k < goSearch f (n + 1) 0 n → f k = false) ∧
    (∀ k, goSearch f (n + 1) 0 n ≤ k → k < n → f k = true) := by
  have := goSearch_spec f n hmono (n + 1) 0 n (by omega) (by omega) (Nat.le_refl _)
    (by intro k hk; omega) (by intro k hk hkn; omega)
  exact ⟨this.2.1, this.2.2.1, this.2.2.2⟩

end NoKV.Lsm

/-
Main tables of the base level: a list of non-empty tables with strictly increasing, disjoint
user-key ranges (`OrderedE`).  On such a list
* `getTableForKey` (`mainCandidate`, a binary search) finds the only table that can hold the key,
  so searching it equals `pick` over all main tables;
* `OverlappingTables` (good right bound) leaves only tables outside the compacted range;
* `pick` over a family of tables with pairwise different user keys does not depend on the order.
-/
import NoKVModel.Lsm.Order

namespace NoKV.Lsm

/-- the user-key part of a query -/
def qk (q : IK) : Bytes := q.cf :: q.key

/-- table `t` holds no entry of user key `uk` -/
def noUk (uk : Bytes) (t : List Entry) : Prop := ∀ e ∈ t, e.uk ≠ uk

theorem better_eq_some {a b : Option Entry} {e : Entry} (h : better a b = some e) :
    a = some e ∨ b = some e := by
  rw [better_eq_ite] at h
  split at h
  · exact Or.inr h
  · exact Or.inl h

theorem pick_some_uk {q : IK} : ∀ {l : List Entry} {e : Entry}, pick q l = some e → e.uk = qk q := by
  intro l
  induction l with
  | nil => intro e h; simp [pick] at h
  | cons x l ih =>
    intro e h
    simp only [pick] at h
    rcases better_eq_some h with h | h
    · obtain ⟨rfl, h1, h2, _⟩ := mq_some h
      simp [Entry.uk, qk, h1, h2]
    · exact ih h

theorem pick_none_of_noUk {q : IK} {l : List Entry} (h : noUk (qk q) l) : pick q l = none := by
  cases hp : pick q l with
  | none => rfl
  | some e => exact absurd (pick_some_uk hp) (h e (pick_mem hp))

theorem noUk_of_lt_min {uk : Bytes} {t : Src} (h : Bytes.lt uk (minUk t) = true) : noUk uk t := by
  intro e he heq
  have h1 := minUk_le he
  rw [heq] at h1
  have := Bytes.lt_of_lt_of_le h h1
  rw [Bytes.lt_irrefl] at this
  cases this

theorem noUk_of_max_lt {uk : Bytes} {t : Src} (h : Bytes.lt (maxUk t) uk = true) : noUk uk t := by
  intro e he heq
  have h1 := le_maxUk he
  rw [heq] at h1
  have := Bytes.lt_of_le_of_lt h1 h
  rw [Bytes.lt_irrefl] at this
  cases this

theorem noUk_flatten {uk : Bytes} {ts : List Src} (h : ∀ t ∈ ts, noUk uk t) : noUk uk ts.flatten := by
  intro e he
  obtain ⟨t, ht, het⟩ := List.mem_flatten.mp he
  exact h t ht e het

/-! ### positions -/

@[simp] theorem nth_cons_zero (t : Src) (ts : List Src) : nth (t :: ts) 0 = t := rfl
@[simp] theorem nth_cons_succ (t : Src) (ts : List Src) (i : Nat) : nth (t :: ts) (i + 1) = nth ts i := by
  simp [nth]

theorem nth_mem : ∀ {ts : List Src} {i : Nat}, i < ts.length → nth ts i ∈ ts := by
  intro ts
  induction ts with
  | nil => intro i h; simp at h
  | cons t ts ih =>
    intro i h
    cases i with
    | zero => simp
    | succ i =>
      rw [nth_cons_succ]
      exact List.mem_cons_of_mem _ (ih (by simpa using h))

theorem mem_nth : ∀ {ts : List Src} {t : Src}, t ∈ ts → ∃ i, i < ts.length ∧ nth ts i = t := by
  intro ts
  induction ts with
  | nil => intro t h; simp at h
  | cons x ts ih =>
    intro t h
    rcases List.mem_cons.mp h with h | h
    · exact ⟨0, by simp, by simp [h]⟩
    · obtain ⟨i, hi, hn⟩ := ih h
      exact ⟨i + 1, by simpa using hi, by simpa using hn⟩

theorem pairwise_nth {R : Src → Src → Prop} : ∀ {ts : List Src}, ts.Pairwise R →
    ∀ i j, i < j → j < ts.length → R (nth ts i) (nth ts j) := by
  intro ts
  induction ts with
  | nil => intro _ i j _ h; simp at h
  | cons t ts ih =>
    intro hp i j hij hj
    rw [List.pairwise_cons] at hp
    cases j with
    | zero => omega
    | succ j =>
      have hj' : j < ts.length := by simpa using hj
      cases i with
      | zero =>
        rw [nth_cons_zero, nth_cons_succ]
        exact hp.1 _ (nth_mem hj')
      | succ i =>
        rw [nth_cons_succ, nth_cons_succ]
        exact ih hp.2 i j (by omega) hj'

theorem nth_take {ts : List Src} {k i : Nat} (h : i < k) : nth (ts.take k) i = nth ts i := by
  simp [nth, List.getD_eq_getElem?_getD, List.getElem?_take, h]

theorem nth_drop (ts : List Src) (k i : Nat) : nth (ts.drop k) i = nth ts (k + i) := by
  simp [nth, List.getD_eq_getElem?_getD, List.getElem?_drop]

/-! ### `pick` over tables with separated user keys -/

theorem pick_flatten_none {q : IK} {ts : List Src} (h : ∀ t ∈ ts, noUk (qk q) t) :
    pick q ts.flatten = none :=
  pick_none_of_noUk (noUk_flatten h)

theorem pick_flatten_unique {q : IK} : ∀ (ts : List Src) (i : Nat), i < ts.length →
    (∀ k, k < ts.length → k ≠ i → noUk (qk q) (nth ts k)) →
    pick q ts.flatten = pick q (nth ts i) := by
  intro ts
  induction ts with
  | nil => intro i h; simp at h
  | cons t ts ih =>
    intro i hi hno
    simp only [List.flatten_cons, pick_append]
    cases i with
    | zero =>
      have : pick q ts.flatten = none := by
        apply pick_flatten_none
        intro t' ht'
        obtain ⟨k, hk, hkn⟩ := mem_nth ht'
        have := hno (k + 1) (by simpa using hk) (by omega)
        rw [nth_cons_succ, hkn] at this
        exact this
      rw [this, better_none_right, nth_cons_zero]
    | succ i =>
      have h0 := hno 0 (by simp) (by omega)
      rw [nth_cons_zero] at h0
      rw [pick_none_of_noUk h0, better_none_left, nth_cons_succ]
      apply ih i (by simpa using hi)
      intro k hk hki
      have := hno (k + 1) (by simpa using hk) (by omega)
      rwa [nth_cons_succ] at this

/-- two tables share no user key -/
def SepU (a b : Src) : Prop := ∀ e ∈ a, ∀ e' ∈ b, e.uk ≠ e'.uk

theorem SepU_symm {a b : Src} (h : SepU a b) : SepU b a :=
  fun e he e' he' heq => h e' he' e he heq.symm

theorem SepU_of_Before {a b : Src} (h : Before a b) : SepU a b := by
  intro e he e' he' heq
  have h1 := le_maxUk he
  have h2 := minUk_le he'
  rw [heq] at h1
  have := Bytes.lt_of_le_of_lt h1 (Bytes.lt_of_lt_of_le h h2)
  rw [Bytes.lt_irrefl] at this
  cases this

/-- of two lists of entries with no common user key at most one answers a query -/
theorem pick_none_or_none {q : IK} {a b : List Entry} (h : ∀ e ∈ a, ∀ e' ∈ b, e.uk ≠ e'.uk) :
    pick q a = none ∨ pick q b = none := by
  cases ha : pick q a with
  | none => exact Or.inl rfl
  | some x =>
    cases hb : pick q b with
    | none => exact Or.inr rfl
    | some y =>
      exact absurd ((pick_some_uk ha).trans (pick_some_uk hb).symm) (h x (pick_mem ha) y (pick_mem hb))

theorem pick_perm {q : IK} {ts ts' : List Src} (hp : ts.Perm ts') :
    ts.Pairwise SepU → pick q ts.flatten = pick q ts'.flatten := by
  induction hp with
  | nil => intro _; rfl
  | cons x _ ih =>
    intro h
    rw [List.pairwise_cons] at h
    simp only [List.flatten_cons, pick_append, ih h.2]
  | swap x y l =>
    intro h
    rw [List.pairwise_cons] at h
    have hyx : SepU y x := h.1 x List.mem_cons_self
    simp only [List.flatten_cons, pick_append]
    rw [← better_assoc, ← better_assoc, better_comm_of_none (pick_none_or_none hyx)]
  | trans h1 _ ih1 ih2 =>
    intro h
    rw [ih1 h]
    exact ih2 ((h1.pairwise_iff (fun hab => SepU_symm hab)).mp h)

/-! ### ordered main tables -/

/-- non-empty tables with strictly increasing, disjoint user-key ranges -/
def OrderedE (ts : List Src) : Prop := (∀ t ∈ ts, t ≠ []) ∧ ts.Pairwise Before

theorem OrderedE.lt {ts : List Src} (h : OrderedE ts) {i j : Nat} (hij : i < j) (hj : j < ts.length) :
    Bytes.lt (maxUk (nth ts i)) (minUk (nth ts j)) = true :=
  pairwise_nth h.2 i j hij hj

theorem OrderedE.max_mono {ts : List Src} (h : OrderedE ts) {i j : Nat} (hij : i ≤ j) (hj : j < ts.length) :
    Bytes.le (maxUk (nth ts i)) (maxUk (nth ts j)) = true := by
  rcases Nat.lt_or_eq_of_le hij with hlt | heq
  · exact Bytes.le_of_lt (Bytes.lt_of_lt_of_le (h.lt hlt hj) (minUk_le_maxUk (h.1 _ (nth_mem hj))))
  · subst heq; exact Bytes.le_refl _

theorem OrderedE.min_mono {ts : List Src} (h : OrderedE ts) {i j : Nat} (hij : i ≤ j) (hj : j < ts.length) :
    Bytes.le (minUk (nth ts i)) (minUk (nth ts j)) = true := by
  rcases Nat.lt_or_eq_of_le hij with hlt | heq
  · exact Bytes.le_of_lt (Bytes.lt_of_le_of_lt (minUk_le_maxUk (h.1 _ (nth_mem (by omega)))) (h.lt hlt hj))
  · subst heq; exact Bytes.le_refl _

theorem mainCandidate_eq (ts : List Src) (hn : 0 < ts.length) (uk : Bytes) :
    mainCandidate ts uk =
      if (Bytes.lt uk (minUk (nth ts 0)) || Bytes.lt (maxUk (nth ts (ts.length - 1))) uk) = true then []
      else if goSearch (fun i => !Bytes.lt (maxUk (nth ts i)) uk) (ts.length + 1) 0 ts.length ≥ ts.length then []
      else if Bytes.lt uk (minUk (nth ts (goSearch (fun i => !Bytes.lt (maxUk (nth ts i)) uk) (ts.length + 1) 0 ts.length))) = true
        then []
      else [nth ts (goSearch (fun i => !Bytes.lt (maxUk (nth ts i)) uk) (ts.length + 1) 0 ts.length)] := by
  cases ts with
  | nil => simp at hn
  | cons first rest => rfl

/-- `getTableForKey` returns the only table that can hold the key, if any -/
theorem pick_mainCandidate {q : IK} {ts : List Src} (h : OrderedE ts) :
    pick q (mainCandidate ts (qk q)).flatten = pick q ts.flatten := by
  by_cases hn : 0 < ts.length
  case neg =>
    have : ts = [] := by
      cases ts with
      | nil => rfl
      | cons _ _ => simp at hn
    subst this; rfl
  case pos =>
    -- every table is at some position
    have none_of : (∀ k, k < ts.length → noUk (qk q) (nth ts k)) → pick q ts.flatten = none := by
      intro hall
      apply pick_flatten_none
      intro t ht
      obtain ⟨k, hk, hkn⟩ := mem_nth ht
      rw [← hkn]; exact hall k hk
    have hmono : ∀ a b, a ≤ b → b < ts.length →
        (!Bytes.lt (maxUk (nth ts a)) (qk q)) = true → (!Bytes.lt (maxUk (nth ts b)) (qk q)) = true := by
      intro a b hab hb hfa
      simp only [Bool.not_eq_true'] at hfa ⊢
      have h1 : Bytes.le (qk q) (maxUk (nth ts a)) = true := Bytes.not_lt_iff_le.mp hfa
      exact Bytes.not_lt_iff_le.mpr (Bytes.le_trans h1 (h.max_mono hab hb))
    obtain ⟨hidx_le, hbelow, habove⟩ :=
      goSearch_least (fun i => !Bytes.lt (maxUk (nth ts i)) (qk q)) ts.length hmono
    rw [mainCandidate_eq ts hn]
    by_cases hout : (Bytes.lt (qk q) (minUk (nth ts 0)) || Bytes.lt (maxUk (nth ts (ts.length - 1))) (qk q)) = true
    · simp only [hout, if_true, List.flatten_nil, pick]
      symm
      apply none_of
      intro k hk
      rcases Bool.or_eq_true _ _ |>.mp hout with h1 | h1
      · apply noUk_of_lt_min
        exact Bytes.lt_of_lt_of_le h1 (h.min_mono (Nat.zero_le k) hk)
      · apply noUk_of_max_lt
        exact Bytes.lt_of_le_of_lt (h.max_mono (by omega) (by omega)) h1
    · simp only [hout, Bool.false_eq_true, if_false]
      generalize hidx : goSearch (fun i => !Bytes.lt (maxUk (nth ts i)) (qk q)) (ts.length + 1) 0 ts.length = idx
        at hidx_le hbelow habove
      have below_no : ∀ k, k < idx → k < ts.length → noUk (qk q) (nth ts k) := by
        intro k hk _
        apply noUk_of_max_lt
        have := hbelow k hk
        simpa using this
      by_cases hge : idx ≥ ts.length
      · simp only [hge, if_true, List.flatten_nil, pick]
        symm
        apply none_of
        intro k hk
        exact below_no k (by omega) hk
      · simp only [hge, if_false]
        have hlt : idx < ts.length := by omega
        have hmax : Bytes.le (qk q) (maxUk (nth ts idx)) = true := by
          have := habove idx (Nat.le_refl _) hlt
          simp only [Bool.not_eq_true'] at this
          exact Bytes.not_lt_iff_le.mp this
        have above_no : ∀ k, idx < k → k < ts.length → noUk (qk q) (nth ts k) := by
          intro k hk hkn
          apply noUk_of_lt_min
          exact Bytes.lt_of_le_of_lt hmax (h.lt hk hkn)
        by_cases hmin : Bytes.lt (qk q) (minUk (nth ts idx)) = true
        · simp only [hmin, if_true, List.flatten_nil, pick]
          symm
          apply none_of
          intro k hk
          rcases Nat.lt_trichotomy k idx with h1 | h1 | h1
          · exact below_no k h1 hk
          · subst h1; exact noUk_of_lt_min hmin
          · exact above_no k h1 hk
        · simp only [hmin, Bool.false_eq_true, if_false, List.flatten_cons, List.flatten_nil,
            List.append_nil]
          symm
          apply pick_flatten_unique ts idx hlt
          intro k hk hki
          rcases Nat.lt_or_gt_of_ne hki with h1 | h1
          · exact below_no k h1 hk
          · exact above_no k h1 hk

/-- `OverlappingTables` with the good right bound: every table outside `[left, right)` lies
    entirely outside `[lo, hi]` -/
theorem overlapping_spec {c : Cfg} (hc : c.overlapRightKey = .minKey) {ts : List Src} (h : OrderedE ts)
    {lo hi : Bytes} {l r : Nat} (ho : overlapping c ts lo hi = some (l, r)) :
    l ≤ r ∧ r ≤ ts.length ∧
    (∀ k, k < l → Bytes.lt (maxUk (nth ts k)) lo = true) ∧
    (∀ k, r ≤ k → k < ts.length → Bytes.lt hi (minUk (nth ts k)) = true) := by
  have hm1 : ∀ a b, a ≤ b → b < ts.length →
      (!Bytes.lt (maxUk (nth ts a)) lo) = true → (!Bytes.lt (maxUk (nth ts b)) lo) = true := by
    intro a b hab hb hfa
    simp only [Bool.not_eq_true'] at hfa ⊢
    exact Bytes.not_lt_iff_le.mpr (Bytes.le_trans (Bytes.not_lt_iff_le.mp hfa) (h.max_mono hab hb))
  have hm2 : ∀ a b, a ≤ b → b < ts.length →
      Bytes.lt hi (minUk (nth ts a)) = true → Bytes.lt hi (minUk (nth ts b)) = true := by
    intro a b hab hb hfa
    exact Bytes.lt_of_lt_of_le hfa (h.min_mono hab hb)
  obtain ⟨_, hl1, _⟩ := goSearch_least (fun i => !Bytes.lt (maxUk (nth ts i)) lo) ts.length hm1
  obtain ⟨hr0, _, hr2⟩ := goSearch_least (fun i => Bytes.lt hi (minUk (nth ts i))) ts.length hm2
  unfold overlapping at ho
  simp only [hc] at ho
  split at ho
  · cases ho
  · rename_i hlr
    simp only [Option.some.injEq, Prod.mk.injEq] at ho
    obtain ⟨rfl, rfl⟩ := ho
    refine ⟨by omega, hr0, ?_, hr2⟩
    intro k hk
    have := hl1 k hk
    simpa using this

end NoKV.Lsm

/-
Lemmas for the recency argument (DESIGN.md §11 "LSM recency"), core Lean only.

`pick q l` (greatest version not above the requested one, the earlier element wins ties) is the
answer of a list of entries ordered newest first.  For a configuration with the good read-path
decisions, `get` equals `pick` over `flat s` = all sources concatenated in visiting order, and
every modelled maintenance step either leaves `flat s` unchanged or only removes later duplicates
of an internal key — which `pick` cannot see.
-/
import NoKVModel.Lsm.Model

namespace NoKV.Lsm

/-! ### `better` is a monoid with first-wins ties -/

theorem better_none_right (a : Option Entry) : better a none = a := by
  cases a <;> rfl

theorem better_none_left (b : Option Entry) : better none b = b := rfl

theorem better_assoc (a b c : Option Entry) : better (better a b) c = better a (better b c) := by
  cases a with
  | none => rfl
  | some a =>
    cases b with
    | none => rfl
    | some b =>
      cases c with
      | none => simp [better_none_right]
      | some c =>
        simp only [better]
        by_cases h1 : a.ver < b.ver <;> by_cases h2 : b.ver < c.ver <;> by_cases h3 : a.ver < c.ver <;>
          simp [better, h1, h2, h3] <;> omega

theorem pick_append (q : IK) (a b : List Entry) : pick q (a ++ b) = better (pick q a) (pick q b) := by
  induction a with
  | nil => rfl
  | cons e l ih => simp [pick, ih, better_assoc]

theorem foldr_better_pick (q : IK) (ls : List Src) (r : Option Entry) :
    (ls.map (pick q)).foldr better r = better (pick q ls.flatten) r := by
  induction ls with
  | nil => rfl
  | cons t ts ih => simp [ih, pick_append, better_assoc]

theorem pick_mem {q : IK} {l : List Entry} {e : Entry} (h : pick q l = some e) : e ∈ l := by
  induction l generalizing e with
  | nil => simp [pick] at h
  | cons x l ih =>
    simp only [pick] at h
    cases hm : mq q x with
    | none =>
      rw [hm, better_none_left] at h
      exact List.mem_cons_of_mem _ (ih h)
    | some y =>
      have hy : y = x := by
        unfold mq at hm
        split at hm <;> simp_all
      subst hy
      rw [hm] at h
      cases hp : pick q l with
      | none => rw [hp] at h; simp [better] at h; subst h; exact List.mem_cons_self
      | some z =>
        rw [hp] at h
        simp only [better] at h
        split at h
        · simp at h; subst h; exact List.mem_cons_of_mem _ (ih hp)
        · simp at h; subst h; exact List.mem_cons_self

theorem le_tmax {l : List Entry} {e : Entry} (h : e ∈ l) : e.ver ≤ tmax l := by
  induction l with
  | nil => simp at h
  | cons x l ih =>
    simp only [tmax]
    rcases List.mem_cons.mp h with h | h
    · subst h; omega
    · have := ih h; omega

/-! ### domination: what an accumulated answer already shadows -/

/-- the accumulated answer `p` shadows every entry with internal key `ik` for the query `q` -/
def domP (p : Option Entry) (ik : IK) (q : IK) : Prop :=
  ¬ (ik.cf = q.cf ∧ ik.key = q.key ∧ ik.ver ≤ q.ver) ∨ ∃ pe, p = some pe ∧ ik.ver ≤ pe.ver

theorem mq_some {q : IK} {x y : Entry} (h : mq q x = some y) :
    y = x ∧ x.cf = q.cf ∧ x.key = q.key ∧ x.ver ≤ q.ver := by
  unfold mq at h
  split at h
  · simp at h; subst h; simp_all
  · simp at h

theorem mq_none {q : IK} {x : Entry} (h : mq q x = none) :
    ¬ (x.cf = q.cf ∧ x.key = q.key ∧ x.ver ≤ q.ver) := by
  unfold mq at h
  split at h
  · simp at h
  · assumption

theorem domP_absorb {p : Option Entry} {ik q : IK} {y : Entry} (hd : domP p ik q) (hy : y.ik = ik) :
    better p (mq q y) = p := by
  cases hm : mq q y with
  | none => exact better_none_right p
  | some z =>
    obtain ⟨hz, h1, h2, h3⟩ := mq_some hm
    subst hz
    have hik : ik.cf = z.cf ∧ ik.key = z.key ∧ ik.ver = z.ver := by
      subst hy; simp [Entry.ik]
    rcases hd with hd | ⟨pe, hp, hv⟩
    · exact absurd ⟨hik.1 ▸ h1, hik.2.1 ▸ h2, hik.2.2 ▸ h3⟩ hd
    · subst hp
      simp only [better]
      have : ¬ pe.ver < z.ver := by omega
      simp [this]

theorem domP_mono {p : Option Entry} {ik q : IK} (z : Option Entry) (hd : domP p ik q) :
    domP (better p z) ik q := by
  rcases hd with hd | ⟨pe, hp, hv⟩
  · exact Or.inl hd
  · subst hp
    cases z with
    | none => exact Or.inr ⟨pe, rfl, hv⟩
    | some z =>
      simp only [better]
      by_cases h : pe.ver < z.ver
      · simp only [h, if_true]; exact Or.inr ⟨z, rfl, by omega⟩
      · simp only [h, if_false]; exact Or.inr ⟨pe, rfl, hv⟩

theorem domP_self (p : Option Entry) (q : IK) (x : Entry) : domP (better p (mq q x)) x.ik q := by
  cases hm : mq q x with
  | none =>
    left
    have := mq_none hm
    simpa [Entry.ik] using this
  | some z =>
    obtain ⟨hz, -, -, -⟩ := mq_some hm
    subst hz
    cases p with
    | none => exact Or.inr ⟨z, rfl, by simp [Entry.ik]⟩
    | some pe =>
      simp only [better]
      by_cases h : pe.ver < z.ver
      · simp only [h, if_true]; exact Or.inr ⟨z, rfl, by simp [Entry.ik]⟩
      · simp only [h, if_false]; exact Or.inr ⟨pe, rfl, by simp [Entry.ik]; omega⟩

/-- removing entries whose internal key is already shadowed does not change the answer -/
theorem filter_absorb (q : IK) (ik : IK) (l : List Entry) :
    ∀ p, domP p ik q → better p (pick q (l.filter (fun x => x.ik ≠ ik))) = better p (pick q l) := by
  induction l with
  | nil => intro p _; rfl
  | cons x l ih =>
    intro p hd
    by_cases hx : x.ik = ik
    · have : (x :: l).filter (fun x => x.ik ≠ ik) = l.filter (fun x => x.ik ≠ ik) := by
        simp [List.filter, hx]
      rw [this, ih p hd]
      simp only [pick]
      rw [← better_assoc, domP_absorb hd hx]
    · have : (x :: l).filter (fun x => x.ik ≠ ik) = x :: l.filter (fun x => x.ik ≠ ik) := by
        simp [List.filter, hx]
      rw [this]
      simp only [pick]
      rw [← better_assoc, ← better_assoc]
      exact ih _ (domP_mono _ hd)

theorem dedupGo_absorb (q : IK) (l : List Entry) :
    ∀ (seen : List IK) (p : Option Entry), (∀ ik ∈ seen, domP p ik q) →
      better p (pick q (dedupGo seen l)) = better p (pick q l) := by
  induction l with
  | nil => intro _ p _; rfl
  | cons x l ih =>
    intro seen p hs
    by_cases hx : x.ik ∈ seen
    · simp only [dedupGo, hx, if_true, pick]
      rw [ih seen p hs, ← better_assoc, domP_absorb (hs _ hx) rfl]
    · simp only [dedupGo, hx, if_false, pick]
      rw [← better_assoc, ← better_assoc]
      apply ih
      intro ik hik
      rcases List.mem_cons.mp hik with h | h
      · subst h; exact domP_self p q x
      · exact domP_mono _ (hs _ h)

theorem pick_dedup (q : IK) (l : List Entry) : pick q (dedup l) = pick q l := by
  have := dedupGo_absorb q l [] none (by intro ik h; simp at h)
  simpa [better_none_left, dedup] using this

theorem dedupGo_subset (l : List Entry) : ∀ seen e, e ∈ dedupGo seen l → e ∈ l := by
  induction l with
  | nil => intro _ e h; simp [dedupGo] at h
  | cons x l ih =>
    intro seen e h
    simp only [dedupGo] at h
    split at h
    · exact List.mem_cons_of_mem _ (ih _ _ h)
    · rcases List.mem_cons.mp h with h | h
      · subst h; exact List.mem_cons_self
      · exact List.mem_cons_of_mem _ (ih _ _ h)

/-! ### rank of an answer: `better` is `max` on ranks with first-wins ties -/

/-- 0 for "nothing found", version + 1 otherwise -/
def rk : Option Entry → Nat
  | none => 0
  | some e => e.ver + 1

theorem better_eq_ite (a b : Option Entry) : better a b = if rk a < rk b then b else a := by
  cases a with
  | none => cases b <;> simp [better, rk]
  | some a => cases b with
    | none => simp [better, rk]
    | some b =>
      simp only [better, rk]
      by_cases h : a.ver < b.ver
      · have : a.ver + 1 < b.ver + 1 := by omega
        simp [h, this]
      · have : ¬ a.ver + 1 < b.ver + 1 := by omega
        simp [h, this]

theorem rk_better (a b : Option Entry) : rk (better a b) = max (rk a) (rk b) := by
  rw [better_eq_ite]
  split <;> omega

/-- an answer that is not ranked above the accumulated one is absorbed -/
theorem better_absorb {a b : Option Entry} (h : rk b ≤ rk a) : better a b = a := by
  rw [better_eq_ite]
  have : ¬ rk a < rk b := by omega
  simp [this]

theorem better_idem (a : Option Entry) : better a a = a := better_absorb (Nat.le_refl _)

theorem better_comm_of_none {a b : Option Entry} (h : a = none ∨ b = none) : better a b = better b a := by
  rcases h with h | h <;> subst h <;> simp [better_none_left, better_none_right]

theorem rk_eq_zero {a : Option Entry} : rk a = 0 ↔ a = none := by
  cases a <;> simp [rk]

theorem rk_pick_le_flatten (q : IK) {t : Src} {ts : List Src} (h : t ∈ ts) :
    rk (pick q t) ≤ rk (pick q ts.flatten) := by
  induction ts with
  | nil => simp at h
  | cons x ts ih =>
    simp only [List.flatten_cons, pick_append, rk_better]
    rcases List.mem_cons.mp h with h | h
    · subst h; omega
    · have := ih h; omega

/-! ### the max-version scan over tables equals `pick` over their concatenation -/

def accV : Option Entry → Nat
  | none => 0
  | some e => e.ver

/-- with version-0 hits accepted (`zeroVersionFound`) and the strict tie rule, scanning tables in
    order computes `better` over their answers — for any versions -/
theorem scan_found (q : IK) (ts : List Src) :
    ∀ best : Option Entry,
      scan .lt true q (accV best, best) ts =
        (accV (better best (pick q ts.flatten)), better best (pick q ts.flatten)) := by
  induction ts with
  | nil => intro best; simp [scan, pick, better_none_right]
  | cons t ts ih =>
    intro best
    have hsplit : better best (pick q (t :: ts).flatten)
        = better (better best (pick q t)) (pick q ts.flatten) := by
      simp [pick_append, better_assoc]
    rw [hsplit]
    simp only [scan]
    by_cases hprune : (true = false ∨ best ≠ none) ∧ tmax t ≤ accV best
    · simp only [hprune, and_self, if_true]
      obtain ⟨hb, hle⟩ := hprune
      have hb' : best ≠ none := by
        rcases hb with hb | hb
        · cases hb
        · exact hb
      have : better best (pick q t) = best := by
        cases he : pick q t with
        | none => exact better_none_right _
        | some e =>
          have h1 := le_tmax (pick_mem he)
          cases best with
          | none => exact absurd rfl hb'
          | some b =>
            simp only [accV] at hle
            exact better_absorb (by simp only [rk]; omega)
      rw [this]
      exact ih best
    · simp only [hprune, if_false]
      cases he : pick q t with
      | none =>
        simp only [seek, he, better_none_right]
        exact ih best
      | some e =>
        simp only [seek, he]
        cases best with
        | none =>
          simp only [true_and, true_or, if_true, better_none_left]
          exact ih (some e)
        | some b =>
          by_cases hlt : b.ver < e.ver
          · have h2 : better (some b) (some e) = some e := by simp [better, hlt]
            simp only [accV, CmpOp.nat, CmpOp.eval, hlt, decide_true, or_true, if_true, h2]
            exact ih (some e)
          · have h2 : better (some b) (some e) = some b := by simp [better, hlt]
            simp only [accV, CmpOp.nat, CmpOp.eval, hlt, decide_false, h2]
            simp only [reduceCtorEq, and_false, Bool.false_eq_true, or_self, if_false]
            exact ih (some b)

end NoKV.Lsm

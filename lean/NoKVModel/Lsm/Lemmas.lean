/-
Lemmas for the recency argument (DESIGN.md §11 "LSM recency"), core Lean only.

`pick q l` (greatest version not above the requested one, the earlier element wins ties) is the
answer of a list of entries ordered newest first.  For a configuration with the good read-path
decisions, `get` equals `pick` over `flat s` = all sources concatenated in visiting order, and
every modelled maintenance step either leaves `flat s` unchanged or only removes later duplicates
of an internal key — which `pick` cannot see.
-/
import NoKVModel.Lsm.Model

namespace NoKV.Lsm

/-! ### `better` is a monoid with first-wins ties -/

theorem better_none_right (a : Option Entry) : better a none = a := by
  cases a <;> rfl

theorem better_none_left (b : Option Entry) : better none b = b := rfl

theorem better_assoc (a b c : Option Entry) : better (better a b) c = better a (better b c) := by
  cases a with
  | none => rfl
  | some a =>
    cases b with
    | none => rfl
    | some b =>
      cases c with
      | none => simp [better_none_right]
      | some c =>
        simp only [better]
        by_cases h1 : a.ver < b.ver <;> by_cases h2 : b.ver < c.ver <;> by_cases h3 : a.ver < c.ver <;>
          simp [better, h1, h2, h3] <;> omega

theorem pick_append (q : IK) (a b : List Entry) : pick q (a ++ b) = better (pick q a) (pick q b) := by
  induction a with
  | nil => rfl
  | cons e l ih => simp [pick, ih, better_assoc]

theorem foldr_better_pick (q : IK) (ls : List Src) (r : Option Entry) :
    (ls.map (pick q)).foldr better r = better (pick q ls.flatten) r := by
  induction ls with
  | nil => rfl
  | cons t ts ih => simp [ih, pick_append, better_assoc]

theorem pick_mem {q : IK} {l : List Entry} {e : Entry} (h : pick q l = some e) : e ∈ l := by
  induction l generalizing e with
  | nil => simp [pick] at h
  | cons x l ih =>
    simp only [pick] at h
    cases hm : mq q x with
    | none =>
      rw [hm, better_none_left] at h
      exact List.mem_cons_of_mem _ (ih h)
    | some y =>
      have hy : y = x := by
        unfold mq at hm
        split at hm <;> simp_all
      subst hy
      rw [hm] at h
      cases hp : pick q l with
      | none => rw [hp] at h; simp [better] at h; subst h; exact List.mem_cons_self
      | some z =>
        rw [hp] at h
        simp only [better] at h
        split at h
        · simp at h; subst h; exact List.mem_cons_of_mem _ (ih hp)
        · simp at h; subst h; exact List.mem_cons_self

theorem le_tmax {l : List Entry} {e : Entry} (h : e ∈ l) : e.ver ≤ tmax l := by
  induction l with
  | nil => simp at h
  | cons x l ih =>
    simp only [tmax]
    rcases List.mem_cons.mp h with h | h
    · subst h; omega
    · have := ih h; omega

/-! ### domination: what an accumulated answer already shadows -/

/-- the accumulated answer `p` shadows every entry with internal key `ik` for the query `q` -/
def domP (p : Option Entry) (ik : IK) (q : IK) : Prop :=
  ¬ (ik.cf = q.cf ∧ ik.key = q.key ∧ ik.ver ≤ q.ver) ∨ ∃ pe, p = some pe ∧ ik.ver ≤ pe.ver

theorem mq_some {q : IK} {x y : Entry} (h : mq q x = some y) :
    y = x ∧ x.cf = q.cf ∧ x.key = q.key ∧ x.ver ≤ q.ver := by
  unfold mq at h
  split at h
  · simp at h; subst h; simp_all
  · simp at h

theorem mq_none {q : IK} {x : Entry} (h : mq q x = none) :
    ¬ (x.cf = q.cf ∧ x.key = q.key ∧ x.ver ≤ q.ver) := by
  unfold mq at h
  split at h
  · simp at h
  · assumption

theorem domP_absorb {p : Option Entry} {ik q : IK} {y : Entry} (hd : domP p ik q) (hy : y.ik = ik) :
    better p (mq q y) = p := by
  cases hm : mq q y with
  | none => exact better_none_right p
  | some z =>
    obtain ⟨hz, h1, h2, h3⟩ := mq_some hm
    subst hz
    have hik : ik.cf = z.cf ∧ ik.key = z.key ∧ ik.ver = z.ver := by
      subst hy; simp [Entry.ik]
    rcases hd with hd | ⟨pe, hp, hv⟩
    · exact absurd ⟨hik.1 ▸ h1, hik.2.1 ▸ h2, hik.2.2 ▸ h3⟩ hd
    · subst hp
      simp only [better]
      have : ¬ pe.ver < z.ver := by omega
      simp [this]

theorem domP_mono {p : Option Entry} {ik q : IK} (z : Option Entry) (hd : domP p ik q) :
    domP (better p z) ik q := by
  rcases hd with hd | ⟨pe, hp, hv⟩
  · exact Or.inl hd
  · subst hp
    cases z with
    | none => exact Or.inr ⟨pe, rfl, hv⟩
    | some z =>
      simp only [better]
      by_cases h : pe.ver < z.ver
      · simp only [h, if_true]; exact Or.inr ⟨z, rfl, by omega⟩
      · simp only [h, if_false]; exact Or.inr ⟨pe, rfl, hv⟩

theorem domP_self (p : Option Entry) (q : IK) (x : Entry) : domP (better p (mq q x)) x.ik q := by
  cases hm : mq q x with
  | none =>
    left
    have := mq_none hm
    simpa [Entry.ik] using this
  | some z =>
    obtain ⟨hz, -, -, -⟩ := mq_some hm
    subst hz
    cases p with
    | none => exact Or.inr ⟨z, rfl, by simp [Entry.ik]⟩
    | some pe =>
      simp only [better]
      by_cases h : pe.ver < z.ver
      · simp only [h, if_true]; exact Or.inr ⟨z, rfl, by simp [Entry.ik]⟩
      · simp only [h, if_false]; exact Or.inr ⟨pe, rfl, by simp [Entry.ik]; omega⟩

/-- removing entries whose internal key is already shadowed does not change the answer -/
theorem filter_absorb (q : IK) (ik : IK) (l : List Entry) :
    ∀ p, domP p ik q → better p (pick q (l.filter (fun x => x.ik ≠ ik))) = better p (pick q l) := by
  induction l with
  | nil => intro p _; rfl
  | cons x l ih =>
    intro p hd
    by_cases hx : x.ik = ik
    · have : (x :: l).filter (fun x => x.ik ≠ ik) = l.filter (fun x => x.ik ≠ ik) := by
        simp [List.filter, hx]
      rw [this, ih p hd]
      simp only [pick]
      rw [← better_assoc, domP_absorb hd hx]
    · have : (x :: l).filter (fun x => x.ik ≠ ik) = x :: l.filter (fun x => x.ik ≠ ik) := by
        simp [List.filter, hx]
      rw [this]
      simp only [pick]
      rw [← better_assoc, ← better_assoc]
      exact ih _ (domP_mono _ hd)

theorem dedupGo_absorb (q : IK) (l : List Entry) :
    ∀ (seen : List IK) (p : Option Entry), (∀ ik ∈ seen, domP p ik q) →
      better p (pick q (dedupGo seen l)) = better p (pick q l) := by
  induction l with
  | nil => intro _ p _; rfl
  | cons x l ih =>
    intro seen p hs
    by_cases hx : x.ik ∈ seen
    · simp only [dedupGo, hx, if_true, pick]
      rw [ih seen p hs, ← better_assoc, domP_absorb (hs _ hx) rfl]
    · simp only [dedupGo, hx, if_false, pick]
      rw [← better_assoc, ← better_assoc]
      apply ih
      intro ik hik
      rcases List.mem_cons.mp hik with h | h
      · subst h; exact domP_self p q x
      · exact domP_mono _ (hs _ h)

theorem pick_dedup (q : IK) (l : List Entry) : pick q (dedup l) = pick q l := by
  have := dedupGo_absorb q l [] none (by intro ik h; simp at h)
  simpa [better_none_left, dedup] using this

theorem dedupGo_subset (l : List Entry) : ∀ seen e, e ∈ dedupGo seen l → e ∈ l := by
  induction l with
  | nil => intro _ e h; simp [dedupGo] at h
  | cons x l ih =>
    intro seen e h
    simp only [dedupGo] at h
    split at h
    · exact List.mem_cons_of_mem _ (ih _ _ h)
    · rcases List.mem_cons.mp h with h | h
      · subst h; exact List.mem_cons_self
      · exact List.mem_cons_of_mem _ (ih _ _ h)

/-! ### the max-version scan over tables equals `pick` over their concatenation -/

def accV : Option Entry → Nat
  | none => 0
  | some e => e.ver

theorem scan_lt (q : IK) (ts : List Src) :
    ∀ best : Option Entry, (∀ t ∈ ts, ∀ e ∈ t, 1 ≤ e.ver) →
      scan .lt q (accV best, best) ts =
        (accV (better best (pick q ts.flatten)), better best (pick q ts.flatten)) := by
  induction ts with
  | nil => intro best _; simp [scan, pick, better_none_right]
  | cons t ts ih =>
    intro best hpos
    have hpos' : ∀ t' ∈ ts, ∀ e ∈ t', 1 ≤ e.ver := fun t' h => hpos t' (List.mem_cons_of_mem _ h)
    have hpt : ∀ e ∈ t, 1 ≤ e.ver := hpos t List.mem_cons_self
    have hsplit : better best (pick q (t :: ts).flatten)
        = better (better best (pick q t)) (pick q ts.flatten) := by
      simp [pick_append, better_assoc]
    rw [hsplit]
    -- what `better best (pick q t)` is, in terms of the comparison the code makes
    have key : ∀ e, pick q t = some e →
        (accV best < e.ver → better best (some e) = some e) ∧
        (¬ accV best < e.ver → better best (some e) = best) := by
      intro e he
      have hmem := pick_mem he
      have hp := hpt e hmem
      cases best with
      | none => simp [accV, better]; omega
      | some b =>
        simp only [accV, better]
        constructor
        · intro h; simp [h]
        · intro h; simp [h]
    simp only [scan]
    by_cases hprune : tmax t ≤ accV best
    · simp only [hprune, if_true]
      have : better best (pick q t) = best := by
        cases he : pick q t with
        | none => exact better_none_right _
        | some e =>
          have h1 := le_tmax (pick_mem he)
          exact (key e he).2 (by omega)
      rw [this]
      exact ih best hpos'
    · simp only [hprune, if_false]
      cases he : pick q t with
      | none =>
        simp only [seek, he, better_none_right]
        exact ih best hpos'
      | some e =>
        simp only [seek, he]
        by_cases hlt : accV best < e.ver
        · have h2 := (key e he).1 hlt
          simp only [CmpOp.nat, CmpOp.eval, hlt, decide_true, if_true, h2]
          exact ih (some e) hpos'
        · have h2 := (key e he).2 hlt
          simp only [CmpOp.nat, CmpOp.eval, hlt, decide_false, h2]
          exact ih best hpos'

/-! ### `get` of a good configuration is `pick` over the sources in visiting order -/

/-- all sources in the order a good configuration visits them (main tables excluded) -/
def flat (s : St) : List Entry :=
  (s.mem :: s.imms).flatten ++ (s.l0.flatten ++ s.ing.flatten)

theorem get_good (c : Cfg) (hc : c.ReadGood) (s : St) (q : IK)
    (hmain : s.main = []) (hpos : ∀ e ∈ flat s, 1 ≤ e.ver) :
    get c s q = pick q (flat s) := by
  obtain ⟨h1, h2, h3, h4, h5, h6, -, -⟩ := hc
  have hl0 : ∀ t ∈ s.l0, ∀ e ∈ t, 1 ≤ e.ver := by
    intro t ht e he
    apply hpos
    simp only [flat, List.mem_append, List.mem_flatten]
    exact Or.inr (Or.inl ⟨t, ht, he⟩)
  have hing : ∀ t ∈ s.ing, ∀ e ∈ t, 1 ≤ e.ver := by
    intro t ht e he
    apply hpos
    simp only [flat, List.mem_append, List.mem_flatten]
    exact Or.inr (Or.inr ⟨t, ht, he⟩)
  have e0 := scan_lt q s.l0 none hl0
  have e1 := scan_lt q s.ing none hing
  simp only [accV, better_none_left] at e0 e1
  unfold get levelGet
  simp only [h1, h2, h3, h4, h5, h6, immVisit, l0Visit, ingVisit, hmain, mainCandidate, scan, e0, e1]
  rw [List.foldr_append, foldr_better_pick]
  simp only [List.foldr, better_none_right, flat, pick_append]

end NoKV.Lsm

/-
Preservation of the recency invariant by the modelled operations
(put / delete, rotate, flush, L0→ingest move, close+reopen), one lemma per op.
-/
import NoKVModel.Lsm.Lemmas

namespace NoKV.Lsm

/-- ops covered by the unbounded refinement theorem -/
def Op.basic : Op → Bool
  | .put _ | .rotate | .flush | .l0move | .reopen => true
  | .keep | .drain => false

/-- writes the API accepts unchanged: non-empty key within `maxKeySize`, version ≥ 1 -/
def Op.wf : Op → Prop
  | .put e => e.key ≠ [] ∧ e.key.length ≤ maxKeySize ∧ 1 ≤ e.ver
  | _ => True

/-- recency invariant, in its `pick` form: the sources, concatenated in visiting order, answer
    every query like the write log does -/
structure Inv (s : St) (w : List Entry) : Prop where
  main : s.main = []
  pos : ∀ e ∈ flat s, 1 ≤ e.ver
  same : ∀ q, pick q (flat s) = pick q w

theorem inv_of_flat_eq {s s' : St} {w : List Entry} (h : Inv s w) (hm : s'.main = [])
    (hf : flat s' = flat s) : Inv s' w :=
  ⟨hm, by rw [hf]; exact h.pos, by intro q; rw [hf]; exact h.same q⟩

theorem flat_rotate (s : St) : flat (rotate s) = flat s := by
  simp [flat, rotate]

theorem flat_flush (s : St) : flat (flush s) = flat s := by
  unfold flush
  split
  · rfl
  · rename_i t r h
    have himms : s.imms = r.reverse ++ [t] := by
      have := congrArg List.reverse h
      simpa using this
    have htake : s.imms.take (s.imms.length - 1) = r.reverse := by
      rw [himms]; simp
    simp only [htake]
    split
    · rename_i ht
      subst ht
      simp [flat, himms]
    · simp [flat, himms, List.append_assoc]

theorem flat_l0moveAt (k : Nat) (s : St) : flat (l0moveAt k s) = flat s := by
  simp only [flat, l0moveAt, List.flatten_append]
  rw [← List.append_assoc (List.flatten (List.take _ _)), ← List.flatten_append, List.take_append_drop]

theorem l0move_cases (c : Cfg) (s : St) :
    (l0move c s).1 = s ∨ ∃ k, (l0move c s).1 = l0moveAt k s := by
  unfold l0move
  simp only
  repeat' split
  all_goals first | exact Or.inl rfl | exact Or.inr ⟨_, rfl⟩

theorem flatten_filter_ne_nil (l : List Src) :
    (l.filter (fun t => !decide (t = []))).flatten = l.flatten := by
  induction l with
  | nil => rfl
  | cons t l ih =>
    by_cases h : t = []
    · subst h; simpa [List.filter_cons] using ih
    · simp [List.filter_cons, h, ih]

theorem foldl_eraseOne_nil (d : List Src) : d.foldl (fun m t => eraseOne t m) [] = [] := by
  induction d with
  | nil => rfl
  | cons t d ih => simpa [List.foldl, eraseOne] using ih

theorem flat_reopen (s : St) : flat (reopen s) = flat s := by
  simp [flat, reopen, flatten_filter_ne_nil, List.append_assoc]

theorem write_wf (c : Cfg) (s : St) (e : Entry) (h : (Op.put e).wf) :
    (write c s e).1 = { s with mem := memPut e s.mem } := by
  obtain ⟨h1, h2, _⟩ := h
  unfold write
  have h3 : ¬ (c.plainKeyLimit = true ∧ e.key.length > maxKeySize) := by
    intro ⟨_, h⟩; omega
  have h4 : 4 + e.key.length + 8 < 65536 := by
    unfold maxKeySize at h2; omega
  simp [h1, h3, h4]

theorem inv_put {s : St} {w : List Entry} (e : Entry) (h : Inv s w) (hp : 1 ≤ e.ver) :
    Inv { s with mem := memPut e s.mem } (e :: w) := by
  have hflat : flat s = s.mem ++ (s.imms.flatten ++ (s.l0.flatten ++ s.ing.flatten)) := by
    simp [flat]
  have hflat' : flat { s with mem := memPut e s.mem }
      = e :: (s.mem.filter (fun x => x.ik ≠ e.ik) ++ (s.imms.flatten ++ (s.l0.flatten ++ s.ing.flatten))) := by
    simp [flat, memPut]
  refine ⟨h.main, ?_, ?_⟩
  · intro x hx
    rw [hflat'] at hx
    rcases List.mem_cons.mp hx with hx | hx
    · subst hx; exact hp
    · apply h.pos
      rw [hflat]
      rcases List.mem_append.mp hx with hx | hx
      · exact List.mem_append_left _ (List.mem_filter.mp hx).1
      · exact List.mem_append_right _ hx
  · intro q
    rw [hflat']
    simp only [pick]
    rw [pick_append, ← better_assoc,
      filter_absorb q e.ik s.mem (mq q e) (by simpa [better_none_left] using domP_self none q e),
      better_assoc, ← pick_append, ← hflat, h.same q]

theorem inv_step (c : Cfg) {s : St} {w : List Entry} (op : Op) (hb : op.basic = true) (hw : op.wf)
    (h : Inv s w) : Inv (step c s op) (logStep w op) := by
  cases op with
  | put e =>
    simp only [step, logStep]
    rw [write_wf c s e hw]
    exact inv_put e h hw.2.2
  | rotate => exact inv_of_flat_eq h (by simpa [step, rotate] using h.main) (flat_rotate s)
  | flush =>
    refine inv_of_flat_eq h ?_ (flat_flush s)
    simp only [step]
    unfold flush
    split
    · exact h.main
    · split <;> exact h.main
  | l0move =>
    simp only [step, logStep]
    rcases l0move_cases c s with h1 | ⟨k, h1⟩
    · rw [h1]; exact h
    · rw [h1]; exact inv_of_flat_eq h (by simpa [l0moveAt] using h.main) (flat_l0moveAt k s)
  | reopen =>
    refine inv_of_flat_eq h ?_ (flat_reopen s)
    simp [step, reopen, h.main, foldl_eraseOne_nil]
  | keep => simp [Op.basic] at hb
  | drain => simp [Op.basic] at hb

theorem inv_run (c : Cfg) (ops : List Op) :
    ∀ (s : St) (w : List Entry), Inv s w → (∀ op ∈ ops, op.basic = true ∧ op.wf) →
      Inv (run c s ops) (logOf w ops) := by
  induction ops with
  | nil => intro s w h _; exact h
  | cons op ops ih =>
    intro s w h hops
    have h1 := hops op List.mem_cons_self
    simp only [run, logOf, List.foldl]
    exact ih _ _ (inv_step c op h1.1 h1.2 h) (fun o ho => hops o (List.mem_cons_of_mem _ ho))

theorem inv_init : Inv {} [] :=
  ⟨rfl, by intro e h; simp [flat] at h, by intro q; rfl⟩

end NoKV.Lsm

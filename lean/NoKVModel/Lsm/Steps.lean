/-
The recency invariant over ALL modelled operations (put / delete, rotate, flush, L0→ingest move,
ingest keep, ingest drain, close+reopen) and its preservation, one lemma per op.

`flat s` = every source concatenated in the order a good configuration visits them
(memtable, immutables newest first, L0 newest first, ingest buffer in arrival order, main tables).
Invariant `Inv s w`:
* `same`  — `pick q (flat s) = pick q w` for every query (`w` = write log, newest first);
* `ne`    — L0 and ingest tables are non-empty;
* `ord`   — the main tables are non-empty with strictly increasing, disjoint user-key ranges;
* `dom`   — a main table that an ingest-keep merge consumed (`dead`: gone at the next reopen) is
            dominated by the sources above the main tables.
-/
import NoKVModel.Lsm.MainLemmas

namespace NoKV.Lsm

/-- memtables and L0, in visiting order -/
def pre (s : St) : List Entry := (s.mem :: s.imms).flatten ++ s.l0.flatten
/-- everything above the main tables -/
def upper (s : St) : List Entry := pre s ++ s.ing.flatten
def flat (s : St) : List Entry := upper s ++ s.mainE.flatten

theorem upper_eq (s : St) :
    upper s = s.mem ++ (s.imms.flatten ++ (s.l0.flatten ++ s.ing.flatten)) := by
  simp [upper, pre, List.append_assoc]

/-! ### `get` of a good configuration is `pick` over `flat` -/

theorem get_good (c : Cfg) (hc : c.AllGood) (s : St) (q : IK) (hord : OrderedE s.mainE) :
    get c s q = pick q (flat s) := by
  obtain ⟨⟨h1, h2, h3, h4, h5, h6, -, -⟩, -, hz⟩ := hc
  have e0 : scan .lt true q (0, none) s.l0 = (accV (pick q s.l0.flatten), pick q s.l0.flatten) :=
    scan_found q s.l0 none
  have e1 : scan .lt true q (0, none) s.ing = (accV (pick q s.ing.flatten), pick q s.ing.flatten) :=
    scan_found q s.ing none
  have e2 := scan_found q (mainCandidate s.mainE (q.cf :: q.key)) (pick q s.ing.flatten)
  have hcand : pick q (mainCandidate s.mainE (q.cf :: q.key)).flatten = pick q s.mainE.flatten :=
    pick_mainCandidate (q := q) hord
  unfold get levelGet
  simp only [h1, h2, h3, h4, h5, h6, hz, immVisit, l0Visit, ingVisit, e0, e1, e2, hcand]
  rw [List.foldr_append, foldr_better_pick]
  simp only [List.foldr, better_none_right, flat, upper, pre, pick_append, better_assoc]

/-! ### the invariant -/

structure Inv (s : St) (w : List Entry) : Prop where
  same : ∀ q, pick q (flat s) = pick q w
  ne : ∀ t, t ∈ s.l0 ∨ t ∈ s.ing → t ≠ []
  ord : OrderedE s.mainE
  dom : ∀ t ∈ s.main, t.dead = true → ∀ q, rk (pick q t.ents) ≤ rk (pick q (upper s))

theorem inv_init : Inv {} [] :=
  ⟨by intro q; rfl, by intro t h; simp at h, ⟨by intro t h; simp [St.mainE] at h, by simp [St.mainE]⟩,
   by intro t h; simp at h⟩

/-- ops that leave `upper` and the main tables unchanged -/
theorem inv_of_upper_eq {s s' : St} {w : List Entry} (h : Inv s w) (hu : upper s' = upper s)
    (hm : s'.main = s.main) (hne : ∀ t, t ∈ s'.l0 ∨ t ∈ s'.ing → t ≠ []) : Inv s' w := by
  have hE : s'.mainE = s.mainE := by simp [St.mainE, hm]
  refine ⟨?_, hne, by rw [hE]; exact h.ord, ?_⟩
  · intro q; rw [flat, hu, hE]; exact h.same q
  · intro t ht hd q; rw [hu]; rw [hm] at ht; exact h.dom t ht hd q

/-! ### put -/

theorem pick_memPut (q : IK) (e : Entry) (mem r : List Entry) :
    pick q (memPut e mem ++ r) = better (mq q e) (pick q (mem ++ r)) := by
  simp only [memPut, List.cons_append, pick]
  rw [pick_append, ← better_assoc,
    filter_absorb q e.ik mem (mq q e) (by simpa [better_none_left] using domP_self none q e),
    better_assoc, ← pick_append]

theorem inv_put {s : St} {w : List Entry} (e : Entry) (h : Inv s w) :
    Inv { s with mem := memPut e s.mem } (e :: w) := by
  have hu : ∀ q, pick q (upper { s with mem := memPut e s.mem }) = better (mq q e) (pick q (upper s)) := by
    intro q
    rw [upper_eq, upper_eq]
    exact pick_memPut q e s.mem _
  refine ⟨?_, h.ne, h.ord, ?_⟩
  · intro q
    have : flat { s with mem := memPut e s.mem }
        = memPut e s.mem ++ ((s.imms.flatten ++ (s.l0.flatten ++ s.ing.flatten)) ++ s.mainE.flatten) := by
      simp [flat, upper_eq, St.mainE, List.append_assoc]
    rw [this, pick_memPut]
    have h2 : s.mem ++ ((s.imms.flatten ++ (s.l0.flatten ++ s.ing.flatten)) ++ s.mainE.flatten) = flat s := by
      simp [flat, upper_eq, List.append_assoc]
    rw [h2, h.same q]
    rfl
  · intro t ht hd q
    rw [hu q, rk_better]
    have := h.dom t ht hd q
    omega

/-! ### rotate, flush, L0→ingest move -/

theorem upper_rotate (s : St) : upper (rotate s) = upper s := by
  simp [upper, pre, rotate]

theorem upper_flush (s : St) : upper (flush s) = upper s := by
  unfold flush
  split
  · rfl
  · rename_i t r h
    have himms : s.imms = r.reverse ++ [t] := by
      have := congrArg List.reverse h
      simpa using this
    have htake : s.imms.take (s.imms.length - 1) = r.reverse := by
      rw [himms]; simp
    simp only [htake]
    split
    · rename_i ht
      subst ht
      simp [upper, pre, himms]
    · simp [upper, pre, himms, List.append_assoc]

theorem flush_main (s : St) : (flush s).main = s.main := by
  unfold flush
  split
  · rfl
  · split <;> rfl

theorem flush_ne {s : St} (h : ∀ t, t ∈ s.l0 ∨ t ∈ s.ing → t ≠ []) :
    ∀ t, t ∈ (flush s).l0 ∨ t ∈ (flush s).ing → t ≠ [] := by
  unfold flush
  split
  · exact h
  · split
    · exact h
    · rename_i hne
      intro t ht
      rcases ht with ht | ht
      · rcases List.mem_cons.mp ht with ht | ht
        · subst ht; exact hne
        · exact h t (Or.inl ht)
      · exact h t (Or.inr ht)

theorem upper_l0moveAt (k : Nat) (s : St) : upper (l0moveAt k s) = upper s := by
  simp only [upper, pre, l0moveAt, List.flatten_append, List.append_assoc]
  rw [← List.append_assoc (List.flatten (List.take _ _)), ← List.flatten_append, List.take_append_drop]

theorem l0move_cases (c : Cfg) (s : St) :
    (l0move c s).1 = s ∨ ∃ k, (l0move c s).1 = l0moveAt k s := by
  unfold l0move
  simp only
  repeat' split
  all_goals first | exact Or.inl rfl | exact Or.inr ⟨_, rfl⟩

theorem inv_l0moveAt {s : St} {w : List Entry} (k : Nat) (h : Inv s w) : Inv (l0moveAt k s) w := by
  refine inv_of_upper_eq h (upper_l0moveAt k s) rfl ?_
  intro t ht
  simp only [l0moveAt] at ht
  rcases ht with ht | ht
  · exact h.ne t (Or.inl (List.mem_of_mem_take ht))
  · rcases List.mem_append.mp ht with ht | ht
    · exact h.ne t (Or.inl (List.mem_of_mem_drop ht))
    · exact h.ne t (Or.inr ht)

end NoKV.Lsm

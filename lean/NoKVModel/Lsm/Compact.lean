/-
Preservation of the recency invariant by close+reopen, ingest keep and ingest drain
(good configuration), then by every op, then by every op sequence.
-/
import NoKVModel.Lsm.Steps

namespace NoKV.Lsm

/-! ### reopen: dead main tables disappear -/

theorem pick_drop_dead (q : IK) (main : List MTab) : ∀ (u : Option Entry),
    (∀ t ∈ main, t.dead = true → rk (pick q t.ents) ≤ rk u) →
    better u (pick q (main.map (·.ents)).flatten)
      = better u (pick q ((main.filter (fun t => !t.dead)).map (·.ents)).flatten) := by
  induction main with
  | nil => intro u _; rfl
  | cons t ts ih =>
    intro u hd
    have hts : ∀ u', rk u ≤ rk u' → ∀ t' ∈ ts, t'.dead = true → rk (pick q t'.ents) ≤ rk u' := by
      intro u' hu t' ht' hdead
      have := hd t' (List.mem_cons_of_mem _ ht') hdead
      omega
    simp only [List.map_cons, List.flatten_cons, pick_append]
    by_cases hdead : t.dead = true
    · have h1 : better u (pick q t.ents) = u := better_absorb (hd t List.mem_cons_self hdead)
      rw [← better_assoc, h1, ih u (hts u (Nat.le_refl _))]
      simp [List.filter, hdead]
    · have hf : (t :: ts).filter (fun t => !t.dead) = t :: ts.filter (fun t => !t.dead) := by
        simp [List.filter, hdead]
      rw [hf]
      simp only [List.map_cons, List.flatten_cons, pick_append]
      rw [← better_assoc, ← better_assoc]
      apply ih
      apply hts
      rw [rk_better]; omega

theorem flatten_filter_ne_nil (l : List Src) :
    (l.filter (fun t => !decide (t = []))).flatten = l.flatten := by
  induction l with
  | nil => rfl
  | cons t l ih =>
    by_cases h : t = []
    · subst h; simpa [List.filter_cons] using ih
    · simp [List.filter_cons, h, ih]

theorem upper_reopen (s : St) : upper (reopen s) = upper s := by
  simp [upper, pre, reopen, flatten_filter_ne_nil, List.append_assoc]

theorem orderedE_sublist {a b : List Src} (hs : a.Sublist b) (h : OrderedE b) : OrderedE a :=
  ⟨fun t ht => h.1 t (hs.subset ht), h.2.sublist hs⟩

theorem inv_reopen {s : St} {w : List Entry} (h : Inv s w) : Inv (reopen s) w := by
  have hu := upper_reopen s
  refine ⟨?_, ?_, ?_, ?_⟩
  · intro q
    rw [← h.same q]
    simp only [flat, hu, pick_append]
    exact (pick_drop_dead q s.main (pick q (upper s)) (fun t ht hd => h.dom t ht hd q)).symm
  · intro t ht
    simp only [reopen] at ht
    rcases ht with ht | ht
    · rcases List.mem_append.mp ht with ht | ht
      · have := (List.mem_filter.mp ht).2
        simpa using this
      · exact h.ne t (Or.inl ht)
    · exact h.ne t (Or.inr ht)
  · exact orderedE_sublist (List.Sublist.map _ List.filter_sublist) h.ord
  · intro t ht hd
    simp only [reopen] at ht
    have := (List.mem_filter.mp ht).2
    simp [hd] at this

/-! ### what the ingest plan selects under the good configuration -/

theorem rangeOf_bounds : ∀ (ts : List Src) (lo hi : Bytes), rangeOf ts = some (lo, hi) →
    ∀ t ∈ ts, ∀ e ∈ t, Bytes.le lo e.uk = true ∧ Bytes.le e.uk hi = true := by
  intro ts
  induction ts with
  | nil => intro lo hi h; simp [rangeOf] at h
  | cons x ts ih =>
    intro lo hi h t ht e he
    simp only [rangeOf] at h
    cases hr : rangeOf ts with
    | none =>
      rw [hr] at h
      simp only [Option.some.injEq, Prod.mk.injEq] at h
      obtain ⟨rfl, rfl⟩ := h
      have hts : ts = [] := by
        cases ts with
        | nil => rfl
        | cons y ys =>
          simp only [rangeOf] at hr
          cases h2 : rangeOf ys <;> simp [h2] at hr
      subst hts
      simp at ht
      subst ht
      exact ⟨minUk_le he, le_maxUk he⟩
    | some p =>
      obtain ⟨lo', hi'⟩ := p
      rw [hr] at h
      simp only [Option.some.injEq, Prod.mk.injEq] at h
      obtain ⟨rfl, rfl⟩ := h
      have hlo : Bytes.le (if Bytes.lt (minUk x) lo' = true then minUk x else lo') lo' = true := by
        split
        · rename_i h1; exact Bytes.le_of_lt h1
        · exact Bytes.le_refl _
      have hlo2 : Bytes.le (if Bytes.lt (minUk x) lo' = true then minUk x else lo') (minUk x) = true := by
        split
        · exact Bytes.le_refl _
        · rename_i h1
          exact Bytes.not_lt_iff_le.mp (by simpa using h1)
      have hhi : Bytes.le hi' (if Bytes.lt hi' (maxUk x) = true then maxUk x else hi') = true := by
        split
        · rename_i h1; exact Bytes.le_of_lt h1
        · exact Bytes.le_refl _
      have hhi2 : Bytes.le (maxUk x) (if Bytes.lt hi' (maxUk x) = true then maxUk x else hi') = true := by
        split
        · exact Bytes.le_refl _
        · rename_i h1
          exact Bytes.not_lt_iff_le.mp (by simpa using h1)
      rcases List.mem_cons.mp ht with ht | ht
      · subst ht
        exact ⟨Bytes.le_trans hlo2 (minUk_le he), Bytes.le_trans (le_maxUk he) hhi2⟩
      · obtain ⟨h1, h2⟩ := ih lo' hi' hr t ht e he
        exact ⟨Bytes.le_trans hlo h1, Bytes.le_trans h2 hhi⟩

theorem rangeOf_ne_nil {ts : List Src} {r : Bytes × Bytes} (h : rangeOf ts = some r) : ts ≠ [] := by
  intro hts; subst hts; simp [rangeOf] at h

/-- the facts about an ingest plan the preservation lemmas use -/
structure PlanFacts (c : Cfg) (s : St) (p : IngPlan) (lo hi : Bytes) : Prop where
  ing_eq : s.ing = p.rest ++ topOrder c p.top
  top_ne : topOrder c p.top ≠ []
  lr : p.left ≤ p.right
  bot_eq : p.bot = (s.mainE.drop p.left).take (p.right - p.left)
  top_in : ∀ t ∈ topOrder c p.top, ∀ e ∈ t, Bytes.le lo e.uk = true ∧ Bytes.le e.uk hi = true
  below : ∀ t ∈ s.mainE.take p.left, ∀ e ∈ t, Bytes.lt e.uk lo = true
  above : ∀ t ∈ s.mainE.drop p.right, ∀ e ∈ t, Bytes.lt hi e.uk = true

theorem planFacts {c : Cfg} (hc : c.AllGood) {s : St} (hord : OrderedE s.mainE) {p : IngPlan}
    (h : ingPlan c s = .ok p) : ∃ lo hi, PlanFacts c s p lo hi := by
  obtain ⟨⟨-, -, -, -, hio, -, -, hto⟩, hov, -⟩ := hc
  unfold ingPlan at h
  simp only [ingTop, hio] at h
  split at h
  · cases h
  · rename_i lo hi hr
    split at h
    · cases h
    · split at h
      · cases h
      · rename_i l r ho
        split at h
        · cases h
        · simp only [Except.ok.injEq] at h
          subst h
          obtain ⟨hlr, hrn, hbelow, habove⟩ := overlapping_spec hov hord ho
          have htop : topOrder c ((s.ing.drop (s.ing.length - batch)).reverse)
              = s.ing.drop (s.ing.length - batch) := by
            simp [topOrder, hto]
          refine ⟨lo, hi, ⟨?_, ?_, hlr, rfl, ?_, ?_, ?_⟩⟩
          · simp only [htop]; exact (List.take_append_drop _ _).symm
          · simp only [htop]
            intro hnil
            have := rangeOf_ne_nil hr
            simp [hnil] at this
          · simp only [htop]
            intro t ht e he
            exact rangeOf_bounds _ lo hi hr t (by simpa using ht) e he
          · intro t ht e he
            dsimp only at ht
            obtain ⟨i, hi', hn⟩ := mem_nth ht
            have hil : i < l := by
              have := List.length_take_le l s.mainE
              omega
            rw [nth_take hil] at hn
            have h1 := hbelow i hil
            rw [hn] at h1
            exact Bytes.lt_of_le_of_lt (le_maxUk he) h1
          · intro t ht e he
            dsimp only at ht
            obtain ⟨i, hi', hn⟩ := mem_nth ht
            rw [nth_drop] at hn
            have hlen : r + i < s.mainE.length := by
              simp only [List.length_drop] at hi'
              omega
            have h1 := habove (r + i) (by omega) hlen
            rw [hn] at h1
            exact Bytes.lt_of_lt_of_le h1 (minUk_le he)

end NoKV.Lsm

/-
E-LSM: executable model of the NoKV read path and of the maintenance operations that move
entries between sources (memtable → immutables → L0 → ingest buffer of the base level → main
tables of the base level).  Core Lean only.

What is modelled (anchors in /repo):
* `lsm/lsm.go:Get`, `GetMemTables`, `Rotate/rotateLocked`, flush worker + `levels.go:flush`
* `lsm/levels.go:levelManager.Get`, `levelHandler.Get`, `searchL0SST`, `searchLNSST`,
  `getTableForKey`, `sortTablesLocked`, `replaceTables`
* `lsm/ingest.go:ingestBuffer.search`, `rebuildRanges`, `sortShards`, `addBatch`
* `lsm/table.go:Search` (seek + `*maxVs < version`), `MaxVersionVal` pruning
* `lsm/executor.go:doCompact` for L0→ingest (`fillTablesL0ToLbase` + `moveToIngest`),
  ingest drain / ingest keep (`fillTablesIngestShard` + `runCompactDef` + `compactBuildTables`)
* `lsm/compact/plan_builder.go:PlanForL0ToLbase`, `PlanForIngestShard`, `OverlappingTables`
* `lsm/iterator.go:MergeIterator.fix` (which side survives on equal internal keys)
* `lsm/memtable.go:recovery` (reopen)
* `db.go:setEntry/SetVersionedEntry` key-length handling, `GetCF` tombstone mapping

Abstractions (tied by the correspondence run, not proved): a memtable / SST is a duplicate-free
association list keyed by the internal key (cf, user key, version) — its internal order, blocks,
bloom filters and the skiplist/ART/SST seek are represented by `seek` = "greatest version ≤ the
requested one for that user key"; tables are small enough that every compaction writes exactly one
output table; the data stays below `BaseLevelSize`, so the base level is the last level and
L1..L5 stay empty (the harness checks this on every shape dump).
-/
import NoKVModel.Base.Bytes
import NoKVModel.Base.Cfg

namespace NoKV.Lsm

inductive Dir where | oldestFirst | newestFirst deriving DecidableEq, Repr
inductive Pick where | firstHit | maxVersion deriving DecidableEq, Repr
inductive LevelOrder where | ingestFirst | mainFirst deriving DecidableEq, Repr
inductive IngestOrder where | minKeyDesc | recency deriving DecidableEq, Repr
inductive Side where | left | right deriving DecidableEq, Repr
inductive TopOrder where | reversed | forward deriving DecidableEq, Repr
inductive BoundKey where | maxKey | minKey deriving DecidableEq, Repr

/-- Decisions read off the Go source by `extract/cmd/lsm`. -/
structure Cfg where
  /-- `searchL0SST` loop direction over `lh.tables` (sorted by file id). -/
  l0SearchDir : Dir
  /-- operator of `*maxVs < version` in `table.Search` (`lt`: the first table visited wins ties). -/
  tieRule : CmpOp
  /-- `LSM.Get` / `levelManager.Get`: return at the first source that has any version, or keep the
      greatest version over all sources. -/
  crossPick : Pick
  /-- `levelHandler.Get`: ingest buffer searched before the main tables (sharing `maxVer`). -/
  levelOrder : LevelOrder
  /-- order of the ingest buffer's tables (`rebuildRanges`/`sortShards`/`search`). -/
  ingestOrder : IngestOrder
  /-- `GetMemTables`: order of the immutables. -/
  immOrder : Dir
  /-- `MergeIterator.fix`: which side is kept when both iterators are at the same internal key. -/
  mergeKeeps : Side
  /-- `compactBuildTables`: top tables handed to the merge iterator reversed or not. -/
  compactTopOrder : TopOrder
  /-- `OverlappingTables`: key of the next-level table compared with the right bound. -/
  overlapRightKey : BoundKey
  /-- plain API rejects keys longer than `maxKeySize`. -/
  plainKeyLimit : Bool
  /-- a table hit is accepted when nothing was found yet, whatever its version.  As-is (`false`):
      `table.Search` accepts only `*maxVs < version` with `maxVs` starting at 0 (and tables are
      pruned on `MaxVersionVal() <= 0`), so an entry of version 0 is never found in an SST. -/
  zeroVersionFound : Bool
  deriving DecidableEq, Repr

def Cfg.good : Cfg :=
  { l0SearchDir := .newestFirst, tieRule := .lt, crossPick := .maxVersion, levelOrder := .ingestFirst,
    ingestOrder := .recency, immOrder := .newestFirst, mergeKeeps := .left,
    compactTopOrder := .reversed, overlapRightKey := .minKey, plainKeyLimit := true,
    zeroVersionFound := true }

/-- The configuration of the originally pinned tree. -/
def Cfg.asis : Cfg :=
  { Cfg.good with l0SearchDir := .oldestFirst, crossPick := .firstHit, ingestOrder := .minKeyDesc,
                  overlapRightKey := .maxKey, plainKeyLimit := false, zeroVersionFound := false }

/-- The read-path decisions the recency argument needs. -/
def Cfg.ReadGood (c : Cfg) : Prop :=
  c.l0SearchDir = .newestFirst ∧ c.tieRule = .lt ∧ c.crossPick = .maxVersion ∧
  c.levelOrder = .ingestFirst ∧ c.ingestOrder = .recency ∧ c.immOrder = .newestFirst ∧
  c.mergeKeeps = .left ∧ c.compactTopOrder = .reversed

/-- everything the refinement theorems over all modelled ops need: the read-path decisions, the
    planner's overlap rule and version-0 hits -/
def Cfg.AllGood (c : Cfg) : Prop :=
  c.ReadGood ∧ c.overlapRightKey = .minKey ∧ c.zeroVersionFound = true

instance Cfg.decReadGood (c : Cfg) : Decidable c.ReadGood := by unfold Cfg.ReadGood; exact inferInstance
instance Cfg.decAllGood (c : Cfg) : Decidable c.AllGood := by unfold Cfg.AllGood; exact inferInstance

def Cfg.Good (c : Cfg) : Prop := c = Cfg.good
instance Cfg.decGood (c : Cfg) : Decidable c.Good := by unfold Cfg.Good; exact inferInstance

/-! ## entries, queries, the order on internal keys -/

structure IK where
  cf : Nat
  key : Bytes
  ver : Nat
  deriving DecidableEq, Repr

structure Entry where
  cf : Nat
  key : Bytes
  ver : Nat
  val : Bytes
  del : Bool
  deriving DecidableEq, Repr

def Entry.ik (e : Entry) : IK := ⟨e.cf, e.key, e.ver⟩
/-- column-family marker + user key, the part `CompareUserKeys` looks at -/
def Entry.uk (e : Entry) : Bytes := e.cf :: e.key

abbrev Src := List Entry

/-- `utils.CompareKeys a b < 0` on internal keys (user part ascending, version descending) -/
def ikLt (a b : Entry) : Bool :=
  Bytes.lt a.uk b.uk || (a.uk == b.uk && b.ver < a.ver)

/-- does `e` answer the query `(cf, key, ≤ ver)`? -/
def mq (q : IK) (e : Entry) : Option Entry :=
  if e.cf = q.cf ∧ e.key = q.key ∧ e.ver ≤ q.ver then some e else none

/-- greatest version wins, the earlier argument wins ties -/
def better : Option Entry → Option Entry → Option Entry
  | none, b => b
  | some a, none => some a
  | some a, some b => if a.ver < b.ver then some b else some a

/-- the answer of a list of entries that is ordered newest first -/
def pick (q : IK) : List Entry → Option Entry
  | [] => none
  | e :: l => better (mq q e) (pick q l)

/-- seek inside one source (memtable or SST) -/
abbrev seek (q : IK) (t : Src) : Option Entry := pick q t

def tmax : Src → Nat
  | [] => 0
  | e :: l => max e.ver (tmax l)

def minEnt : Src → Option Entry
  | [] => none
  | e :: l => match minEnt l with
    | none => some e
    | some m => if ikLt e m then some e else some m

def maxEnt : Src → Option Entry
  | [] => none
  | e :: l => match maxEnt l with
    | none => some e
    | some m => if ikLt m e then some e else some m

def minUk (t : Src) : Bytes := match minEnt t with | some e => e.uk | none => []
def maxUk (t : Src) : Bytes := match maxEnt t with | some e => e.uk | none => []

/-- `CompareKeys(a.MinKey(), b.MinKey()) < 0` -/
def minLt (a b : Src) : Bool :=
  match minEnt a, minEnt b with
  | some x, some y => ikLt x y
  | _, _ => false

/-- stable insertion (what `sort.Slice` does below 12 elements): `x` goes before the first
    element that is strictly greater -/
def insertStable {α : Type} (lt : α → α → Bool) (x : α) : List α → List α
  | [] => [x]
  | y :: ys => if lt x y then x :: y :: ys else y :: insertStable lt x ys

def sortStable {α : Type} (lt : α → α → Bool) (l : List α) : List α :=
  l.foldl (fun acc x => insertStable lt x acc) []

/-- tag every element with its position -/
def tagFrom {α : Type} : Nat → List α → List (α × Nat)
  | _, [] => []
  | i, x :: xs => (x, i) :: tagFrom (i + 1) xs

/-! ## state -/

/-- a main table; `dead` = an ingest-keep merge consumed it as a bottom table: it is deleted in the
    manifest but stays in `lh.tables` (and is searched) until the next reopen -/
structure MTab where
  ents : Src
  dead : Bool := false
  deriving DecidableEq, Repr

structure St where
  mem : Src := []
  /-- sealed memtables, newest first -/
  imms : List Src := []
  /-- L0 tables, newest (largest file id) first -/
  l0 : List Src := []
  /-- ingest buffer of the base level, most recently added first -/
  ing : List Src := []
  /-- main tables of the base level in `lh.tables` order -/
  main : List MTab := []
  /-- key ranges that `compact.State` still holds at the base level: a same-level compaction
      registers `ThisRange` and `NextRange` there but `State.Delete` removes only `ThisRange` -/
  stale : List (Bytes × Bytes) := []
  deriving Repr

/-- the main tables' contents, in `lh.tables` order -/
def St.mainE (s : St) : List Src := s.main.map (·.ents)

/-! ## read path -/

/-- one `table.Search` call inside a max-version scan: `MaxVersionVal` pruning, seek, tie rule -/
def scan (op : CmpOp) (zf : Bool) (q : IK) : Nat × Option Entry → List Src → Nat × Option Entry
  | acc, [] => acc
  | (cur, best), t :: ts =>
    if (zf = false ∨ best ≠ none) ∧ tmax t ≤ cur then scan op zf q (cur, best) ts
    else match seek q t with
      | some e =>
        if (zf = true ∧ best = none) ∨ op.nat cur e.ver = true then scan op zf q (e.ver, some e) ts
        else scan op zf q (cur, best) ts
      | none => scan op zf q (cur, best) ts

def immVisit (c : Cfg) (imms : List Src) : List Src :=
  match c.immOrder with | .newestFirst => imms | .oldestFirst => imms.reverse

def l0Visit (c : Cfg) (l0 : List Src) : List Src :=
  match c.l0SearchDir with | .newestFirst => l0 | .oldestFirst => l0.reverse

/-- `sh.tables` order of the ingest buffer under the min-key ordering (what the planner slices
    and `search` walks backwards), every table tagged with its position in arrival order -/
def ingSorted (ing : List Src) : List (Src × Nat) :=
  sortStable (fun a b => minLt a.1 b.1) (tagFrom 0 ing.reverse)

def ingVisit (c : Cfg) (ing : List Src) : List Src :=
  match c.ingestOrder with
  | .recency => ing
  | .minKeyDesc => ((ingSorted ing).map (·.1)).reverse

/-- Go's `sort.Search` -/
def goSearch (f : Nat → Bool) : Nat → Nat → Nat → Nat
  | 0, i, _ => i
  | fuel + 1, i, j =>
    if i < j then
      let h := (i + j) / 2
      if f h then goSearch f fuel i h else goSearch f fuel (h + 1) j
    else i

def nth (l : List Src) (i : Nat) : Src := l.getD i []

/-- `getTableForKey` -/
def mainCandidate (main : List Src) (uk : Bytes) : List Src :=
  match main with
  | [] => []
  | first :: _ =>
    let last := nth main (main.length - 1)
    if Bytes.lt uk (minUk first) || Bytes.lt (maxUk last) uk then []
    else
      let idx := goSearch (fun i => !Bytes.lt (maxUk (nth main i)) uk) (main.length + 1) 0 main.length
      if idx ≥ main.length then []
      else if Bytes.lt uk (minUk (nth main idx)) then [] else [nth main idx]

def levelGet (c : Cfg) (s : St) (q : IK) : Option Entry :=
  let ingL := ingVisit c s.ing
  let mainL := mainCandidate s.mainE (q.cf :: q.key)
  let zf := c.zeroVersionFound
  match c.levelOrder with
  | .ingestFirst => (scan c.tieRule zf q (scan c.tieRule zf q (0, none) ingL) mainL).2
  | .mainFirst => (scan c.tieRule zf q (scan c.tieRule zf q (0, none) mainL) ingL).2

def firstSome : List (Option Entry) → Option Entry
  | [] => none
  | some e :: _ => some e
  | none :: l => firstSome l

def get (c : Cfg) (s : St) (q : IK) : Option Entry :=
  let ms := (s.mem :: immVisit c s.imms).map (seek q)
  let l0r := (scan c.tieRule c.zeroVersionFound q (0, none) (l0Visit c s.l0)).2
  let lvr := levelGet c s q
  match c.crossPick with
  | .firstHit => firstSome (ms ++ [l0r, lvr])
  | .maxVersion => (ms ++ [l0r, lvr]).foldr better none

/-! ## writes and maintenance -/

/-- memtable insert: overwrite in place -/
def memPut (e : Entry) (mem : Src) : Src := e :: mem.filter (fun x => x.ik ≠ e.ik)

/-- keep the first occurrence of every internal key -/
def dedupGo (seen : List IK) : List Entry → List Entry
  | [] => []
  | e :: l => if e.ik ∈ seen then dedupGo seen l else e :: dedupGo (e.ik :: seen) l

def dedup (l : List Entry) : List Entry := dedupGo [] l

/-- the merge iterator over `srcs` (earlier = left): one entry per internal key -/
def mergeTables (c : Cfg) (srcs : List Src) : Src :=
  match c.mergeKeeps with
  | .left => dedup srcs.flatten
  | .right => (dedup srcs.reverse.flatten)

def ukOverlap (aMin aMax bMin bMax : Bytes) : Bool :=
  !(Bytes.lt bMax aMin) && !(Bytes.lt aMax bMin)

/-- `PlanForL0ToLbase`: how many of the oldest L0 tables are taken (cumulative range overlap) -/
def l0PickCount : Option (Bytes × Bytes) → List Src → Nat
  | _, [] => 0
  | none, t :: ts => 1 + l0PickCount (some (minUk t, maxUk t)) ts
  | some (lo, hi), t :: ts =>
    if ukOverlap lo hi (minUk t) (maxUk t) then
      1 + l0PickCount (some (if Bytes.lt (minUk t) lo then minUk t else lo,
                             if Bytes.lt hi (maxUk t) then maxUk t else hi)) ts
    else 0

def rotate (s : St) : St := { s with mem := [], imms := s.mem :: s.imms }

def flush (s : St) : St :=
  match s.imms.reverse with
  | [] => s
  | t :: _ =>
    let rest := s.imms.take (s.imms.length - 1)
    if t = [] then { s with imms := rest } else { s with imms := rest, l0 := t :: s.l0 }

def rangeOf : List Src → Option (Bytes × Bytes)
  | [] => none
  | t :: ts => match rangeOf ts with
    | none => some (minUk t, maxUk t)
    | some (lo, hi) => some (if Bytes.lt (minUk t) lo then minUk t else lo,
                             if Bytes.lt hi (maxUk t) then maxUk t else hi)

def staleHits (s : St) : Option (Bytes × Bytes) → Bool
  | none => false
  | some (lo, hi) => s.stale.any (fun r => ukOverlap r.1 r.2 lo hi)

/-- `OverlappingTables(main, [lo, hi])`: `none` = the slice `next[left:right]` would panic -/
def overlapping (c : Cfg) (main : List Src) (lo hi : Bytes) : Option (Nat × Nat) :=
  let n := main.length
  let left := goSearch (fun i => !Bytes.lt (maxUk (nth main i)) lo) (n + 1) 0 n
  let right := match c.overlapRightKey with
    | .maxKey => goSearch (fun i => Bytes.lt hi (maxUk (nth main i))) (n + 1) 0 n
    | .minKey => goSearch (fun i => Bytes.lt hi (minUk (nth main i))) (n + 1) 0 n
  if right < left then none else some (left, right)

inductive Outcome where | done | nothing | panic deriving DecidableEq, Repr

/-- move the `k` oldest L0 tables to the front of the ingest buffer -/
def l0moveAt (k : Nat) (s : St) : St :=
  let n := s.l0.length - k
  { s with l0 := s.l0.take n, ing := s.l0.drop n ++ s.ing }

/-- `fillTablesL0ToLbase` + `moveToIngest` (the bottom tables only matter for the plan's
    conflict check against `compact.State`) -/
def l0move (c : Cfg) (s : St) : St × Outcome :=
  let k := l0PickCount none s.l0.reverse
  if k = 0 then (s, .nothing) else
  match rangeOf (s.l0.drop (s.l0.length - k)) with
  | none => (s, .nothing)
  | some (lo, hi) =>
    match overlapping c s.mainE lo hi with
    | none => (s, .panic)
    | some (left, right) =>
      let bot := (s.mainE.drop left).take (right - left)
      -- `CompareAndAdd` checks NextRange (= the bottom tables' range, or ThisRange without any)
      let nextR := if bot = [] then some (lo, hi) else rangeOf bot
      if staleHits s nextR then (s, .nothing) else (l0moveAt k s, .done)

/-- ingest batch size the harness configures (`Options.IngestCompactBatchSize`) -/
def batch : Nat := 2

def topOrder (c : Cfg) (top : List Src) : List Src :=
  match c.compactTopOrder with | .reversed => top.reverse | .forward => top

/-- drop the tables whose arrival position is in `idx` (`ing` is newest-arrival first) -/
def removeIdx (idx : List Nat) (ing : List Src) : List Src :=
  (((tagFrom 0 ing.reverse).filter (fun p => !idx.contains p.2)).map (·.1)).reverse

/-- the tables `PlanForIngestShard` takes (first `batch` of `sh.tables`), in `sh.tables` order,
    and the ingest buffer without them -/
def ingTop (c : Cfg) (ing : List Src) : List Src × List Src :=
  match c.ingestOrder with
  | .recency => ((ing.drop (ing.length - batch)).reverse, ing.take (ing.length - batch))
  | .minKeyDesc =>
    let top := (ingSorted ing).take batch
    (top.map (·.1), removeIdx (top.map (·.2)) ing)

structure IngPlan where
  top : List Src
  rest : List Src
  left : Nat
  right : Nat
  bot : List Src

/-- `fillTablesIngestShard` / `PlanForIngestShard` -/
def ingPlan (c : Cfg) (s : St) : Except Outcome IngPlan :=
  let (top, rest) := ingTop c s.ing
  match rangeOf top with
  | none => .error .nothing
  | some (lo, hi) =>
    if staleHits s (some (lo, hi)) then .error .nothing else
    match overlapping c s.mainE lo hi with
    | none => .error .panic
    | some (left, right) =>
      let bot := (s.mainE.drop left).take (right - left)
      if bot ≠ [] ∧ staleHits s (rangeOf bot) then .error .nothing
      else .ok ⟨top, rest, left, right, bot⟩

/-- `State.Delete` removes every registered range equal to `ThisRange`; `NextRange` (the bottom
    tables' range) therefore leaks only when it differs from the top tables' range -/
def addStale (s : St) (top bot : List Src) : List (Bytes × Bytes) :=
  match rangeOf bot with
  | some r => if rangeOf top = some r then s.stale else r :: s.stale
  | none => s.stale

/-- ingest-keep: merge the first `batch` tables of the shard (and the main tables the plan
    selected as bottom) into one new ingest table; the bottom tables are deleted in the manifest
    but stay listed in memory (`dead`) -/
def keep (c : Cfg) (s : St) : St × Outcome :=
  match ingPlan c s with
  | .error o => (s, o)
  | .ok p =>
    let merged := mergeTables c (topOrder c p.top ++ [p.bot.flatten])
    let ing' := match c.ingestOrder with
      | .recency => p.rest ++ [merged]
      | .minKeyDesc => merged :: p.rest
    let main' := s.main.take p.left
      ++ ((s.main.drop p.left).take (p.right - p.left)).map (fun t => { t with dead := true })
      ++ s.main.drop p.right
    ({ s with ing := ing', main := main', stale := addStale s p.top p.bot }, .done)

/-- ingest-drain: merge them into one new main table that replaces the bottom tables -/
def drain (c : Cfg) (s : St) : St × Outcome :=
  match ingPlan c s with
  | .error o => (s, o)
  | .ok p =>
    let merged := mergeTables c (topOrder c p.top ++ [p.bot.flatten])
    ({ s with ing := p.rest,
              main := sortStable (fun a b => minLt a.ents b.ents)
                        (s.main.take p.left ++ s.main.drop p.right ++ [⟨merged, false⟩]),
              stale := addStale s p.top p.bot }, .done)

/-- close + open: every WAL segment becomes a memtable again (`recovery`; an empty arena still has
    a non-zero `MemSize`, so none is skipped), the newest stays active and the others are flushed
    oldest first (an empty one yields no table); level lists are rebuilt from the manifest (dead
    main tables are gone) and sorted; `compact.State` starts empty -/
def reopen (s : St) : St :=
  { s with imms := [], l0 := s.imms.filter (fun t => t ≠ []) ++ s.l0,
           main := s.main.filter (fun t => !t.dead), stale := [] }

/-! ## plain / versioned API on top -/

def maxVersion : Nat := 18446744073709551615
def maxKeySize : Nat := 65000

def be8 (b : Bytes) : Nat := b.foldl (fun acc x => acc * 256 + x) 0

/-- what both memtable engines store for a key whose internal form is 65536 bytes or longer:
    the length is kept in a `uint16`, so only a prefix of the internal key survives; its last
    eight bytes are then read as the version -/
def truncated (cf : Nat) (key : Bytes) : Option (Nat × Bytes × Nat) :=
  let n := 4 + key.length + 8
  if n < 65536 then none else
  let l := n % 65536
  if l < 12 ∨ l > 4 + key.length then none   -- (not reachable with keys below 131060 bytes)
  else some (cf, key.take (l - 12), maxVersion - be8 ((key.drop (l - 12)).take 8))

inductive WriteRes where | ok | emptyKey | tooBig | unsupported deriving DecidableEq, Repr

def write (c : Cfg) (s : St) (e : Entry) : St × WriteRes :=
  if e.key = [] then (s, .emptyKey)
  else if c.plainKeyLimit ∧ e.key.length > maxKeySize then (s, .tooBig)
  else if 4 + e.key.length + 8 < 65536 then ({ s with mem := memPut e s.mem }, .ok)
  else match truncated e.cf e.key with
    | some (cf, k, v) => ({ s with mem := memPut { e with cf := cf, key := k, ver := v } s.mem }, .ok)
    | none => (s, .unsupported)

/-- `DB.GetCF` -/
def getPlain (c : Cfg) (s : St) (cf : Nat) (key : Bytes) : Option Bytes :=
  match get c s ⟨cf, key, maxVersion⟩ with
  | some e => if e.del then none else some e.val
  | none => none

/-! ## op sequences (for the theorems) -/

inductive Op where
  | put (e : Entry)
  | rotate | flush | l0move | keep | drain | reopen
  deriving DecidableEq, Repr

def step (c : Cfg) (s : St) : Op → St
  | .put e => (write c s e).1
  | .rotate => rotate s
  | .flush => flush s
  | .l0move => (l0move c s).1
  | .keep => (keep c s).1
  | .drain => (drain c s).1
  | .reopen => reopen s

def run (c : Cfg) (s : St) (ops : List Op) : St := ops.foldl (step c) s

/-- the write log, newest first -/
def logStep (w : List Entry) : Op → List Entry
  | .put e => e :: w
  | _ => w

def logOf (w : List Entry) (ops : List Op) : List Entry := ops.foldl logStep w

end NoKV.Lsm

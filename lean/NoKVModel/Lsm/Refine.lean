/-
The refinement theorem of the LSM engine: for the good configuration and EVERY sequence of
modelled operations, `get` answers like `pick` over the write log.
-/
import NoKVModel.Lsm.Compact2

namespace NoKV.Lsm

/-- writes the API accepts and stores unchanged: non-empty key within `maxKeySize`
    (everything else is rejected by a good configuration; versions are arbitrary) -/
def Op.wf : Op → Prop
  | .put e => e.key ≠ [] ∧ e.key.length ≤ maxKeySize
  | _ => True

instance Op.decWf (op : Op) : Decidable op.wf := by
  cases op <;> simp only [Op.wf] <;> exact inferInstance

theorem write_wf (c : Cfg) (s : St) (e : Entry) (h : (Op.put e).wf) :
    (write c s e).1 = { s with mem := memPut e s.mem } := by
  obtain ⟨h1, h2⟩ := h
  unfold write
  have h3 : ¬ (c.plainKeyLimit = true ∧ e.key.length > maxKeySize) := by
    intro ⟨_, h⟩; omega
  have h4 : 4 + e.key.length + 8 < 65536 := by
    unfold maxKeySize at h2; omega
  simp [h1, h3, h4]

theorem inv_step (c : Cfg) (hc : c.AllGood) {s : St} {w : List Entry} (op : Op) (hw : op.wf)
    (h : Inv s w) : Inv (step c s op) (logStep w op) := by
  cases op with
  | put e =>
    simp only [step, logStep]
    rw [write_wf c s e hw]
    exact inv_put e h
  | rotate =>
    exact inv_of_upper_eq h (upper_rotate s) rfl (by intro t ht; exact h.ne t ht)
  | flush =>
    exact inv_of_upper_eq h (upper_flush s) (flush_main s) (flush_ne h.ne)
  | l0move =>
    simp only [step, logStep]
    rcases l0move_cases c s with h1 | ⟨k, h1⟩
    · rw [h1]; exact h
    · rw [h1]; exact inv_l0moveAt k h
  | keep => exact inv_keep hc h
  | drain => exact inv_drain hc h
  | reopen => exact inv_reopen h

theorem inv_run (c : Cfg) (hc : c.AllGood) (ops : List Op) :
    ∀ (s : St) (w : List Entry), Inv s w → (∀ op ∈ ops, op.wf) → Inv (run c s ops) (logOf w ops) := by
  induction ops with
  | nil => intro s w h _; exact h
  | cons op ops ih =>
    intro s w h hops
    simp only [run, logOf, List.foldl]
    exact ih _ _ (inv_step c hc op (hops op List.mem_cons_self) h)
      (fun o ho => hops o (List.mem_cons_of_mem _ ho))

/-- `get` refines the write log over every sequence of modelled operations -/
theorem get_refines (c : Cfg) (hc : c.AllGood) (ops : List Op) (hops : ∀ op ∈ ops, op.wf) (q : IK) :
    get c (run c {} ops) q = pick q (logOf [] ops) := by
  have h := inv_run c hc ops {} [] inv_init hops
  rw [get_good c hc _ q h.ord]
  exact h.same q

end NoKV.Lsm

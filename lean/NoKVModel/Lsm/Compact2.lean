/-
Ingest keep and ingest drain preserve the recency invariant (good configuration).
-/
import NoKVModel.Lsm.Compact

namespace NoKV.Lsm

theorem split3 {α : Type} (E : List α) {l r : Nat} (h : l ≤ r) :
    E = E.take l ++ ((E.drop l).take (r - l) ++ E.drop r) := by
  have h1 : E.drop r = (E.drop l).drop (r - l) := by
    rw [List.drop_drop]; congr 1; omega
  rw [h1, List.take_append_drop, List.take_append_drop]

theorem dedup_ne_nil {l : List Entry} (h : l ≠ []) : dedup l ≠ [] := by
  cases l with
  | nil => exact absurd rfl h
  | cons x l => simp [dedup, dedupGo]

theorem mem_dedup {l : List Entry} {e : Entry} (h : e ∈ dedup l) : e ∈ l := dedupGo_subset l [] e h

/-- entries of tables on the two sides of an ordered list never share a user key -/
theorem sep_of_pairwise {A X : List Src} (h : ∀ a ∈ A, ∀ x ∈ X, Before a x) :
    ∀ e ∈ A.flatten, ∀ e' ∈ X.flatten, e.uk ≠ e'.uk := by
  intro e he e' he'
  obtain ⟨a, ha, hea⟩ := List.mem_flatten.mp he
  obtain ⟨x, hx, hex⟩ := List.mem_flatten.mp he'
  exact SepU_of_Before (h a ha x hx) e hea e' hex

/-- a contiguous run of main tables is absorbed by the main tables themselves -/
theorem pick_segment_absorb (q : IK) (A Bo B : List Src) (h : OrderedE (A ++ (Bo ++ B))) :
    better (pick q Bo.flatten) (pick q (A ++ (Bo ++ B)).flatten) = pick q (A ++ (Bo ++ B)).flatten := by
  have hp := (List.pairwise_append.mp h.2).2.2
  have hsep := sep_of_pairwise (A := A) (X := Bo) (fun a ha x hx => hp a ha x (List.mem_append_left _ hx))
  simp only [List.flatten_append, pick_append]
  rcases pick_none_or_none (q := q) hsep with h1 | h1
  · rw [h1, better_none_left, ← better_assoc, better_idem]
  · rw [h1, better_none_left]

theorem keep_mainE (main : List MTab) {l r : Nat} (h : l ≤ r) :
    (main.take l ++ ((main.drop l).take (r - l)).map (fun t : MTab => { t with dead := true }) ++ main.drop r).map
        (fun t : MTab => t.ents)
      = main.map (fun t : MTab => t.ents) := by
  have : (((main.drop l).take (r - l)).map (fun t : MTab => ({ t with dead := true } : MTab))).map
        (fun t : MTab => t.ents)
      = ((main.drop l).take (r - l)).map (fun t : MTab => t.ents) := by
    simp [List.map_map, Function.comp_def]
  rw [List.map_append, List.map_append, this, ← List.map_append, ← List.map_append, List.append_assoc,
    ← split3 main h]

/-! ### keep -/

theorem inv_keep_core {c : Cfg} {s : St} {w : List Entry} {p : IngPlan} {lo hi : Bytes}
    (h : Inv s w) (pf : PlanFacts c s p lo hi) (M : Src)
    (hM : M = dedup ((topOrder c p.top).flatten ++ p.bot.flatten)) (st : List (Bytes × Bytes)) :
    Inv { s with ing := p.rest ++ [M],
                 main := s.main.take p.left
                   ++ ((s.main.drop p.left).take (p.right - p.left)).map (fun t => { t with dead := true })
                   ++ s.main.drop p.right,
                 stale := st } w := by
  have hE : s.mainE = s.mainE.take p.left ++ ((s.mainE.drop p.left).take (p.right - p.left) ++ s.mainE.drop p.right) :=
    split3 s.mainE pf.lr
  have hbot := pf.bot_eq
  -- the new state's main tables have the same contents
  have hmE : ∀ s' : St, s'.main = s.main.take p.left
        ++ ((s.main.drop p.left).take (p.right - p.left)).map (fun t => { t with dead := true })
        ++ s.main.drop p.right → s'.mainE = s.mainE := by
    intro s' hs'
    simp only [St.mainE, hs']
    exact keep_mainE s.main pf.lr
  have hU : ∀ q, pick q (pre s ++ (p.rest ++ [M]).flatten)
      = better (pick q (upper s)) (pick q p.bot.flatten) := by
    intro q
    simp only [upper, pf.ing_eq, List.flatten_append, pick_append, hM, pick_dedup, List.flatten_cons,
      List.flatten_nil, List.append_nil, better_assoc]
  refine ⟨?_, ?_, ?_, ?_⟩
  · intro q
    rw [← h.same q]
    show pick q ((pre s ++ (p.rest ++ [M]).flatten) ++ _) = _
    rw [hmE _ rfl, pick_append, hU q, flat, pick_append, better_assoc]
    congr 1
    rw [hbot]
    have := pick_segment_absorb q (s.mainE.take p.left) ((s.mainE.drop p.left).take (p.right - p.left))
      (s.mainE.drop p.right) (hE ▸ h.ord)
    rw [← hE] at this
    exact this
  · intro t ht
    rcases ht with ht | ht
    · exact h.ne t (Or.inl ht)
    · rcases List.mem_append.mp ht with ht | ht
      · apply h.ne t (Or.inr _)
        rw [pf.ing_eq]; exact List.mem_append_left _ ht
      · simp only [List.mem_singleton] at ht
        subst ht
        rw [hM]
        apply dedup_ne_nil
        have hne := pf.top_ne
        cases htop : topOrder c p.top with
        | nil => exact absurd htop hne
        | cons t ts =>
          have htne : t ≠ [] := by
            apply h.ne t (Or.inr _)
            rw [pf.ing_eq, htop]; simp
          cases t with
          | nil => exact absurd rfl htne
          | cons e es => simp
  · rw [hmE _ rfl]; exact h.ord
  · intro t ht hd q
    show rk (pick q t.ents) ≤ rk (pick q (pre s ++ (p.rest ++ [M]).flatten))
    rw [hU q, rk_better]
    simp only [List.mem_append] at ht
    rcases ht with (ht | ht) | ht
    · have := h.dom t (List.mem_of_mem_take ht) hd q; omega
    · obtain ⟨t0, ht0, rfl⟩ := List.mem_map.mp ht
      have hin : t0.ents ∈ p.bot := by
        rw [hbot]
        simp only [St.mainE, ← List.map_drop, ← List.map_take]
        exact List.mem_map_of_mem ht0
      have := rk_pick_le_flatten q hin
      show rk (pick q t0.ents) ≤ _
      omega
    · have := h.dom t (List.mem_of_mem_drop ht) hd q; omega

theorem inv_keep {c : Cfg} (hc : c.AllGood) {s : St} {w : List Entry} (h : Inv s w) :
    Inv (keep c s).1 w := by
  unfold keep
  cases hp : ingPlan c s with
  | error o => exact h
  | ok p =>
    obtain ⟨lo, hi, pf⟩ := planFacts hc h.ord hp
    have hmk : c.mergeKeeps = .left := hc.1.2.2.2.2.2.2.1
    have hio : c.ingestOrder = .recency := hc.1.2.2.2.2.1
    simp only [hio]
    exact inv_keep_core h pf _ (by simp [mergeTables, hmk]) _

/-! ### drain -/

/-- replacing the bottom run `Bo` by the merge output keeps the list ordered -/
theorem ordered_replace {A Bo B T : List Src} {M : Src} {lo hi : Bytes} (hMne : M ≠ [])
    (hsub : ∀ m ∈ M, (∃ t ∈ T, m ∈ t) ∨ (∃ b ∈ Bo, m ∈ b))
    (hA : ∀ a ∈ A, ∀ e ∈ a, Bytes.lt e.uk lo = true)
    (hB : ∀ b ∈ B, ∀ e ∈ b, Bytes.lt hi e.uk = true)
    (hT : ∀ t ∈ T, ∀ e ∈ t, Bytes.le lo e.uk = true ∧ Bytes.le e.uk hi = true)
    (h : OrderedE (A ++ (Bo ++ B))) : OrderedE (A ++ M :: B) := by
  obtain ⟨hne, hp⟩ := h
  obtain ⟨hpA, hpX, hAX⟩ := List.pairwise_append.mp hp
  obtain ⟨_, hpB, hBoB⟩ := List.pairwise_append.mp hpX
  refine ⟨?_, ?_⟩
  · intro t ht
    rcases List.mem_append.mp ht with ht | ht
    · exact hne t (List.mem_append_left _ ht)
    · rcases List.mem_cons.mp ht with ht | ht
      · subst ht; exact hMne
      · exact hne t (List.mem_append_right _ (List.mem_append_right _ ht))
  · rw [List.pairwise_append]
    refine ⟨hpA, List.pairwise_cons.mpr ⟨?_, hpB⟩, ?_⟩
    · -- M before every b ∈ B
      intro b hb
      have hbne : b ≠ [] := hne b (List.mem_append_right _ (List.mem_append_right _ hb))
      obtain ⟨m, hm, hmu⟩ := maxUk_attained hMne
      obtain ⟨eb, heb, hebu⟩ := minUk_attained hbne
      unfold Before
      rw [← hmu]
      rcases hsub m hm with ⟨t, ht, hmt⟩ | ⟨bo, hbo, hmbo⟩
      · rw [← hebu]
        exact Bytes.lt_of_le_of_lt (hT t ht m hmt).2 (hB b hb eb heb)
      · exact Bytes.lt_of_le_of_lt (le_maxUk hmbo) (hBoB bo hbo b hb)
    · intro a ha x hx
      rcases List.mem_cons.mp hx with hx | hx
      · subst hx
        have hane : a ≠ [] := hne a (List.mem_append_left _ ha)
        obtain ⟨m, hm, hmu⟩ := minUk_attained hMne
        obtain ⟨ea, hea, heau⟩ := maxUk_attained hane
        unfold Before
        rw [← hmu]
        rcases hsub m hm with ⟨t, ht, hmt⟩ | ⟨bo, hbo, hmbo⟩
        · rw [← heau]
          exact Bytes.lt_of_lt_of_le (hA a ha ea hea) (hT t ht m hmt).1
        · exact Bytes.lt_of_lt_of_le (hAX a ha bo (List.mem_append_left _ hbo)) (minUk_le hmbo)
      · exact hAX a ha x (List.mem_append_right _ hx)

/-- a sorted permutation of an ordered list of main tables is ordered -/
theorem ordered_of_perm_sorted {L L0 : List MTab} (h0 : OrderedE (L0.map (·.ents))) (hp : L.Perm L0)
    (hs : SortedBy (fun a b : MTab => minLt a.ents b.ents) L) : OrderedE (L.map (·.ents)) := by
  obtain ⟨hne0, hp0⟩ := h0
  have hne : ∀ t ∈ L, t.ents ≠ [] := by
    intro t ht
    exact hne0 _ (List.mem_map_of_mem (hp.mem_iff.mp ht))
  refine ⟨?_, ?_⟩
  · intro t ht
    obtain ⟨t0, ht0, rfl⟩ := List.mem_map.mp ht
    exact hne t0 ht0
  · rw [List.pairwise_map] at hp0 ⊢
    have hsep0 : L0.Pairwise (fun a b => Before a.ents b.ents ∨ Before b.ents a.ents) :=
      hp0.imp (fun hab => Or.inl hab)
    have hsep : L.Pairwise (fun a b => Before a.ents b.ents ∨ Before b.ents a.ents) :=
      (hp.pairwise_iff (fun hab => hab.symm)).mpr hsep0
    unfold SortedBy at hs
    have hboth := hsep.and hs
    refine hboth.imp_of_mem ?_
    intro a b ha hb hab
    rcases hab.1 with h1 | h1
    · exact h1
    · have := minLt_of_Before (hne b hb) (hne a ha) h1
      have h2 : minLt b.ents a.ents = false := hab.2
      rw [h2] at this
      cases this

theorem inv_drain_core {c : Cfg} {s : St} {w : List Entry} {p : IngPlan} {lo hi : Bytes}
    (h : Inv s w) (pf : PlanFacts c s p lo hi) (M : Src)
    (hM : M = dedup ((topOrder c p.top).flatten ++ p.bot.flatten)) (st : List (Bytes × Bytes)) :
    Inv { s with ing := p.rest,
                 main := sortStable (fun a b => minLt a.ents b.ents)
                           (s.main.take p.left ++ s.main.drop p.right ++ [(⟨M, false⟩ : MTab)]),
                 stale := st } w := by
  have hE : s.mainE = s.mainE.take p.left ++ ((s.mainE.drop p.left).take (p.right - p.left) ++ s.mainE.drop p.right) :=
    split3 s.mainE pf.lr
  have hbot := pf.bot_eq
  have hordE : OrderedE (s.mainE.take p.left ++ (p.bot ++ s.mainE.drop p.right)) := by
    rw [hbot, ← hE]; exact h.ord
  -- the merge output
  have hTne : (topOrder c p.top).flatten ≠ [] := by
    have hne := pf.top_ne
    cases hT' : topOrder c p.top with
    | nil => exact absurd hT' hne
    | cons t ts =>
      have htne : t ≠ [] := by
        apply h.ne t (Or.inr _)
        rw [pf.ing_eq, hT']; simp
      cases t with
      | nil => exact absurd rfl htne
      | cons e es => simp
  have hMne : M ≠ [] := by
    rw [hM]; apply dedup_ne_nil
    intro hnil
    exact hTne (List.append_eq_nil_iff.mp hnil).1
  have hsub : ∀ m ∈ M, (∃ t ∈ topOrder c p.top, m ∈ t) ∨ (∃ b ∈ p.bot, m ∈ b) := by
    intro m hm
    rw [hM] at hm
    rcases List.mem_append.mp (mem_dedup hm) with h1 | h1
    · exact Or.inl (List.mem_flatten.mp h1)
    · exact Or.inr (List.mem_flatten.mp h1)
  have hord0 : OrderedE (s.mainE.take p.left ++ M :: s.mainE.drop p.right) :=
    ordered_replace hMne hsub pf.below pf.above pf.top_in hordE
  -- the sorted list
  let ltM : MTab → MTab → Bool := fun a b => minLt a.ents b.ents
  let L' : List MTab := s.main.take p.left ++ s.main.drop p.right ++ [(⟨M, false⟩ : MTab)]
  let L0 : List MTab := s.main.take p.left ++ ((⟨M, false⟩ : MTab) :: s.main.drop p.right)
  have hL0E : L0.map (·.ents) = s.mainE.take p.left ++ M :: s.mainE.drop p.right := by
    simp [L0, St.mainE, List.map_take, List.map_drop]
  have hperm' : (sortStable ltM L').Perm L' := sortStable_perm ltM L'
  have hL'L0 : L'.Perm L0 := by
    show (s.main.take p.left ++ s.main.drop p.right ++ [(⟨M, false⟩ : MTab)]).Perm _
    rw [List.append_assoc]
    exact List.Perm.append_left _ (List.perm_append_comm.trans (List.Perm.refl _))
  have hperm : (sortStable ltM L').Perm L0 := hperm'.trans hL'L0
  have hsorted : SortedBy ltM (sortStable ltM L') :=
    sortStable_sorted ltM (fun x y hxy => minLt_asymm hxy) (fun x y z h1 h2 => minLt_trans h1 h2) L'
  have hordNew : OrderedE ((sortStable ltM L').map (·.ents)) :=
    ordered_of_perm_sorted (hL0E ▸ hord0) hperm hsorted
  -- picks
  have hpickMain : ∀ q, pick q ((sortStable ltM L').map (·.ents)).flatten
      = better (pick q (s.mainE.take p.left).flatten)
          (better (better (pick q (topOrder c p.top).flatten) (pick q p.bot.flatten)) (pick q (s.mainE.drop p.right).flatten)) := by
    intro q
    have hpE : ((sortStable ltM L').map (·.ents)).Perm (s.mainE.take p.left ++ M :: s.mainE.drop p.right) := by
      rw [← hL0E]; exact hperm.map _
    rw [pick_perm hpE (hordNew.2.imp (fun hab => SepU_of_Before hab))]
    simp only [List.flatten_append, List.flatten_cons, pick_append, hM, pick_dedup]
  have hsepTA : ∀ q, pick q (topOrder c p.top).flatten = none ∨ pick q (s.mainE.take p.left).flatten = none := by
    intro q
    apply pick_none_or_none
    intro e he e' he' heq
    obtain ⟨t, ht, het⟩ := List.mem_flatten.mp he
    obtain ⟨a, ha, hea⟩ := List.mem_flatten.mp he'
    have h1 := (pf.top_in t ht e het).1
    have h2 := pf.below a ha e' hea
    rw [← heq] at h2
    have := Bytes.lt_of_lt_of_le h2 h1
    rw [Bytes.lt_irrefl] at this
    cases this
  have hU : ∀ q, pick q (upper s) = better (pick q (pre s ++ p.rest.flatten)) (pick q (topOrder c p.top).flatten) := by
    intro q
    simp only [upper, pf.ing_eq, List.flatten_append, pick_append, better_assoc]
  refine ⟨?_, ?_, hordNew, ?_⟩
  · intro q
    rw [← h.same q]
    show pick q ((pre s ++ p.rest.flatten) ++ ((sortStable ltM L').map (·.ents)).flatten) = _
    rw [pick_append, hpickMain q]
    have hr : pick q (flat s)
        = better (better (pick q (pre s ++ p.rest.flatten)) (pick q (topOrder c p.top).flatten))
            (pick q s.mainE.flatten) := by
      rw [flat, pick_append, hU q]
    rw [hr]
    conv => rhs; rw [hE]
    simp only [List.flatten_append, pick_append, ← hbot]
    rcases hsepTA q with h1 | h1
    · simp only [h1, better_none_left, better_none_right]
    · simp only [h1, better_none_left, better_none_right, better_assoc]
  · intro t ht
    rcases ht with ht | ht
    · exact h.ne t (Or.inl ht)
    · apply h.ne t (Or.inr _)
      rw [pf.ing_eq]; exact List.mem_append_left _ ht
  · intro t ht hd q
    show rk (pick q t.ents) ≤ rk (pick q (pre s ++ p.rest.flatten))
    have ht' : t ∈ L' := hperm'.mem_iff.mp ht
    have hold : t ∈ s.main ∧ (t.ents ∈ s.mainE.take p.left ∨ t.ents ∈ s.mainE.drop p.right) := by
      simp only [L', List.mem_append, List.mem_singleton] at ht'
      rcases ht' with (ht' | ht') | ht'
      · refine ⟨List.mem_of_mem_take ht', Or.inl ?_⟩
        simp only [St.mainE, ← List.map_take]; exact List.mem_map_of_mem ht'
      · refine ⟨List.mem_of_mem_drop ht', Or.inr ?_⟩
        simp only [St.mainE, ← List.map_drop]; exact List.mem_map_of_mem ht'
      · subst ht'; cases hd
    have hdom := h.dom t hold.1 hd q
    rw [hU q, rk_better] at hdom
    -- the top tables cannot answer a query this table answers
    have : pick q (topOrder c p.top).flatten = none ∨ pick q t.ents = none := by
      apply pick_none_or_none
      intro e he e' he' heq
      obtain ⟨tt, htt, het⟩ := List.mem_flatten.mp he
      obtain ⟨h1, h2⟩ := pf.top_in tt htt e het
      rcases hold.2 with ha | hb
      · have h3 := pf.below _ ha e' he'
        rw [← heq] at h3
        have := Bytes.lt_of_lt_of_le h3 h1
        rw [Bytes.lt_irrefl] at this; cases this
      · have h3 := pf.above _ hb e' he'
        rw [← heq] at h3
        have := Bytes.lt_of_le_of_lt h2 h3
        rw [Bytes.lt_irrefl] at this; cases this
    rcases this with h1 | h1
    · rw [h1] at hdom; simp only [rk] at hdom ⊢; omega
    · rw [h1]; simp [rk]

theorem inv_drain {c : Cfg} (hc : c.AllGood) {s : St} {w : List Entry} (h : Inv s w) :
    Inv (drain c s).1 w := by
  unfold drain
  cases hp : ingPlan c s with
  | error o => exact h
  | ok p =>
    obtain ⟨lo, hi, pf⟩ := planFacts hc h.ord hp
    have hmk : c.mergeKeeps = .left := hc.1.2.2.2.2.2.2.1
    exact inv_drain_core h pf _ (by simp [mergeTables, hmk]) _

end NoKV.Lsm

/-
The oversized-key witness (a 70 000-byte key through the plain API): what the memtable keeps.
Proved with the `replicate` lemmas, never by evaluating a 70 000-element list.
-/
import NoKVModel.Lsm.Steps

namespace NoKV.Lsm

def bigKey : Bytes := List.replicate 70000 120
def ghostKey : Bytes := List.replicate 4464 120

theorem big_len : bigKey.length = 70000 := List.length_replicate ..

theorem trunc_big : truncated 0 bigKey = some (0, ghostKey, maxVersion - be8 (List.replicate 8 120)) := by
  unfold truncated
  simp only [big_len]
  have h1 : ¬ (4 + 70000 + 8 < 65536) := by omega
  have h2 : (4 + 70000 + 8) % 65536 = 4476 := by omega
  have h3 : ¬ (4476 < 12 ∨ 4476 > 4 + 70000) := by omega
  simp only [h1, h2, h3, if_false]
  have h4 : bigKey.take (4476 - 12) = ghostKey := by
    unfold bigKey ghostKey
    rw [List.take_replicate]
    have : min (4476 - 12) 70000 = 4464 := by omega
    rw [this]
  have h5 : (bigKey.drop (4476 - 12)).take 8 = List.replicate 8 120 := by
    unfold bigKey
    rw [List.drop_replicate, List.take_replicate]
    have : min 8 (70000 - (4476 - 12)) = 8 := by omega
    rw [this]
  rw [h4, h5]

/-- the acknowledged write of the 70 000-byte key leaves an entry for the never-written
    4 464-byte key in the memtable -/
theorem write_big (c : Cfg) (hc : c.plainKeyLimit = false) :
    write c {} ⟨0, bigKey, maxVersion, [5], false⟩
      = ({ mem := [⟨0, ghostKey, maxVersion - be8 (List.replicate 8 120), [5], false⟩] }, .ok) := by
  have hne : bigKey ≠ [] := by
    intro h
    have := big_len
    rw [h] at this
    simp at this
  have h1 : ¬ (4 + 70000 + 8 < 65536) := by omega
  unfold write
  simp only [hne, hc, big_len, trunc_big, h1, if_false, Bool.false_eq_true, false_and]
  simp [memPut]

end NoKV.Lsm

/-
Lemmas for the internal-key layout: fixed-width big-endian integers compare like numbers,
`beNat` inverts `be64`, prefixes/suffixes of an internal key.
-/
import NoKVModel.Codec.PrimLemmas
import NoKVModel.Codec.Key

namespace NoKV.Codec

theorem lt_append_same_length : ∀ (a1 b1 a2 b2 : Bytes), a1.length = b1.length →
    Bytes.lt (a1 ++ a2) (b1 ++ b2) =
      (if Bytes.lt a1 b1 then true else if Bytes.lt b1 a1 then false else Bytes.lt a2 b2) := by
  intro a1
  induction a1 with
  | nil =>
    intro b1 a2 b2 h
    cases b1 with
    | nil => simp [Bytes.lt]
    | cons y ys => simp at h
  | cons x xs ih =>
    intro b1 a2 b2 h
    cases b1 with
    | nil => simp at h
    | cons y ys =>
      simp only [List.cons_append, Bytes.lt]
      have h' : xs.length = ys.length := by simpa using h
      rw [ih ys a2 b2 h']
      by_cases h1 : x < y
      · have : ¬ y < x := by omega
        simp [h1]
      · by_cases h2 : y < x
        · simp [h1, h2]
        · simp [h1, h2]

theorem be32_lt (x y : Nat) (hx : x < two32) (hy : y < two32) :
    Bytes.lt (be32 x) (be32 y) = decide (x < y) := by
  unfold two32 at *
  simp only [be32, Bytes.lt]
  by_cases h : x < y
  · simp only [h, decide_true]
    split
    · rfl
    · split
      · omega
      · split
        · rfl
        · split
          · omega
          · split
            · rfl
            · split
              · omega
              · split
                · rfl
                · split <;> omega
  · simp only [h, decide_false]
    split
    · omega
    · split
      · rfl
      · split
        · omega
        · split
          · rfl
          · split
            · omega
            · split
              · rfl
              · split
                · omega
                · split <;> rfl

theorem be64_lt (x y : Nat) (hx : x < two64) (hy : y < two64) :
    Bytes.lt (be64 x) (be64 y) = decide (x < y) := by
  unfold be64
  rw [lt_append_same_length _ _ _ _ (by simp [be32])]
  have h1 : x / two32 % two32 < two32 := Nat.mod_lt _ (by unfold two32; omega)
  have h2 : y / two32 % two32 < two32 := Nat.mod_lt _ (by unfold two32; omega)
  have h3 : x % two32 < two32 := Nat.mod_lt _ (by unfold two32; omega)
  have h4 : y % two32 < two32 := Nat.mod_lt _ (by unfold two32; omega)
  rw [be32_lt _ _ h1 h2, be32_lt _ _ h2 h1, be32_lt _ _ h3 h4]
  unfold two32 two64 at *
  by_cases h : x < y
  · simp only [h, decide_true]
    split
    · rfl
    · split
      · rename_i a b; simp at a b; omega
      · rename_i a b; simp at a b ⊢; omega
  · simp only [h, decide_false]
    split
    · rename_i a; simp at a; omega
    · split
      · rfl
      · rename_i a b; simp at a b ⊢; omega

theorem be32_beNat (x : Nat) (hx : x < two32) : beNat (be32 x) = x := by
  unfold two32 at hx
  simp [be32, beNat]
  omega

theorem be64_beNat (x : Nat) (hx : x < two64) : beNat (be64 x) = x := by
  unfold two64 at hx
  simp [be64, be32, beNat, two32]
  omega

theorem be64_length (x : Nat) : (be64 x).length = 8 := by simp [be64, be32]

end NoKV.Codec

namespace NoKV.Codec

theorem take_len_sub8 (p s : Bytes) (h : s.length = 8) : (p ++ s).take ((p ++ s).length - 8) = p := by
  have : (p ++ s).length - 8 = p.length := by simp [h]
  rw [this]; simp

theorem drop_len_sub8 (p s : Bytes) (h : s.length = 8) : (p ++ s).drop ((p ++ s).length - 8) = s := by
  have : (p ++ s).length - 8 = p.length := by simp [h]
  rw [this]; simp

theorem tsBytes_length (c : CodecCfg) (ts : Nat) : (tsBytes c ts).length = 8 := by
  simp [tsBytes, be64_length]

/-- the order the property asks for: column family, then user key ascending, then version
descending -/
def specKeyCmp (cf1 : Nat) (k1 : Bytes) (ts1 : Nat) (cf2 : Nat) (k2 : Bytes) (ts2 : Nat) : Ordering :=
  if cf1 < cf2 then .lt else if cf2 < cf1 then .gt
  else if Bytes.lt k1 k2 then .lt else if Bytes.lt k2 k1 then .gt
  else if ts1 > ts2 then .lt else if ts1 < ts2 then .gt else .eq

theorem compareKeys_internal (c : CodecCfg) (hc : c.tsInverted = true)
    (cf1 : Nat) (k1 : Bytes) (ts1 : Nat) (cf2 : Nat) (k2 : Bytes) (ts2 : Nat)
    (h1 : cf1 ≤ maxCF) (h2 : cf2 ≤ maxCF) (ht1 : ts1 < two64) (ht2 : ts2 < two64) :
    compareKeys (internalKey c cf1 k1 ts1) (internalKey c cf2 k2 ts2) =
      some (specKeyCmp cf1 k1 ts1 cf2 k2 ts2) := by
  unfold compareKeys internalKey
  have l1 := tsBytes_length c ts1
  have l2 := tsBytes_length c ts2
  rw [take_len_sub8 _ _ l1, take_len_sub8 _ _ l2, drop_len_sub8 _ _ l1, drop_len_sub8 _ _ l2]
  have hlen1 : ¬ ((encodeKeyWithCF cf1 k1 ++ tsBytes c ts1).length ≤ 8 ∨
      (encodeKeyWithCF cf2 k2 ++ tsBytes c ts2).length ≤ 8) := by
    simp [encodeKeyWithCF, cfMarker, l1, l2]
  simp only [hlen1, ↓reduceIte]
  simp only [encodeKeyWithCF, cfMarker, h1, h2, ↓reduceIte, List.cons_append, List.nil_append,
    Bytes.lt, Nat.lt_irrefl]
  unfold specKeyCmp
  by_cases a : cf1 < cf2
  · simp [a]
  · by_cases b : cf2 < cf1
    · simp [a, b]
    · simp only [a, b, ↓reduceIte]
      by_cases e : Bytes.lt k1 k2 = true
      · simp [e]
      · by_cases f : Bytes.lt k2 k1 = true
        · simp [e, f]
        · simp only [e, f, Bool.false_eq_true, ↓reduceIte]
          unfold tsBytes Bytes.cmp maxU64
          simp only [hc, ↓reduceIte]
          rw [be64_lt _ _ (by unfold two64 at *; omega) (by unfold two64 at *; omega),
            be64_lt _ _ (by unfold two64 at *; omega) (by unfold two64 at *; omega)]
          unfold two64 at *
          by_cases g : ts1 > ts2
          · have : 18446744073709551616 - 1 - ts1 < 18446744073709551616 - 1 - ts2 := by omega
            simp [g, this]
          · by_cases g2 : ts1 < ts2
            · have : ¬ (18446744073709551616 - 1 - ts1 < 18446744073709551616 - 1 - ts2) := by omega
              have h3 : 18446744073709551616 - 1 - ts2 < 18446744073709551616 - 1 - ts1 := by omega
              simp [g, g2, this, h3]
            · have : ¬ (18446744073709551616 - 1 - ts1 < 18446744073709551616 - 1 - ts2) := by omega
              have h3 : ¬ (18446744073709551616 - 1 - ts2 < 18446744073709551616 - 1 - ts1) := by omega
              simp [g, g2, this, h3]

theorem split_internal (c : CodecCfg) (hp : c.parseTsMin = .le ∨ c.parseTsMin = .lt)
    (cf : Nat) (k : Bytes) (ts : Nat) (h1 : cf ≤ maxCF) (ht : ts < two64) :
    splitInternalKey c (internalKey c cf k ts) = some (cf, k, ts) := by
  unfold splitInternalKey parseTs parseKey internalKey
  have l1 := tsBytes_length c ts
  have hlen : (encodeKeyWithCF cf k ++ tsBytes c ts).length = 4 + k.length + 8 := by
    simp [encodeKeyWithCF, cfMarker, l1]; omega
  have hcond : c.parseTsMin.nat (encodeKeyWithCF cf k ++ tsBytes c ts).length 8 = false := by
    rw [hlen]
    rcases hp with hp | hp <;> rw [hp] <;> simp [CmpOp.nat, CmpOp.eval] <;> omega
  have hlt : ¬ ((encodeKeyWithCF cf k ++ tsBytes c ts).length < 8) := by omega
  simp only [hcond, Bool.false_eq_true, ↓reduceIte, hlt]
  rw [take_len_sub8 _ _ l1, drop_len_sub8 _ _ l1]
  unfold tsBytes maxU64
  have hb : beNat (be64 (if c.tsInverted = true then two64 - 1 - ts else ts)) =
      (if c.tsInverted = true then two64 - 1 - ts else ts) := by
    apply be64_beNat
    split <;> (unfold two64 at *; omega)
  rw [hb]
  simp only [encodeKeyWithCF, cfMarker, h1, ↓reduceIte, List.cons_append, List.nil_append, decodeKeyCF]
  simp only [h1, and_self, ↓reduceIte]
  by_cases hi : c.tsInverted = true
  · simp only [hi, ↓reduceIte]
    have : two64 - 1 - (two64 - 1 - ts) = ts := by unfold two64 at *; omega
    rw [this]
  · simp [hi]

end NoKV.Codec

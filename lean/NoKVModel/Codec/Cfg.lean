/-
Configuration of the codec models (C16): the guard shapes the fact extractor reads off the
decoders.  Every field is a decision a realistic code change could flip and that the safety
theorems hinge on.  `CodecCfg.good` is the fully guarded configuration (the shape after the
patches in /verif/proposed_fixes); the as-is tree has several fields at their bad value.
-/
import NoKVModel.Base.Cfg

namespace NoKV.Codec

/-- How a declared length `n : uint64` is checked against the remaining input.
`intwrap`: `pos+int(n) > len(data)` (the conversion wraps for n ≥ 2^63);
`u64`: `n > uint64(len(data)-pos)`. -/
inductive LenGuard where
  | intwrap | u64
  deriving DecidableEq, Repr, Inhabited

/-- `raw`: `v, n := binary.Uvarint(data[pos:]); pos += n` with `n` unchecked;
`sticky`: `uvarintAt(data, pos)` (failure moves `pos` past `len(data)`). -/
inductive UvMode where
  | raw | sticky
  deriving DecidableEq, Repr, Inhabited

/-- manifest `readBytes`: `intwrap` = as-is (`end := pos + int(length)`), `sticky` = `readBytesAt`. -/
inductive RbMode where
  | intwrap | sticky
  deriving DecidableEq, Repr, Inhabited

structure CodecCfg where
  lockLenGuard : LenGuard
  writeLenGuard : LenGuard
  manUvarint : UvMode
  manReadBytes : RbMode
  manPeersBounded : Bool
  manFrameBounded : Bool
  /-- the raft-pointer and region arms of `decodeEdit` test `pos < len(data)` (a payload-less
  edit decodes to a nil payload); `false`: `pos <= len(data)` (it decodes to an all-zero one) -/
  manNilPayloadLt : Bool
  entryAllocBounded : Bool
  vsDecodeChecked : Bool
  raftLenGuard : LenGuard
  /-- operator of `len(key) <op> 8` in `ParseTs` (`le` as-is: an 8-byte key has no timestamp) -/
  parseTsMin : CmpOp
  /-- timestamps are stored as big-endian `MaxUint64 - ts` by KeyWithTs, InternalKey, ParseTs -/
  tsInverted : Bool
  /-- CompareKeys = bytes.Compare on all-but-last-8, then on the last 8 bytes -/
  cmpPrefixSuffix : Bool
  /-- marker bytes ff 'C' 'F' and maxColumnFamily = 2 -/
  cfMarkerOk : Bool
  deriving DecidableEq, Repr

def CodecCfg.good : CodecCfg :=
  { lockLenGuard := .u64, writeLenGuard := .u64, manUvarint := .sticky, manReadBytes := .sticky,
    manPeersBounded := true, manFrameBounded := true, manNilPayloadLt := true, entryAllocBounded := true,
    vsDecodeChecked := true, raftLenGuard := .u64, parseTsMin := .lt, tsInverted := true,
    cmpPrefixSuffix := true, cfMarkerOk := true }

/-- The configuration of the pinned tree (8e65284), for the `…_fails_asis_…` witnesses. -/
def CodecCfg.asis : CodecCfg :=
  { lockLenGuard := .intwrap, writeLenGuard := .intwrap, manUvarint := .raw, manReadBytes := .intwrap,
    manPeersBounded := false, manFrameBounded := false, manNilPayloadLt := false, entryAllocBounded := false,
    vsDecodeChecked := false, raftLenGuard := .intwrap, parseTsMin := .le, tsInverted := true,
    cmpPrefixSuffix := true, cfMarkerOk := true }

end NoKV.Codec

/-
E-Bytes primitives for the codec models (C16), core Lean only.

* Go's `encoding/binary` uvarint: `putUvarint` (= `AppendUvarint`/`PutUvarint`), `uvarintGo`
  (= `binary.Uvarint`, including its `n = 0` "buffer too small" and `n < 0` "overflow"
  return convention), `readUvarint` (= `binary.ReadUvarint` on a byte reader).
* fixed-width big/little-endian integers.
* Go `int(uint64)` conversion (`toI64`) and 64-bit signed wrap-around (`i64`).
* a small parser monad `P` over one input slice with an explicit position (`Int`, as Go's
  `pos` variable: it can become negative in the as-is manifest decoder) and allocation
  accounting; outcomes `ok | err | panic | oom`.  Slice expressions and index expressions
  panic exactly when Go's bounds checks do (the models assume `cap = len`).
-/
import NoKVModel.Base.Bytes

namespace NoKV.Codec

/-! ### integers -/

def two63 : Nat := 9223372036854775808
def two64 : Nat := 18446744073709551616
def two32 : Nat := 4294967296

/-- Go `int(x)` for `x : uint64` on a 64-bit platform. -/
def toI64 (n : Nat) : Int :=
  let m := n % two64
  if m < two63 then (m : Int) else (m : Int) - (two64 : Int)

/-- wrap-around of a mathematically computed `int` expression. -/
def i64 (z : Int) : Int := ((z + (two63 : Int)) % (two64 : Int)) - (two63 : Int)

/-- Go `uint64(z)` for `z : int`. -/
def toU64 (z : Int) : Nat := (z % (two64 : Int)).toNat

/-! ### uvarint -/

def putUvarintF : Nat → Nat → Bytes
  | 0, _ => []
  | f + 1, x => if x < 128 then [x] else (x % 128 + 128) :: putUvarintF f (x / 128)

/-- `binary.AppendUvarint(nil, x)` for `x < 2^64` (at most 10 bytes). -/
def putUvarint (x : Nat) : Bytes := putUvarintF 10 x

/-- loop of `binary.Uvarint`: `i` = index, `x` = accumulated value, `m` = `1 << s`
(`x | uint64(b)<<s` is an addition because the bits are disjoint). -/
def uvarintAux : Bytes → Nat → Nat → Nat → Nat × Int
  | [], _, _, _ => (0, 0)
  | b :: rest, i, x, m =>
    if i = 10 then (0, -((i : Int) + 1))
    else if b < 128 then
      if i = 9 ∧ b > 1 then (0, -((i : Int) + 1)) else (x + b * m, (i : Int) + 1)
    else uvarintAux rest (i + 1) (x + (b % 128) * m) (m * 128)

/-- `binary.Uvarint(buf)`: `(value, n)`; `n = 0`: buffer too small, `n < 0`: overflow. -/
def uvarintGo (buf : Bytes) : Nat × Int := uvarintAux buf 0 0 1

inductive EK where
  | gen | eof | ueof | crc | part
  deriving DecidableEq, Repr, Inhabited

/-- loop of `binary.ReadUvarint`: result `(value, consumed)` or an error kind
(`eof` only when nothing was read). -/
def readUvarintAux : Bytes → Nat → Nat → Nat → Nat → Except (EK × Nat) (Nat × Nat)
  | _, 0, i, _, _ => .error (.gen, i)                       -- 10 continuation bytes: overflow
  | [], _ + 1, i, _, _ => .error (if i = 0 then .eof else .ueof, i)
  | b :: rest, f + 1, i, x, m =>
    if b < 128 then
      if i = 9 ∧ b > 1 then .error (.gen, i + 1) else .ok (x + b * m, i + 1)
    else readUvarintAux rest f (i + 1) (x + (b % 128) * m) (m * 128)

/-- `binary.ReadUvarint(reader)`; on error the second component is the number of bytes the
reader has consumed. -/
def readUvarint (buf : Bytes) : Except (EK × Nat) (Nat × Nat) := readUvarintAux buf 10 0 0 1

/-! ### fixed-width integers -/

def be32 (x : Nat) : Bytes := [x / 16777216 % 256, x / 65536 % 256, x / 256 % 256, x % 256]
def le32 (x : Nat) : Bytes := [x % 256, x / 256 % 256, x / 65536 % 256, x / 16777216 % 256]
def be64 (x : Nat) : Bytes := be32 (x / two32 % two32) ++ be32 (x % two32)

def beNat : Bytes → Nat := fun b => b.foldl (fun acc x => acc * 256 + x) 0
def leNat : Bytes → Nat := fun b => b.foldr (fun x acc => x + 256 * acc) 0

/-! ### outcomes and the parser monad -/

inductive Out (α : Type) where
  | ok (a : α)
  | err (k : EK)
  | panic
  | oom
  deriving DecidableEq, Repr

structure St where
  pos : Int
  alloc : Nat
  deriving DecidableEq, Repr

def P (α : Type) : Type := Bytes → St → Out α × St

namespace P

def pure {α : Type} (a : α) : P α := fun _ s => (.ok a, s)

def bind {α β : Type} (p : P α) (f : α → P β) : P β := fun d s =>
  match p d s with
  | (.ok a, s') => f a d s'
  | (.err k, s') => (.err k, s')
  | (.panic, s') => (.panic, s')
  | (.oom, s') => (.oom, s')

instance : Monad P where
  pure := P.pure
  bind := P.bind

def fail {α : Type} (k : EK) : P α := fun _ s => (.err k, s)
def panic {α : Type} : P α := fun _ s => (.panic, s)
def getPos : P Int := fun _ s => (.ok s.pos, s)
def setPos (p : Int) : P Unit := fun _ s => (.ok (), { s with pos := p })
def dataLen : P Int := fun d s => (.ok (d.length : Int), s)

/-- run on `d` from position 0 -/
def run {α : Type} (p : P α) (d : Bytes) : Out α × St := p d ⟨0, 0⟩

end P

/-- largest allocation the Go runtime attempts (linux/amd64 `maxAlloc` = 2^48); above it
`make` panics ("len/cap out of range"), which `recover` catches. -/
def maxAlloc : Nat := 281474976710656
/-- the address-space limit of the harness' worker child: a modelled `make` of at least this
many bytes is the outcome `oom` (observed as `oom-guard`). -/
def oomLimit : Nat := 1073741824

/-- `make([]T, …, n)` with `sizeof T = elem`. -/
def mk (elem n : Nat) : P Unit := fun _ s =>
  if elem * n > maxAlloc then (.panic, s)
  else if elem * n ≥ oomLimit then (.oom, { s with alloc := s.alloc + elem * n })
  else (.ok (), { s with alloc := s.alloc + elem * n })

/-- `data[i]` -/
def byteAt (i : Int) : P Nat := fun d s =>
  if 0 ≤ i ∧ i < d.length then (.ok (d.getD i.toNat 0), s) else (.panic, s)

/-- `data[lo:hi]` (no copy) -/
def sliceP (lo hi : Int) : P Bytes := fun d s =>
  if 0 ≤ lo ∧ lo ≤ hi ∧ hi ≤ d.length then (.ok ((d.drop lo.toNat).take (hi - lo).toNat), s)
  else (.panic, s)

/-- account for a copy `append([]T(nil), xs...)` of `n` elements of size `elem` -/
def copyAlloc (elem n : Nat) : P Unit := fun _ s => (.ok (), { s with alloc := s.alloc + elem * n })

/-- `v, n := binary.Uvarint(data[pos:])` followed by `if n <= 0 { return err }; pos += n`
(the `readUvarint` closures of percolator and raft framing). -/
def uvChecked : P Nat := fun d s =>
  if 0 ≤ s.pos ∧ s.pos ≤ d.length then
    let r := uvarintGo (d.drop s.pos.toNat)
    if r.2 ≤ 0 then (.err .gen, s) else (.ok r.1, { s with pos := s.pos + r.2 })
  else (.panic, s)

/-- `if pos < len(data) { A } else { B }` -/
def ifMore {α : Type} (A B : P α) : P α := fun d s => if s.pos < d.length then A d s else B d s

/-- `if pos <= len(data) { A } else { B }` -/
def ifWithin {α : Type} (A B : P α) : P α := fun d s => if s.pos ≤ d.length then A d s else B d s

/-- `if pos == len(data) { A } else { B }` -/
def ifAtEnd {α : Type} (A B : P α) : P α := fun d s => if s.pos = d.length then A d s else B d s

/-- `if pos >= len(data) { return err }; b := data[pos]; pos++` -/
def nextByte : P Nat := fun d s =>
  if s.pos ≥ d.length then (.err .gen, s)
  else if 0 ≤ s.pos then (.ok (d.getD s.pos.toNat 0), { s with pos := s.pos + 1 })
  else (.panic, s)

end NoKV.Codec

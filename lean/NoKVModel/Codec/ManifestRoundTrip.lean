/-
Round trip of every manifest edit type through `decodeEdit` and through the framed
`readEdit`, for every configuration of the guards.
-/
import NoKVModel.Codec.ManifestLemmas

namespace NoKV.Codec

theorem Parses.bind_last {α β : Type} {p : P α} {f : α → P β} {e : Bytes} {a : α} {b : β}
    (h1 : Parses p e a) (h2 : Parses (f a) [] b) : Parses (p >>= f) e b := by
  have := Parses.bind h1 h2
  simpa using this

theorem boolByte_beq (b : Bool) : (boolByte b == 1) = b := by cases b <;> rfl

def FileMeta.WF (m : FileMeta) : Prop :=
  m.level < two64 ∧ m.fileID < two64 ∧ m.size < two64 ∧ m.created < two64 ∧ m.valueSize < two64

theorem parses_file (c : CodecCfg) (m : FileMeta) (h : m.WF) :
    Parses (decFile c)
      (putUvarint m.level ++ (putUvarint m.fileID ++ (putUvarint m.size ++ (appendBytes m.smallest ++
        (appendBytes m.largest ++ (putUvarint m.created ++ (putUvarint m.valueSize ++ [boolByte m.ingest])))))))
      (.file m) := by
  obtain ⟨h1, h2, h3, h4, h5⟩ := h
  unfold decFile
  refine Parses.bind (Parses.manUv c _ h1) ?_
  refine Parses.bind (Parses.manUv c _ h2) ?_
  refine Parses.bind (Parses.manUv c _ h3) ?_
  refine Parses.bind (Parses.manBytes c _) ?_
  refine Parses.bind (Parses.manBytes c _) ?_
  refine Parses.bind (Parses.manUv c _ h4) ?_
  refine Parses.bind (Parses.ifWithin (Parses.ifAtEnd (putUvarint_ne_nil _) (Parses.manUv c _ h5))) ?_
  refine Parses.bind_last (Parses.optByte 0 _) ?_
  refine Parses.bind0 Parses.chkPos ?_
  refine Parses.congr (Parses.pure _) rfl ?_
  rw [boolByte_beq]

theorem parses_log (c : CodecCfg) (seg off : Nat) (h1 : seg < two32) (h2 : off < two64) :
    Parses (decLog c) (putUvarint seg ++ putUvarint off) (.log seg off) := by
  unfold decLog
  refine Parses.bind (Parses.manUv c _ (by unfold two32 two64 at *; omega)) ?_
  refine Parses.bind_last (Parses.manUv c _ h2) ?_
  refine Parses.bind0 Parses.chkPos ?_
  refine Parses.congr (Parses.pure _) rfl ?_
  rw [Nat.mod_eq_of_lt h1]

def VLMeta.WF (m : VLMeta) : Prop := m.bucket < two32 ∧ m.fid < two32 ∧ m.offset < two64

theorem parses_vlHead (c : CodecCfg) (m : VLMeta) (h : m.WF) (hv : m.valid = true) :
    Parses (decVLHead c) (putUvarint m.bucket ++ (putUvarint m.fid ++ putUvarint m.offset)) (.vl (some m)) := by
  obtain ⟨h1, h2, h3⟩ := h
  unfold decVLHead
  refine Parses.ifMore (by simp [putUvarint_ne_nil]) ?_
  refine Parses.bind (Parses.manUv c _ (by unfold two32 two64 at *; omega)) ?_
  refine Parses.bind (Parses.manUv c _ (by unfold two32 two64 at *; omega)) ?_
  refine Parses.bind_last (Parses.manUv c _ h3) ?_
  refine Parses.bind0 Parses.chkPos ?_
  refine Parses.congr (Parses.pure _) rfl ?_
  rw [Nat.mod_eq_of_lt h1, Nat.mod_eq_of_lt h2, ← hv]

theorem parses_vlDelete (c : CodecCfg) (m : VLMeta) (h : m.WF) (ho : m.offset = 0) (hv : m.valid = false) :
    Parses (decVLDelete c) (putUvarint m.bucket ++ putUvarint m.fid) (.vl (some m)) := by
  obtain ⟨h1, h2, h3⟩ := h
  unfold decVLDelete
  refine Parses.ifMore (by simp [putUvarint_ne_nil]) ?_
  refine Parses.bind (Parses.manUv c _ (by unfold two32 two64 at *; omega)) ?_
  refine Parses.bind_last (Parses.manUv c _ (by unfold two32 two64 at *; omega)) ?_
  refine Parses.bind0 Parses.chkPos ?_
  refine Parses.congr (Parses.pure _) rfl ?_
  rw [Nat.mod_eq_of_lt h1, Nat.mod_eq_of_lt h2, ← hv, ← ho]

theorem parses_vlUpdate (c : CodecCfg) (m : VLMeta) (h : m.WF) :
    Parses (decVLUpdate c)
      (putUvarint m.bucket ++ (putUvarint m.fid ++ (putUvarint m.offset ++ [boolByte m.valid]))) (.vl (some m)) := by
  obtain ⟨h1, h2, h3⟩ := h
  unfold decVLUpdate
  refine Parses.ifMore (by simp [putUvarint_ne_nil]) ?_
  refine Parses.bind (Parses.manUv c _ (by unfold two32 two64 at *; omega)) ?_
  refine Parses.bind (Parses.manUv c _ (by unfold two32 two64 at *; omega)) ?_
  refine Parses.bind (Parses.manUv c _ h3) ?_
  refine Parses.bind0 Parses.chkPos ?_
  refine Parses.bind_last (Parses.optByte 0 _) ?_
  refine Parses.congr (Parses.pure _) rfl ?_
  rw [Nat.mod_eq_of_lt h1, Nat.mod_eq_of_lt h2, boolByte_beq]

def RaftPtr.WF (p : RaftPtr) : Prop :=
  p.group < two64 ∧ p.seg < two32 ∧ p.off < two64 ∧ p.appliedIdx < two64 ∧ p.appliedTerm < two64 ∧
  p.committed < two64 ∧ p.snapIdx < two64 ∧ p.snapTerm < two64 ∧ p.truncIdx < two64 ∧
  p.truncTerm < two64 ∧ p.segIdx < two64 ∧ p.truncOff < two64

theorem parses_optUv (c : CodecCfg) (x : Nat) (hx : x < two64) : Parses (optUv c) (putUvarint x) x := by
  unfold optUv
  refine Parses.ifMore (putUvarint_ne_nil _) ?_
  refine Parses.bind_last (Parses.manUv c _ hx) ?_
  exact Parses.bind0 Parses.chkPos (Parses.pure _)

theorem parses_raft (c : CodecCfg) (p : RaftPtr) (h : p.WF) :
    Parses (decRaft c)
      (putUvarint p.group ++ (putUvarint p.seg ++ (putUvarint p.off ++ (putUvarint p.appliedIdx ++
        (putUvarint p.appliedTerm ++ (putUvarint p.committed ++ (putUvarint p.snapIdx ++ (putUvarint p.snapTerm ++
        (putUvarint p.truncIdx ++ (putUvarint p.truncTerm ++ (putUvarint p.segIdx ++ putUvarint p.truncOff)))))))))))
      (.raft (some p)) := by
  obtain ⟨h1, h2, h3, h4, h5, h6, h7, h8, h9, h10, h11, h12⟩ := h
  unfold decRaft
  refine Parses.ifPayload c (by simp [putUvarint_ne_nil]) ?_
  refine Parses.bind (Parses.manUv c _ h1) ?_
  refine Parses.bind (Parses.manUv c _ (by unfold two32 two64 at *; omega)) ?_
  refine Parses.bind (Parses.manUv c _ h3) ?_
  refine Parses.bind (Parses.manUv c _ h4) ?_
  refine Parses.bind (Parses.manUv c _ h5) ?_
  refine Parses.bind (Parses.manUv c _ h6) ?_
  refine Parses.bind (Parses.manUv c _ h7) ?_
  refine Parses.bind (Parses.manUv c _ h8) ?_
  refine Parses.bind0 Parses.chkPos ?_
  refine Parses.bind (parses_optUv c _ h9) ?_
  refine Parses.bind (parses_optUv c _ h10) ?_
  refine Parses.bind (parses_optUv c _ h11) ?_
  refine Parses.bind_last (parses_optUv c _ h12) ?_
  refine Parses.congr (Parses.pure _) rfl ?_
  rw [Nat.mod_eq_of_lt h2]

def RegionEdit.WF (r : RegionEdit) : Prop :=
  r.id < two64 ∧ r.ver < two64 ∧ r.confVer < two64 ∧ r.state < 256 ∧ PeersWF r.peers ∧
  16 * r.peers.length < oomLimit ∧
  (r.delete = true → r.start = [] ∧ r.end_ = [] ∧ r.ver = 0 ∧ r.confVer = 0 ∧ r.state = 0 ∧ r.peers = [])

theorem parses_regionRest (c : CodecCfg) (r : RegionEdit) (h : r.WF) (hd : r.delete = false) :
    Parses (decRegionRest c r.id)
      (appendBytes r.start ++ (appendBytes r.end_ ++ (putUvarint r.ver ++ (putUvarint r.confVer ++
        ([r.state] ++ (putUvarint r.peers.length ++ encodePeers r.peers))))))
      (.region (some r)) := by
  obtain ⟨h1, h2, h3, h4, h5, h6, _⟩ := h
  unfold decRegionRest
  refine Parses.bind (Parses.manBytesC c _) ?_
  refine Parses.bind (Parses.manBytesC c _) ?_
  refine Parses.bind (Parses.manUv c _ h2) ?_
  refine Parses.bind (Parses.manUv c _ h3) ?_
  refine Parses.bind0 Parses.chkPos ?_
  refine Parses.bind (Parses.optByte 0 _) ?_
  refine Parses.bind (Parses.ifMore (putUvarint_ne_nil _)
    (Parses.manUv c _ (by unfold oomLimit two64 at *; omega))) ?_
  refine Parses.peersAlloc_bind c _ (encodePeers_length _) h6 ?_
  refine Parses.bind_last (Parses.peersLoop c _ h5) ?_
  refine Parses.congr (Parses.pure _) rfl ?_
  cases r
  simp_all

theorem parses_region (c : CodecCfg) (r : RegionEdit) (h : r.WF) :
    Parses (decRegion c)
      (if r.delete then putUvarint r.id ++ [1]
       else putUvarint r.id ++ ([0] ++ (appendBytes r.start ++ (appendBytes r.end_ ++ (putUvarint r.ver ++
        (putUvarint r.confVer ++ ([r.state] ++ (putUvarint r.peers.length ++ encodePeers r.peers))))))))
      (.region (some r)) := by
  have hid := h.1
  unfold decRegion
  refine Parses.ifPayload c (by split <;> simp [putUvarint_ne_nil]) ?_
  by_cases hdel : r.delete = true
  · simp only [hdel, ↓reduceIte]
    refine Parses.bind (Parses.manUv c _ hid) ?_
    refine Parses.bind0 Parses.chkPos ?_
    refine Parses.bind_last (Parses.optByte 0 _) ?_
    simp only [↓reduceIte]
    refine Parses.congr (Parses.pure _) rfl ?_
    obtain ⟨_, _, _, _, _, _, hz⟩ := h
    obtain ⟨a, b, e, f, g, i⟩ := hz hdel
    cases r
    simp_all
  · have hdel' : r.delete = false := by simpa using hdel
    simp only [hdel', Bool.false_eq_true, ↓reduceIte]
    refine Parses.bind (Parses.manUv c _ hid) ?_
    refine Parses.bind0 Parses.chkPos ?_
    refine Parses.bind (Parses.optByte 0 _) ?_
    simp only [Nat.zero_ne_one, ↓reduceIte]
    exact parses_regionRest c r h hdel'

end NoKV.Codec

namespace NoKV.Codec

/-- Well-formedness of an edit value: the body belongs to the type, every integer fits its Go
type, and the fields the encoder does not write have the value the decoder fills in
(`Valid = true` for a value-log head, `Offset = 0 ∧ Valid = false` for a value-log delete,
all-zero metadata for a region delete). -/
def Edit.WF (e : Edit) : Prop :=
  match e.body with
  | .file m => (e.type = 0 ∨ e.type = 1) ∧ m.WF
  | .log seg off => e.type = 2 ∧ seg < two32 ∧ off < two64
  | .vl (some m) =>
    m.WF ∧ ((e.type = 3 ∧ m.valid = true) ∨ (e.type = 4 ∧ m.offset = 0 ∧ m.valid = false) ∨ e.type = 5)
  | .vl none => e.type = 3 ∨ e.type = 4 ∨ e.type = 5
  | .raft (some p) => e.type = 6 ∧ p.WF
  | .raft none => False
  | .region (some r) => e.type = 7 ∧ r.WF
  | .region none => False
  | .none => 8 ≤ e.type

theorem parses_body (c : CodecCfg) (t : Nat) (b : EditBody) (h : Edit.WF ⟨t, b⟩) (hnn : b ≠ .vl none) :
    Parses (decBody c t) (encodeBody t b) b := by
  unfold Edit.WF at h
  cases b with
  | file m =>
    simp only at h
    obtain ⟨ht, hm⟩ := h
    simp only [decBody, encodeBody, ht, ↓reduceIte]
    exact Parses.congr (parses_file c m hm) (by simp [List.append_assoc]) rfl
  | log seg off =>
    simp only at h
    obtain ⟨ht, h1, h2⟩ := h
    subst ht
    simp only [decBody, encodeBody, ↓reduceIte]
    simp only [show ¬ ((2 : Nat) = 0 ∨ (2 : Nat) = 1) by omega, ↓reduceIte]
    exact parses_log c seg off h1 h2
  | vl m =>
    cases m with
    | none => exact absurd rfl hnn
    | some m =>
      simp only at h
      obtain ⟨hm, ht⟩ := h
      rcases ht with ⟨ht, hv⟩ | ⟨ht, ho, hv⟩ | ht
      · subst ht
        simp only [decBody, encodeBody, ↓reduceIte, show ¬ ((3 : Nat) = 0 ∨ (3 : Nat) = 1) by omega,
          show ¬ ((3 : Nat) = 2) by omega]
        exact Parses.congr (parses_vlHead c m hm hv) (by simp [List.append_assoc]) rfl
      · subst ht
        simp only [decBody, encodeBody, ↓reduceIte, show ¬ ((4 : Nat) = 0 ∨ (4 : Nat) = 1) by omega,
          show ¬ ((4 : Nat) = 2) by omega, show ¬ ((4 : Nat) = 3) by omega]
        exact parses_vlDelete c m hm ho hv
      · subst ht
        simp only [decBody, encodeBody, ↓reduceIte, show ¬ ((5 : Nat) = 0 ∨ (5 : Nat) = 1) by omega,
          show ¬ ((5 : Nat) = 2) by omega, show ¬ ((5 : Nat) = 3) by omega, show ¬ ((5 : Nat) = 4) by omega]
        exact Parses.congr (parses_vlUpdate c m hm) (by simp [List.append_assoc]) rfl
  | raft p =>
    cases p with
    | none => simp at h
    | some p =>
      simp only at h
      obtain ⟨ht, hp⟩ := h
      subst ht
      simp only [decBody, encodeBody, ↓reduceIte, show ¬ ((6 : Nat) = 0 ∨ (6 : Nat) = 1) by omega,
        show ¬ ((6 : Nat) = 2) by omega, show ¬ ((6 : Nat) = 3) by omega, show ¬ ((6 : Nat) = 4) by omega,
        show ¬ ((6 : Nat) = 5) by omega]
      exact Parses.congr (parses_raft c p hp) (by simp [List.append_assoc]) rfl
  | region r =>
    cases r with
    | none => simp at h
    | some r =>
      simp only at h
      obtain ⟨ht, hr⟩ := h
      subst ht
      simp only [decBody, encodeBody, ↓reduceIte, show ¬ ((7 : Nat) = 0 ∨ (7 : Nat) = 1) by omega,
        show ¬ ((7 : Nat) = 2) by omega, show ¬ ((7 : Nat) = 3) by omega, show ¬ ((7 : Nat) = 4) by omega,
        show ¬ ((7 : Nat) = 5) by omega, show ¬ ((7 : Nat) = 6) by omega]
      refine Parses.congr (parses_region c r hr) ?_ rfl
      split <;> simp [List.append_assoc]
  | none =>
    simp only at h
    have h0 : ¬ (t = 0 ∨ t = 1) := by omega
    have h2 : ¬ t = 2 := by omega
    have h3 : ¬ t = 3 := by omega
    have h4 : ¬ t = 4 := by omega
    have h5 : ¬ t = 5 := by omega
    have h6 : ¬ t = 6 := by omega
    have h7 : ¬ t = 7 := by omega
    simp only [decBody, encodeBody, h0, h2, h3, h4, h5, h6, h7, ↓reduceIte]
    exact Parses.pure _

theorem decBody_vlNone (c : CodecCfg) (t : Nat) (ht : t = 3 ∨ t = 4 ∨ t = 5) (al : Nat) :
    decBody c t [78, 111, 75, 86, t] ⟨5, al⟩ = (.ok (.vl none), ⟨5, al⟩) := by
  rcases ht with ht | ht | ht <;> subst ht <;>
    simp [decBody, decVLHead, decVLDelete, decVLUpdate, ifMore, Pure.pure, P.pure]

/-- `decodeEdit(payload of writeEdit(e)) = e` for every well-formed edit and every guard shape. -/
theorem decodeEdit_encodeEdit (c : CodecCfg) (e : Edit) (h : e.WF) (hl : (encodeEdit e).length < two63)
    (al : Nat) : (decodeEdit c (encodeEdit e) ⟨0, al⟩).1 = .ok e := by
  obtain ⟨t, b⟩ := e
  have henc : encodeEdit ⟨t, b⟩ = 78 :: 111 :: 75 :: 86 :: t :: encodeBody t b := by
    simp [encodeEdit, magic]
  rw [henc] at hl ⊢
  unfold decodeEdit
  simp only [magic, ne_eq, not_true_eq_false, ↓reduceIte]
  by_cases hnn : b = .vl none
  · subst hnn
    have ht : t = 3 ∨ t = 4 ∨ t = 5 := by simpa [Edit.WF] using h
    simp only [encodeBody]
    rw [decBody_vlNone c t ht al]
  · obtain ⟨al', e'⟩ := parses_body c t b h hnn (78 :: 111 :: 75 :: 86 :: t :: encodeBody t b) 5 al []
      hl (by simp) (by simp)
    have : ({ pos := 0, alloc := al } : St) = ⟨0, al⟩ := rfl
    simp only [Int.cast_ofNat_Int] at e'
    have e2 : decBody c t (78 :: 111 :: 75 :: 86 :: t :: encodeBody t b) { pos := 5, alloc := al } =
        (Out.ok b, { pos := ((5 + (encodeBody t b).length : Nat) : Int), alloc := al' }) := e'
    rw [e2]

theorem le32_leNat (x : Nat) (hx : x < two32) : leNat (le32 x) = x := by
  unfold two32 at hx
  simp [le32, leNat]
  omega

/-- `readEdit(writeEdit(e)) = e`: the framed form that is actually persisted. -/
theorem readEdit_frameEdit (c : CodecCfg) (e : Edit) (h : e.WF) (hl : (encodeEdit e).length < oomLimit) :
    (readEdit c (frameEdit e)).1 = .ok e := by
  unfold readEdit frameEdit
  have h4 : (le32 (encodeEdit e).length).length = 4 := by simp [le32]
  have hlen : ¬ ((le32 (encodeEdit e).length ++ encodeEdit e).length < 4) := by
    simp only [List.length_append, h4]; omega
  simp only [hlen, ↓reduceIte]
  have htake : (le32 (encodeEdit e).length ++ encodeEdit e).take 4 = le32 (encodeEdit e).length := by
    rw [← h4]; simp
  have hdrop : (le32 (encodeEdit e).length ++ encodeEdit e).drop 4 = encodeEdit e := by
    rw [← h4]; simp
  rw [htake, hdrop, le32_leNat _ (by unfold oomLimit two32 at *; omega)]
  simp only [List.length_append, h4, Nat.add_sub_cancel_left, Nat.min_self, ite_self]
  have h1 : ¬ ((encodeEdit e).length ≥ oomLimit) := by omega
  simp only [h1, ↓reduceIte, Nat.lt_irrefl, List.take_length]
  exact decodeEdit_encodeEdit c e h (by unfold oomLimit two63 at *; omega) _

end NoKV.Codec

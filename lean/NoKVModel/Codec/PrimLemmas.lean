/-
Lemmas about the E-Bytes primitives: uvarint round trip (for every value below 2^64 and any
trailing bytes), shape of the encoding, fixed-width integers.
-/
import NoKVModel.Codec.Prim

namespace NoKV.Codec

theorem mul_split (x m : Nat) : x % 128 * m + x / 128 * (m * 128) = x * m := by
  have h := Nat.div_add_mod x 128
  grind

theorem pow_split (f : Nat) (hf : 1 ≤ f) : 2 ^ (7 * (f + 1) - 6) = 128 * 2 ^ (7 * f - 6) := by
  have : 7 * (f + 1) - 6 = 7 + (7 * f - 6) := by omega
  rw [this, Nat.pow_add]

theorem putUvarintF_length_pos (f x : Nat) (hf : 1 ≤ f) : 1 ≤ (putUvarintF f x).length := by
  cases f with
  | zero => omega
  | succ f => unfold putUvarintF; split <;> simp

theorem putUvarintF_length_le (f x : Nat) : (putUvarintF f x).length ≤ f := by
  induction f generalizing x with
  | zero => simp [putUvarintF]
  | succ f ih =>
    unfold putUvarintF
    split
    · simp
    · simp; exact ih _

/-- `binary.Uvarint` inverts `AppendUvarint`, whatever follows the varint. -/
theorem uvarintAux_put (f : Nat) : ∀ (x i acc m : Nat) (rest : Bytes), i + f = 10 → 1 ≤ f →
    x < 2 ^ (7 * f - 6) →
    uvarintAux (putUvarintF f x ++ rest) i acc m =
      (acc + x * m, ((i + (putUvarintF f x).length : Nat) : Int)) := by
  induction f with
  | zero => intro x i acc m rest _ hf; omega
  | succ f ih =>
    intro x i acc m rest hi _ hx
    unfold putUvarintF
    by_cases hlt : x < 128
    · simp only [hlt, ↓reduceIte, List.singleton_append, List.length_singleton]
      unfold uvarintAux
      have h10 : ¬ i = 10 := by omega
      have h9 : ¬ (i = 9 ∧ x > 1) := by
        rintro ⟨h9, hx1⟩
        have : f = 0 := by omega
        subst this
        simp at hx
        omega
      simp [h10, hlt, h9]
    · simp only [hlt, ↓reduceIte, List.cons_append, List.length_cons]
      have hf1 : 1 ≤ f := by
        cases f with
        | zero => simp at hx; omega
        | succ f => omega
      unfold uvarintAux
      have h10 : ¬ i = 10 := by omega
      have hb : ¬ (x % 128 + 128 < 128) := by omega
      have hmod : (x % 128 + 128) % 128 = x % 128 := by omega
      simp only [h10, hb, ↓reduceIte, hmod]
      have hx' : x / 128 < 2 ^ (7 * f - 6) := by
        rw [pow_split f hf1] at hx
        exact Nat.div_lt_of_lt_mul hx
      rw [ih (x / 128) (i + 1) (acc + x % 128 * m) (m * 128) rest (by omega) hf1 hx']
      have := mul_split x m
      refine Prod.ext ?_ ?_
      · simp only; omega
      · simp only; omega

theorem putUvarint_length (x : Nat) : 1 ≤ (putUvarint x).length ∧ (putUvarint x).length ≤ 10 :=
  ⟨putUvarintF_length_pos 10 x (by omega), putUvarintF_length_le 10 x⟩

/-- `binary.Uvarint(AppendUvarint(nil, x) ++ rest) = (x, len)` for every `x < 2^64`. -/
theorem uvarintGo_put (x : Nat) (hx : x < two64) (rest : Bytes) :
    uvarintGo (putUvarint x ++ rest) = (x, ((putUvarint x).length : Int)) := by
  unfold uvarintGo putUvarint
  rw [uvarintAux_put 10 x 0 0 1 rest (by omega) (by omega) (by simpa [two64] using hx)]
  simp

/-- every byte of an encoding is a byte -/
theorem putUvarintF_bytes (f x : Nat) : ∀ b ∈ putUvarintF f x, b < 256 := by
  induction f generalizing x with
  | zero => simp [putUvarintF]
  | succ f ih =>
    unfold putUvarintF
    split
    · intro b hb; simp at hb; omega
    · intro b hb
      simp at hb
      rcases hb with hb | hb
      · omega
      · exact ih _ b hb

/-- the width `binary.Uvarint` reports never exceeds the bytes it was given -/
theorem uvarintAux_n_le (buf : Bytes) : ∀ (i x m : Nat),
    (uvarintAux buf i x m).2 ≤ ((i + buf.length : Nat) : Int) := by
  induction buf with
  | nil => intro i x m; simp [uvarintAux]
  | cons b rest ih =>
    intro i x m
    unfold uvarintAux
    split
    · simp only; omega
    · split
      · split
        · simp only; omega
        · simp only [List.length_cons]; omega
      · have := ih (i + 1) (x + b % 128 * m) (m * 128)
        simp only [List.length_cons]
        omega

theorem uvarintGo_n_le (buf : Bytes) : (uvarintGo buf).2 ≤ (buf.length : Int) := by
  have := uvarintAux_n_le buf 0 0 1
  simpa [uvarintGo] using this

/-! ### Go integer conversions -/

theorem toI64_of_lt {n : Nat} (h : n < two63) : toI64 n = (n : Int) := by
  unfold toI64 two63 two64 at *
  have : n % 18446744073709551616 = n := Nat.mod_eq_of_lt (by omega)
  simp only [this]
  split <;> omega

theorem toI64_neg {n : Nat} (h1 : two63 ≤ n) (h2 : n < two64) : toI64 n = (n : Int) - (two64 : Int) := by
  unfold toI64 two63 two64 at *
  have : n % 18446744073709551616 = n := Nat.mod_eq_of_lt (by omega)
  simp only [this]
  split <;> omega

theorem i64_of_range {z : Int} (h1 : -(two63 : Int) ≤ z) (h2 : z < (two63 : Int)) : i64 z = z := by
  unfold i64 two63 two64 at *
  omega

theorem toU64_of_range {z : Int} (h1 : 0 ≤ z) (h2 : z < (two64 : Int)) : toU64 z = z.toNat := by
  unfold toU64
  rw [Int.emod_eq_of_lt h1 h2]

end NoKV.Codec

/-
kv/value.go: ValueStruct.EncodeValue/DecodeValue, ValuePtr.Encode/Decode;
kv/entry_codec.go: EntryHeader.Encode/Decode/DecodeFrom, EncodeEntryTo, DecodeEntryFrom,
DecodeValueSlice — as they are.  The checksum is a parameter `crc : Bytes → Nat` (CRC-32C in
the driver; the theorems hold for every function).
-/
import NoKVModel.Codec.Cfg
import NoKVModel.Codec.Prim

namespace NoKV.Codec

structure ValueStruct where
  mt : Nat
  expiresAt : Nat
  value : Bytes
  deriving DecidableEq, Repr

/-- loop of `sizeVarint` in kv/value.go: `for { n++; x >>= 7; if x == 0 { break } }`
(at most 10 rounds for a uint64) -/
def sizeVarintF : Nat → Nat → Nat
  | 0, _ => 0
  | f + 1, x => if x / 128 = 0 then 1 else 1 + sizeVarintF f (x / 128)

/-- `sizeVarint(x)`: the number of bytes `binary.PutUvarint` emits for `x` -/
def sizeVarint (x : Nat) : Nat := sizeVarintF 10 x

/-- `ValueStruct.EncodedSize()` (before the `uint32` conversion) -/
def valueEncodedSize (v : ValueStruct) : Nat := v.value.length + 1 + sizeVarint v.expiresAt

def encodeValue (v : ValueStruct) : Bytes := [v.mt] ++ putUvarint v.expiresAt ++ v.value

/-- `DecodeValue(buf)`: `buf[0]`, `Uvarint(buf[1:])`, `buf[1+sz:]` with no check at all
(as-is); the checked variant reports an error where the as-is code panics or mis-reads. -/
def decodeValue (c : CodecCfg) (buf : Bytes) : Out ValueStruct :=
  match buf with
  | [] => if c.vsDecodeChecked then .err .gen else .panic
  | m :: rest =>
    let r := uvarintGo rest
    if c.vsDecodeChecked ∧ r.2 ≤ 0 then .err .gen
    else if 1 + r.2 < 0 then .panic
    else .ok ⟨m, r.1, buf.drop (1 + r.2).toNat⟩

structure ValuePtr where
  len : Nat
  offset : Nat
  fid : Nat
  bucket : Nat
  deriving DecidableEq, Repr

def encodePtr (p : ValuePtr) : Bytes := be32 p.len ++ be32 p.offset ++ be32 p.fid ++ be32 p.bucket

def decodePtr (b : Bytes) : ValuePtr :=
  if b.length < 16 then ⟨0, 0, 0, 0⟩
  else ⟨beNat (b.take 4), beNat ((b.drop 4).take 4), beNat ((b.drop 8).take 4), beNat ((b.drop 12).take 4)⟩

structure Header where
  klen : Nat
  vlen : Nat
  mt : Nat
  expiresAt : Nat
  deriving DecidableEq, Repr

def encodeHeader (h : Header) : Bytes :=
  putUvarint h.klen ++ putUvarint h.vlen ++ putUvarint h.mt ++ putUvarint h.expiresAt

/-- `EntryHeader.Decode(buf)`: header and number of bytes consumed -/
def decodeHeader : P (Header × Int) := do
  let klen ← uvChecked
  let vlen ← uvChecked
  let mt ← uvChecked
  if mt > 255 then P.fail .gen else do
  let exp ← uvChecked
  let pos ← P.getPos
  pure (⟨klen % two32, vlen % two32, mt, exp⟩, pos)

/-- `EntryHeader.DecodeFrom(hashReader)`: header and bytes read, or the error and the bytes
read so far. -/
def headerFrom (d : Bytes) : Except (EK × Nat) (Header × Nat) :=
  match readUvarint d with
  | .error (k, n) => .error (k, n)
  | .ok (klen, n1) =>
    match readUvarint (d.drop n1) with
    | .error (k, n) => .error (k, n1 + n)
    | .ok (vlen, n2) =>
      match readUvarint (d.drop (n1 + n2)) with
      | .error (k, n) => .error (k, n1 + n2 + n)
      | .ok (mt, n3) =>
        if mt > 255 then .error (.gen, n1 + n2 + n3)
        else
          match readUvarint (d.drop (n1 + n2 + n3)) with
          | .error (k, n) => .error (k, n1 + n2 + n3 + n)
          | .ok (exp, n4) => .ok (⟨klen % two32, vlen % two32, mt, exp⟩, n1 + n2 + n3 + n4)

structure Entry where
  key : Bytes
  value : Bytes
  mt : Nat
  expiresAt : Nat
  deriving DecidableEq, Repr

/-- `Entry.EncodedSize()`: value bytes plus the varint widths of meta and expiry -/
def entryEncodedSize (e : Entry) : Nat := e.value.length + sizeVarint e.mt + sizeVarint e.expiresAt

def encodeEntry (crc : Bytes → Nat) (e : Entry) : Bytes :=
  let body := encodeHeader ⟨e.key.length, e.value.length, e.mt, e.expiresAt⟩ ++ e.key ++ e.value
  body ++ be32 (crc body)

/-- `DecodeEntry(data)` = `DecodeEntryFrom(bytes.NewReader(data))`: entry and header length;
second component = bytes the decoder allocated for key and value. -/
def decodeEntry (c : CodecCfg) (crc : Bytes → Nat) (d : Bytes) : Out (Entry × Nat) × Nat :=
  match headerFrom d with
  | .error (k, n) =>
    ((if k = .eof ∨ k = .ueof then (if n = 0 ∧ k = .eof then .err .eof else .err .part) else .err .gen), 0)
  | .ok (h, hlen) =>
    let r1 := d.drop hlen
    let a1 := if c.entryAllocBounded then min h.klen r1.length else h.klen
    if a1 ≥ oomLimit then (.oom, a1)
    else if r1.length < h.klen then (.err .part, a1)
    else
      let r2 := r1.drop h.klen
      let a2 := if c.entryAllocBounded then min h.vlen r2.length else h.vlen
      if a2 ≥ oomLimit then (.oom, a1 + a2)
      else if r2.length < h.vlen then (.err .part, a1 + a2)
      else
        let r3 := r2.drop h.vlen
        if r3.length < 4 then (.err .part, a1 + a2)
        else if beNat (r3.take 4) ≠ crc (d.take (hlen + h.klen + h.vlen)) then (.err .crc, a1 + a2)
        else (.ok (⟨r1.take h.klen, r2.take h.vlen, h.mt, h.expiresAt⟩, hlen), a1 + a2)

/-- `DecodeValueSlice(data)`: the value bytes and the header -/
def decodeValueSlice (crc : Bytes → Nat) (d : Bytes) : Out (Bytes × Header) :=
  match decodeHeader d ⟨0, 0⟩ with
  | (.ok (h, idx), _) =>
    let pend := idx.toNat + h.klen + h.vlen
    if pend + 4 > d.length then .err .gen
    else if beNat ((d.drop pend).take 4) ≠ crc (d.take pend) then .err .crc
    else .ok ((d.drop (idx.toNat + h.klen)).take h.vlen, h)
  | (.err k, _) => .err k
  | (.panic, _) => .panic
  | (.oom, _) => .oom

/-! CRC-32C (Castagnoli), bitwise, for the driver. -/

def crcBit (x : Nat) : Nat := if x % 2 = 1 then (x / 2) ^^^ 0x82F63B78 else x / 2

def crcByte (crc b : Nat) : Nat :=
  let x := crc ^^^ b
  crcBit (crcBit (crcBit (crcBit (crcBit (crcBit (crcBit (crcBit x)))))))

def crc32c (bs : Bytes) : Nat := (bs.foldl crcByte 0xFFFFFFFF) ^^^ 0xFFFFFFFF

end NoKV.Codec

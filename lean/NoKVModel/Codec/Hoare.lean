/-
Two small program logics for the parser monad `P`:

* `Parses p enc a` — wherever `enc` occurs in the input (any prefix, any trailing bytes, any
  allocation counter), `p` started there returns `a` and stops right behind `enc`.
  Compositional (`Parses.bind`), used for the round-trip theorems.
* `Safe d I k p` — on input `d`, from any state satisfying the invariant `I`, `p` neither
  panics nor runs out of memory, allocates at most `k` more bytes, and re-establishes `I`
  when it succeeds.  Used for the `∀ bytes` safety theorems.
-/
import NoKVModel.Codec.PrimLemmas

namespace NoKV.Codec

def Parses {α : Type} (p : P α) (enc : Bytes) (a : α) : Prop :=
  ∀ (d : Bytes) (n al : Nat) (rest : Bytes), d.length < two63 → n ≤ d.length → d.drop n = enc ++ rest →
    ∃ al', p d ⟨(n : Int), al⟩ = (.ok a, ⟨((n + enc.length : Nat) : Int), al'⟩)

theorem drop_after {d : Bytes} {n : Nat} {e1 r : Bytes} (hn : n ≤ d.length)
    (h : d.drop n = e1 ++ r) : d.drop (n + e1.length) = r ∧ n + e1.length ≤ d.length := by
  constructor
  · rw [← List.drop_drop, h]; simp
  · have := congrArg List.length h
    simp at this
    omega

theorem Parses.bind {α β : Type} {p : P α} {f : α → P β} {e1 e2 : Bytes} {a : α} {b : β}
    (h1 : Parses p e1 a) (h2 : Parses (f a) e2 b) : Parses (p >>= f) (e1 ++ e2) b := by
  intro d n al rest hl hn h
  rw [List.append_assoc] at h
  obtain ⟨al1, e1'⟩ := h1 d n al (e2 ++ rest) hl hn h
  obtain ⟨hd, hle⟩ := drop_after hn h
  obtain ⟨al2, e2'⟩ := h2 d (n + e1.length) al1 rest hl hle hd
  refine ⟨al2, ?_⟩
  show P.bind p f d _ = _
  unfold P.bind
  rw [e1']
  simp only
  rw [e2']
  simp [Nat.add_assoc]

/-- a step that consumes nothing -/
theorem Parses.bind0 {α β : Type} {p : P α} {f : α → P β} {e : Bytes} {a : α} {b : β}
    (h1 : Parses p [] a) (h2 : Parses (f a) e b) : Parses (p >>= f) e b := by
  have := Parses.bind h1 h2
  simpa using this

theorem Parses.pure {α : Type} (a : α) : Parses (Pure.pure a : P α) [] a := by
  intro d n al rest _ _ _
  exact ⟨al, by simp [Pure.pure, P.pure]⟩

theorem Parses.bind_pure {α β : Type} {p : P α} {g : α → β} {e : Bytes} {a : α}
    (h : Parses p e a) : Parses (p >>= fun x => (Pure.pure (g x) : P β)) e (g a) := by
  have := Parses.bind (f := fun x => (Pure.pure (g x) : P β)) h (Parses.pure (g a))
  simpa using this

theorem Parses.congr {α : Type} {p : P α} {e e' : Bytes} {a a' : α} (h : Parses p e a)
    (he : e = e') (ha : a = a') : Parses p e' a' := by
  subst he; subst ha; exact h

theorem Parses.ite_pos {α : Type} {c : Prop} [Decidable c] {t e : P α} {enc : Bytes} {a : α}
    (hc : c) (h : Parses t enc a) : Parses (if c then t else e) enc a := by
  simp [hc]; exact h

theorem Parses.ite_neg {α : Type} {c : Prop} [Decidable c] {t e : P α} {enc : Bytes} {a : α}
    (hc : ¬ c) (h : Parses e enc a) : Parses (if c then t else e) enc a := by
  simp [hc]; exact h

theorem pos_lt_of_drop {d : Bytes} {n : Nat} {enc rest : Bytes} (h : d.drop n = enc ++ rest)
    (hne : enc ≠ []) : n < d.length := by
  have := congrArg List.length h
  simp at this
  have : 0 < enc.length := List.length_pos_iff.mpr hne
  omega

theorem Parses.ifMore {α : Type} {A B : P α} {enc : Bytes} {a : α} (hne : enc ≠ [])
    (h : Parses A enc a) : Parses (ifMore A B) enc a := by
  intro d n al rest hl hn hd
  have hlt := pos_lt_of_drop hd hne
  obtain ⟨al', e⟩ := h d n al rest hl hn hd
  refine ⟨al', ?_⟩
  unfold NoKV.Codec.ifMore
  have : ((n : Int) < (d.length : Int)) := by omega
  simp only [this, ↓reduceIte]
  exact e

theorem Parses.ifWithin {α : Type} {A B : P α} {enc : Bytes} {a : α}
    (h : Parses A enc a) : Parses (ifWithin A B) enc a := by
  intro d n al rest hl hn hd
  obtain ⟨al', e⟩ := h d n al rest hl hn hd
  refine ⟨al', ?_⟩
  unfold NoKV.Codec.ifWithin
  have : ((n : Int) ≤ (d.length : Int)) := by omega
  simp only [this, ↓reduceIte]
  exact e

theorem Parses.ifAtEnd {α : Type} {A B : P α} {enc : Bytes} {a : α} (hne : enc ≠ [])
    (h : Parses B enc a) : Parses (ifAtEnd A B) enc a := by
  intro d n al rest hl hn hd
  have hlt := pos_lt_of_drop hd hne
  obtain ⟨al', e⟩ := h d n al rest hl hn hd
  refine ⟨al', ?_⟩
  unfold NoKV.Codec.ifAtEnd
  have : ¬ ((n : Int) = (d.length : Int)) := by omega
  simp only [this, ↓reduceIte]
  exact e

theorem getD_of_drop {d : Bytes} {n : Nat} {x : Nat} {rest : Bytes} (h : d.drop n = x :: rest) :
    d.getD n 0 = x := by
  have h2 : (d.drop n)[0]? = some x := by rw [h]; rfl
  rw [List.getElem?_drop] at h2
  simp at h2
  simp [List.getD, h2]

theorem Parses.nextByte (x : Nat) : Parses nextByte [x] x := by
  intro d n al rest hl hn hd
  have hlt := pos_lt_of_drop hd (by simp)
  refine ⟨al, ?_⟩
  unfold NoKV.Codec.nextByte
  have h1 : ¬ ((n : Int) ≥ (d.length : Int)) := by omega
  have h2 : (0 : Int) ≤ (n : Int) := by omega
  simp only [h1, h2, ↓reduceIte, Int.toNat_natCast]
  rw [getD_of_drop (by simpa using hd)]
  simp

theorem Parses.uvChecked (x : Nat) (hx : x < two64) : Parses uvChecked (putUvarint x) x := by
  intro d n al rest hl hn hd
  refine ⟨al, ?_⟩
  unfold NoKV.Codec.uvChecked
  have h1 : (0 : Int) ≤ (n : Int) ∧ (n : Int) ≤ (d.length : Int) := by omega
  simp only [h1, and_self, ↓reduceIte, Int.toNat_natCast, hd, uvarintGo_put x hx rest]
  have := (putUvarint_length x).1
  have hne : putUvarint x ≠ [] := by
    intro h; rw [h] at this; simp at this
  simp [hne]

/-! ### safety -/

def Safe {α : Type} (d : Bytes) (I : St → Prop) (k : Nat) (p : P α) : Prop :=
  ∀ s, I s → (p d s).1 ≠ .panic ∧ (p d s).1 ≠ .oom ∧ (p d s).2.alloc ≤ s.alloc + k ∧
    ((∃ a, (p d s).1 = .ok a) → I (p d s).2)

theorem Safe.bind {α β : Type} {d : Bytes} {I : St → Prop} {k1 k2 : Nat} {p : P α} {f : α → P β}
    (h1 : Safe d I k1 p) (h2 : ∀ a, Safe d I k2 (f a)) : Safe d I (k1 + k2) (p >>= f) := by
  intro s hs
  obtain ⟨np, no, hal, hI⟩ := h1 s hs
  have hb : (p >>= f) d s = P.bind p f d s := rfl
  rw [hb]
  unfold P.bind
  cases hr : p d s with
  | mk o s' =>
    rw [hr] at np no hal hI
    cases o with
    | ok a =>
      simp only
      obtain ⟨np2, no2, hal2, hI2⟩ := h2 a s' (hI ⟨a, rfl⟩)
      refine ⟨np2, no2, ?_, hI2⟩
      simp only at hal
      omega
    | err k =>
      simp only at hal
      refine ⟨by simp, by simp, by simp only; omega, ?_⟩
      rintro ⟨a, ha⟩
      simp at ha
    | panic => exact absurd rfl np
    | oom => exact absurd rfl no

theorem Safe.mono {α : Type} {d : Bytes} {I : St → Prop} {k k' : Nat} {p : P α}
    (h : Safe d I k p) (hk : k ≤ k') : Safe d I k' p := by
  intro s hs
  obtain ⟨a, b, c, e⟩ := h s hs
  exact ⟨a, b, by omega, e⟩

theorem Safe.pure {α : Type} {d : Bytes} {I : St → Prop} {k : Nat} (a : α) :
    Safe d I k (Pure.pure a : P α) := by
  intro s hs
  simp [Pure.pure, P.pure, hs]

theorem Safe.fail {α : Type} {d : Bytes} {I : St → Prop} {k : Nat} (e : EK) :
    Safe d I k (P.fail e : P α) := by
  intro s hs
  simp [P.fail]

theorem Safe.ite {α : Type} {d : Bytes} {I : St → Prop} {k : Nat} {c : Prop} [Decidable c]
    {t e : P α} (ht : Safe d I k t) (he : Safe d I k e) : Safe d I k (if c then t else e) := by
  by_cases hc : c <;> simp [hc] <;> assumption

theorem Safe.ifMore {α : Type} {d : Bytes} {I : St → Prop} {k : Nat} {A B : P α}
    (hA : Safe d I k A) (hB : Safe d I k B) : Safe d I k (ifMore A B) := by
  intro s hs
  unfold NoKV.Codec.ifMore
  by_cases hc : s.pos < d.length <;> simp only [hc, ↓reduceIte]
  · exact hA s hs
  · exact hB s hs

theorem Safe.ifWithin {α : Type} {d : Bytes} {I : St → Prop} {k : Nat} {A B : P α}
    (hA : Safe d I k A) (hB : Safe d I k B) : Safe d I k (ifWithin A B) := by
  intro s hs
  unfold NoKV.Codec.ifWithin
  by_cases hc : s.pos ≤ d.length <;> simp only [hc, ↓reduceIte]
  · exact hA s hs
  · exact hB s hs

theorem Safe.ifAtEnd {α : Type} {d : Bytes} {I : St → Prop} {k : Nat} {A B : P α}
    (hA : Safe d I k A) (hB : Safe d I k B) : Safe d I k (ifAtEnd A B) := by
  intro s hs
  unfold NoKV.Codec.ifAtEnd
  by_cases hc : s.pos = d.length <;> simp only [hc, ↓reduceIte]
  · exact hA s hs
  · exact hB s hs

end NoKV.Codec

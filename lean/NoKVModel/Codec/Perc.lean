/-
percolator/codec.go: EncodeLock / DecodeLock / EncodeWrite / DecodeWrite, as they are.
-/
import NoKVModel.Codec.Cfg
import NoKVModel.Codec.Prim

namespace NoKV.Codec

structure Lock where
  primary : Bytes
  ts : Nat
  ttl : Nat
  kind : Nat
  minCommitTs : Nat
  deriving DecidableEq, Repr

structure Write where
  kind : Nat
  startTs : Nat
  short : Bytes
  deriving DecidableEq, Repr

def encodeLock (l : Lock) : Bytes :=
  [1] ++ putUvarint l.primary.length ++ l.primary ++ putUvarint l.ts ++ putUvarint l.ttl ++
    [l.kind] ++ putUvarint l.minCommitTs

def encodeWrite (w : Write) : Bytes :=
  [1, w.kind] ++ putUvarint w.startTs ++
    (if w.short.length > 0 then [1] ++ putUvarint w.short.length ++ w.short else [0])

/-- the declared-length check in front of `data[pos:pos+int(n)]`:
`true` = the decoder returns its "truncated" error. -/
def lenGuardFails (g : LenGuard) (pos : Int) (n : Nat) (len : Int) : Bool :=
  match g with
  | .intwrap => decide (i64 (pos + toI64 n) > len)
  | .u64 => decide (n > toU64 (len - pos))

/-- guard, then `data[pos:pos+int(n)]` (copied when `copy`), then `pos += int(n)`. -/
def takeBytes (g : LenGuard) (n : Nat) (copy : Bool) : P Bytes := fun d s =>
  if lenGuardFails g s.pos n d.length then (.err .gen, s)
  else
    let hi := i64 (s.pos + toI64 n)
    if 0 ≤ s.pos ∧ s.pos ≤ hi ∧ hi ≤ d.length then
      (.ok ((d.drop s.pos.toNat).take (hi - s.pos).toNat),
        ⟨hi, s.alloc + (if copy then (hi - s.pos).toNat else 0)⟩)
    else (.panic, s)

/-- `DecodeLock` after the version byte (`pos = 1`) -/
def decodeLockBody (c : CodecCfg) : P Lock := do
  let plen ← uvChecked
  let primary ← takeBytes c.lockLenGuard plen true
  let ts ← uvChecked
  let ttl ← uvChecked
  let kind ← nextByte
  let mc ← ifMore uvChecked (pure 0)
  pure ⟨primary, ts, ttl, kind, mc⟩

def decodeLock (c : CodecCfg) : P Lock := fun d s =>
  match d with
  | [] => (.err .gen, s)
  | v :: _ => if v ≠ 1 then (.err .gen, s) else decodeLockBody c d { s with pos := 1 }

/-- `DecodeWrite` after version and kind (`pos = 2`) -/
def decodeWriteBody (c : CodecCfg) (kind : Nat) : P Write := do
  let startTs ← uvChecked
  ifMore
    (do
      let flag ← nextByte
      if flag = 1 then do
        let sz ← uvChecked
        let short ← takeBytes c.writeLenGuard sz true
        pure ⟨kind, startTs, short⟩
      else pure ⟨kind, startTs, []⟩)
    (pure ⟨kind, startTs, []⟩)

def decodeWrite (c : CodecCfg) : P Write := fun d s =>
  match d with
  | v :: kind :: _ :: _ => if v ≠ 1 then (.err .gen, s) else decodeWriteBody c kind d { s with pos := 2 }
  | _ => (.err .gen, s)

end NoKV.Codec

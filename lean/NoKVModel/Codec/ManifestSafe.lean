/-
Safety of the repaired manifest decoder (`manUvarint = sticky`, `manReadBytes = sticky`,
`manPeersBounded = true`): for every input, no panic, no out-of-memory, allocation linear in
the input.  Invariant: `0 ≤ pos` (in sticky mode `pos` may run past `len(data)`; every
primitive is safe there and the truncation checks then reject the edit).
-/
import NoKVModel.Codec.ManifestLemmas

namespace NoKV.Codec

/-- `0 ≤ pos` -/
def Nn (s : St) : Prop := 0 ≤ s.pos

theorem uvAtSticky_width (d : Bytes) (pos : Int) : 1 ≤ (uvAtSticky d pos).2 := by
  unfold uvAtSticky
  by_cases h1 : pos > d.length
  · simp [h1]
  · by_cases h2 : pos < 0
    · simp only [h1, h2, ↓reduceIte]; omega
    · by_cases h3 : (uvarintGo (d.drop pos.toNat)).2 ≤ 0
      · simp only [h1, h2, h3, ↓reduceIte]; omega
      · simp only [h1, h2, h3, ↓reduceIte]; omega

theorem safe_manUv_sticky (c : CodecCfg) (hc : c.manUvarint = .sticky) (d : Bytes) :
    Safe d Nn 0 (manUv c) := by
  intro s hs
  unfold Nn at hs
  unfold NoKV.Codec.manUv
  rw [hc]
  simp only
  have := uvAtSticky_width d s.pos
  refine ⟨by simp, by simp, by simp, ?_⟩
  intro _
  unfold Nn
  simp only
  omega

theorem manBytes_sticky_spec (c : CodecCfg) (hc : c.manReadBytes = .sticky) (d : Bytes)
    (hl : d.length < two63) (s : St) (hs : 0 ≤ s.pos) :
    ∃ b s', manBytes c d s = (.ok b, s') ∧ 0 ≤ s'.pos ∧ s'.alloc = s.alloc ∧ b.length ≤ d.length := by
  unfold NoKV.Codec.manBytes
  rw [hc]
  simp only
  have hw := uvAtSticky_width d s.pos
  by_cases h1 : s.pos + (uvAtSticky d s.pos).2 > d.length
  · simp only [h1, ↓reduceIte]
    exact ⟨_, _, rfl, by simp only; omega, rfl, by simp⟩
  · simp only [h1, ↓reduceIte]
    have hu : toU64 ((d.length : Int) - s.pos - (uvAtSticky d s.pos).2) =
        ((d.length : Int) - s.pos - (uvAtSticky d s.pos).2).toNat :=
      toU64_of_range (by omega) (by unfold two63 two64 at *; omega)
    rw [hu]
    by_cases h2 : (uvAtSticky d s.pos).1 > ((d.length : Int) - s.pos - (uvAtSticky d s.pos).2).toNat
    · simp only [h2, ↓reduceIte]
      exact ⟨_, _, rfl, by simp only; omega, rfl, by simp⟩
    · simp only [h2, ↓reduceIte]
      have h63 : (uvAtSticky d s.pos).1 < two63 := by omega
      refine ⟨_, _, rfl, ?_, rfl, ?_⟩
      · simp only [toI64_of_lt h63]; omega
      · simp only [List.length_take, List.length_drop]; omega

theorem safe_manBytes_sticky (c : CodecCfg) (hc : c.manReadBytes = .sticky) (d : Bytes)
    (hl : d.length < two63) : Safe d Nn 0 (manBytes c) := by
  intro s hs
  obtain ⟨b, s', e, h1, h2, _⟩ := manBytes_sticky_spec c hc d hl s hs
  rw [e]
  exact ⟨by simp, by simp, by simp only; omega, fun _ => h1⟩

theorem safe_manBytesC_sticky (c : CodecCfg) (hc : c.manReadBytes = .sticky) (d : Bytes)
    (hl : d.length < two63) : Safe d Nn d.length (manBytesC c) := by
  intro s hs
  obtain ⟨b, s', e, h1, h2, h3⟩ := manBytes_sticky_spec c hc d hl s hs
  unfold NoKV.Codec.manBytesC
  rw [e]
  exact ⟨by simp, by simp, by simp only; omega, fun _ => h1⟩

theorem safe_chkPos (d : Bytes) (I : St → Prop) : Safe d I 0 chkPos := by
  intro s hs
  unfold NoKV.Codec.chkPos
  split
  · simp
  · exact ⟨by simp, by simp, by simp, fun _ => hs⟩

theorem safe_optByte (d : Bytes) (dflt : Nat) : Safe d Nn 0 (optByte dflt) := by
  intro s hs
  unfold Nn at hs
  unfold NoKV.Codec.optByte
  split
  · simp only [hs, ↓reduceIte]
    refine ⟨by simp, by simp, by simp, fun _ => ?_⟩
    unfold Nn; simp only; omega
  · exact ⟨by simp, by simp, by simp, fun _ => hs⟩

theorem safe_peersAlloc (c : CodecCfg) (hc : c.manPeersBounded = true) (d : Bytes)
    (hsmall : 8 * d.length < oomLimit) (count : Nat) : Safe d Nn (16 * d.length) (peersAlloc c count) := by
  intro s hs
  unfold Nn at hs
  unfold NoKV.Codec.peersAlloc
  by_cases h1 : s.pos > d.length
  · simp [h1]
  · simp only [h1, ↓reduceIte, hc, true_and]
    have hu : toU64 ((d.length : Int) - s.pos) = ((d.length : Int) - s.pos).toNat :=
      toU64_of_range (by omega) (by unfold oomLimit two64 at *; omega)
    rw [hu]
    by_cases h2 : count > ((d.length : Int) - s.pos).toNat / 2
    · simp [h2]
    · simp only [h2, ↓reduceIte]
      have hc2 : 2 * count ≤ d.length := by omega
      have h3 : ¬ (16 * count > maxAlloc) := by unfold oomLimit maxAlloc at *; omega
      have h4 : ¬ (16 * count ≥ oomLimit) := by omega
      simp only [h3, h4, ↓reduceIte]
      exact ⟨by simp, by simp, by (try simp only); omega, fun _ => hs⟩

theorem safe_peersLoop (c : CodecCfg) (hc : c.manUvarint = .sticky) (d : Bytes) :
    ∀ (n : Nat) (acc : List Peer), Safe d Nn 0 (fun d s => peersLoop c d n s acc : P (List Peer)) := by
  intro n
  induction n with
  | zero =>
    intro acc s hs
    simp only [peersLoop]
    exact ⟨by simp, by simp, by simp, fun _ => hs⟩
  | succ n ih =>
    intro acc s hs
    simp only [peersLoop]
    obtain ⟨a1, a2, a3, a4⟩ := safe_manUv_sticky c hc d s hs
    cases h1 : manUv c d s with
    | mk o1 s1 =>
      rw [h1] at a1 a2 a3 a4
      cases o1 with
      | ok sid =>
        simp only
        have hs1 := a4 ⟨sid, rfl⟩
        obtain ⟨b1, b2, b3, b4⟩ := safe_manUv_sticky c hc d s1 hs1
        cases h2 : manUv c d s1 with
        | mk o2 s2 =>
          rw [h2] at b1 b2 b3 b4
          cases o2 with
          | ok pid =>
            simp only
            have hs2 := b4 ⟨pid, rfl⟩
            split
            · refine ⟨by simp, by simp, by simp only at a3 b3 ⊢; omega, ?_⟩
              rintro ⟨a, ha⟩; simp at ha
            · have hh := ih (⟨sid, pid⟩ :: acc) s2 hs2
              simp only at hh
              obtain ⟨c1, c2, c3, c4⟩ := hh
              simp only at a3 b3
              exact ⟨c1, c2, by omega, c4⟩
          | err k =>
            refine ⟨by simp, by simp, by simp only at a3 b3 ⊢; omega, ?_⟩
            rintro ⟨a, ha⟩; simp at ha
          | panic => exact absurd rfl b1
          | oom => exact absurd rfl b2
      | err k =>
        refine ⟨by simp, by simp, by simp only at a3 ⊢; omega, ?_⟩
        rintro ⟨a, ha⟩; simp at ha
      | panic => exact absurd rfl a1
      | oom => exact absurd rfl a2

/-- the guard configuration under which `decodeEdit` is safe -/
def ManGood (c : CodecCfg) : Prop :=
  c.manUvarint = .sticky ∧ c.manReadBytes = .sticky ∧ c.manPeersBounded = true

instance CodecCfg.decManGood (c : CodecCfg) : Decidable (ManGood c) := by
  unfold ManGood; infer_instance

theorem safe_optUv (c : CodecCfg) (hc : c.manUvarint = .sticky) (d : Bytes) : Safe d Nn 0 (optUv c) := by
  unfold optUv
  exact Safe.ifMore (Safe.bind (safe_manUv_sticky c hc d) fun _ =>
    Safe.bind (safe_chkPos d Nn) fun _ => Safe.pure (k := 0) _) (Safe.pure _)

theorem safe_decBody (c : CodecCfg) (hc : ManGood c) (d : Bytes) (hsmall : 8 * d.length < oomLimit)
    (t : Nat) : Safe d Nn (18 * d.length) (decBody c t) := by
  obtain ⟨h1, h2, h3⟩ := hc
  have hl : d.length < two63 := by unfold oomLimit two63 at *; omega
  have U := safe_manUv_sticky c h1 d
  have B := safe_manBytes_sticky c h2 d hl
  have BC := safe_manBytesC_sticky c h2 d hl
  have C := safe_chkPos d Nn
  have O := safe_optByte d 0
  have OU := safe_optUv c h1 d
  unfold decBody
  refine Safe.ite ?_ (Safe.ite ?_ (Safe.ite ?_ (Safe.ite ?_ (Safe.ite ?_ (Safe.ite ?_ (Safe.ite ?_ (Safe.pure _)))))))
  · unfold decFile
    exact Safe.mono (Safe.bind U fun _ => Safe.bind U fun _ => Safe.bind U fun _ => Safe.bind B fun _ =>
      Safe.bind B fun _ => Safe.bind U fun _ =>
      Safe.bind (Safe.ifWithin (Safe.ifAtEnd (Safe.pure _) U) (Safe.pure _)) fun _ =>
      Safe.bind O fun _ => Safe.bind C fun _ => Safe.pure (k := 0) _) (by omega)
  · unfold decLog
    exact Safe.mono (Safe.bind U fun _ => Safe.bind U fun _ => Safe.bind C fun _ => Safe.pure (k := 0) _) (by omega)
  · unfold decVLHead
    exact Safe.mono (Safe.ifMore (Safe.bind U fun _ => Safe.bind U fun _ => Safe.bind U fun _ =>
      Safe.bind C fun _ => Safe.pure (k := 0) _) (Safe.pure _)) (by omega)
  · unfold decVLDelete
    exact Safe.mono (Safe.ifMore (Safe.bind U fun _ => Safe.bind U fun _ =>
      Safe.bind C fun _ => Safe.pure (k := 0) _) (Safe.pure _)) (by omega)
  · unfold decVLUpdate
    exact Safe.mono (Safe.ifMore (Safe.bind U fun _ => Safe.bind U fun _ => Safe.bind U fun _ =>
      Safe.bind C fun _ => Safe.bind O fun _ => Safe.pure (k := 0) _) (Safe.pure _)) (by omega)
  · unfold decRaft
    exact Safe.mono (Safe.ifPayload c (Safe.bind U fun _ => Safe.bind U fun _ => Safe.bind U fun _ =>
      Safe.bind U fun _ => Safe.bind U fun _ => Safe.bind U fun _ => Safe.bind U fun _ => Safe.bind U fun _ =>
      Safe.bind C fun _ => Safe.bind OU fun _ => Safe.bind OU fun _ => Safe.bind OU fun _ =>
      Safe.bind OU fun _ => Safe.pure (k := 0) _) (Safe.pure _)) (by omega)
  · unfold decRegion decRegionRest
    exact Safe.mono (Safe.ifPayload c (Safe.bind U fun _ => Safe.bind C fun _ => Safe.bind O fun _ =>
      Safe.ite (Safe.pure _) (Safe.bind BC fun _ => Safe.bind BC fun _ => Safe.bind U fun _ =>
        Safe.bind U fun _ => Safe.bind C fun _ => Safe.bind O fun _ =>
        Safe.bind (Safe.ifMore U (Safe.pure _)) fun count =>
        Safe.bind (safe_peersAlloc c h3 d hsmall count) fun _ =>
        Safe.bind (safe_peersLoop c h1 d count []) fun _ => Safe.pure (k := 0) _)) (Safe.pure _)) (by omega)

end NoKV.Codec

namespace NoKV.Codec

theorem safe_decodeEdit (c : CodecCfg) (hc : ManGood c) (d : Bytes) (hsmall : 8 * d.length < oomLimit)
    (s : St) : (decodeEdit c d s).1 ≠ .panic ∧ (decodeEdit c d s).1 ≠ .oom ∧
      (decodeEdit c d s).2.alloc ≤ s.alloc + 18 * d.length := by
  unfold decodeEdit
  match d with
  | [] => simp
  | [_] => simp
  | [_, _] => simp
  | [_, _, _] => simp
  | [_, _, _, _] => simp
  | a :: b :: e :: f :: t :: rest =>
    simp only
    split
    · simp
    · have hS := safe_decBody c hc (a :: b :: e :: f :: t :: rest) hsmall t { s with pos := 5 }
        (by unfold Nn; simp)
      obtain ⟨h1, h2, h3, _⟩ := hS
      cases hr : decBody c t (a :: b :: e :: f :: t :: rest) { s with pos := 5 } with
      | mk o s' =>
        rw [hr] at h1 h2 h3
        cases o with
        | ok body => exact ⟨by simp, by simp, by simpa using h3⟩
        | err k => exact ⟨by simp, by simp, by simpa using h3⟩
        | panic => exact absurd rfl h1
        | oom => exact absurd rfl h2

end NoKV.Codec

/-
kv/key.go, kv/cf.go, utils/util.go: internal key layout and `CompareKeys`, as they are.
Internal key = ff 'C' 'F' cf | user key | big-endian (MaxUint64 - ts).
-/
import NoKVModel.Codec.Cfg
import NoKVModel.Codec.Prim

namespace NoKV.Codec

def cfMarker : Bytes := [255, 67, 70]
def maxCF : Nat := 2
def maxU64 : Nat := two64 - 1

/-- the 8 timestamp bytes appended by `KeyWithTs` / `InternalKey` -/
def tsBytes (c : CodecCfg) (ts : Nat) : Bytes := be64 (if c.tsInverted then maxU64 - ts else ts)

def keyWithTs (c : CodecCfg) (key : Bytes) (ts : Nat) : Bytes := key ++ tsBytes c ts

/-- `EncodeKeyWithCF` (an invalid family is replaced by the default one) -/
def encodeKeyWithCF (cf : Nat) (key : Bytes) : Bytes := cfMarker ++ [if cf ≤ maxCF then cf else 0] ++ key

def internalKey (c : CodecCfg) (cf : Nat) (key : Bytes) (ts : Nat) : Bytes :=
  encodeKeyWithCF cf key ++ tsBytes c ts

def parseKey (k : Bytes) : Bytes := if k.length < 8 then k else k.take (k.length - 8)

/-- `ParseTs`; `none` = the slice expression `key[len(key)-8:]` panics (only reachable for
an operator other than `<=`/`<`). -/
def parseTs (c : CodecCfg) (k : Bytes) : Option Nat :=
  if c.parseTsMin.nat k.length 8 then some 0
  else if k.length < 8 then none
  else
    let raw := beNat (k.drop (k.length - 8))
    some (if c.tsInverted then maxU64 - raw else raw)

/-- `DecodeKeyCF` : (cf, user key, ok) -/
def decodeKeyCF (k : Bytes) : Nat × Bytes × Bool :=
  match k with
  | a :: b :: c :: cf :: rest =>
    if a = 255 ∧ b = 67 ∧ c = 70 ∧ cf ≤ maxCF then (cf, rest, true) else (0, k, false)
  | _ => (0, k, false)

def splitInternalKey (c : CodecCfg) (k : Bytes) : Option (Nat × Bytes × Nat) :=
  match parseTs c k with
  | some ts => let r := decodeKeyCF (parseKey k); some (r.1, r.2.1, ts)
  | none => none

/-- `utils.CompareKeys`; `none` = `CondPanic` (a key of at most 8 bytes). -/
def compareKeys (a b : Bytes) : Option Ordering :=
  if a.length ≤ 8 ∨ b.length ≤ 8 then none
  else
    let pa := a.take (a.length - 8)
    let pb := b.take (b.length - 8)
    if Bytes.lt pa pb then some .lt
    else if Bytes.lt pb pa then some .gt
    else some (Bytes.cmp (a.drop (a.length - 8)) (b.drop (b.length - 8)))

end NoKV.Codec

/-
manifest/codec.go: writeEdit / readEdit / decodeEdit / readBytes, as they are, with the guard
shapes of `CodecCfg` (`manUvarint`, `manReadBytes`, `manPeersBounded`, `manFrameBounded`).

The as-is decoder never looks at the width `n` that `binary.Uvarint` returns: a truncated
varint (`n = 0`) silently reads as 0 without advancing, an overflowing one (`n < 0`) moves
`pos` *backwards*, possibly below 0, and the next `data[pos:]` panics.
-/
import NoKVModel.Codec.Cfg
import NoKVModel.Codec.Prim

namespace NoKV.Codec

structure FileMeta where
  level : Nat          -- printed as uint64(meta.Level)
  fileID : Nat
  size : Nat
  smallest : Bytes
  largest : Bytes
  created : Nat
  valueSize : Nat
  ingest : Bool
  deriving DecidableEq, Repr

structure VLMeta where
  bucket : Nat
  fid : Nat
  offset : Nat
  valid : Bool
  deriving DecidableEq, Repr

structure Peer where
  store : Nat
  peer : Nat
  deriving DecidableEq, Repr

structure RegionEdit where
  id : Nat
  delete : Bool
  start : Bytes
  end_ : Bytes
  ver : Nat
  confVer : Nat
  state : Nat
  peers : List Peer
  deriving DecidableEq, Repr

/-- RaftLogPointer, fields in declaration order -/
structure RaftPtr where
  group : Nat
  seg : Nat
  off : Nat
  appliedIdx : Nat
  appliedTerm : Nat
  committed : Nat
  snapIdx : Nat
  snapTerm : Nat
  truncIdx : Nat
  truncTerm : Nat
  segIdx : Nat
  truncOff : Nat
  deriving DecidableEq, Repr

def RaftPtr.toList (p : RaftPtr) : List Nat :=
  [p.group, p.seg, p.off, p.appliedIdx, p.appliedTerm, p.committed, p.snapIdx, p.snapTerm,
    p.truncIdx, p.truncTerm, p.segIdx, p.truncOff]

inductive EditBody where
  | file (m : FileMeta)
  | log (seg off : Nat)
  | vl (m : Option VLMeta)
  | raft (p : Option RaftPtr)
  | region (r : Option RegionEdit)
  | none
  deriving DecidableEq, Repr

structure Edit where
  type : Nat
  body : EditBody
  deriving DecidableEq, Repr

def magic : Bytes := [78, 111, 75, 86]   -- "NoKV"

def appendBytes (b : Bytes) : Bytes := putUvarint b.length ++ b

def boolByte (b : Bool) : Nat := if b then 1 else 0

def encodePeers : List Peer → Bytes
  | [] => []
  | p :: ps => putUvarint p.store ++ putUvarint p.peer ++ encodePeers ps

/-- type-specific data of `writeEdit` (the encoder switches on `edit.Type`; a body that does
not belong to the type is not written). -/
def encodeBody (t : Nat) (b : EditBody) : Bytes :=
  match b with
  | .file m =>
    if t = 0 ∨ t = 1 then
      putUvarint m.level ++ putUvarint m.fileID ++ putUvarint m.size ++ appendBytes m.smallest ++
        appendBytes m.largest ++ putUvarint m.created ++ putUvarint m.valueSize ++ [boolByte m.ingest]
    else []
  | .log seg off => if t = 2 then putUvarint seg ++ putUvarint off else []
  | .vl (some m) =>
    if t = 3 then putUvarint m.bucket ++ putUvarint m.fid ++ putUvarint m.offset
    else if t = 4 then putUvarint m.bucket ++ putUvarint m.fid
    else if t = 5 then putUvarint m.bucket ++ putUvarint m.fid ++ putUvarint m.offset ++ [boolByte m.valid]
    else []
  | .vl none => []
  | .raft (some p) =>
    if t = 6 then
      putUvarint p.group ++ putUvarint p.seg ++ putUvarint p.off ++ putUvarint p.appliedIdx ++
        putUvarint p.appliedTerm ++ putUvarint p.committed ++ putUvarint p.snapIdx ++ putUvarint p.snapTerm ++
        putUvarint p.truncIdx ++ putUvarint p.truncTerm ++ putUvarint p.segIdx ++ putUvarint p.truncOff
    else []
  | .raft none => []
  | .region (some r) =>
    if t = 7 then
      if r.delete then putUvarint r.id ++ [1]
      else putUvarint r.id ++ [0] ++ appendBytes r.start ++ appendBytes r.end_ ++ putUvarint r.ver ++
        putUvarint r.confVer ++ [r.state] ++ putUvarint r.peers.length ++ encodePeers r.peers
    else []
  | .region none => []
  | .none => []

def encodeEdit (e : Edit) : Bytes := magic ++ [e.type] ++ encodeBody e.type e.body

/-- what `writeEdit` writes: 4-byte little-endian length, then the payload -/
def frameEdit (e : Edit) : Bytes := le32 (encodeEdit e).length ++ encodeEdit e

/-! ### decoding primitives -/

/-- `uvarintAt(data, pos)` of the repaired decoder. -/
def uvAtSticky (d : Bytes) (pos : Int) : Nat × Int :=
  if pos > d.length then (0, 1)
  else if pos < 0 then (0, (d.length : Int) - pos + 1)
  else
    let r := uvarintGo (d.drop pos.toNat)
    if r.2 ≤ 0 then (0, (d.length : Int) - pos + 1) else r

/-- `v, n := <uvarint at pos>; pos += n` -/
def manUv (c : CodecCfg) : P Nat := fun d s =>
  match c.manUvarint with
  | .raw =>
    if 0 ≤ s.pos ∧ s.pos ≤ d.length then
      let r := uvarintGo (d.drop s.pos.toNat)
      (.ok r.1, { s with pos := s.pos + r.2 })
    else (.panic, s)
  | .sticky =>
    let r := uvAtSticky d s.pos
    (.ok r.1, { s with pos := s.pos + r.2 })

/-- `b, n := readBytes(data[pos:]); pos += n` (as-is) / `readBytesAt(data, pos)` (repaired) -/
def manBytes (c : CodecCfg) : P Bytes := fun d s =>
  match c.manReadBytes with
  | .intwrap =>
    if 0 ≤ s.pos ∧ s.pos ≤ d.length then
      let sub := d.drop s.pos.toNat
      let r := uvarintGo sub
      let e := i64 (r.2 + toI64 r.1)
      if r.2 ≤ 0 ∨ e > sub.length then (.ok [], { s with pos := s.pos + sub.length })
      else if r.2 ≤ e then (.ok ((sub.drop r.2.toNat).take (e - r.2).toNat), { s with pos := s.pos + e })
      else (.panic, s)
    else (.panic, s)
  | .sticky =>
    let r := uvAtSticky d s.pos
    if s.pos + r.2 > d.length then (.ok [], { s with pos := s.pos + r.2 })
    else if r.1 > toU64 ((d.length : Int) - s.pos - r.2) then (.ok [], { s with pos := (d.length : Int) + 1 })
    else (.ok ((d.drop (s.pos + r.2).toNat).take r.1), { s with pos := s.pos + r.2 + toI64 r.1 })

/-- `if pos > len(data) { return err }` -/
def chkPos : P Unit := fun d s => if s.pos > d.length then (.err .gen, s) else (.ok (), s)

/-- `if pos < len(data) { b = data[pos]; pos++ }` else the default -/
def optByte (dflt : Nat) : P Nat := fun d s =>
  if s.pos < d.length then
    if 0 ≤ s.pos then (.ok (d.getD s.pos.toNat 0), { s with pos := s.pos + 1 }) else (.panic, s)
  else (.ok dflt, s)

/-- the peers loop (`for i < peersCount { storeID; peerID; if pos > len {err}; append }`),
written with explicit state so that it is a tail call. -/
def peersLoop (c : CodecCfg) (d : Bytes) : Nat → St → List Peer → Out (List Peer) × St
  | 0, s, acc => (.ok acc.reverse, s)
  | n + 1, s, acc =>
    match manUv c d s with
    | (.ok sid, s1) =>
      match manUv c d s1 with
      | (.ok pid, s2) =>
        if s2.pos > d.length then (.err .gen, s2) else peersLoop c d n s2 (⟨sid, pid⟩ :: acc)
      | (.err k, s2) => (.err k, s2)
      | (.panic, s2) => (.panic, s2)
      | (.oom, s2) => (.oom, s2)
    | (.err k, s1) => (.err k, s1)
    | (.panic, s1) => (.panic, s1)
    | (.oom, s1) => (.oom, s1)

/-- `if pos < len(data) { v, n = uvarint; pos += n; if pos > len(data) { err } }` -/
def optUv (c : CodecCfg) : P Nat :=
  ifMore (do let v ← manUv c; chkPos; pure v) (pure 0)

def decFile (c : CodecCfg) : P EditBody := do
  let level ← manUv c
  let fileID ← manUv c
  let size ← manUv c
  let smallest ← manBytes c
  let largest ← manBytes c
  let created ← manUv c
  let valueSize ← ifWithin (ifAtEnd (pure 0) (manUv c)) (pure 0)
  let ingest ← optByte 0
  chkPos
  pure (.file ⟨level, fileID, size, smallest, largest, created, valueSize, ingest == 1⟩)

def decLog (c : CodecCfg) : P EditBody := do
  let seg ← manUv c
  let off ← manUv c
  chkPos
  pure (.log (seg % two32) off)

def decVLHead (c : CodecCfg) : P EditBody :=
  ifMore (do
    let bucket ← manUv c
    let fid ← manUv c
    let offset ← manUv c
    chkPos
    pure (.vl (some ⟨bucket % two32, fid % two32, offset, true⟩))) (pure (.vl none))

def decVLDelete (c : CodecCfg) : P EditBody :=
  ifMore (do
    let bucket ← manUv c
    let fid ← manUv c
    chkPos
    pure (.vl (some ⟨bucket % two32, fid % two32, 0, false⟩))) (pure (.vl none))

def decVLUpdate (c : CodecCfg) : P EditBody :=
  ifMore (do
    let bucket ← manUv c
    let fid ← manUv c
    let offset ← manUv c
    chkPos
    let b ← optByte 0
    pure (.vl (some ⟨bucket % two32, fid % two32, offset, b == 1⟩))) (pure (.vl none))

/-- `if pos < len(data)` (current) or `if pos <= len(data)` (before 9ece5dd) in front of the
raft-pointer and region arms -/
def ifPayload {α : Type} (c : CodecCfg) (A B : P α) : P α :=
  if c.manNilPayloadLt then ifMore A B else ifWithin A B

def decRaft (c : CodecCfg) : P EditBody :=
  ifPayload c (do
    let g ← manUv c
    let seg ← manUv c
    let off ← manUv c
    let ai ← manUv c
    let at_ ← manUv c
    let cm ← manUv c
    let sni ← manUv c
    let snt ← manUv c
    chkPos
    let ti ← optUv c
    let tt ← optUv c
    let si ← optUv c
    let to ← optUv c
    pure (.raft (some ⟨g, seg % two32, off, ai, at_, cm, sni, snt, ti, tt, si, to⟩))) (pure (.raft none))

/-- `if pos > len(data) { err }`, the bound of the repaired decoder
(`peersCount > uint64(len(data)-pos)/2` is rejected), `make([]PeerMeta, 0, count)`.
The final `append([]PeerMeta(nil), peers...)` copy (at most `count` elements) is accounted
here as well: allocation totals are only used as upper bounds. -/
def peersAlloc (c : CodecCfg) (count : Nat) : P Unit := fun d s =>
  if s.pos > d.length then (.err .gen, s)
  else if c.manPeersBounded ∧ count > toU64 ((d.length : Int) - s.pos) / 2 then (.err .gen, s)
  else if 16 * count > maxAlloc then (.panic, s)
  else if 16 * count ≥ oomLimit then (.oom, { s with alloc := s.alloc + 16 * count })
  else (.ok (), { s with alloc := s.alloc + 32 * count })

/-- `readBytes` of a key that is later copied (`append([]byte(nil), key...)`); the copy is
accounted at read time (upper bound). -/
def manBytesC (c : CodecCfg) : P Bytes := fun d s =>
  match manBytes c d s with
  | (.ok b, s') => (.ok b, { s' with alloc := s'.alloc + b.length })
  | (.err k, s') => (.err k, s')
  | (.panic, s') => (.panic, s')
  | (.oom, s') => (.oom, s')

def decRegionRest (c : CodecCfg) (id : Nat) : P EditBody := do
  let start ← manBytesC c
  let end_ ← manBytesC c
  let ver ← manUv c
  let confVer ← manUv c
  chkPos
  let state ← optByte 0
  let count ← ifMore (manUv c) (pure 0)
  peersAlloc c count
  let peers ← (fun d s => peersLoop c d count s [] : P (List Peer))
  pure (.region (some ⟨id, false, start, end_, ver, confVer, state, peers⟩))

def decRegion (c : CodecCfg) : P EditBody :=
  ifPayload c (do
    let id ← manUv c
    chkPos
    let del ← optByte 0
    if del = 1 then pure (.region (some ⟨id, true, [], [], 0, 0, 0, []⟩))
    else decRegionRest c id) (pure (.region none))

/-- type-specific part of `decodeEdit` (from `pos = 5`) -/
def decBody (c : CodecCfg) (t : Nat) : P EditBody :=
  if t = 0 ∨ t = 1 then decFile c
  else if t = 2 then decLog c
  else if t = 3 then decVLHead c
  else if t = 4 then decVLDelete c
  else if t = 5 then decVLUpdate c
  else if t = 6 then decRaft c
  else if t = 7 then decRegion c
  else pure .none

/-- `decodeEdit(data)` -/
def decodeEdit (c : CodecCfg) : P Edit := fun d s =>
  match d with
  | a :: b :: e :: f :: t :: _ =>
    if [a, b, e, f] ≠ magic then (.err .gen, s)
    else
      match decBody c t d { s with pos := 5 } with
      | (.ok body, s') => (.ok ⟨t, body⟩, s')
      | (.err k, s') => (.err k, s')
      | (.panic, s') => (.panic, s')
      | (.oom, s') => (.oom, s')
  | _ => (.err .gen, s)

/-- `readEdit(bufio.NewReader(stream))`: length prefix, `make([]byte, length)`,
`io.ReadFull`, `decodeEdit`.  The allocation is accounted before the read, as in the code
(`manFrameBounded = false`); a bounded reader allocates at most what is available. -/
def readEdit (c : CodecCfg) (stream : Bytes) : Out Edit × St :=
  if stream.length < 4 then
    (.err (if stream.length = 0 then .eof else .ueof), ⟨0, 0⟩)
  else
    let length := leNat (stream.take 4)
    let avail := stream.length - 4
    let a := if c.manFrameBounded then min length avail else length
    if a ≥ oomLimit then (.oom, ⟨4, a⟩)
    else if length > avail then (.err (if avail = 0 then .eof else .ueof), ⟨4, a⟩)
    else decodeEdit c ((stream.drop 4).take length) ⟨0, a⟩

end NoKV.Codec

/-
Lemmas for manifest/codec.go: every decoding primitive parses what the encoder wrote (both
the as-is and the repaired shapes), the peers loop, each edit body.
-/
import NoKVModel.Codec.Hoare
import NoKVModel.Codec.Manifest

namespace NoKV.Codec

theorem putUvarint_ne_nil (x : Nat) : putUvarint x ≠ [] := by
  intro h
  have := (putUvarint_length x).1
  rw [h] at this
  simp at this

theorem uvAtSticky_at {d : Bytes} {n : Nat} {x : Nat} {rest : Bytes} (hx : x < two64)
    (hn : n ≤ d.length) (hd : d.drop n = putUvarint x ++ rest) :
    uvAtSticky d (n : Int) = (x, ((putUvarint x).length : Int)) := by
  unfold uvAtSticky
  have h1 : ¬ ((n : Int) > (d.length : Int)) := by omega
  have h2 : ¬ ((n : Int) < 0) := by omega
  simp only [h1, h2, ↓reduceIte, Int.toNat_natCast, hd, uvarintGo_put x hx rest]
  have := (putUvarint_length x).1
  have h3 : ¬ (((putUvarint x).length : Int) ≤ 0) := by omega
  simp only [h3, ↓reduceIte]

theorem Parses.manUv (c : CodecCfg) (x : Nat) (hx : x < two64) : Parses (manUv c) (putUvarint x) x := by
  intro d n al rest hl hn hd
  refine ⟨al, ?_⟩
  unfold NoKV.Codec.manUv
  cases c.manUvarint with
  | raw =>
    have h1 : (0 : Int) ≤ (n : Int) ∧ (n : Int) ≤ (d.length : Int) := by omega
    simp only [h1, and_self, ↓reduceIte, Int.toNat_natCast, hd, uvarintGo_put x hx rest]
    simp
  | sticky =>
    simp only [uvAtSticky_at hx hn hd]
    simp

theorem Parses.manBytes (c : CodecCfg) (b : Bytes) : Parses (manBytes c) (appendBytes b) b := by
  intro d n al rest hl hn hd
  refine ⟨al, ?_⟩
  unfold appendBytes at hd
  rw [List.append_assoc] at hd
  obtain ⟨hd2, hle2⟩ := drop_after hn hd
  obtain ⟨hd3, hle3⟩ := drop_after hle2 hd2
  have hb63 : b.length < two63 := by omega
  have hb64 : b.length < two64 := by unfold two63 two64 at *; omega
  have hw := putUvarint_length b.length
  unfold NoKV.Codec.manBytes
  cases c.manReadBytes with
  | intwrap =>
    have h1 : (0 : Int) ≤ (n : Int) ∧ (n : Int) ≤ (d.length : Int) := by omega
    simp only [h1, and_self, ↓reduceIte, Int.toNat_natCast, hd, uvarintGo_put _ hb64, toI64_of_lt hb63]
    rw [i64_of_range (by unfold two63 at *; omega) (by unfold two63 at *; omega)]
    have h2 : ¬ (((putUvarint b.length).length : Int) ≤ 0 ∨
        ((putUvarint b.length).length : Int) + (b.length : Int) >
          ((putUvarint b.length ++ (b ++ rest)).length : Int)) := by
      simp only [List.length_append]; omega
    have h3 : ((putUvarint b.length).length : Int) ≤ ((putUvarint b.length).length : Int) + (b.length : Int) := by omega
    simp only [h2, h3, ↓reduceIte, Int.toNat_natCast]
    have h4 : (((putUvarint b.length).length : Int) + (b.length : Int) - ((putUvarint b.length).length : Int)).toNat = b.length := by omega
    rw [h4]
    simp [appendBytes, Int.natCast_add, Int.add_assoc]
  | sticky =>
    simp only [uvAtSticky_at hb64 hn hd]
    have h2 : ¬ ((n : Int) + ((putUvarint b.length).length : Int) > (d.length : Int)) := by omega
    have hu : toU64 ((d.length : Int) - (n : Int) - ((putUvarint b.length).length : Int)) =
        ((d.length : Int) - (n : Int) - ((putUvarint b.length).length : Int)).toNat :=
      toU64_of_range (by omega) (by unfold two63 two64 at *; omega)
    have h3 : ¬ (b.length > ((d.length : Int) - (n : Int) - ((putUvarint b.length).length : Int)).toNat) := by omega
    simp only [h2, ↓reduceIte, hu, h3, toI64_of_lt hb63]
    have h5 : ((n : Int) + ((putUvarint b.length).length : Int)).toNat = n + (putUvarint b.length).length := by omega
    rw [h5, hd2]
    simp [appendBytes, Int.natCast_add, Int.add_assoc]

theorem Parses.ifPayload {α : Type} (c : CodecCfg) {A B : P α} {enc : Bytes} {a : α} (hne : enc ≠ [])
    (h : Parses A enc a) : Parses (ifPayload c A B) enc a := by
  unfold NoKV.Codec.ifPayload
  split
  · exact Parses.ifMore hne h
  · exact Parses.ifWithin h

theorem Safe.ifPayload {α : Type} (c : CodecCfg) {d : Bytes} {I : St → Prop} {k : Nat} {A B : P α}
    (hA : Safe d I k A) (hB : Safe d I k B) : Safe d I k (ifPayload c A B) := by
  unfold NoKV.Codec.ifPayload
  split
  · exact Safe.ifMore hA hB
  · exact Safe.ifWithin hA hB

theorem Parses.chkPos : Parses chkPos [] () := by
  intro d n al rest hl hn hd
  refine ⟨al, ?_⟩
  unfold NoKV.Codec.chkPos
  have : ¬ ((n : Int) > (d.length : Int)) := by omega
  simp [this]

theorem Parses.optByte (dflt x : Nat) : Parses (optByte dflt) [x] x := by
  intro d n al rest hl hn hd
  have hlt := pos_lt_of_drop hd (by simp)
  refine ⟨al, ?_⟩
  unfold NoKV.Codec.optByte
  have h1 : ((n : Int) < (d.length : Int)) := by omega
  have h2 : (0 : Int) ≤ (n : Int) := by omega
  simp only [h1, h2, ↓reduceIte, Int.toNat_natCast]
  rw [getD_of_drop (by simpa using hd)]
  simp

theorem Parses.mk (elem n : Nat) (h : elem * n < oomLimit) : Parses (mk elem n) [] () := by
  intro d k al rest hl hn hd
  refine ⟨al + elem * n, ?_⟩
  unfold NoKV.Codec.mk
  have h1 : ¬ (elem * n > maxAlloc) := by unfold oomLimit maxAlloc at *; omega
  have h2 : ¬ (elem * n ≥ oomLimit) := by omega
  simp [h1, h2]

theorem Parses.copyAlloc (elem n : Nat) : Parses (copyAlloc elem n) [] () := by
  intro d k al rest hl hn hd
  exact ⟨al + elem * n, by simp [NoKV.Codec.copyAlloc]⟩

/-- each peer takes at least two bytes -/
theorem encodePeers_length (ps : List Peer) : 2 * ps.length ≤ (encodePeers ps).length := by
  induction ps with
  | nil => simp [encodePeers]
  | cons p ps ih =>
    have h1 := (putUvarint_length p.store).1
    have h2 := (putUvarint_length p.peer).1
    simp only [encodePeers, List.length_append, List.length_cons]
    omega

def PeersWF (ps : List Peer) : Prop := ∀ p ∈ ps, p.store < two64 ∧ p.peer < two64

theorem peersLoop_parses (c : CodecCfg) : ∀ (ps acc : List Peer) (d : Bytes) (n al : Nat) (rest : Bytes),
    PeersWF ps → d.length < two63 → n ≤ d.length → d.drop n = encodePeers ps ++ rest →
    ∃ al', peersLoop c d ps.length ⟨(n : Int), al⟩ acc =
      (.ok (acc.reverse ++ ps), ⟨((n + (encodePeers ps).length : Nat) : Int), al'⟩) := by
  intro ps
  induction ps with
  | nil =>
    intro acc d n al rest _ _ _ _
    exact ⟨al, by simp [peersLoop, encodePeers]⟩
  | cons p ps ih =>
    intro acc d n al rest hwf hl hn hd
    have hp := hwf p (by simp)
    simp only [encodePeers, List.append_assoc] at hd
    obtain ⟨al1, e1⟩ := Parses.manUv c p.store hp.1 d n al _ hl hn hd
    obtain ⟨hd2, hle2⟩ := drop_after hn hd
    obtain ⟨al2, e2⟩ := Parses.manUv c p.peer hp.2 d _ al1 _ hl hle2 hd2
    obtain ⟨hd3, hle3⟩ := drop_after hle2 hd2
    obtain ⟨al3, e3⟩ := ih (p :: acc) d _ al2 rest (fun q hq => hwf q (by simp [hq])) hl hle3 hd3
    refine ⟨al3, ?_⟩
    simp only [List.length_cons, peersLoop, e1, e2]
    have hgt : ¬ (((n + (putUvarint p.store).length + (putUvarint p.peer).length : Nat) : Int) > (d.length : Int)) := by
      omega
    simp only [hgt, ↓reduceIte, e3]
    simp [encodePeers, Nat.add_assoc]

theorem Parses.peersLoop (c : CodecCfg) (ps : List Peer) (h : PeersWF ps) :
    Parses (fun d s => peersLoop c d ps.length s [] : P (List Peer)) (encodePeers ps) ps := by
  intro d n al rest hl hn hd
  obtain ⟨al', e⟩ := peersLoop_parses c ps [] d n al rest h hl hn hd
  exact ⟨al', by simpa using e⟩

theorem Parses.manBytesC (c : CodecCfg) (b : Bytes) : Parses (manBytesC c) (appendBytes b) b := by
  intro d n al rest hl hn hd
  obtain ⟨al', e⟩ := Parses.manBytes c b d n al rest hl hn hd
  refine ⟨al' + b.length, ?_⟩
  unfold NoKV.Codec.manBytesC
  rw [e]

/-- the repaired decoder's bound lets every honest encoding through -/
theorem Parses.peersAlloc_bind {β : Type} (c : CodecCfg) (count : Nat) {f : Unit → P β} {e : Bytes} {b : β}
    (hlen : 2 * count ≤ e.length) (hsz : 16 * count < oomLimit) (h : Parses (f ()) e b) :
    Parses (peersAlloc c count >>= f) e b := by
  intro d n al rest hl hn hd
  obtain ⟨al', e'⟩ := h d n (al + 32 * count) rest hl hn hd
  refine ⟨al', ?_⟩
  have hlen2 := congrArg List.length hd
  simp at hlen2
  have hb : (peersAlloc c count >>= f) d ⟨(n : Int), al⟩ = P.bind (peersAlloc c count) f d ⟨(n : Int), al⟩ := rfl
  rw [hb]
  unfold P.bind peersAlloc
  have hu : toU64 ((d.length : Int) - (n : Int)) = ((d.length : Int) - (n : Int)).toNat :=
    toU64_of_range (by omega) (by unfold two63 two64 at *; omega)
  have hp : ¬ ((n : Int) > (d.length : Int)) := by omega
  have hg : ¬ (c.manPeersBounded = true ∧ count > toU64 ((d.length : Int) - (n : Int)) / 2) := by
    rw [hu]
    intro ⟨_, h2⟩
    have : ((d.length : Int) - (n : Int)).toNat = d.length - n := by omega
    rw [this] at h2
    omega
  have h1 : ¬ (16 * count > maxAlloc) := by unfold oomLimit maxAlloc at *; omega
  have h2 : ¬ (16 * count ≥ oomLimit) := by omega
  simp only [hp, hg, h1, h2, ↓reduceIte]
  exact e'

end NoKV.Codec

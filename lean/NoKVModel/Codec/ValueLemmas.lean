/-
Lemmas for kv/value.go and kv/entry_codec.go: `binary.ReadUvarint` round trip, header from a
stream, entry record.
-/
import NoKVModel.Codec.Hoare
import NoKVModel.Codec.KeyLemmas
import NoKVModel.Codec.Value

namespace NoKV.Codec

theorem readUvarintAux_put (f : Nat) : ∀ (x i acc m : Nat) (rest : Bytes), i + f = 10 → 1 ≤ f →
    x < 2 ^ (7 * f - 6) →
    readUvarintAux (putUvarintF f x ++ rest) f i acc m =
      .ok (acc + x * m, i + (putUvarintF f x).length) := by
  induction f with
  | zero => intro x i acc m rest _ hf; omega
  | succ f ih =>
    intro x i acc m rest hi _ hx
    unfold putUvarintF
    by_cases hlt : x < 128
    · simp only [hlt, ↓reduceIte, List.singleton_append, List.length_singleton]
      unfold readUvarintAux
      have h9 : ¬ (i = 9 ∧ x > 1) := by
        rintro ⟨h9, hx1⟩
        have : f = 0 := by omega
        subst this
        simp at hx
        omega
      simp [hlt, h9]
    · simp only [hlt, ↓reduceIte, List.cons_append, List.length_cons]
      have hf1 : 1 ≤ f := by
        cases f with
        | zero => simp at hx; omega
        | succ f => omega
      unfold readUvarintAux
      have hb : ¬ (x % 128 + 128 < 128) := by omega
      have hmod : (x % 128 + 128) % 128 = x % 128 := by omega
      simp only [hb, ↓reduceIte, hmod]
      have hx' : x / 128 < 2 ^ (7 * f - 6) := by
        rw [pow_split f hf1] at hx
        exact Nat.div_lt_of_lt_mul hx
      rw [ih (x / 128) (i + 1) (acc + x % 128 * m) (m * 128) rest (by omega) hf1 hx']
      have := mul_split x m
      congr 1
      refine Prod.ext ?_ ?_
      · simp only; omega
      · simp only; omega

theorem readUvarint_put (x : Nat) (hx : x < two64) (rest : Bytes) :
    readUvarint (putUvarint x ++ rest) = .ok (x, (putUvarint x).length) := by
  unfold readUvarint putUvarint
  rw [readUvarintAux_put 10 x 0 0 1 rest (by omega) (by omega) (by simpa [two64] using hx)]
  simp

/-- `sizeVarint(x) = len(binary.AppendUvarint(nil, x))` for every uint64. -/
theorem sizeVarint_eq (x : Nat) (hx : x < two64) : sizeVarint x = (putUvarint x).length := by
  -- the 10th byte is final for a uint64, so the encoder never runs out of fuel
  have key : ∀ (f : Nat) (y : Nat), 1 ≤ f → y < 2 ^ (7 * f - 6) → sizeVarintF f y = (putUvarintF f y).length := by
    intro f
    induction f with
    | zero => intro y hf; omega
    | succ f ih =>
      intro y _ hy
      unfold sizeVarintF putUvarintF
      by_cases h : y < 128
      · have : y / 128 = 0 := by omega
        simp [h, this]
      · have h0 : ¬ (y / 128 = 0) := by omega
        have hf1 : 1 ≤ f := by
          cases f with
          | zero => simp at hy; omega
          | succ f => omega
        simp only [h, h0, ↓reduceIte, List.length_cons]
        have hy' : y / 128 < 2 ^ (7 * f - 6) := by
          rw [pow_split f hf1] at hy
          exact Nat.div_lt_of_lt_mul hy
        rw [ih (y / 128) hf1 hy']
        omega
  exact key 10 x (by omega) (by simpa [two64] using hx)

structure Header.WF (h : Header) : Prop where
  klen : h.klen < two32
  vlen : h.vlen < two32
  mt : h.mt < 256
  exp : h.expiresAt < two64

theorem headerFrom_encode (h : Header) (hw : h.WF) (rest : Bytes) :
    headerFrom (encodeHeader h ++ rest) = .ok (h, (encodeHeader h).length) := by
  obtain ⟨h1, h2, h3, h4⟩ := hw
  unfold headerFrom encodeHeader
  have e1 : putUvarint h.klen ++ putUvarint h.vlen ++ putUvarint h.mt ++ putUvarint h.expiresAt ++ rest =
      putUvarint h.klen ++ (putUvarint h.vlen ++ (putUvarint h.mt ++ (putUvarint h.expiresAt ++ rest))) := by
    simp [List.append_assoc]
  rw [e1, readUvarint_put _ (by unfold two32 two64 at *; omega)]
  simp only [List.drop_left]
  rw [readUvarint_put _ (by unfold two32 two64 at *; omega)]
  simp only
  have d2 : List.drop ((putUvarint h.klen).length + (putUvarint h.vlen).length)
      (putUvarint h.klen ++ (putUvarint h.vlen ++ (putUvarint h.mt ++ (putUvarint h.expiresAt ++ rest)))) =
      putUvarint h.mt ++ (putUvarint h.expiresAt ++ rest) := by
    rw [← List.drop_drop]; simp
  rw [d2, readUvarint_put _ (by unfold two64; omega)]
  simp only
  have hm : ¬ (h.mt > 255) := by omega
  simp only [hm, ↓reduceIte]
  have d3 : List.drop ((putUvarint h.klen).length + (putUvarint h.vlen).length + (putUvarint h.mt).length)
      (putUvarint h.klen ++ (putUvarint h.vlen ++ (putUvarint h.mt ++ (putUvarint h.expiresAt ++ rest)))) =
      putUvarint h.expiresAt ++ rest := by
    rw [← List.drop_drop, ← List.drop_drop]; simp
  rw [d3, readUvarint_put _ h4]
  simp only [List.length_append, Nat.mod_eq_of_lt h1, Nat.mod_eq_of_lt h2]

structure Entry.WF (e : Entry) : Prop where
  key : e.key.length < oomLimit
  value : e.value.length < oomLimit
  mt : e.mt < 256
  exp : e.expiresAt < two64

/-- `DecodeEntry(EncodeEntry(e)) = e` (plus the header length), for every checksum function
with 32-bit results. -/
theorem decodeEntry_encodeEntry (c : CodecCfg) (crc : Bytes → Nat) (hcrc : ∀ b, crc b < two32)
    (e : Entry) (hw : e.WF) :
    (decodeEntry c crc (encodeEntry crc e)).1 =
      .ok (e, (encodeHeader ⟨e.key.length, e.value.length, e.mt, e.expiresAt⟩).length) := by
  obtain ⟨hk, hv, hm, he⟩ := hw
  have hwf : Header.WF ⟨e.key.length, e.value.length, e.mt, e.expiresAt⟩ :=
    ⟨by unfold oomLimit two32 at *; simpa using (by omega : e.key.length < 4294967296),
     by unfold oomLimit two32 at *; simpa using (by omega : e.value.length < 4294967296), hm, he⟩
  generalize hH : encodeHeader ⟨e.key.length, e.value.length, e.mt, e.expiresAt⟩ = H at *
  have hd : encodeEntry crc e = H ++ (e.key ++ (e.value ++ be32 (crc (H ++ e.key ++ e.value)))) := by
    simp [encodeEntry, hH, List.append_assoc]
  have hf := headerFrom_encode ⟨e.key.length, e.value.length, e.mt, e.expiresAt⟩ hwf
    (e.key ++ (e.value ++ be32 (crc (H ++ e.key ++ e.value))))
  rw [hH] at hf
  unfold decodeEntry
  rw [hd, hf]
  simp only [List.drop_left, List.length_append]
  have a1 : ¬ ((if c.entryAllocBounded = true then
      min e.key.length (e.key.length + (e.value.length + (be32 (crc (H ++ e.key ++ e.value))).length))
      else e.key.length) ≥ oomLimit) := by
    split <;> omega
  have b1 : ¬ (e.key.length + (e.value.length + (be32 (crc (H ++ e.key ++ e.value))).length) < e.key.length) := by omega
  simp only [a1, b1, ↓reduceIte]
  have a2 : ¬ ((if c.entryAllocBounded = true then
      min e.value.length (e.value.length + (be32 (crc (H ++ e.key ++ e.value))).length)
      else e.value.length) ≥ oomLimit) := by
    split <;> omega
  have b2 : ¬ (e.value.length + (be32 (crc (H ++ e.key ++ e.value))).length < e.value.length) := by omega
  simp only [a2, b2, ↓reduceIte]
  have l4 : (be32 (crc (H ++ e.key ++ e.value))).length = 4 := by simp [be32]
  have b3 : ¬ ((be32 (crc (H ++ e.key ++ e.value))).length < 4) := by omega
  have t4 : (be32 (crc (H ++ e.key ++ e.value))).take 4 = be32 (crc (H ++ e.key ++ e.value)) := by
    rw [← l4]; simp
  have ht : (H ++ (e.key ++ (e.value ++ be32 (crc (H ++ e.key ++ e.value))))).take
      (H.length + e.key.length + e.value.length) = H ++ e.key ++ e.value := by
    have : H ++ (e.key ++ (e.value ++ be32 (crc (H ++ e.key ++ e.value)))) =
        (H ++ e.key ++ e.value) ++ be32 (crc (H ++ e.key ++ e.value)) := by simp [List.append_assoc]
    rw [this]
    exact List.take_left' (by simp [Nat.add_assoc])
  simp only [b3, ↓reduceIte, t4, ht, be32_beNat _ (hcrc _), ne_eq, not_true_eq_false, List.take_left]

end NoKV.Codec

/-
Lemmas for the raft WAL payload framing: round trip with opaque bodies, safety of the
`u64`-guarded shape.
-/
import NoKVModel.Codec.PercLemmas
import NoKVModel.Codec.Raft

namespace NoKV.Codec

theorem frameBodies_length (bs : List Bytes) : bs.length ≤ (frameBodies bs).length := by
  induction bs with
  | nil => simp [frameBodies]
  | cons b bs ih =>
    have := (putUvarint_length b.length).1
    simp only [frameBodies, List.length_append, List.length_cons]
    omega

theorem Parses.bodiesLoop (c : CodecCfg) (bs : List Bytes) (h : ∀ b ∈ bs, b.length < two64) :
    Parses (bodiesLoop c bs.length) (frameBodies bs) bs := by
  induction bs with
  | nil => exact Parses.pure _
  | cons b bs ih =>
    simp only [List.length_cons, NoKV.Codec.bodiesLoop, frameBodies, List.append_assoc]
    refine Parses.bind (Parses.uvChecked _ (h b (by simp))) ?_
    refine Parses.bind (Parses.takeBytes _ _ _) ?_
    exact Parses.bind_pure (ih (fun x hx => h x (by simp [hx])))

theorem Parses.countAlloc_bind {β : Type} (count : Nat) {f : Unit → P β} {e : Bytes} {b : β}
    (hlen : count ≤ e.length) (hsz : entrySize * count < oomLimit) (h : Parses (f ()) e b) :
    Parses (countAlloc count >>= f) e b := by
  intro d n al rest hl hn hd
  obtain ⟨al', e'⟩ := h d n (al + entrySize * count) rest hl hn hd
  refine ⟨al', ?_⟩
  have hlen2 := congrArg List.length hd
  simp at hlen2
  have hb : (countAlloc count >>= f) d ⟨(n : Int), al⟩ = P.bind (countAlloc count) f d ⟨(n : Int), al⟩ := rfl
  rw [hb]
  unfold P.bind countAlloc mk
  have h0 : ¬ ((count : Int) > (d.length : Int)) := by omega
  have h1 : ¬ (entrySize * count > maxAlloc) := by unfold oomLimit maxAlloc at *; omega
  have h2 : ¬ (entrySize * count ≥ oomLimit) := by omega
  simp only [h0, h1, h2, ↓reduceIte]
  exact e'

theorem unframeEntries_frame (c : CodecCfg) (gid : Nat) (bs : List Bytes) (hg : gid < two64)
    (hb : ∀ b ∈ bs, b.length < two64) (hsz : entrySize * bs.length < oomLimit)
    (hl : (frameEntries gid bs).length < two63) :
    ((unframeEntries c).run (frameEntries gid bs)).1 = .ok (gid, bs) := by
  have hp : Parses (unframeEntries c) (putUvarint gid ++ (putUvarint bs.length ++ frameBodies bs)) (gid, bs) := by
    unfold unframeEntries
    refine Parses.bind (Parses.uvChecked _ hg) ?_
    refine Parses.bind (Parses.uvChecked _ (by unfold entrySize oomLimit two64 at *; omega)) ?_
    refine Parses.countAlloc_bind _ (frameBodies_length bs) hsz ?_
    exact Parses.bind_pure (Parses.bodiesLoop c bs hb)
  have he : frameEntries gid bs = putUvarint gid ++ (putUvarint bs.length ++ frameBodies bs) := by
    simp [frameEntries, List.append_assoc]
  rw [he] at hl ⊢
  obtain ⟨al, e⟩ := hp _ 0 0 [] hl (by omega) (by simp)
  unfold P.run
  simp only [Int.cast_ofNat_Int] at e
  exact congrArg Prod.fst e

theorem unframeOne_frame (c : CodecCfg) (gid : Nat) (body : Bytes) (hg : gid < two64)
    (hb : body.length < two64) (hl : (frameOne gid body).length < two63) :
    ((unframeOne c).run (frameOne gid body)).1 = .ok (gid, body) := by
  have hp : Parses (unframeOne c) (putUvarint gid ++ (putUvarint body.length ++ body)) (gid, body) := by
    unfold unframeOne
    refine Parses.bind (Parses.uvChecked _ hg) ?_
    refine Parses.bind (Parses.uvChecked _ hb) ?_
    exact Parses.bind_pure (Parses.takeBytes _ _ _)
  have he : frameOne gid body = putUvarint gid ++ (putUvarint body.length ++ body) := by
    simp [frameOne, List.append_assoc]
  rw [he] at hl ⊢
  obtain ⟨al, e⟩ := hp _ 0 0 [] hl (by omega) (by simp)
  unfold P.run
  simp only [Int.cast_ofNat_Int] at e
  exact congrArg Prod.fst e

/-! ### safety of the `u64` guard -/

theorem safe_takeBytes_u64_nocopy (d : Bytes) (hl : d.length < two63) (n : Nat) :
    Safe d (Inb d) 0 (takeBytes .u64 n false) := by
  intro s hs
  obtain ⟨a, b, _, e⟩ := safe_takeBytes_u64 d hl n false s hs
  refine ⟨a, b, ?_, e⟩
  unfold NoKV.Codec.takeBytes
  split
  · simp
  · simp only [Bool.false_eq_true, ↓reduceIte, Nat.add_zero]
    split <;> simp

theorem safe_bodiesLoop (c : CodecCfg) (hc : c.raftLenGuard = .u64) (d : Bytes) (hl : d.length < two63) :
    ∀ n, Safe d (Inb d) 0 (bodiesLoop c n) := by
  intro n
  induction n with
  | zero => exact Safe.pure _
  | succ n ih =>
    unfold NoKV.Codec.bodiesLoop
    rw [hc]
    exact Safe.mono (Safe.bind (safe_uvChecked d) fun _ =>
      Safe.bind (safe_takeBytes_u64_nocopy d hl _) fun _ =>
      Safe.bind ih fun _ => Safe.pure (k := 0) _) (by omega)

theorem safe_countAlloc (d : Bytes) (hsmall : entrySize * d.length < oomLimit) (count : Nat) :
    Safe d (Inb d) (entrySize * d.length) (countAlloc count) := by
  intro s hs
  unfold NoKV.Codec.countAlloc
  by_cases h : (count : Int) > d.length
  · simp [h]
  · simp only [h, ↓reduceIte]
    unfold mk
    have hc : count ≤ d.length := by omega
    have hm : entrySize * count ≤ entrySize * d.length := Nat.mul_le_mul_left _ hc
    have h1 : ¬ (entrySize * count > maxAlloc) := by unfold oomLimit maxAlloc at *; omega
    have h2 : ¬ (entrySize * count ≥ oomLimit) := by omega
    simp only [h1, h2, ↓reduceIte]
    exact ⟨by simp, by simp, by (try simp only); omega, fun _ => hs⟩

theorem safe_unframeEntries (c : CodecCfg) (hc : c.raftLenGuard = .u64) (d : Bytes)
    (hsmall : entrySize * d.length < oomLimit) :
    Safe d (Inb d) (entrySize * d.length) (unframeEntries c) := by
  have hl : d.length < two63 := by unfold entrySize oomLimit two63 at *; omega
  unfold unframeEntries
  exact Safe.mono (Safe.bind (safe_uvChecked d) fun _ => Safe.bind (safe_uvChecked d) fun count =>
    Safe.bind (safe_countAlloc d hsmall count) fun _ =>
    Safe.bind (safe_bodiesLoop c hc d hl count) fun _ => Safe.pure (k := 0) _) (by omega)

theorem safe_unframeOne (c : CodecCfg) (hc : c.raftLenGuard = .u64) (d : Bytes) (hl : d.length < two63) :
    Safe d (Inb d) 0 (unframeOne c) := by
  unfold unframeOne
  rw [hc]
  exact Safe.mono (Safe.bind (safe_uvChecked d) fun _ => Safe.bind (safe_uvChecked d) fun _ =>
    Safe.bind (safe_takeBytes_u64_nocopy d hl _) fun _ => Safe.pure (k := 0) _) (by omega)

end NoKV.Codec

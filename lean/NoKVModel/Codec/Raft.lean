/-
raftstore/engine/wal_storage.go: encodeRaftEntries/decodeRaftEntries,
encodeRaftHardState/decodeRaftHardState (snapshot framing is identical), and
raftstore/command/codec.go: the command frame.  Protobuf bodies are opaque byte strings.
-/
import NoKVModel.Codec.Cfg
import NoKVModel.Codec.Prim
import NoKVModel.Codec.Perc

namespace NoKV.Codec

def frameBodies : List Bytes → Bytes
  | [] => []
  | b :: bs => putUvarint b.length ++ b ++ frameBodies bs

def frameEntries (gid : Nat) (bodies : List Bytes) : Bytes :=
  putUvarint gid ++ putUvarint bodies.length ++ frameBodies bodies

def frameOne (gid : Nat) (body : Bytes) : Bytes := putUvarint gid ++ putUvarint body.length ++ body

/-- sizeof(raftpb.Entry) on amd64: Term, Index, Type(+pad), Data slice header -/
def entrySize : Nat := 48

def bodiesLoop (c : CodecCfg) : Nat → P (List Bytes)
  | 0 => pure []
  | n + 1 => do
    let size ← uvChecked
    let b ← takeBytes c.raftLenGuard size false
    let bs ← bodiesLoop c n
    pure (b :: bs)

/-- `if count64 > uint64(len(data)) { err }; make([]raftpb.Entry, 0, count)` -/
def countAlloc (count : Nat) : P Unit := fun d s =>
  if (count : Int) > d.length then (.err .gen, s) else mk entrySize count d s

/-- framing part of `decodeRaftEntries` -/
def unframeEntries (c : CodecCfg) : P (Nat × List Bytes) := do
  let gid ← uvChecked
  let count ← uvChecked
  countAlloc count
  let bs ← bodiesLoop c count
  pure (gid, bs)

/-- framing part of `decodeRaftHardState` / `decodeRaftSnapshot` -/
def unframeOne (c : CodecCfg) : P (Nat × Bytes) := do
  let gid ← uvChecked
  let size ← uvChecked
  let b ← takeBytes c.raftLenGuard size false
  pure (gid, b)

def cmdPrefix : Nat := 206

def cmdFrame (body : Bytes) : Bytes := cmdPrefix :: body

/-- `command.Decode`: `none` = not a command payload, `some body` = the protobuf body -/
def cmdUnframe (d : Bytes) : Option Bytes :=
  match d with
  | [] => none
  | p :: body => if p = cmdPrefix then some body else none

end NoKV.Codec

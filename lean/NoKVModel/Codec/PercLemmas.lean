/-
Lemmas for percolator/codec.go: `takeBytes` (declared-length slice), round trip of the lock
and write bodies, safety of the guarded (`u64`) decoders.
-/
import NoKVModel.Codec.Hoare
import NoKVModel.Codec.Perc

namespace NoKV.Codec

theorem lenGuardFails_fits (g : LenGuard) (n k len : Nat) (hk : n + k ≤ len) (hl : len < two63) :
    lenGuardFails g (n : Int) k (len : Int) = false := by
  have hk63 : k < two63 := by omega
  cases g with
  | intwrap =>
    simp only [lenGuardFails, toI64_of_lt hk63, decide_eq_false_iff_not]
    rw [i64_of_range (by unfold two63 at *; omega) (by unfold two63 at *; omega)]
    omega
  | u64 =>
    simp only [lenGuardFails, decide_eq_false_iff_not]
    rw [toU64_of_range (by omega) (by unfold two63 two64 at *; omega)]
    omega

theorem Parses.takeBytes (g : LenGuard) (b : Bytes) (copy : Bool) :
    Parses (takeBytes g b.length copy) b b := by
  intro d n al rest hl hn hd
  obtain ⟨_, hle⟩ := drop_after hn hd
  have hb63 : b.length < two63 := by omega
  unfold NoKV.Codec.takeBytes
  simp only [lenGuardFails_fits g n b.length d.length hle hl, Bool.false_eq_true, ↓reduceIte,
    toI64_of_lt hb63]
  rw [i64_of_range (by unfold two63 at *; omega) (by unfold two63 at *; omega)]
  have hc : (0 : Int) ≤ (n : Int) ∧ (n : Int) ≤ (n : Int) + (b.length : Int) ∧
      (n : Int) + (b.length : Int) ≤ (d.length : Int) := by omega
  simp only [hc, and_self, ↓reduceIte, Int.toNat_natCast, hd]
  have h2 : ((n : Int) + (b.length : Int) - (n : Int)).toNat = b.length := by omega
  rw [h2]
  refine ⟨al + if copy = true then b.length else 0, ?_⟩
  simp [Int.natCast_add]

/-! ### round trips -/

structure Lock.WF (l : Lock) : Prop where
  ts : l.ts < two64
  ttl : l.ttl < two64
  minCommitTs : l.minCommitTs < two64
  primary : l.primary.length < two64

theorem parses_lockBody (c : CodecCfg) (l : Lock) (h : l.WF) :
    Parses (decodeLockBody c)
      (putUvarint l.primary.length ++ (l.primary ++ (putUvarint l.ts ++ (putUvarint l.ttl ++
        ([l.kind] ++ putUvarint l.minCommitTs))))) l := by
  unfold decodeLockBody
  refine Parses.bind (Parses.uvChecked _ h.primary) ?_
  refine Parses.bind (Parses.takeBytes _ _ _) ?_
  refine Parses.bind (Parses.uvChecked _ h.ts) ?_
  refine Parses.bind (Parses.uvChecked _ h.ttl) ?_
  refine Parses.bind (Parses.nextByte _) ?_
  have hne : putUvarint l.minCommitTs ≠ [] := by
    intro e; have := (putUvarint_length l.minCommitTs).1; rw [e] at this; simp at this
  exact Parses.congr (Parses.bind_pure (Parses.ifMore hne (Parses.uvChecked _ h.minCommitTs))) rfl rfl

structure Write.WF (w : Write) : Prop where
  startTs : w.startTs < two64
  short : w.short.length < two64

theorem parses_writeBody (c : CodecCfg) (w : Write) (h : w.WF) :
    Parses (decodeWriteBody c w.kind)
      (putUvarint w.startTs ++ (if w.short.length > 0 then [1] ++ (putUvarint w.short.length ++ w.short) else [0])) w := by
  unfold decodeWriteBody
  refine Parses.bind (Parses.uvChecked _ h.startTs) ?_
  by_cases hs : w.short.length > 0
  · simp only [hs, ↓reduceIte]
    refine Parses.ifMore (by simp) ?_
    refine Parses.bind (Parses.nextByte _) ?_
    simp only [↓reduceIte]
    refine Parses.bind (Parses.uvChecked _ h.short) ?_
    exact Parses.congr (Parses.bind_pure (Parses.takeBytes c.writeLenGuard w.short true)) rfl rfl
  · simp only [hs, ↓reduceIte]
    refine Parses.ifMore (by simp) ?_
    have hnil : w.short = [] := by
      cases hw : w.short with
      | nil => rfl
      | cons x xs => rw [hw] at hs; simp at hs
    have := Parses.bind (f := fun flag => if flag = 1 then (do
        let sz ← uvChecked
        let short ← takeBytes c.writeLenGuard sz true
        pure (⟨w.kind, w.startTs, short⟩ : Write)) else pure ⟨w.kind, w.startTs, []⟩) (Parses.nextByte 0)
      (Parses.ite_neg (by decide) (Parses.pure (⟨w.kind, w.startTs, []⟩ : Write)))
    refine Parses.congr this (by simp) ?_
    cases w; simp_all

end NoKV.Codec

namespace NoKV.Codec

/-! ### safety of the guarded decoders -/

/-- `0 ≤ pos ≤ len(data)` -/
def Inb (d : Bytes) (s : St) : Prop := 0 ≤ s.pos ∧ s.pos ≤ d.length

theorem safe_uvChecked (d : Bytes) : Safe d (Inb d) 0 uvChecked := by
  intro s hs
  unfold Inb at hs
  unfold NoKV.Codec.uvChecked
  simp only [hs, and_self, ↓reduceIte]
  have hle := uvarintGo_n_le (d.drop s.pos.toNat)
  simp only [List.length_drop] at hle
  by_cases hn : (uvarintGo (List.drop s.pos.toNat d)).2 ≤ 0
  · simp [hn]
  · simp only [hn, ↓reduceIte]
    refine ⟨by simp, by simp, by simp, ?_⟩
    intro _
    unfold Inb
    simp only
    omega

theorem safe_nextByte (d : Bytes) : Safe d (Inb d) 0 nextByte := by
  intro s hs
  unfold Inb at hs
  unfold NoKV.Codec.nextByte
  by_cases h : s.pos ≥ d.length
  · simp [h]
  · simp only [h, ↓reduceIte, hs.1]
    refine ⟨by simp, by simp, by simp, ?_⟩
    intro _
    unfold Inb
    simp only
    omega

theorem safe_takeBytes_u64 (d : Bytes) (hl : d.length < two63) (n : Nat) (copy : Bool) :
    Safe d (Inb d) d.length (takeBytes .u64 n copy) := by
  intro s hs
  unfold Inb at hs
  unfold NoKV.Codec.takeBytes lenGuardFails
  have hu : toU64 ((d.length : Int) - s.pos) = ((d.length : Int) - s.pos).toNat :=
    toU64_of_range (by omega) (by unfold two63 two64 at *; omega)
  simp only [hu]
  by_cases hg : n > ((d.length : Int) - s.pos).toNat
  · simp [hg]
  · have hn63 : n < two63 := by omega
    simp only [hg, decide_false, Bool.false_eq_true, ↓reduceIte, toI64_of_lt hn63]
    rw [i64_of_range (by unfold two63 at *; omega) (by unfold two63 at *; omega)]
    have hc : 0 ≤ s.pos ∧ s.pos ≤ s.pos + (n : Int) ∧ s.pos + (n : Int) ≤ (d.length : Int) := by omega
    simp only [hc, and_self, ↓reduceIte]
    refine ⟨by simp, by simp, ?_, ?_⟩
    · (try simp only)
      split <;> omega
    · intro _
      unfold Inb
      simp only
      omega

theorem safe_lockBody (c : CodecCfg) (hc : c.lockLenGuard = .u64) (d : Bytes) (hl : d.length < two63) :
    Safe d (Inb d) d.length (decodeLockBody c) := by
  unfold decodeLockBody
  rw [hc]
  refine Safe.mono (Safe.bind (safe_uvChecked d) fun _ =>
    Safe.bind (safe_takeBytes_u64 d hl _ _) fun _ =>
    Safe.bind (safe_uvChecked d) fun _ =>
    Safe.bind (safe_uvChecked d) fun _ =>
    Safe.bind (safe_nextByte d) fun _ =>
    Safe.bind (Safe.ifMore (safe_uvChecked d) (Safe.pure 0)) fun _ => Safe.pure (k := 0) _) (by omega)

theorem safe_writeBody (c : CodecCfg) (hc : c.writeLenGuard = .u64) (d : Bytes) (hl : d.length < two63)
    (kind : Nat) : Safe d (Inb d) d.length (decodeWriteBody c kind) := by
  unfold decodeWriteBody
  rw [hc]
  refine Safe.mono (Safe.bind (safe_uvChecked d) fun _ =>
    Safe.ifMore (Safe.bind (safe_nextByte d) fun _ =>
      Safe.ite (Safe.bind (safe_uvChecked d) fun _ =>
        Safe.bind (safe_takeBytes_u64 d hl _ _) fun _ => Safe.pure (k := 0) _) (Safe.pure _))
      (Safe.pure _)) (by omega)

end NoKV.Codec

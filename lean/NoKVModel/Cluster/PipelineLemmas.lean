/-
Invariant of the proposal pipeline model and its preservation, one lemma per transition.
-/
import NoKVModel.Cluster.Pipeline

namespace NoKV.Cluster

@[simp] theorem Sys.set_st_same (σ : Sys) (s : Nat) (p : PStore) : (σ.set s p).st s = p := by
  simp [Sys.set]

theorem Sys.set_st_other (σ : Sys) {s t : Nat} (p : PStore) (h : t ≠ s) : (σ.set s p).st t = σ.st t := by
  simp [Sys.set, h]

@[simp] theorem Sys.set_proposed (σ : Sys) (s : Nat) (p : PStore) : (σ.set s p).proposed = σ.proposed := rfl

theorem mem_completeW {c : PipeCfg} {e : Entry} {ws : List Waiter} {x' : Waiter} (h : x' ∈ completeW c e ws) :
    x' ∈ ws ∨ ∃ x ∈ ws, x.inMap = true ∧ x.id = e.id ∧
      x' = { x with inMap := !c.completeDeletes, got := x.got ++ [e] } := by
  induction ws with
  | nil => simp [completeW] at h
  | cons y ys ih =>
    unfold completeW at h
    by_cases hy : y.inMap = true ∧ y.id = e.id
    · rw [if_pos hy] at h
      rcases List.mem_cons.mp h with h | h
      · exact Or.inr ⟨y, List.mem_cons_self, hy.1, hy.2, h⟩
      · exact Or.inl (List.mem_cons_of_mem _ h)
    · rw [if_neg hy] at h
      rcases List.mem_cons.mp h with h | h
      · exact Or.inl (h ▸ List.mem_cons_self)
      · rcases ih h with h | ⟨x, hx, h1, h2, h3⟩
        · exact Or.inl (List.mem_cons_of_mem _ h)
        · exact Or.inr ⟨x, List.mem_cons_of_mem _ hx, h1, h2, h3⟩

theorem mem_orphan {id : Nat} {ws : List Waiter} {x' : Waiter} (h : x' ∈ orphan id ws) :
    x' ∈ ws ∨ ∃ x ∈ ws, x' = { x with inMap := false } := by
  unfold orphan at h
  rcases List.mem_map.mp h with ⟨x, hx, rfl⟩
  by_cases hc : x.inMap = true ∧ x.id = id
  · rw [if_pos hc]; exact Or.inr ⟨x, hx, rfl⟩
  · rw [if_neg hc]; exact Or.inl hx

/-- what the invariant says about one waiter `x` of store `s` -/
structure WOK (P A : List Entry) (s : Nat) (x : Waiter) : Prop where
  inmap_prop : x.inMap = true → (⟨s, x.id, x.tag⟩ : Entry) ∈ P
  got_own : ∀ e ∈ x.got, e = ⟨s, x.id, x.tag⟩ ∧ e ∈ A
  got_len : x.got.length ≤ 1
  inmap_none : x.inMap = true → x.got = []

theorem WOK.mono {P A P' A' : List Entry} {s : Nat} {x : Waiter} (h : WOK P A s x)
    (hP : ∀ e ∈ P, e ∈ P') (hA : ∀ e ∈ A, e ∈ A') : WOK P' A' s x :=
  ⟨fun hi => hP _ (h.inmap_prop hi), fun e he => ⟨(h.got_own e he).1, hA _ (h.got_own e he).2⟩, h.got_len, h.inmap_none⟩

theorem WOK.orphaned {P A : List Entry} {s : Nat} {x : Waiter} (h : WOK P A s x) :
    WOK P A s { x with inMap := false } :=
  ⟨fun hi => by simp at hi, h.got_own, h.got_len, fun hi => by simp at hi⟩

/-- The invariant. `u` = the run keeps request ids disjoint across stores. -/
structure Inv (u : Bool) (σ : Sys) : Prop where
  prop_le : ∀ e ∈ σ.proposed, e.id ≤ (σ.st e.proposer).seq
  prop_uniq : ∀ e ∈ σ.proposed, ∀ e' ∈ σ.proposed, e.proposer = e'.proposer → e.id = e'.id → e = e'
  cross : u = true → ∀ e ∈ σ.proposed, ∀ e' ∈ σ.proposed, e.id = e'.id → e.proposer = e'.proposer
  wok : ∀ s, ∀ x ∈ (σ.st s).waiters, WOK σ.proposed (σ.st s).alog s x

theorem inv_init (u : Bool) : Inv u Sys.init :=
  ⟨by simp [Sys.init], by simp [Sys.init], by simp [Sys.init], by simp [Sys.init]⟩

theorem inv_applyOne {c : PipeCfg} {u : Bool} (hd : c.completeDeletes = true)
    (hm : c.matchProposer = true ∨ u = true) {σ : Sys} (hi : Inv u σ) (s : Nat) {e : Entry}
    (he : e ∈ σ.proposed) : Inv u (applyOne c s σ e) := by
  refine ⟨?_, ?_, ?_, ?_⟩
  · intro e' he'
    have := hi.prop_le e' he'
    by_cases h : e'.proposer = s
    · simpa [applyOne, h] using (h ▸ this)
    · simpa [applyOne, Sys.set_st_other _ _ h] using this
  · exact hi.prop_uniq
  · exact hi.cross
  · intro t x hx
    by_cases h : t = s
    · subst h
      simp only [applyOne, Sys.set_st_same, Sys.set_proposed] at hx ⊢
      have hmono : ∀ x, WOK σ.proposed (σ.st t).alog t x → WOK σ.proposed ((σ.st t).alog ++ [e]) t x :=
        fun x hw => hw.mono (fun _ h => h) (fun _ h => List.mem_append_left _ h)
      by_cases hl : looksUp c t e = true
      · rw [if_pos hl] at hx
        rcases mem_completeW hx with hx | ⟨y, hy, hy1, hy2, rfl⟩
        · exact hmono x (hi.wok t x hx)
        · have hw := hi.wok t y hy
          have hown := hw.inmap_prop hy1
          -- the applied entry was proposed by this store …
          have hprop : e.proposer = t := by
            rcases hm with hm | hu
            · simpa [looksUp, hm] using hl
            · have := hi.cross hu e he _ hown (by simp [hy2])
              simpa using this
          -- … under this waiter's id, hence it is this waiter's entry
          have heq : e = ⟨t, y.id, y.tag⟩ := hi.prop_uniq e he _ hown (by simp [hprop]) (by simp [hy2])
          have hgot : y.got = [] := hw.inmap_none hy1
          refine ⟨?_, ?_, ?_, ?_⟩
          · intro h'; simp [hd] at h'
          · intro e' he'
            simp [hgot] at he'
            subst he'
            exact ⟨heq, List.mem_append_right _ (List.mem_singleton.mpr rfl)⟩
          · simp [hgot]
          · intro h'; simp [hd] at h'
      · rw [if_neg hl] at hx
        exact hmono x (hi.wok t x hx)
    · simp only [applyOne, Sys.set_st_other _ _ h, Sys.set_proposed] at hx ⊢
      exact hi.wok t x hx

theorem proposed_applyOne (c : PipeCfg) (s : Nat) (σ : Sys) (e : Entry) :
    (applyOne c s σ e).proposed = σ.proposed := rfl

theorem inv_applyMany {c : PipeCfg} {u : Bool} (hd : c.completeDeletes = true)
    (hm : c.matchProposer = true ∨ u = true) (s : Nat) (es : List Entry) :
    ∀ {σ : Sys}, Inv u σ → (∀ e ∈ es, e ∈ σ.proposed) → Inv u (es.foldl (applyOne c s) σ) := by
  induction es with
  | nil => intro σ hi _; exact hi
  | cons e es ih =>
    intro σ hi hall
    simp only [List.foldl_cons]
    apply ih (inv_applyOne hd hm hi s (hall e List.mem_cons_self))
    intro e' he'
    rw [proposed_applyOne]
    exact hall e' (List.mem_cons_of_mem _ he')

theorem inv_next {u : Bool} {σ : Sys} (hi : Inv u σ) (s : Nat) : Inv u (nextId σ s).1 := by
  refine ⟨?_, hi.prop_uniq, hi.cross, ?_⟩
  · intro e he
    have := hi.prop_le e he
    by_cases h : e.proposer = s
    · simp [nextId, h]; rw [h] at this; omega
    · simpa [nextId, Sys.set_st_other _ _ h] using this
  · intro t x hx
    by_cases h : t = s
    · subst h; simp only [nextId, Sys.set_st_same, Sys.set_proposed] at hx ⊢; exact hi.wok t x hx
    · simp only [nextId, Sys.set_st_other _ _ h, Sys.set_proposed] at hx ⊢; exact hi.wok t x hx

theorem inv_remove {u : Bool} {σ : Sys} (hi : Inv u σ) (s id : Nat) : Inv u (remove σ s id) := by
  refine ⟨?_, hi.prop_uniq, hi.cross, ?_⟩
  · intro e he
    have := hi.prop_le e he
    by_cases h : e.proposer = s
    · simpa [remove, h] using (h ▸ this)
    · simpa [remove, Sys.set_st_other _ _ h] using this
  · intro t x hx
    by_cases h : t = s
    · subst h
      simp only [remove, Sys.set_st_same, Sys.set_proposed] at hx ⊢
      rcases mem_orphan hx with hx | ⟨y, hy, rfl⟩
      · exact hi.wok t x hx
      · exact (hi.wok t y hy).orphaned
    · simp only [remove, Sys.set_st_other _ _ h, Sys.set_proposed] at hx ⊢
      exact hi.wok t x hx


/-- waiters after `register` (whatever branch it takes): old ones (possibly taken out of the map)
plus at most the new one -/
theorem mem_register_waiters {c : PipeCfg} {σ : Sys} {s id w tag : Nat} {x : Waiter}
    (hx : x ∈ ((register c σ s id w tag).1.st s).waiters) :
    x ∈ (σ.st s).waiters ∨ (∃ y ∈ (σ.st s).waiters, x = { y with inMap := false }) ∨ x = ⟨w, id, tag, true, []⟩ := by
  unfold register at hx
  by_cases hw : waiting id (σ.st s).waiters = true
  · by_cases hr : c.regRejectsDup = true
    · simp only [hw, hr, if_true] at hx; exact Or.inl hx
    · simp only [hw, hr, if_true] at hx
      simp only [Bool.false_eq_true, if_false, Sys.set_st_same] at hx
      rcases List.mem_append.mp hx with hx | hx
      · rcases mem_orphan hx with hx | h
        · exact Or.inl hx
        · exact Or.inr (Or.inl h)
      · exact Or.inr (Or.inr (List.mem_singleton.mp hx))
  · simp only [hw, Bool.false_eq_true, if_false, Sys.set_st_same] at hx
    rcases List.mem_append.mp hx with hx | hx
    · exact Or.inl hx
    · exact Or.inr (Or.inr (List.mem_singleton.mp hx))

theorem register_other {c : PipeCfg} {σ : Sys} {s id w tag t : Nat} (h : t ≠ s) :
    (register c σ s id w tag).1.st t = σ.st t := by
  unfold register
  by_cases hw : waiting id (σ.st s).waiters = true
  · by_cases hr : c.regRejectsDup = true
    · simp [hw, hr]
    · simp [hw, hr, Sys.set_st_other _ _ h]
  · simp [hw, Sys.set_st_other _ _ h]

theorem register_same {c : PipeCfg} {σ : Sys} {s id w tag : Nat} :
    ((register c σ s id w tag).1.st s).seq = (σ.st s).seq ∧
    ((register c σ s id w tag).1.st s).alog = (σ.st s).alog ∧
    (register c σ s id w tag).1.proposed = σ.proposed := by
  unfold register
  by_cases hw : waiting id (σ.st s).waiters = true
  · by_cases hr : c.regRejectsDup = true
    · simp [hw, hr]
    · simp [hw, hr]
  · simp [hw]

theorem inv_propose {c : PipeCfg} {u : Bool} {σ : Sys} (hi : Inv u σ) (s w tag : Nat)
    (hv : ValidOp u σ (.propose s w tag)) : Inv u (propose c σ s w tag) := by
  have hi1 := inv_next hi s
  -- name the intermediate states
  have hseq1 : ((nextId σ s).1.st s).seq = (σ.st s).seq + 1 := by simp [nextId]
  have hprop1 : (nextId σ s).1.proposed = σ.proposed := rfl
  have hid : (nextId σ s).2 = (σ.st s).seq + 1 := rfl
  obtain ⟨rseq, ralog, rprop⟩ := @register_same c (nextId σ s).1 s ((σ.st s).seq + 1) w tag
  unfold propose
  simp only [hid]
  generalize hσ1 : (nextId σ s).1 = σ1 at *
  generalize hσ2 : (register c σ1 s ((σ.st s).seq + 1) w tag).1 = σ2 at *
  have hmem : ∀ e, e ∈ σ2.proposed ++ [⟨s, (σ.st s).seq + 1, tag⟩] ↔ e ∈ σ.proposed ∨ e = ⟨s, (σ.st s).seq + 1, tag⟩ := by
    intro e; rw [rprop, hprop1]; simp
  have hseqs : ∀ t, (σ.st t).seq ≤ (σ2.st t).seq := by
    intro t
    by_cases h : t = s
    · subst h; rw [rseq, hseq1]; omega
    · rw [← hσ2, register_other h, ← hσ1]; simp [nextId, Sys.set_st_other _ _ h]
  refine ⟨?_, ?_, ?_, ?_⟩
  · intro e he
    rcases (hmem e).mp he with he | rfl
    · exact Nat.le_trans (hi.prop_le e he) (hseqs _)
    · show (σ.st s).seq + 1 ≤ (σ2.st s).seq
      rw [rseq, hseq1]; exact Nat.le_refl _
  · intro e he e' he' hp hid'
    rcases (hmem e).mp he with he | rfl <;> rcases (hmem e').mp he' with he' | rfl
    · exact hi.prop_uniq e he e' he' hp hid'
    · have := hi.prop_le e he; simp at hp hid'; rw [hp] at this; omega
    · have := hi.prop_le e' he'; simp at hp hid'; rw [← hp] at this; omega
    · rfl
  · intro hu e he e' he' hid'
    rcases (hmem e).mp he with he | rfl <;> rcases (hmem e').mp he' with he' | rfl
    · exact hi.cross hu e he e' he' hid'
    · exact hv hu e he (by simpa using hid')
    · exact (hv hu e' he' (by simpa using hid'.symm)).symm
    · rfl
  · intro t x hx
    by_cases h : t = s
    · subst h
      show WOK (σ2.proposed ++ _) (σ2.st t).alog t x
      have hx' : x ∈ (σ2.st t).waiters := hx
      rw [← hσ2] at hx'
      have halog : (σ2.st t).alog = (σ.st t).alog := by rw [ralog, ← hσ1]; simp [nextId]
      have hws1 : (σ1.st t).waiters = (σ.st t).waiters := by rw [← hσ1]; simp [nextId]
      rw [halog]
      have hold : ∀ y ∈ (σ.st t).waiters, WOK (σ2.proposed ++ [⟨t, (σ.st t).seq + 1, tag⟩]) (σ.st t).alog t y :=
        fun y hy => (hi.wok t y hy).mono (fun e he => (hmem e).mpr (Or.inl he)) (fun _ h => h)
      rcases mem_register_waiters hx' with hx' | ⟨y, hy, rfl⟩ | rfl
      · exact hold x (hws1 ▸ hx')
      · exact (hold y (hws1 ▸ hy)).orphaned
      · exact ⟨fun _ => (hmem _).mpr (Or.inr rfl), by simp, by simp, fun _ => rfl⟩
    · show WOK (σ2.proposed ++ _) (σ2.st t).alog t x
      have hst : σ2.st t = σ.st t := by
        rw [← hσ2, register_other h, ← hσ1]; simp [nextId, Sys.set_st_other _ _ h]
      have hx' : x ∈ (σ2.st t).waiters := hx
      rw [hst] at hx' ⊢
      exact (hi.wok t x hx').mono (fun e he => (hmem e).mpr (Or.inl he)) (fun _ h => h)

theorem mem_handedToApply {c : PipeCfg} {b : List RawEntry} {e : Entry} (h : e ∈ handedToApply c b) :
    e ∈ b.filterMap cmdOf := by
  unfold handedToApply at h
  by_cases hc : c.applyEachOnce = true
  · simpa [hc] using h
  · simp only [hc, Bool.false_eq_true, if_false] at h
    rcases List.mem_append.mp h with h | h
    · have hs : (beforeLastBarrier b).Sublist b := by
        unfold beforeLastBarrier
        have := (List.dropWhile_sublist (l := b.reverse) isCmdLike).reverse
        simpa using this
      exact (hs.filterMap cmdOf).subset h
    · exact h

theorem inv_step {c : PipeCfg} {u : Bool} (hd : c.completeDeletes = true)
    (hm : c.matchProposer = true ∨ u = true) {σ : Sys} (hi : Inv u σ) (op : Op) (hv : ValidOp u σ op) :
    Inv u (step c σ op) := by
  cases op with
  | next s => exact inv_next hi s
  | propose s w tag => exact inv_propose hi s w tag hv
  | deliver s b => exact inv_applyMany hd hm s _ hi (fun e he => hv e (mem_handedToApply he))
  | rm s id => exact inv_remove hi s id
  | restart s => exact absurd hv (by simp [ValidOp])

theorem inv_run {c : PipeCfg} {u : Bool} (hd : c.completeDeletes = true)
    (hm : c.matchProposer = true ∨ u = true) (ops : List Op) :
    ∀ {σ : Sys}, Inv u σ → ValidRun c u σ ops → Inv u (run c σ ops) := by
  induction ops with
  | nil => intro σ hi _; exact hi
  | cons op ops ih =>
    intro σ hi hv
    exact ih (inv_step hd hm hi op hv.1) hv.2

/-- NoKV applies exactly the command entries raft delivered, in order, whatever the batching. -/
theorem alog_applyMany (c : PipeCfg) (s t : Nat) (es : List Entry) :
    ∀ σ : Sys, ((es.foldl (applyOne c s) σ).st t).alog = (σ.st t).alog ++ (if t = s then es else []) := by
  induction es with
  | nil => intro σ; by_cases h : t = s <;> simp [h]
  | cons e es ih =>
    intro σ
    rw [List.foldl_cons, ih]
    by_cases h : t = s
    · subst h; simp [applyOne]
    · simp [applyOne, Sys.set_st_other _ _ h, h]

theorem alog_step (c : PipeCfg) (ho : c.applyEachOnce = true) (σ : Sys) (op : Op) (t : Nat) :
    ((step c σ op).st t).alog = (σ.st t).alog ++ (deliveredTo t [op]).filterMap cmdOf := by
  cases op with
  | next s =>
    by_cases h : t = s
    · subst h; simp [step, nextId, deliveredTo]
    · simp [step, nextId, deliveredTo, Sys.set_st_other _ _ h]
  | propose s w tag =>
    have h1 : ((propose c σ s w tag).st t).alog = (σ.st t).alog := by
      unfold propose
      by_cases h : t = s
      · subst h
        have := (@register_same c (nextId σ t).1 t (nextId σ t).2 w tag).2.1
        simp only [] at this ⊢
        rw [this]; simp [nextId]
      · simp only []
        rw [register_other h]; simp [nextId, Sys.set_st_other _ _ h]
    simp [step, h1, deliveredTo]
  | deliver s b =>
    simp only [step, handedToApply, ho, if_true, alog_applyMany, deliveredTo]
    by_cases h : s = t
    · subst h; simp
    · have h' : ¬ t = s := fun e => h e.symm
      simp [h, h']
  | rm s id =>
    by_cases h : t = s
    · subst h; simp [step, remove, deliveredTo]
    · simp [step, remove, deliveredTo, Sys.set_st_other _ _ h]
  | restart s =>
    by_cases h : t = s
    · subst h; simp [step, restart, deliveredTo]
    · simp [step, restart, deliveredTo, Sys.set_st_other _ _ h]

theorem deliveredTo_cons (t : Nat) (op : Op) (ops : List Op) :
    deliveredTo t (op :: ops) = deliveredTo t [op] ++ deliveredTo t ops := by
  cases op with
  | deliver s b => by_cases h : s = t <;> simp [deliveredTo, h]
  | _ => simp [deliveredTo]

theorem alog_run (c : PipeCfg) (ho : c.applyEachOnce = true) (ops : List Op) (t : Nat) :
    ∀ σ : Sys, ((run c σ ops).st t).alog = (σ.st t).alog ++ (deliveredTo t ops).filterMap cmdOf := by
  induction ops with
  | nil => intro σ; simp [run, deliveredTo]
  | cons op ops ih =>
    intro σ
    have : run c σ (op :: ops) = run c (step c σ op) ops := rfl
    rw [this, ih, alog_step c ho, deliveredTo_cons t op ops, List.filterMap_append, List.append_assoc]

end NoKV.Cluster

/-
Cluster engine, part 1: the proposal pipeline of a store (`raftstore/store/command_pipeline.go`,
`command_service.go:ProposeCommand`) for several stores side by side.

What is modelled (as the code is, decisions that a code change could flip are `PipeCfg` fields):

* `nextProposalID`   : a bare per-store counter (`cp.seq++`), shared by all regions of the store
                       and also drawn from by `ReadCommand`;
* `registerProposal` : `proposals[id] := waiter`, rejected when the id is already waiting;
* `applyEntries`     : every committed command entry is handed to the applier in log order and
                       then `completeProposal(header.RequestId)` looks the id up in the map of the
                       *applying* store — as-is without asking who proposed the entry
                       (`matchProposer = false`);
* `completeProposal` : removes the id from the map before it hands the result over;
* `removeProposal`   : the timeout path of `ProposeCommand`.

Log entries carry exactly what the code puts into the command header: the request id and the
proposer (`validateCommand` stamps `Header.PeerId` with the local peer); `tag` stands for the
command's payload.  `proposed`, `alog`, `Waiter.tag`, `Waiter.got` are ghost state: they are
never read by a transition, only by the theorems and by the specification column.

What is *not* modelled here: etcd/raft.  Which entries reach which store in which order is an
input (`Op.deliver`); theorems about agreement take it as the named hypothesis `RaftSafety`.
-/
namespace NoKV.Cluster

structure PipeCfg where
  /-- an applied entry completes a waiter only when it was proposed by the applying store:
  `applyEntries` asks for the header's peer (fact `pipe.applyChecksProposer`) *and* that peer id
  is trustworthy, i.e. `validateCommand` overwrites `Header.PeerId` unconditionally with the
  local peer (fact `propose.stampsProposer`) -/
  matchProposer : Bool
  /-- `completeProposal` deletes the id from the map before delivering the result -/
  completeDeletes : Bool
  /-- `registerProposal` rejects an id that is already waiting -/
  regRejectsDup : Bool
  /-- `handleReady` hands every committed command entry to the apply function exactly once, in
  log order: entries are collected into one slice that is applied once after the loop (facts
  `peer.applyPartition`, `peer.applyInOrder`, `pipe.applySkips`).  `false` stands for the shape
  "flush the collected entries before every conf-change / admin entry, then apply the whole
  slice again at the end". -/
  applyEachOnce : Bool
  deriving DecidableEq, Repr

def PipeCfg.good : PipeCfg := ⟨true, true, true, true⟩
def PipeCfg.asIs : PipeCfg := ⟨false, true, true, true⟩

/-- the configuration for which the headline theorem holds -/
def PipeCfg.Good (c : PipeCfg) : Prop :=
  c.matchProposer = true ∧ c.completeDeletes = true ∧ c.regRejectsDup = true ∧ c.applyEachOnce = true
instance PipeCfg.decGood (c : PipeCfg) : Decidable c.Good := by unfold PipeCfg.Good; exact inferInstance

/-- what the as-is code still guarantees: results are handed over at most once -/
def PipeCfg.Once (c : PipeCfg) : Prop := c.completeDeletes = true
instance PipeCfg.decOnce (c : PipeCfg) : Decidable c.Once := by unfold PipeCfg.Once; exact inferInstance

/-- every committed command entry reaches the applier exactly once -/
def PipeCfg.DeliversOnce (c : PipeCfg) : Prop := c.applyEachOnce = true
instance PipeCfg.decDeliversOnce (c : PipeCfg) : Decidable c.DeliversOnce := by
  unfold PipeCfg.DeliversOnce; exact inferInstance

/-- the defect: a batch is partly applied twice -/
def PipeCfg.Redelivers (c : PipeCfg) : Prop := c.applyEachOnce = false
instance PipeCfg.decRedelivers (c : PipeCfg) : Decidable c.Redelivers := by
  unfold PipeCfg.Redelivers; exact inferInstance

/-- the as-is defect: completion keyed by the bare request id on every replica -/
def PipeCfg.AsIs (c : PipeCfg) : Prop :=
  c.matchProposer = false ∧ c.completeDeletes = true ∧ c.regRejectsDup = true ∧ c.applyEachOnce = true
instance PipeCfg.decAsIs (c : PipeCfg) : Decidable c.AsIs := by unfold PipeCfg.AsIs; exact inferInstance

/-- A command entry of the raft log: header (proposer store, request id) and payload identity. -/
structure Entry where
  proposer : Nat
  id : Nat
  tag : Nat
  deriving DecidableEq, Repr

/-- A client blocked in `ProposeCommand`. -/
structure Waiter where
  w : Nat
  id : Nat
  /-- ghost: the command this client proposed -/
  tag : Nat
  /-- still in the `proposals` map -/
  inMap : Bool
  /-- ghost: results handed to the client, oldest first -/
  got : List Entry
  deriving DecidableEq, Repr

structure PStore where
  seq : Nat := 0
  waiters : List Waiter := []
  /-- ghost: command entries applied on this store, in order -/
  alog : List Entry := []
  deriving Repr

structure Sys where
  st : Nat → PStore
  /-- ghost: every entry created by a `ProposeCommand` so far -/
  proposed : List Entry

def Sys.init : Sys := ⟨fun _ => {}, []⟩

def Sys.set (σ : Sys) (s : Nat) (p : PStore) : Sys :=
  { σ with st := fun t => if t = s then p else σ.st t }

/-- `completeProposal(e.id)` on a store's waiters: the (unique) waiter in the map under that id. -/
def completeW (c : PipeCfg) (e : Entry) : List Waiter → List Waiter
  | [] => []
  | x :: xs =>
    if x.inMap = true ∧ x.id = e.id then
      { x with inMap := !c.completeDeletes, got := x.got ++ [e] } :: xs
    else x :: completeW c e xs

/-- take an id out of the map without delivering anything (`removeProposal`, or an overwrite) -/
def orphan (id : Nat) (ws : List Waiter) : List Waiter :=
  ws.map fun x => if x.inMap = true ∧ x.id = id then { x with inMap := false } else x

def waiting (id : Nat) (ws : List Waiter) : Bool :=
  ws.any fun x => x.inMap && x.id == id

/-- does the applying store `s` look for a waiter when it applies `e`? -/
def looksUp (c : PipeCfg) (s : Nat) (e : Entry) : Bool :=
  !c.matchProposer || e.proposer == s

/-- one committed command entry applied on store `s` (`applyEntries` loop body) -/
def applyOne (c : PipeCfg) (s : Nat) (σ : Sys) (e : Entry) : Sys :=
  let p := σ.st s
  σ.set s { p with
    waiters := if looksUp c s e then completeW c e p.waiters else p.waiters,
    alog := p.alog ++ [e] }

def nextId (σ : Sys) (s : Nat) : Sys × Nat :=
  let p := σ.st s
  (σ.set s { p with seq := p.seq + 1 }, p.seq + 1)

/-- `registerProposal`; the Boolean says whether it was accepted -/
def register (c : PipeCfg) (σ : Sys) (s id w tag : Nat) : Sys × Bool :=
  let p := σ.st s
  if waiting id p.waiters then
    if c.regRejectsDup then (σ, false)
    else (σ.set s { p with waiters := orphan id p.waiters ++ [⟨w, id, tag, true, []⟩] }, true)
  else (σ.set s { p with waiters := p.waiters ++ [⟨w, id, tag, true, []⟩] }, true)

def remove (σ : Sys) (s id : Nat) : Sys :=
  let p := σ.st s
  σ.set s { p with waiters := orphan id p.waiters }

/-- The store process restarts: `newCommandPipeline` starts with counter 0 and an empty map, the
clients of the old process image are gone; the state machine (and with it `alog`) survives. -/
def restart (σ : Sys) (s : Nat) : Sys :=
  let p := σ.st s
  σ.set s { p with seq := 0, waiters := p.waiters.map fun x => { x with inMap := false } }

/-- `ProposeCommand` up to the point where it blocks: draw an id, register, hand the entry to raft -/
def propose (c : PipeCfg) (σ : Sys) (s w tag : Nat) : Sys :=
  let (σ₁, id) := nextId σ s
  let (σ₂, _) := register c σ₁ s id w tag
  { σ₂ with proposed := σ₂.proposed ++ [⟨s, id, tag⟩] }

/-- What raft hands to `handleReady` as committed entries. Only `cmd` reaches the applier. -/
inductive RawEntry where
  | cmd (e : Entry)
  | empty        -- the no-op entry of a new leader
  | conf         -- configuration change
  | admin        -- split / merge
  deriving DecidableEq, Repr

def cmdOf : RawEntry → Option Entry
  | .cmd e => some e
  | _ => none

def isCmdLike : RawEntry → Bool
  | .conf => false
  | .admin => false
  | _ => true

/-- the part of a committed batch up to its last conf-change / admin entry -/
def beforeLastBarrier (b : List RawEntry) : List RawEntry := (b.reverse.dropWhile isCmdLike).reverse

/-- the command entries `handleReady` hands to the apply function for one batch of committed
entries, in the order in which it does so -/
def handedToApply (c : PipeCfg) (b : List RawEntry) : List Entry :=
  if c.applyEachOnce then b.filterMap cmdOf
  else (beforeLastBarrier b).filterMap cmdOf ++ b.filterMap cmdOf

inductive Op where
  | next (s : Nat)
  | propose (s w tag : Nat)
  | deliver (s : Nat) (batch : List RawEntry)
  | rm (s id : Nat)
  | restart (s : Nat)
  deriving Repr

def step (c : PipeCfg) (σ : Sys) : Op → Sys
  | .next s => (nextId σ s).1
  | .propose s w tag => propose c σ s w tag
  | .deliver s b => (handedToApply c b).foldl (applyOne c s) σ
  | .rm s id => remove σ s id
  | .restart s => restart σ s

def run (c : PipeCfg) (σ : Sys) (ops : List Op) : Sys := ops.foldl (step c) σ

/-- `u = true` additionally demands that no two stores ever use the same request id. -/
def ValidOp (u : Bool) (σ : Sys) : Op → Prop
  | .next _ => True
  | .propose s _ _ => u = true → ∀ e ∈ σ.proposed, e.id = (σ.st s).seq + 1 → e.proposer = s
  | .deliver _ b => ∀ e ∈ b.filterMap cmdOf, e ∈ σ.proposed   -- raft only delivers what was proposed
  | .rm _ _ => True
  | .restart _ => False   -- the theorems about valid runs speak of one process lifetime per store

def ValidRun (c : PipeCfg) (u : Bool) : Sys → List Op → Prop
  | _, [] => True
  | σ, op :: ops => ValidOp u σ op ∧ ValidRun c u (step c σ op) ops

/-- validity that also admits store restarts (used to show what restarts break) -/
def ValidOpR (σ : Sys) : Op → Prop
  | .restart _ => True
  | op => ValidOp false σ op

def ValidRunR (c : PipeCfg) : Sys → List Op → Prop
  | _, [] => True
  | σ, op :: ops => ValidOpR σ op ∧ ValidRunR c (step c σ op) ops

/-- everything raft delivered to store `s` during `ops`, batches concatenated -/
def deliveredTo (s : Nat) : List Op → List RawEntry
  | [] => []
  | .deliver t b :: ops => if t = s then b ++ deliveredTo s ops else deliveredTo s ops
  | _ :: ops => deliveredTo s ops

/-- **Assumed, not proved here** (etcd/raft's state-machine safety): the sequences of committed
entries handed to any two replicas of a region are prefixes of one another. -/
structure RaftSafety (delivered : Nat → List RawEntry) : Prop where
  prefix_agree : ∀ s t, delivered s <+: delivered t ∨ delivered t <+: delivered s

end NoKV.Cluster
